import PieModel.Util
import PieModel.Graph.Model
