/-
Line-protocol driver for build cases: program table (scripts) + history (external changes,
sessions with top-down requires and bottom-up builds, from-scratch reference builds).
Prints the canonical observation text that the Rust harness prints for the real crates.
-/
import PieModel.Build.Pie
import PieModel.Build.Script
import PieModel.Build.StdSem
import PieModel.Build.ScriptWF.Defs
import PieModel.Build.ScriptCov.Defs
import PieModel.Build.ScriptCov2.Defs

namespace Driver
open PieModel

def FUEL : Nat := 100000

def showOut (n : Int) : String := if n ≥ 0 then s!"Ok({n})" else s!"Err({n})"
def showTask (t : Nat) : String := s!"Tsk({t})"
def showRes (r : Nat) : String := if r ≥ 100 then s!"TR({r})" else s!"MK({r})"
def showOChk : Nat → String
  | 0 => "EqualsChecker" | 1 => "OkEqualsChecker" | 2 => "ErrEqualsChecker" | 3 => "ResultChecker"
  | 5 => "ParityOut" | _ => "AlwaysConsistent"
def showRChk (c : Nat) : String :=
  if c ≥ 30 then s!"FailStampWhen({c - 30})" else if c ≥ 10 then s!"FailWhen({c - 10})"
  else match c with | 1 => "ParityRes" | 2 => "ExistsRes" | 3 => "AlwaysRes" | _ => "MapEqualsChecker"
def showStamp : Stamp → String
  | .unit => "()" | .int n => showOut n
  | .optInt (some n) => s!"Some({n})" | .optInt none => "None"
  | .bool b => if b then "true" else "false"
def showCons (b : Bool) : String := if b then "consistent" else "inconsistent"
def showRCons : Except Int Bool → String
  | .ok b => showCons b | .error e => s!"error({e})"

def showEv : Ev → String
  | .buildStart => "build_start" | .buildEnd => "build_end"
  | .requireStart t c => s!"require_start {showTask t} {showOChk c}"
  | .requireEnd t c s o => s!"require_end {showTask t} {showOChk c} {showStamp s} {showOut o}"
  | .readStart r c => s!"read_start {showRes r} {showRChk c}"
  | .readEnd r c s => s!"read_end {showRes r} {showRChk c} {showStamp s}"
  | .writeStart r c => s!"write_start {showRes r} {showRChk c}"
  | .writeEnd r c s => s!"write_end {showRes r} {showRChk c} {showStamp s}"
  | .checkTaskStart t c s => s!"check_task_start {showTask t} {showOChk c} {showStamp s}"
  | .checkTaskEnd t c s b => s!"check_task_end {showTask t} {showOChk c} {showStamp s} {showCons b}"
  | .checkResStart r c s => s!"check_resource_start {showRes r} {showRChk c} {showStamp s}"
  | .checkResEnd r c s b => s!"check_resource_end {showRes r} {showRChk c} {showStamp s} {showRCons b}"
  | .executeStart t => s!"execute_start {showTask t}"
  | .executeEnd t o => s!"execute_end {showTask t} {showOut o}"
  | .schedTaskStart t => s!"schedule_affected_by_task_start {showTask t}"
  | .schedTaskEnd t => s!"schedule_affected_by_task_end {showTask t}"
  | .checkReqStart t c s => s!"check_task_require_task_start {showTask t} {showOChk c} {showStamp s}"
  | .checkReqEnd t c s b => s!"check_task_require_task_end {showTask t} {showOChk c} {showStamp s} {showCons b}"
  | .schedResStart r => s!"schedule_affected_by_resource_start {showRes r}"
  | .schedResEnd r => s!"schedule_affected_by_resource_end {showRes r}"
  | .checkReadStart t c s => s!"check_task_read_resource_start {showTask t} {showRChk c} {showStamp s}"
  | .checkReadEnd t c s b => s!"check_task_read_resource_end {showTask t} {showRChk c} {showStamp s} {showRCons b}"
  | .scheduleTask t => s!"schedule_task {showTask t}"

def showAbort : Abort → String
  | .cyclic => "cyclic" | .hidden => "hidden" | .overlap => "overlap" | .taskPanic => "taskPanic"
  | .bug _ => "bug" | .outOfFuel => "outOfFuel"

/-- Events recorded by `pie::tracker::event::EventTracker` (it implements 10 of the 23 methods
and clears on `build_start`). -/
def etKeeps : Ev → Bool
  | .buildStart | .buildEnd | .requireStart .. | .requireEnd .. | .readStart .. | .readEnd ..
  | .writeStart .. | .writeEnd .. | .executeStart .. | .executeEnd .. => true
  | _ => false

/-- The task-side log derived from the trace (the model emits execute_start right before the
body runs and execute_end right after it returns). -/
def taskLog (evs : List Ev) : List String :=
  evs.filterMap fun e => match e with
    | .executeStart t => some s!"tl enter {t}"
    | .executeEnd t o => some s!"tl exit {t} {showOut o}"
    | _ => none

/-! ### parsing scripts (prefix token stream) -/

partial def parseExpr : List String → Option (Expr × List String)
  | "k" :: n :: r => n.toInt?.map fun n => (.const n, r)
  | "v" :: i :: r => i.toNat?.map fun i => (.var i, r)
  | "n" :: i :: r => i.toNat?.map fun i => (.isNone i, r)
  | "%" :: r => do let (a, r) ← parseExpr r; pure (.mod2 a, r)
  | op :: r =>
    if op ∈ ["+", "-", "*", "<", "="] then do
      let (a, r) ← parseExpr r
      let (b, r) ← parseExpr r
      let e := match op with
        | "+" => Expr.add a b | "-" => .sub a b | "*" => .mul a b | "<" => .lt a b | _ => .eq a b
      pure (e, r)
    else none
  | [] => none

partial def parseScript : List String → Option (Script × List String)
  | "ret" :: r => do let (e, r) ← parseExpr r; pure (.ret e, r)
  | "panic" :: r => some (.panic, r)
  | "req" :: t :: c :: r => do
    let t ← t.toNat?; let c ← c.toNat?
    let (k, r) ← parseScript r
    pure (.req t c k, r)
  | "read" :: x :: c :: r => do
    let x ← x.toNat?; let c ← c.toNat?
    let (k, r) ← parseScript r
    pure (.read x c k, r)
  | w :: x :: c :: r =>
    if w == "write" || w == "wrote" then do
      let x ← x.toNat?; let c ← c.toNat?
      let (e, r) ← match r with
        | "none" :: r => some (none, r)
        | "some" :: r => (parseExpr r).map fun (e, r) => (some e, r)
        | _ => none
      let (k, r) ← parseScript r
      pure (if w == "write" then .write x c e k else .wrote x c e k, r)
    else if w == "if" then do
      let (e, r) ← parseExpr (x :: c :: r)
      let (a, r) ← parseScript r
      let (b, r) ← parseScript r
      pure (.ite e a b, r)
    else none
  | _ => none

/-! ### store dump (same text as the Rust hook `Pie::verif_dump_store`) -/

def showDep : Dep → String
  | .reserved => "Reserved"
  | .require t c s => s!"Require({showTask t},{showOChk c},{showStamp s})"
  | .read r c s => s!"Read({showRes r},{showRChk c},{showStamp s})"
  | .write r c s => s!"Write({showRes r},{showRChk c},{showStamp s})"

def nodeName (st : Store) (n : Nat) : String :=
  match st.g.getNodeData n with
  | some (.task t _) => showTask t | some (.res r) => showRes r | none => "?"

def showInc (st : Store) (p : Nat × Dep) : String :=
  let k := match p.2 with | .reserved => "Reserved" | .require .. => "Require" | .read .. => "Read" | .write .. => "Write"
  s!"{k}({nodeName st p.1})"

def dumpStore (st : Store) : List String :=
  let ns := isortBy (fun (kv : Nat × NodeInfo NodeData) => kv.2.topo) st.g.nodes
  ns.map fun kv =>
    let n := kv.1
    let inc := ";".intercalate ((st.g.incomingEdges n).map (showInc st))
    match kv.2.data with
    | .task t o =>
      let deps := ";".intercalate ((st.g.outgoingEdgeData n).map showDep)
      let os := match o with | some v => s!"Some({showOut v})" | none => "None"
      s!"rank={kv.2.topo} task={showTask t} out={os} deps=[{deps}] in=[{inc}]"
    | .res r => s!"rank={kv.2.topo} res={showRes r} in=[{inc}]"

def showFs (fs : List (Nat × Int)) : String :=
  let l := isortBy (fun (kv : Nat × Int) => kv.1) fs
  "[" ++ ",".intercalate (l.map fun kv => s!"{kv.1}:{kv.2}") ++ "]"

/-! ### running a case -/

structure BState where
  tbl : List (Nat × Script) := []
  pie : PieSt := {}
  sess : Option Sess := none      -- live session
  dead : Bool := false            -- session aborted (dropped by unwinding)
  aborted : Option Sess := none   -- the session state at the abort point (the caller may go on using the session: `retry`)
  out : Array String := #[]

def BState.put (b : BState) (l : String) : BState := { b with out := b.out.push l }
def BState.puts (b : BState) (ls : List String) : BState := ls.foldl BState.put b

def body (b : BState) : Nat → Prog := bodyOf b.tbl

/-- print the events the session emitted since `n0` -/
def newEvents (s : Sess) (n0 : Nat) : List Ev := s.trace.drop n0

def evLines (evs : List Ev) : List String := evs.map fun e => "ev " ++ showEv e

/-- `EventTracker` content after a build: events since the last `build_start`, the 10 recorded
kinds, with `index` = position in the stored vector. -/
def etLines (evs : List Ev) : List String :=
  -- events from the last build_start on
  let rec lastBuild (l : List Ev) (acc : List Ev) : List Ev :=
    match l with
    | [] => acc
    | e :: r => match e with
      | .buildStart => lastBuild r [e]
      | _ => lastBuild r (acc ++ [e])
  let kept := (lastBuild evs []).filter etKeeps
  kept.zipIdx.map fun (e, i) => s!"et {i} {showEv e}"

def finishOp (b : BState) (s : Sess) (n0 : Nat) (r : Res String) : BState :=
  let evs := newEvents s n0
  let b := b.puts (evLines evs)
  let b := b.puts (taskLog evs)
  let b := b.puts (etLines s.trace)
  let b := b.put "composite same"
  match r with
  | .ok txt => { b.put txt with sess := some s, pie := s.toPie }
  | .abort a => { b.put s!"abort {showAbort a}" with sess := none, dead := true, pie := s.toPie, aborted := some s }

def natList (l : List String) : Option (List Nat) := l.mapM (·.toNat?)

def stepB (b : BState) (line : String) : Option BState :=
  let toks := line.splitOn " "
  match toks with
  | "task" :: t :: rest => do
    let t ← t.toNat?
    let (sc, r) ← parseScript rest
    if r != [] then none else pure { b with tbl := (b.tbl.filter (·.1 != t)) ++ [(t, sc)] }
  | ["set", r, v] => do
    let r ← r.toNat?; let v ← v.toInt?
    if b.sess.isSome || b.dead then none else pure { b with pie := b.pie.setContent r (some v) }
  | ["del", r] => do
    let r ← r.toNat?
    if b.sess.isSome || b.dead then none else pure { b with pie := b.pie.setContent r none }
  | ["session"] =>
    if b.sess.isSome || b.dead then none
    else pure ({ b with sess := some b.pie.newSession, aborted := none }.put "op session")
  | ["retry"] =>
    -- the caller caught the panic and goes on using the SAME session object: its state is the state at the abort point
    if b.dead then pure ({ b with sess := b.aborted, dead := false }.put "op retry")
    else if b.sess.isSome then pure (b.put "op retry") else none
  | ["req", t] => do
    let t ← t.toNat?
    let b := b.put s!"op req {t}"
    match b.sess with
    | none => if b.dead then pure (b.put "skipped") else none
    | some s =>
      let n0 := s.trace.length
      let (s', r) := sessionRequire stdSem (body b) FUEL s t
      pure (finishOp b s' n0 (match r with | .ok o => .ok s!"out {showOut o}" | .abort a => .abort a))
  | "bu" :: rs => do
    let rs ← natList rs
    let b := b.put s!"op {line}"
    match b.sess with
    | none => if b.dead then pure (b.put "skipped") else none
    | some s =>
      let n0 := s.trace.length
      let (s', r) := bottomUpBuild stdSem (body b) FUEL s rs
      pure (finishOp b s' n0 (match r with | .ok () => .ok "done" | .abort a => .abort a))
  | ["reqknown"] =>
    match b.sess with
    | none => none
    | some s =>
      if s.trace.length != 0 then none else
      let b := b.put "op reqknown"
      let ts := knownTasks s.store
      -- one Session::require per known task, stopping at the first abort
      let rec go (b : BState) (s : Sess) : List Nat → BState
        | [] => { b with sess := some s, pie := s.toPie }
        | t :: ts =>
          let n0 := s.trace.length
          let (s', r) := sessionRequire stdSem (body b) FUEL s t
          let b := b.put s!"known {t}"
          let b := finishOp b s' n0 (match r with | .ok o => .ok s!"out {showOut o}" | .abort a => .abort a)
          match r with
          | .ok _ => go b s' ts
          | .abort _ => b
      pure (go b s ts)
  | ["endsession"] =>
    let b := b.put "op endsession"
    let b := match b.sess with
      | some s => b.put ("errors [" ++ ",".intercalate (s.errors.map fun e => s!"E({e})") ++ "]")
      | none => b.put "errors n/a"
    let pie := match b.sess with | some s => s.toPie | none => b.pie
    let b := b.put ("fs " ++ showFs pie.fs)
    let b := b.puts ((dumpStore pie.store).map ("st " ++ ·))
    pure { b with sess := none, dead := false, pie := pie }
  | "cleanknown" :: [] | "cleannodes" :: [] | "clean" :: _ => do
    let ts ← if toks == ["cleanknown"] then some (knownTasks b.pie.store)
             else if toks == ["cleannodes"] then some (nodeTasks b.pie.store) else natList (toks.drop 1)
    if b.sess.isSome || b.dead then none else
    let b := b.put s!"op {line}"
    let b := b.put ("cl roots [" ++ ",".intercalate (ts.map toString) ++ "]")
    let (s, r) := cleanBuild stdSem (body b) FUEL b.pie.fs ts
    let execd := s.trace.filterMap fun e => match e with | .executeStart t => some (toString t) | _ => none
    let b := b.put ("cl exec [" ++ ",".intercalate execd ++ "]")
    let b := match r with
      | .ok os => b.put ("cl out [" ++ ",".intercalate (os.map showOut) ++ "]")
      | .abort a => b.put s!"cl abort {showAbort a}"
    pure (b.put ("cl fs " ++ showFs s.fs))
  | _ => none

/-- Model-only line: the VERIFIED Boolean checkers of the theorem hypotheses (`Build/ScriptWF/Defs.lean`, soundness in
`Props/ScriptWF.lean`) evaluated on the program table of the case. -/
def hypLine (tbl : List (Nat × Script)) : String :=
  let b := fun (x : Bool) => if x then "1" else "0"
  s!"m: hyp wf={b (Table.wfB tbl)} free={b (Table.wfFreeB tbl)} static={b (Table.staticRolesB tbl)} total={b (Table.stampTotalB tbl)} nofail={b (Table.noFailB tbl)} cov={b (Table.covB tbl)} wfcov={b (Table.wfCovB tbl)}"

def runBuildCase (lines : List String) : List String :=
  let rec go (b : BState) : List String → List String
    | [] => (b.put (hypLine b.tbl)).out.toList
    | l :: ls =>
      -- a session must be closed (the harness needs the whole session to run it)
      if l == "session" && !(ls.contains "endsession") then (b.put ("bad-op " ++ l)).out.toList else
      match stepB b l with
      | some b' => go b' ls
      | none => (b.put ("bad-op " ++ l)).out.toList
  go {} lines

end Driver
