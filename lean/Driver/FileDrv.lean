/-
Line-protocol driver for lib13 (file resource + three checkers); same text as
`/verif/harness/src/files.rs`.
-/
import PieModel.Lib.FileRes
import Driver.BuildDrv

namespace Driver
open PieModel FileRes

def fileContent (size seed : Nat) : List Nat :=
  if seed ≥ 100 then List.replicate size (seed - 100)     -- uniform content: files differing only in length
  else (List.range size).map fun i => (seed * 31 + i * 7) % 251
def byteSum (b : List Nat) : Nat := b.foldl (fun a x => (a * 31 + x) % 1000003) 0

inductive FStamp | e (b : Bool) | m (t : Option Nat) | h (k : Option Nat)

structure FState where
  fs : List (Nat × PathSt) := []
  stamps : Array FStamp := #[]
  hashes : Array (List Nat) := #[]      -- the abstract hash: index of the byte string (injective)

def FState.get (s : FState) (p : Nat) : PathSt := (aget s.fs p).getD .absent
def FState.set (s : FState) (p : Nat) (st : PathSt) : FState := { s with fs := aset s.fs p st }

/-- intern a byte string, returning its index (the model's injective `hash`) -/
def FState.hashIdx (s : FState) (b : List Nat) : FState × Nat :=
  match s.hashes.toList.findIdx? (· == b) with
  | some k => (s, k)
  | none => ({ s with hashes := s.hashes.push b }, s.hashes.size)

def hashBytes : PathSt → Option (List Nat)
  | .absent => none | .file c _ => some c | .dir ns _ => some (dirBytes ns)

def showFStamp : FStamp → String
  | .e b => toString b
  | .m (some t) => s!"Some({t})" | .m none => "None"
  | .h (some k) => s!"Some(h#{k})" | .h none => "None"

def insertName (n : List Nat) : List (List Nat) → List (List Nat)
  | [] => [n]
  | m :: ms => if n == m then m :: ms else if compare n m == .lt then n :: m :: ms else m :: insertName n ms
def strBytes (s : String) : List Nat := s.toUTF8.toList.map (·.toNat)
def sortedNames (l : List String) : List (List Nat) := l.foldl (fun acc s => insertName (strBytes s) acc) []
def showName (b : List Nat) : String := String.ofList (b.map fun n => Char.ofNat n)

/-- take a stamp of kind `c` of path state `st` (all routes agree in the model; the reader route goes
through `OpenRead`) -/
def takeStamp (s : FState) (c : String) (route : String) (st : PathSt) : Option (FState × FStamp) :=
  match c with
  | "E" => some (s, .e (if route == "reader" then (existsStampReader (openRead st)).1 else existsStamp st))
  | "M" => some (s, .m (if route == "reader" then (modifiedStampReader (openRead st)).1 else modifiedStamp st))
  | "H" =>
    -- the abstract hash is the interning index; `hashStampReader` reads through the reader
    let bytes := if route == "reader" then
        match st with
        | .file _ _ => some ((openRead st).readToEnd.1)
        | _ => hashBytes st
      else hashBytes st
    match bytes with
    | none => some (s, .h none)
    | some b => let (s', k) := s.hashIdx b; some (s', .h (some k))
  | _ => none

def pathId (p : String) : Option Nat := p.toNat?.bind fun i => if i ≤ 5 then some i else none

def lib13Step (s : FState) (l : String) : Option (FState × String) :=
  match l.splitOn " " with
  | ["mkfile", p, size, seed, mt] => do
    let p ← pathId p; let size ← size.toNat?; let seed ← seed.toNat?; let mt ← mt.toNat?
    pure (s.set p (.file (fileContent size seed) mt), "ok")
  | "mkdir" :: p :: mt :: names => do
    let p ← pathId p; let mt ← mt.toNat?
    pure (s.set p (.dir (sortedNames names) mt), "ok")
  | ["rm", p] => do let p ← pathId p; pure (s.set p .absent, "ok")
  | ["touch", p, mt] => do
    let p ← pathId p; let mt ← mt.toNat?
    match s.get p with
    | .absent => pure (s, "absent")
    | .file c _ => pure (s.set p (.file c mt), "ok")
    | .dir ns _ => pure (s.set p (.dir ns mt), "ok")
  | ["stamp", c, route, p] => do
    let p ← pathId p
    if route != "path" && route != "reader" then none else
    let (s', st) ← takeStamp s c route (s.get p)
    pure ({ s' with stamps := s'.stamps.push st }, s!"s{s'.stamps.size} {showFStamp st}")
  | ["wstamp", c, p, size, seed, mt, keep] => do
    let p ← pathId p; let size ← size.toNat?; let seed ← seed.toNat?; let mt ← mt.toNat?
    if c != "E" && c != "M" && c != "H" then none else
    match openWrite (s.get p) 0 with
    | .error _ => pure (s, "err AlreadyExists")
    | .ok _ =>
      let st := if keep == "remove" then PathSt.absent else PathSt.file (fileContent size seed) mt
      let s := s.set p st
      let (s', stamp) ← takeStamp s c "writer" st
      pure ({ s' with stamps := s'.stamps.push stamp }, s!"s{s'.stamps.size} {showFStamp stamp}")
  | ["check", c, p, k] => do
    let p ← pathId p; let k ← k.toNat?
    let old ← s.stamps[k]?
    let st := s.get p
    let ok ← match c, old with
      | "E", .e a => some (existsCheck st a)
      | "M", .m a => some (modifiedCheck st a)
      | "H", .h a =>
        -- compare under the abstract injective hash without interning a new value
        match a, hashBytes st with
        | none, none => some true
        | some i, some b => some (s.hashes[i]? == some b)
        | _, _ => some false
      | _, _ => none
    pure (s, showCons ok)
  | ["cstamp", c, p] => do
    -- a path below path `p`: absent unless `p` is a regular file, in which case the OS error (ENOTDIR) is returned
    let p ← pathId p
    match s.get p with
    | .file _ _ => pure (s, "err")
    | _ =>
      let (s', st) ← takeStamp s c "path" PathSt.absent
      pure ({ s' with stamps := s'.stamps.push st }, s!"s{s'.stamps.size} {showFStamp st}")
  | ["ccheck", c, p, k] => do
    let p ← pathId p; let k ← k.toNat?
    let old ← s.stamps[k]?
    match s.get p with
    | .file _ _ => match c, old with
      | "E", .e _ | "M", .m _ | "H", .h _ => pure (s, "err")
      | _, _ => none
    | _ =>
      let st := PathSt.absent
      let ok ← match c, old with
        | "E", .e a => some (existsCheck st a)
        | "M", .m a => some (modifiedCheck st a)
        | "H", .h a => match a with | none => some true | some _ => some false
        | _, _ => none
      pure (s, showCons ok)
  | ["readafter", c, p] => do
    let p ← pathId p
    let r := openRead (s.get p)
    let r' ← match c with
      | "E" => some (existsStampReader r).2
      | "M" => some (modifiedStampReader r).2
      | "H" => some (hashStampReader (fun _ => 0) r).2
      | _ => none
    match r'.st with
    | .file _ _ => let b := r'.readToEnd.1; pure (s, s!"len={b.length} sum={byteSum b}")
    | _ => pure (s, "notfile")
  | ["write", p, mt] => do
    let p ← pathId p; let mt ← mt.toNat?
    match openWrite (s.get p) mt with
    | .error _ => pure (s, "err AlreadyExists")
    | .ok st => pure (s.set p st, "ok")
  | ["state", p] => do
    let p ← pathId p
    match s.get p with
    | .absent => pure (s, "absent")
    | .file c _ => pure (s, s!"file len={c.length} sum={byteSum c}")
    | .dir ns mt => pure (s, s!"dir [{",".intercalate (ns.map showName)}] {mt}")
  | _ => none

def runLib13 (lines : List String) : List String :=
  let rec go (s : FState) : List String → List String → List String
    | [], acc => acc.reverse
    | l :: ls, acc => match lib13Step s l with
      | some (s', r) => go s' ls (s!"{l} -> {r}" :: acc)
      | none => (s!"bad-op {l}" :: acc).reverse
  go {} lines []

end Driver
