/-
Line-protocol drivers for the library cases (lib12, lib14, lib15, lib17); same text as
`/verif/harness/src/libs.rs` prints for the real crate.
-/
import PieModel.Lib.Checkers
import PieModel.Lib.MapRes
import PieModel.Lib.Identity
import PieModel.Lib.MapObj
import PieModel.Lib.EventTracker
import PieModel.Build.Pie
import Driver.BuildDrv
import Driver.GraphDrv

namespace Driver
open PieModel

/-! ### lib12 -/
def decodeOut (n : Int) : OChk.Out Int Int := if n ≥ 0 then .ok n else .err n
def showOpt (o : Option Int) : String := match o with | some n => s!"Some({n})" | none => "None"

def lib12Line (l : String) : Option String :=
  match l.splitOn " " with
  | ["chk", c, a, b] => do
    let c ← c.toNat?; let a ← a.toInt?; let b ← b.toInt?
    let (o1, o2) := (decodeOut a, decodeOut b)
    let (stamp, ok) ← match c with
      | 0 => some (showOut a, OChk.equalsCheck o2 (OChk.equalsStamp o1))
      | 1 => some (showOpt (OChk.okEqualsStamp o1), OChk.okEqualsCheck o2 (OChk.okEqualsStamp o1))
      | 2 => some (showOpt (OChk.errEqualsStamp o1), OChk.errEqualsCheck o2 (OChk.errEqualsStamp o1))
      | 3 => some (toString (OChk.resultStamp o1), OChk.resultCheck o2 (OChk.resultStamp o1))
      | 4 => some ("()", OChk.alwaysCheck o2 (OChk.alwaysStamp o1))
      | _ => none
    pure s!"{l} -> stamp={stamp} {showCons ok} obj={showCons ok} objstamp={stamp} objtyped={showCons ok}"
  | [fam, c, a, b] => do
    -- other output types: `Result<(), i64>` (chk2), `Result<bool, ()>` (chk3), `Result<String, ()>` (chk4): the checkers
    -- are generic; the payloads are normalised to what the type can distinguish; verdicts only
    let c ← c.toNat?; let a ← a.toInt?; let b ← b.toInt?
    let norm : Int → Int ← match fam with
      | "chk2" => some (fun n => if n ≥ 0 then 0 else n)
      | "chk3" => some (fun n => if n ≥ 0 then n % 2 else -1)
      | "chk4" => some (fun n => if n ≥ 0 then n else -1)
      | _ => none
    let (o1, o2) := (decodeOut (norm a), decodeOut (norm b))
    let ok ← match c with
      | 0 => some (OChk.equalsCheck o2 (OChk.equalsStamp o1))
      | 1 => some (OChk.okEqualsCheck o2 (OChk.okEqualsStamp o1))
      | 2 => some (OChk.errEqualsCheck o2 (OChk.errEqualsStamp o1))
      | 3 => some (OChk.resultCheck o2 (OChk.resultStamp o1))
      | 4 => some (OChk.alwaysCheck o2 (OChk.alwaysStamp o1))
      | _ => none
    pure s!"{l} -> {showCons ok} obj={showCons ok} objtyped={showCons ok}"
  | _ => none

def runLines (f : String → Option String) (lines : List String) : List String :=
  let rec go : List String → List String → List String
    | [], acc => acc.reverse
    | l :: ls, acc => match f l with
      | some r => go ls (r :: acc)
      | none => (s!"bad-op {l}" :: acc).reverse
  go lines []

/-! ### lib14 -/
open MapRes in
def showDyn : Dyn → String
  | .int n => s!"int:{n}"
  | .str s => s!"str:{s}"
  | .map k m =>
    let l := isortBy (fun (kv : Nat × Int) => kv.1) m
    s!"map{if k == 0 then "A" else "B"}:[" ++ ",".intercalate (l.map fun kv => s!"{kv.1}:{kv.2}") ++ "]"

def showO (o : Option Int) : String := match o with | some n => s!"some:{n}" | none => "none"

def rtag : String → Option Nat | "A" => some 0 | "B" => some 1 | "M" => some 2 | _ => none
def stag : String → Option Nat | "int" => some 0 | "str" => some 1 | "mapA" => some 2 | "mapB" => some 3 | _ => none

def parseMap (s : String) : Option (List (Nat × Int)) :=
  (s.splitOn ",").filter (· != "") |>.mapM fun kv =>
    match kv.splitOn ":" with
    | [k, v] => do let k ← k.toNat?; let v ← v.toInt?; pure (k, v)
    | _ => none

/-- build the map the way repeated `HashMap::insert` does (later bindings win) -/
def mapOfList (l : List (Nat × Int)) : List (Nat × Int) := l.foldl (fun m kv => aset m kv.1 kv.2) []

open MapRes in
def lib14Step (m : TMap) (l : String) : Option (TMap × String) :=
  match l.splitOn " " with
  | ["get", r, s] => do
    let r ← rtag r; let s ← stag s
    pure (m, match get m r s with | some d => showDyn d | none => "none")
  | ["getmut", r, "int", d] => do
    let r ← rtag r; let d ← d.toInt?
    match get m r 0 with
    | some (.int n) => pure (set m r (.int (n + d)), s!"int:{n + d}")
    | _ => pure (m, "none")
  | ["set", r, s, v] => do
    let r ← rtag r
    let d ← match s with
      | "int" => v.toInt?.map Dyn.int
      | "str" => some (Dyn.str v)
      | "mapA" => (parseMap v).map fun l => Dyn.map 0 (mapOfList l)
      | "mapB" => (parseMap v).map fun l => Dyn.map 1 (mapOfList l)
      | _ => none
    pure (set m r d, "ok")
  | ["setboxed", r, "int", v] => do
    let r ← rtag r; let v ← v.toInt?
    pure (set m r (.int v), "ok")
  | ["gosd", r, s] => do
    let r ← rtag r; let s ← stag s
    let (m', d) := getOrSetDefault m r s
    pure (m', showDyn d)
  | ["getboxed", r] => do
    let r ← rtag r
    pure (m, match getBoxed m r with | some d => showDyn d | none => "none")
  | op :: k :: key :: rest => do
    let k ← rtag k; let key ← key.toNat?
    if k > 1 then none else
    match op, rest with
    | "ins", [v] | "wins", [v] => do
      let v ← v.toInt?
      let (m1, old) := read m k key
      pure (write m1 k key (some v), showO old)
    | "rem", [] | "wrem", [] =>
      let (m1, old) := read m k key
      pure (write m1 k key none, showO old)
    | "read", [] | "wget", [] => let (m1, v) := read m k key; pure (m1, showO v)
    | "wgetmut", [d] => do
      let d ← d.toInt?
      let (m1, v) := read m k key
      match v with
      | some x => pure (write m1 k key (some (x + d)), showO (some (x + d)))
      | none => pure (m1, "none")
    | "stamp", [_route] => let (m1, v) := stamp m k key; pure (m1, showO v)
    | "check", [s] => do
      let s ← if s == "none" then some none else s.toInt?.map some
      let (m1, ok) := check m k key s
      pure (m1, showCons ok)
    | _, _ => none
  | _ => none

/-- The object flavour of the map resource (`MapKeyObjToObj`: type-erased keys `Box<dyn KeyObj>` to type-erased values
`Box<dyn MapValueObj>`): the VERIFIED model `PieModel/Lib/MapObj.lean` (theorems `Props/C14Obj.lean`: refinement to a map
keyed by (concrete type, value), aliasing iff `eq_any`, checker iff, isolation from the typed maps).  Zero-sized types
(tags 2, 3) carry value 0.  The driver keeps the stamps taken so far. -/
structure OSt where
  omap : MapObj.OState := []
  ostamps : Array (Option Identity.Key) := #[]

def okeyOf (t n : Nat) : Option Identity.Key :=
  if t > 3 then none else some (MapObj.okey t (if t ≥ 2 then 0 else n))

def oshow (v : Option Identity.Key) : String :=
  match v with | some x => s!"some:{x.ty}:{x.val}" | none => "none"

def lib14OStep (o : OSt) (l : String) : Option (OSt × String) :=
  match l.splitOn " " with
  | ["oins", kt, kn, vt, vn] => do
    let k ← okeyOf (← kt.toNat?) (← kn.toNat?); let v ← okeyOf (← vt.toNat?) (← vn.toNat?)
    pure ({ o with omap := MapObj.objInsert o.omap k v }, oshow (MapObj.objRead o.omap k))
  | ["orem", kt, kn] => do
    let k ← okeyOf (← kt.toNat?) (← kn.toNat?)
    pure ({ o with omap := MapObj.objRemove o.omap k }, oshow (MapObj.objRead o.omap k))
  | ["oread", kt, kn] => do
    let k ← okeyOf (← kt.toNat?) (← kn.toNat?)
    pure (o, oshow (MapObj.objRead o.omap k))
  | ["ostamp", kt, kn] => do
    let k ← okeyOf (← kt.toNat?) (← kn.toNat?)
    let st := MapObj.objStampPath o.omap k
    pure ({ o with ostamps := o.ostamps.push st }, s!"s{o.ostamps.size} {oshow st}")
  | ["ocheck", kt, kn, i] => do
    let k ← okeyOf (← kt.toNat?) (← kn.toNat?); let i ← i.toNat?
    let st ← o.ostamps[i]?
    pure (o, showCons (MapObj.objCheck o.omap k st))
  | _ => none

def runLib14 (lines : List String) : List String :=
  let rec go (m : MapRes.TMap) (o : OSt) : List String → List String → List String
    | [], acc => acc.reverse
    | l :: ls, acc =>
      if l.startsWith "o" then
        match lib14OStep o l with
        | some (o', r) => go m o' ls (s!"{l} -> {r}" :: acc)
        | none => (s!"bad-op {l}" :: acc).reverse
      else match lib14Step m l with
      | some (m', r) => go m' o ls (s!"{l} -> {r}" :: acc)
      | none => (s!"bad-op {l}" :: acc).reverse
  go [] {} lines []

/-! ### lib15 -/
def enc15 (ty n : Nat) : Nat := Identity.encode { ty := ty, val := n }

/-- The body of the lib15 tasks: `TA(n)` (ty 0), `TB(n)` (ty 1), `Box/Rc/Arc<TA>` (2,3,4; they run
`TA`'s body inside their own node). -/
def body15 (e : Nat) : Prog :=
  let ty := e % 16
  let n := e / 16
  let base : Int := if ty == 1 then 1 else 0
  -- zero-sized task types `UA` (ty 7) and `UB` (ty 8): read `RA(0)`, return `ty*1000 + a`
  if ty == 7 || ty == 8 then
    .read (enc15 5 0) 0 fun ra =>
      let a : Int := match ra with | .ok (some v) => v | _ => 0
      .ret ((ty : Int) * 1000 + a)
  else
  .read (enc15 5 n) 0 fun ra =>
  .read (enc15 6 n) 0 fun rb =>
    let a : Int := match ra with | .ok (some v) => v | _ => 0
    let b : Int := match rb with | .ok (some v) => v | _ => 0
    if n > 0 then
      .req (enc15 0 (n - 1)) 0 fun x => .req (enc15 1 (n - 1)) 0 fun y =>
        .ret (base * 1000 + n * 10 + a + 100 * b + 7 * (x + y))
    else .ret (base * 1000 + n * 10 + a + 100 * b)

/-- plain `i64` outputs with `EqualsChecker`: stamp = the value -/
def sem15 : Sem := { stdSem with ostamp := fun _ o => .int o, ocheck := fun _ o s => s == .int o }

structure S15 where
  pie : PieSt := {}
  out : Array String := #[]

def runLib15 (lines : List String) : List String :=
  let rec sess (st : S15) (s : Sess) : List String → Option (S15 × List String)
    | [] => none
    | l :: ls =>
      if l == "endsession" then
        let tasks := s.store.g.nodes.filter (fun kv => match kv.2.data with | .task .. => true | _ => false)
        let ress := s.store.g.nodes.filter (fun kv => match kv.2.data with | .res .. => true | _ => false)
        some ({ pie := s.toPie, out := st.out.push s!"endsession tasks={tasks.length} resources={ress.length}" }, ls)
      else match l.splitOn " " with
        | ["req", ty, n] => do
          let ty ← ty.toNat?; let n ← n.toNat?
          if ty > 4 && !(ty == 7 || ty == 8) then none else
          if (ty == 7 || ty == 8) && n != 0 then none else
          let n0 := s.trace.length
          let (s', r) := sessionRequire sem15 body15 FUEL s (enc15 ty n)
          let execs := (s'.trace.drop n0).filterMap fun e => match e with
            | .executeStart t => some s!"exec {if t % 16 == 1 then 1 else if t % 16 == 7 then 7 else if t % 16 == 8 then 8 else 0} {t / 16}" | _ => none
          let st := { st with out := st.out ++ execs.toArray }
          match r with
          | .ok o => sess { st with out := st.out.push s!"{l} -> out {o}" } s' ls
          | .abort a => sess { st with out := st.out.push s!"{l} -> abort {showAbort a}" } s' ls
        | _ => none
  let rec go (fuel : Nat) (st : S15) : List String → List String
    | [] => st.out.toList
    | l :: ls =>
      match fuel with
      | 0 => st.out.toList
      | fuel + 1 =>
      match l.splitOn " " with
      | ["set", rty, n, v] =>
        match rty.toNat?, n.toNat?, v.toInt? with
        | some rty, some n, some v =>
          if rty == 5 || rty == 6 then
            go fuel { pie := st.pie.setContent (enc15 rty n) (some v), out := st.out.push s!"{l} -> ok" } ls
          else (st.out.push s!"bad-op {l}").toList
        | _, _, _ => (st.out.push s!"bad-op {l}").toList
      | ["eq", t1, n1, t2, n2] =>
        match t1.toNat?, n1.toNat?, t2.toNat?, n2.toNat? with
        | some t1, some n1, some t2, some n2 =>
          if t1 > 8 || t2 > 8 then (st.out.push s!"bad-op {l}").toList else
          if ((t1 == 7 || t1 == 8) && n1 != 0) || ((t2 == 7 || t2 == 8) && n2 != 0) then (st.out.push s!"bad-op {l}").toList else
          let e := Identity.eqAny { ty := t1, val := n1 } { ty := t2, val := n2 }
          let cls := fun (t : Nat) => if t ≤ 4 then 0 else if t ≤ 6 then 1 else 2
          let de := cls t1 == cls t2 && (cls t1 == 2 || n1 == n2)
          go fuel { st with out := st.out.push s!"{l} -> {e} debug_equal={de}" } ls
        | _, _, _, _ => (st.out.push s!"bad-op {l}").toList
      | ["session"] =>
        match sess { st with out := st.out.push "session" } st.pie.newSession ls with
        | some (st', rest) => go fuel st' rest
        | none => (st.out.push s!"bad-op {l}").toList
      | _ => (st.out.push s!"bad-op {l}").toList
  go (lines.length + 1) {} lines

/-! ### lib17 -/
-- b01 comes from Driver.GraphDrv
def showETEvent : ET.Event → String
  | .buildStart => "build_start" | .buildEnd => "build_end"
  | .requireStart t c i => s!"require_start {showTask t} {showOChk c} idx={i}"
  | .requireEnd t c s o i => s!"require_end {showTask t} {showOChk c} {showStamp s} {showOut o} idx={i}"
  | .readStart r c i => s!"read_start {showRes r} {showRChk c} idx={i}"
  | .readEnd r c s i => s!"read_end {showRes r} {showRChk c} {showStamp s} idx={i}"
  | .writeStart r c i => s!"write_start {showRes r} {showRChk c} idx={i}"
  | .writeEnd r c s i => s!"write_end {showRes r} {showRChk c} {showStamp s} idx={i}"
  | .executeStart t i => s!"execute_start {showTask t} idx={i}"
  | .executeEnd t o i => s!"execute_end {showTask t} {showOut o} idx={i}"

def parseCall : List String → Option Ev
  | ["bs"] => some .buildStart | ["be"] => some .buildEnd
  | ["rqs", x] => x.toNat?.map fun x => .requireStart x 0
  | ["rqe", x, o] => do let x ← x.toNat?; let o ← o.toInt?; pure (.requireEnd x 0 (.int o) o)
  | ["rds", r] => r.toNat?.map fun r => .readStart r 0
  | ["rde", r, v] => do
    let r ← r.toNat?
    let v ← if v == "none" then some none else v.toInt?.map some
    pure (.readEnd r 0 (.optInt v))
  | ["wrs", r] => r.toNat?.map fun r => .writeStart r 0
  | ["wre", r, v] => do
    let r ← r.toNat?
    let v ← if v == "none" then some none else v.toInt?.map some
    pure (.writeEnd r 0 (.optInt v))
  | ["xs", x] => x.toNat?.map fun x => .executeStart x
  | ["xe", x, o] => do let x ← x.toNat?; let o ← o.toInt?; pure (.executeEnd x o)
  | ["other", k, x] => do
    let k ← k.toNat?; let x ← x.toNat?
    match k with
    | 0 => some (.checkTaskStart x 4 .unit) | 1 => some (.checkTaskEnd x 4 .unit true)
    | 2 => some (.checkResStart x 0 .unit) | 3 => some (.checkResEnd x 0 .unit (.ok true))
    | 4 => some (.schedTaskStart x) | 5 => some (.checkReqStart x 4 .unit) | 6 => some (.checkReqEnd x 4 .unit false)
    | 7 => some (.schedTaskEnd x) | 8 => some (.schedResStart x) | 9 => some (.checkReadStart x 0 .unit)
    | 10 => some (.checkReadEnd x 0 .unit (.ok false)) | 11 => some (.schedResEnd x) | 12 => some (.scheduleTask x)
    | _ => none
  | _ => none

def showRange : Option (Nat × Nat) → String
  | some (a, b) => s!"{a}..={b}" | none => "none"
def showIdx : Option Nat → String | some a => toString a | none => "none"

def runLib17 (lines : List String) : List String :=
  let rec go (evs : List ET.Event) (ab : List Ev × List Ev) : List String → List String → List String
    | [], acc => acc.reverse
    | l :: ls, acc =>
      match l.splitOn " " with
      | "call" :: rest =>
        match parseCall rest with
        | some e => go (ET.feed evs e) (ET.compositeFeed ab e) ls acc
        | none => (s!"bad-op {l}" :: acc).reverse
      | ["helpers", x, r] =>
        match x.toNat?, r.toNat? with
        | some x, some r =>
          let evLines := evs.zipIdx.map fun (e, i) =>
            s!"e {i} {showETEvent e} bs={b01 (ET.isBuildStart e)} be={b01 (ET.isBuildEnd e)} mrs={b01 (ET.matchRequireStart x e)} mre={b01 (ET.matchRequireEnd x e)} mds={b01 (ET.matchReadStart r e)} mde={b01 (ET.matchReadEnd r e)} mws={b01 (ET.matchWriteStart r e)} mwe={b01 (ET.matchWriteEnd r e)} ex={b01 (ET.isExecute e)} exo={b01 (ET.isExecuteOf x e)} mxs={b01 (ET.matchExecuteStart x e)} mxe={b01 (ET.matchExecuteEnd x e)}"
          let q := s!"q any_execute={b01 (ET.anyExecute evs)} any_execute_of={b01 (ET.anyExecuteOf evs x)} one_execute_of={b01 (ET.oneExecuteOf evs x)} first_require_range={showRange (ET.firstRange evs (ET.matchRequireStart x) (ET.matchRequireEnd x))} first_read_range={showRange (ET.firstRange evs (ET.matchReadStart r) (ET.matchReadEnd r))} first_write_range={showRange (ET.firstRange evs (ET.matchWriteStart r) (ET.matchWriteEnd r))} first_execute_range={showRange (ET.firstRange evs (ET.matchExecuteStart x) (ET.matchExecuteEnd x))} first_read_end_index={showIdx (ET.firstIndex evs (ET.matchReadEnd r))} first_write_end_index={showIdx (ET.firstIndex evs (ET.matchWriteEnd r))} first_execute_end_index={showIdx (ET.firstIndex evs (ET.matchExecuteEnd x))}"
          let c := s!"composite {if ab.1.map showEv == ab.2.map showEv then "same" else "DIFFERENT"} n={ab.1.length}"
          go evs ab ls (c :: q :: evLines.reverse ++ acc)
        | _, _ => (s!"bad-op {l}" :: acc).reverse
      | _ => (s!"bad-op {l}" :: acc).reverse
  go [] ([], []) lines []

end Driver
