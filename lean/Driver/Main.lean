import Driver.GraphDrv
import Driver.BuildDrv
import Driver.LibDrv
import Driver.FileDrv

open Driver

/-- Read all of stdin as lines. -/
partial def readLines (h : IO.FS.Stream) (acc : Array String) : IO (Array String) := do
  let line ← h.getLine
  if line.isEmpty then return acc
  let l := if line.endsWith "\n" then (line.dropEnd 1).toString else line
  readLines h (acc.push l)

/-- Cases are `case <kind> <id>` … `end`. -/
partial def processCases (lines : List String) (out : IO.FS.Stream) : IO Unit := do
  match lines with
  | [] => return ()
  | l :: rest =>
    match l.splitOn " " with
    | ["case", kind, id] =>
      let body := rest.takeWhile (· != "end")
      let rest' := (rest.dropWhile (· != "end")).drop 1
      out.putStrLn s!"case {kind} {id}"
      let res := match kind with
        | "graph" => runGraphCase body
        | "build" => runBuildCase body
        | "lib12" => runLines lib12Line body
        | "lib14" => runLib14 body
        | "lib15" => runLib15 body
        | "lib17" => runLib17 body
        | "lib13" => runLib13 body
        | _ => ["bad-kind"]
      for r in res do out.putStrLn r
      out.putStrLn "end"
      processCases rest' out
    | _ => processCases rest out

def main : IO Unit := do
  let stdin ← IO.getStdin
  let stdout ← IO.getStdout
  let lines ← readLines stdin #[]
  processCases lines.toList stdout
