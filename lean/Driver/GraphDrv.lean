/-
Line-protocol driver for graph cases: executes the operations of a case on the Lean model and
prints, after every operation, the result and the complete query surface in canonical text.
The Rust harness prints the same text from `pie_graph::DAG`.
-/
import PieModel.Graph.Model

namespace Driver
open PieModel

abbrev G := Dag Int Int

def joinWith (sep : String) (l : List String) : String := sep.intercalate l

def showOrd : Option Ordering → String
  | some .lt => "L" | some .eq => "E" | some .gt => "G" | none => "P"

def b01 (b : Bool) : String := if b then "1" else "0"

/-- insertion sort of (rank,node) pairs, lexicographic -/
def sortPairs (l : List (Nat × Nat)) : List (Nat × Nat) :=
  let ins (x : Nat × Nat) : List (Nat × Nat) → List (Nat × Nat) := fun l =>
    let rec go : List (Nat × Nat) → List (Nat × Nat)
      | [] => [x]
      | y :: ys => if x.1 < y.1 || (x.1 == y.1 && x.2 ≤ y.2) then x :: y :: ys else y :: go ys
    go l
  l.foldr ins []

def dumpGraph (g : G) : List String :=
  let ids := List.range g.next
  let nodeLines := ids.filterMap fun n =>
    match g.info n with
    | none => none
    | some i =>
      let out := (g.outgoingEdges n).map fun (c, d) => s!"{c}:{d}"
      let inc := (g.incomingEdges n).map fun (p, d) => s!"{p}:{d}"
      let outn := (g.outgoingEdgeNodes n).map toString
      let inn := (g.incomingEdgeNodes n).map toString
      let outd := (g.outgoingEdgeData n).map toString
      let ind := (g.incomingEdgeData n).map toString
      let outnd := (g.outgoingEdgeNodeData n).map toString
      let innd := (g.incomingEdgeNodeData n).map toString
      some s!"n {n} rank={i.topo} data={i.data} out=[{joinWith "," out}] in=[{joinWith "," inc}] outn=[{joinWith "," outn}] inn=[{joinWith "," inn}] outd=[{joinWith "," outd}] ind=[{joinWith "," ind}] outnd=[{joinWith "," outnd}] innd=[{joinWith "," innd}]"
  let ce := ids.map fun a => String.join (ids.map fun b => b01 (g.containsEdge a b))
  let ct := ids.map fun a => String.join (ids.map fun b => b01 (g.containsTransitiveEdge a b))
  let ed := ids.map fun a => joinWith "," (ids.map fun b =>
    match g.getEdgeData a b with | some d => toString d | none => "-")
  let tc := ids.map fun a => String.join (ids.map fun b => showOrd (g.topoCmp a b))
  let du := ids.map fun n =>
    match g.descendantsUnsorted n with
    | none => s!"du {n} err"
    | some l => s!"du {n} [{joinWith "," ((sortPairs l).map fun (r, m) => s!"{r}:{m}")}]"
  let ds := ids.map fun n =>
    match g.descendants n with
    | none => s!"ds {n} err"
    | some l => s!"ds {n} [{joinWith "," (l.map toString)}]"
  let iu := sortPairs g.iterUnsorted
  nodeLines ++ [s!"ce {joinWith " " ce}", s!"ct {joinWith " " ct}", s!"ed {joinWith " " ed}",
    s!"tc {joinWith " " tc}"] ++ du ++ ds ++
    [s!"iu [{joinWith "," (iu.map fun (r, m) => s!"{r}:{m}")}]",
     s!"len {g.len} empty {b01 g.isEmpty}"]

def showAddRes : Except GErr Bool → String
  | .ok true => "ok-new" | .ok false => "ok-existing"
  | .error .cycle => "err-cycle" | .error .nodeMissing => "err-missing"

/-- One graph operation; returns new graph and the result text, or `none` for a malformed line. -/
def graphOp (g : G) (toks : List String) : Option (G × String) :=
  let nat? (s : String) : Option Nat := s.toNat?.bind fun n => if n < g.next then some n else none
  match toks with
  | ["addnode", d] => d.toInt?.map fun d => let (g', id) := g.addNode d; (g', s!"node {id}")
  | ["addedge", s, t, d] => do
    let s ← nat? s; let t ← nat? t; let d ← d.toInt?
    let (g', r) := g.addEdge s t d
    pure (g', showAddRes r)
  | ["rmedge", s, t] => do
    let s ← nat? s; let t ← nat? t
    let (g', r) := g.removeEdge s t
    pure (g', match r with | some d => s!"some {d}" | none => "none")
  | ["rmout", s] => do
    let s ← nat? s
    let (g', r) := g.removeOutgoingEdgesOfNode s
    pure (g', match r with
      | some l => s!"some [{joinWith "," (l.map fun (c, d) => s!"{c}:{d}")}]" | none => "none")
  | ["rmnode", n] => do
    let n ← nat? n
    let (g', r) := g.removeNode n
    pure (g', b01 r)
  | ["setnode", n, d] => do
    let n ← nat? n; let d ← d.toInt?
    pure (g.setNodeData n d, if g.containsNode n then "set" else "absent")
  | ["setedge", s, t, d] => do
    let s ← nat? s; let t ← nat? t; let d ← d.toInt?
    pure (g.setEdgeData s t d, if (g.getEdgeData s t).isSome then "set" else "absent")
  | _ => none

/-- Run the body lines of a graph case. -/
def runGraphCase (lines : List String) : List String :=
  let rec go (sparse : Bool) (g : G) : List String → List String → List String
    | [], acc => acc.reverse
    | l :: ls, acc =>
      if l == "mode sparse" then go true g ls acc
      else if l == "dump" then go sparse g ls ((dumpGraph g).reverse ++ acc)
      else
      match graphOp g (l.splitOn " ") with
      | none => (("bad-op " ++ l) :: acc).reverse
      | some (g', res) =>
        if sparse then go sparse g' ls ((s!"op {l} -> {res}") :: acc)
        else go sparse g' ls ((dumpGraph g').reverse ++ (s!"op {l} -> {res}") :: acc)
  go false Dag.empty lines []

end Driver
