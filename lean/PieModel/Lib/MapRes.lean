/-
Model of `pie/src/trait_object/collection.rs` (`TypeToAnyMap`: one boxed value of any type per
resource *type*) and of `pie/src/resource/map.rs` (the in-memory map resource on top of it:
`MapKey`, `MapWriter`, `GetGlobalMap`, `MapEqualsChecker`).

A Rust type is modelled by a tag (`Nat`); a `Box<dyn Any>` by a value that carries its type tag.
-/
import PieModel.Util

namespace PieModel
namespace MapRes

/-- The dynamically typed values the harness stores: `i64` (type tag 0), `String` (1),
`HashMap<K, i64>` for key type `K` (2 + K's tag). -/
inductive Dyn
  | int (n : Int)
  | str (s : String)
  | map (keyTy : Nat) (m : List (Nat × Int))
deriving DecidableEq, Repr

def Dyn.ty : Dyn → Nat
  | .int _ => 0 | .str _ => 1 | .map k _ => 2 + k

/-- `V::default()` for the state type with tag `sty`. -/
def Dyn.default (sty : Nat) : Dyn :=
  match sty with | 0 => .int 0 | 1 => .str "" | k + 2 => .map k []

/-- `TypeToAnyMap`: resource type tag ↦ boxed state. -/
abbrev TMap := List (Nat × Dyn)

/-- `ResourceState<R>::get_boxed` -/
def getBoxed (m : TMap) (r : Nat) : Option Dyn := aget m r
/-- `ResourceState<R>::get::<S>` (a `downcast_ref`) -/
def get (m : TMap) (r sty : Nat) : Option Dyn :=
  match aget m r with
  | some d => if d.ty = sty then some d else none
  | none => none
/-- `ResourceState<R>::set::<S>` / `set_boxed` -/
def set (m : TMap) (r : Nat) (d : Dyn) : TMap := aset m r d
/-- `get_or_set_default(_mut)::<S>`: keeps a value of type `S`, replaces anything else by the default. -/
def getOrSetDefault (m : TMap) (r sty : Nat) : TMap × Dyn :=
  match aget m r with
  | some d => if d.ty = sty then (m, d) else (aset m r (Dyn.default sty), Dyn.default sty)
  | none => (aset m r (Dyn.default sty), Dyn.default sty)

/-- `GetGlobalMap::get_global_map(_mut)` for key type `k` (the resource type *is* the key type). -/
def globalMap (m : TMap) (k : Nat) : TMap × List (Nat × Int) :=
  match getOrSetDefault m k (2 + k) with
  | (m', .map _ mp) => (m', mp)
  | (m', _) => (m', [])

def putGlobalMap (m : TMap) (k : Nat) (mp : List (Nat × Int)) : TMap := aset m k (.map k mp)

/-- `Resource::read` of a map key: the value, if any. -/
def read (m : TMap) (k key : Nat) : TMap × Option Int :=
  let (m', mp) := globalMap m k
  (m', aget mp key)

/-- `MapWriter::insert` / removal through `entry()`, or the same directly on the global map. -/
def write (m : TMap) (k key : Nat) (v : Option Int) : TMap :=
  let (m', mp) := globalMap m k
  match v with
  | some x => putGlobalMap m' k (aset mp key x)
  | none => putGlobalMap m' k (aerase mp key)

/-- `MapEqualsChecker::{stamp, stamp_reader, stamp_writer}` all yield the current value. -/
def stamp (m : TMap) (k key : Nat) : TMap × Option Int := read m k key
/-- `MapEqualsChecker::check`: `true` = consistent. -/
def check (m : TMap) (k key : Nat) (s : Option Int) : TMap × Bool :=
  let (m', v) := read m k key
  (m', decide (v = s))

end MapRes
end PieModel
