/-
Model of `pie/src/trait_object/{base,mod,task}.rs`: identity of type-erased keys
(`dyn KeyObj`, `dyn TaskObj`): a key is a pair (concrete type, value); `eq_any` downcasts.
-/
namespace PieModel
namespace Identity

/-- A type-erased key: the `TypeId` of the concrete type and the value (its fields). -/
structure Key where
  ty : Nat
  val : Nat
deriving DecidableEq, Repr

/-- `EqObj::eq_any`: `other.downcast_ref::<Self>()` succeeds iff the types agree; then `==`. -/
def eqAny (a b : Key) : Bool := if a.ty = b.ty then decide (a.val = b.val) else false

/-- Injective encoding of a key as the `Nat` task/resource name used by the build model. -/
def encode (k : Key) : Nat := k.val * 16 + k.ty % 16

end Identity
end PieModel
