/-
Model of `pie/src/tracker/event.rs` (`EventTracker`, `Event` and its helpers) and of
`CompositeTracker` (`pie/src/tracker/mod.rs`). `is_build_end` is modelled as documented
("true if this is a build end event"); the code matched `BuildStart` (defect F3).
-/
import PieModel.Build.Syntax

namespace PieModel
namespace ET

/-- The 10 kinds of events `EventTracker` stores; `index` is the position at which it was stored. -/
inductive Event
  | buildStart | buildEnd
  | requireStart (t c : Nat) (index : Nat) | requireEnd (t c : Nat) (s : Stamp) (o : Int) (index : Nat)
  | readStart (r c : Nat) (index : Nat) | readEnd (r c : Nat) (s : Stamp) (index : Nat)
  | writeStart (r c : Nat) (index : Nat) | writeEnd (r c : Nat) (s : Stamp) (index : Nat)
  | executeStart (t : Nat) (index : Nat) | executeEnd (t : Nat) (o : Int) (index : Nat)
deriving DecidableEq, Repr

/-- `EventTracker` with `clear_on_build_start = true`: feeding one tracker call. -/
def feed (evs : List Event) : Ev → List Event
  | .buildStart => [.buildStart]
  | .buildEnd => evs ++ [.buildEnd]
  | .requireStart t c => evs ++ [.requireStart t c evs.length]
  | .requireEnd t c s o => evs ++ [.requireEnd t c s o evs.length]
  | .readStart r c => evs ++ [.readStart r c evs.length]
  | .readEnd r c s => evs ++ [.readEnd r c s evs.length]
  | .writeStart r c => evs ++ [.writeStart r c evs.length]
  | .writeEnd r c s => evs ++ [.writeEnd r c s evs.length]
  | .executeStart t => evs ++ [.executeStart t evs.length]
  | .executeEnd t o => evs ++ [.executeEnd t o evs.length]
  | _ => evs                                            -- the other 13 methods keep their empty default

def feedAll (evs : List Event) (calls : List Ev) : List Event := calls.foldl feed evs

/-- `CompositeTracker(a, b)`: both children get every call, `a` first. Modelled on the two
children's received call lists. -/
def compositeFeed (ab : List Ev × List Ev) (e : Ev) : List Ev × List Ev := (ab.1 ++ [e], ab.2 ++ [e])

def isBuildStart : Event → Bool | .buildStart => true | _ => false
def isBuildEnd : Event → Bool | .buildEnd => true | _ => false
def matchRequireStart (t : Nat) : Event → Bool | .requireStart t' .. => t' == t | _ => false
def matchRequireEnd (t : Nat) : Event → Bool | .requireEnd t' .. => t' == t | _ => false
def matchReadStart (r : Nat) : Event → Bool | .readStart r' .. => r' == r | _ => false
def matchReadEnd (r : Nat) : Event → Bool | .readEnd r' .. => r' == r | _ => false
def matchWriteStart (r : Nat) : Event → Bool | .writeStart r' .. => r' == r | _ => false
def matchWriteEnd (r : Nat) : Event → Bool | .writeEnd r' .. => r' == r | _ => false
def isExecute : Event → Bool | .executeStart .. | .executeEnd .. => true | _ => false
def isExecuteOf (t : Nat) : Event → Bool | .executeStart t' _ | .executeEnd t' _ _ => t' == t | _ => false
def matchExecuteStart (t : Nat) : Event → Bool | .executeStart t' _ => t' == t | _ => false
def matchExecuteEnd (t : Nat) : Event → Bool | .executeEnd t' .. => t' == t | _ => false

def Event.index? : Event → Option Nat
  | .buildStart | .buildEnd => none
  | .requireStart _ _ i | .requireEnd _ _ _ _ i | .readStart _ _ i | .readEnd _ _ _ i
  | .writeStart _ _ i | .writeEnd _ _ _ i | .executeStart _ i | .executeEnd _ _ i => some i

/-- `EventTracker::any` / `one` -/
def any (evs : List Event) (p : Event → Bool) : Bool := evs.any p
def one (evs : List Event) (p : Event → Bool) : Bool := (evs.filter p).length == 1

/-- index of the first event satisfying `p` (`find_map` + `.index`) -/
def firstIndex (evs : List Event) (p : Event → Bool) : Option Nat :=
  (evs.find? p).bind Event.index?

/-- `first_*_range`: `Some(start.index ..= end.index)` when both exist. -/
def firstRange (evs : List Event) (ps pe : Event → Bool) : Option (Nat × Nat) :=
  match firstIndex evs ps, firstIndex evs pe with
  | some a, some b => some (a, b)
  | _, _ => none

def anyExecute (evs : List Event) : Bool := any evs isExecute
def anyExecuteOf (evs : List Event) (t : Nat) : Bool := any evs (isExecuteOf t)
def oneExecuteOf (evs : List Event) (t : Nat) : Bool := one evs (matchExecuteStart t)

end ET
end PieModel
