/-
Model of the OBJECT flavour of the in-memory map resource of `pie/src/resource/map.rs`:

    pub struct MapKeyObjToObj(pub Box<dyn KeyObj>);
    impl MapKey for MapKeyObjToObj { type Value = Box<dyn MapValueObj>; }

One global `HashMap<MapKeyObjToObj, Box<dyn MapValueObj>>` whose keys and values are type-erased.
Key equality (`PartialEq for MapKeyObjToObj` → `dyn KeyObj == dyn KeyObj` → `EqObj::eq_any`) and value
equality (`PartialEq for dyn MapValueObj` → `eq_any`, used by `MapEqualsChecker::check`) are both
`Identity.eqAny`: same concrete type AND equal value.  A type-erased key or value is an
`Identity.Key` (concrete type tag, value); a zero-sized type carries value `0`.

The `HashMap` is an association list; lookups compare with `eqAny` (never with the derived `=`),
insertion removes every `eqAny`-equal entry and appends the new one, removal removes every
`eqAny`-equal entry.  Definitions only, core Lean only (the compiled driver links this file).
-/
import PieModel.Lib.Identity
import PieModel.Util

namespace PieModel
namespace MapObj

open Identity

/-- The stored `HashMap<MapKeyObjToObj, Box<dyn MapValueObj>>`: (key, value) entries. -/
abbrev OState := List (Key × Key)

/-- `Box<dyn KeyObj>` / `Box<dyn MapValueObj>` made from a value `val` of the concrete type `ty`. -/
def okey (ty val : Nat) : Key := { ty := ty, val := val }

/-- A boxed value of a zero-sized type (`struct Marker;`): only the type is information. -/
def ozst (ty : Nat) : Key := okey ty 0

/-- `HashMap::get`: the value of the first entry whose key is `eq_any` to `k`. -/
def oget : OState → Key → Option Key
  | [], _ => none
  | (k', v) :: rest, k => if eqAny k' k then some v else oget rest k

/-- All entries whose key is not `eq_any` to `k`. -/
def objDrop (s : OState) (k : Key) : OState := s.filter (fun e => !eqAny e.1 k)

/-- `MapWriter::insert` (or `get_global_map_mut().insert`): replaces the entry of `k`. -/
def objInsert (s : OState) (k v : Key) : OState := objDrop s k ++ [(k, v)]

/-- Removal through `MapWriter::entry()` (or `get_global_map_mut().remove`). -/
def objRemove (s : OState) (k : Key) : OState := objDrop s k

/-- Insertion (`some v`) or removal (`none`) in one function, like `MapRes.write`. -/
def objWrite (s : OState) (k : Key) : Option Key → OState
  | some v => objInsert s k v
  | none => objRemove s k

/-- `Resource::read`: `map.get(&self)`. -/
def objRead (s : OState) (k : Key) : Option Key := oget s k

/-- The three stamping routes of `MapEqualsChecker`. -/
inductive StampRoute
  | path      -- `stamp`: reads the resource itself
  | reader    -- `stamp_reader`: clones what the reader (`Option<&V>`) holds
  | writer    -- `stamp_writer`: `writer.get()`
deriving DecidableEq, Repr

/-- `MapEqualsChecker::stamp`: `key.read(state)?.map(|v| v.clone())`. -/
def objStampPath (s : OState) (k : Key) : Option Key := objRead s k
/-- `MapEqualsChecker::stamp_reader`: the reader is the result of `read` on the current state. -/
def objStampReader (s : OState) (k : Key) : Option Key :=
  match objRead s k with
  | some v => some v
  | none => none
/-- `MapEqualsChecker::stamp_writer`: `writer.get()` is `map.get(key)` on the current state. -/
def objStampWriter (s : OState) (k : Key) : Option Key := oget s k

def objStamp : StampRoute → OState → Key → Option Key
  | .path => objStampPath
  | .reader => objStampReader
  | .writer => objStampWriter

/-- `Option<&dyn MapValueObj> == Option<&dyn MapValueObj>`: both absent, or both present and `eq_any`. -/
def optEqAny : Option Key → Option Key → Bool
  | some a, some b => eqAny a b
  | none, none => true
  | _, _ => false

/-- `MapEqualsChecker::check`: `true` = consistent (`value == stamp.as_ref()`). -/
def objCheck (s : OState) (k : Key) (stamp : Option Key) : Bool := optEqAny (objRead s k) stamp

/-- What an operation returns. -/
inductive ObjOut
  | unit
  | value (v : Option Key)
  | verdict (consistent : Bool)
deriving DecidableEq, Repr

/-- Operations on the object map. -/
inductive ObjOp
  | insert (k v : Key)
  | remove (k : Key)
  | read (k : Key)
  | stamp (route : StampRoute) (k : Key)
  | check (k : Key) (stamp : Option Key)
  | replace (s' : OState)     -- `ResourceState::set` of a whole map, directly through the state
deriving DecidableEq, Repr

def ObjOp.apply (s : OState) : ObjOp → OState
  | .insert k v => objInsert s k v
  | .remove k => objRemove s k
  | .read _ => s
  | .stamp _ _ => s
  | .check _ _ => s
  | .replace s' => s'

def ObjOp.out (s : OState) : ObjOp → ObjOut
  | .insert _ _ => .unit
  | .remove _ => .unit
  | .read k => .value (objRead s k)
  | .stamp route k => .value (objStamp route s k)
  | .check k st => .verdict (objCheck s k st)
  | .replace _ => .unit

/-- Final state of an operation sequence. -/
def objRun (s : OState) (ops : List ObjOp) : OState := ops.foldl ObjOp.apply s

/-- The outputs of an operation sequence, in order. -/
def objRunOut : OState → List ObjOp → List ObjOut
  | _, [] => []
  | s, op :: ops => op.out s :: objRunOut (op.apply s) ops

end MapObj
end PieModel
