/-
Model of the five built-in output checkers of `pie/src/task.rs`, for outputs of arbitrary types
with decidable equality. `check` returns `true` for *consistent* (`None` in Rust).
-/
namespace PieModel
namespace OChk

/-- `Result<T, E>` -/
inductive Out (T E : Type)
  | ok (t : T)
  | err (e : E)
deriving DecidableEq, Repr

variable {T E O : Type} [DecidableEq T] [DecidableEq E] [DecidableEq O]

/-- `EqualsChecker` -/
def equalsStamp (o : O) : O := o
def equalsCheck (o : O) (s : O) : Bool := decide (o = s)

def Out.okVal : Out T E → Option T | .ok t => some t | .err _ => none
def Out.errVal : Out T E → Option E | .ok _ => none | .err e => some e
def Out.isErr : Out T E → Bool | .ok _ => false | .err _ => true

/-- `OkEqualsChecker` -/
def okEqualsStamp (o : Out T E) : Option T := o.okVal
def okEqualsCheck (o : Out T E) (s : Option T) : Bool := decide (o.okVal = s)

/-- `ErrEqualsChecker` -/
def errEqualsStamp (o : Out T E) : Option E := o.errVal
def errEqualsCheck (o : Out T E) (s : Option E) : Bool := decide (o.errVal = s)

/-- `ResultChecker` -/
def resultStamp (o : Out T E) : Bool := o.isErr
def resultCheck (o : Out T E) (s : Bool) : Bool := decide (o.isErr = s)

/-- `AlwaysConsistent` -/
def alwaysStamp (_ : O) : Unit := ()
def alwaysCheck (_ : O) (_ : Unit) : Bool := true

end OChk
end PieModel
