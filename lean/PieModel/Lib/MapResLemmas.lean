/-
Lemmas about the model of the type-indexed state collection and the in-memory map resource
(`PieModel/Lib/MapRes.lean`).  Everything an operation does is described by its effect on
`aget · r` (the boxed state of each resource type `r`), and everything a map read observes by
`slotMap · k` (the `HashMap` currently stored for key type `k`, empty if the slot is absent or
holds a value of another type).
-/
import PieModel.Lib.MapRes
import PieModel.Graph.AList

namespace PieModel
namespace MapRes

/-! ### type tags -/

theorem Dyn.default_ty (sty : Nat) : (Dyn.default sty).ty = sty := by
  match sty with
  | 0 => rfl
  | 1 => rfl
  | k + 2 => simp [Dyn.default, Dyn.ty, Nat.add_comm]

theorem Dyn.default_map (k : Nat) : Dyn.default (2 + k) = .map k [] := by
  rw [Nat.add_comm]; rfl

theorem Dyn.ty_eq_map_iff (d : Dyn) (k : Nat) : d.ty = 2 + k ↔ ∃ mp, d = .map k mp := by
  cases d with
  | int n => simp [Dyn.ty]; omega
  | str s => simp [Dyn.ty]; omega
  | map k' mp => simp [Dyn.ty]

/-! ### the map stored for a key type -/

/-- The `HashMap` visible for key type `k`: the content of slot `k` if it holds a map *of key
type `k`*, else the empty map. -/
def slotMap (m : TMap) (k : Nat) : List (Nat × Int) :=
  match aget m k with
  | some (.map k' mp) => if k' = k then mp else []
  | _ => []

theorem slotMap_of_aget {m : TMap} {k : Nat} {mp : List (Nat × Int)}
    (h : aget m k = some (.map k mp)) : slotMap m k = mp := by
  simp [slotMap, h]

theorem slotMap_of_aget_none {m : TMap} {k : Nat} (h : aget m k = none) : slotMap m k = [] := by
  simp [slotMap, h]

theorem slotMap_of_ty_ne {m : TMap} {k : Nat} {d : Dyn} (h : aget m k = some d)
    (hty : d.ty ≠ 2 + k) : slotMap m k = [] := by
  cases d with
  | int n => simp [slotMap, h]
  | str s => simp [slotMap, h]
  | map k' mp =>
    have : k' ≠ k := by rintro rfl; exact hty rfl
    simp [slotMap, h, this]

theorem slotMap_congr {m1 m2 : TMap} {k : Nat} (h : aget m1 k = aget m2 k) :
    slotMap m1 k = slotMap m2 k := by
  simp [slotMap, h]

theorem get_congr {m1 m2 : TMap} {r : Nat} (h : aget m1 r = aget m2 r) (sty : Nat) :
    get m1 r sty = get m2 r sty := by
  simp [get, h]

theorem get_eq_some_iff (m : TMap) (r sty : Nat) (d : Dyn) :
    get m r sty = some d ↔ aget m r = some d ∧ d.ty = sty := by
  unfold get
  cases aget m r with
  | none => simp
  | some d' =>
    by_cases h : d'.ty = sty
    · simp [h]; rintro rfl; exact h
    · simp [h]; rintro rfl; exact h

theorem get_eq_none_iff (m : TMap) (r sty : Nat) :
    get m r sty = none ↔ ∀ d, aget m r = some d → d.ty ≠ sty := by
  unfold get
  cases aget m r with
  | none => simp
  | some d' => by_cases h : d'.ty = sty <;> simp [h]

/-! ### effect of each operation on the slots -/

theorem aget_set (m : TMap) (r r' : Nat) (d : Dyn) :
    aget (set m r d) r' = if r = r' then some d else aget m r' := aget_aset m r r' d

theorem getOrSetDefault_of_get_some {m : TMap} {r sty : Nat} {d : Dyn}
    (h : get m r sty = some d) : getOrSetDefault m r sty = (m, d) := by
  rw [get_eq_some_iff] at h
  simp [getOrSetDefault, h.1, h.2]

theorem getOrSetDefault_of_get_none {m : TMap} {r sty : Nat} (h : get m r sty = none) :
    getOrSetDefault m r sty = (aset m r (Dyn.default sty), Dyn.default sty) := by
  rw [get_eq_none_iff] at h
  unfold getOrSetDefault
  cases hg : aget m r with
  | none => rfl
  | some d => simp [h d hg]

theorem aget_getOrSetDefault (m : TMap) (r sty r' : Nat) :
    aget (getOrSetDefault m r sty).1 r' =
      if r = r' then some (getOrSetDefault m r sty).2 else aget m r' := by
  cases hg : get m r sty with
  | some d =>
    rw [getOrSetDefault_of_get_some hg]
    by_cases h : r = r'
    · subst h; simp [((get_eq_some_iff _ _ _ _).mp hg).1]
    · simp [h]
  | none =>
    rw [getOrSetDefault_of_get_none hg]
    exact aget_aset _ _ _ _

theorem getOrSetDefault_snd_ty (m : TMap) (r sty : Nat) : (getOrSetDefault m r sty).2.ty = sty := by
  cases hg : get m r sty with
  | some d => rw [getOrSetDefault_of_get_some hg]; exact ((get_eq_some_iff _ _ _ _).mp hg).2
  | none => rw [getOrSetDefault_of_get_none hg]; exact Dyn.default_ty sty

/-- `get_global_map`: returns the map visible for `k`, and afterwards slot `k` holds exactly that
map (it is materialised as an empty map if it was absent or of another type); no other slot
changes. -/
theorem globalMap_snd (m : TMap) (k : Nat) : (globalMap m k).2 = slotMap m k := by
  unfold globalMap
  cases hg : get m k (2 + k) with
  | some d =>
    rw [getOrSetDefault_of_get_some hg]
    obtain ⟨h1, h2⟩ := (get_eq_some_iff _ _ _ _).mp hg
    obtain ⟨mp, rfl⟩ := (Dyn.ty_eq_map_iff d k).mp h2
    simp [slotMap_of_aget h1]
  | none =>
    rw [getOrSetDefault_of_get_none hg, Dyn.default_map]
    rw [get_eq_none_iff] at hg
    cases ha : aget m k with
    | none => simp [slotMap_of_aget_none ha]
    | some d => simp [slotMap_of_ty_ne ha (hg d ha)]

theorem globalMap_fst (m : TMap) (k : Nat) :
    (globalMap m k).1 = (getOrSetDefault m k (2 + k)).1 := by
  unfold globalMap
  split <;> simp_all

theorem getOrSetDefault_map_snd (m : TMap) (k : Nat) :
    (getOrSetDefault m k (2 + k)).2 = .map k (slotMap m k) := by
  cases hg : get m k (2 + k) with
  | some d =>
    rw [getOrSetDefault_of_get_some hg]
    obtain ⟨h1, h2⟩ := (get_eq_some_iff _ _ _ _).mp hg
    obtain ⟨mp, rfl⟩ := (Dyn.ty_eq_map_iff d k).mp h2
    simp [slotMap_of_aget h1]
  | none =>
    rw [getOrSetDefault_of_get_none hg, Dyn.default_map]
    rw [get_eq_none_iff] at hg
    cases ha : aget m k with
    | none => simp [slotMap_of_aget_none ha]
    | some d => simp [slotMap_of_ty_ne ha (hg d ha)]

theorem aget_globalMap (m : TMap) (k k' : Nat) :
    aget (globalMap m k).1 k' = if k = k' then some (.map k (slotMap m k)) else aget m k' := by
  rw [globalMap_fst, aget_getOrSetDefault, getOrSetDefault_map_snd]

theorem read_eq (m : TMap) (k key : Nat) :
    read m k key = ((globalMap m k).1, aget (slotMap m k) key) := by
  simp [read, ← globalMap_snd]

theorem read_snd (m : TMap) (k key : Nat) : (read m k key).2 = aget (slotMap m k) key := by
  rw [read_eq]

theorem aget_read (m : TMap) (k key k' : Nat) :
    aget (read m k key).1 k' = if k = k' then some (.map k (slotMap m k)) else aget m k' := by
  rw [read_eq]; exact aget_globalMap m k k'

/-- The map stored for `k` after a write. -/
def writeMap (mp : List (Nat × Int)) (key : Nat) : Option Int → List (Nat × Int)
  | some x => aset mp key x
  | none => aerase mp key

theorem write_eq (m : TMap) (k key : Nat) (v : Option Int) :
    write m k key v = aset (globalMap m k).1 k (.map k (writeMap (slotMap m k) key v)) := by
  cases v <;> simp [write, putGlobalMap, writeMap, ← globalMap_snd]

theorem aget_write (m : TMap) (k key : Nat) (v : Option Int) (k' : Nat) :
    aget (write m k key v) k' =
      if k = k' then some (.map k (writeMap (slotMap m k) key v)) else aget m k' := by
  rw [write_eq, aget_aset]
  by_cases h : k = k'
  · simp [h]
  · simp [h, aget_globalMap]

theorem slotMap_write_self (m : TMap) (k key : Nat) (v : Option Int) :
    slotMap (write m k key v) k = writeMap (slotMap m k) key v :=
  slotMap_of_aget (by rw [aget_write]; simp)

theorem slotMap_read_self (m : TMap) (k key : Nat) : slotMap (read m k key).1 k = slotMap m k :=
  slotMap_of_aget (by rw [aget_read]; simp)

/-- A boxed state seen as the `HashMap` for key type `k` (a failed downcast gives nothing). -/
def Dyn.asMap (d : Dyn) (k : Nat) : List (Nat × Int) :=
  match d with
  | .map k' mp => if k' = k then mp else []
  | _ => []

theorem slotMap_eq_asMap {m : TMap} {k : Nat} {d : Dyn} (h : aget m k = some d) :
    slotMap m k = d.asMap k := by
  cases d <;> simp [slotMap, h, Dyn.asMap]

theorem Dyn.asMap_of_ty_ne {d : Dyn} {k : Nat} (h : d.ty ≠ 2 + k) : d.asMap k = [] := by
  cases d with
  | int n => rfl
  | str s => rfl
  | map k' mp =>
    have : k' ≠ k := by rintro rfl; exact h rfl
    simp [Dyn.asMap, this]

theorem slotMap_set_self (m : TMap) (k : Nat) (d : Dyn) : slotMap (set m k d) k = d.asMap k :=
  slotMap_eq_asMap (by rw [aget_set]; simp)

/-- Lookup in the map after a write: unconditional for an insertion and for other keys. -/
theorem aget_writeMap_some (mp : List (Nat × Int)) (key : Nat) (x : Int) (key' : Nat) :
    aget (writeMap mp key (some x)) key' = if key = key' then some x else aget mp key' :=
  aget_aset mp key key' x

theorem aget_writeMap_ne (mp : List (Nat × Int)) {key key' : Nat} (h : key ≠ key')
    (v : Option Int) : aget (writeMap mp key v) key' = aget mp key' := by
  cases v with
  | some x => simp [writeMap, aget_aset, h]
  | none => exact aget_aerase_ne mp h

theorem aget_writeMap (mp : List (Nat × Int)) (hn : (akeys mp).Nodup) (key : Nat) (v : Option Int)
    (key' : Nat) : aget (writeMap mp key v) key' = if key = key' then v else aget mp key' := by
  cases v with
  | some x => exact aget_aset mp key key' x
  | none => exact aget_aerase mp hn key key'

theorem akeys_writeMap_nodup (mp : List (Nat × Int)) (hn : (akeys mp).Nodup) (key : Nat)
    (v : Option Int) : (akeys (writeMap mp key v)).Nodup := by
  cases v with
  | some x => exact akeys_aset_nodup mp key x hn
  | none => exact akeys_aerase_nodup mp key hn

/-! ### well-formedness: a stored `HashMap` has no duplicate keys -/

def Dyn.WF : Dyn → Prop
  | .map _ mp => (akeys mp).Nodup
  | _ => True

/-- Every stored map is a map (duplicate-free keys). -/
def WF (m : TMap) : Prop := ∀ r d, aget m r = some d → d.WF

theorem WF.nil : WF [] := by intro r d h; simp at h

theorem Dyn.default_WF (sty : Nat) : (Dyn.default sty).WF := by
  match sty with
  | 0 => trivial
  | 1 => trivial
  | k + 2 => simp [Dyn.default, Dyn.WF]

theorem WF.slot {m : TMap} (h : WF m) (k : Nat) : (akeys (slotMap m k)).Nodup := by
  unfold slotMap
  split
  · rename_i k' mp hg
    split
    · exact h k _ hg
    · simp
  · simp

/-- A state that differs from a well-formed one in one slot, which holds a well-formed value. -/
theorem WF.update {m m' : TMap} (h : WF m) (r : Nat) (d : Dyn) (hd : d.WF)
    (hm : ∀ r', aget m' r' = if r = r' then some d else aget m r') : WF m' := by
  intro r' d' hg
  rw [hm] at hg
  split at hg
  · cases hg; exact hd
  · exact h r' d' hg

theorem WF.set {m : TMap} (h : WF m) (r : Nat) (d : Dyn) (hd : d.WF) : WF (set m r d) :=
  h.update r d hd (aget_set m r · d)

theorem WF.get {m : TMap} (h : WF m) {r sty : Nat} {d : Dyn} (hg : get m r sty = some d) : d.WF :=
  h r d ((get_eq_some_iff _ _ _ _).mp hg).1

theorem WF.getOrSetDefault_snd {m : TMap} (h : WF m) (r sty : Nat) :
    (getOrSetDefault m r sty).2.WF := by
  cases hg : MapRes.get m r sty with
  | some d => rw [getOrSetDefault_of_get_some hg]; exact h.get hg
  | none => rw [getOrSetDefault_of_get_none hg]; exact Dyn.default_WF sty

theorem WF.getOrSetDefault {m : TMap} (h : WF m) (r sty : Nat) : WF (getOrSetDefault m r sty).1 :=
  h.update r _ (h.getOrSetDefault_snd r sty) (aget_getOrSetDefault m r sty)

theorem WF.read {m : TMap} (h : WF m) (k key : Nat) : WF (read m k key).1 :=
  h.update k (.map k (slotMap m k)) (h.slot k) (aget_read m k key)

theorem WF.write {m : TMap} (h : WF m) (k key : Nat) (v : Option Int) : WF (write m k key v) :=
  h.update k (.map k (writeMap (slotMap m k) key v)) (akeys_writeMap_nodup _ (h.slot k) key v)
    (aget_write m k key v)

end MapRes
end PieModel
