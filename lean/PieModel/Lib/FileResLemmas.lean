/-
Helper lemmas for the file-system resource model (`PieModel.Lib.FileRes`), used by property C13.
The key fact is that the NUL-terminated concatenation `dirBytes` is injective on lists of names
that contain no NUL byte (the repaired directory hash, defect F2).
-/
import PieModel.Lib.FileRes

namespace PieModel
namespace FileRes

theorem dirBytes_nil : dirBytes [] = [] := rfl

theorem dirBytes_cons (n : List Nat) (ns : List (List Nat)) :
    dirBytes (n :: ns) = n ++ 0 :: dirBytes ns := by
  simp [dirBytes]

/-- Splitting at the first NUL byte is unambiguous: two NUL-free prefixes followed by a NUL byte and
arbitrary rests are equal only if the prefixes and the rests are equal. -/
theorem nulTerminated_split :
    ∀ (a b x y : List Nat), 0 ∉ a → 0 ∉ b → a ++ 0 :: x = b ++ 0 :: y → a = b ∧ x = y
  | [], [], x, y, _, _, h => by
      simp at h; exact ⟨rfl, h⟩
  | [], e :: b, x, y, _, hb, h => by
      simp at h
      exact absurd (h.1 ▸ List.mem_cons_self) hb
  | d :: a, [], x, y, ha, _, h => by
      simp at h
      exact absurd (h.1 ▸ List.mem_cons_self) ha
  | d :: a, e :: b, x, y, ha, hb, h => by
      simp only [List.cons_append, List.cons.injEq] at h
      have ha' : 0 ∉ a := fun m => ha (List.mem_cons_of_mem _ m)
      have hb' : 0 ∉ b := fun m => hb (List.mem_cons_of_mem _ m)
      obtain ⟨hab, hxy⟩ := nulTerminated_split a b x y ha' hb' h.2
      exact ⟨by rw [h.1, hab], hxy⟩

/-- `dirBytes` is injective on NUL-free name lists. -/
theorem dirBytes_injective :
    ∀ (ns ns' : List (List Nat)), (∀ n ∈ ns, 0 ∉ n) → (∀ n ∈ ns', 0 ∉ n) →
      dirBytes ns = dirBytes ns' → ns = ns'
  | [], [], _, _, _ => rfl
  | [], n' :: ns', _, _, h => by
      rw [dirBytes_nil, dirBytes_cons] at h
      cases n' <;> simp at h
  | n :: ns, [], _, _, h => by
      rw [dirBytes_nil, dirBytes_cons] at h
      cases n <;> simp at h
  | n :: ns, n' :: ns', hn, hn', h => by
      rw [dirBytes_cons, dirBytes_cons] at h
      obtain ⟨h1, h2⟩ := nulTerminated_split n n' _ _
        (hn n List.mem_cons_self) (hn' n' List.mem_cons_self) h
      have ih := dirBytes_injective ns ns'
        (fun m hm => hn m (List.mem_cons_of_mem _ hm))
        (fun m hm => hn' m (List.mem_cons_of_mem _ hm)) h2
      rw [h1, ih]

/-- A fresh reader of a file reads the whole content. -/
theorem readToEnd_openRead_file (c : List Nat) (t : Nat) :
    ((openRead (.file c t)).readToEnd).1 = c := by
  simp [openRead, OpenRead.readToEnd]

theorem hashCheck_eq_true_iff (hash : List Nat → Nat) (st : PathSt) (s : Option Nat) :
    hashCheck hash st s = true ↔ hashOf hash st = s := by
  simp [hashCheck]

theorem hashCheck_eq_false_iff (hash : List Nat → Nat) (st : PathSt) (s : Option Nat) :
    hashCheck hash st s = false ↔ hashOf hash st ≠ s := by
  simp [hashCheck]

end FileRes
end PieModel
