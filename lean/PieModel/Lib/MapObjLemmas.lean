/-
Lemmas about the object flavour of the in-memory map resource (`PieModel/Lib/MapObj.lean`).

* `eqAny` is an equivalence that coincides with equality of (type tag, value) pairs;
* lookup after insertion / removal (`oget_objInsert`, `oget_objRemove`) — unconditional, because
  insertion and removal filter out *every* `eqAny`-equal entry;
* well-formedness `ObjWF` (no two entries with `eqAny`-equal keys — the list is a `HashMap`) and
  its preservation;
* the abstract specification (`ObjSpec = Key → Option Key`) and the per-operation refinement;
* the embedding of the object map into the slot model of `MapRes` (`TypeToAnyMap`): the object map
  is the map resource of the key type `MapKeyObjToObj`, i.e. it lives in the slot of one resource
  type tag `r`; keys and values are stored through an injective encoding.
-/
import PieModel.Lib.MapObj
import PieModel.Props.C14

namespace PieModel
namespace MapObj

open Identity

/-! ### `eq_any` -/

theorem eqAny_iff_eq (a b : Key) : eqAny a b = true ↔ a = b := by
  cases a with | mk ta va => cases b with | mk tb vb =>
  unfold eqAny
  by_cases h : ta = tb
  · simp [h]
  · simp [h]

theorem eqAny_iff_fields (a b : Key) : eqAny a b = true ↔ a.ty = b.ty ∧ a.val = b.val := by
  rw [eqAny_iff_eq]
  cases a; cases b; simp

theorem eqAny_eq_decide (a b : Key) : eqAny a b = decide (a = b) := by
  by_cases h : a = b
  · simp [h, (eqAny_iff_eq b b).mpr rfl]
  · have : eqAny a b ≠ true := fun hh => h ((eqAny_iff_eq a b).mp hh)
    simp [h, this]

theorem eqAny_false_iff_ne (a b : Key) : eqAny a b = false ↔ a ≠ b := by
  rw [eqAny_eq_decide]; simp

theorem eqAny_self (a : Key) : eqAny a a = true := (eqAny_iff_eq a a).mpr rfl

theorem eqAny_symm_eq (a b : Key) : eqAny a b = eqAny b a := by
  rw [eqAny_eq_decide, eqAny_eq_decide]
  by_cases h : a = b
  · simp [h]
  · simp [h, Ne.symm h]

theorem eqAny_trans_true {a b c : Key} (h1 : eqAny a b = true) (h2 : eqAny b c = true) :
    eqAny a c = true := by
  rw [eqAny_iff_eq] at *; exact h1.trans h2

theorem eqAny_of_ty_ne {a b : Key} (h : a.ty ≠ b.ty) : eqAny a b = false := by
  rw [eqAny_false_iff_ne]; rintro rfl; exact h rfl

/-- Two zero-sized values are `eq_any` exactly when they are of the same type. -/
theorem eqAny_ozst (t1 t2 : Nat) : eqAny (ozst t1) (ozst t2) = true ↔ t1 = t2 := by
  rw [eqAny_iff_fields]; simp [ozst, okey]

theorem optEqAny_iff_eq (a b : Option Key) : optEqAny a b = true ↔ a = b := by
  cases a <;> cases b <;> simp [optEqAny, eqAny_iff_eq]

/-! ### lookup -/

@[simp] theorem oget_nil (k : Key) : oget [] k = none := rfl

theorem oget_cons (e : Key × Key) (s : OState) (k : Key) :
    oget (e :: s) k = if eqAny e.1 k then some e.2 else oget s k := by
  cases e; rfl

/-- Lookup with `eq_any` is the plain association-list lookup. -/
theorem oget_eq_aget (s : OState) (k : Key) : oget s k = aget s k := by
  induction s with
  | nil => rfl
  | cons e s ih =>
    obtain ⟨k', v⟩ := e
    rw [oget_cons, aget_cons, ih, eqAny_eq_decide]
    by_cases h : k' = k <;> simp [h]

theorem oget_append (s1 s2 : OState) (k : Key) :
    oget (s1 ++ s2) k = (oget s1 k).or (oget s2 k) := by
  induction s1 with
  | nil => simp
  | cons e s ih =>
    rw [List.cons_append, oget_cons, oget_cons, ih]
    by_cases h : eqAny e.1 k <;> simp [h]

theorem oget_eq_none_iff (s : OState) (k : Key) :
    oget s k = none ↔ ∀ e ∈ s, eqAny e.1 k = false := by
  induction s with
  | nil => simp
  | cons e s ih =>
    rw [oget_cons]
    by_cases h : eqAny e.1 k
    · simp [h]
    · simp [h, ih]

theorem oget_mem {s : OState} {k v : Key} (h : oget s k = some v) :
    ∃ k', (k', v) ∈ s ∧ eqAny k' k = true := by
  induction s with
  | nil => simp at h
  | cons e s ih =>
    rw [oget_cons] at h
    by_cases he : eqAny e.1 k
    · simp [he] at h
      exact ⟨e.1, by rw [← h]; exact List.mem_cons_self, he⟩
    · simp [he] at h
      obtain ⟨k', hm, hk⟩ := ih h
      exact ⟨k', List.mem_cons_of_mem _ hm, hk⟩

theorem mem_objDrop (s : OState) (k : Key) (e : Key × Key) :
    e ∈ objDrop s k ↔ e ∈ s ∧ eqAny e.1 k = false := by
  simp [objDrop, List.mem_filter]

theorem oget_objDrop (s : OState) (k x : Key) :
    oget (objDrop s k) x = if eqAny k x then none else oget s x := by
  induction s with
  | nil => simp [objDrop]
  | cons e s ih =>
    have hcons : objDrop (e :: s) k = if eqAny e.1 k then objDrop s k else e :: objDrop s k := by
      unfold objDrop
      by_cases h : eqAny e.1 k <;> simp [h]
    rw [hcons]
    by_cases hek : eqAny e.1 k
    · rw [if_pos hek, ih, oget_cons]
      by_cases hkx : eqAny k x
      · simp [hkx]
      · have : eqAny e.1 x ≠ true := by
          intro hex
          apply hkx
          rw [eqAny_symm_eq] at hek
          exact eqAny_trans_true hek hex
        simp [hkx, this]
    · rw [if_neg hek, oget_cons, oget_cons, ih]
      by_cases hkx : eqAny k x
      · have : eqAny e.1 x ≠ true := by
          intro hex
          apply hek
          rw [eqAny_symm_eq] at hkx
          exact eqAny_trans_true hex hkx
        simp [hkx, this]
      · simp [hkx]

theorem oget_objInsert (s : OState) (k v x : Key) :
    oget (objInsert s k v) x = if eqAny k x then some v else oget s x := by
  unfold objInsert
  rw [oget_append, oget_objDrop, oget_cons]
  by_cases h : eqAny k x
  · simp [h]
  · simp [h]

theorem oget_objRemove (s : OState) (k x : Key) :
    oget (objRemove s k) x = if eqAny k x then none else oget s x := oget_objDrop s k x

theorem oget_objWrite (s : OState) (k : Key) (v : Option Key) (x : Key) :
    oget (objWrite s k v) x = if eqAny k x then v else oget s x := by
  cases v with
  | some v => exact oget_objInsert s k v x
  | none => exact oget_objRemove s k x

/-! ### the three stamping routes -/

theorem objStampReader_eq (s : OState) (k : Key) : objStampReader s k = objRead s k := by
  unfold objStampReader; cases objRead s k <;> rfl

theorem objStamp_eq_read (route : StampRoute) (s : OState) (k : Key) :
    objStamp route s k = objRead s k := by
  cases route
  · rfl
  · exact objStampReader_eq s k
  · rfl

/-! ### well-formedness: the association list is a `HashMap` -/

/-- No two entries have `eq_any`-equal keys. -/
def ObjWF (s : OState) : Prop := s.Pairwise (fun e1 e2 => eqAny e1.1 e2.1 = false)

theorem ObjWF.nil : ObjWF [] := List.Pairwise.nil

theorem objWF_iff_nodup (s : OState) : ObjWF s ↔ (akeys s).Nodup := by
  unfold ObjWF akeys List.Nodup
  rw [List.pairwise_map]
  constructor <;> intro h <;> refine h.imp ?_
  · intro a b hab; exact (eqAny_false_iff_ne _ _).mp hab
  · intro a b hab; exact (eqAny_false_iff_ne _ _).mpr hab

theorem ObjWF.drop {s : OState} (h : ObjWF s) (k : Key) : ObjWF (objDrop s k) :=
  List.Pairwise.filter _ h

theorem ObjWF.remove {s : OState} (h : ObjWF s) (k : Key) : ObjWF (objRemove s k) := h.drop k

theorem ObjWF.insert {s : OState} (h : ObjWF s) (k v : Key) : ObjWF (objInsert s k v) := by
  unfold objInsert ObjWF
  rw [List.pairwise_append]
  refine ⟨h.drop k, List.pairwise_singleton _ _, ?_⟩
  intro e he e' he'
  simp at he'; subst he'
  exact ((mem_objDrop s k e).mp he).2

theorem ObjWF.write {s : OState} (h : ObjWF s) (k : Key) (v : Option Key) :
    ObjWF (objWrite s k v) := by
  cases v with
  | some v => exact h.insert k v
  | none => exact h.remove k

/-- In a well-formed state the entries are exactly the graph of the lookup function. -/
theorem ObjWF.mem_iff_oget {s : OState} (h : ObjWF s) (k v : Key) :
    (k, v) ∈ s ↔ oget s k = some v := by
  rw [oget_eq_aget]
  constructor
  · exact aget_of_mem ((objWF_iff_nodup s).mp h)
  · exact aget_mem

/-- A well-formed state holds at most one entry per key. -/
theorem ObjWF.unique {s : OState} (h : ObjWF s) {k1 k2 v1 v2 : Key}
    (h1 : (k1, v1) ∈ s) (h2 : (k2, v2) ∈ s) (he : eqAny k1 k2 = true) : v1 = v2 := by
  rw [eqAny_iff_eq] at he; subst he
  rw [h.mem_iff_oget] at h1 h2
  rw [h1] at h2; exact Option.some.inj h2

/-- Insertion keeps the number of entries if the key was present, else adds one. -/
theorem length_objDrop_of_absent {s : OState} {k : Key} (h : oget s k = none) :
    objDrop s k = s := by
  rw [oget_eq_none_iff] at h
  unfold objDrop
  rw [List.filter_eq_self]
  intro e he; simp [h e he]

/-! ### which entry a key hits -/

/-- The position of the entry that a lookup of `k` hits (the first whose key is `eq_any`). -/
def entryOf : OState → Key → Option Nat
  | [], _ => none
  | (k', _) :: rest, k => if eqAny k' k then some 0 else (entryOf rest k).map (· + 1)

theorem entryOf_cons (e : Key × Key) (s : OState) (k : Key) :
    entryOf (e :: s) k = if eqAny e.1 k then some 0 else (entryOf s k).map (· + 1) := by
  cases e; rfl

/-- The hit entry's key is `eq_any` to the looked-up key, and its value is what `oget` returns. -/
theorem entryOf_spec {s : OState} {k : Key} {i : Nat} (h : entryOf s k = some i) :
    ∃ e, s[i]? = some e ∧ eqAny e.1 k = true ∧ oget s k = some e.2 := by
  induction s generalizing i with
  | nil => simp [entryOf] at h
  | cons e s ih =>
    rw [entryOf_cons] at h
    rw [oget_cons]
    by_cases he : eqAny e.1 k
    · simp [he] at h; subst h
      exact ⟨e, by simp, he, by simp [he]⟩
    · simp [he] at h
      obtain ⟨j, hj, rfl⟩ := h
      obtain ⟨e', h1, h2, h3⟩ := ih hj
      exact ⟨e', by simpa using h1, h2, by simp [he, h3]⟩

theorem entryOf_isSome_iff (s : OState) (k : Key) : (entryOf s k).isSome ↔ (oget s k).isSome := by
  induction s with
  | nil => simp [entryOf]
  | cons e s ih =>
    rw [entryOf_cons, oget_cons]
    by_cases he : eqAny e.1 k
    · simp [he]
    · simp [he, ih]

theorem entryOf_congr {k1 k2 : Key} (h : eqAny k1 k2 = true) (s : OState) :
    entryOf s k1 = entryOf s k2 := by
  rw [eqAny_iff_eq] at h; rw [h]

/-- Two keys that hit the same entry are `eq_any`. -/
theorem eqAny_of_entryOf_eq {s : OState} {k1 k2 : Key} {i : Nat}
    (h1 : entryOf s k1 = some i) (h2 : entryOf s k2 = some i) : eqAny k1 k2 = true := by
  obtain ⟨e1, hi1, he1, -⟩ := entryOf_spec h1
  obtain ⟨e2, hi2, he2, -⟩ := entryOf_spec h2
  rw [hi1] at hi2; cases hi2
  rw [eqAny_symm_eq] at he1
  exact eqAny_trans_true he1 he2

/-! ### the abstract specification -/

/-- The specification state: a total function from keys to optional values. -/
abbrev ObjSpec := Key → Option Key

/-- The abstraction map. -/
def absObj (s : OState) : ObjSpec := fun k => oget s k

def specEmpty : ObjSpec := fun _ => none

/-- Point update; the key comparison is `eq_any`. -/
def specUpd (f : ObjSpec) (k : Key) (v : Option Key) : ObjSpec :=
  fun x => if eqAny k x then v else f x

def ObjOp.specStep (f : ObjSpec) : ObjOp → ObjSpec
  | .insert k v => specUpd f k (some v)
  | .remove k => specUpd f k none
  | .read _ => f
  | .stamp _ _ => f
  | .check _ _ => f
  | .replace s' => absObj s'

def ObjOp.specOut (f : ObjSpec) : ObjOp → ObjOut
  | .insert _ _ => .unit
  | .remove _ => .unit
  | .read k => .value (f k)
  | .stamp _ k => .value (f k)
  | .check k st => .verdict (optEqAny (f k) st)
  | .replace _ => .unit

def specRun (f : ObjSpec) (ops : List ObjOp) : ObjSpec := ops.foldl ObjOp.specStep f

def specRunOut : ObjSpec → List ObjOp → List ObjOut
  | _, [] => []
  | f, op :: ops => op.specOut f :: specRunOut (op.specStep f) ops

theorem absObj_nil : absObj [] = specEmpty := rfl

theorem absObj_apply (s : OState) (op : ObjOp) : absObj (op.apply s) = op.specStep (absObj s) := by
  cases op with
  | insert k v => funext x; exact oget_objInsert s k v x
  | remove k => funext x; exact oget_objRemove s k x
  | read k => rfl
  | stamp route k => rfl
  | check k st => rfl
  | replace s' => rfl

theorem out_eq_specOut (s : OState) (op : ObjOp) : op.out s = op.specOut (absObj s) := by
  cases op with
  | insert k v => rfl
  | remove k => rfl
  | read k => rfl
  | stamp route k => simp [ObjOp.out, ObjOp.specOut, objStamp_eq_read, objRead, absObj]
  | check k st => rfl
  | replace s' => rfl

/-- The side condition of `replace`: a directly stored map is a proper `HashMap`. -/
def ObjOp.WF : ObjOp → Prop
  | .replace s' => ObjWF s'
  | _ => True

theorem ObjWF.apply {s : OState} (h : ObjWF s) (op : ObjOp) (hop : op.WF) : ObjWF (op.apply s) := by
  cases op with
  | insert k v => exact h.insert k v
  | remove k => exact h.remove k
  | read k => exact h
  | stamp route k => exact h
  | check k st => exact h
  | replace s' => exact hop

theorem ObjWF.run {s : OState} (h : ObjWF s) (ops : List ObjOp) (hops : ∀ op ∈ ops, op.WF) :
    ObjWF (objRun s ops) := by
  induction ops generalizing s with
  | nil => exact h
  | cons op ops ih =>
    exact ih (h.apply op (hops op List.mem_cons_self))
      (fun o ho => hops o (List.mem_cons_of_mem _ ho))

/-- Only insertions, removals and replacements change the content. -/
def ObjOp.touches (x : Key) : ObjOp → Bool
  | .insert k _ => eqAny k x
  | .remove k => eqAny k x
  | .replace _ => true
  | _ => false

theorem specStep_of_not_touches {x : Key} {op : ObjOp} (h : op.touches x = false) (f : ObjSpec) :
    op.specStep f x = f x := by
  cases op with
  | insert k v => simp only [ObjOp.touches] at h; simp [ObjOp.specStep, specUpd, h]
  | remove k => simp only [ObjOp.touches] at h; simp [ObjOp.specStep, specUpd, h]
  | read k => rfl
  | stamp route k => rfl
  | check k st => rfl
  | replace s' => simp [ObjOp.touches] at h

theorem specRun_of_not_touches {x : Key} (ops : List ObjOp) (h : ∀ op ∈ ops, op.touches x = false)
    (f : ObjSpec) : specRun f ops x = f x := by
  induction ops generalizing f with
  | nil => rfl
  | cons op ops ih =>
    simp only [specRun, List.foldl_cons]
    have := ih (fun o ho => h o (List.mem_cons_of_mem _ ho)) (op.specStep f)
    simp only [specRun] at this
    rw [this, specStep_of_not_touches (h op List.mem_cons_self)]

/-! ### an injective encoding of type-erased values as numbers -/

/-- `(ty, val) ↦ 2^ty * (2 * val + 1)`. -/
def encKey (k : Key) : Nat := 2 ^ k.ty * (2 * k.val + 1)

def encVal (v : Key) : Int := Int.ofNat (encKey v)

theorem pow2_odd_inj (a b c d : Nat) (h : 2 ^ a * (2 * b + 1) = 2 ^ c * (2 * d + 1)) :
    a = c ∧ b = d := by
  have hs : ∀ n x : Nat, 2 ^ (n + 1) * x = 2 * (2 ^ n * x) := by
    intro n x; rw [Nat.pow_succ, Nat.mul_comm (2 ^ n) 2, Nat.mul_assoc]
  induction a generalizing c with
  | zero =>
    cases c with
    | zero => simp at h; omega
    | succ c =>
      rw [hs] at h
      generalize 2 ^ c * (2 * d + 1) = X at h
      simp at h; omega
  | succ a ih =>
    cases c with
    | zero =>
      rw [hs] at h
      generalize 2 ^ a * (2 * b + 1) = X at h
      simp at h; omega
    | succ c =>
      rw [hs, hs] at h
      have := ih c (by omega)
      omega

theorem encKey_inj {a b : Key} (h : encKey a = encKey b) : a = b := by
  cases a with | mk ta va => cases b with | mk tb vb =>
  obtain ⟨h1, h2⟩ := pow2_odd_inj _ _ _ _ h
  simp at h1 h2; subst h1; subst h2; rfl

theorem encKey_eq_iff (a b : Key) : encKey a = encKey b ↔ eqAny a b = true := by
  rw [eqAny_iff_eq]; exact ⟨encKey_inj, fun h => by rw [h]⟩

theorem encVal_inj {a b : Key} (h : encVal a = encVal b) : a = b :=
  encKey_inj (Int.ofNat.inj h)

theorem map_encVal_inj {a b : Option Key} (h : a.map encVal = b.map encVal) : a = b := by
  cases a <;> cases b <;> simp at h ⊢
  exact encVal_inj h

/-- The object map as a `HashMap<Nat, i64>` of the slot model. -/
def toTyped (s : OState) : List (Nat × Int) := s.map (fun e => (encKey e.1, encVal e.2))

theorem aget_toTyped (s : OState) (k : Key) :
    aget (toTyped s) (encKey k) = (oget s k).map encVal := by
  induction s with
  | nil => rfl
  | cons e s ih =>
    show aget ((encKey e.1, encVal e.2) :: toTyped s) (encKey k) = _
    rw [aget_cons, oget_cons, ih]
    by_cases h : eqAny e.1 k
    · simp [h, (encKey_eq_iff _ _).mpr h]
    · have : encKey e.1 ≠ encKey k := fun hh => h ((encKey_eq_iff _ _).mp hh)
      simp [h, this]

theorem akeys_toTyped_nodup {s : OState} (h : ObjWF s) : (akeys (toTyped s)).Nodup := by
  have : akeys (toTyped s) = (akeys s).map encKey := by
    simp [akeys, toTyped, List.map_map, Function.comp_def]
  rw [this]
  exact nodup_map_on ((objWF_iff_nodup s).mp h) (fun a _ b _ hab => encKey_inj hab)

/-! ### the object map inside the slot model -/

open MapRes

/-- The slot of resource type `r` of the collection `m` holds the object map `s`: reading the
(encoded) key `k` through the slot model yields the (encoded) value `oget s k`. -/
def SlotHolds (m : TMap) (r : Nat) (s : OState) : Prop :=
  ∀ k : Key, absMap m r (encKey k) = (oget s k).map encVal

/-- An object-map operation as the slot-model operation on the slot of resource type `r`:
`MapKeyObjToObj` is just one more `MapKey` type, its `read`/`write`/`MapEqualsChecker` are the
generic ones. -/
def ObjOp.toMOp (r : Nat) : ObjOp → MOp
  | .insert k v => .write r (encKey k) (some (encVal v))
  | .remove k => .write r (encKey k) none
  | .read k => .read r (encKey k)
  | .stamp _ k => .read r (encKey k)
  | .check k st => .check r (encKey k) (st.map encVal)
  | .replace s' => .set r (.map r (toTyped s'))

theorem ObjOp.toMOp_slot (r : Nat) (op : ObjOp) : (op.toMOp r).slot = r := by
  cases op <;> rfl

theorem ObjOp.toMOp_WF (r : Nat) (op : ObjOp) (h : op.WF) : (op.toMOp r).WF := by
  cases op with
  | replace s' => exact akeys_toTyped_nodup h
  | _ => trivial

theorem slotHolds_empty (r : Nat) : SlotHolds [] r [] := by
  intro k
  have h0 : slotMap [] r = [] := slotMap_of_aget_none rfl
  simp [absMap, read_snd, h0]

/-- One object operation, performed through the slot model, is the object-model operation. -/
theorem SlotHolds.obj {m : TMap} {r : Nat} {s : OState} (h : SlotHolds m r s) (hm : WF m)
    (op : ObjOp) : SlotHolds ((op.toMOp r).apply m) r (op.apply s) := by
  intro x
  rw [C14_absMap_apply m hm (op.toMOp r) r]
  cases op with
  | insert k v =>
    simp only [ObjOp.toMOp, MOp.absStep, if_true, upd, ObjOp.apply, oget_objInsert, h x]
    by_cases hk : eqAny k x
    · simp [hk, (encKey_eq_iff _ _).mpr hk]
    · have : encKey k ≠ encKey x := fun hh => hk ((encKey_eq_iff _ _).mp hh)
      simp [hk, this]
  | remove k =>
    simp only [ObjOp.toMOp, MOp.absStep, if_true, upd, ObjOp.apply, oget_objRemove, h x]
    by_cases hk : eqAny k x
    · simp [hk, (encKey_eq_iff _ _).mpr hk]
    · have : encKey k ≠ encKey x := fun hh => hk ((encKey_eq_iff _ _).mp hh)
      simp [hk, this]
  | read k => exact h x
  | stamp route k => exact h x
  | check k st => exact h x
  | replace s' =>
    simp only [ObjOp.toMOp, MOp.absStep, if_true, ObjOp.apply, Dyn.asMap]
    exact aget_toTyped s' x

/-- An operation on any other slot leaves the object map untouched. -/
theorem SlotHolds.other {m : TMap} {r : Nat} {s : OState} (h : SlotHolds m r s)
    (op : MOp) (hne : op.slot ≠ r) : SlotHolds (op.apply m) r s := by
  intro x
  rw [C14_absMap_apply_other m op r hne]; exact h x

/-- What the slot-model read returns. -/
theorem SlotHolds.read {m : TMap} {r : Nat} {s : OState} (h : SlotHolds m r s) (k : Key) :
    (MapRes.read m r (encKey k)).2 = (objRead s k).map encVal := h k

/-- What the slot-model checker returns. -/
theorem SlotHolds.check {m : TMap} {r : Nat} {s : OState} (h : SlotHolds m r s) (k : Key)
    (st : Option Key) :
    (MapRes.check m r (encKey k) (st.map encVal)).2 = objCheck s k st := by
  have h1 : (MapRes.check m r (encKey k) (st.map encVal)).2
      = decide ((MapRes.read m r (encKey k)).2 = st.map encVal) := rfl
  rw [h1, h.read k]
  unfold objCheck
  by_cases he : objRead s k = st
  · simp [he, (optEqAny_iff_eq _ _).mpr rfl]
  · have h2 : ¬ (objRead s k).map encVal = st.map encVal := fun hh => he (map_encVal_inj hh)
    have h3 : optEqAny (objRead s k) st ≠ true := fun hh => he ((optEqAny_iff_eq _ _).mp hh)
    simp [h2, h3]

/-! ### slots of the slot model: locality of every operation -/

/-- An operation changes only its own slot … -/
theorem aget_apply_other (m : TMap) (op : MOp) (r' : Nat) (hne : op.slot ≠ r') :
    aget (op.apply m) r' = aget m r' := by
  cases op with
  | write k key v => simp only [MOp.slot] at hne; simp [MOp.apply, aget_write, hne]
  | read k key => simp only [MOp.slot] at hne; simp [MOp.apply, aget_read, hne]
  | check k key s =>
    simp only [MOp.slot] at hne
    show aget (MapRes.read m k key).1 r' = _
    simp [aget_read, hne]
  | set r d => simp only [MOp.slot] at hne; simp [MOp.apply, aget_set, hne]
  | getOrSetDefault r sty =>
    simp only [MOp.slot] at hne; simp [MOp.apply, aget_getOrSetDefault, hne]

/-- … and the new content of its own slot depends only on the old content of that slot. -/
theorem aget_apply_congr {m1 m2 : TMap} (op : MOp) (h : aget m1 op.slot = aget m2 op.slot) :
    aget (op.apply m1) op.slot = aget (op.apply m2) op.slot := by
  cases op with
  | write k key v =>
    simp only [MOp.slot] at h
    simp [MOp.apply, MOp.slot, aget_write, slotMap_congr h]
  | read k key =>
    simp only [MOp.slot] at h
    simp [MOp.apply, MOp.slot, aget_read, slotMap_congr h]
  | check k key s =>
    simp only [MOp.slot] at h
    show aget (MapRes.read m1 k key).1 k = aget (MapRes.read m2 k key).1 k
    simp [aget_read, slotMap_congr h]
  | set r d => simp [MOp.apply, MOp.slot, aget_set]
  | getOrSetDefault r sty =>
    simp only [MOp.slot] at h
    simp only [MOp.apply, MOp.slot, aget_getOrSetDefault, if_true]
    rw [(C14_observations_of_slot h).2.2.1 sty]

/-- Two collections that agree outside slot `r` still do after the same operation on a slot
other than `r`. -/
theorem agreeOff_apply {m1 m2 : TMap} {r : Nat} (h : ∀ r', r' ≠ r → aget m1 r' = aget m2 r')
    (op : MOp) : ∀ r', r' ≠ r → aget (op.apply m1) r' = aget (op.apply m2) r' := by
  intro r' hr'
  by_cases hs : op.slot = r'
  · subst hs; exact aget_apply_congr op (h _ hr')
  · rw [aget_apply_other m1 op r' hs, aget_apply_other m2 op r' hs]; exact h r' hr'

/-! ### interleavings of typed-resource operations and object-map operations -/

/-- An interleaving step as an operation of the slot model, the object map living in slot `r`. -/
def lowerOp (r : Nat) : MOp ⊕ ObjOp → MOp
  | .inl op => op
  | .inr o => o.toMOp r

/-- The operations of the other resources, in order. -/
def typedPart : List (MOp ⊕ ObjOp) → List MOp
  | [] => []
  | .inl op :: ops => op :: typedPart ops
  | .inr _ :: ops => typedPart ops

/-- The object-map operations, in order. -/
def objPart : List (MOp ⊕ ObjOp) → List ObjOp
  | [] => []
  | .inl _ :: ops => objPart ops
  | .inr o :: ops => o :: objPart ops

/-- Side conditions of an interleaving: the other resources are of resource types other than `r`
(in Rust the slot is selected by the `TypeId` of the resource type), and directly stored states
are proper `HashMap`s. -/
def MixOK (r : Nat) : MOp ⊕ ObjOp → Prop
  | .inl op => op.WF ∧ op.slot ≠ r
  | .inr o => o.WF

theorem lowerOp_WF {r : Nat} {op : MOp ⊕ ObjOp} (h : MixOK r op) : (lowerOp r op).WF := by
  cases op with
  | inl op => exact h.1
  | inr o => exact o.toMOp_WF r h

theorem mixRun_slotHolds {m : TMap} {r : Nat} {s : OState} (hm : WF m) (h : SlotHolds m r s)
    (ops : List (MOp ⊕ ObjOp)) (hops : ∀ op ∈ ops, MixOK r op) :
    WF (MapRes.run m (ops.map (lowerOp r))) ∧
      SlotHolds (MapRes.run m (ops.map (lowerOp r))) r (objRun s (objPart ops)) := by
  induction ops generalizing m s with
  | nil => exact ⟨hm, h⟩
  | cons op ops ih =>
    have hop := hops op List.mem_cons_self
    have hrest : ∀ o ∈ ops, MixOK r o := fun o ho => hops o (List.mem_cons_of_mem _ ho)
    have hwf : WF ((lowerOp r op).apply m) := hm.apply _ (lowerOp_WF hop)
    cases op with
    | inl op => exact ih hwf (h.other op hop.2) hrest
    | inr o => exact ih hwf (h.obj hm o) hrest

theorem mixRun_agreeOff {m1 m2 : TMap} {r : Nat} (h : ∀ r', r' ≠ r → aget m1 r' = aget m2 r')
    (ops : List (MOp ⊕ ObjOp)) (hops : ∀ op ∈ ops, MixOK r op) :
    ∀ r', r' ≠ r →
      aget (MapRes.run m1 (ops.map (lowerOp r))) r' = aget (MapRes.run m2 (typedPart ops)) r' := by
  induction ops generalizing m1 m2 with
  | nil => exact h
  | cons op ops ih =>
    have hop := hops op List.mem_cons_self
    have hrest : ∀ o ∈ ops, MixOK r o := fun o ho => hops o (List.mem_cons_of_mem _ ho)
    cases op with
    | inl op => exact ih (agreeOff_apply h op) hrest
    | inr o =>
      refine ih ?_ hrest
      intro r' hr'
      show aget ((o.toMOp r).apply m1) r' = _
      rw [aget_apply_other m1 _ r' (by rw [ObjOp.toMOp_slot]; exact Ne.symm hr')]
      exact h r' hr'

end MapObj
end PieModel
