/-
Model of `pie/src/resource/file.rs` and `pie/src/resource/file/hash_checker.rs`: the file system
resource (`PathBuf`), its reader `OpenRead`, its writer (`File` opened with create+truncate),
and the three checkers `ExistsChecker`, `ModifiedChecker`, `HashChecker` with their three stamping
routes.  The OS is *modelled*: a path is absent, a file (bytes, mtime) or a directory (entry
names, mtime).  SHA-256 is a parameter `hash`; theorems that need it assume it injective.
The directory hash is the *repaired* one (defect F2): every entry name is terminated by a NUL
byte before it is fed to the hash; names are taken in a canonical (sorted) order because the
`read_dir` order of an untouched directory is stable but otherwise unspecified.
-/
import PieModel.Util

namespace PieModel
namespace FileRes

inductive PathSt
  | absent
  | file (content : List Nat) (mtime : Nat)
  | dir (names : List (List Nat)) (mtime : Nat)      -- entry names as byte strings, canonical order
deriving DecidableEq, Repr

/-- `OpenRead`: what `PathBuf::read` returns — a snapshot taken when opened, plus the read position
of the buffered file reader. -/
structure OpenRead where
  st : PathSt
  pos : Nat := 0
deriving DecidableEq, Repr

inductive FsErr | alreadyExists | notFound
deriving DecidableEq, Repr

/-- `Resource::read` for `PathBuf` -/
def openRead (st : PathSt) : OpenRead := { st := st, pos := 0 }

/-- bytes a task gets when it reads the reader to the end -/
def OpenRead.readToEnd (r : OpenRead) : List Nat × OpenRead :=
  match r.st with
  | .file c _ => (c.drop r.pos, { r with pos := c.length })
  | _ => ([], r)

/-- `OpenRead::rewind` -/
def OpenRead.rewind (r : OpenRead) : OpenRead := { r with pos := 0 }

/-- `Resource::write` for `PathBuf`: refuses directories, otherwise creates or truncates. `now` is
the modification time the OS gives the truncated file. -/
def openWrite (st : PathSt) (now : Nat) : Except FsErr PathSt :=
  match st with
  | .dir .. => .error .alreadyExists
  | _ => .ok (.file [] now)

/-! ### ExistsChecker -/
def exists_ : PathSt → Bool | .absent => false | _ => true
def existsStamp (st : PathSt) : Bool := exists_ st
def existsStampReader (r : OpenRead) : Bool × OpenRead := (exists_ r.st, r)
/-- the writer was just used on the path; the path state is what `exists(path)` sees now -/
def existsStampWriter (st : PathSt) : Bool := exists_ st
def existsCheck (st : PathSt) (s : Bool) : Bool := exists_ st == s

/-! ### ModifiedChecker -/
def mtime : PathSt → Option Nat | .absent => none | .file _ t => some t | .dir _ t => some t
def modifiedStamp (st : PathSt) : Option Nat := mtime st
def modifiedStampReader (r : OpenRead) : Option Nat × OpenRead := (mtime r.st, r)
def modifiedStampWriter (st : PathSt) : Option Nat := mtime st       -- `None` if removed meanwhile
def modifiedCheck (st : PathSt) (s : Option Nat) : Bool := mtime st == s

/-! ### HashChecker -/
variable (hash : List Nat → Nat)

/-- bytes fed to the hash for a directory: every name followed by a NUL byte (repaired, F2) -/
def dirBytes (names : List (List Nat)) : List Nat := names.flatMap (fun n => n ++ [0])

def hashOf : PathSt → Option Nat
  | .absent => none
  | .file c _ => some (hash c)
  | .dir ns _ => some (hash (dirBytes ns))

def hashStamp (st : PathSt) : Option Nat := hashOf hash st
/-- `stamp_reader`: hashes through the reader (moving it to the end), then rewinds. -/
def hashStampReader (r : OpenRead) : Option Nat × OpenRead :=
  match r.st with
  | .file _ _ =>
    let (bytes, r') := r.readToEnd
    (some (hash bytes), r'.rewind)
  | st => (hashOf hash st, r.rewind)
/-- `stamp_writer`: `None` if the path no longer exists, else rewind and hash the written file. -/
def hashStampWriter (st : PathSt) : Option Nat := hashOf hash st
def hashCheck (st : PathSt) (s : Option Nat) : Bool := hashOf hash st == s

end FileRes
end PieModel
