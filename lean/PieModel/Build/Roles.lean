/-
Static roles (property C20, static-role fragment): well-formed programs, the store invariant
`RolesInv`, and its preservation by the store operations.

* `Roles`: a rank on task names (requires go strictly upward) and, per resource, the only task
  that may write it (`gen`).
* `StaticRolesFrom ro t acc p`: the remaining body `p` of task `t` respects the roles on every
  execution path, `acc` being what was required / written so far on the path.
* `RolesInv ro st`: every edge of the store respects the roles; a read edge into a generated
  resource comes with a *direct* edge from the reader to the generator.
* `FrameBelow`: the outgoing edges of low-rank task nodes are untouched.
* `AccOK`: the path accumulator is reflected by the outgoing edges of the executing task.
-/
import PieModel.Build.StoreLemmas
import PieModel.Build.RolesDef

namespace PieModel

/-- What a task did so far on the current execution path: the tasks it required and the
resources it wrote. -/
structure Acc where
  req : List Nat := []
  wr : List Nat := []

/-- The remaining program `p` of task `t` respects the roles on every execution path. -/
def StaticRolesFrom (ro : Roles) (t : Nat) : Acc → Prog → Prop
  | _, .ret _ => True
  | _, .panic => True
  | a, .req u _ k =>
    ro.rank t < ro.rank u ∧ ∀ o, StaticRolesFrom ro t { a with req := u :: a.req } (k o)
  | a, .read r _ k =>
    ro.gen r ≠ some t ∧ (∀ w, ro.gen r = some w → w ∈ a.req) ∧
      ∀ x, StaticRolesFrom ro t a (k x)
  | a, .write r _ _ k =>
    ro.gen r = some t ∧ r ∉ a.wr ∧ ∀ x, StaticRolesFrom ro t { a with wr := r :: a.wr } (k x)
  | a, .wrote r _ _ k =>
    ro.gen r = some t ∧ r ∉ a.wr ∧ ∀ x, StaticRolesFrom ro t { a with wr := r :: a.wr } (k x)

/-- The body of task `t` respects the roles: requires go to strictly greater rank; `t` writes
only resources it generates, each at most once per path, and never reads them; a generated
resource is read only after its generator was required on the same path. -/
def StaticRoles (ro : Roles) (t : Nat) (p : Prog) : Prop := StaticRolesFrom ro t {} p

def WellFormedBody (ro : Roles) (body : Nat → Prog) : Prop := ∀ t, StaticRoles ro t (body t)

/-- The diagnosed violations: cyclic require, hidden dependency, overlapping write. -/
def Abort.isViol : Abort → Bool
  | .cyclic | .hidden | .overlap => true
  | _ => false

/-- The result is not an abort by a diagnosed violation. -/
def NoViol {α : Type} (r : Res α) : Prop := ∀ a, r = .abort a → a.isViol = false

theorem NoViol.ok {α : Type} (x : α) : NoViol (Res.ok x) := fun _ h => nomatch h

theorem NoViol.abort_of {α : Type} {a : Abort} (h : a.isViol = false) :
    NoViol (Res.abort a : Res α) := fun _ h' => by cases h'; exact h

theorem NoViol.cast {α β : Type} {r : Res α} {a : Abort} (h : NoViol r) (hr : r = .abort a) :
    NoViol (Res.abort a : Res β) := NoViol.abort_of (h a hr)

/-- The store invariant. -/
structure RolesInv (ro : Roles) (st : Store) : Prop where
  wf : st.WF
  /-- (a) an edge between task nodes goes to strictly greater rank -/
  req : ∀ n m dep t u, st.g.getEdgeData n m = some dep → st.taskOf n = some t →
    st.taskOf m = some u → ro.rank t < ro.rank u
  /-- (b) a write edge starts at the generator of the resource -/
  write : ∀ n m r c s t, st.g.getEdgeData n m = some (.write r c s) → st.taskOf n = some t →
    ro.gen r = some t
  /-- (c) the reader of a generated resource has a direct edge to the generator's node -/
  read : ∀ n m r c s w, st.g.getEdgeData n m = some (.read r c s) → ro.gen r = some w →
    ∃ nw dep, st.taskOf nw = some w ∧ st.g.getEdgeData n nw = some dep

/-- Outgoing edges of task nodes of rank `< k` (except node `ex`) are the same in `st'`. -/
def FrameBelow (ro : Roles) (k : Nat) (ex : Option Nat) (st st' : Store) : Prop :=
  ∀ n t, st.taskOf n = some t → ro.rank t < k → ex ≠ some n →
    ∀ m, st'.g.getEdgeData n m = st.g.getEdgeData n m

/-- The accumulator of the executing task `cur` is reflected in the store: every task required
so far has an edge from `cur`; every write edge of `cur` is to a resource written so far. -/
structure AccOK (st : Store) (cur : Nat) (a : Acc) : Prop where
  req : ∀ u ∈ a.req, ∃ nu dep, st.taskOf nu = some u ∧ st.g.getEdgeData cur nu = some dep
  wr : ∀ m r c s, st.g.getEdgeData cur m = some (.write r c s) → r ∈ a.wr

namespace Store
variable {st st' : Store}

/-! ### small consequences of `WF` -/

theorem WF.edge_live (h : st.WF) {a b : Nat} {dep : Dep} (he : st.g.getEdgeData a b = some dep) :
    st.g.containsNode a = true ∧ st.g.containsNode b = true := by
  obtain ⟨t, ht⟩ := h.edge_src a b dep he
  refine ⟨live_of_taskOf ht, ?_⟩
  have hd := h.edge_dst a b dep he
  cases dep with
  | reserved => obtain ⟨u, hu⟩ := hd; exact live_of_taskOf hu
  | require u c s => exact live_of_taskOf hd
  | read r c s => exact live_of_resOf hd
  | write r c s => exact live_of_resOf hd

theorem Le.taskOf_eq (hle : st.Le st') {n : Nat} (hl : st.g.containsNode n = true) :
    st'.taskOf n = st.taskOf n := by
  rcases taskOf_or_resOf_of_live hl with ⟨t, ht⟩ | ⟨r, hr⟩
  · rw [ht, hle.task n t ht]
  · rw [taskOf_eq_none_of_resOf hr, taskOf_eq_none_of_resOf (hle.res n r hr)]

/-- A task has one node. -/
theorem WF.node_inj (h : st.WF) {n n' t : Nat} (h1 : st.taskOf n = some t)
    (h2 : st.taskOf n' = some t) : n = n' := by
  rw [← h.task_iff] at h1 h2
  rw [h1] at h2; exact Option.some.inj h2

theorem WF.reach_of_edge (h : st.WF) {a b : Nat} {dep : Dep}
    (he : st.g.getEdgeData a b = some dep) : st.g.Reach a b :=
  .edge ((h.gwf.hasEdge_iff_getEdgeData a b).mpr ⟨dep, he⟩)

/-- The recorded writer of a resource node has a write edge to it. -/
theorem WF.taskWritingTo_some (h : st.WF) {dst w : Nat} (hw : st.taskWritingTo dst = some w) :
    ∃ r c s, st.g.getEdgeData w dst = some (.write r c s) := by
  rw [taskWritingTo_eq] at hw
  have hm : w ∈ st.writersTo dst := List.mem_of_mem_head? hw
  unfold writersTo at hm
  obtain ⟨p, hp, rfl⟩ := List.mem_map.mp hm
  obtain ⟨hp1, hp2⟩ := List.mem_filter.mp hp
  obtain ⟨n, d⟩ := p
  have he := (Dag.mem_incomingEdges h.gwf dst n d).mp hp1
  cases d <;> simp only [Dep.isWrite, Bool.false_eq_true] at hp2
  exact ⟨_, _, _, he⟩

theorem WF.taskWritingTo_none (h : st.WF) {dst : Nat}
    (hno : ∀ n r c s, st.g.getEdgeData n dst ≠ some (.write r c s)) :
    st.taskWritingTo dst = none := by
  cases hw : st.taskWritingTo dst with
  | none => rfl
  | some w =>
    obtain ⟨r, c, s, he⟩ := h.taskWritingTo_some hw
    exact absurd he (hno w r c s)

theorem WF.mem_tasksReadingFrom (h : st.WF) {dst y : Nat} (hy : y ∈ st.tasksReadingFrom dst) :
    ∃ r c s, st.g.getEdgeData y dst = some (.read r c s) := by
  rw [tasksReadingFrom_eq] at hy
  obtain ⟨p, hp, rfl⟩ := List.mem_map.mp hy
  obtain ⟨hp1, hp2⟩ := List.mem_filter.mp hp
  obtain ⟨n, d⟩ := p
  have he := (Dag.mem_incomingEdges h.gwf dst n d).mp hp1
  cases d <;> simp only [Dep.isRead, Bool.false_eq_true] at hp2
  exact ⟨_, _, _, he⟩

/-! ### the edges after `addDependency` -/

theorem ged_addDependency (h : st.WF) (src dst : Nat) (d : Dep) (a b : Nat) :
    (st.addDependency src dst d).1.g.getEdgeData a b = st.g.getEdgeData a b ∨
    (a = src ∧ b = dst ∧ st.g.getEdgeData src dst = none ∧
      (st.addDependency src dst d).1.g.getEdgeData a b = some d) := by
  by_cases hr : (st.addDependency src dst d).2 = .ok ∧ ¬ st.g.HasEdge src dst
  · rw [getEdgeData_addDependency_new h hr.1 hr.2]
    by_cases hab : a = src ∧ b = dst
    · right
      refine ⟨hab.1, hab.2, ?_, by rw [if_pos hab]⟩
      cases he : st.g.getEdgeData src dst with
      | none => rfl
      | some d0 => exact absurd ((h.gwf.hasEdge_iff_getEdgeData src dst).mpr ⟨d0, he⟩) hr.2
    · left; rw [if_neg hab]
  · left
    have : (st.addDependency src dst d).1 = st := by
      by_cases h1 : (st.addDependency src dst d).2 = .ok
      · have he : st.g.HasEdge src dst := Classical.not_not.mp (fun hh => hr ⟨h1, hh⟩)
        rw [addDependency_of_edge h _ _ _ he]
      · exact addDependency_fst_of_ne_ok _ _ _ h1
    rw [this]

theorem ged_addDependency_mono (h : st.WF) (src dst : Nat) (d : Dep) {a b : Nat} {dep : Dep}
    (he : st.g.getEdgeData a b = some dep) :
    (st.addDependency src dst d).1.g.getEdgeData a b = some dep := by
  rcases ged_addDependency h src dst d a b with h1 | ⟨rfl, rfl, h3, _⟩
  · rw [h1]; exact he
  · rw [h3] at he; cases he

theorem ged_addDependency_of_src_ne (h : st.WF) (src dst : Nat) (d : Dep) {a : Nat} (ha : a ≠ src)
    (b : Nat) : (st.addDependency src dst d).1.g.getEdgeData a b = st.g.getEdgeData a b :=
  getEdgeData_addDependency_of_ne h src dst d (fun hh => ha hh.1)

/-- After an accepted insertion the edge is there. -/
theorem ged_addDependency_ok (h : st.WF) {src dst : Nat} {d : Dep}
    (hr : (st.addDependency src dst d).2 = .ok) :
    ∃ dep, (st.addDependency src dst d).1.g.getEdgeData src dst = some dep := by
  by_cases he : st.g.HasEdge src dst
  · rw [addDependency_of_edge h _ _ _ he]
    exact (h.gwf.hasEdge_iff_getEdgeData src dst).mp he
  · exact ⟨d, by rw [getEdgeData_addDependency_new h hr he, if_pos ⟨rfl, rfl⟩]⟩

end Store

/-! ### `RolesInv`: consequences -/

namespace RolesInv
variable {ro : Roles} {st st' : Store}

theorem empty (ro : Roles) : RolesInv ro {} := by
  refine ⟨Store.WF.empty, ?_, ?_, ?_⟩ <;> intros <;>
    simp_all [Dag.getEdgeData]

/-- Along every path between task nodes the rank strictly increases. -/
theorem reach_rank (h : RolesInv ro st) {a b : Nat} (hr : st.g.Reach a b) :
    ∀ {ta tb : Nat}, st.taskOf a = some ta → st.taskOf b = some tb → ro.rank ta < ro.rank tb := by
  induction hr with
  | edge he =>
    intro ta tb ha hb
    obtain ⟨dep, hd⟩ := (h.wf.gwf.hasEdge_iff_getEdgeData _ _).mp he
    exact h.req _ _ dep ta tb hd ha hb
  | step he hr ih =>
    intro ta tb ha hb
    obtain ⟨dep, hd⟩ := (h.wf.gwf.hasEdge_iff_getEdgeData _ _).mp he
    obtain ⟨tm, hm⟩ := h.wf.reach_src_task hr
    exact Nat.lt_trans (h.req _ _ dep ta tm hd ha hm) (ih hm hb)

/-- Transfer to a store that extends the node kinds and where every node that still has an edge
has exactly its old edges. -/
theorem of_sub (h : RolesInv ro st) (hw : st'.WF) (hle : st.Le st')
    (hsub : ∀ a b dep, st'.g.getEdgeData a b = some dep →
      ∀ b', st'.g.getEdgeData a b' = st.g.getEdgeData a b') : RolesInv ro st' := by
  refine ⟨hw, ?_, ?_, ?_⟩
  · intro n m dep t u he ht hu
    have he0 : st.g.getEdgeData n m = some dep := by rw [← hsub n m dep he m]; exact he
    obtain ⟨l1, l2⟩ := h.wf.edge_live he0
    rw [hle.taskOf_eq l1] at ht; rw [hle.taskOf_eq l2] at hu
    exact h.req n m dep t u he0 ht hu
  · intro n m r c s t he ht
    have he0 : st.g.getEdgeData n m = some (.write r c s) := by rw [← hsub n m _ he m]; exact he
    rw [hle.taskOf_eq (h.wf.edge_live he0).1] at ht
    exact h.write n m r c s t he0 ht
  · intro n m r c s w he hg
    have he0 : st.g.getEdgeData n m = some (.read r c s) := by rw [← hsub n m _ he m]; exact he
    obtain ⟨nw, dep, h1, h2⟩ := h.read n m r c s w he0 hg
    exact ⟨nw, dep, hle.task _ _ h1, by rw [hsub n m _ he nw]; exact h2⟩

theorem of_edges_eq (h : RolesInv ro st) (hw : st'.WF) (hle : st.Le st')
    (he : ∀ a b, st'.g.getEdgeData a b = st.g.getEdgeData a b) : RolesInv ro st' :=
  h.of_sub hw hle (fun a _ _ _ b' => he a b')

theorem getOrCreateTaskNode (h : RolesInv ro st) (t : Nat) :
    RolesInv ro (st.getOrCreateTaskNode t).1 :=
  h.of_edges_eq (h.wf.getOrCreateTaskNode t) (Store.le_getOrCreateTaskNode h.wf t)
    (Store.getEdgeData_getOrCreateTaskNode h.wf t)

theorem getOrCreateResNode (h : RolesInv ro st) (r : Nat) :
    RolesInv ro (st.getOrCreateResNode r).1 :=
  h.of_edges_eq (h.wf.getOrCreateResNode r) (Store.le_getOrCreateResNode h.wf r)
    (Store.getEdgeData_getOrCreateResNode h.wf r)

theorem setTaskOutput (h : RolesInv ro st) (n : Nat) (o : Int) :
    RolesInv ro (st.setTaskOutput n o) :=
  h.of_edges_eq (h.wf.setTaskOutput n o) (Store.le_setTaskOutput st n o) (by simp)

theorem resetTask (h : RolesInv ro st) (n : Nat) : RolesInv ro (st.resetTask n) := by
  refine h.of_sub (h.wf.resetTask n) (Store.le_resetTask h.wf n) ?_
  intro a b dep he b'
  rw [Store.getEdgeData_resetTask h.wf n] at he ⊢
  by_cases ha : a = n
  · rw [if_pos ha] at he; cases he
  · rw [if_neg ha]

/-- Adding a dependency that respects the roles. -/
theorem addDependency (h : RolesInv ro st) {src dst t : Nat} {d : Dep}
    (hs : st.taskOf src = some t) (hd : st.DepOK d dst)
    (hreq : ∀ u, st.taskOf dst = some u → ro.rank t < ro.rank u)
    (hwr : ∀ r c s, d = .write r c s → ro.gen r = some t)
    (hrd : ∀ r c s w, d = .read r c s → ro.gen r = some w →
      ∃ nw dep, st.taskOf nw = some w ∧ st.g.getEdgeData src nw = some dep) :
    RolesInv ro (st.addDependency src dst d).1 := by
  have ht := Store.taskOf_addDependency h.wf src dst d
  refine ⟨h.wf.addDependency ⟨t, hs⟩ hd, ?_, ?_, ?_⟩
  · intro n m dep t1 u he h1 hu
    rw [ht] at h1 hu
    rcases Store.ged_addDependency h.wf src dst d n m with e | ⟨rfl, rfl, _, _⟩
    · rw [e] at he; exact h.req n m dep t1 u he h1 hu
    · rw [hs] at h1; cases h1; exact hreq u hu
  · intro n m r c s t1 he h1
    rw [ht] at h1
    rcases Store.ged_addDependency h.wf src dst d n m with e | ⟨rfl, rfl, _, e⟩
    · rw [e] at he; exact h.write n m r c s t1 he h1
    · rw [hs] at h1; cases h1
      rw [e] at he; exact hwr r c s (Option.some.inj he)
  · intro n m r c s w he hg
    rcases Store.ged_addDependency h.wf src dst d n m with e | ⟨rfl, rfl, _, e⟩
    · rw [e] at he
      obtain ⟨nw, dep, h1, h2⟩ := h.read n m r c s w he hg
      exact ⟨nw, dep, by rw [ht]; exact h1, Store.ged_addDependency_mono h.wf _ _ _ h2⟩
    · rw [e] at he
      obtain ⟨nw, dep, h1, h2⟩ := hrd r c s w (Option.some.inj he) hg
      exact ⟨nw, dep, by rw [ht]; exact h1, Store.ged_addDependency_mono h.wf _ _ _ h2⟩

/-- Replacing the data of an edge to the node of `t` by a `require t` dependency. -/
theorem setDependency (h : RolesInv ro st) {src dst t c : Nat} {stamp : Stamp}
    (hs : st.setDependency src dst (.require t c stamp) = some st')
    (hd : st.taskOf dst = some t) : RolesInv ro st' := by
  have ht := Store.taskOf_setDependency hs
  have hg := Store.getEdgeData_setDependency hs
  obtain ⟨⟨d0, hd0⟩, _⟩ := Store.setDependency_eq_some hs
  have keep : ∀ a b dep, st.g.getEdgeData a b = some dep →
      ∃ dep', st'.g.getEdgeData a b = some dep' := by
    intro a b dep he
    rw [hg]; split
    · exact ⟨_, rfl⟩
    · exact ⟨dep, he⟩
  refine ⟨Store.WF.setDependency hs h.wf hd, ?_, ?_, ?_⟩
  · intro n m dep t1 u he h1 hu
    rw [ht] at h1 hu
    rw [hg] at he
    split at he
    · rename_i hab
      obtain ⟨rfl, rfl⟩ := hab
      exact h.req _ _ d0 t1 u hd0 h1 hu
    · exact h.req n m dep t1 u he h1 hu
  · intro n m r c' s t1 he h1
    rw [ht] at h1
    rw [hg] at he
    split at he
    · cases he
    · exact h.write n m r c' s t1 he h1
  · intro n m r c' s w he hgen
    rw [hg] at he
    split at he
    · cases he
    · obtain ⟨nw, dep, h1, h2⟩ := h.read n m r c' s w he hgen
      obtain ⟨dep', h3⟩ := keep _ _ _ h2
      exact ⟨nw, dep', by rw [ht]; exact h1, h3⟩

end RolesInv

/-! ### `FrameBelow` -/

namespace FrameBelow
variable {ro : Roles} {k k' : Nat} {ex : Option Nat} {st st' st'' : Store}

theorem refl (ro : Roles) (k : Nat) (ex : Option Nat) (st : Store) : FrameBelow ro k ex st st :=
  fun _ _ _ _ _ _ => rfl

theorem of_eq (he : ∀ a b, st'.g.getEdgeData a b = st.g.getEdgeData a b) :
    FrameBelow ro k ex st st' := fun n _ _ _ _ m => he n m

theorem trans (h1 : FrameBelow ro k ex st st') (hle : st.Le st')
    (h2 : FrameBelow ro k ex st' st'') : FrameBelow ro k ex st st'' := by
  intro n t ht hk hex m
  rw [h2 n t (hle.task n t ht) hk hex m, h1 n t ht hk hex m]

theorem mono (h : FrameBelow ro k ex st st') (hk : k' ≤ k) : FrameBelow ro k' ex st st' :=
  fun n t ht hlt hex m => h n t ht (Nat.lt_of_lt_of_le hlt hk) hex m

/-- Only the outgoing edges of `x` changed. -/
theorem of_ne {x : Nat} (he : ∀ a, a ≠ x → ∀ b, st'.g.getEdgeData a b = st.g.getEdgeData a b) :
    FrameBelow ro k (some x) st st' := by
  intro n _ _ _ hex m
  exact he n (fun hh => hex (by rw [hh])) m

/-- The excluded node has rank `≥ k` anyway. -/
theorem drop {x t : Nat} (h : FrameBelow ro k (some x) st st') (hx : st.taskOf x = some t)
    (hk : k ≤ ro.rank t) : FrameBelow ro k none st st' := by
  intro n t' ht' hlt _ m
  refine h n t' ht' hlt ?_ m
  intro hh
  cases hh
  rw [hx] at ht'; cases ht'
  exact absurd hlt (Nat.not_lt.mpr hk)

theorem add (h : FrameBelow ro k none st st') : FrameBelow ro k ex st st' :=
  fun n t ht hlt _ m => h n t ht hlt (fun hh => nomatch hh) m

end FrameBelow

/-! ### `AccOK` -/

namespace AccOK
variable {st st' : Store} {cur : Nat} {a : Acc}

/-- The outgoing edges of `cur` are the same. -/
theorem of_eq (h : AccOK st cur a) (hle : st.Le st')
    (he : ∀ m, st'.g.getEdgeData cur m = st.g.getEdgeData cur m) : AccOK st' cur a := by
  refine ⟨?_, ?_⟩
  · intro u hu
    obtain ⟨nu, dep, h1, h2⟩ := h.req u hu
    exact ⟨nu, dep, hle.task _ _ h1, by rw [he]; exact h2⟩
  · intro m r c s hm
    rw [he] at hm; exact h.wr m r c s hm

/-- After a reset the task has no edges. -/
theorem start (h : st.WF) (n : Nat) : AccOK (st.resetTask n) n {} := by
  refine ⟨fun u hu => absurd hu List.not_mem_nil, ?_⟩
  intro m r c s hm
  rw [Store.getEdgeData_resetTask h n, if_pos rfl] at hm; cases hm

/-- A new dependency of `cur` that is not a write (or a write that is accounted for). -/
theorem addDependency (h : AccOK st cur a) (hw : st.WF) (dst : Nat) (d : Dep) {a' : Acc}
    (hreq : ∀ u ∈ a'.req, u ∈ a.req) (hwr : ∀ r ∈ a.wr, r ∈ a'.wr)
    (hd : ∀ r c s, d = .write r c s → r ∈ a'.wr) :
    AccOK (st.addDependency cur dst d).1 cur a' := by
  refine ⟨?_, ?_⟩
  · intro u hu
    obtain ⟨nu, dep, h1, h2⟩ := h.req u (hreq u hu)
    exact ⟨nu, dep, by rw [Store.taskOf_addDependency hw]; exact h1,
      Store.ged_addDependency_mono hw _ _ _ h2⟩
  · intro m r c s hm
    rcases Store.ged_addDependency hw cur dst d cur m with e | ⟨_, _, _, e⟩
    · rw [e] at hm; exact hwr r (h.wr m r c s hm)
    · rw [e] at hm; exact hd r c s (Option.some.inj hm)

/-- Replacing the data of an edge of `cur` by a `require`. -/
theorem setDependency (h : AccOK st cur a) {dst t c : Nat} {stamp : Stamp}
    (hs : st.setDependency cur dst (.require t c stamp) = some st') : AccOK st' cur a := by
  have hg := Store.getEdgeData_setDependency hs
  refine ⟨?_, ?_⟩
  · intro u hu
    obtain ⟨nu, dep, h1, h2⟩ := h.req u hu
    refine ⟨nu, ?_⟩
    rw [hg, Store.taskOf_setDependency hs]
    split
    · exact ⟨_, h1, rfl⟩
    · exact ⟨dep, h1, h2⟩
  · intro m r c' s hm
    rw [hg] at hm
    split at hm
    · cases hm
    · exact h.wr m r c' s hm

/-- One more required task, reflected by an edge. -/
theorem consReq (h : AccOK st cur a) {u nu : Nat} {dep : Dep} (h1 : st.taskOf nu = some u)
    (h2 : st.g.getEdgeData cur nu = some dep) : AccOK st cur { a with req := u :: a.req } := by
  refine ⟨?_, h.wr⟩
  intro u' hu'
  rcases List.mem_cons.mp hu' with rfl | hu'
  · exact ⟨nu, dep, h1, h2⟩
  · exact h.req u' hu'

theorem consWr (h : AccOK st cur a) (r : Nat) : AccOK st cur { a with wr := r :: a.wr } :=
  ⟨h.req, fun m r' c s hm => List.mem_cons_of_mem _ (h.wr m r' c s hm)⟩

end AccOK

end PieModel
