/-
Soundness of the top-down build with writes under TRANSITIVE static roles (`WellFormedCov`;
adapted from `SoundW/Make.lean`: `CovInv` for `RolesInv`, `DenCv` for `Den`, the cover argument for
the direct edge reader → generator): the successor step of `tdMake`, and the joint
induction `tdSoundCv`.
-/
import PieModel.Build.TransSound.Run

namespace PieModel.TransSound
open PieModel.TransRoles

variable {cr : CRoles} {sem : Sem} {body : Nat → Prog} {fs₀ : List (Nat × Int)} {D : Nat → Prop}

section
variable (hst : StampTotal sem) (hwf : WellFormedCov cr body)
  (hresp : ∀ t, Respects sem (body t)) (hone : ∀ t, OneChecker (body t))
  (hwe : ∀ t, WriteExact sem (body t)) (hD : CallClosedCv cr.toRoles sem body fs₀ D)
include hst hwf hresp hone hwe hD

theorem soundCv_make_succ {f : Nat} (ih : TdSoundCv cr sem body fs₀ D f) (s : Sess) (t : Nat)
    (h : SInvCvD cr sem body fs₀ D s) (hcr : CurReach s (nodeOf s t)) (hpre : ReqPre cr.toRoles s t)
    (hDt : D t) :
    OutcomeCv cr sem body fs₀ D s (tdMake sem body (f + 1) s t) (QMakeCv cr s t) := by
  unfold tdMake; simp only []
  obtain ⟨hb, hbs⟩ := h.getTask t
    (s' := { s with store := (s.store.getOrCreateTaskNode t).1 }) rfl rfl rfl rfl rfl
    (TrExt.of_eq rfl)
  have hw := h.wf.store
  have htm : (s.store.getOrCreateTaskNode t).1.taskOf (nodeOf s t) = some t :=
    Store.taskOf_getOrCreateTaskNode_self hw t
  have hpb : Prot s { s with store := (s.store.getOrCreateTaskNode t).1 } (nodeOf s t) :=
    fun x _ => ⟨hbs x, id⟩
  have hfb : ∀ k, FrameCv cr k s { s with store := (s.store.getOrCreateTaskNode t).1 } :=
    fun k => FrameCv.quiet rfl (TrExt.of_eq rfl)
  have hpreb : ReqPre cr.toRoles { s with store := (s.store.getOrCreateTaskNode t).1 } t := by
    intro cur hcur
    obtain ⟨t0, h1, h2⟩ := hpre cur hcur
    exact ⟨t0, hb.le.task _ _ h1, h2⟩
  split
  next hmem =>
    split
    next o ho => exact .ret hb ⟨hmem, ho, htm, hpb, hfb _⟩
    next ho => exact .abort hb.inv.faithful
  next hmem =>
    have hcrb : CurReach { s with store := (s.store.getOrCreateTaskNode t).1 } (nodeOf s t) :=
      fun n hn => (Store.reach_getOrCreateTaskNode hw t n _).mpr (hcr n hn)
    have IHc := ih.check { s with store := (s.store.getOrCreateTaskNode t).1 } (nodeOf s t) t
      hb.inv hmem hcrb htm hpreb hDt
    split
    next s1 a heq => exact .abort (IHc.faithful_of heq)
    next s1 o heq =>
      -- validated: every recorded dependency is accepted now
      obtain ⟨st1, hp1, hf1, hq1⟩ := IHc.ok s1 _ heq
      obtain ⟨ho, hdeps⟩ := hq1 o rfl
      have hsm := (hp1 _ (.inl rfl)).1
      have hm1 : nodeOf s t ∉ s1.consistent := fun hc => hmem ((hp1 _ (.inl rfl)).2 hc)
      have ht1 : s1.store.taskOf (nodeOf s t) = some t := st1.le.task _ _ htm
      have ho1 : s1.store.taskOutput (nodeOf s t) = some o := by rw [hsm.1]; exact ho
      have hcur1 : s1.cur = s.cur :=
        cur_tdCheck (s := { s with store := (s.store.getOrCreateTaskNode t).1 }) sem body heq
      have hpre1 : ReqPre cr.toRoles s1 t := by
        intro cur hcur
        obtain ⟨t0, h1, h2⟩ := hpreb cur (by rw [← hcur1]; exact hcur)
        exact ⟨t0, st1.le.task _ _ h1, h2⟩
      have hnc : ¬ ConsT s1 t := by
        rintro ⟨n', hn', htn'⟩
        have := st1.inv.wf.store.node_inj htn' ht1
        subst this; exact hm1 hn'
      have hrep := hb.inv.faithful _ t o htm ho
      have hwalk := replayO_walkCv hst hwf st1.inv (t := t) [] o (body t) {} []
        ((s.store.getOrCreateTaskNode t).1.depsFrom (nodeOf s t))
        (hresp t) (hwe t) (hwf.body t) (ReqConsCv.nil s1) (by simpa using hrep)
        (fun _ hd => (nomatch hd)) hdeps
      obtain ⟨ws, hev, hwr, hcl⟩ := hwalk.1 rfl
      have hfsr : ∀ r, cr.gen r = some t → aget s1.fs r = (wget ws r).getD (aget fs₀ r) := by
        intro r hg
        cases hww : wget ws r with
        | some x =>
          obtain ⟨c, stp, hmemw, hstp, hex⟩ := hwr r x hww
          have hck : DepOk cr.toRoles sem s1 (.write r c stp) := hdeps _ (by simpa using hmemw)
          exact hex x (aget s1.fs r) stp hstp hck
        | none =>
          refine st1.inv.untouched r (fun w hw => ?_)
          rw [hg] at hw; cases hw
          exact st1.inv.not_executed hnc hpre1
      have stm := st1.inv.mark ht1 ho1 hev hDt hfsr hcl
      refine .ret (hb.trans (st1.trans stm)) ⟨(mem_markConsistent _ _ _).mpr (.inr rfl),
        by simpa using ho1, by simpa using ht1, ?_, ?_⟩
      · exact (hpb.trans hp1.prot hw hb.inv.wf.store).trans
          (Prot.mod st1.inv.wf.store (fun x _ => ⟨by simp, by simp⟩)
            (fun x hx => (mem_markConsistent _ _ _).mp hx)) hw st1.inv.wf.store
      · have fm : FrameCv cr (cr.rank t) s1 (s1.markConsistent (nodeOf s t)) :=
          FrameCv.quiet (by simp) (TrExt.of_eq (by simp))
        exact ((hfb _).trans (hf1.mono (Nat.le_succ _)) st1).trans fm stm
    next s1 heq =>
      -- not validated: execute
      obtain ⟨st1, hp1, hf1, _⟩ := IHc.ok s1 _ heq
      have hm1 : nodeOf s t ∉ s1.consistent := fun hc => hmem ((hp1 _ (.inl rfl)).2 hc)
      have ht1 : s1.store.taskOf (nodeOf s t) = some t := st1.le.task _ _ htm
      have hcur1 : s1.cur = s.cur :=
        cur_tdCheck (s := { s with store := (s.store.getOrCreateTaskNode t).1 }) sem body heq
      have hpre1 : ReqPre cr.toRoles s1 t := by
        intro cur hcur
        obtain ⟨t0, h1, h2⟩ := hpreb cur (by rw [← hcur1]; exact hcur)
        exact ⟨t0, st1.le.task _ _ h1, h2⟩
      have hnc : ¬ ConsT s1 t := by
        rintro ⟨n', hn', htn'⟩
        have := st1.inv.wf.store.node_inj htn' ht1
        subst this; exact hm1 hn'
      have hnx : Ev.executeStart t ∉ s1.trace := st1.inv.not_executed hnc hpre1
      obtain ⟨st2, hs2, hoe2⟩ := st1.inv.startExec
        (s' := ({ s1 with store := s1.store.resetTask (nodeOf s t),
                          cur := some (nodeOf s t) } : Sess).emit (.executeStart t))
        ht1 hm1 hpre1 hDt rfl rfl rfl rfl rfl rfl
      have ht2 := st2.le.task _ _ ht1
      have IHr := ih.run _ (nodeOf s t) t (body t) {} [] [] st2.inv rfl ht2 (hwf.body t)
        (AccOK.start st1.inv.wf.store (nodeOf s t)) (hone t)
        (by intro dst d hd; rw [hoe2] at hd; cases hd) (ReqConsCv.nil _)
        (fun u hu => hD t u hDt hu)
      split
      next s3 a heq3 => exact .abort (IHr.faithful_of heq3)
      next s3 o heq3 =>
        obtain ⟨st3, ws, hev, hfs3, hcl3, hfr3, hp3, ⟨qt', qr', hri⟩, new, hnew, hrep⟩ :=
          IHr.ok s3 o heq3
        have hcur3 : s3.cur = some (nodeOf s t) := cur_tdRun sem body heq3
        have hcov3 : ∀ u ∈ cr.cov t, CovEdge cr s3.store (nodeOf s t) u := by
          exact (((tdTrans (G := False) (B := False) (sem := sem) hwf False.elim f).run _ (body t)
            (nodeOf s t) t {} st2.inv.wf st2.inv.roles rfl ht2 (hwf.body t)
            (AccOK.start st1.inv.wf.store (nodeOf s t)) False.elim False.elim).outOk heq3).2.1
        have ht3 : s3.store.taskOf (nodeOf s t) = some t := st3.le.task _ _ ht2
        have hd2 : (s1.store.resetTask (nodeOf s t)).depsFrom (nodeOf s t) = [] := by
          rw [Store.depsFrom_eq]
          have : (s1.store.resetTask (nodeOf s t)).g.outgoingEdges (nodeOf s t) = [] := hoe2
          rw [this]; rfl
        have hrep3 : ReplayO sem (body t) [] (s3.store.depsFrom (nodeOf s t)) o := by
          have hnew' : s3.store.depsFrom (nodeOf s t) = new := by
            rw [hnew]
            show (s1.store.resetTask (nodeOf s t)).depsFrom (nodeOf s t) ++ new = new
            rw [hd2]; rfl
          rw [hnew']
          have hrep' : ReplayO sem (body t)
              ((s1.store.resetTask (nodeOf s t)).depsFrom (nodeOf s t)) new o := hrep
          rwa [hd2] at hrep'
        -- the resources generated by `t`: untouched before the execution
        have hfs0 : ∀ r, cr.gen r = some t → aget s1.fs r = aget fs₀ r := by
          intro r hg
          refine st1.inv.untouched r (fun w hw => ?_)
          rw [hg] at hw; cases hw; exact hnx
        have hfsr : ∀ r, cr.gen r = some t → aget s3.fs r = (wget ws r).getD (aget fs₀ r) := by
          intro r hg
          rw [hfs3 r hg]
          show (wget ws r).getD (aget s1.fs r) = _
          rw [hfs0 r hg]
        have hp12 : Prot s1 (({ s1 with
              store := s1.store.resetTask (nodeOf s t),
              cur := some (nodeOf s t) } : Sess).emit (.executeStart t)) (nodeOf s t) :=
          Prot.mod st1.inv.wf.store hs2 (fun x hx => .inl hx)
        have hp03 : Prot { s with store := (s.store.getOrCreateTaskNode t).1 } s3 (nodeOf s t) :=
          (hp1.prot.trans hp12 hb.inv.wf.store st1.inv.wf.store).trans hp3 hb.inv.wf.store
            st2.inv.wf.store
        have hwf4 : SessWF (({ s3.emit (.executeEnd t o) with
            cur := s1.cur,
            store := s3.store.setTaskOutput (nodeOf s t) o } : Sess).markConsistent (nodeOf s t)) :=
          ((Ext.endExec (s₂ := s1) (s₄ := s3.emit (.executeEnd t o))
            ⟨st3.inv.wf.emit _, st2.le.trans st3.le⟩ st1.inv.wf (nodeOf s t) o).wf).markConsistent _
        obtain ⟨st4, hs4, ho4, hoe4⟩ := st3.inv.endExecMark
          (s' := ({ s3.emit (.executeEnd t o) with
                   cur := s1.cur,
                   store := s3.store.setTaskOutput (nodeOf s t) o } : Sess).markConsistent
                     (nodeOf s t))
          (prev := s1.cur) hcur3 ht3 hrep3 hev hDt hfsr hcl3 hcov3 (by simp) (by simp)
          (fun x => by rw [mem_markConsistent]; rfl) (by simp) hwf4
          (fun e he => by simp only [SessL.markConsistent_trace]; exact List.mem_append_left _ he)
          (fun x hx => by
            simp only [SessL.markConsistent_trace] at hx
            exact mem_emit_exec (s := s3) (e := .executeEnd t o) (fun y hy => nomatch hy) hx)
          (by
            intro n hn
            have hn0 : s.cur = some n := hcur1 ▸ hn
            have hr := hcrb n hn0
            refine ⟨fun hnm => hb.inv.wf.store.inv.acyclic _ (hnm ▸ hr), ?_, ?_⟩
            · rw [(hp03 n hr).1.1]
              exact hb.inv.curFree n hn0
            · intro tc htc
              obtain ⟨tc0, htc0⟩ := st1.inv.wf.cur n hn
              have := (st2.le.trans st3.le).task _ _ htc0
              rw [htc] at this; cases this
              exact st3.tr _ (st2.tr _ (st1.inv.curExec n tc hn htc0)))
          (by
            intro x hx
            rcases hfr3.exec x hx with hx2 | hx2
            · rcases List.mem_append.mp hx2 with hx1 | hx1
              · rcases (st1.inv.executed x hx1).2 with h1 | ⟨c, tc, h1, h2, h3⟩
                · exact .inr (.inl ((st2.trans st3).consT h1))
                · exact .inr (.inr ⟨c, tc, h1, (st2.le.trans st3.le).task _ _ h2, h3⟩)
              · simp only [List.mem_singleton, Ev.executeStart.injEq] at hx1
                exact .inl hx1
            · exact .inr (.inl hx2))
        refine .ret (hb.trans (st1.trans (st2.trans (st3.trans st4))))
          ⟨(mem_markConsistent _ _ _).mpr (.inr rfl), ho4, st4.le.task _ _ ht3, ?_, ?_⟩
        · refine ((hpb.trans hp03 hw hb.inv.wf.store).trans
            (Prot.mod (s := s3) st3.inv.wf.store hs4 (fun x hx => ?_)) hw st3.inv.wf.store)
          rcases (mem_markConsistent _ _ _).mp hx with hx | hx
          · exact .inl hx
          · exact .inr hx
        · -- the frame
          refine ⟨?_, ?_⟩
          · intro r hr
            rw [SessL.markConsistent_fs]
            show aget s3.fs r = aget s.fs r
            rw [hfr3.fs r hr]
            show aget s1.fs r = aget s.fs r
            rw [hf1.fs r (fun w hw => Nat.lt_succ_of_lt (hr w hw))]
          · intro x hx
            have hx3 : Ev.executeStart x ∈ s3.trace := by
              simp only [SessL.markConsistent_trace] at hx
              exact mem_emit_exec (s := s3) (e := .executeEnd t o) (fun y hy => nomatch hy) hx
            rcases hfr3.exec x hx3 with hx2 | hx2
            · rcases List.mem_append.mp hx2 with hx1 | hx1
              · rcases hf1.exec x hx1 with h0 | h0
                · exact .inl h0
                · exact .inr ((st2.trans (st3.trans st4)).consT h0)
              · simp only [List.mem_singleton, Ev.executeStart.injEq] at hx1
                rw [hx1]
                exact .inr ⟨nodeOf s t, (mem_markConsistent _ _ _).mpr (.inr rfl),
                  st4.le.task _ _ ht3⟩
            · exact .inr (st4.consT hx2)

/-- **The joint induction**: soundness of the top-down build with writes, for every fuel. -/
theorem tdSoundCv (f : Nat) : TdSoundCv cr sem body fs₀ D f := by
  induction f with
  | zero => exact tdSoundCv_zero
  | succ f ih =>
    exact ⟨soundCv_require_succ ih, soundCv_make_succ hst hwf hresp hone hwe hD ih,
      soundCv_check_succ ih, soundCv_checkDeps_succ hst hwf hresp hwe hD ih,
      soundCv_run_succ hst hwf ih⟩

end

end PieModel.TransSound
