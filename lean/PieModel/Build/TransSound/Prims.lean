/-
Soundness of the top-down build with writes under TRANSITIVE static roles (`WellFormedCov`;
adapted from `SoundW/Prims.lean`: `CovInv` for `RolesInv`, `DenCv` for `Den`, the cover argument for
the direct edge reader → generator): the session primitives as `SStepCv`s
(`getOrCreate…`, `reserveRequire`, `updateRequire`, `doRead`, `doWrite`, `doWrote`, start and end
of an execution), with their exact effect on the outgoing edges of the executing task and on
the resources.
-/
import PieModel.Build.TransSound.Inv
import PieModel.Build.SoundW.Prims
import PieModel.Build.TransRoles.Session

namespace PieModel.TransSound
open PieModel.TransRoles

variable {cr : CRoles} {sem : Sem} {body : Nat → Prog} {fs₀ : List (Nat × Int)} {D : Nat → Prop}

/-! ### node creation -/

theorem SInvCvD.getTask {s s' : Sess} (h : SInvCvD cr sem body fs₀ D s) (t : Nat)
    (hst : s'.store = (s.store.getOrCreateTaskNode t).1) (hfs : s'.fs = s.fs)
    (hcur : s'.cur = s.cur) (hcons : s'.consistent = s.consistent) (hq : s'.queue = s.queue)
    (htr : TrExt s s') : SStepCv cr sem body fs₀ D s s' ∧ ∀ x, Same s s' x := by
  have hs : ∀ x, Same s s' x := fun x =>
    ⟨by rw [hst, Store.taskOutput_getOrCreateTaskNode h.wf.store],
     by rw [hst, Store.outgoingEdges_getOrCreateTaskNode h.wf.store]⟩
  refine ⟨h.storeStep hfs hcur hcons hq htr.1 htr.2 (hst ▸ h.wf.store.getOrCreateTaskNode t)
    (hst ▸ h.roles.getOrCreateTaskNode t) (hst ▸ Store.le_getOrCreateTaskNode h.wf.store t)
    (fun x => .inl (hs x)) ?_, hs⟩
  intro n hn
  rw [(hs n).1]; exact h.curFree n hn

theorem SInvCvD.getRes {s s' : Sess} (h : SInvCvD cr sem body fs₀ D s) (r : Nat)
    (hst : s'.store = (s.store.getOrCreateResNode r).1) (hfs : s'.fs = s.fs)
    (hcur : s'.cur = s.cur) (hcons : s'.consistent = s.consistent) (hq : s'.queue = s.queue)
    (htr : TrExt s s') : SStepCv cr sem body fs₀ D s s' ∧ ∀ x, Same s s' x := by
  have hs : ∀ x, Same s s' x := fun x =>
    ⟨by rw [hst, Store.taskOutput_getOrCreateResNode h.wf.store],
     by rw [hst, Store.outgoingEdges_getOrCreateResNode h.wf.store]⟩
  refine ⟨h.storeStep hfs hcur hcons hq htr.1 htr.2 (hst ▸ h.wf.store.getOrCreateResNode r)
    (hst ▸ h.roles.getOrCreateResNode r) (hst ▸ Store.le_getOrCreateResNode h.wf.store r)
    (fun x => .inl (hs x)) ?_, hs⟩
  intro n hn
  rw [(hs n).1]; exact h.curFree n hn

/-! ### edges of the executing task -/

theorem SInvCvD.addDep {s s' : Sess} (h : SInvCvD cr sem body fs₀ D s) {n dst : Nat} {d : Dep}
    (hc : s.cur = some n) (hd : s.store.DepOK d dst)
    (hro : CovInv cr (s.store.addDependency n dst d).1)
    (hst : s'.store = (s.store.addDependency n dst d).1) (hfs : s'.fs = s.fs)
    (hcur : s'.cur = s.cur) (hcons : s'.consistent = s.consistent) (hq : s'.queue = s.queue)
    (htr : TrExt s s') :
    SStepCv cr sem body fs₀ D s s' ∧ (∀ x, x ≠ n → Same s s' x) ∧
      ∀ x, s'.store.taskOutput x = s.store.taskOutput x := by
  have ho : ∀ x, s'.store.taskOutput x = s.store.taskOutput x := fun x => by
    rw [hst, Store.taskOutput_addDependency h.wf.store]
  have hs : ∀ x, x ≠ n → Same s s' x := fun x hx =>
    ⟨ho x, by rw [hst, Store.outgoingEdges_addDependency_of_ne h.wf.store _ _ _ hx]⟩
  refine ⟨h.storeStep hfs hcur hcons hq htr.1 htr.2
    (hst ▸ h.wf.store.addDependency (h.wf.cur n hc) hd) (hst ▸ hro)
    (hst ▸ Store.le_addDependency h.wf.store _ _ _) ?_ ?_, hs, ho⟩
  · intro x
    by_cases hx : x = n
    · subst hx
      exact .inr ⟨h.cur_not_consistent hc, .of_none (by rw [ho]; exact h.curFree x hc)⟩
    · exact .inl (hs x hx)
  · intro n' hn'; rw [ho]; exact h.curFree n' hn'

theorem SInvCvD.setDep {s s' : Sess} (h : SInvCvD cr sem body fs₀ D s) {n dst t c : Nat}
    {stamp : Stamp} (hc : s.cur = some n) (hd : s.store.taskOf dst = some t)
    (hst : s.store.setDependency n dst (.require t c stamp) = some s'.store) (hfs : s'.fs = s.fs)
    (hcur : s'.cur = s.cur) (hcons : s'.consistent = s.consistent) (hq : s'.queue = s.queue)
    (htr : TrExt s s') :
    SStepCv cr sem body fs₀ D s s' ∧ (∀ x, x ≠ n → Same s s' x) ∧
      ∀ x, s'.store.taskOutput x = s.store.taskOutput x := by
  have ho : ∀ x, s'.store.taskOutput x = s.store.taskOutput x := fun x =>
    Store.taskOutput_setDependency hst x
  have hs : ∀ x, x ≠ n → Same s s' x := fun x hx =>
    ⟨ho x, Store.outgoingEdges_setDependency_of_ne hst hx⟩
  refine ⟨h.storeStep hfs hcur hcons hq htr.1 htr.2
    (Store.WF.setDependency hst h.wf.store (by simpa using hd)) (h.roles.setDependency hst hd)
    (Store.le_setDependency hst) ?_ ?_, hs, ho⟩
  · intro x
    by_cases hx : x = n
    · subst hx
      exact .inr ⟨h.cur_not_consistent hc, .of_none (by rw [ho]; exact h.curFree x hc)⟩
    · exact .inl (hs x hx)
  · intro n' hn'; rw [ho]; exact h.curFree n' hn'

/-! ### `reserveRequire` / `updateRequire` -/

theorem reserveRequire_specCv {s : Sess} (h : SInvCvD cr sem body fs₀ D s) {mu t : Nat}
    (hd : s.store.taskOf mu = some t) (hpre : ReqPre cr.toRoles s t) {s' : Sess} {res : Res Unit}
    (heq : reserveRequire s mu = (s', res)) :
    SStepCv cr sem body fs₀ D s s' ∧ s'.cur = s.cur ∧ s'.consistent = s.consistent ∧
    s'.fs = s.fs ∧ s'.trace = s.trace ∧
    (∀ x, s.cur ≠ some x → Same s s' x) ∧
    (res = .ok () → ∀ n, s.cur = some n → s'.store.g.HasEdge n mu ∧
      (((∃ d0, (mu, d0) ∈ s.store.g.outgoingEdges n) ∧
          s'.store.g.outgoingEdges n = s.store.g.outgoingEdges n) ∨
       ((∀ d0, (mu, d0) ∉ s.store.g.outgoingEdges n) ∧
          s'.store.g.outgoingEdges n = s.store.g.outgoingEdges n ++ [(mu, .reserved)]))) := by
  rcases Option.eq_none_or_eq_some s.cur with hc | ⟨n, hc⟩
  · rw [reserveRequire_none hc] at heq
    obtain ⟨rfl, rfl⟩ := Prod.mk.inj heq
    exact ⟨SStepCv.refl h, rfl, rfl, rfl, rfl, fun _ _ => Same.refl _ _,
      fun _ n hn => by rw [hc] at hn; cases hn⟩
  · obtain ⟨h1, h2⟩ := reserveRequire_some hc mu
    rw [heq] at h1 h2
    simp only at h1 h2
    subst h1
    obtain ⟨t0, ht0, hlt⟩ := hpre n hc
    have hro : CovInv cr (s.store.addDependency n mu .reserved).1 :=
      h.roles.addDependency ht0 (d := .reserved) ⟨t, hd⟩
        (fun u hu => by rw [hd] at hu; cases hu; exact hlt)
        (fun _ _ _ hh => nomatch hh) (fun _ _ _ _ hh => nomatch hh)
    obtain ⟨st, hs, _⟩ := h.addDep
      (s' := { s with store := (s.store.addDependency n mu .reserved).1 })
      (d := .reserved) hc ⟨t, hd⟩ hro rfl rfl rfl rfl rfl (TrExt.of_eq rfl)
    refine ⟨st, rfl, rfl, rfl, rfl, fun x hx => hs x (fun hxn => hx (by rw [hxn]; exact hc)), ?_⟩
    intro hres n' hn'
    rw [hc] at hn'; cases hn'
    have hv := h2.mp hres
    rcases Store.addDependency_ok_cases h.wf.store n mu .reserved hv with ⟨h3, h4⟩ | ⟨h3, h4⟩
    · refine ⟨?_, .inl ⟨h3, ?_⟩⟩
      · show (s.store.addDependency n mu .reserved).1.g.HasEdge n mu
        rw [h4]; exact (Store.hasEdge_iff_mem_oe h.wf.store _ _).mpr h3
      · show (s.store.addDependency n mu .reserved).1.g.outgoingEdges n = _
        rw [h4]
    · refine ⟨?_, .inr ⟨h3, h4⟩⟩
      show (s.store.addDependency n mu .reserved).1.g.HasEdge n mu
      rw [Store.hasEdge_iff_mem_oe st.inv.wf.store]
      exact ⟨.reserved, by
        show _ ∈ (s.store.addDependency n mu .reserved).1.g.outgoingEdges n; rw [h4]; simp⟩

theorem updateRequire_specCv {s : Sess} (h : SInvCvD cr sem body fs₀ D s) {mu u : Nat}
    (hd : s.store.taskOf mu = some u) (c : Nat) (stamp : Stamp) {s' : Sess} {res : Res Unit}
    (heq : updateRequire s mu u c stamp = (s', res)) :
    SStepCv cr sem body fs₀ D s s' ∧ s'.cur = s.cur ∧ s'.consistent = s.consistent ∧
    s'.fs = s.fs ∧ s'.trace = s.trace ∧
    (∀ x, s.cur ≠ some x → Same s s' x) ∧
    (∀ x, s'.store.taskOutput x = s.store.taskOutput x) ∧
    (res = .ok () → ∀ n, s.cur = some n → s'.store.g.outgoingEdges n =
      (s.store.g.outgoingEdges n).map (fun p => if p.1 = mu then (p.1, .require u c stamp) else p)) := by
  rcases Option.eq_none_or_eq_some s.cur with hc | ⟨n, hc⟩
  · rw [updateRequire_none hc] at heq
    obtain ⟨rfl, rfl⟩ := Prod.mk.inj heq
    exact ⟨SStepCv.refl h, rfl, rfl, rfl, rfl, fun _ _ => Same.refl _ _, fun _ => rfl,
      fun _ n hn => by rw [hc] at hn; cases hn⟩
  · rw [updateRequire_some hc] at heq
    cases hsd : s.store.setDependency n mu (.require u c stamp) with
    | none =>
      rw [hsd] at heq
      obtain ⟨rfl, rfl⟩ := Prod.mk.inj heq
      exact ⟨SStepCv.refl h, rfl, rfl, rfl, rfl, fun _ _ => Same.refl _ _, fun _ => rfl,
        fun hh => by cases hh⟩
    | some st' =>
      rw [hsd] at heq
      obtain ⟨rfl, rfl⟩ := Prod.mk.inj heq
      obtain ⟨st, hs, ho⟩ := h.setDep (s' := { s with store := st' }) hc hd hsd rfl rfl rfl rfl
        (TrExt.of_eq rfl)
      refine ⟨st, rfl, rfl, rfl, rfl, fun x hx => hs x (fun hxn => hx (by rw [hxn]; exact hc)),
        ho, ?_⟩
      intro _ n' hn'
      rw [hc] at hn'; cases hn'
      show st'.g.outgoingEdges n = _
      rw [Store.outgoingEdges_setDependency hsd, if_pos rfl]

/-! ### `doRead` -/

/-- `doRead` inside a task whose accumulator is reflected in the store, of a resource whose
generator (if any) was required earlier: a session step that touches only the reading task's
edges; on `.ok` it returns the content and the read dependency is recorded (first insertion
wins). -/
theorem doRead_specCv (hst : StampTotal sem) (hrk : CovRank cr) {s : Sess} (h : SInvCvD cr sem body fs₀ D s)
    {n t0 : Nat} (hc : s.cur = some n) (ht : s.store.taskOf n = some t0) {a : Acc}
    (ha : AccOK s.store n a) (r c : Nat) (hreq : ∀ w, cr.gen r = some w → Covers cr a.req w)
    {s' : Sess} {res : Res (Except Int (Option Int))} (hF : doRead sem s r c = (s', res)) :
    SStepCv cr sem body fs₀ D s s' ∧ s'.cur = s.cur ∧ s'.consistent = s.consistent ∧
    s'.fs = s.fs ∧ TrExt s s' ∧ (∀ x, x ≠ n → Same s s' x) ∧ AccOK s'.store n a ∧
    ∀ x, res = .ok x → x = .ok (aget s.fs r) ∧ ∃ dst stamp,
      sem.rstamp c (aget s.fs r) = .ok stamp ∧ s'.store.resOf dst = some r ∧
      (((∃ d0, (dst, d0) ∈ s.store.g.outgoingEdges n) ∧
          s'.store.g.outgoingEdges n = s.store.g.outgoingEdges n) ∨
       ((∀ d0, (dst, d0) ∉ s.store.g.outgoingEdges n) ∧
          s'.store.g.outgoingEdges n = s.store.g.outgoingEdges n ++ [(dst, .read r c stamp)])) := by
  have hacc : AccOK s'.store n a := by
    have := (doRead_trans (G := False) sem h.wf h.roles hrk hc ht ha False.elim r c hreq 0).2
    rwa [hF] at this
  have hn : s.store.getOrCreateResNode r =
    ((s.store.getOrCreateResNode r).1, (s.store.getOrCreateResNode r).2) := rfl
  generalize hst' : (s.store.getOrCreateResNode r).1 = st at hn
  generalize hdst : (s.store.getOrCreateResNode r).2 = dst at hn
  rw [doRead_eq sem s r c n st dst hc hn] at hF
  have hcont : s.content r = aget s.fs r := rfl
  obtain ⟨hb, hbs⟩ := h.getRes (s' := { s with store := st }) r hst'.symm rfl rfl rfl rfl
    (TrExt.of_eq rfl)
  have hres : st.resOf dst = some r := by
    rw [← hst', ← hdst]; exact Store.resOf_getOrCreateResNode_self h.wf.store r
  by_cases hh : readHidden st n dst = true
  · rw [if_pos hh] at hF
    obtain ⟨rfl, rfl⟩ := Prod.mk.inj hF
    obtain ⟨hb', hbs'⟩ := h.getRes
      (s' := { s with store := st, trace := s.trace ++ [.readStart r c] }) r hst'.symm rfl rfl rfl
      rfl (TrExt.of_append [.readStart r c] rfl (by simp))
    exact ⟨hb', rfl, rfl, rfl, TrExt.of_append [.readStart r c] rfl (by simp), fun x _ => hbs' x,
      hacc, fun a ha => by cases ha⟩
  · rw [if_neg hh] at hF
    obtain ⟨stamp, hs⟩ := hst c (s.content r)
    rw [hs] at hF
    simp only at hF
    have ht1 : st.taskOf n = some t0 := hb.le.task _ _ ht
    have hv := Store.addDependency_to_res_ok hb.inv.wf.store n dst (.read r c stamp) ht1 hres
    have ha1 : AccOK st n a := by
      rw [← hst']
      exact ha.of_eq (Store.le_getOrCreateResNode h.wf.store r)
        (Store.getEdgeData_getOrCreateResNode h.wf.store r n)
    have hro2 := (read_addDependency_trans hb.inv.roles (cur := n) (dst := dst) ht1 hres ha1
      hreq c stamp 0).1
    cases hvv : st.addDependency n dst (.read r c stamp) with
    | mk st' v =>
      rw [hvv] at hF hv
      simp only at hv; subst hv
      simp only at hF
      obtain ⟨rfl, rfl⟩ := Prod.mk.inj hF
      have hst'' : st' = (st.addDependency n dst (.read r c stamp)).1 := by rw [hvv]
      have htr2 : TrExt { s with store := st }
          { s with store := st', trace := s.trace ++ [.readStart r c, .readEnd r c stamp] } :=
        TrExt.of_append [.readStart r c, .readEnd r c stamp] rfl (by simp)
      obtain ⟨ha', has, hao⟩ := hb.inv.addDep (s := { s with store := st })
        (s' := { s with store := st',
                        trace := s.trace ++ [.readStart r c, .readEnd r c stamp] })
        (n := n) (dst := dst) (d := .read r c stamp) hc (by simpa using hres) hro2 hst'' rfl rfl
        rfl rfl htr2
      refine ⟨hb.trans ha', rfl, rfl, rfl, TrExt.of_append [.readStart r c, .readEnd r c stamp] rfl
        (by simp), fun x hx => (hbs x).trans (has x hx), hacc, ?_⟩
      intro a ha''
      cases ha''
      refine ⟨by rw [hcont], dst, stamp, by rw [← hcont]; exact hs, ?_, ?_⟩
      · show st'.resOf dst = some r
        rw [hst'', Store.resOf_addDependency hb.inv.wf.store]; exact hres
      · have hoe : st.g.outgoingEdges n = s.store.g.outgoingEdges n := (hbs n).2
        have hvok : (st.addDependency n dst (.read r c stamp)).2 = .ok := by rw [hvv]
        rcases Store.addDependency_ok_cases hb.inv.wf.store n dst (.read r c stamp) hvok with
          ⟨h1, h2⟩ | ⟨h1, h2⟩
        · left
          rw [← hoe]
          refine ⟨h1, ?_⟩
          show st'.g.outgoingEdges n = _
          rw [hst'', h2]
        · right
          rw [← hoe]
          refine ⟨h1, ?_⟩
          show st'.g.outgoingEdges n = _
          rw [hst'', h2]

/-! ### `doWrite`, `doWrote` -/

/-- The generator has no edge yet to a resource it did not write in this execution. -/
theorem no_edge_to_generatedCv {st : Store} (hi : CovInv cr st) (hrk : CovRank cr)
    {cur dst t0 r : Nat}
    (ht : st.taskOf cur = some t0) (hd : st.resOf dst = some r) {a : Acc} (ha : AccOK st cur a)
    (hg : cr.gen r = some t0) (hnw : r ∉ a.wr) : st.g.getEdgeData cur dst = none := by
  cases he : st.g.getEdgeData cur dst with
  | none => rfl
  | some d0 =>
    have hok := hi.wf.edge_dst _ _ _ he
    cases d0 with
    | reserved =>
      obtain ⟨u, hu⟩ := hok
      rw [Store.taskOf_eq_none_of_resOf hd] at hu; cases hu
    | require u c s =>
      simp only [Store.depOK_require] at hok
      rw [Store.taskOf_eq_none_of_resOf hd] at hok; cases hok
    | read r' c s =>
      simp only [Store.depOK_read] at hok
      rw [hd] at hok; cases hok
      obtain ⟨nw, m, dep, h1, h2, h3⟩ := hi.read _ _ _ _ _ t0 he hg
      have hlt := hi.req _ _ dep t0 m h2 ht h1
      rcases h3 with rfl | h3
      · exact absurd hlt (Nat.lt_irrefl _)
      · exact absurd (hrk m t0 h3) (Nat.lt_asymm hlt)
    | write r' c s =>
      simp only [Store.depOK_write] at hok
      rw [hd] at hok; cases hok
      exact absurd (ha.wr _ _ _ _ he) hnw

/-- The common part of `doWrite`/`doWrote`: from `s` to a state whose store is `s.store` after
node creation and the new write edge, whose resources are those of `s.setContent r v`, and whose
trace grew by write events. -/
theorem writeStepCv (hrk : CovRank cr) {s s' : Sess} (h : SInvCvD cr sem body fs₀ D s) {n t0 : Nat}
    (hc : s.cur = some n) (ht : s.store.taskOf n = some t0) {a : Acc} (ha : AccOK s.store n a)
    (r c : Nat) (v : Option Int) (stamp : Stamp) (hg : cr.gen r = some t0) (hnw : r ∉ a.wr)
    {st : Store} {dst : Nat} (hgn : s.store.getOrCreateResNode r = (st, dst))
    (hst : s'.store = (st.addDependency n dst (.write r c stamp)).1)
    (hfs : s'.fs = (s.setContent r v).fs) (hcur : s'.cur = s.cur)
    (hcons : s'.consistent = s.consistent) (hq : s'.queue = s.queue) (htr : TrExt s s') :
    SStepCv cr sem body fs₀ D s s' ∧ (∀ x, x ≠ n → Same s s' x) ∧
    aget s'.fs r = v ∧ (∀ r', r' ≠ r → aget s'.fs r' = aget s.fs r') ∧
    s'.store.resOf dst = some r ∧
    (∀ d0, (dst, d0) ∉ s.store.g.outgoingEdges n) ∧
    s'.store.g.outgoingEdges n = s.store.g.outgoingEdges n ++ [(dst, .write r c stamp)] := by
  have hw := h.wf.store
  have hst1 : (s.store.getOrCreateResNode r).1 = st := by rw [hgn]
  have hdst : (s.store.getOrCreateResNode r).2 = dst := by rw [hgn]
  have hw1 : st.WF := hst1 ▸ hw.getOrCreateResNode r
  have hle1 : s.store.Le st := hst1 ▸ Store.le_getOrCreateResNode hw r
  have hi1 : CovInv cr st := hst1 ▸ h.roles.getOrCreateResNode r
  have hres : st.resOf dst = some r := by
    rw [← hst1, ← hdst]; exact Store.resOf_getOrCreateResNode_self hw r
  have ht1 : st.taskOf n = some t0 := hle1.task _ _ ht
  have hed1 : ∀ a b, st.g.getEdgeData a b = s.store.g.getEdgeData a b := by
    intro a b; rw [← hst1]; exact Store.getEdgeData_getOrCreateResNode hw r a b
  have ha1 : AccOK st n a := ha.of_eq hle1 (hed1 n)
  have hoe1 : ∀ x, st.g.outgoingEdges x = s.store.g.outgoingEdges x := by
    intro x; rw [← hst1]; exact Store.outgoingEdges_getOrCreateResNode hw r x
  have hout1 : ∀ x, st.taskOutput x = s.store.taskOutput x := by
    intro x; rw [← hst1]; exact Store.taskOutput_getOrCreateResNode hw r x
  have hnone := no_edge_to_generatedCv hi1 hrk ht1 hres ha1 hg hnw
  have hvok := Store.addDependency_to_res_ok hw1 n dst (.write r c stamp) ht1 hres
  have hi2 := (write_addDependency_trans hi1 ht1 hres ha1 hg c stamp 0).1
  have hle2 := Store.le_addDependency hw1 n dst (.write r c stamp)
  have hnoe : ∀ d0, (dst, d0) ∉ st.g.outgoingEdges n := by
    intro d0 hm
    rw [Dag.mem_outgoingEdges hw1.gwf, hnone] at hm; cases hm
  have hoe2 : s'.store.g.outgoingEdges n = st.g.outgoingEdges n ++ [(dst, .write r c stamp)] := by
    rcases Store.addDependency_ok_cases hw1 n dst (.write r c stamp) hvok with ⟨⟨d0, h1⟩, _⟩ | ⟨_, h2⟩
    · exact absurd h1 (hnoe d0)
    · rw [hst, h2]
  have ho : ∀ x, s'.store.taskOutput x = s.store.taskOutput x := fun x => by
    rw [hst, Store.taskOutput_addDependency hw1, hout1]
  have hs : ∀ x, x ≠ n → Same s s' x := fun x hx =>
    ⟨ho x, by rw [hst, Store.outgoingEdges_addDependency_of_ne hw1 _ _ _ hx, hoe1]⟩
  have hw2 : s'.store.WF := hst ▸ hw1.addDependency ⟨t0, ht1⟩ (by simpa using hres)
  have hle : s.store.Le s'.store := hst ▸ hle1.trans hle2
  have hcontr : aget s'.fs r = v := by
    rw [hfs]; exact SessL.content_setContent s h.nodup r v
  have hconto : ∀ r', r' ≠ r → aget s'.fs r' = aget s.fs r' := by
    intro r' hr'
    rw [hfs]; exact SessL.content_setContent_ne s r r' (Ne.symm hr') v
  refine ⟨h.step (h.wf.ext_of_store hcur hq hw2 hle).wf (hst ▸ hi2)
    (hfs ▸ SessL.setContent_nodup s h.nodup r v) hle hcons hcur ?_ ?_ ?_ htr.1 htr.2, hs,
    hcontr, hconto, ?_, ?_, ?_⟩
  · intro x
    by_cases hx : x = n
    · subst hx
      exact .inr ⟨h.cur_not_consistent hc, .of_none (by rw [ho]; exact h.curFree x hc)⟩
    · exact .inl (hs x hx)
  · intro n' hn'; rw [ho]; exact h.curFree n' hn'
  · intro r'
    by_cases hr' : r' = r
    · subst hr'; exact .inr ⟨n, t0, hc, ht, hg⟩
    · exact .inl (hconto r' hr')
  · rw [hst, Store.resOf_addDependency hw1]; exact hres
  · intro d0; rw [← hoe1]; exact hnoe d0
  · rw [hoe2, hoe1]

/-- `doWrite` by the generator of `r`, first write of `r` in this execution: on return the
content is `v`, other resources are untouched, and a new write dependency with the stamp of `v`
is appended to the task's edges. -/
theorem doWrite_specCv (hst : StampTotal sem) (hrk : CovRank cr) {s : Sess} (h : SInvCvD cr sem body fs₀ D s)
    {n t0 : Nat} (hc : s.cur = some n) (ht : s.store.taskOf n = some t0) {a : Acc}
    (ha : AccOK s.store n a) (r c : Nat) (v : Option Int) (hg : cr.gen r = some t0)
    (hnw : r ∉ a.wr) {s' : Sess} {res : Res (Except Int Unit)}
    (hF : doWrite sem s r c v = (s', res)) :
    FaithfulO sem body s'.store ∧
    ∀ x, res = .ok x → x = .ok () ∧ SStepCv cr sem body fs₀ D s s' ∧ s'.cur = s.cur ∧
      s'.consistent = s.consistent ∧ TrExt s s' ∧ (∀ x, x ≠ n → Same s s' x) ∧
      AccOK s'.store n { a with wr := r :: a.wr } ∧
      aget s'.fs r = v ∧ (∀ r', r' ≠ r → aget s'.fs r' = aget s.fs r') ∧
      ∃ dst stamp, sem.rstamp c v = .ok stamp ∧ s'.store.resOf dst = some r ∧
        (∀ d0, (dst, d0) ∉ s.store.g.outgoingEdges n) ∧
        s'.store.g.outgoingEdges n = s.store.g.outgoingEdges n ++ [(dst, .write r c stamp)] := by
  have hacc : AccOK s'.store n { a with wr := r :: a.wr } := by
    have := (doWrite_trans (G := False) sem h.wf h.roles hrk hc ht ha False.elim r c v hg hnw 0).2
    rwa [hF] at this
  obtain ⟨st0, dst, hn⟩ : ∃ st0 dst, s.store.getOrCreateResNode r = (st0, dst) := ⟨_, _, rfl⟩
  have hst0 : (s.store.getOrCreateResNode r).1 = st0 := by rw [hn]
  rw [doWrite_eq sem s r c n v st0 dst hc hn] at hF
  simp only at hF
  obtain ⟨hb, _⟩ := h.getRes (s' := { s with store := st0 }) r hst0.symm
    rfl rfl rfl rfl (TrExt.of_eq rfl)
  have hfB : FaithfulO sem body st0 := hb.inv.faithful
  have hcont : (({ s with store := st0, trace := s.trace ++ [.writeStart r c] } : Sess).setContent
      r v).content r = v := by
    rw [SessL.content_congr _ _ (SessL.setContent_fs_with s _ _ r v) r]
    exact SessL.content_setContent s h.nodup r v
  rw [hcont] at hF
  split at hF
  · obtain ⟨rfl, rfl⟩ := Prod.mk.inj hF
    exact ⟨hfB, fun x hx => by cases hx⟩
  · obtain ⟨stamp, hs⟩ := hst c v
    rw [hs] at hF
    simp only at hF
    split at hF
    · obtain ⟨rfl, rfl⟩ := Prod.mk.inj hF
      refine ⟨?_, fun x hx => by cases hx⟩
      simpa using hfB
    · rename_i st' x hx heq
      obtain ⟨rfl, rfl⟩ := Prod.mk.inj hF
      have hst'' : st' = (st0.addDependency n dst (.write r c stamp)).1 := by rw [heq]
      obtain ⟨st, hsame, h1, h2, h3, h4, h5⟩ := writeStepCv hrk h hc ht ha r c v stamp hg hnw hn
        (s' := { ((({ s with store := st0, trace := s.trace ++ [.writeStart r c] } :
                Sess).setContent r v).emit (.writeEnd r c stamp)) with store := st' })
        hst'' (by simp [SessL.setContent_fs_with]) (by simp) (by simp) (by simp)
        (TrExt.of_append [.writeStart r c, .writeEnd r c stamp] (by simp) (by simp))
      exact ⟨st.inv.faithful, fun x hx => by
        cases hx
        exact ⟨rfl, st, by simp, by simp,
          TrExt.of_append [.writeStart r c, .writeEnd r c stamp] (by simp) (by simp), hsame, hacc,
          h1, h2, dst, stamp, hs, h3, h4, h5⟩⟩

theorem doWrote_specCv (hst : StampTotal sem) (hrk : CovRank cr) {s : Sess} (h : SInvCvD cr sem body fs₀ D s)
    {n t0 : Nat} (hc : s.cur = some n) (ht : s.store.taskOf n = some t0) {a : Acc}
    (ha : AccOK s.store n a) (r c : Nat) (v : Option Int) (hg : cr.gen r = some t0)
    (hnw : r ∉ a.wr) {s' : Sess} {res : Res (Except Int Unit)}
    (hF : doWrote sem s r c v = (s', res)) :
    FaithfulO sem body s'.store ∧
    ∀ x, res = .ok x → x = .ok () ∧ SStepCv cr sem body fs₀ D s s' ∧ s'.cur = s.cur ∧
      s'.consistent = s.consistent ∧ TrExt s s' ∧ (∀ x, x ≠ n → Same s s' x) ∧
      AccOK s'.store n { a with wr := r :: a.wr } ∧
      aget s'.fs r = v ∧ (∀ r', r' ≠ r → aget s'.fs r' = aget s.fs r') ∧
      ∃ dst stamp, sem.rstamp c v = .ok stamp ∧ s'.store.resOf dst = some r ∧
        (∀ d0, (dst, d0) ∉ s.store.g.outgoingEdges n) ∧
        s'.store.g.outgoingEdges n = s.store.g.outgoingEdges n ++ [(dst, .write r c stamp)] := by
  have hacc : AccOK s'.store n { a with wr := r :: a.wr } := by
    have := (doWrote_trans (G := False) sem h.wf h.roles hrk hc ht ha False.elim r c v hg hnw 0).2
    rwa [hF] at this
  obtain ⟨st0, dst, hn⟩ : ∃ st0 dst, s.store.getOrCreateResNode r = (st0, dst) := ⟨_, _, rfl⟩
  have hst0 : (s.store.getOrCreateResNode r).1 = st0 := by rw [hn]
  rw [doWrote_eq sem s r c n v st0 dst hc hn] at hF
  simp only at hF
  obtain ⟨hb, _⟩ := h.getRes (s' := { s with store := st0 }) r hst0.symm
    rfl rfl rfl rfl (TrExt.of_eq rfl)
  have hfB : FaithfulO sem body st0 := hb.inv.faithful
  have hcont : (s.setContent r v).content r = v := SessL.content_setContent s h.nodup r v
  rw [hcont] at hF
  split at hF
  · obtain ⟨rfl, rfl⟩ := Prod.mk.inj hF
    exact ⟨by simpa using hfB, fun x hx => by cases hx⟩
  · obtain ⟨stamp, hs⟩ := hst c v
    rw [hs] at hF
    simp only at hF
    split at hF
    · obtain ⟨rfl, rfl⟩ := Prod.mk.inj hF
      refine ⟨?_, fun x hx => by cases hx⟩
      simpa using hfB
    · rename_i st' x hx heq
      obtain ⟨rfl, rfl⟩ := Prod.mk.inj hF
      have hst'' : st' = (st0.addDependency n dst (.write r c stamp)).1 := by rw [heq]
      obtain ⟨st, hsame, h1, h2, h3, h4, h5⟩ := writeStepCv hrk h hc ht ha r c v stamp hg hnw hn
        (s' := { (({ (s.setContent r v) with
                      store := st0, trace := s.trace ++ [.writeStart r c] } : Sess).emit
                  (.writeEnd r c stamp)) with store := st' })
        hst'' (by simp) (by simp) (by simp) (by simp)
        (TrExt.of_append [.writeStart r c, .writeEnd r c stamp] (by simp) (by simp))
      exact ⟨st.inv.faithful, fun x hx => by
        cases hx
        exact ⟨rfl, st, by simp, by simp,
          TrExt.of_append [.writeStart r c, .writeEnd r c stamp] (by simp) (by simp), hsame, hacc,
          h1, h2, dst, stamp, hs, h3, h4, h5⟩⟩

end PieModel.TransSound
