/-
Soundness of the top-down build with writes under TRANSITIVE static roles (`WellFormedCov`;
adapted from `SoundW/Outcome.lean`: `CovInv` for `RolesInv`, `DenCv` for `Den`, the cover argument for
the direct edge reader → generator): the statement of the joint induction (`TdSoundCv`),
i.e. the post-conditions of the five mutually recursive functions.
-/
import PieModel.Build.TransSound.Walk
import PieModel.Build.SoundW.Outcome

namespace PieModel.TransSound
open PieModel.TransRoles

variable (cr : CRoles) (sem : Sem) (body : Nat → Prog) (fs₀ : List (Nat × Int)) (D : Nat → Prop)

/-- The frame of a call working at rank `≥ k`: resources generated below rank `k` are untouched,
and every execution started during the call has finished. -/
structure FrameCv (k : Nat) (s s' : Sess) : Prop where
  fs : FsBelow cr.toRoles k s s'
  exec : NewExec s s'

/-- What is known about a dependency of the *executing* task `n`. -/
def RunDepCv (qt qr : List (Nat × Nat)) (s : Sess) (dst : Nat) : Dep → Prop
  | .require u c st => (u, c) ∈ qt ∧ dst ∈ s.consistent ∧
      ∃ o, s.store.taskOutput dst = some o ∧ st = sem.ostamp c o
  | .read r c st => (r, c) ∈ qr ∧ sem.rstamp c (aget s.fs r) = .ok st ∧
      ∀ w, cr.gen r = some w → ConsT s w
  | .reserved => False
  | .write .. => True

/-- All outgoing edges of the executing task `n` are as described by `RunDepCv`. -/
def RunInvCv (qt qr : List (Nat × Nat)) (s : Sess) (n : Nat) : Prop :=
  ∀ dst d, (dst, d) ∈ s.store.g.outgoingEdges n → RunDepCv cr sem qt qr s dst d

/-- Result of a call from state `s`: the store is faithful whatever the result; if the call
returns, the session advanced by an `SStepCv` and `Q` holds. -/
structure OutcomeCv {α : Type} (s : Sess) (F : Sess × Res α) (Q : Sess → α → Prop) : Prop where
  faithful : FaithfulO sem body F.1.store
  ok : ∀ s' v, F = (s', .ok v) → SStepCv cr sem body fs₀ D s s' ∧ Q s' v

def QMakeCv (s : Sess) (t : Nat) (s' : Sess) (v : Int) : Prop :=
  nodeOf s t ∈ s'.consistent ∧ s'.store.taskOutput (nodeOf s t) = some v ∧
    s'.store.taskOf (nodeOf s t) = some t ∧ Prot s s' (nodeOf s t) ∧ FrameCv cr (cr.rank t) s s'

def QCheckCv (s : Sess) (m t : Nat) (s' : Sess) (r : Option Int) : Prop :=
  ProtR s s' m ∧ FrameCv cr (cr.rank t + 1) s s' ∧ ∀ o, r = some o →
    s.store.taskOutput m = some o ∧ ∀ d ∈ s.store.depsFrom m, DepOk cr.toRoles sem s' d

def QDepsCv (s : Sess) (m t : Nat) (all : List Dep) (s' : Sess) (b : Bool) : Prop :=
  ProtR s s' m ∧ FrameCv cr (cr.rank t + 1) s s' ∧ (b = true → ∀ d ∈ all, DepOk cr.toRoles sem s' d)

def QReqCv (s : Sess) (u c : Nat) (s' : Sess) (out : Int) : Prop :=
  nodeOf s u ∈ s'.consistent ∧ s'.store.taskOutput (nodeOf s u) = some out ∧
    s'.store.taskOf (nodeOf s u) = some u ∧ FrameCv cr (cr.rank u) s s' ∧
    ∀ n, s.cur = some n → Prot s s' n ∧
      EdgeUpdO (s.store.g.outgoingEdges n) (s'.store.g.outgoingEdges n) (nodeOf s u)
        (.require u c (sem.ostamp c out))

def QRunCv (s : Sess) (n t0 : Nat) (p : Prog) (s' : Sess) (v : Int) : Prop :=
  ∃ ws, EvalCv cr.toRoles sem body fs₀ p (v, ws) ∧
    (∀ r, cr.gen r = some t0 → aget s'.fs r = (wget ws r).getD (aget s.fs r)) ∧
    (∀ u, CallsPCv cr.toRoles sem body fs₀ p u → ConsT s' u) ∧
    FrameCv cr (cr.rank t0) s s' ∧ Prot s s' n ∧ (∃ qt qr, RunInvCv cr sem qt qr s' n) ∧
    ∃ new, s'.store.depsFrom n = s.store.depsFrom n ++ new ∧
      ReplayO sem p (s.store.depsFrom n) new v

/-- The joint statement for fuel `f`. -/
structure TdSoundCv (f : Nat) : Prop where
  require : ∀ s u c, SInvCvD cr sem body fs₀ D s → ReqPre cr.toRoles s u → D u →
    OutcomeCv cr sem body fs₀ D s (tdRequire sem body f s u c) (QReqCv cr sem s u c)
  make : ∀ s t, SInvCvD cr sem body fs₀ D s → CurReach s (nodeOf s t) → ReqPre cr.toRoles s t → D t →
    OutcomeCv cr sem body fs₀ D s (tdMake sem body f s t) (QMakeCv cr s t)
  check : ∀ s m t, SInvCvD cr sem body fs₀ D s → m ∉ s.consistent → CurReach s m →
    s.store.taskOf m = some t → ReqPre cr.toRoles s t → D t →
    OutcomeCv cr sem body fs₀ D s (tdCheck sem body f s m) (QCheckCv cr sem s m t)
  checkDeps : ∀ s m t o pre ds, SInvCvD cr sem body fs₀ D s → m ∉ s.consistent → CurReach s m →
    s.store.taskOf m = some t → ReqPre cr.toRoles s t → D t → s.store.depsFrom m = pre ++ ds →
    ReplayO sem (body t) [] (pre ++ ds) o → (∀ d ∈ pre, DepOk cr.toRoles sem s d) →
    OutcomeCv cr sem body fs₀ D s (tdCheckDeps sem body f s ds) (QDepsCv cr sem s m t (pre ++ ds))
  run : ∀ s n t0 p a qt qr, SInvCvD cr sem body fs₀ D s → s.cur = some n →
    s.store.taskOf n = some t0 → StaticCovFrom cr t0 a p → AccOK s.store n a → OneCk qt qr p →
    RunInvCv cr sem qt qr s n → ReqConsCv s a →
    (∀ u, CallsPCv cr.toRoles sem body fs₀ p u → D u) →
    OutcomeCv cr sem body fs₀ D s (tdRun sem body f s p) (QRunCv cr sem body fs₀ s n t0 p)

variable {cr sem body fs₀ D}

section
variable {α : Type} {s s₁ : Sess} {F : Sess × Res α} {Q Q₁ : Sess → α → Prop}

theorem OutcomeCv.abort {a : Abort} (h : FaithfulO sem body s₁.store) :
    OutcomeCv cr sem body fs₀ D s (s₁, (.abort a : Res α)) Q :=
  ⟨h, fun _ _ heq => by cases heq⟩

theorem OutcomeCv.ret {v : α} (st : SStepCv cr sem body fs₀ D s s₁) (hq : Q s₁ v) :
    OutcomeCv cr sem body fs₀ D s (s₁, .ok v) Q :=
  ⟨st.inv.faithful, fun _ _ heq => by cases heq; exact ⟨st, hq⟩⟩

theorem OutcomeCv.faithful_of {r : Res α} (o : OutcomeCv cr sem body fs₀ D s F Q) (heq : F = (s₁, r)) :
    FaithfulO sem body s₁.store := by
  have := o.faithful; rw [heq] at this; exact this

theorem OutcomeCv.trans (o : OutcomeCv cr sem body fs₀ D s₁ F Q₁) (st : SStepCv cr sem body fs₀ D s s₁)
    (hq : ∀ s' v, SStepCv cr sem body fs₀ D s₁ s' → Q₁ s' v → Q s' v) :
    OutcomeCv cr sem body fs₀ D s F Q :=
  ⟨o.faithful, fun s' v heq =>
    ⟨st.trans (o.ok s' v heq).1, hq s' v (o.ok s' v heq).1 (o.ok s' v heq).2⟩⟩

end

section
variable {k k' : Nat} {s s' s'' : Sess}

theorem FrameCv.refl (k : Nat) (s : Sess) : FrameCv cr k s s := ⟨FsBelow.refl k s, NewExec.refl s⟩

theorem FrameCv.trans (h₁ : FrameCv cr k s s') (h₂ : FrameCv cr k s' s'')
    (st : SStepCv cr sem body fs₀ D s' s'') : FrameCv cr k s s'' :=
  ⟨h₁.fs.trans h₂.fs, h₁.exec.trans h₂.exec st.mono st.le⟩

theorem FrameCv.mono (h : FrameCv cr k s s') (hk : k' ≤ k) : FrameCv cr k' s s' := ⟨h.fs.mono hk, h.exec⟩

/-- A step that does not touch the resources and starts no execution. -/
theorem FrameCv.quiet (hfs : s'.fs = s.fs) (htr : TrExt s s') : FrameCv cr k s s' :=
  ⟨FsBelow.of_eq hfs, NewExec.of_trace htr.2⟩

end

/-- A step that only extends the trace (by events that are not starts of executions). -/
theorem SInvCvD.quiet {s s' : Sess} (h : SInvCvD cr sem body fs₀ D s) (h1 : s'.store = s.store)
    (h2 : s'.fs = s.fs) (h3 : s'.cur = s.cur) (h4 : s'.consistent = s.consistent)
    (h5 : s'.queue = s.queue) (htr : TrExt s s') (k m : Nat) :
    SStepCv cr sem body fs₀ D s s' ∧ ProtR s s' m ∧ FrameCv cr k s s' :=
  ⟨h.same h1 h2 h3 h4 h5 htr.1 htr.2, Prot.same h1 h4 m, FrameCv.quiet h2 htr⟩

theorem RunDepCv.mono {qt qr qt' qr' : List (Nat × Nat)} {s s' : Sess} {dst : Nat} {d : Dep}
    (hd : RunDepCv cr sem qt qr s dst d) (h : SInvCvD cr sem body fs₀ D s)
    (st : SStepCv cr sem body fs₀ D s s')
    (ht : ∀ p ∈ qt, p ∈ qt') (hr : ∀ p ∈ qr, p ∈ qr') : RunDepCv cr sem qt' qr' s' dst d := by
  cases d with
  | reserved => exact hd
  | require u c stp =>
    obtain ⟨h1, h2, o, h3, h4⟩ := hd
    exact ⟨ht _ h1, st.mono _ h2, o, by rw [(st.cext _ h2).1]; exact h3, h4⟩
  | read r c stp =>
    obtain ⟨h1, h2, h3⟩ := hd
    exact ⟨hr _ h1, by rw [st.fs_stable h h3]; exact h2, fun w hw => st.consT (h3 w hw)⟩
  | write r c stp => exact hd

/-- (Two modules of the project define `Store.mem_depsFrom_iff` with different binders; this copy
makes the proofs independent of which one is found.) -/
theorem mem_depsFrom_iffCv (st : Store) (a : Nat) (d : Dep) :
    d ∈ st.depsFrom a ↔ ∃ b, (b, d) ∈ st.g.outgoingEdges a := by
  simp [Store.depsFrom, Dag.outgoingEdgeData]

end PieModel.TransSound
