/-
Soundness of the top-down build with writes under TRANSITIVE static roles: the session invariant
`SInvCvD` (as `SInvWD` of `SoundW/Inv.lean`, with the store invariant `CovInv` and the reference
semantics `DenCv`), the step relation `SStepCv`, and the generic steps.  New: a consistent task
has everything in its cover consistent (`SInvCvD.consT_cov`).
-/
import PieModel.Build.TransSound.Defs
import PieModel.Build.SoundW.Inv
import PieModel.Build.Sound.Outcome
import PieModel.Build.RolesTopDown

namespace PieModel.TransSound
open PieModel.TransRoles

variable (cr : CRoles) (sem : Sem) (body : Nat → Prog) (fs₀ : List (Nat × Int)) (D : Nat → Prop)

/-- The session invariant of a session that started with resource state `fs₀`. -/
structure SInvCvD (s : Sess) : Prop where
  wf : SessWF s
  roles : CovInv cr s.store
  faithful : FaithfulO sem body s.store
  nodup : (akeys s.fs).Nodup
  /-- every consistent node is a task of `D` whose output is the from-scratch output, whose
  generated resources hold what the from-scratch execution leaves in them, and all tasks its
  from-scratch execution requires are consistent, too -/
  sound : ∀ n ∈ s.consistent, ∃ t o ws, s.store.taskOf n = some t ∧
    s.store.taskOutput n = some o ∧ DenCv cr.toRoles sem body fs₀ t (o, ws) ∧ D t ∧
    (∀ r, cr.gen r = some t → aget s.fs r = (wget ws r).getD (aget fs₀ r)) ∧
    (∀ u, CallsCv cr.toRoles sem body fs₀ t u → ConsT s u)
  /-- the executing task has no output -/
  curFree : ∀ n, s.cur = some n → s.store.taskOutput n = none
  /-- the start of its execution is in the trace -/
  curExec : ∀ n t, s.cur = some n → s.store.taskOf n = some t → Ev.executeStart t ∈ s.trace
  /-- a resource whose generator did not start executing in this session has its start content -/
  untouched : ∀ r, (∀ w, cr.gen r = some w → Ev.executeStart w ∉ s.trace) →
    aget s.fs r = aget fs₀ r
  /-- a task that started executing is in `D`, and is consistent or on the stack (its rank is
  at most the rank of the executing task) -/
  executed : ∀ x, Ev.executeStart x ∈ s.trace → D x ∧
    (ConsT s x ∨ ∃ c tc, s.cur = some c ∧ s.store.taskOf c = some tc ∧ cr.rank x ≤ cr.rank tc)

/-- The invariant without a bound on the tasks made consistent. -/
abbrev SInvCv (s : Sess) : Prop := SInvCvD cr sem body fs₀ (fun _ => True) s

/-- `s'` is a later state of the session. -/
structure SStepCv (s s' : Sess) : Prop where
  inv : SInvCvD cr sem body fs₀ D s'
  mono : ∀ x ∈ s.consistent, x ∈ s'.consistent
  cext : ∀ x ∈ s.consistent, Same s s' x
  le : s.store.Le s'.store
  tr : ∀ e ∈ s.trace, e ∈ s'.trace

variable {cr sem body fs₀ D}

theorem SStepCv.refl {s : Sess} (h : SInvCvD cr sem body fs₀ D s) : SStepCv cr sem body fs₀ D s s :=
  ⟨h, fun _ hx => hx, fun _ _ => Same.refl _ _, Store.Le.refl _, fun _ he => he⟩

theorem SStepCv.trans {s s' s'' : Sess} (h₁ : SStepCv cr sem body fs₀ D s s')
    (h₂ : SStepCv cr sem body fs₀ D s' s'') : SStepCv cr sem body fs₀ D s s'' :=
  ⟨h₂.inv, fun x hx => h₂.mono x (h₁.mono x hx),
    fun x hx => (h₁.cext x hx).trans (h₂.cext x (h₁.mono x hx)), h₁.le.trans h₂.le,
    fun e he => h₂.tr e (h₁.tr e he)⟩

theorem SStepCv.consT {s s' : Sess} (h : SStepCv cr sem body fs₀ D s s') {t : Nat} (hc : ConsT s t) :
    ConsT s' t := hc.mono h.mono h.le

theorem SInvCvD.cur_not_consistent {s : Sess} (h : SInvCvD cr sem body fs₀ D s) {n : Nat}
    (hc : s.cur = some n) : n ∉ s.consistent := by
  intro hn
  obtain ⟨t, v, ws, _, hv, _⟩ := h.sound n hn
  rw [h.curFree n hc] at hv; cases hv

/-- The data of a consistent task. -/
theorem SInvCvD.consT_den {s : Sess} (h : SInvCvD cr sem body fs₀ D s) {t : Nat} (hc : ConsT s t) :
    ∃ n o ws, n ∈ s.consistent ∧ s.store.taskOf n = some t ∧ s.store.taskOutput n = some o ∧
      DenCv cr.toRoles sem body fs₀ t (o, ws) ∧
      ∀ r, cr.gen r = some t → aget s.fs r = (wget ws r).getD (aget fs₀ r) := by
  obtain ⟨n, hn, ht⟩ := hc
  obtain ⟨t', o, ws, ht', ho, hd, _, hf, _⟩ := h.sound n hn
  rw [ht] at ht'; cases ht'
  exact ⟨n, o, ws, hn, ht, ho, hd, hf⟩

/-- The content of a resource whose generator (if any) is consistent does not change any more. -/
theorem SStepCv.fs_stable {s s' : Sess} (h : SInvCvD cr sem body fs₀ D s)
    (st : SStepCv cr sem body fs₀ D s s') {r : Nat} (hg : ∀ w, cr.gen r = some w → ConsT s w) :
    aget s'.fs r = aget s.fs r := by
  cases hgen : cr.gen r with
  | none =>
    rw [st.inv.untouched r (fun w hw => by rw [hgen] at hw; cases hw),
      h.untouched r (fun w hw => by rw [hgen] at hw; cases hw)]
  | some w =>
    obtain ⟨n, o, ws, hn, ht, ho, hd, hf⟩ := h.consT_den (hg w hgen)
    obtain ⟨n', o', ws', hn', ht', ho', hd', hf'⟩ := st.inv.consT_den (st.consT (hg w hgen))
    have := DenCv.det hd hd'; cases this
    rw [hf r hgen, hf' r hgen]

/-- The generic step: `cur`, `consistent` are kept; every node keeps its record or was not
consistent and satisfies its faithfulness claim; the resources change only where the executing
task is the generator; no execution starts. -/
theorem SInvCvD.step {s s' : Sess} (h : SInvCvD cr sem body fs₀ D s) (hwf : SessWF s')
    (hro : CovInv cr s'.store) (hnd : (akeys s'.fs).Nodup) (hle : s.store.Le s'.store)
    (hcons : s'.consistent = s.consistent) (hcur : s'.cur = s.cur)
    (hmod : ∀ x, Same s s' x ∨ (x ∉ s.consistent ∧ FaithfulAtO sem body s'.store x))
    (hcf : ∀ n, s.cur = some n → s'.store.taskOutput n = none)
    (hfs : ∀ r, aget s'.fs r = aget s.fs r ∨
      ∃ n t, s.cur = some n ∧ s.store.taskOf n = some t ∧ cr.gen r = some t)
    (htr : ∀ e ∈ s.trace, e ∈ s'.trace)
    (hex : ∀ x, Ev.executeStart x ∈ s'.trace → Ev.executeStart x ∈ s.trace) :
    SStepCv cr sem body fs₀ D s s' := by
  have hsame : ∀ x ∈ s.consistent, Same s s' x := by
    intro x hx
    rcases hmod x with h1 | h1
    · exact h1
    · exact absurd hx h1.1
  have hmono : ∀ x ∈ s.consistent, x ∈ s'.consistent := fun x hx => hcons ▸ hx
  refine ⟨⟨hwf, hro, ?_, hnd, ?_, ?_, ?_, ?_, ?_⟩, hmono, hsame, hle, htr⟩
  · intro n t v ht hv
    rcases hmod n with h1 | h1
    · rw [h1.1] at hv
      obtain ⟨t0, ht0⟩ := Store.taskOf_of_output hv
      have := hle.task _ _ ht0
      rw [ht] at this; cases this
      rw [h1.deps]
      exact h.faithful n t v ht0 hv
    · exact h1.2 t v ht hv
  · intro n hn
    rw [hcons] at hn
    obtain ⟨t, o, ws, ht, ho, hd, hD, hf, hc⟩ := h.sound n hn
    refine ⟨t, o, ws, hle.task _ _ ht, by rw [(hsame n hn).1]; exact ho, hd, hD, ?_,
      fun u hu => (hc u hu).mono hmono hle⟩
    intro r hg
    rcases hfs r with heq | ⟨c, tc, hc', htc, hg'⟩
    · rw [heq]; exact hf r hg
    · rw [hg] at hg'; cases hg'
      have : c = n := h.wf.store.node_inj htc ht
      subst this
      exact absurd hn (h.cur_not_consistent hc')
  · intro n hn
    exact hcf n (hcur ▸ hn)
  · intro n t hn ht
    rw [hcur] at hn
    obtain ⟨t0, ht0⟩ := h.wf.cur n hn
    have := hle.task _ _ ht0
    rw [ht] at this; cases this
    exact htr _ (h.curExec n t hn ht0)
  · intro r hr
    have h0 := h.untouched r (fun w hw hm => hr w hw (htr _ hm))
    rcases hfs r with heq | ⟨c, tc, hc', htc, hg'⟩
    · rw [heq]; exact h0
    · exact absurd (htr _ (h.curExec c tc hc' htc)) (hr tc hg')
  · intro x hx
    obtain ⟨hD, hx'⟩ := h.executed x (hex x hx)
    refine ⟨hD, ?_⟩
    rcases hx' with hx' | ⟨c, tc, hc', htc, hrk⟩
    · exact .inl (hx'.mono hmono hle)
    · exact .inr ⟨c, tc, hcur ▸ hc', hle.task _ _ htc, hrk⟩

/-- A step that changes the store only. -/
theorem SInvCvD.storeStep {s s' : Sess} (h : SInvCvD cr sem body fs₀ D s) (hfs : s'.fs = s.fs)
    (hcur : s'.cur = s.cur) (hcons : s'.consistent = s.consistent) (hq : s'.queue = s.queue)
    (htr : ∀ e ∈ s.trace, e ∈ s'.trace)
    (hex : ∀ x, Ev.executeStart x ∈ s'.trace → Ev.executeStart x ∈ s.trace)
    (hw : s'.store.WF) (hro : CovInv cr s'.store)
    (hle : s.store.Le s'.store)
    (hmod : ∀ x, Same s s' x ∨ (x ∉ s.consistent ∧ FaithfulAtO sem body s'.store x))
    (hcf : ∀ n, s.cur = some n → s'.store.taskOutput n = none) :
    SStepCv cr sem body fs₀ D s s' :=
  h.step (h.wf.ext_of_store hcur hq hw hle).wf hro (hfs ▸ h.nodup) hle hcons hcur hmod hcf
    (fun r => .inl (by rw [hfs])) htr hex

/-- A step that only extends the trace by events that are not starts of executions. -/
theorem SInvCvD.same {s s' : Sess} (h : SInvCvD cr sem body fs₀ D s) (h1 : s'.store = s.store)
    (h2 : s'.fs = s.fs) (h3 : s'.cur = s.cur) (h4 : s'.consistent = s.consistent)
    (h5 : s'.queue = s.queue) (htr : ∀ e ∈ s.trace, e ∈ s'.trace)
    (hex : ∀ x, Ev.executeStart x ∈ s'.trace → Ev.executeStart x ∈ s.trace) :
    SStepCv cr sem body fs₀ D s s' := by
  refine h.step (h.wf.same h1 h3 h5).wf (h1 ▸ h.roles) (h2 ▸ h.nodup) (h1 ▸ Store.Le.refl _) h4 h3
    (fun x => .inl ⟨by rw [h1], by rw [h1]⟩) ?_ (fun r => .inl (by rw [h2])) htr hex
  intro n hn
  rw [h1]; exact h.curFree n hn

theorem SInvCvD.emit {s : Sess} (h : SInvCvD cr sem body fs₀ D s) (e : Ev)
    (he : ∀ x, e ≠ Ev.executeStart x) : SStepCv cr sem body fs₀ D s (s.emit e) :=
  h.same rfl rfl rfl rfl rfl (fun e' he' => List.mem_append_left _ he') (fun x hx => by
    rcases List.mem_append.mp hx with hx | hx
    · exact hx
    · simp only [List.mem_singleton] at hx; exact absurd hx.symm (he x))

theorem SStepCv.emit {s s' : Sess} (h : SStepCv cr sem body fs₀ D s s') (e : Ev)
    (he : ∀ x, e ≠ Ev.executeStart x) : SStepCv cr sem body fs₀ D s (s'.emit e) :=
  h.trans (h.inv.emit e he)

/-- Marking a task consistent: its output is the from-scratch output, its generated resources
hold the from-scratch content, and the tasks it requires from scratch are consistent. -/
theorem SInvCvD.mark {s : Sess} (h : SInvCvD cr sem body fs₀ D s) {m t : Nat} {v : Int} {ws : Writes}
    (ht : s.store.taskOf m = some t) (hv : s.store.taskOutput m = some v)
    (hd : DenCv cr.toRoles sem body fs₀ t (v, ws)) (hD : D t)
    (hf : ∀ r, cr.gen r = some t → aget s.fs r = (wget ws r).getD (aget fs₀ r))
    (hc : ∀ u, CallsCv cr.toRoles sem body fs₀ t u → ConsT s u) :
    SStepCv cr sem body fs₀ D s (s.markConsistent m) := by
  have hmono : ∀ x ∈ s.consistent, x ∈ (s.markConsistent m).consistent :=
    fun x hx => (mem_markConsistent s m x).mpr (.inl hx)
  have hle : s.store.Le (s.markConsistent m).store := by simp [Store.Le.refl]
  refine ⟨⟨h.wf.markConsistent m, by simpa using h.roles, by simpa using h.faithful,
    by simpa using h.nodup, ?_, ?_, ?_, ?_, ?_⟩, hmono, fun x _ => ⟨by simp, by simp⟩, hle,
    fun e he => by simpa using he⟩
  · intro n hn
    rcases (mem_markConsistent s m n).mp hn with hn | rfl
    · obtain ⟨t', o, ws', ht', ho, hd', hD', hf', hc'⟩ := h.sound n hn
      exact ⟨t', o, ws', by simpa using ht', by simpa using ho, hd', hD', by simpa using hf',
        fun u hu => (hc' u hu).mono hmono hle⟩
    · exact ⟨t, v, ws, by simpa using ht, by simpa using hv, hd, hD, by simpa using hf,
        fun u hu => (hc u hu).mono hmono hle⟩
  · intro n hn
    simp only [Sess.cur_markConsistent] at hn
    simpa using h.curFree n hn
  · intro n t' hn ht'
    simp only [Sess.cur_markConsistent] at hn
    simp only [Sess.store_markConsistent] at ht'
    simpa using h.curExec n t' hn ht'
  · intro r hr
    simp only [SessL.markConsistent_trace] at hr
    simpa using h.untouched r hr
  · intro x hx
    simp only [SessL.markConsistent_trace] at hx
    obtain ⟨hDx, hx'⟩ := h.executed x hx
    refine ⟨hDx, ?_⟩
    rcases hx' with hx' | ⟨c, tc, hc', htc, hrk⟩
    · exact .inl (hx'.mono hmono hle)
    · exact .inr ⟨c, tc, by simpa using hc', by simpa using htc, hrk⟩

/-- A task that is neither consistent nor below the executing task in rank has not started
executing in this session. -/
theorem SInvCvD.not_executed {s : Sess} (h : SInvCvD cr sem body fs₀ D s) {t : Nat}
    (hc : ¬ ConsT s t) (hpre : ReqPre cr.toRoles s t) : Ev.executeStart t ∉ s.trace := by
  intro hx
  rcases (h.executed t hx).2 with h1 | ⟨c, tc, hc', htc, hrk⟩
  · exact hc h1
  · obtain ⟨t0, ht0, hlt⟩ := hpre c hc'
    rw [htc] at ht0; cases ht0
    exact absurd hlt (Nat.not_lt.mpr hrk)

/-- **The cover argument.**  A consistent task has everything in its cover consistent: its
from-scratch execution returns, so it requires a task covering `w`, which is consistent and, if
it is not `w` itself, has `w` in its cover (ranks go up, so this ends). -/
theorem SInvCvD.consT_cov_aux (hwf : WellFormedCov cr body) {s : Sess}
    (h : SInvCvD cr sem body fs₀ D s) :
    ∀ (k : Nat) {m w : Nat}, cr.rank w - cr.rank m ≤ k → ConsT s m → w ∈ cr.cov m → ConsT s w := by
  intro k
  induction k with
  | zero =>
    intro m w hk _ hw
    have := hwf.rank m w hw
    omega
  | succ k ih =>
    intro m w hk hc hw
    obtain ⟨n, hn, ht⟩ := hc
    obtain ⟨t', o, ws, ht', _, hd, _, _, hcl⟩ := h.sound n hn
    rw [ht] at ht'; cases ht'
    obtain ⟨m', hcall, hcov⟩ := DenCv.covered hwf hd hw
    have hc' : ConsT s m' := hcl m' hcall
    rcases hcov with rfl | hcov
    · exact hc'
    · have h1 : cr.rank m < cr.rank m' := CallsPCv.rank_lt hcall (hwf.body m)
      have h2 : cr.rank m' < cr.rank w := hwf.rank m' w hcov
      exact ih (by omega) hc' hcov

theorem SInvCvD.consT_cov (hwf : WellFormedCov cr body) {s : Sess}
    (h : SInvCvD cr sem body fs₀ D s) {m w : Nat} (hc : ConsT s m) (hw : w ∈ cr.cov m) :
    ConsT s w := h.consT_cov_aux hwf _ (Nat.le_refl _) hc hw

/-- If the tasks required so far are consistent and cover `w`, then `w` is consistent. -/
theorem SInvCvD.consT_covers (hwf : WellFormedCov cr body) {s : Sess}
    (h : SInvCvD cr sem body fs₀ D s) {reqs : List Nat} (hr : ∀ u ∈ reqs, ConsT s u) {w : Nat}
    (hc : Covers cr reqs w) : ConsT s w := by
  obtain ⟨m, hm, rfl | hcov⟩ := hc
  · exact hr _ hm
  · exact h.consT_cov hwf (hr m hm) hcov

end PieModel.TransSound
