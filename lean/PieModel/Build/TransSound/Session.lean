/-
Soundness of the top-down build with writes under TRANSITIVE static roles (`WellFormedCov`;
adapted from `SoundW/Session.lean`: `CovInv` for `RolesInv`, `DenCv` for `Den`, the cover argument for
the direct edge reader → generator), lifted to `sessionRequire`, `requireAll`, and whole
sessions on a `Pie`: the outputs are the from-scratch outputs, and the final resource state is
the overlay of the start state by the writes of the demanded tasks.
-/
import PieModel.Build.TransSound.Make
import PieModel.Build.SoundW.Session
import PieModel.Build.Proofs.TopDownExt

namespace PieModel.TransSound
open PieModel.TransRoles

variable {cr : CRoles} {sem : Sem} {body : Nat → Prog} {fs₀ : List (Nat × Int)} {D : Nat → Prop}

/-- What persists on a `Pie` between sessions. -/
structure PieInvCv (cr : CRoles) (sem : Sem) (body : Nat → Prog) (p : PieSt) : Prop where
  wf : p.store.WF
  roles : CovInv cr p.store
  faithful : FaithfulO sem body p.store
  nodup : (akeys p.fs).Nodup

theorem PieInvCv.empty : PieInvCv cr sem body ({} : PieSt) :=
  ⟨Store.WF.empty, CovInv.empty cr, FaithfulO.empty, by simp [akeys]⟩

theorem PieInvCv.fresh {fs : List (Nat × Int)} (h : (akeys fs).Nodup) :
    PieInvCv cr sem body ({ fs := fs } : PieSt) :=
  ⟨Store.WF.empty, CovInv.empty cr, FaithfulO.empty, h⟩

/-- A new session on a `Pie` satisfying the invariants satisfies the session invariant, relative
to the resource state of the `Pie`. -/
theorem SInvCvD.newSession {p : PieSt} (h : PieInvCv cr sem body p) :
    SInvCvD cr sem body p.fs D p.newSession :=
  ⟨⟨h.wf, fun _ hn => (nomatch hn), fun _ hn => (nomatch hn)⟩, h.roles, h.faithful, h.nodup,
    fun _ hn => (nomatch hn), fun _ hn => (nomatch hn), fun _ _ hn => (nomatch hn), fun _ _ => rfl,
    fun _ hx => (nomatch hx)⟩

/-- What a returning `sessionRequire` guarantees. -/
def QSessionCv (s : Sess) (t : Nat) (s' : Sess) (o : Int) : Prop :=
  s'.cur = none ∧ nodeOf s t ∈ s'.consistent ∧ s'.store.taskOutput (nodeOf s t) = some o ∧
    s'.store.taskOf (nodeOf s t) = some t

section
variable (hst : StampTotal sem) (hwf : WellFormedCov cr body)
  (hresp : ∀ t, Respects sem (body t)) (hone : ∀ t, OneChecker (body t))
  (hwe : ∀ t, WriteExact sem (body t)) (hD : CallClosedCv cr.toRoles sem body fs₀ D)
include hst hwf hresp hone hwe hD

theorem sessionRequire_outcomeCv (f : Nat) (s : Sess) (t : Nat) (h : SInvCvD cr sem body fs₀ D s)
    (hc : s.cur = none) (hDt : D t) :
    OutcomeCv cr sem body fs₀ D s (sessionRequire sem body f s t) (QSessionCv s t) := by
  unfold sessionRequire; simp only []
  have st0 : SStepCv cr sem body fs₀ D s (({ s with cur := none } : Sess).emit .buildStart) :=
    h.same rfl rfl hc.symm rfl rfl (fun e he => List.mem_append_left _ he)
      (fun x hx => mem_emit_exec (s := { s with cur := none }) (e := .buildStart)
        (fun y hy => nomatch hy) hx)
  have IH := (tdSoundCv (fs₀ := fs₀) (D := D) hst hwf hresp hone hwe hD f).require _ t alwaysChecker
    st0.inv (fun cur hcur => nomatch hcur) hDt
  split
  next s2 a heq => exact .abort (IH.faithful_of heq)
  next s2 o heq =>
    obtain ⟨st2, hcn, ho, ht, _, _⟩ := IH.ok s2 o heq
    have hc2 : s2.cur = none := cur_tdRequire sem body heq
    exact .ret ((st0.trans st2).emit .buildEnd (fun y hy => nomatch hy)) ⟨hc2, hcn, ho, ht⟩

/-- The outputs are from-scratch outputs, and all roots are consistent at the end. -/
def QAllCv (cr : CRoles) (sem : Sem) (body : Nat → Prog) (fs₀ : List (Nat × Int)) (ts : List Nat)
    (s' : Sess) (os : List Int) : Prop :=
  s'.cur = none ∧ List.Forall₂ (fun t o => ∃ ws, DenCv cr.toRoles sem body fs₀ t (o, ws)) ts os ∧
    ∀ t ∈ ts, ConsT s' t

theorem requireAll_outcomeCv (f : Nat) (ts : List Nat) : ∀ (s : Sess),
    SInvCvD cr sem body fs₀ D s → s.cur = none → (∀ t ∈ ts, D t) →
    OutcomeCv cr sem body fs₀ D s (requireAll sem body f s ts) (QAllCv cr sem body fs₀ ts) := by
  induction ts with
  | nil =>
    intro s h hc _; unfold requireAll
    exact .ret (SStepCv.refl h) ⟨hc, .nil, fun _ ht => (nomatch ht)⟩
  | cons t ts ih =>
    intro s h hc hDs
    unfold requireAll
    have IH := sessionRequire_outcomeCv hst hwf hresp hone hwe hD f s t h hc
      (hDs t List.mem_cons_self)
    split
    next s2 a heq => exact .abort (IH.faithful_of heq)
    next s2 o heq =>
      obtain ⟨st2, hc2, hcn, ho, ht⟩ := IH.ok s2 o heq
      have IH2 := ih s2 st2.inv hc2 (fun t' ht' => hDs t' (List.mem_cons_of_mem _ ht'))
      split
      next s3 a heq3 => exact .abort (IH2.faithful_of heq3)
      next s3 os heq3 =>
        obtain ⟨st3, hc3, hall, hcons⟩ := IH2.ok s3 os heq3
        obtain ⟨t', o', ws, ht', ho', hden, _⟩ := st2.inv.sound _ hcn
        rw [ht] at ht'; cases ht'
        rw [ho] at ho'; cases ho'
        refine .ret (st2.trans st3) ⟨hc3, .cons ⟨ws, hden⟩ hall, fun x hx => ?_⟩
        rcases List.mem_cons.mp hx with rfl | hx
        · exact st3.consT ⟨_, hcn, ht⟩
        · exact hcons x hx

end

/-- At the end of a session (no task executing) in which every task of `D` is consistent, the
resources are `fs₀` overlaid by the from-scratch writes of the tasks of `D`. -/
theorem SInvCvD.fs_overlay (hwf : WellFormedCov cr body) {s : Sess}
    (h : SInvCvD cr sem body fs₀ D s) (hc : s.cur = none) (hall : ∀ t, D t → ConsT s t) (r : Nat) :
    aget s.fs r = overlayCv cr.toRoles sem body fs₀ D r := by
  symm
  apply overlayCv_eq hwf
  cases hg : cr.gen r with
  | none =>
    refine .inr ⟨fun t o ws _ hden => ?_, h.untouched r (fun w hw => by rw [hg] at hw; cases hw)⟩
    cases hw : wget ws r with
    | none => rfl
    | some x =>
      have := EvalCv.writes_gen hden (hwf.body t) r x (wget_mem hw)
      rw [hg] at this; cases this
  | some w =>
    have honly : ∀ t o ws x, DenCv cr.toRoles sem body fs₀ t (o, ws) → wget ws r = some x → t = w := by
      intro t o ws x hden hw
      have := EvalCv.writes_gen hden (hwf.body t) r x (wget_mem hw)
      rw [hg] at this; cases this; rfl
    by_cases hcw : ConsT s w
    · obtain ⟨n, o, ws, hn, ht, ho, hd, hf⟩ := h.consT_den hcw
      obtain ⟨t', _, _, ht', _, _, hDw, _⟩ := h.sound n hn
      rw [ht] at ht'; cases ht'
      cases hww : wget ws r with
      | some x =>
        refine .inl ⟨w, o, ws, hDw, hd, ?_⟩
        rw [hf r hg, hww]; rfl
      | none =>
        refine .inr ⟨fun t' o' ws' _ hden' => ?_, by rw [hf r hg, hww]; rfl⟩
        cases hw' : wget ws' r with
        | none => rfl
        | some x =>
          have := honly t' o' ws' x hden' hw'; subst this
          have := DenCv.det hd hden'; cases this
          rw [hww] at hw'; cases hw'
    · refine .inr ⟨fun t' o' ws' hD' hden' => ?_, h.untouched r (fun w' hw' hx => ?_)⟩
      · cases hw' : wget ws' r with
        | none => rfl
        | some x =>
          have := honly t' o' ws' x hden' hw'; subst this
          exact absurd (hall _ hD') hcw
      · rw [hg] at hw'; cases hw'
        rcases (h.executed _ hx).2 with h1 | ⟨c, _, h1, _⟩
        · exact hcw h1
        · rw [hc] at h1; cases h1

/-- Between two `require`s of a session (no task executing) the invariant holds with `D` the
set of tasks made consistent so far. -/
theorem SInvCvD.to_consT {s : Sess} (h : SInvCvD cr sem body fs₀ D s) (hc : s.cur = none) :
    SInvCvD cr sem body fs₀ (ConsT s) s := by
  refine ⟨h.wf, h.roles, h.faithful, h.nodup, ?_, h.curFree, h.curExec, h.untouched, ?_⟩
  · intro n hn
    obtain ⟨t, o, ws, ht, ho, hd, _, hf, hcl⟩ := h.sound n hn
    exact ⟨t, o, ws, ht, ho, hd, ⟨n, hn, ht⟩, hf, hcl⟩
  · intro x hx
    rcases (h.executed x hx).2 with h1 | ⟨c, _, h1, _⟩
    · exact ⟨h1, .inl h1⟩
    · rw [hc] at h1; cases h1

/-- ... hence the resources are `fs₀` overlaid by the from-scratch writes of the consistent
tasks: every write of a consistent task is present, everything else has its start content. -/
theorem SInvCvD.fs_overlay_consistent (hwf : WellFormedCov cr body) {s : Sess}
    (h : SInvCvD cr sem body fs₀ D s) (hc : s.cur = none) (r : Nat) :
    aget s.fs r = overlayCv cr.toRoles sem body fs₀ (ConsT s) r :=
  (h.to_consT hc).fs_overlay hwf hc (fun _ ht => ht) r

/-- Every demanded task is consistent once the roots are. -/
theorem SInvCvD.demanded_cons {roots : List Nat} {s : Sess}
    (h : SInvCvD cr sem body fs₀ D s) (hr : ∀ t ∈ roots, ConsT s t) {t : Nat}
    (hd : DemandedCv cr.toRoles sem body fs₀ roots t) : ConsT s t := by
  induction hd with
  | root hm => exact hr _ hm
  | step _ hc ih =>
    obtain ⟨n, hn, ht⟩ := ih
    obtain ⟨t', _, _, ht', _, _, _, _, hcl⟩ := h.sound n hn
    rw [ht] at ht'; cases ht'
    exact hcl _ hc

end PieModel.TransSound
