/-
Soundness of the top-down build for programs with writes under TRANSITIVE static roles
(`WellFormedCov`): the reference semantics.

The from-scratch semantics `EvalW`/`Den` of `SoundW/Defs.lean` looks a generated resource up in
the environment of the tasks required DIRECTLY so far on the path; a reader that reaches the
generator only through a relay would see the start content there, which is not what a from-scratch
build produces.  The generalisation `EvalCv`/`DenCv` has no environment: a `read` of a generated
resource `r` evaluates the generator's own from-scratch execution and sees what it leaves in `r`
(the start content if it does not write `r`).  The role of `gen` is unchanged; only `ro.gen` is
used, so the semantics is defined for `Roles` (use `cr.toRoles`).  For direct roles
(`WellFormedBody`) `EvalCv` coincides with `EvalW` (`TransSound/Direct.lean`).

Stamper failures are folded into the answers `readAns`/`writeAns`.
-/
import PieModel.Build.SoundW.Defs
import PieModel.Build.TransRoles.Defs

namespace PieModel.TransSound
open PieModel.TransRoles

/-- What `Context::read` returns for content `x` seen through checker `c`. -/
def readAns (sem : Sem) (c : Nat) (x : Option Int) : Except Int (Option Int) :=
  match sem.rstamp c x with
  | .ok _ => .ok x
  | .error e => .error e

/-- What `Context::write` / `written_to` returns after writing `v` with checker `c`. -/
def writeAns (sem : Sem) (c : Nat) (v : Option Int) : Except Int Unit :=
  match sem.rstamp c v with
  | .ok _ => .ok ()
  | .error e => .error e

theorem readAns_ok {sem : Sem} {c : Nat} {x : Option Int} {s : Stamp}
    (h : sem.rstamp c x = .ok s) : readAns sem c x = .ok x := by
  unfold readAns; rw [h]

theorem writeAns_ok {sem : Sem} {c : Nat} {v : Option Int} {s : Stamp}
    (h : sem.rstamp c v = .ok s) : writeAns sem c v = .ok () := by
  unfold writeAns; rw [h]

/-- Big-step from-scratch evaluation against the start state `fs₀`: output and list of OWN
writes.  A `req` evaluates the body of the required task; a `read` of a source sees the start
content; a `read` of a generated resource sees what the from-scratch execution of its generator
leaves in it. -/
inductive EvalCv (ro : Roles) (sem : Sem) (body : Nat → Prog) (fs₀ : List (Nat × Int)) :
    Prog → Int × Writes → Prop
  | ret {v : Int} : EvalCv ro sem body fs₀ (.ret v) (v, [])
  | req {u c : Nat} {k : Int → Prog} {o : Int} {wu : Writes} {res : Int × Writes} :
      EvalCv ro sem body fs₀ (body u) (o, wu) → EvalCv ro sem body fs₀ (k o) res →
      EvalCv ro sem body fs₀ (.req u c k) res
  | readSrc {r c : Nat} {k : Except Int (Option Int) → Prog} {res : Int × Writes} :
      ro.gen r = none → EvalCv ro sem body fs₀ (k (readAns sem c (aget fs₀ r))) res →
      EvalCv ro sem body fs₀ (.read r c k) res
  | readGen {r c : Nat} {k : Except Int (Option Int) → Prog} {w : Nat} {o : Int} {ws : Writes}
      {res : Int × Writes} :
      ro.gen r = some w → EvalCv ro sem body fs₀ (body w) (o, ws) →
      EvalCv ro sem body fs₀ (k (readAns sem c ((wget ws r).getD (aget fs₀ r)))) res →
      EvalCv ro sem body fs₀ (.read r c k) res
  | write {r c : Nat} {v : Option Int} {k : Except Int Unit → Prog} {o : Int} {ws : Writes} :
      EvalCv ro sem body fs₀ (k (writeAns sem c v)) (o, ws) →
      EvalCv ro sem body fs₀ (.write r c v k) (o, (r, v) :: ws)
  | wrote {r c : Nat} {v : Option Int} {k : Except Int Unit → Prog} {o : Int} {ws : Writes} :
      EvalCv ro sem body fs₀ (k (writeAns sem c v)) (o, ws) →
      EvalCv ro sem body fs₀ (.wrote r c v k) (o, (r, v) :: ws)

/-- Executing task `t` from scratch against `fs₀` produces output `res.1` and writes `res.2`. -/
def DenCv (ro : Roles) (sem : Sem) (body : Nat → Prog) (fs₀ : List (Nat × Int)) (t : Nat)
    (res : Int × Writes) : Prop :=
  EvalCv ro sem body fs₀ (body t) res

variable {ro : Roles} {cr : CRoles} {sem : Sem} {body : Nat → Prog} {fs₀ : List (Nat × Int)}

theorem EvalCv.det {p : Prog} {a b : Int × Writes} (h1 : EvalCv ro sem body fs₀ p a)
    (h2 : EvalCv ro sem body fs₀ p b) : a = b := by
  induction h1 generalizing b with
  | ret => cases h2; rfl
  | req _ _ ih1 ih2 =>
    cases h2 with
    | req x y => have := ih1 x; cases this; exact ih2 y
  | readSrc hg _ ih =>
    cases h2 with
    | readSrc _ x => exact ih x
    | readGen hg' _ _ => rw [hg] at hg'; cases hg'
  | readGen hg _ _ ih1 ih2 =>
    cases h2 with
    | readSrc hg' _ => rw [hg] at hg'; cases hg'
    | readGen hg' x y =>
      rw [hg] at hg'; cases hg'
      have := ih1 x; cases this
      exact ih2 y
  | write _ ih =>
    cases h2 with
    | write x => have := ih x; cases this; rfl
  | wrote _ ih =>
    cases h2 with
    | wrote x => have := ih x; cases this; rfl

theorem DenCv.det {t : Nat} {a b : Int × Writes} (h1 : DenCv ro sem body fs₀ t a)
    (h2 : DenCv ro sem body fs₀ t b) : a = b := EvalCv.det h1 h2

/-- A task writes only resources it generates. -/
theorem EvalCv.writes_gen {t : Nat} {p : Prog} {res : Int × Writes}
    (h : EvalCv cr.toRoles sem body fs₀ p res) : ∀ {a : Acc}, StaticCovFrom cr t a p →
    ∀ r x, (r, x) ∈ res.2 → cr.gen r = some t := by
  induction h with
  | ret => intro a _ r x hm; cases hm
  | req _ _ _ ih2 => intro a hs r x hm; exact ih2 (hs.2 _) r x hm
  | readSrc _ _ ih => intro a hs r x hm; exact ih (hs.2.2 _) r x hm
  | readGen _ _ _ _ ih => intro a hs r x hm; exact ih (hs.2.2 _) r x hm
  | write _ ih =>
    intro a hs r x hm
    rcases List.mem_cons.mp hm with h | h
    · cases h; exact hs.1
    · exact ih (hs.2.2 _) r x h
  | wrote _ ih =>
    intro a hs r x hm
    rcases List.mem_cons.mp hm with h | h
    · cases h; exact hs.1
    · exact ih (hs.2.2 _) r x h

/-! ### the call relation and the demanded set -/

/-- The from-scratch evaluation of `p` requires task `t` directly: it reaches a `req t` node. -/
inductive CallsPCv (ro : Roles) (sem : Sem) (body : Nat → Prog) (fs₀ : List (Nat × Int)) :
    Prog → Nat → Prop
  | here {u c : Nat} {k : Int → Prog} : CallsPCv ro sem body fs₀ (.req u c k) u
  | req {u c : Nat} {k : Int → Prog} {o : Int} {wu : Writes} {t : Nat} :
      EvalCv ro sem body fs₀ (body u) (o, wu) → CallsPCv ro sem body fs₀ (k o) t →
      CallsPCv ro sem body fs₀ (.req u c k) t
  | readSrc {r c : Nat} {k : Except Int (Option Int) → Prog} {t : Nat} :
      ro.gen r = none → CallsPCv ro sem body fs₀ (k (readAns sem c (aget fs₀ r))) t →
      CallsPCv ro sem body fs₀ (.read r c k) t
  | readGen {r c : Nat} {k : Except Int (Option Int) → Prog} {w : Nat} {o : Int} {ws : Writes}
      {t : Nat} :
      ro.gen r = some w → EvalCv ro sem body fs₀ (body w) (o, ws) →
      CallsPCv ro sem body fs₀ (k (readAns sem c ((wget ws r).getD (aget fs₀ r)))) t →
      CallsPCv ro sem body fs₀ (.read r c k) t
  | write {r c : Nat} {v : Option Int} {k : Except Int Unit → Prog} {t : Nat} :
      CallsPCv ro sem body fs₀ (k (writeAns sem c v)) t →
      CallsPCv ro sem body fs₀ (.write r c v k) t
  | wrote {r c : Nat} {v : Option Int} {k : Except Int Unit → Prog} {t : Nat} :
      CallsPCv ro sem body fs₀ (k (writeAns sem c v)) t →
      CallsPCv ro sem body fs₀ (.wrote r c v k) t

/-- The from-scratch execution of `t` requires `u` directly. -/
def CallsCv (ro : Roles) (sem : Sem) (body : Nat → Prog) (fs₀ : List (Nat × Int)) (t u : Nat) :
    Prop := CallsPCv ro sem body fs₀ (body t) u

/-- The tasks the from-scratch build of `roots` evaluates. -/
inductive DemandedCv (ro : Roles) (sem : Sem) (body : Nat → Prog) (fs₀ : List (Nat × Int))
    (roots : List Nat) : Nat → Prop
  | root {t : Nat} : t ∈ roots → DemandedCv ro sem body fs₀ roots t
  | step {t u : Nat} : DemandedCv ro sem body fs₀ roots t → CallsCv ro sem body fs₀ t u →
      DemandedCv ro sem body fs₀ roots u

/-- A set of tasks closed under the call relation of the from-scratch semantics. -/
def CallClosedCv (ro : Roles) (sem : Sem) (body : Nat → Prog) (fs₀ : List (Nat × Int))
    (D : Nat → Prop) : Prop := ∀ t u, D t → CallsCv ro sem body fs₀ t u → D u

theorem DemandedCv.closed (roots : List Nat) :
    CallClosedCv ro sem body fs₀ (DemandedCv ro sem body fs₀ roots) := fun _ _ h hc => .step h hc

/-- A required task has greater rank. -/
theorem CallsPCv.rank_lt {t : Nat} {p : Prog} {u : Nat}
    (h : CallsPCv cr.toRoles sem body fs₀ p u) : ∀ {a : Acc}, StaticCovFrom cr t a p →
    cr.rank t < cr.rank u := by
  induction h with
  | here => intro a hs; exact hs.1
  | req _ _ ih => intro a hs; exact ih (hs.2 _)
  | readSrc _ _ ih => intro a hs; exact ih (hs.2.2 _)
  | readGen _ _ _ ih => intro a hs; exact ih (hs.2.2 _)
  | write _ ih => intro a hs; exact ih (hs.2.2 _)
  | wrote _ ih => intro a hs; exact ih (hs.2.2 _)

/-- **The cover of a returning path**: a from-scratch evaluation that returns has required, for
every `u` in the cover of its task, a task that covers `u` (earlier on the path, `a.req`, or in
the rest `p`). -/
theorem EvalCv.covered {p : Prog} {res : Int × Writes}
    (h : EvalCv cr.toRoles sem body fs₀ p res) : ∀ {t : Nat} {a : Acc}, StaticCovFrom cr t a p →
    ∀ u ∈ cr.cov t, ∃ m, (m ∈ a.req ∨ CallsPCv cr.toRoles sem body fs₀ p m) ∧ cr.covBy m u := by
  induction h with
  | ret =>
    intro t a hs u hu
    obtain ⟨m, hm, hc⟩ := hs u hu
    exact ⟨m, .inl hm, hc⟩
  | @req u' c k o wu res hd _ _ ih2 =>
    intro t a hs u hu
    obtain ⟨m, hm, hc⟩ := ih2 (hs.2 o) u hu
    refine ⟨m, ?_, hc⟩
    rcases hm with hm | hm
    · rcases List.mem_cons.mp hm with rfl | hm
      · exact .inr .here
      · exact .inl hm
    · exact .inr (.req hd hm)
  | readSrc hg _ ih =>
    intro t a hs u hu
    obtain ⟨m, hm, hc⟩ := ih (hs.2.2 _) u hu
    exact ⟨m, hm.imp id (fun h => .readSrc hg h), hc⟩
  | readGen hg hd _ _ ih =>
    intro t a hs u hu
    obtain ⟨m, hm, hc⟩ := ih (hs.2.2 _) u hu
    exact ⟨m, hm.imp id (fun h => .readGen hg hd h), hc⟩
  | write _ ih =>
    intro t a hs u hu
    obtain ⟨m, hm, hc⟩ := ih (hs.2.2 _) u hu
    exact ⟨m, hm.imp id (fun h => .write h), hc⟩
  | wrote _ ih =>
    intro t a hs u hu
    obtain ⟨m, hm, hc⟩ := ih (hs.2.2 _) u hu
    exact ⟨m, hm.imp id (fun h => .wrote h), hc⟩

/-- A task whose from-scratch execution returns requires, for each `u` in its cover, a task that
covers `u`. -/
theorem DenCv.covered (hwf : WellFormedCov cr body) {t : Nat} {res : Int × Writes}
    (h : DenCv cr.toRoles sem body fs₀ t res) {u : Nat} (hu : u ∈ cr.cov t) :
    ∃ m, CallsCv cr.toRoles sem body fs₀ t m ∧ cr.covBy m u := by
  obtain ⟨m, hm, hc⟩ := EvalCv.covered h (hwf.body t) u hu
  rcases hm with hm | hm
  · cases hm
  · exact ⟨m, hm, hc⟩

/-! ### the ideal final resource state -/

/-- `x` is the content of `r` after the from-scratch execution of the tasks in `D` on `fs₀`. -/
def OverlayAtCv (ro : Roles) (sem : Sem) (body : Nat → Prog) (fs₀ : List (Nat × Int))
    (D : Nat → Prop) (r : Nat) (x : Option Int) : Prop :=
  (∃ t o ws, D t ∧ DenCv ro sem body fs₀ t (o, ws) ∧ wget ws r = some x) ∨
  ((∀ t o ws, D t → DenCv ro sem body fs₀ t (o, ws) → wget ws r = none) ∧ x = aget fs₀ r)

theorem overlayAtCv_exists (D : Nat → Prop) (r : Nat) :
    ∃ x, OverlayAtCv ro sem body fs₀ D r x := by
  by_cases h : ∃ t o ws x, D t ∧ DenCv ro sem body fs₀ t (o, ws) ∧ wget ws r = some x
  · obtain ⟨t, o, ws, x, h1, h2, h3⟩ := h
    exact ⟨x, .inl ⟨t, o, ws, h1, h2, h3⟩⟩
  · refine ⟨aget fs₀ r, .inr ⟨?_, rfl⟩⟩
    intro t o ws h1 h2
    cases hw : wget ws r with
    | none => rfl
    | some x => exact absurd ⟨t, o, ws, x, h1, h2, hw⟩ h

/-- The ideal final resource state: `fs₀` updated by the writes of every task in `D`. -/
noncomputable def overlayCv (ro : Roles) (sem : Sem) (body : Nat → Prog) (fs₀ : List (Nat × Int))
    (D : Nat → Prop) (r : Nat) : Option Int :=
  Classical.choose (overlayAtCv_exists (ro := ro) (sem := sem) (body := body) (fs₀ := fs₀) D r)

theorem overlayCv_spec (D : Nat → Prop) (r : Nat) :
    OverlayAtCv ro sem body fs₀ D r (overlayCv ro sem body fs₀ D r) :=
  Classical.choose_spec (overlayAtCv_exists D r)

/-- Under static roles the overlay is well defined: only the generator writes a resource. -/
theorem OverlayAtCv.unique (hwf : WellFormedCov cr body) {D : Nat → Prop} {r : Nat}
    {x y : Option Int} (h1 : OverlayAtCv cr.toRoles sem body fs₀ D r x)
    (h2 : OverlayAtCv cr.toRoles sem body fs₀ D r y) : x = y := by
  rcases h1 with ⟨t, o, ws, hd, he, hw⟩ | ⟨hn, rfl⟩
  · rcases h2 with ⟨t', o', ws', hd', he', hw'⟩ | ⟨hn', rfl⟩
    · have g1 := EvalCv.writes_gen he (hwf.body t) r x (wget_mem hw)
      have g2 := EvalCv.writes_gen he' (hwf.body t') r y (wget_mem hw')
      rw [g1] at g2; cases g2
      have := DenCv.det he he'; cases this
      rw [hw] at hw'; exact Option.some.inj hw'
    · rw [hn' t o ws hd he] at hw; cases hw
  · rcases h2 with ⟨t', o', ws', hd', he', hw'⟩ | ⟨_, rfl⟩
    · rw [hn t' o' ws' hd' he'] at hw'; cases hw'
    · rfl

theorem overlayCv_eq (hwf : WellFormedCov cr body) {D : Nat → Prop} {r : Nat} {x : Option Int}
    (h : OverlayAtCv cr.toRoles sem body fs₀ D r x) : overlayCv cr.toRoles sem body fs₀ D r = x :=
  (overlayCv_spec D r).unique hwf h

end PieModel.TransSound
