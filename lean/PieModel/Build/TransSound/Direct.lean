/-
The generalised reference semantics (`EvalCv`/`DenCv`, `CallsCv`, `DemandedCv`, `overlayCv` of
`TransSound/Defs.lean`) coincides with the one for direct roles (`EvalW`/`Den`, `Calls`,
`Demanded`, `overlay` of `SoundW/Defs.lean`) on programs with DIRECT static roles
(`WellFormedBody ro body`): there the generator of a resource that is read is in the environment
of the path, with its from-scratch write list.
-/
import PieModel.Build.TransSound.Defs

namespace PieModel.TransSound
open PieModel.TransRoles

variable {ro : Roles} {sem : Sem} {body : Nat → Prog} {fs₀ : List (Nat × Int)}

/-- The environment covers the tasks required so far, and each entry is a from-scratch write list
(w.r.t. the semantics `Ev`). -/
structure EnvDirCv (Ev : Nat → Int × Writes → Prop) (E : WEnv) (a : Acc) : Prop where
  dom : ∀ u ∈ a.req, ∃ wu, aget E u = some wu
  den : ∀ u wu, aget E u = some wu → ∃ o, Ev u (o, wu)

theorem EnvDirCv.nil (Ev : Nat → Int × Writes → Prop) : EnvDirCv Ev [] {} :=
  ⟨fun _ hu => (nomatch hu), fun _ _ h => (nomatch h)⟩

theorem EnvDirCv.cons {Ev : Nat → Int × Writes → Prop} {E : WEnv} {a : Acc}
    (h : EnvDirCv Ev E a) {u : Nat} {o : Int} {wu : Writes} (hd : Ev u (o, wu)) :
    EnvDirCv Ev ((u, wu) :: E) { a with req := u :: a.req } := by
  refine ⟨?_, ?_⟩
  · intro x hx
    by_cases hux : u = x
    · exact ⟨wu, by simp [hux]⟩
    · rcases List.mem_cons.mp hx with hx | hx
      · exact absurd hx.symm hux
      · obtain ⟨w, hw⟩ := h.dom x hx
        exact ⟨w, by simp [hux, hw]⟩
  · intro x wx hx
    by_cases hux : u = x
    · subst hux
      simp only [aget_cons, if_true, Option.some.injEq] at hx
      subst hx
      exact ⟨o, hd⟩
    · simp only [aget_cons, if_neg hux] at hx
      exact h.den x wx hx

theorem EnvDirCv.wr {Ev : Nat → Int × Writes → Prop} {E : WEnv} {a : Acc}
    (h : EnvDirCv Ev E a) (r : Nat) : EnvDirCv Ev E { a with wr := r :: a.wr } := ⟨h.dom, h.den⟩

/-- What `view` is, when the generator (if any) was required earlier on the path. -/
theorem view_casesCv {Ev : Nat → Int × Writes → Prop} {E : WEnv} {a : Acc} (he : EnvDirCv Ev E a)
    {r : Nat} (hreq : ∀ w, ro.gen r = some w → w ∈ a.req) :
    (ro.gen r = none ∧ view ro fs₀ E r = aget fs₀ r) ∨
    (∃ w o ws, ro.gen r = some w ∧ Ev w (o, ws) ∧
      view ro fs₀ E r = (wget ws r).getD (aget fs₀ r)) := by
  cases hg : ro.gen r with
  | none => exact .inl ⟨rfl, by simp only [view, hg]⟩
  | some w =>
    obtain ⟨wu, hwu⟩ := he.dom w (hreq w hg)
    obtain ⟨o, hd⟩ := he.den w wu hwu
    exact .inr ⟨w, o, wu, rfl, hd, by simp only [view, hg, hwu]⟩

theorem readAns_error {c : Nat} {x : Option Int} {e : Int} (h : sem.rstamp c x = .error e) :
    readAns sem c x = .error e := by
  unfold readAns; rw [h]

theorem writeAns_error {c : Nat} {v : Option Int} {e : Int} (h : sem.rstamp c v = .error e) :
    writeAns sem c v = .error e := by
  unfold writeAns; rw [h]

section
variable (hwf : WellFormedBody ro body)
include hwf

/-! ### `EvalW → EvalCv` -/

theorem evalW_evalCv {E : WEnv} {p : Prog} {res : Int × Writes}
    (h : EvalW ro sem body fs₀ E p res) : ∀ {t : Nat} {a : Acc}, StaticRolesFrom ro t a p →
    EnvDirCv (DenCv ro sem body fs₀) E a → EvalCv ro sem body fs₀ p res := by
  have rd : ∀ {E : WEnv} {a : Acc} {r c : Nat} {k : Except Int (Option Int) → Prog}
      {res : Int × Writes}, EnvDirCv (DenCv ro sem body fs₀) E a →
      (∀ w, ro.gen r = some w → w ∈ a.req) →
      EvalCv ro sem body fs₀ (k (readAns sem c (view ro fs₀ E r))) res →
      EvalCv ro sem body fs₀ (.read r c k) res := by
    intro E a r c k res he hreq hk
    rcases view_casesCv (fs₀ := fs₀) he hreq with ⟨hg, hv⟩ | ⟨w, o, ws, hg, hd, hv⟩
    · exact .readSrc hg (by rw [← hv]; exact hk)
    · exact .readGen hg hd (by rw [← hv]; exact hk)
  induction h with
  | ret => intro t a _ _; exact .ret
  | @req E u c k o wu res _ _ ih1 ih2 =>
    intro t a hs he
    have h1 := ih1 (hwf u) (EnvDirCv.nil _)
    exact .req h1 (ih2 (hs.2 o) (he.cons h1))
  | read hs' _ ih =>
    intro t a hs he
    exact rd he hs.2.1 (by rw [readAns_ok hs']; exact ih (hs.2.2 _) he)
  | readErr hs' _ ih =>
    intro t a hs he
    exact rd he hs.2.1 (by rw [readAns_error hs']; exact ih (hs.2.2 _) he)
  | write hs' _ ih =>
    intro t a hs he
    exact .write (by rw [writeAns_ok hs']; exact ih (hs.2.2 _) (he.wr _))
  | writeErr hs' _ ih =>
    intro t a hs he
    exact .write (by rw [writeAns_error hs']; exact ih (hs.2.2 _) (he.wr _))
  | wrote hs' _ ih =>
    intro t a hs he
    exact .wrote (by rw [writeAns_ok hs']; exact ih (hs.2.2 _) (he.wr _))
  | wroteErr hs' _ ih =>
    intro t a hs he
    exact .wrote (by rw [writeAns_error hs']; exact ih (hs.2.2 _) (he.wr _))

/-! ### `EvalCv → EvalW` -/

omit hwf in
/-- From an evaluation of the continuation with the answer of the read to `EvalW` of the read. -/
theorem evalW_read_of_ans {E : WEnv} {r c : Nat} {k : Except Int (Option Int) → Prog}
    {res : Int × Writes}
    (hk : EvalW ro sem body fs₀ E (k (readAns sem c (view ro fs₀ E r))) res) :
    EvalW ro sem body fs₀ E (.read r c k) res := by
  cases hs : sem.rstamp c (view ro fs₀ E r) with
  | ok s => rw [readAns_ok hs] at hk; exact .read hs hk
  | error e => rw [readAns_error hs] at hk; exact .readErr hs hk

omit hwf in
theorem evalW_write_of_ans {E : WEnv} {r c : Nat} {v : Option Int} {k : Except Int Unit → Prog}
    {o : Int} {ws : Writes} (hk : EvalW ro sem body fs₀ E (k (writeAns sem c v)) (o, ws)) :
    EvalW ro sem body fs₀ E (.write r c v k) (o, (r, v) :: ws) := by
  cases hs : sem.rstamp c v with
  | ok s => rw [writeAns_ok hs] at hk; exact .write hs hk
  | error e => rw [writeAns_error hs] at hk; exact .writeErr hs hk

omit hwf in
theorem evalW_wrote_of_ans {E : WEnv} {r c : Nat} {v : Option Int} {k : Except Int Unit → Prog}
    {o : Int} {ws : Writes} (hk : EvalW ro sem body fs₀ E (k (writeAns sem c v)) (o, ws)) :
    EvalW ro sem body fs₀ E (.wrote r c v k) (o, (r, v) :: ws) := by
  cases hs : sem.rstamp c v with
  | ok s => rw [writeAns_ok hs] at hk; exact .wrote hs hk
  | error e => rw [writeAns_error hs] at hk; exact .wroteErr hs hk

theorem evalCv_evalW {p : Prog} {res : Int × Writes} (h : EvalCv ro sem body fs₀ p res) :
    ∀ {t : Nat} {a : Acc} {E : WEnv}, StaticRolesFrom ro t a p →
    EnvDirCv (Den ro sem body fs₀) E a → EvalW ro sem body fs₀ E p res := by
  induction h with
  | ret => intro t a E _ _; exact .ret
  | @req u c k o wu res _ _ ih1 ih2 =>
    intro t a E hs he
    have h1 : EvalW ro sem body fs₀ [] (body u) (o, wu) := ih1 (hwf u) (EnvDirCv.nil _)
    exact .req h1 (ih2 (hs.2 o) (he.cons h1))
  | @readSrc r c k res hg _ ih =>
    intro t a E hs he
    have hv : view ro fs₀ E r = aget fs₀ r := by simp only [view, hg]
    exact evalW_read_of_ans (by rw [hv]; exact ih (hs.2.2 _) he)
  | @readGen r c k w o ws res hg _ _ ih1 ih2 =>
    intro t a E hs he
    have h1 : EvalW ro sem body fs₀ [] (body w) (o, ws) := ih1 (hwf w) (EnvDirCv.nil _)
    rcases view_casesCv (fs₀ := fs₀) he hs.2.1 with ⟨hg', _⟩ | ⟨w', o', ws', hg', hd', hv⟩
    · rw [hg] at hg'; cases hg'
    · rw [hg] at hg'; cases hg'
      have := Den.det h1 hd'; cases this
      exact evalW_read_of_ans (by rw [hv]; exact ih2 (hs.2.2 _) he)
  | write _ ih =>
    intro t a E hs he
    exact evalW_write_of_ans (ih (hs.2.2 _) (he.wr _))
  | wrote _ ih =>
    intro t a E hs he
    exact evalW_wrote_of_ans (ih (hs.2.2 _) (he.wr _))

/-- **The from-scratch semantics coincide** on programs with direct static roles. -/
theorem den_iff_denCv (t : Nat) (res : Int × Writes) :
    Den ro sem body fs₀ t res ↔ DenCv ro sem body fs₀ t res :=
  ⟨fun h => evalW_evalCv hwf h (hwf t) (EnvDirCv.nil _),
   fun h => evalCv_evalW hwf h (hwf t) (EnvDirCv.nil _)⟩

/-! ### the call relation -/

theorem callsP_callsPCv {E : WEnv} {p : Prog} {u : Nat} (h : CallsP ro sem body fs₀ E p u) :
    ∀ {t : Nat} {a : Acc}, StaticRolesFrom ro t a p → EnvDirCv (DenCv ro sem body fs₀) E a →
    CallsPCv ro sem body fs₀ p u := by
  have rd : ∀ {E : WEnv} {a : Acc} {r c : Nat} {k : Except Int (Option Int) → Prog} {u : Nat},
      EnvDirCv (DenCv ro sem body fs₀) E a → (∀ w, ro.gen r = some w → w ∈ a.req) →
      CallsPCv ro sem body fs₀ (k (readAns sem c (view ro fs₀ E r))) u →
      CallsPCv ro sem body fs₀ (.read r c k) u := by
    intro E a r c k u he hreq hk
    rcases view_casesCv (fs₀ := fs₀) he hreq with ⟨hg, hv⟩ | ⟨w, o, ws, hg, hd, hv⟩
    · exact .readSrc hg (by rw [← hv]; exact hk)
    · exact .readGen hg hd (by rw [← hv]; exact hk)
  induction h with
  | here => intro t a _ _; exact .here
  | @req E u c k o wu t' hd _ ih =>
    intro t a hs he
    have h1 : DenCv ro sem body fs₀ u (o, wu) := evalW_evalCv hwf hd (hwf u) (EnvDirCv.nil _)
    exact .req h1 (ih (hs.2 o) (he.cons h1))
  | read hs' _ ih =>
    intro t a hs he
    exact rd he hs.2.1 (by rw [readAns_ok hs']; exact ih (hs.2.2 _) he)
  | readErr hs' _ ih =>
    intro t a hs he
    exact rd he hs.2.1 (by rw [readAns_error hs']; exact ih (hs.2.2 _) he)
  | write hs' _ ih =>
    intro t a hs he
    exact .write (by rw [writeAns_ok hs']; exact ih (hs.2.2 _) (he.wr _))
  | writeErr hs' _ ih =>
    intro t a hs he
    exact .write (by rw [writeAns_error hs']; exact ih (hs.2.2 _) (he.wr _))
  | wrote hs' _ ih =>
    intro t a hs he
    exact .wrote (by rw [writeAns_ok hs']; exact ih (hs.2.2 _) (he.wr _))
  | wroteErr hs' _ ih =>
    intro t a hs he
    exact .wrote (by rw [writeAns_error hs']; exact ih (hs.2.2 _) (he.wr _))

omit hwf in
theorem callsP_read_of_ans {E : WEnv} {r c : Nat} {k : Except Int (Option Int) → Prog} {u : Nat}
    (hk : CallsP ro sem body fs₀ E (k (readAns sem c (view ro fs₀ E r))) u) :
    CallsP ro sem body fs₀ E (.read r c k) u := by
  cases hs : sem.rstamp c (view ro fs₀ E r) with
  | ok s => rw [readAns_ok hs] at hk; exact .read hs hk
  | error e => rw [readAns_error hs] at hk; exact .readErr hs hk

theorem callsPCv_callsP {p : Prog} {u : Nat} (h : CallsPCv ro sem body fs₀ p u) :
    ∀ {t : Nat} {a : Acc} {E : WEnv}, StaticRolesFrom ro t a p →
    EnvDirCv (Den ro sem body fs₀) E a → CallsP ro sem body fs₀ E p u := by
  induction h with
  | here => intro t a E _ _; exact .here
  | @req u c k o wu t' hd _ ih =>
    intro t a E hs he
    have h1 : EvalW ro sem body fs₀ [] (body u) (o, wu) :=
      evalCv_evalW hwf hd (hwf u) (EnvDirCv.nil _)
    exact .req h1 (ih (hs.2 o) (he.cons h1))
  | @readSrc r c k t' hg _ ih =>
    intro t a E hs he
    have hv : view ro fs₀ E r = aget fs₀ r := by simp only [view, hg]
    exact callsP_read_of_ans (by rw [hv]; exact ih (hs.2.2 _) he)
  | @readGen r c k w o ws t' hg hd _ ih =>
    intro t a E hs he
    have h1 : EvalW ro sem body fs₀ [] (body w) (o, ws) :=
      evalCv_evalW hwf hd (hwf w) (EnvDirCv.nil _)
    rcases view_casesCv (fs₀ := fs₀) he hs.2.1 with ⟨hg', _⟩ | ⟨w', o', ws', hg', hd', hv⟩
    · rw [hg] at hg'; cases hg'
    · rw [hg] at hg'; cases hg'
      have := Den.det h1 hd'; cases this
      exact callsP_read_of_ans (by rw [hv]; exact ih (hs.2.2 _) he)
  | @write r c v k t' _ ih =>
    intro t a E hs he
    have := ih (hs.2.2 _) (he.wr _)
    cases hst : sem.rstamp c v with
    | ok s => rw [writeAns_ok hst] at this; exact .write hst this
    | error e => rw [writeAns_error hst] at this; exact .writeErr hst this
  | @wrote r c v k t' _ ih =>
    intro t a E hs he
    have := ih (hs.2.2 _) (he.wr _)
    cases hst : sem.rstamp c v with
    | ok s => rw [writeAns_ok hst] at this; exact .wrote hst this
    | error e => rw [writeAns_error hst] at this; exact .wroteErr hst this

theorem calls_iff_callsCv (t u : Nat) :
    Calls ro sem body fs₀ t u ↔ CallsCv ro sem body fs₀ t u :=
  ⟨fun h => callsP_callsPCv hwf h (hwf t) (EnvDirCv.nil _),
   fun h => callsPCv_callsP hwf h (hwf t) (EnvDirCv.nil _)⟩

theorem demanded_iff_demandedCv (roots : List Nat) (t : Nat) :
    Demanded ro sem body fs₀ roots t ↔ DemandedCv ro sem body fs₀ roots t := by
  constructor
  · intro h
    induction h with
    | root hm => exact .root hm
    | step _ hc ih => exact .step ih ((calls_iff_callsCv hwf _ _).mp hc)
  · intro h
    induction h with
    | root hm => exact .root hm
    | step _ hc ih => exact .step ih ((calls_iff_callsCv hwf _ _).mpr hc)

theorem overlayAt_iff_overlayAtCv {D D' : Nat → Prop} (hD : ∀ t, D t ↔ D' t) (r : Nat)
    (x : Option Int) :
    OverlayAt ro sem body fs₀ D r x ↔ OverlayAtCv ro sem body fs₀ D' r x := by
  unfold OverlayAt OverlayAtCv
  constructor
  · rintro (⟨t, o, ws, h1, h2, h3⟩ | ⟨h1, h2⟩)
    · exact .inl ⟨t, o, ws, (hD t).mp h1, (den_iff_denCv hwf _ _).mp h2, h3⟩
    · exact .inr ⟨fun t o ws h3 h4 => h1 t o ws ((hD t).mpr h3) ((den_iff_denCv hwf _ _).mpr h4), h2⟩
  · rintro (⟨t, o, ws, h1, h2, h3⟩ | ⟨h1, h2⟩)
    · exact .inl ⟨t, o, ws, (hD t).mpr h1, (den_iff_denCv hwf _ _).mpr h2, h3⟩
    · exact .inr ⟨fun t o ws h3 h4 => h1 t o ws ((hD t).mp h3) ((den_iff_denCv hwf _ _).mp h4), h2⟩

/-- The ideal final resource states coincide. -/
theorem overlay_eq_overlayCv {D D' : Nat → Prop} (hD : ∀ t, D t ↔ D' t) (r : Nat) :
    overlay ro sem body fs₀ D r = overlayCv ro sem body fs₀ D' r :=
  overlay_eq hwf ((overlayAt_iff_overlayAtCv hwf hD r _).mpr (overlayCv_spec D' r))

/-- ... in particular for the demanded sets. -/
theorem overlay_demanded_eq_overlayCv (roots : List Nat) (r : Nat) :
    overlay ro sem body fs₀ (Demanded ro sem body fs₀ roots) r =
      overlayCv ro sem body fs₀ (DemandedCv ro sem body fs₀ roots) r :=
  overlay_eq_overlayCv hwf (demanded_iff_demandedCv hwf roots) r

end

end PieModel.TransSound
