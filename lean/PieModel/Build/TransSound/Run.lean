/-
Soundness of the top-down build with writes under TRANSITIVE static roles (`WellFormedCov`;
adapted from `SoundW/Run.lean`: `CovInv` for `RolesInv`, `DenCv` for `Den`, the cover argument for
the direct edge reader → generator): the successor steps of `tdRequire` and `tdRun`.
-/
import PieModel.Build.TransSound.Check
import PieModel.Build.SoundW.Run
import PieModel.Build.TransRoles.TopDown

namespace PieModel.TransSound
open PieModel.TransRoles

variable {cr : CRoles} {sem : Sem} {body : Nat → Prog} {fs₀ : List (Nat × Int)} {D : Nat → Prop}

theorem soundCv_require_succ {f : Nat} (ih : TdSoundCv cr sem body fs₀ D f) (s : Sess) (u c : Nat)
    (h : SInvCvD cr sem body fs₀ D s) (hpre : ReqPre cr.toRoles s u) (hDu : D u) :
    OutcomeCv cr sem body fs₀ D s (tdRequire sem body (f + 1) s u c) (QReqCv cr sem s u c) := by
  unfold tdRequire; simp only []
  have htr0 : TrExt s { s.emit (.requireStart u c) with store := (s.store.getOrCreateTaskNode u).1 } :=
    TrExt.of_append [.requireStart u c] rfl (by simp)
  obtain ⟨hb, hbs⟩ := h.getTask u
    (s' := { s.emit (.requireStart u c) with store := (s.store.getOrCreateTaskNode u).1 })
    rfl rfl rfl rfl rfl htr0
  have htm : (s.store.getOrCreateTaskNode u).1.taskOf (nodeOf s u) = some u :=
    Store.taskOf_getOrCreateTaskNode_self h.wf.store u
  have hpreb : ReqPre cr.toRoles
      { s.emit (.requireStart u c) with store := (s.store.getOrCreateTaskNode u).1 } u := by
    intro cur hcur
    obtain ⟨t0, h1, h2⟩ := hpre cur hcur
    exact ⟨t0, hb.le.task _ _ h1, h2⟩
  have hfb : FrameCv cr (cr.rank u) s
      { s.emit (.requireStart u c) with store := (s.store.getOrCreateTaskNode u).1 } :=
    FrameCv.quiet rfl htr0
  split
  next s_c a heq =>
    exact .abort (reserveRequire_specCv hb.inv htm hpreb heq).1.inv.faithful
  next s_c heq =>
    obtain ⟨stc, hcurc, hconsc, hfsc, htrc, hsamec, hedgec⟩ :=
      reserveRequire_specCv hb.inv htm hpreb heq
    have htc : s_c.store.taskOf (nodeOf s u) = some u := stc.le.task _ _ htm
    have hnodec : nodeOf s_c u = nodeOf s u := nodeOf_eq stc.inv.wf.store htc
    have hprec : ReqPre cr.toRoles s_c u := by
      intro cur hcur
      obtain ⟨t0, h1, h2⟩ := hpreb cur (by rw [← hcurc]; exact hcur)
      exact ⟨t0, stc.le.task _ _ h1, h2⟩
    have hfc : FrameCv cr (cr.rank u)
        { s.emit (.requireStart u c) with store := (s.store.getOrCreateTaskNode u).1 } s_c :=
      FrameCv.quiet hfsc (TrExt.of_eq htrc)
    have IH := ih.make s_c u stc.inv (by
      rw [hnodec]
      intro n hn
      exact .edge (hedgec rfl n (by rw [← hcurc]; exact hn)).1) hprec hDu
    split
    next s_d a heq2 => exact .abort (IH.faithful_of heq2)
    next s_d out heq2 =>
      obtain ⟨std, hconsd, houtd, htd, hprotd, hfd⟩ := IH.ok s_d out heq2
      rw [hnodec] at hconsd houtd htd hprotd
      have hcurd : s_d.cur = s_c.cur := cur_tdMake sem body heq2
      have hne : ∀ x, Ev.requireEnd u c (sem.ostamp c out) out ≠ Ev.executeStart x :=
        fun x hx => nomatch hx
      have ste := std.inv.emit (.requireEnd u c (sem.ostamp c out) out) hne
      have hfe : FrameCv cr (cr.rank u) s_d (s_d.emit (.requireEnd u c (sem.ostamp c out) out)) :=
        FrameCv.quiet rfl (TrExt.of_append [_] rfl (by simp))
      split
      next s_f a heq3 =>
        exact .abort (updateRequire_specCv ste.inv htd c (sem.ostamp c out) heq3).1.inv.faithful
      next s_f heq3 =>
        obtain ⟨stf, hcurf, hconsf, hfsf, htrf, hsamef, houtf, hupd⟩ :=
          updateRequire_specCv ste.inv htd c (sem.ostamp c out) heq3
        have hff : FrameCv cr (cr.rank u) (s_d.emit (.requireEnd u c (sem.ostamp c out) out)) s_f :=
          FrameCv.quiet hfsf (TrExt.of_eq htrf)
        have hframe : FrameCv cr (cr.rank u) s s_f :=
          (((hfb.trans hfc stc).trans hfd std).trans hfe ste).trans hff stf
        refine .ret (hb.trans (stc.trans (std.trans (ste.trans stf))))
          ⟨hconsf ▸ hconsd, by rw [houtf]; exact houtd, stf.le.task _ _ htd, hframe, ?_⟩
        intro n hn
        have hnb : ({ s.emit (.requireStart u c) with
            store := (s.store.getOrCreateTaskNode u).1 } : Sess).cur = some n := hn
        have hnc : s_c.cur = some n := by rw [hcurc]; exact hnb
        have hnd : s_d.cur = some n := by rw [hcurd]; exact hnc
        obtain ⟨hedge, halt⟩ := hedgec rfl n hnb
        -- the ancestors of `n`
        have hw := h.wf.store
        have hp1 : Prot s { s.emit (.requireStart u c) with
            store := (s.store.getOrCreateTaskNode u).1 } n := fun x _ => ⟨hbs x, id⟩
        have hp2 : Prot { s.emit (.requireStart u c) with
            store := (s.store.getOrCreateTaskNode u).1 } s_c n :=
          Prot.mod hb.inv.wf.store
            (fun x hx => hsamec x (fun hh => hx (Option.some.inj (hnb.symm.trans hh)).symm))
            (fun x hx => .inl (hconsc ▸ hx))
        have hp3 : Prot s_c s_d n := fun x hx => hprotd x (hx.tail hedge)
        have hp4 : Prot s_d s_f n :=
          Prot.mod std.inv.wf.store
            (fun x hx => hsamef x (fun hh => hx (Option.some.inj (hnd.symm.trans hh)).symm))
            (fun x hx => .inl (hconsf ▸ hx))
        refine ⟨((hp1.trans hp2 hw hb.inv.wf.store).trans hp3 hw stc.inv.wf.store).trans hp4 hw
          std.inv.wf.store, ?_⟩
        -- the edges of `n`
        have hsn : Same s_c s_d n := (hprotd n (.edge hedge)).1
        apply edgeUpdO_of (Lc := s_c.store.g.outgoingEdges n)
        · rw [← (hbs n).2]; exact halt
        · rw [hupd rfl n hnd]
          show (s_d.store.g.outgoingEdges n).map _ = _
          rw [hsn.2]

/-- The edge list after a `require` by the executing task: if the target had an edge, nothing
changed (same checker, same output, hence the same stamp). -/
theorem edges_after_requireCv {qt qr : List (Nat × Nat)} {s s1 : Sess} {n u c : Nat} {out : Int}
    {k : Int → Prog} (h : SInvCvD cr sem body fs₀ D s) (st1 : SStepCv cr sem body fs₀ D s s1)
    (hone : OneCk qt qr (.req u c k)) (hri : RunInvCv cr sem qt qr s n)
    (hout : s1.store.taskOutput (nodeOf s u) = some out)
    (htask : s1.store.taskOf (nodeOf s u) = some u)
    (hupd : EdgeUpdO (s.store.g.outgoingEdges n) (s1.store.g.outgoingEdges n) (nodeOf s u)
      (.require u c (sem.ostamp c out))) :
    ((nodeOf s u, Dep.require u c (sem.ostamp c out)) ∈ s.store.g.outgoingEdges n ∧
      s1.store.g.outgoingEdges n = s.store.g.outgoingEdges n) ∨
    s1.store.g.outgoingEdges n =
      s.store.g.outgoingEdges n ++ [(nodeOf s u, .require u c (sem.ostamp c out))] := by
  rcases hupd with ⟨⟨d0, hd0⟩, hLf⟩ | ⟨_, hLf⟩
  · left
    have hall : ∀ p ∈ s.store.g.outgoingEdges n, p.1 = nodeOf s u →
        p = (nodeOf s u, Dep.require u c (sem.ostamp c out)) := by
      rintro ⟨dst, d⟩ hp hp1
      simp only at hp1; subst hp1
      have hok := (h.wf.store.mem_outgoingEdges_ok hp).2
      have hrd := hri _ d hp
      cases d with
      | reserved => exact hrd.elim
      | write r' c' st0 =>
        have h1 : s1.store.resOf (nodeOf s u) = some r' := st1.le.res _ _ hok
        rw [Store.resOf_eq_none_of_taskOf htask] at h1; cases h1
      | read r' c' st0 =>
        have h1 : s1.store.resOf (nodeOf s u) = some r' := st1.le.res _ _ hok
        rw [Store.resOf_eq_none_of_taskOf htask] at h1; cases h1
      | require u' c' st0 =>
        obtain ⟨hq, hcs, o', ho', hst0⟩ := hrd
        have h1 : s1.store.taskOf (nodeOf s u) = some u' := st1.le.task _ _ hok
        rw [htask] at h1; cases h1
        have hcc := hone.1 c' hq
        subst hcc
        have h2 : s1.store.taskOutput (nodeOf s u) = some o' := by
          rw [(st1.cext _ hcs).1]; exact ho'
        rw [hout] at h2; cases h2
        rw [hst0]
    refine ⟨by rw [← hall _ hd0 rfl]; exact hd0, ?_⟩
    rw [hLf]
    conv => rhs; rw [← List.map_id (s.store.g.outgoingEdges n)]
    apply List.map_congr_left
    intro p hp
    by_cases hp1 : p.1 = nodeOf s u
    · rw [if_pos hp1, hall p hp hp1]; rfl
    · rw [if_neg hp1]; rfl
  · right; exact hLf

section
variable (hst : StampTotal sem) (hwf : WellFormedCov cr body)
include hst hwf

theorem soundCv_run_succ {f : Nat} (ih : TdSoundCv cr sem body fs₀ D f) (s : Sess)
    (n t0 : Nat) (p : Prog) (a : Acc) (qt qr : List (Nat × Nat))
    (h : SInvCvD cr sem body fs₀ D s) (hc : s.cur = some n) (ht : s.store.taskOf n = some t0)
    (hsr : StaticCovFrom cr t0 a p) (ha : AccOK s.store n a) (hone : OneCk qt qr p)
    (hri : RunInvCv cr sem qt qr s n) (henv : ReqConsCv s a)
    (hdem : ∀ u, CallsPCv cr.toRoles sem body fs₀ p u → D u) :
    OutcomeCv cr sem body fs₀ D s (tdRun sem body (f + 1) s p)
      (QRunCv cr sem body fs₀ s n t0 p) := by
  cases p with
  | ret v =>
    unfold tdRun
    exact .ret (SStepCv.refl h) ⟨[], .ret, fun r _ => rfl, fun u hu => (by cases hu),
      FrameCv.refl _ _, Prot.refl _ _, ⟨qt, qr, hri⟩, [], by simp, rfl, rfl⟩
  | panic => unfold tdRun; exact .abort h.faithful
  | req u c k =>
    unfold tdRun
    obtain ⟨hlt, hk⟩ := hsr
    have hpre : ReqPre cr.toRoles s u := fun cur' hc' => by
      rw [hc] at hc'; cases hc'; exact ⟨t0, ht, hlt⟩
    have IH := ih.require s u c h hpre (hdem u .here)
    have hacc := (tdTrans (G := False) (B := False) (sem := sem) hwf False.elim f).require s u c h.wf
      h.roles hpre False.elim False.elim
    split
    next s1 a' heq => exact .abort (IH.faithful_of heq)
    next s1 out heq =>
      obtain ⟨st1, hcons, hout, htask, hfr1, hcf⟩ := IH.ok s1 out heq
      obtain ⟨hp1, hupd⟩ := hcf n hc
      have hcur1 : s1.cur = some n := (cur_tdRequire sem body heq).trans hc
      have ha1 : AccOK s1.store n { a with req := u :: a.req } := by
        have := hacc.ok out (by rw [heq])
        rw [heq] at this
        exact this n a hc ha
      obtain ⟨t', o', wu, ht', ho', hden, _, _, _⟩ := st1.inv.sound _ hcons
      rw [htask] at ht'; cases ht'
      rw [hout] at ho'; cases ho'
      have hconsT : ConsT s1 u := ⟨_, hcons, htask⟩
      have henv1 : ReqConsCv s1 { a with req := u :: a.req } := (henv.step st1).cons hconsT
      have hedges := edges_after_requireCv h st1 hone hri hout htask hupd
      have hri1 : RunInvCv cr sem ((u, c) :: qt) qr s1 n := by
        intro dst d hd
        have hnew : RunDepCv cr sem ((u, c) :: qt) qr s1 (nodeOf s u)
            (.require u c (sem.ostamp c out)) := ⟨List.mem_cons_self, hcons, out, hout, rfl⟩
        rcases hedges with ⟨_, he⟩ | he
        · rw [he] at hd
          exact (hri dst d hd).mono h st1 (fun p hp => List.mem_cons_of_mem _ hp) (fun p hp => hp)
        · rw [he] at hd
          rcases List.mem_append.mp hd with hd | hd
          · exact (hri dst d hd).mono h st1 (fun p hp => List.mem_cons_of_mem _ hp) (fun p hp => hp)
          · simp only [List.mem_singleton, Prod.mk.injEq] at hd
            obtain ⟨rfl, rfl⟩ := hd
            exact hnew
      have IH2 := ih.run s1 n t0 (k out) { a with req := u :: a.req } ((u, c) :: qt)
        qr st1.inv hcur1 (st1.le.task _ _ ht) (hk out) ha1 (hone.2 out) hri1 henv1
        (fun x hx => hdem x (.req hden hx))
      refine IH2.trans st1 ?_
      rintro s' v st' ⟨ws, hev', hfs', hcl', hfr', hp', hri', new, hnew, hrep'⟩
      refine ⟨ws, .req hden hev', ?_, ?_, (hfr1.mono (Nat.le_of_lt hlt)).trans hfr' st',
        hp1.trans hp' h.wf.store st1.inv.wf.store, hri', ?_⟩
      · intro r hg
        rw [hfs' r hg, hfr1.fs r (fun w hw => by rw [hg] at hw; cases hw; exact hlt)]
      · intro x hx
        cases hx with
        | here => exact st'.consT hconsT
        | req hd'' hc'' =>
          have := EvalCv.det hden hd''; cases this
          exact hcl' x hc''
      · rcases hedges with ⟨hmem, he⟩ | he
        · have hd1 : s1.store.depsFrom n = s.store.depsFrom n := by
            simpa using depsFrom_of_oe (new := []) (by simpa using he)
          refine ⟨new, by rw [hnew, hd1], .inl ⟨sem.ostamp c out, ?_, out, rfl, by rw [← hd1]; exact hrep'⟩⟩
          exact (mem_depsFrom_iffCv _ _ _).mpr ⟨_, hmem⟩
        · have hd1 := depsFrom_of_oe he
          simp only [List.map_cons, List.map_nil] at hd1
          refine ⟨.require u c (sem.ostamp c out) :: new, by rw [hnew, hd1]; simp,
            .inr ⟨sem.ostamp c out, new, rfl, out, rfl, by rw [← hd1]; exact hrep'⟩⟩
  | read r c k =>
    unfold tdRun
    obtain ⟨hng, hreq, hk⟩ := hsr
    split
    next s1 a' heq => exact .abort (doRead_specCv hst hwf.rank h hc ht ha r c hreq heq).1.inv.faithful
    next s1 x heq =>
      obtain ⟨st1, hcur1', hcons1, hfs1, htr1, hsame1, ha1, hres⟩ :=
        doRead_specCv hst hwf.rank h hc ht ha r c hreq heq
      obtain ⟨rfl, dst, stamp, hstamp, hresof, halt⟩ := hres x rfl
      have hcur1 : s1.cur = some n := hcur1'.trans hc
      obtain ⟨hvE, hvC, hvB, hvG⟩ := read_viewCv hst hwf h henv c k hreq
      have hp1 : Prot s s1 n := Prot.mod h.wf.store hsame1 (fun x hx => .inl (hcons1 ▸ hx))
      have hfr1 : FrameCv cr (cr.rank t0) s s1 := FrameCv.quiet hfs1 htr1
      have hgc : ∀ w, cr.gen r = some w → ConsT s w := hvG
      -- an existing edge to the resource is the same read dependency
      have hexist : ∀ d0, (dst, d0) ∈ s.store.g.outgoingEdges n → d0 = .read r c stamp := by
        intro d0 hd0
        have hok := (h.wf.store.mem_outgoingEdges_ok hd0).2
        have hrd := hri _ d0 hd0
        cases d0 with
        | reserved => exact hrd.elim
        | write r' c' st0 =>
          have h1 : s1.store.resOf dst = some r' := st1.le.res _ _ hok
          rw [hresof] at h1; cases h1
          exact absurd (h.roles.write n dst r c' st0 t0
            ((Dag.mem_outgoingEdges h.wf.store.gwf _ _ _).mp hd0) ht) hng
        | require u' c' st0 =>
          have h1 : s1.store.taskOf dst = some u' := st1.le.task _ _ hok
          rw [Store.taskOf_eq_none_of_resOf hresof] at h1; cases h1
        | read r' c' st0 =>
          obtain ⟨hq, hst0, _⟩ := hrd
          have h1 : s1.store.resOf dst = some r' := st1.le.res _ _ hok
          rw [hresof] at h1; cases h1
          have hcc := hone.1 c' hq
          subst hcc
          rw [hstamp] at hst0; cases hst0
          rfl
      have hri1 : RunInvCv cr sem qt ((r, c) :: qr) s1 n := by
        intro dst' d hd
        rcases halt with ⟨_, heq'⟩ | ⟨_, heq'⟩
        · rw [heq'] at hd
          exact (hri dst' d hd).mono h st1 (fun p hp => hp) (fun p hp => List.mem_cons_of_mem _ hp)
        · rw [heq'] at hd
          rcases List.mem_append.mp hd with hd | hd
          · exact (hri dst' d hd).mono h st1 (fun p hp => hp) (fun p hp => List.mem_cons_of_mem _ hp)
          · simp only [List.mem_singleton, Prod.mk.injEq] at hd
            obtain ⟨rfl, rfl⟩ := hd
            exact ⟨List.mem_cons_self, by rw [hfs1]; exact hstamp, fun w hw => st1.consT (hgc w hw)⟩
      have IH2 := ih.run s1 n t0 (k (.ok (aget s.fs r))) a qt ((r, c) :: qr) st1.inv hcur1
        (st1.le.task _ _ ht) (hk _) ha1 (hone.2 _) hri1 (henv.step st1)
        (fun x hx => hdem x (hvC x hx))
      refine IH2.trans st1 ?_
      rintro s' v st' ⟨ws, hev', hfs', hcl', hfr', hp', hri', new, hnew, hrep'⟩
      refine ⟨ws, hvE _ hev', ?_, ?_,
        hfr1.trans hfr' st', hp1.trans hp' h.wf.store st1.inv.wf.store, hri', ?_⟩
      · intro r' hg
        rw [hfs' r' hg, hfs1]
      · intro x hx
        exact hcl' x (hvB x hx)
      · rcases halt with ⟨⟨d0, hd0⟩, he⟩ | ⟨_, he⟩
        · have hd1 : s1.store.depsFrom n = s.store.depsFrom n := by
            simpa using depsFrom_of_oe (new := []) (by simpa using he)
          refine ⟨new, by rw [hnew, hd1],
            .inl ⟨stamp, ?_, aget s.fs r, hstamp, by rw [← hd1]; exact hrep'⟩⟩
          rw [← hexist d0 hd0]
          exact (mem_depsFrom_iffCv _ _ _).mpr ⟨_, hd0⟩
        · have hd1 := depsFrom_of_oe he
          simp only [List.map_cons, List.map_nil] at hd1
          refine ⟨.read r c stamp :: new, by rw [hnew, hd1]; simp,
            .inr ⟨stamp, new, rfl, aget s.fs r, hstamp, by rw [← hd1]; exact hrep'⟩⟩
  | write r c v k =>
    unfold tdRun
    obtain ⟨hg, hnw, hk⟩ := hsr
    obtain ⟨hfaith, hokk⟩ := doWrite_specCv hst hwf.rank h hc ht ha r c v hg hnw
      (s' := (doWrite sem s r c v).1) (res := (doWrite sem s r c v).2) rfl
    split
    next s1 a' heq => rw [heq] at hfaith; exact .abort hfaith
    next s1 x heq =>
      rw [heq] at hokk
      obtain ⟨rfl, st1, hcur1', hcons1, htr1, hsame1, ha1, hfr, hfo, dst, stamp, hstamp, hresof,
        hnoe, hoe⟩ := hokk x rfl
      have hcur1 : s1.cur = some n := hcur1'.trans hc
      have hp1 : Prot s s1 n := Prot.mod h.wf.store hsame1 (fun x hx => .inl (hcons1 ▸ hx))
      have hfr1 : FrameCv cr (cr.rank t0) s s1 := by
        refine ⟨fun r' hr' => hfo r' (fun hh => ?_), NewExec.of_trace htr1.2⟩
        subst hh
        exact absurd (hr' t0 hg) (Nat.lt_irrefl _)
      have hri1 : RunInvCv cr sem qt ((r, c) :: qr) s1 n := by
        intro dst' d hd
        rw [hoe] at hd
        rcases List.mem_append.mp hd with hd | hd
        · exact (hri dst' d hd).mono h st1 (fun p hp => hp) (fun p hp => List.mem_cons_of_mem _ hp)
        · simp only [List.mem_singleton, Prod.mk.injEq] at hd
          obtain ⟨rfl, rfl⟩ := hd
          exact trivial
      have IH2 := ih.run s1 n t0 (k (.ok ())) { a with wr := r :: a.wr } qt ((r, c) :: qr) st1.inv
        hcur1 (st1.le.task _ _ ht) (hk _) ha1 (hone.2 _) hri1 ((henv.step st1).wr r)
        (fun x hx => hdem x (.write (by rw [writeAns_ok hstamp]; exact hx)))
      refine IH2.trans st1 ?_
      rintro s' v' st' ⟨ws, hev', hfs', hcl', hfr', hp', hri', new, hnew, hrep'⟩
      refine ⟨(r, v) :: ws, .write (by rw [writeAns_ok hstamp]; exact hev'), ?_, ?_, hfr1.trans hfr' st',
        hp1.trans hp' h.wf.store st1.inv.wf.store, hri', ?_⟩
      · intro r' hg'
        rw [hfs' r' hg', wget_cons]
        cases hww : wget ws r' with
        | some y => rfl
        | none =>
          by_cases hr : r = r'
          · subst hr; rw [if_pos rfl]; exact hfr
          · rw [if_neg hr]; exact hfo r' (Ne.symm hr)
      · intro x hx
        cases hx with
        | write hc'' => rw [writeAns_ok hstamp] at hc''; exact hcl' x hc''

      · have hd1 := depsFrom_of_oe hoe
        simp only [List.map_cons, List.map_nil] at hd1
        exact ⟨.write r c stamp :: new, by rw [hnew, hd1]; simp,
          stamp, new, rfl, hstamp, by rw [← hd1]; exact hrep'⟩
  | wrote r c v k =>
    unfold tdRun
    obtain ⟨hg, hnw, hk⟩ := hsr
    obtain ⟨hfaith, hokk⟩ := doWrote_specCv hst hwf.rank h hc ht ha r c v hg hnw
      (s' := (doWrote sem s r c v).1) (res := (doWrote sem s r c v).2) rfl
    split
    next s1 a' heq => rw [heq] at hfaith; exact .abort hfaith
    next s1 x heq =>
      rw [heq] at hokk
      obtain ⟨rfl, st1, hcur1', hcons1, htr1, hsame1, ha1, hfr, hfo, dst, stamp, hstamp, hresof,
        hnoe, hoe⟩ := hokk x rfl
      have hcur1 : s1.cur = some n := hcur1'.trans hc
      have hp1 : Prot s s1 n := Prot.mod h.wf.store hsame1 (fun x hx => .inl (hcons1 ▸ hx))
      have hfr1 : FrameCv cr (cr.rank t0) s s1 := by
        refine ⟨fun r' hr' => hfo r' (fun hh => ?_), NewExec.of_trace htr1.2⟩
        subst hh
        exact absurd (hr' t0 hg) (Nat.lt_irrefl _)
      have hri1 : RunInvCv cr sem qt ((r, c) :: qr) s1 n := by
        intro dst' d hd
        rw [hoe] at hd
        rcases List.mem_append.mp hd with hd | hd
        · exact (hri dst' d hd).mono h st1 (fun p hp => hp) (fun p hp => List.mem_cons_of_mem _ hp)
        · simp only [List.mem_singleton, Prod.mk.injEq] at hd
          obtain ⟨rfl, rfl⟩ := hd
          exact trivial
      have IH2 := ih.run s1 n t0 (k (.ok ())) { a with wr := r :: a.wr } qt ((r, c) :: qr) st1.inv
        hcur1 (st1.le.task _ _ ht) (hk _) ha1 (hone.2 _) hri1 ((henv.step st1).wr r)
        (fun x hx => hdem x (.wrote (by rw [writeAns_ok hstamp]; exact hx)))
      refine IH2.trans st1 ?_
      rintro s' v' st' ⟨ws, hev', hfs', hcl', hfr', hp', hri', new, hnew, hrep'⟩
      refine ⟨(r, v) :: ws, .wrote (by rw [writeAns_ok hstamp]; exact hev'), ?_, ?_, hfr1.trans hfr' st',
        hp1.trans hp' h.wf.store st1.inv.wf.store, hri', ?_⟩
      · intro r' hg'
        rw [hfs' r' hg', wget_cons]
        cases hww : wget ws r' with
        | some y => rfl
        | none =>
          by_cases hr : r = r'
          · subst hr; rw [if_pos rfl]; exact hfr
          · rw [if_neg hr]; exact hfo r' (Ne.symm hr)
      · intro x hx
        cases hx with
        | wrote hc'' => rw [writeAns_ok hstamp] at hc''; exact hcl' x hc''

      · have hd1 := depsFrom_of_oe hoe
        simp only [List.map_cons, List.map_nil] at hd1
        exact ⟨.write r c stamp :: new, by rw [hnew, hd1]; simp,
          stamp, new, rfl, hstamp, by rw [← hd1]; exact hrep'⟩

end

end PieModel.TransSound
