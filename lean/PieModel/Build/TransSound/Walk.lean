/-
Soundness of the top-down build with writes under transitive roles: the analogue of
`replayO_walk` (`SoundW/Walk.lean`).  Walking the ordered replay of a task body along a prefix of
its dependency list all of whose members are accepted in the current state (`DepOk`) follows the
from-scratch evaluation `EvalCv` of the body.  The environment of the direct-role proof is replaced
by `ReqConsCv` (the tasks required so far are consistent) and the cover argument
(`SInvCvD.consT_covers`): the generator of a resource that is read is consistent, hence the
resource holds what the generator's from-scratch execution leaves in it.
-/
import PieModel.Build.TransSound.Exec
import PieModel.Build.SoundW.Walk

namespace PieModel.TransSound
open PieModel.TransRoles

variable {cr : CRoles} {sem : Sem} {body : Nat → Prog} {fs₀ : List (Nat × Int)} {D : Nat → Prop}

/-- Transport of `DepOk` to a later state; for a write dependency the resource must be
untouched. -/
theorem depOk_stepCv {s s' : Sess} {d : Dep} (h : SInvCvD cr sem body fs₀ D s)
    (st : SStepCv cr sem body fs₀ D s s') (hd : DepOk cr.toRoles sem s d)
    (hw : ∀ r c stp, d = .write r c stp → aget s'.fs r = aget s.fs r) :
    DepOk cr.toRoles sem s' d := by
  cases d with
  | reserved => exact hd
  | require u c stp =>
    obtain ⟨m, o, h1, h2, h3, h4⟩ := hd
    exact ⟨m, o, st.le.task _ _ h1, st.mono _ h2, by rw [(st.cext _ h2).1]; exact h3, h4⟩
  | read r c stp =>
    obtain ⟨h1, h2⟩ := hd
    exact ⟨by rw [st.fs_stable h h2]; exact h1, fun w hw' => st.consT (h2 w hw')⟩
  | write r c stp =>
    show sem.rcheck c (aget s'.fs r) stp = .ok true
    rw [hw r c stp rfl]; exact hd

/-- The tasks required so far on the path are consistent. -/
def ReqConsCv (s : Sess) (a : Acc) : Prop := ∀ u ∈ a.req, ConsT s u

theorem ReqConsCv.nil (s : Sess) : ReqConsCv s {} := fun _ hu => (nomatch hu)

theorem ReqConsCv.cons {s : Sess} {a : Acc} (h : ReqConsCv s a) {u : Nat} (hc : ConsT s u) :
    ReqConsCv s { a with req := u :: a.req } := by
  intro x hx
  rcases List.mem_cons.mp hx with rfl | hx
  · exact hc
  · exact h x hx

theorem ReqConsCv.wr {s : Sess} {a : Acc} (h : ReqConsCv s a) (r : Nat) :
    ReqConsCv s { a with wr := r :: a.wr } := h

theorem ReqConsCv.step {s s' : Sess} {a : Acc} (h : ReqConsCv s a)
    (st : SStepCv cr sem body fs₀ D s s') : ReqConsCv s' a := fun u hu => st.consT (h u hu)

/-- **What a read sees.**  When the requires so far are consistent and cover the generator of `r`
(if any), the content of `r` in the current state is what a `read` sees in the from-scratch
build: the from-scratch evaluation (and the call relation) of `read r c k` continues with
`k (.ok (aget s.fs r))`; and the generator is consistent. -/
theorem read_viewCv (hst : StampTotal sem) (hwf : WellFormedCov cr body) {s : Sess}
    (h : SInvCvD cr sem body fs₀ D s) {a : Acc} (hr : ReqConsCv s a) {r : Nat} (c : Nat)
    (k : Except Int (Option Int) → Prog)
    (hreq : ∀ w, cr.gen r = some w → Covers cr a.req w) :
    (∀ res, EvalCv cr.toRoles sem body fs₀ (k (.ok (aget s.fs r))) res →
      EvalCv cr.toRoles sem body fs₀ (.read r c k) res) ∧
    (∀ t, CallsPCv cr.toRoles sem body fs₀ (k (.ok (aget s.fs r))) t →
      CallsPCv cr.toRoles sem body fs₀ (.read r c k) t) ∧
    (∀ t, CallsPCv cr.toRoles sem body fs₀ (.read r c k) t →
      CallsPCv cr.toRoles sem body fs₀ (k (.ok (aget s.fs r))) t) ∧
    (∀ w, cr.gen r = some w → ConsT s w) := by
  cases hg : cr.gen r with
  | none =>
    have hfs : aget s.fs r = aget fs₀ r :=
      h.untouched r (fun w hw => by rw [hg] at hw; cases hw)
    obtain ⟨sv, hsv⟩ := hst c (aget fs₀ r)
    have hans : readAns sem c (aget fs₀ r) = .ok (aget s.fs r) := by rw [readAns_ok hsv, hfs]
    refine ⟨fun res he => .readSrc hg (by rw [hans]; exact he),
      fun t hc => .readSrc hg (by rw [hans]; exact hc), fun t hc => ?_, fun w hw => by cases hw⟩
    cases hc with
    | readSrc _ h' => rw [hans] at h'; exact h'
    | readGen hg' _ _ => rw [show cr.toRoles.gen r = cr.gen r from rfl, hg] at hg'; cases hg'
  | some w =>
    have hcw : ConsT s w := h.consT_covers hwf hr (hreq w hg)
    obtain ⟨n, o, ws, _, _, _, hd, hf⟩ := h.consT_den hcw
    have hfs : aget s.fs r = (wget ws r).getD (aget fs₀ r) := hf r hg
    obtain ⟨sv, hsv⟩ := hst c ((wget ws r).getD (aget fs₀ r))
    have hans : readAns sem c ((wget ws r).getD (aget fs₀ r)) = .ok (aget s.fs r) := by
      rw [readAns_ok hsv, hfs]
    refine ⟨fun res he => .readGen hg hd (by rw [hans]; exact he),
      fun t hc => .readGen hg hd (by rw [hans]; exact hc), fun t hc => ?_,
      fun w' hw' => by cases hw'; exact hcw⟩
    cases hc with
    | readSrc hg' _ => rw [show cr.toRoles.gen r = cr.gen r from rfl, hg] at hg'; cases hg'
    | readGen hg' hd' h' =>
      rw [show cr.toRoles.gen r = cr.gen r from rfl, hg] at hg'; cases hg'
      have := DenCv.det hd hd'; cases this
      rw [hans] at h'; exact h'

variable (cr sem body fs₀) in
/-- The result of walking `p`: `done` are all dependencies passed at the end of the accepted
prefix, `ds2` is the rest of the list. -/
def WalkResCv (s : Sess) (p : Prog) (v : Int) (done ds2 : List Dep) : Prop :=
  (ds2 = [] → ∃ ws, EvalCv cr.toRoles sem body fs₀ p (v, ws) ∧
    (∀ r x, wget ws r = some x → ∃ c st, Dep.write r c st ∈ done ∧ sem.rstamp c x = .ok st ∧
      ExactC sem c) ∧
    (∀ u, CallsPCv cr.toRoles sem body fs₀ p u → ConsT s u)) ∧
  (∀ u c st ds3, ds2 = Dep.require u c st :: ds3 → CallsPCv cr.toRoles sem body fs₀ p u) ∧
  (∀ r c st ds3 w, ds2 = Dep.read r c st :: ds3 → cr.gen r = some w → ConsT s w)

/-- **Key lemma** (the analogue of `replayO_walk`). -/
theorem replayO_walkCv (hst : StampTotal sem) (hwf : WellFormedCov cr body) {s : Sess}
    (h : SInvCvD cr sem body fs₀ D s) {t : Nat} (ds2 : List Dep) (v : Int) :
    ∀ (p : Prog) (a : Acc) (seen ds1 : List Dep),
    Respects sem p → WriteExact sem p → StaticCovFrom cr t a p → ReqConsCv s a →
    ReplayO sem p seen (ds1 ++ ds2) v → (∀ d ∈ seen, DepOk cr.toRoles sem s d) →
    (∀ d ∈ ds1, DepOk cr.toRoles sem s d) → WalkResCv cr sem body fs₀ s p v (seen ++ ds1) ds2 := by
  intro p
  induction p with
  | ret v' =>
    intro a seen ds1 _ _ _ _ hrep _ _
    obtain ⟨hnil, rfl⟩ := hrep
    have h2 : ds2 = [] := (List.append_eq_nil_iff.mp hnil).2
    refine ⟨fun _ => ⟨[], .ret, fun r x hx => (by cases hx), fun u hu => (by cases hu)⟩, ?_, ?_⟩
    · intro u c st ds3 hd; rw [h2] at hd; cases hd
    · intro r c st ds3 w hd; rw [h2] at hd; cases hd
  | panic => intro a seen ds1 _ _ _ _ hrep; exact hrep.elim
  | req u c k ih =>
    intro a seen ds1 hres hwe hsr henv hrep hseen hds1
    -- the common continuation, once the `require` dependency is known to be accepted
    have key : ∀ (st : Stamp) (o : Int) (seen' ds1' : List Dep), sem.ostamp c o = st →
        DepOk cr.toRoles sem s (.require u c st) → ReplayO sem (k o) seen' (ds1' ++ ds2) v →
        (∀ d ∈ seen', DepOk cr.toRoles sem s d) → (∀ d ∈ ds1', DepOk cr.toRoles sem s d) →
        (∀ d, d ∈ seen' ++ ds1' → d ∈ seen ++ ds1) →
        WalkResCv cr sem body fs₀ s (.req u c k) v (seen ++ ds1) ds2 := by
      intro st o seen' ds1' ho hdep hrep' hs' hd' hsub
      obtain ⟨m, o', htm, hm, hom, hck⟩ := hdep
      obtain ⟨t', o'', wu, ht', ho'', hden, _, _, _⟩ := h.sound m hm
      rw [htm] at ht'; cases ht'
      rw [hom] at ho''; cases ho''
      have hk : k o' = k o := hres.1 o o' (by rw [ho]; exact hck)
      have hcons : ConsT s u := ⟨m, hm, htm⟩
      have IH := ih o' { a with req := u :: a.req } seen' ds1' (hres.2 o') (hwe o')
        (hsr.2 o') (henv.cons hcons) (by rw [hk]; exact hrep') hs' hd'
      refine ⟨fun h2 => ?_, ?_, IH.2.2⟩
      · obtain ⟨ws, hev, hwr, hcl⟩ := IH.1 h2
        refine ⟨ws, .req hden hev, fun r x hx => ?_, fun x hx => ?_⟩
        · obtain ⟨c', st', h1, h2', h3⟩ := hwr r x hx
          exact ⟨c', st', hsub _ h1, h2', h3⟩
        · cases hx with
          | here => exact hcons
          | req hd'' hc'' =>
            have := EvalCv.det hden hd''; cases this
            exact hcl x hc''
      · intro u' c' st' ds3 h2
        exact .req hden (IH.2.1 u' c' st' ds3 h2)
    rcases hrep with ⟨st, hmem, o, ho, hrep'⟩ | ⟨st, ds', hds, o, ho, hrep'⟩
    · exact key st o seen ds1 ho (hseen _ hmem) hrep' hseen hds1 (fun d hd => hd)
    · cases ds1 with
      | nil =>
        simp only [List.nil_append] at hds
        refine ⟨fun h2 => (by rw [h2] at hds; cases hds), ?_, ?_⟩
        · intro u' c' st' ds3 h2
          rw [h2] at hds; cases hds
          exact .here
        · intro r c' st' ds3 w h2
          rw [h2] at hds; cases hds
      | cons d ds1' =>
        simp only [List.cons_append, List.cons.injEq] at hds
        obtain ⟨rfl, rfl⟩ := hds
        refine key st o (seen ++ [.require u c st]) ds1' ho (hds1 _ List.mem_cons_self) hrep' ?_
          (fun d hd => hds1 d (List.mem_cons_of_mem _ hd)) (fun d hd => by simpa using hd)
        intro d hd
        rcases List.mem_append.mp hd with hd | hd
        · exact hseen d hd
        · simp only [List.mem_singleton] at hd; subst hd; exact hds1 _ List.mem_cons_self
  | read r c k ih =>
    intro a seen ds1 hres hwe hsr henv hrep hseen hds1
    obtain ⟨hvE, hvC, hvB, hvG⟩ := read_viewCv hst hwf h henv c k hsr.2.1
    have key : ∀ (st : Stamp) (x : Option Int) (seen' ds1' : List Dep), sem.rstamp c x = .ok st →
        DepOk cr.toRoles sem s (.read r c st) → ReplayO sem (k (.ok x)) seen' (ds1' ++ ds2) v →
        (∀ d ∈ seen', DepOk cr.toRoles sem s d) → (∀ d ∈ ds1', DepOk cr.toRoles sem s d) →
        (∀ d, d ∈ seen' ++ ds1' → d ∈ seen ++ ds1) →
        WalkResCv cr sem body fs₀ s (.read r c k) v (seen ++ ds1) ds2 := by
      intro st x seen' ds1' hx hdep hrep' hs' hd' hsub
      obtain ⟨hck, _⟩ := hdep
      have hk : k (.ok (aget s.fs r)) = k (.ok x) := hres.1 x (aget s.fs r) st hx hck
      have IH := ih (.ok (aget s.fs r)) a seen' ds1' (hres.2 _) (hwe _) (hsr.2.2 _) henv
        (by rw [hk]; exact hrep') hs' hd'
      refine ⟨fun h2 => ?_, ?_, IH.2.2⟩
      · obtain ⟨ws, hev, hwr, hcl⟩ := IH.1 h2
        refine ⟨ws, hvE _ hev, fun r' x' hx' => ?_, fun x' hx' => ?_⟩
        · obtain ⟨c', st', h1, h2', h3⟩ := hwr r' x' hx'
          exact ⟨c', st', hsub _ h1, h2', h3⟩
        · exact hcl x' (hvB x' hx')
      · intro u' c' st' ds3 h2
        exact hvC _ (IH.2.1 u' c' st' ds3 h2)
    rcases hrep with ⟨st, hmem, x, hx, hrep'⟩ | ⟨st, ds', hds, x, hx, hrep'⟩
    · exact key st x seen ds1 hx (hseen _ hmem) hrep' hseen hds1 (fun d hd => hd)
    · cases ds1 with
      | nil =>
        simp only [List.nil_append] at hds
        refine ⟨fun h2 => (by rw [h2] at hds; cases hds), ?_, ?_⟩
        · intro u' c' st' ds3 h2
          rw [h2] at hds; cases hds
        · intro r' c' st' ds3 w h2 hg
          rw [h2] at hds; cases hds
          exact hvG w hg
      | cons d ds1' =>
        simp only [List.cons_append, List.cons.injEq] at hds
        obtain ⟨rfl, rfl⟩ := hds
        refine key st x (seen ++ [.read r c st]) ds1' hx (hds1 _ List.mem_cons_self) hrep' ?_
          (fun d hd => hds1 d (List.mem_cons_of_mem _ hd)) (fun d hd => by simpa using hd)
        intro d hd
        rcases List.mem_append.mp hd with hd | hd
        · exact hseen d hd
        · simp only [List.mem_singleton] at hd; subst hd; exact hds1 _ List.mem_cons_self
  | write r c v' k ih =>
    intro a seen ds1 hres hwe hsr henv hrep hseen hds1
    obtain ⟨st, ds', hds, hx, hrep'⟩ := hrep
    have hans : writeAns sem c v' = .ok () := writeAns_ok hx
    cases ds1 with
    | nil =>
      simp only [List.nil_append] at hds
      refine ⟨fun h2 => (by rw [h2] at hds; cases hds), ?_, ?_⟩
      · intro u' c' st' ds3 h2; rw [h2] at hds; cases hds
      · intro r' c' st' ds3 w h2; rw [h2] at hds; cases hds
    | cons d ds1' =>
      simp only [List.cons_append, List.cons.injEq] at hds
      obtain ⟨rfl, rfl⟩ := hds
      have IH := ih (.ok ()) { a with wr := r :: a.wr } (seen ++ [.write r c st]) ds1' (hres _)
        (hwe.2 _) (hsr.2.2 _) (henv.wr r) hrep' (by
          intro d hd
          rcases List.mem_append.mp hd with hd | hd
          · exact hseen d hd
          · simp only [List.mem_singleton] at hd; subst hd; exact hds1 _ List.mem_cons_self)
        (fun d hd => hds1 d (List.mem_cons_of_mem _ hd))
      refine ⟨fun h2 => ?_, ?_, IH.2.2⟩
      · obtain ⟨ws, hev, hwr, hcl⟩ := IH.1 h2
        refine ⟨(r, v') :: ws, .write (by rw [hans]; exact hev), fun r0 x0 hw => ?_,
          fun x' hx' => ?_⟩
        · rw [wget_cons] at hw
          cases hww : wget ws r0 with
          | some y =>
            rw [hww] at hw; cases hw
            obtain ⟨c', st', h1, h2', h3⟩ := hwr r0 _ hww
            exact ⟨c', st', by simpa using h1, h2', h3⟩
          | none =>
            rw [hww] at hw
            by_cases hr : r = r0
            · rw [if_pos hr] at hw; cases hw; subst hr
              exact ⟨c, st, by simp, hx, hwe.1⟩
            · rw [if_neg hr] at hw; cases hw
        · cases hx' with
          | write hc'' => rw [hans] at hc''; exact hcl x' hc''
      · intro u' c' st' ds3 h2
        exact .write (by rw [hans]; exact IH.2.1 u' c' st' ds3 h2)
  | wrote r c v' k ih =>
    intro a seen ds1 hres hwe hsr henv hrep hseen hds1
    obtain ⟨st, ds', hds, hx, hrep'⟩ := hrep
    have hans : writeAns sem c v' = .ok () := writeAns_ok hx
    cases ds1 with
    | nil =>
      simp only [List.nil_append] at hds
      refine ⟨fun h2 => (by rw [h2] at hds; cases hds), ?_, ?_⟩
      · intro u' c' st' ds3 h2; rw [h2] at hds; cases hds
      · intro r' c' st' ds3 w h2; rw [h2] at hds; cases hds
    | cons d ds1' =>
      simp only [List.cons_append, List.cons.injEq] at hds
      obtain ⟨rfl, rfl⟩ := hds
      have IH := ih (.ok ()) { a with wr := r :: a.wr } (seen ++ [.write r c st]) ds1' (hres _)
        (hwe.2 _) (hsr.2.2 _) (henv.wr r) hrep' (by
          intro d hd
          rcases List.mem_append.mp hd with hd | hd
          · exact hseen d hd
          · simp only [List.mem_singleton] at hd; subst hd; exact hds1 _ List.mem_cons_self)
        (fun d hd => hds1 d (List.mem_cons_of_mem _ hd))
      refine ⟨fun h2 => ?_, ?_, IH.2.2⟩
      · obtain ⟨ws, hev, hwr, hcl⟩ := IH.1 h2
        refine ⟨(r, v') :: ws, .wrote (by rw [hans]; exact hev), fun r0 x0 hw => ?_,
          fun x' hx' => ?_⟩
        · rw [wget_cons] at hw
          cases hww : wget ws r0 with
          | some y =>
            rw [hww] at hw; cases hw
            obtain ⟨c', st', h1, h2', h3⟩ := hwr r0 _ hww
            exact ⟨c', st', by simpa using h1, h2', h3⟩
          | none =>
            rw [hww] at hw
            by_cases hr : r = r0
            · rw [if_pos hr] at hw; cases hw; subst hr
              exact ⟨c, st, by simp, hx, hwe.1⟩
            · rw [if_neg hr] at hw; cases hw
        · cases hx' with
          | wrote hc'' => rw [hans] at hc''; exact hcl x' hc''
      · intro u' c' st' ds3 h2
        exact .wrote (by rw [hans]; exact IH.2.1 u' c' st' ds3 h2)

end PieModel.TransSound
