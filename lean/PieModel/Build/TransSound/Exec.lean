/-
Soundness of the top-down build with writes under TRANSITIVE static roles (`WellFormedCov`;
adapted from `SoundW/Exec.lean`: `CovInv` for `RolesInv`, `DenCv` for `Den`, the cover argument for
the direct edge reader → generator): start of an execution, and end of an execution
together with marking the executed task consistent, as `SStepCv`s.
-/
import PieModel.Build.TransSound.Prims
import PieModel.Build.SoundW.Exec

namespace PieModel.TransSound
open PieModel.TransRoles

variable {cr : CRoles} {sem : Sem} {body : Nat → Prog} {fs₀ : List (Nat × Int)} {D : Nat → Prop}

/-- Start of the execution of task `t` (node `m`), which is not consistent and above the
executing task in rank. -/
theorem SInvCvD.startExec {s s' : Sess} (h : SInvCvD cr sem body fs₀ D s) {m t : Nat}
    (ht : s.store.taskOf m = some t) (hm : m ∉ s.consistent) (hpre : ReqPre cr.toRoles s t) (hD : D t)
    (hst : s'.store = s.store.resetTask m) (hcur : s'.cur = some m) (hfs : s'.fs = s.fs)
    (hcons : s'.consistent = s.consistent) (hq : s'.queue = s.queue)
    (htr : s'.trace = s.trace ++ [.executeStart t]) :
    SStepCv cr sem body fs₀ D s s' ∧ (∀ x, x ≠ m → Same s s' x) ∧
      s'.store.g.outgoingEdges m = [] := by
  have hw := h.wf.store
  have hle : s.store.Le s'.store := hst ▸ Store.le_resetTask hw m
  have hwf : SessWF s' := by
    refine ⟨hst ▸ hw.resetTask m, ?_, ?_⟩
    · intro n hn
      rw [hcur] at hn; cases hn
      exact ⟨t, by rw [hst, Store.taskOf_resetTask hw]; exact ht⟩
    · intro n hn
      rw [hq] at hn
      obtain ⟨t', ht'⟩ := h.wf.queue n hn
      exact ⟨t', by rw [hst, Store.taskOf_resetTask hw]; exact ht'⟩
  have ho : s'.store.taskOutput m = none := by rw [hst, Store.taskOutput_resetTask hw]; simp
  have hs : ∀ x, x ≠ m → Same s s' x := fun x hx =>
    ⟨by rw [hst, Store.taskOutput_resetTask hw, if_neg hx],
     by rw [hst, Store.outgoingEdges_resetTask hw, if_neg hx]⟩
  have hmono : ∀ x ∈ s.consistent, x ∈ s'.consistent := fun x hx => hcons ▸ hx
  have hsame : ∀ x ∈ s.consistent, Same s s' x := fun x hx =>
    hs x (fun hxm => hm (hxm ▸ hx))
  have htrm : ∀ e ∈ s.trace, e ∈ s'.trace := fun e he => by
    rw [htr]; exact List.mem_append_left _ he
  refine ⟨⟨⟨hwf, hst ▸ h.roles.resetTask m, ?_, hfs ▸ h.nodup, ?_, ?_, ?_, ?_, ?_⟩, hmono, hsame, hle,
    htrm⟩, hs, by rw [hst, Store.outgoingEdges_resetTask hw]; simp⟩
  · refine h.faithful.of_mod hle (fun x => ?_)
    by_cases hx : x = m
    · subst hx; exact .inr (.of_none ho)
    · exact .inl (hs x hx)
  · intro n hn
    rw [hcons] at hn
    obtain ⟨t', o, ws, ht', ho', hd, hD', hf, hc⟩ := h.sound n hn
    exact ⟨t', o, ws, hle.task _ _ ht', by rw [(hsame n hn).1]; exact ho', hd, hD',
      by rw [hfs]; exact hf, fun u hu => (hc u hu).mono hmono hle⟩
  · intro n hn
    rw [hcur] at hn; cases hn; exact ho
  · intro n t' hn ht'
    rw [hcur] at hn; cases hn
    have := hle.task _ _ ht
    rw [ht'] at this; cases this
    rw [htr]; simp
  · intro r hr
    rw [hfs]
    exact h.untouched r (fun w hw hmem => hr w hw (htrm _ hmem))
  · intro x hx
    rw [htr] at hx
    rcases List.mem_append.mp hx with hx | hx
    · obtain ⟨hDx, hx'⟩ := h.executed x hx
      refine ⟨hDx, ?_⟩
      rcases hx' with hx' | ⟨c, tc, hc', htc, hrk⟩
      · exact .inl (hx'.mono hmono hle)
      · obtain ⟨t0, ht0, hlt⟩ := hpre c hc'
        rw [htc] at ht0; cases ht0
        exact .inr ⟨m, t, hcur, hle.task _ _ ht, Nat.le_trans hrk (Nat.le_of_lt hlt)⟩
    · simp only [List.mem_singleton, Ev.executeStart.injEq] at hx
      rw [hx]
      exact ⟨hD, .inr ⟨m, t, hcur, hle.task _ _ ht, Nat.le_refl _⟩⟩

/-- End of the execution of task `t` (node `m`): the output is stored, the previous executing
task is restored, and `m` is marked consistent. -/
theorem SInvCvD.endExecMark {s s' : Sess} (h : SInvCvD cr sem body fs₀ D s) {m t : Nat} {o : Int}
    {ws : Writes} {prev : Option Nat}
    (hc : s.cur = some m) (ht : s.store.taskOf m = some t)
    (hrep : ReplayO sem (body t) [] (s.store.depsFrom m) o)
    (hd : DenCv cr.toRoles sem body fs₀ t (o, ws)) (hD : D t)
    (hf : ∀ r, cr.gen r = some t → aget s.fs r = (wget ws r).getD (aget fs₀ r))
    (hcalls : ∀ u, CallsCv cr.toRoles sem body fs₀ t u → ConsT s u)
    (hcov : ∀ u ∈ cr.cov t, CovEdge cr s.store m u)
    (hst : s'.store = s.store.setTaskOutput m o) (hfs : s'.fs = s.fs)
    (hcons : ∀ x, x ∈ s'.consistent ↔ x ∈ s.consistent ∨ x = m)
    (hcur : s'.cur = prev) (hwf : SessWF s')
    (htr : ∀ e ∈ s.trace, e ∈ s'.trace)
    (hex : ∀ x, Ev.executeStart x ∈ s'.trace → Ev.executeStart x ∈ s.trace)
    (hprev : ∀ c, prev = some c → c ≠ m ∧ s.store.taskOutput c = none ∧
      ∀ tc, s.store.taskOf c = some tc → Ev.executeStart tc ∈ s.trace)
    (hexec : ∀ x, Ev.executeStart x ∈ s.trace → x = t ∨ ConsT s x ∨
      ∃ c tc, prev = some c ∧ s.store.taskOf c = some tc ∧ cr.rank x ≤ cr.rank tc) :
    SStepCv cr sem body fs₀ D s s' ∧ (∀ x, x ≠ m → Same s s' x) ∧
      s'.store.taskOutput m = some o ∧
      s'.store.g.outgoingEdges m = s.store.g.outgoingEdges m := by
  have hle : s.store.Le s'.store := hst ▸ Store.le_setTaskOutput _ m o
  have hm : m ∉ s.consistent := h.cur_not_consistent hc
  have hs : ∀ x, x ≠ m → Same s s' x := fun x hx =>
    ⟨by rw [hst, Store.taskOutput_setTaskOutput_of_ne hx], by rw [hst]; simp⟩
  have hom : s'.store.taskOutput m = some o := by
    rw [hst]; exact Store.taskOutput_setTaskOutput_self ht o
  have hmono : ∀ x ∈ s.consistent, x ∈ s'.consistent := fun x hx => (hcons x).mpr (.inl hx)
  have hsame : ∀ x ∈ s.consistent, Same s s' x := fun x hx => hs x (fun hxm => hm (hxm ▸ hx))
  have hconsm : ConsT s' t := ⟨m, (hcons m).mpr (.inr rfl), hle.task _ _ ht⟩
  refine ⟨⟨⟨hwf, hst ▸ h.roles.setTaskOutput o ht hcov, ?_, hfs ▸ h.nodup, ?_, ?_, ?_, ?_, ?_⟩, hmono, hsame,
    hle, htr⟩, hs, hom, by rw [hst]; simp⟩
  · refine h.faithful.of_mod hle (fun x => ?_)
    by_cases hx : x = m
    · subst hx
      refine .inr ?_
      intro t' v ht' hv
      have := hle.task _ _ ht
      rw [ht'] at this; cases this
      rw [hom] at hv; cases hv
      rw [hst, Store.depsFrom_setTaskOutput]
      exact hrep
    · exact .inl (hs x hx)
  · intro n hn
    rcases (hcons n).mp hn with hn | rfl
    · obtain ⟨t', o', ws', ht', ho', hd', hD', hf', hc'⟩ := h.sound n hn
      exact ⟨t', o', ws', hle.task _ _ ht', by rw [(hsame n hn).1]; exact ho', hd', hD',
        by rw [hfs]; exact hf', fun u hu => (hc' u hu).mono hmono hle⟩
    · exact ⟨t, o, ws, hle.task _ _ ht, hom, hd, hD, by rw [hfs]; exact hf,
        fun u hu => (hcalls u hu).mono hmono hle⟩
  · intro n hn
    rw [hcur] at hn
    obtain ⟨h1, h2, _⟩ := hprev n hn
    rw [(hs n h1).1]; exact h2
  · intro n tc hn htc
    rw [hcur] at hn
    obtain ⟨h1, _, h3⟩ := hprev n hn
    obtain ⟨tc0, htc0⟩ : ∃ tc0, s.store.taskOf n = some tc0 := by
      cases hq : s.store.taskOf n with
      | some x => exact ⟨x, rfl⟩
      | none =>
        rw [hst, Store.taskOf_setTaskOutput, hq] at htc; cases htc
    have := hle.task _ _ htc0
    rw [htc] at this; cases this
    exact htr _ (h3 tc htc0)
  · intro r hr
    rw [hfs]
    exact h.untouched r (fun w hw hmem => hr w hw (htr _ hmem))
  · intro x hx
    have hx0 := hex x hx
    refine ⟨(h.executed x hx0).1, ?_⟩
    rcases hexec x hx0 with rfl | h1 | ⟨c, tc, h1, h2, h3⟩
    · exact .inl hconsm
    · exact .inl (h1.mono hmono hle)
    · exact .inr ⟨c, tc, by rw [hcur]; exact h1, hle.task _ _ h2, h3⟩

end PieModel.TransSound
