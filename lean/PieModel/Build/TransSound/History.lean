/-
Soundness of the top-down build with writes under TRANSITIVE static roles (`WellFormedCov`;
adapted from `SoundW/History.lean`: `CovInv` for `RolesInv`, `DenCv` for `Den`, the cover argument for
the direct edge reader → generator): whole sessions on a `Pie` (the invariants persist,
whatever the result), the link to the model's own clean build, and histories of external
changes and sessions.
-/
import PieModel.Build.TransSound.Session
import PieModel.Build.SoundW.History
import PieModel.Build.TransRoles.TopDown

namespace PieModel.TransSound
open PieModel.TransRoles

variable {cr : CRoles} {sem : Sem} {body : Nat → Prog}

/-- The invariants persist over a session, whatever its result. -/
theorem PieInvCv.session (hst : StampTotal sem) (hwf : WellFormedCov cr body)
    (hresp : ∀ t, Respects sem (body t)) (hone : ∀ t, OneChecker (body t))
    (hwe : ∀ t, WriteExact sem (body t)) {p : PieSt} (h : PieInvCv cr sem body p) (f : Nat)
    (roots : List Nat) : PieInvCv cr sem body (requireAll sem body f p.newSession roots).1.toPie := by
  have hs : SInvCvD cr sem body p.fs (fun _ => True) p.newSession := SInvCvD.newSession h
  have hr := requireAll_trans (G := False) (B := False) (sem := sem) hwf False.elim f roots hs.wf
    hs.roles False.elim
  have ho := requireAll_outcomeCv (fs₀ := p.fs) (D := fun _ => True) hst hwf hresp hone hwe
    (fun _ _ _ _ => trivial) f roots p.newSession hs rfl (fun _ _ => trivial)
  exact ⟨hr.rext.wf.store, hr.rext.inv, ho.faithful, requireAll_fsKeys sem body f roots _ h.nodup⟩

/-- The invariants persist over an external change of a resource. -/
theorem PieInvCv.setContent {p : PieSt} (h : PieInvCv cr sem body p) (r : Nat) (v : Option Int) :
    PieInvCv cr sem body (p.setContent r v) := by
  cases v with
  | some x => exact ⟨h.wf, h.roles, h.faithful, akeys_aset_nodup p.fs r x h.nodup⟩
  | none => exact ⟨h.wf, h.roles, h.faithful, akeys_aerase_nodup p.fs r h.nodup⟩

section
variable (hst : StampTotal sem) (hwf : WellFormedCov cr body)
  (hresp : ∀ t, Respects sem (body t)) (hone : ∀ t, OneChecker (body t))
  (hwe : ∀ t, WriteExact sem (body t))
include hst hwf hresp hone hwe

/-- **One returning session**: the outputs are the from-scratch outputs of the roots, the final
resource state is the start state overlaid by the from-scratch writes of the demanded tasks, and
the session invariant holds at the end with `D` the demanded set (so every task made consistent
or executed is demanded). -/
theorem session_fullCv {p : PieSt} (h : PieInvCv cr sem body p) (f : Nat) (roots : List Nat)
    {s' : Sess} {os : List Int} (hr : requireAll sem body f p.newSession roots = (s', .ok os)) :
    SInvCvD cr sem body p.fs (DemandedCv cr.toRoles sem body p.fs roots) s' ∧ s'.cur = none ∧
    List.Forall₂ (fun t o => ∃ ws, DenCv cr.toRoles sem body p.fs t (o, ws)) roots os ∧
    ∀ r, aget s'.fs r = overlayCv cr.toRoles sem body p.fs (DemandedCv cr.toRoles sem body p.fs roots) r := by
  have hs : SInvCvD cr sem body p.fs (DemandedCv cr.toRoles sem body p.fs roots) p.newSession :=
    SInvCvD.newSession h
  obtain ⟨st, hc, hall, hcons⟩ := (requireAll_outcomeCv (fs₀ := p.fs) hst hwf hresp hone hwe
    (DemandedCv.closed roots) f roots p.newSession hs rfl (fun t ht => .root ht)).ok s' os hr
  exact ⟨st.inv, hc, hall, st.inv.fs_overlay hwf hc (fun t ht => st.inv.demanded_cons hcons ht)⟩

/-- The model's own clean build computes the from-scratch semantics: outputs and final resource
state. -/
theorem cleanBuild_fullCv (f : Nat) (fs : List (Nat × Int)) (hn : (akeys fs).Nodup)
    (roots : List Nat) {s : Sess} {os : List Int}
    (hr : cleanBuild sem body f fs roots = (s, .ok os)) :
    List.Forall₂ (fun t o => ∃ ws, DenCv cr.toRoles sem body fs t (o, ws)) roots os ∧
    ∀ r, aget s.fs r = overlayCv cr.toRoles sem body fs (DemandedCv cr.toRoles sem body fs roots) r := by
  have := session_fullCv hst hwf hresp hone hwe (p := { fs := fs }) (PieInvCv.fresh hn) f roots hr
  exact ⟨this.2.2.1, this.2.2.2⟩

end

/-- Two output lists that are both from-scratch outputs of the same roots are equal. -/
theorem forall₂_denCv_unique {fs : List (Nat × Int)} {roots : List Nat} {os os' : List Int}
    (h1 : List.Forall₂ (fun t o => ∃ ws, DenCv cr.toRoles sem body fs t (o, ws)) roots os)
    (h2 : List.Forall₂ (fun t o => ∃ ws, DenCv cr.toRoles sem body fs t (o, ws)) roots os') : os = os' := by
  induction h1 generalizing os' with
  | nil => cases h2; rfl
  | cons ha _ ih =>
    cases h2 with
    | cons hb hbs =>
      obtain ⟨ws, hd⟩ := ha
      obtain ⟨ws', hd'⟩ := hb
      have := DenCv.det hd hd'; cases this
      rw [ih hbs]

/-! ### histories -/

/-- What is claimed of a log entry. -/
def SessLogSoundCv (cr : CRoles) (sem : Sem) (body : Nat → Prog) (e : SessLog) : Prop :=
  List.Forall₂ (fun t o => ∃ ws, DenCv cr.toRoles sem body e.before t (o, ws)) e.roots e.outs ∧
  (∀ r, aget e.after r =
    overlayCv cr.toRoles sem body e.before (DemandedCv cr.toRoles sem body e.before e.roots) r) ∧
  (∀ t, Ev.executeStart t ∈ e.trace → DemandedCv cr.toRoles sem body e.before e.roots t) ∧
  (akeys e.before).Nodup

theorem runStepsCv_sound (hst : StampTotal sem) (hwf : WellFormedCov cr body)
    (hresp : ∀ t, Respects sem (body t)) (hone : ∀ t, OneChecker (body t))
    (hwe : ∀ t, WriteExact sem (body t)) (fuel : Nat) (steps : List TStep) :
    ∀ p : PieSt, PieInvCv cr sem body p →
    PieInvCv cr sem body (runStepsW sem body fuel p steps).1 ∧
    ∀ e ∈ (runStepsW sem body fuel p steps).2, SessLogSoundCv cr sem body e := by
  induction steps with
  | nil => intro p h; exact ⟨h, fun e he => (nomatch he)⟩
  | cons st rest ih =>
    intro p h
    cases st with
    | change r v => unfold runStepsW; exact ih _ (h.setContent r v)
    | session roots =>
      unfold runStepsW
      have h1 := h.session hst hwf hresp hone hwe fuel roots
      obtain ⟨h2, h3⟩ := ih _ h1
      refine ⟨h2, fun e he => ?_⟩
      rcases List.mem_append.mp he with he | he
      · generalize hR : requireAll sem body fuel p.newSession roots = R at he
        obtain ⟨s', res⟩ := R
        cases res with
        | abort a => simp [sessLog] at he
        | ok os =>
          simp only [sessLog, List.mem_singleton] at he
          subst he
          obtain ⟨hinv, _, hall, hfs⟩ := session_fullCv hst hwf hresp hone hwe h fuel roots hR
          exact ⟨hall, hfs, fun t ht => (hinv.executed t ht).1, h.nodup⟩
      · exact h3 e he

end PieModel.TransSound
