/-
Frame / effect lemmas for the `Store` operations that touch nodes:
`getOrCreateTaskNode`, `getOrCreateResNode`, `setTaskOutput`, `resetTask`.
Every lemma is an equation "observation after = expression in observations before" (usable by
`rw`/`simp`), plus preservation of `Store.WF`.
-/
import PieModel.Build.StoreWF

namespace PieModel
namespace Store
variable {st : Store}

/-! ### `getOrCreateTaskNode` -/

/-- The store after registering the new task `t` (the `none` branch of `getOrCreateTaskNode`). -/
def withNewTask (st : Store) (t : Nat) : Store :=
  { st with g := (st.g.addNode (.task t none)).1, taskNode := st.taskNode ++ [(t, st.g.next)] }

/-- The store after registering the new resource `r`. -/
def withNewRes (st : Store) (r : Nat) : Store :=
  { st with g := (st.g.addNode (.res r)).1, resNode := st.resNode ++ [(r, st.g.next)] }

/-- Existing task: the store is unchanged and the registered node is returned. -/
theorem getOrCreateTaskNode_of_some {t n : Nat} (h : aget st.taskNode t = some n) :
    st.getOrCreateTaskNode t = (st, n) := by simp [getOrCreateTaskNode, h]

/-- New task: a fresh node `st.g.next` is allocated and registered. -/
theorem getOrCreateTaskNode_of_none {t : Nat} (h : aget st.taskNode t = none) :
    st.getOrCreateTaskNode t = (st.withNewTask t, st.g.next) := by
  simp [getOrCreateTaskNode, h, withNewTask, Dag.addNode]

theorem getOrCreateResNode_of_some {r n : Nat} (h : aget st.resNode r = some n) :
    st.getOrCreateResNode r = (st, n) := by simp [getOrCreateResNode, h]

theorem getOrCreateResNode_of_none {r : Nat} (h : aget st.resNode r = none) :
    st.getOrCreateResNode r = (st.withNewRes r, st.g.next) := by
  simp [getOrCreateResNode, h, withNewRes, Dag.addNode]

/-- The two cases of `getOrCreateTaskNode` under `WF`. -/
theorem getOrCreateTaskNode_cases (h : st.WF) (t : Nat) :
    (∃ n, aget st.taskNode t = some n ∧ st.taskOf n = some t ∧
      st.getOrCreateTaskNode t = (st, n)) ∨
    (aget st.taskNode t = none ∧ st.g.containsNode st.g.next = false ∧
      st.getOrCreateTaskNode t = (st.withNewTask t, st.g.next)) := by
  cases h1 : aget st.taskNode t with
  | some n => exact .inl ⟨n, rfl, (h.task_iff t n).mp h1, getOrCreateTaskNode_of_some h1⟩
  | none => exact .inr ⟨rfl, h.gwf.not_live_next, getOrCreateTaskNode_of_none h1⟩

theorem getOrCreateResNode_cases (h : st.WF) (r : Nat) :
    (∃ n, aget st.resNode r = some n ∧ st.resOf n = some r ∧
      st.getOrCreateResNode r = (st, n)) ∨
    (aget st.resNode r = none ∧ st.g.containsNode st.g.next = false ∧
      st.getOrCreateResNode r = (st.withNewRes r, st.g.next)) := by
  cases h1 : aget st.resNode r with
  | some n => exact .inl ⟨n, rfl, (h.res_iff r n).mp h1, getOrCreateResNode_of_some h1⟩
  | none => exact .inr ⟨rfl, h.gwf.not_live_next, getOrCreateResNode_of_none h1⟩

/-! #### the new-node stores -/

section New
variable (h : st.WF) (t r : Nat)
include h

theorem getNodeData_withNewTask (x : Nat) : (st.withNewTask t).g.getNodeData x =
    if x = st.g.next then some (.task t none) else st.g.getNodeData x :=
  Dag.getNodeData_addNode _ h.gwf x

theorem getNodeData_withNewRes (x : Nat) : (st.withNewRes r).g.getNodeData x =
    if x = st.g.next then some (.res r) else st.g.getNodeData x :=
  Dag.getNodeData_addNode _ h.gwf x

theorem taskOf_withNewTask (x : Nat) :
    (st.withNewTask t).taskOf x = if x = st.g.next then some t else st.taskOf x := by
  unfold taskOf; rw [getNodeData_withNewTask h]; by_cases hx : x = st.g.next <;> simp [hx]

theorem resOf_withNewTask (x : Nat) : (st.withNewTask t).resOf x = st.resOf x := by
  unfold resOf; rw [getNodeData_withNewTask h]
  by_cases hx : x = st.g.next
  · subst hx; simp [Dag.getNodeData_of_not_live _ h.gwf.not_live_next]
  · simp [hx]

theorem taskOutput_withNewTask (x : Nat) : (st.withNewTask t).taskOutput x = st.taskOutput x := by
  unfold taskOutput; rw [getNodeData_withNewTask h]
  by_cases hx : x = st.g.next
  · subst hx; simp [Dag.getNodeData_of_not_live _ h.gwf.not_live_next]
  · simp [hx]

theorem taskOf_withNewRes (x : Nat) : (st.withNewRes r).taskOf x = st.taskOf x := by
  unfold taskOf; rw [getNodeData_withNewRes h]
  by_cases hx : x = st.g.next
  · subst hx; simp [Dag.getNodeData_of_not_live _ h.gwf.not_live_next]
  · simp [hx]

theorem resOf_withNewRes (x : Nat) :
    (st.withNewRes r).resOf x = if x = st.g.next then some r else st.resOf x := by
  unfold resOf; rw [getNodeData_withNewRes h]; by_cases hx : x = st.g.next <;> simp [hx]

theorem taskOutput_withNewRes (x : Nat) : (st.withNewRes r).taskOutput x = st.taskOutput x := by
  unfold taskOutput; rw [getNodeData_withNewRes h]
  by_cases hx : x = st.g.next
  · subst hx; simp [Dag.getNodeData_of_not_live _ h.gwf.not_live_next]
  · simp [hx]

omit h in
theorem aget_taskNode_withNewTask (ht : aget st.taskNode t = none) (t' : Nat) :
    aget (st.withNewTask t).taskNode t' = if t' = t then some st.g.next else aget st.taskNode t' := by
  simp only [withNewTask, aget_append]
  by_cases h' : t' = t
  · subst h'; simp [ht]
  · simp [h', Ne.symm h']

omit h in
theorem aget_resNode_withNewRes (hr : aget st.resNode r = none) (r' : Nat) :
    aget (st.withNewRes r).resNode r' = if r' = r then some st.g.next else aget st.resNode r' := by
  simp only [withNewRes, aget_append]
  by_cases h' : r' = r
  · subst h'; simp [hr]
  · simp [h', Ne.symm h']

theorem WF.withNewTask (ht : aget st.taskNode t = none) : (st.withNewTask t).WF := by
  have hnl := h.gwf.not_live_next
  refine ⟨Dag.inv_addNode h.inv _, ?_, h.res_keys, ?_, ?_, ?_, ?_⟩
  · show (akeys (st.taskNode ++ [(t, st.g.next)])).Nodup
    rw [akeys_append, List.nodup_append]
    refine ⟨h.task_keys, by simp, ?_⟩
    intro a ha b hb
    simp at hb; subst hb; rintro rfl
    exact (aget_eq_none_iff _ _).mp ht ha
  · intro t' n
    rw [aget_taskNode_withNewTask t ht, taskOf_withNewTask h]
    by_cases h1 : t' = t
    · subst h1
      by_cases h2 : n = st.g.next
      · simp [h2]
      · have := (h.aget_taskNode_eq_none_iff t').mp ht n
        simp [h2, Ne.symm h2, this]
    · by_cases h2 : n = st.g.next
      · subst h2
        simp only [h1, if_false, if_true, Option.some.injEq, Ne.symm h1, iff_false]
        intro h3
        have := h.taskNode_live h3
        rw [hnl] at this; cases this
      · simp only [h1, h2, if_false]; exact h.task_iff t' n
  · intro r' n
    rw [resOf_withNewTask h]; exact h.res_iff r' n
  · intro s d dep he
    obtain ⟨t0, h0⟩ := h.edge_src s d dep he
    rw [taskOf_withNewTask h]
    by_cases hs : s = st.g.next
    · exact ⟨t, by simp [hs]⟩
    · exact ⟨t0, by simp [hs, h0]⟩
  · intro s d dep he
    have hd := h.edge_dst s d dep he
    have hdl : d ≠ st.g.next := by
      rintro rfl
      have := (h.gwf.getEdgeData_live he).2
      rw [hnl] at this; cases this
    refine DepOK.mono ?_ ?_ hd
    · intro t0 h0; rw [taskOf_withNewTask h, if_neg hdl]; exact h0
    · intro r0 h0; rw [resOf_withNewTask h]; exact h0

theorem WF.withNewRes (hr : aget st.resNode r = none) : (st.withNewRes r).WF := by
  have hnl := h.gwf.not_live_next
  refine ⟨Dag.inv_addNode h.inv _, h.task_keys, ?_, ?_, ?_, ?_, ?_⟩
  · show (akeys (st.resNode ++ [(r, st.g.next)])).Nodup
    rw [akeys_append, List.nodup_append]
    refine ⟨h.res_keys, by simp, ?_⟩
    intro a ha b hb
    simp at hb; subst hb; rintro rfl
    exact (aget_eq_none_iff _ _).mp hr ha
  · intro t' n
    rw [taskOf_withNewRes h]; exact h.task_iff t' n
  · intro r' n
    rw [aget_resNode_withNewRes r hr, resOf_withNewRes h]
    by_cases h1 : r' = r
    · subst h1
      by_cases h2 : n = st.g.next
      · simp [h2]
      · have := (h.aget_resNode_eq_none_iff r').mp hr n
        simp [h2, Ne.symm h2, this]
    · by_cases h2 : n = st.g.next
      · subst h2
        simp only [h1, if_false, if_true, Option.some.injEq, Ne.symm h1, iff_false]
        intro h3
        have := h.resNode_live h3
        rw [hnl] at this; cases this
      · simp only [h1, h2, if_false]; exact h.res_iff r' n
  · intro s d dep he
    obtain ⟨t0, h0⟩ := h.edge_src s d dep he
    exact ⟨t0, by rw [taskOf_withNewRes h]; exact h0⟩
  · intro s d dep he
    have hd := h.edge_dst s d dep he
    have hdl : d ≠ st.g.next := by
      rintro rfl
      have := (h.gwf.getEdgeData_live he).2
      rw [hnl] at this; cases this
    refine DepOK.mono ?_ ?_ hd
    · intro t0 h0; rw [taskOf_withNewRes h]; exact h0
    · intro r0 h0; rw [resOf_withNewRes h, if_neg hdl]; exact h0

end New

/-! #### `getOrCreateTaskNode`: what it does (both cases at once)

Only two observations change: `taskOf` (at the returned node) and `aget taskNode` (at `t`).
In particular `taskOutput`, `resOf` and all edge observations are unchanged for **every** node:
a fresh node was not live before, so all its observations were empty already. -/

section GetTask
variable (h : st.WF) (t : Nat)
include h

theorem WF.getOrCreateTaskNode : (st.getOrCreateTaskNode t).1.WF := by
  rcases getOrCreateTaskNode_cases h t with ⟨n, _, _, h3⟩ | ⟨h1, _, h3⟩ <;> rw [h3]
  · exact h
  · exact h.withNewTask t h1

/-- A new task gets the fresh node `st.g.next`, which was not live before. -/
theorem getOrCreateTaskNode_snd_of_none (ht : aget st.taskNode t = none) :
    (st.getOrCreateTaskNode t).2 = st.g.next ∧
      st.g.containsNode (st.getOrCreateTaskNode t).2 = false := by
  rw [getOrCreateTaskNode_of_none ht]; exact ⟨rfl, h.gwf.not_live_next⟩

theorem getOrCreateTaskNode_fresh_iff :
    st.g.containsNode (st.getOrCreateTaskNode t).2 = false ↔ aget st.taskNode t = none := by
  rcases getOrCreateTaskNode_cases h t with ⟨n, h1, h2, h3⟩ | ⟨h1, h2, h3⟩ <;> rw [h3]
  · simp [h1, live_of_taskOf h2]
  · simp [h1, h2]

theorem taskOf_getOrCreateTaskNode (x : Nat) :
    (st.getOrCreateTaskNode t).1.taskOf x =
      if x = (st.getOrCreateTaskNode t).2 then some t else st.taskOf x := by
  rcases getOrCreateTaskNode_cases h t with ⟨n, _, h2, h3⟩ | ⟨_, _, h3⟩ <;> rw [h3]
  · by_cases hx : x = n <;> simp [hx, h2]
  · exact taskOf_withNewTask h t x

/-- The returned node is the node of `t`. -/
theorem taskOf_getOrCreateTaskNode_self :
    (st.getOrCreateTaskNode t).1.taskOf (st.getOrCreateTaskNode t).2 = some t := by
  rw [taskOf_getOrCreateTaskNode h]; simp

theorem resOf_getOrCreateTaskNode (x : Nat) :
    (st.getOrCreateTaskNode t).1.resOf x = st.resOf x := by
  rcases getOrCreateTaskNode_cases h t with ⟨n, _, _, h3⟩ | ⟨_, _, h3⟩ <;> rw [h3]
  exact resOf_withNewTask h t x

theorem taskOutput_getOrCreateTaskNode (x : Nat) :
    (st.getOrCreateTaskNode t).1.taskOutput x = st.taskOutput x := by
  rcases getOrCreateTaskNode_cases h t with ⟨n, _, _, h3⟩ | ⟨_, _, h3⟩ <;> rw [h3]
  exact taskOutput_withNewTask h t x

theorem aget_taskNode_getOrCreateTaskNode (t' : Nat) :
    aget (st.getOrCreateTaskNode t).1.taskNode t' =
      if t' = t then some (st.getOrCreateTaskNode t).2 else aget st.taskNode t' := by
  rcases getOrCreateTaskNode_cases h t with ⟨n, h1, _, h3⟩ | ⟨h1, _, h3⟩ <;> rw [h3]
  · by_cases ht : t' = t <;> simp [ht, h1]
  · exact aget_taskNode_withNewTask t h1 t'

theorem aget_taskNode_getOrCreateTaskNode_self :
    aget (st.getOrCreateTaskNode t).1.taskNode t = some (st.getOrCreateTaskNode t).2 := by
  rw [aget_taskNode_getOrCreateTaskNode h]; simp

omit h in
theorem resNode_getOrCreateTaskNode : (st.getOrCreateTaskNode t).1.resNode = st.resNode := by
  unfold Store.getOrCreateTaskNode; split <;> rfl

/-- Idempotent. -/
theorem getOrCreateTaskNode_idem :
    (st.getOrCreateTaskNode t).1.getOrCreateTaskNode t = st.getOrCreateTaskNode t :=
  getOrCreateTaskNode_of_some (aget_taskNode_getOrCreateTaskNode_self h t)

theorem containsNode_getOrCreateTaskNode (x : Nat) :
    (st.getOrCreateTaskNode t).1.g.containsNode x =
      (decide (x = (st.getOrCreateTaskNode t).2) || st.g.containsNode x) := by
  rcases getOrCreateTaskNode_cases h t with ⟨n, _, h2, h3⟩ | ⟨_, _, h3⟩ <;> rw [h3]
  · by_cases hx : x = n
    · subst hx; simp [live_of_taskOf h2]
    · simp [hx]
  · exact Dag.containsNode_addNode _ h.gwf x

theorem getEdgeData_getOrCreateTaskNode (a b : Nat) :
    (st.getOrCreateTaskNode t).1.g.getEdgeData a b = st.g.getEdgeData a b := by
  rcases getOrCreateTaskNode_cases h t with ⟨n, _, _, h3⟩ | ⟨_, _, h3⟩ <;> rw [h3]; rfl

theorem childrenOf_getOrCreateTaskNode (x : Nat) :
    (st.getOrCreateTaskNode t).1.g.childrenOf x = st.g.childrenOf x := by
  rcases getOrCreateTaskNode_cases h t with ⟨n, _, _, h3⟩ | ⟨_, _, h3⟩ <;> rw [h3]
  exact Dag.childrenOf_addNode _ h.gwf x

theorem parentsOf_getOrCreateTaskNode (x : Nat) :
    (st.getOrCreateTaskNode t).1.g.parentsOf x = st.g.parentsOf x := by
  rcases getOrCreateTaskNode_cases h t with ⟨n, _, _, h3⟩ | ⟨_, _, h3⟩ <;> rw [h3]
  exact Dag.parentsOf_addNode _ h.gwf x

/-- Ranks of the nodes that were live are unchanged. -/
theorem topoOf_getOrCreateTaskNode {x : Nat} (hx : st.g.containsNode x = true) :
    (st.getOrCreateTaskNode t).1.g.topoOf x = st.g.topoOf x := by
  rcases getOrCreateTaskNode_cases h t with ⟨n, _, _, h3⟩ | ⟨_, h2, h3⟩ <;> rw [h3]
  have : x ≠ st.g.next := by rintro rfl; rw [h2] at hx; cases hx
  show (st.g.addNode _).1.topoOf x = _
  rw [Dag.topoOf_addNode _ h.gwf, if_neg this]

theorem outgoingEdges_getOrCreateTaskNode (x : Nat) :
    (st.getOrCreateTaskNode t).1.g.outgoingEdges x = st.g.outgoingEdges x := by
  rcases getOrCreateTaskNode_cases h t with ⟨n, _, _, h3⟩ | ⟨_, _, h3⟩ <;> rw [h3]
  exact Dag.outgoingEdges_addNode h.gwf _ x

theorem incomingEdges_getOrCreateTaskNode (x : Nat) :
    (st.getOrCreateTaskNode t).1.g.incomingEdges x = st.g.incomingEdges x := by
  rcases getOrCreateTaskNode_cases h t with ⟨n, _, _, h3⟩ | ⟨_, _, h3⟩ <;> rw [h3]
  exact Dag.incomingEdges_addNode h.gwf _ x

theorem reach_getOrCreateTaskNode (a b : Nat) :
    (st.getOrCreateTaskNode t).1.g.Reach a b ↔ st.g.Reach a b := by
  rcases getOrCreateTaskNode_cases h t with ⟨n, _, _, h3⟩ | ⟨_, _, h3⟩ <;> rw [h3]
  exact Dag.reach_addNode h.gwf _ a b

theorem containsTransitive_getOrCreateTaskNode (a b : Nat) :
    (st.getOrCreateTaskNode t).1.containsTransitive a b = st.containsTransitive a b := by
  rw [Bool.eq_iff_iff, (h.getOrCreateTaskNode t).containsTransitive_iff, h.containsTransitive_iff]
  exact reach_getOrCreateTaskNode h t a b

theorem depsFrom_getOrCreateTaskNode (x : Nat) :
    (st.getOrCreateTaskNode t).1.depsFrom x = st.depsFrom x :=
  (outgoing_obs_congr (outgoingEdges_getOrCreateTaskNode h t x)).1

theorem resourcesWrittenBy_getOrCreateTaskNode (x : Nat) :
    (st.getOrCreateTaskNode t).1.resourcesWrittenBy x = st.resourcesWrittenBy x :=
  (outgoing_obs_congr (outgoingEdges_getOrCreateTaskNode h t x)).2

theorem tasksReadingFrom_getOrCreateTaskNode (x : Nat) :
    (st.getOrCreateTaskNode t).1.tasksReadingFrom x = st.tasksReadingFrom x :=
  (incoming_obs_congr (incomingEdges_getOrCreateTaskNode h t x)).1

theorem writersTo_getOrCreateTaskNode (x : Nat) :
    (st.getOrCreateTaskNode t).1.writersTo x = st.writersTo x :=
  (incoming_obs_congr (incomingEdges_getOrCreateTaskNode h t x)).2.1

theorem taskWritingTo_getOrCreateTaskNode (x : Nat) :
    (st.getOrCreateTaskNode t).1.taskWritingTo x = st.taskWritingTo x :=
  (incoming_obs_congr (incomingEdges_getOrCreateTaskNode h t x)).2.2.1

theorem readDepsTo_getOrCreateTaskNode (x : Nat) :
    (st.getOrCreateTaskNode t).1.readDepsTo x = st.readDepsTo x :=
  (incoming_obs_congr (incomingEdges_getOrCreateTaskNode h t x)).2.2.2.1

theorem readWriteDepsTo_getOrCreateTaskNode (x : Nat) :
    (st.getOrCreateTaskNode t).1.readWriteDepsTo x = st.readWriteDepsTo x :=
  (incoming_obs_congr (incomingEdges_getOrCreateTaskNode h t x)).2.2.2.2.1

theorem requireDepsTo_getOrCreateTaskNode (x : Nat) :
    (st.getOrCreateTaskNode t).1.requireDepsTo x = st.requireDepsTo x :=
  (incoming_obs_congr (incomingEdges_getOrCreateTaskNode h t x)).2.2.2.2.2

/-- A new task node has no output, no dependencies and no incoming edges. -/
theorem getOrCreateTaskNode_new_empty (ht : aget st.taskNode t = none) :
    (st.getOrCreateTaskNode t).1.taskOutput (st.getOrCreateTaskNode t).2 = none ∧
    (st.getOrCreateTaskNode t).1.depsFrom (st.getOrCreateTaskNode t).2 = [] ∧
    (st.getOrCreateTaskNode t).1.g.outgoingEdges (st.getOrCreateTaskNode t).2 = [] ∧
    (st.getOrCreateTaskNode t).1.g.incomingEdges (st.getOrCreateTaskNode t).2 = [] := by
  have hnl := (getOrCreateTaskNode_snd_of_none h t ht).2
  rw [taskOutput_getOrCreateTaskNode h, depsFrom_getOrCreateTaskNode h,
    outgoingEdges_getOrCreateTaskNode h, incomingEdges_getOrCreateTaskNode h]
  refine ⟨taskOutput_of_not_live hnl, ?_, Dag.outgoingEdges_of_not_live _ hnl,
    Dag.incomingEdges_of_not_live _ hnl⟩
  simp [depsFrom, Dag.outgoingEdgeData, Dag.outgoingEdges_of_not_live _ hnl]

end GetTask

/-! #### `getOrCreateResNode`: what it does (both cases at once)

Only two observations change: `resOf` (at the returned node) and `aget resNode` (at `r`).
In particular `taskOutput`, `taskOf` and all edge observations are unchanged for **every** node:
a fresh node was not live before, so all its observations were empty already. -/

section GetRes
variable (h : st.WF) (r : Nat)
include h

theorem WF.getOrCreateResNode : (st.getOrCreateResNode r).1.WF := by
  rcases getOrCreateResNode_cases h r with ⟨n, _, _, h3⟩ | ⟨h1, _, h3⟩ <;> rw [h3]
  · exact h
  · exact h.withNewRes r h1

/-- A new resource gets the fresh node `st.g.next`, which was not live before. -/
theorem getOrCreateResNode_snd_of_none (hr : aget st.resNode r = none) :
    (st.getOrCreateResNode r).2 = st.g.next ∧
      st.g.containsNode (st.getOrCreateResNode r).2 = false := by
  rw [getOrCreateResNode_of_none hr]; exact ⟨rfl, h.gwf.not_live_next⟩

theorem getOrCreateResNode_fresh_iff :
    st.g.containsNode (st.getOrCreateResNode r).2 = false ↔ aget st.resNode r = none := by
  rcases getOrCreateResNode_cases h r with ⟨n, h1, h2, h3⟩ | ⟨h1, h2, h3⟩ <;> rw [h3]
  · simp [h1, live_of_resOf h2]
  · simp [h1, h2]

theorem resOf_getOrCreateResNode (x : Nat) :
    (st.getOrCreateResNode r).1.resOf x =
      if x = (st.getOrCreateResNode r).2 then some r else st.resOf x := by
  rcases getOrCreateResNode_cases h r with ⟨n, _, h2, h3⟩ | ⟨_, _, h3⟩ <;> rw [h3]
  · by_cases hx : x = n <;> simp [hx, h2]
  · exact resOf_withNewRes h r x

/-- The returned node is the node of `r`. -/
theorem resOf_getOrCreateResNode_self :
    (st.getOrCreateResNode r).1.resOf (st.getOrCreateResNode r).2 = some r := by
  rw [resOf_getOrCreateResNode h]; simp

theorem taskOf_getOrCreateResNode (x : Nat) :
    (st.getOrCreateResNode r).1.taskOf x = st.taskOf x := by
  rcases getOrCreateResNode_cases h r with ⟨n, _, _, h3⟩ | ⟨_, _, h3⟩ <;> rw [h3]
  exact taskOf_withNewRes h r x

theorem taskOutput_getOrCreateResNode (x : Nat) :
    (st.getOrCreateResNode r).1.taskOutput x = st.taskOutput x := by
  rcases getOrCreateResNode_cases h r with ⟨n, _, _, h3⟩ | ⟨_, _, h3⟩ <;> rw [h3]
  exact taskOutput_withNewRes h r x

theorem aget_resNode_getOrCreateResNode (r' : Nat) :
    aget (st.getOrCreateResNode r).1.resNode r' =
      if r' = r then some (st.getOrCreateResNode r).2 else aget st.resNode r' := by
  rcases getOrCreateResNode_cases h r with ⟨n, h1, _, h3⟩ | ⟨h1, _, h3⟩ <;> rw [h3]
  · by_cases hr : r' = r <;> simp [hr, h1]
  · exact aget_resNode_withNewRes r h1 r'

theorem aget_resNode_getOrCreateResNode_self :
    aget (st.getOrCreateResNode r).1.resNode r = some (st.getOrCreateResNode r).2 := by
  rw [aget_resNode_getOrCreateResNode h]; simp

omit h in
theorem taskNode_getOrCreateResNode : (st.getOrCreateResNode r).1.taskNode = st.taskNode := by
  unfold Store.getOrCreateResNode; split <;> rfl

/-- Idempotent. -/
theorem getOrCreateResNode_idem :
    (st.getOrCreateResNode r).1.getOrCreateResNode r = st.getOrCreateResNode r :=
  getOrCreateResNode_of_some (aget_resNode_getOrCreateResNode_self h r)

theorem containsNode_getOrCreateResNode (x : Nat) :
    (st.getOrCreateResNode r).1.g.containsNode x =
      (decide (x = (st.getOrCreateResNode r).2) || st.g.containsNode x) := by
  rcases getOrCreateResNode_cases h r with ⟨n, _, h2, h3⟩ | ⟨_, _, h3⟩ <;> rw [h3]
  · by_cases hx : x = n
    · subst hx; simp [live_of_resOf h2]
    · simp [hx]
  · exact Dag.containsNode_addNode _ h.gwf x

theorem getEdgeData_getOrCreateResNode (a b : Nat) :
    (st.getOrCreateResNode r).1.g.getEdgeData a b = st.g.getEdgeData a b := by
  rcases getOrCreateResNode_cases h r with ⟨n, _, _, h3⟩ | ⟨_, _, h3⟩ <;> rw [h3]; rfl

theorem childrenOf_getOrCreateResNode (x : Nat) :
    (st.getOrCreateResNode r).1.g.childrenOf x = st.g.childrenOf x := by
  rcases getOrCreateResNode_cases h r with ⟨n, _, _, h3⟩ | ⟨_, _, h3⟩ <;> rw [h3]
  exact Dag.childrenOf_addNode _ h.gwf x

theorem parentsOf_getOrCreateResNode (x : Nat) :
    (st.getOrCreateResNode r).1.g.parentsOf x = st.g.parentsOf x := by
  rcases getOrCreateResNode_cases h r with ⟨n, _, _, h3⟩ | ⟨_, _, h3⟩ <;> rw [h3]
  exact Dag.parentsOf_addNode _ h.gwf x

/-- Ranks of the nodes that were live are unchanged. -/
theorem topoOf_getOrCreateResNode {x : Nat} (hx : st.g.containsNode x = true) :
    (st.getOrCreateResNode r).1.g.topoOf x = st.g.topoOf x := by
  rcases getOrCreateResNode_cases h r with ⟨n, _, _, h3⟩ | ⟨_, h2, h3⟩ <;> rw [h3]
  have : x ≠ st.g.next := by rintro rfl; rw [h2] at hx; cases hx
  show (st.g.addNode _).1.topoOf x = _
  rw [Dag.topoOf_addNode _ h.gwf, if_neg this]

theorem outgoingEdges_getOrCreateResNode (x : Nat) :
    (st.getOrCreateResNode r).1.g.outgoingEdges x = st.g.outgoingEdges x := by
  rcases getOrCreateResNode_cases h r with ⟨n, _, _, h3⟩ | ⟨_, _, h3⟩ <;> rw [h3]
  exact Dag.outgoingEdges_addNode h.gwf _ x

theorem incomingEdges_getOrCreateResNode (x : Nat) :
    (st.getOrCreateResNode r).1.g.incomingEdges x = st.g.incomingEdges x := by
  rcases getOrCreateResNode_cases h r with ⟨n, _, _, h3⟩ | ⟨_, _, h3⟩ <;> rw [h3]
  exact Dag.incomingEdges_addNode h.gwf _ x

theorem reach_getOrCreateResNode (a b : Nat) :
    (st.getOrCreateResNode r).1.g.Reach a b ↔ st.g.Reach a b := by
  rcases getOrCreateResNode_cases h r with ⟨n, _, _, h3⟩ | ⟨_, _, h3⟩ <;> rw [h3]
  exact Dag.reach_addNode h.gwf _ a b

theorem containsTransitive_getOrCreateResNode (a b : Nat) :
    (st.getOrCreateResNode r).1.containsTransitive a b = st.containsTransitive a b := by
  rw [Bool.eq_iff_iff, (h.getOrCreateResNode r).containsTransitive_iff, h.containsTransitive_iff]
  exact reach_getOrCreateResNode h r a b

theorem depsFrom_getOrCreateResNode (x : Nat) :
    (st.getOrCreateResNode r).1.depsFrom x = st.depsFrom x :=
  (outgoing_obs_congr (outgoingEdges_getOrCreateResNode h r x)).1

theorem resourcesWrittenBy_getOrCreateResNode (x : Nat) :
    (st.getOrCreateResNode r).1.resourcesWrittenBy x = st.resourcesWrittenBy x :=
  (outgoing_obs_congr (outgoingEdges_getOrCreateResNode h r x)).2

theorem tasksReadingFrom_getOrCreateResNode (x : Nat) :
    (st.getOrCreateResNode r).1.tasksReadingFrom x = st.tasksReadingFrom x :=
  (incoming_obs_congr (incomingEdges_getOrCreateResNode h r x)).1

theorem writersTo_getOrCreateResNode (x : Nat) :
    (st.getOrCreateResNode r).1.writersTo x = st.writersTo x :=
  (incoming_obs_congr (incomingEdges_getOrCreateResNode h r x)).2.1

theorem taskWritingTo_getOrCreateResNode (x : Nat) :
    (st.getOrCreateResNode r).1.taskWritingTo x = st.taskWritingTo x :=
  (incoming_obs_congr (incomingEdges_getOrCreateResNode h r x)).2.2.1

theorem readDepsTo_getOrCreateResNode (x : Nat) :
    (st.getOrCreateResNode r).1.readDepsTo x = st.readDepsTo x :=
  (incoming_obs_congr (incomingEdges_getOrCreateResNode h r x)).2.2.2.1

theorem readWriteDepsTo_getOrCreateResNode (x : Nat) :
    (st.getOrCreateResNode r).1.readWriteDepsTo x = st.readWriteDepsTo x :=
  (incoming_obs_congr (incomingEdges_getOrCreateResNode h r x)).2.2.2.2.1

theorem requireDepsTo_getOrCreateResNode (x : Nat) :
    (st.getOrCreateResNode r).1.requireDepsTo x = st.requireDepsTo x :=
  (incoming_obs_congr (incomingEdges_getOrCreateResNode h r x)).2.2.2.2.2

/-- A new resource node has no output, no dependencies and no incoming edges. -/
theorem getOrCreateResNode_new_empty (hr : aget st.resNode r = none) :
    (st.getOrCreateResNode r).1.taskOutput (st.getOrCreateResNode r).2 = none ∧
    (st.getOrCreateResNode r).1.depsFrom (st.getOrCreateResNode r).2 = [] ∧
    (st.getOrCreateResNode r).1.g.outgoingEdges (st.getOrCreateResNode r).2 = [] ∧
    (st.getOrCreateResNode r).1.g.incomingEdges (st.getOrCreateResNode r).2 = [] := by
  have hnl := (getOrCreateResNode_snd_of_none h r hr).2
  rw [taskOutput_getOrCreateResNode h, depsFrom_getOrCreateResNode h,
    outgoingEdges_getOrCreateResNode h, incomingEdges_getOrCreateResNode h]
  refine ⟨taskOutput_of_not_live hnl, ?_, Dag.outgoingEdges_of_not_live _ hnl,
    Dag.incomingEdges_of_not_live _ hnl⟩
  simp [depsFrom, Dag.outgoingEdgeData, Dag.outgoingEdges_of_not_live _ hnl]

end GetRes

end Store
end PieModel
