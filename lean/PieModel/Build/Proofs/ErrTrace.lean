/-
`errorsOf`: the dependency-check errors visible in a tracker stream, and the relation
`Sess.Ext s s'` ("`s'` extends `s`"): the trace of `s'` is the trace of `s` plus new events, and
the session's dependency-check errors grew by exactly the errors of the new events (and the
resource map kept its keys unique — carried along so that one induction serves both facts).

`Ext` is a preorder; every primitive step of the session satisfies it (this file), hence so do
the top-down and bottom-up interpreters (`TopDownExt.lean`, `BottomUpExt.lean`).
-/
import PieModel.Build.Proofs.SessionLemmas

namespace PieModel

/-- The error carried by a tracker event, if it is the end of a failed resource-dependency check
(top-down `check_resource_end` or bottom-up `check_task_reading_resource_end`). -/
def errOfEv : Ev → List Int
  | .checkResEnd _ _ _ (.error e) => [e]
  | .checkReadEnd _ _ _ (.error e) => [e]
  | _ => []

/-- All dependency-check errors of a trace, in order. -/
def errorsOf (tr : List Ev) : List Int := tr.flatMap errOfEv

@[simp] theorem errorsOf_nil : errorsOf [] = [] := rfl
@[simp] theorem errorsOf_append (a b : List Ev) : errorsOf (a ++ b) = errorsOf a ++ errorsOf b := by
  simp [errorsOf]
@[simp] theorem errorsOf_cons (e : Ev) (b : List Ev) : errorsOf (e :: b) = errOfEv e ++ errorsOf b := by
  simp [errorsOf]
theorem errorsOf_singleton (e : Ev) : errorsOf [e] = errOfEv e := by simp

/-- The invariant of C18: the session's error list is exactly the errors of its trace. -/
def Sess.ErrInv (s : Sess) : Prop := s.errors = errorsOf s.trace

/-- `s'` extends `s`: the trace grew by some events, `errors` grew by exactly the errors of those
events, and the resource map kept its keys unique (if they were). -/
structure Sess.Ext (s s' : Sess) : Prop where
  events : ∃ evs, s'.trace = s.trace ++ evs ∧ s'.errors = s.errors ++ errorsOf evs
  fsKeys : (akeys s.fs).Nodup → (akeys s'.fs).Nodup

namespace Sess.Ext

theorem refl (s : Sess) : s.Ext s := ⟨⟨[], by simp, by simp⟩, id⟩

theorem trans {a b c : Sess} (h₁ : a.Ext b) (h₂ : b.Ext c) : a.Ext c := by
  obtain ⟨⟨e₁, t₁, r₁⟩, f₁⟩ := h₁
  obtain ⟨⟨e₂, t₂, r₂⟩, f₂⟩ := h₂
  exact ⟨⟨e₁ ++ e₂, by simp [t₂, t₁], by simp [r₂, r₁]⟩, f₂ ∘ f₁⟩

/-- General constructor for a step that does not touch the resource map. -/
theorem of_delta {s s' : Sess} (evs : List Ev) (ht : s'.trace = s.trace ++ evs)
    (he : s'.errors = s.errors ++ errorsOf evs) (hf : s'.fs = s.fs) : s.Ext s' :=
  ⟨⟨evs, ht, he⟩, by rw [hf]; exact id⟩

/-- Only `trace`, `errors` and `fs` matter. -/
theorem of_eq {s s' : Sess} (ht : s'.trace = s.trace) (he : s'.errors = s.errors)
    (hf : s'.fs = s.fs) : s.Ext s' :=
  of_delta [] (by simp [ht]) (by simp [he]) hf

theorem congr_right {s a b : Sess} (h : s.Ext a) (ht : b.trace = a.trace) (he : b.errors = a.errors)
    (hf : b.fs = a.fs) : s.Ext b := h.trans (of_eq ht he hf)

theorem congr_left {s a b : Sess} (h : a.Ext s) (ht : b.trace = a.trace) (he : b.errors = a.errors)
    (hf : b.fs = a.fs) : b.Ext s := (of_eq (s := b) (s' := a) ht.symm he.symm hf.symm).trans h

/-- Events appended without touching `errors` or `fs`, none of them a failed check. -/
theorem of_events {s s' : Sess} (evs : List Ev) (ht : s'.trace = s.trace ++ evs)
    (he : s'.errors = s.errors) (hf : s'.fs = s.fs) (hq : errorsOf evs = []) : s.Ext s' :=
  of_delta evs ht (by simp [he, hq]) hf

theorem emit (s : Sess) (e : Ev) (hq : errOfEv e = []) : s.Ext (s.emit e) :=
  of_events [e] rfl rfl rfl (by simp [hq])

/-- From a statement about the first component of a pair. -/
theorem of_fst {α : Type} {s s₁ : Sess} {p : Sess × α} {r : α} (h : s.Ext p.1) (heq : p = (s₁, r)) :
    s.Ext s₁ := by subst heq; exact h

theorem errInv {s s' : Sess} (h : s.Ext s') (hi : s.ErrInv) : s'.ErrInv := by
  obtain ⟨evs, ht, he⟩ := h.events
  unfold Sess.ErrInv at *
  rw [ht, he, hi, errorsOf_append]

theorem trace_prefix {s s' : Sess} (h : s.Ext s') : ∃ evs, s'.trace = s.trace ++ evs :=
  let ⟨evs, ht, _⟩ := h.events; ⟨evs, ht⟩

theorem foldl {α : Type} (g : Sess → α → Sess) (hg : ∀ (s : Sess) x, s.Ext (g s x)) (l : List α) (s : Sess) :
    s.Ext (l.foldl g s) := by
  induction l generalizing s with
  | nil => exact refl s
  | cons x l ih => exact (hg s x).trans (ih _)

end Sess.Ext

variable (sem : Sem)

/-! ### primitive steps -/

theorem ext_markConsistent (s : Sess) (n : Nat) : s.Ext (s.markConsistent n) :=
  Sess.Ext.of_eq (by simp) (by simp) (by simp)

theorem ext_setContent (s : Sess) (r : Nat) (v : Option Int) : s.Ext (s.setContent r v) :=
  ⟨⟨[], by simp, by simp⟩, fun h => SessL.setContent_nodup s h r v⟩

/-- A step that replaced `fs` by that of `s.setContent r v` and appended harmless events. -/
theorem ext_of_write {s s' : Sess} (r : Nat) (v : Option Int) (evs : List Ev)
    (ht : s'.trace = s.trace ++ evs) (he : s'.errors = s.errors)
    (hf : s'.fs = (s.setContent r v).fs) (hq : errorsOf evs = []) : s.Ext s' :=
  ⟨⟨evs, ht, by simp [he, hq]⟩, fun h => by rw [hf]; exact SessL.setContent_nodup s h r v⟩

theorem ext_doRead (s : Sess) (r c : Nat) : s.Ext (doRead sem s r c).1 := by
  cases hcur : s.cur with
  | none => rw [doRead_no_cur sem s r c hcur]; exact Sess.Ext.refl s
  | some cur =>
    rcases hp : s.store.getOrCreateResNode r with ⟨st, dst⟩
    rw [doRead_eq sem s r c cur st dst hcur hp]
    split
    · exact Sess.Ext.of_events [.readStart r c] rfl rfl rfl rfl
    · split
      · exact Sess.Ext.of_events [.readStart r c] rfl rfl rfl rfl
      · split
        · exact Sess.Ext.of_events [.readStart r c, .readEnd r c ‹Stamp›] rfl rfl rfl rfl
        · exact Sess.Ext.of_events [.readStart r c, .readEnd r c ‹Stamp›] rfl rfl rfl rfl

theorem ext_doWrite (s : Sess) (r c : Nat) (v : Option Int) : s.Ext (doWrite sem s r c v).1 := by
  cases hcur : s.cur with
  | none => rw [doWrite_no_cur sem s r c v hcur]; exact ext_setContent s r v
  | some cur =>
    rcases hp : s.store.getOrCreateResNode r with ⟨st, dst⟩
    rw [doWrite_eq sem s r c cur v st dst hcur hp]
    simp only
    have hf := SessL.setContent_fs_with s st (s.trace ++ [.writeStart r c]) r v
    split
    · exact Sess.Ext.of_events [.writeStart r c] rfl rfl rfl rfl
    · split
      · exact ext_of_write r v [.writeStart r c] (by simp) (by simp) hf rfl
      · split
        · exact ext_of_write r v [.writeStart r c, .writeEnd r c ‹Stamp›] (by simp) (by simp) hf rfl
        · exact ext_of_write r v [.writeStart r c, .writeEnd r c ‹Stamp›] (by simp) (by simp) hf rfl

theorem ext_doWrote (s : Sess) (r c : Nat) (v : Option Int) : s.Ext (doWrote sem s r c v).1 := by
  cases hcur : s.cur with
  | none => rw [doWrote_no_cur sem s r c v hcur]; exact ext_setContent s r v
  | some cur =>
    rcases hp : s.store.getOrCreateResNode r with ⟨st, dst⟩
    rw [doWrote_eq sem s r c cur v st dst hcur hp]
    simp only
    split
    · exact ext_of_write r v [.writeStart r c] rfl (by simp) rfl rfl
    · split
      · exact ext_of_write r v [.writeStart r c] (by simp) (by simp) rfl rfl
      · split
        · exact ext_of_write r v [.writeStart r c, .writeEnd r c ‹Stamp›] (by simp) (by simp) rfl rfl
        · exact ext_of_write r v [.writeStart r c, .writeEnd r c ‹Stamp›] (by simp) (by simp) rfl rfl

theorem ext_reserveRequire (s : Sess) (dst : Nat) : s.Ext (reserveRequire s dst).1 := by
  unfold reserveRequire
  split
  · exact Sess.Ext.refl s
  · split
    · exact Sess.Ext.of_eq rfl rfl rfl
    · exact Sess.Ext.refl s
    · exact Sess.Ext.refl s

theorem ext_updateRequire (s : Sess) (dst t c : Nat) (stamp : Stamp) :
    s.Ext (updateRequire s dst t c stamp).1 := by
  unfold updateRequire
  split
  · exact Sess.Ext.refl s
  · split
    · exact Sess.Ext.of_eq rfl rfl rfl
    · exact Sess.Ext.refl s

end PieModel
