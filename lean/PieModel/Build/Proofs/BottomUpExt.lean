/-
Every bottom-up function extends the session (`Sess.Ext`).
-/
import PieModel.Build.Proofs.BottomUpSteps
import PieModel.Build.Proofs.TopDownExt

namespace PieModel
open Sess SessL

variable (sem : Sem) (body : Nat → Prog)

theorem ext_readCheckEvents_ok (s : Sess) (t c : Nat) (stamp : Stamp) (b : Bool) :
    s.Ext (readCheckEvents s t c stamp (.ok b)) :=
  Ext.of_delta [.checkReadStart t c stamp, .checkReadEnd t c stamp (.ok b)]
    (by simp [readCheckEvents]) (by simp [readCheckEvents, errOfEv]) rfl

theorem ext_readCheckEvents_error (s : Sess) (t c : Nat) (stamp : Stamp) (e : Int) :
    s.Ext { readCheckEvents s t c stamp (.error e) with errors := s.errors ++ [e] } :=
  Ext.of_delta [.checkReadStart t c stamp, .checkReadEnd t c stamp (.error e)]
    (by simp [readCheckEvents]) (by simp [errOfEv]) rfl

theorem ext_scheduleEv (s : Sess) (t tnode : Nat) : s.Ext (scheduleEv s t tnode) :=
  (Ext.emit s (.scheduleTask t) rfl).congr_right rfl rfl rfl

theorem ext_trySchedule (s : Sess) (tnode : Nat) (d : Dep) : s.Ext (trySchedule sem s tnode d) := by
  cases ht : s.store.taskOf tnode with
  | none => rw [trySchedule_other sem s tnode d (.inl ht)]; exact Ext.refl s
  | some t =>
    cases d with
    | reserved => rw [trySchedule_other sem s tnode _ (.inr (.inl rfl))]; exact Ext.refl s
    | require t' c stamp =>
      rw [trySchedule_other sem s tnode _ (.inr (.inr ⟨_, _, _, rfl⟩))]; exact Ext.refl s
    | read r c stamp =>
      rw [trySchedule_read sem s tnode t r c stamp ht]
      split
      · exact ext_readCheckEvents_ok s t c stamp true
      · exact (ext_readCheckEvents_ok s t c stamp false).trans (ext_scheduleEv _ _ _)
      · exact (ext_readCheckEvents_error s t c stamp _).trans (ext_scheduleEv _ _ _)
    | write r c stamp =>
      rw [trySchedule_write sem s tnode t r c stamp ht]
      split
      · exact ext_readCheckEvents_ok s t c stamp true
      · exact (ext_readCheckEvents_ok s t c stamp false).trans (ext_scheduleEv _ _ _)
      · exact (ext_readCheckEvents_error s t c stamp _).trans (ext_scheduleEv _ _ _)

theorem ext_trySchedule_foldl (l : List (Nat × Dep)) (s : Sess) :
    s.Ext (l.foldl (fun s (p : Nat × Dep) => trySchedule sem s p.1 p.2) s) :=
  Ext.foldl _ (fun s p => ext_trySchedule sem s p.1 p.2) l s

theorem ext_scheduleAffectedBy (s : Sess) (r : Nat) : s.Ext (scheduleAffectedBy sem s r) := by
  unfold scheduleAffectedBy
  simp only
  refine ((Ext.emit s (.schedResStart r) rfl).trans ?_).trans (Ext.emit _ (.schedResEnd r) rfl)
  exact (ext_trySchedule_foldl sem _ _).congr_left rfl rfl rfl

theorem ext_writtenSchedStep (s : Sess) (w : Nat) : s.Ext (writtenSchedStep sem s w) := by
  unfold writtenSchedStep
  split
  · exact Ext.refl s
  · exact ((Ext.emit s _ rfl).trans (ext_trySchedule_foldl sem _ _)).trans (Ext.emit _ _ rfl)

theorem ext_reqSchedStep (out : Int) (s : Sess) (p : Nat × Dep) : s.Ext (reqSchedStep sem out s p) := by
  unfold reqSchedStep
  split
  · simp only
    split
    · exact (Ext.emit s _ rfl).trans (Ext.emit _ _ rfl)
    · exact ((Ext.emit s _ rfl).trans (Ext.emit _ _ rfl)).trans
        ((Ext.emit _ (.scheduleTask _) rfl).congr_right rfl rfl rfl)
  · exact Ext.refl s

theorem ext_scheduleAfterExec (s : Sess) (node t : Nat) (out : Int) :
    s.Ext (scheduleAfterExec sem s node t out) := by
  rw [scheduleAfterExec_eq]
  simp only
  refine Ext.trans ?_ (ext_markConsistent _ _)
  refine Ext.trans ?_ (Ext.emit _ _ rfl)
  refine Ext.trans ?_ (Ext.foldl _ (ext_reqSchedStep sem out) _ _)
  refine Ext.trans ?_ (Ext.emit _ _ rfl)
  exact Ext.foldl _ (ext_writtenSchedStep sem) _ _

theorem bu_ext (f : Nat) :
    (∀ (s : Sess) t c, s.Ext (buRequire sem body f s t c).1) ∧
    (∀ (s : Sess) t n, s.Ext (buMake sem body f s t n).1) ∧
    (∀ (s : Sess) t n, s.Ext (buExec sem body f s t n).1) ∧
    (∀ (s : Sess) n, s.Ext (buExecAndSchedule sem body f s n).1) ∧
    (∀ (s : Sess) n, s.Ext (buRequireNow sem body f s n).1) ∧
    (∀ (s : Sess) p, s.Ext (buRun sem body f s p).1) := by
  induction f with
  | zero =>
    refine ⟨?_, ?_, ?_, ?_, ?_, ?_⟩ <;> intros <;>
      simp only [buRequire, buMake, buExec, buExecAndSchedule, buRequireNow, buRun] <;>
      exact Ext.refl _
  | succ f ih =>
    obtain ⟨ihR, ihM, ihE, ihS, ihN, ihP⟩ := ih
    refine ⟨?_, ?_, ?_, ?_, ?_, ?_⟩
    · intro s t c
      simp only [buRequire]
      split
      · rename_i heq
        exact (Ext.emit s _ rfl).trans
          (((ext_reserveRequire _ _).of_fst heq).congr_left (b := s.emit _) rfl rfl rfl)
      · rename_i s₁ heq
        have e₁ : s.Ext s₁ := (Ext.emit s _ rfl).trans
          (((ext_reserveRequire _ _).of_fst heq).congr_left (b := s.emit _) rfl rfl rfl)
        split
        · rename_i heq₂
          exact e₁.trans ((ihM _ _ _).of_fst heq₂)
        · rename_i s₂ out heq₂
          have e₂ : s.Ext (s₂.emit (.requireEnd t c (sem.ostamp c out) out)) :=
            (e₁.trans ((ihM _ _ _).of_fst heq₂)).trans (Ext.emit _ _ rfl)
          split
          · rename_i heq₃
            exact e₂.trans ((ext_updateRequire _ _ _ _ _).of_fst heq₃)
          · rename_i heq₃
            exact (e₂.trans ((ext_updateRequire _ _ _ _ _).of_fst heq₃)).trans (ext_markConsistent _ _)
    · intro s t n
      simp only [buMake]
      split
      · split <;> exact Ext.refl s
      · split
        · exact ihE _ _ _
        · split
          · rename_i heq; exact (ihN _ _).of_fst heq
          · rename_i heq; exact (ihN _ _).of_fst heq
          · rename_i heq
            split <;> exact (ihN _ _).of_fst heq
    · intro s t n
      simp only [buExec]
      split
      · rename_i heq
        exact (Ext.emit s (.executeStart t) rfl).trans
          (((ihP _ _).of_fst heq).congr_left (b := s.emit (.executeStart t)) rfl rfl rfl)
      · rename_i s₂ o heq
        have e₂ : s.Ext s₂ := (Ext.emit s (.executeStart t) rfl).trans
          (((ihP _ _).of_fst heq).congr_left (b := s.emit (.executeStart t)) rfl rfl rfl)
        exact (e₂.trans (Ext.emit _ (.executeEnd t o) rfl)).congr_right rfl rfl rfl
    · intro s n
      simp only [buExecAndSchedule]
      split
      · exact Ext.refl s
      · split
        · rename_i heq; exact (ihE _ _ _).of_fst heq
        · rename_i heq; exact ((ihE _ _ _).of_fst heq).trans (ext_scheduleAfterExec sem _ _ _ _)
    · intro s n
      simp only [buRequireNow]
      split
      · exact Ext.refl s
      · split
        · exact Ext.refl s
        · split
          · rename_i heq
            exact ((ihS _ _).of_fst heq).congr_left (b := s) rfl rfl rfl
          · rename_i heq
            have e₁ := ((ihS _ _).of_fst heq).congr_left (b := s) rfl rfl rfl
            split
            · exact e₁
            · exact e₁.trans (ihN _ _)
    · intro s p
      cases p with
      | ret v => simp only [buRun]; exact Ext.refl s
      | panic => simp only [buRun]; exact Ext.refl s
      | req t c k =>
        simp only [buRun]
        split
        · rename_i heq; exact (ihR _ _ _).of_fst heq
        · rename_i heq; exact ((ihR _ _ _).of_fst heq).trans (ihP _ _)
      | read r c k =>
        simp only [buRun]
        split
        · rename_i heq; exact (ext_doRead sem _ _ _).of_fst heq
        · rename_i heq; exact ((ext_doRead sem _ _ _).of_fst heq).trans (ihP _ _)
      | write r c v k =>
        simp only [buRun]
        split
        · rename_i heq; exact (ext_doWrite sem _ _ _ _).of_fst heq
        · rename_i heq; exact ((ext_doWrite sem _ _ _ _).of_fst heq).trans (ihP _ _)
      | wrote r c v k =>
        simp only [buRun]
        split
        · rename_i heq; exact (ext_doWrote sem _ _ _ _).of_fst heq
        · rename_i heq; exact ((ext_doWrote sem _ _ _ _).of_fst heq).trans (ihP _ _)

theorem ext_buRequire (f : Nat) (s : Sess) (t c : Nat) : s.Ext (buRequire sem body f s t c).1 :=
  (bu_ext sem body f).1 s t c
theorem ext_buMake (f : Nat) (s : Sess) (t n : Nat) : s.Ext (buMake sem body f s t n).1 :=
  (bu_ext sem body f).2.1 s t n
theorem ext_buExec (f : Nat) (s : Sess) (t n : Nat) : s.Ext (buExec sem body f s t n).1 :=
  (bu_ext sem body f).2.2.1 s t n
theorem ext_buExecAndSchedule (f : Nat) (s : Sess) (n : Nat) :
    s.Ext (buExecAndSchedule sem body f s n).1 := (bu_ext sem body f).2.2.2.1 s n
theorem ext_buRequireNow (f : Nat) (s : Sess) (n : Nat) : s.Ext (buRequireNow sem body f s n).1 :=
  (bu_ext sem body f).2.2.2.2.1 s n
theorem ext_buRun (f : Nat) (s : Sess) (p : Prog) : s.Ext (buRun sem body f s p).1 :=
  (bu_ext sem body f).2.2.2.2.2 s p

theorem ext_buExecuteScheduled (f : Nat) (s : Sess) : s.Ext (buExecuteScheduled sem body f s).1 := by
  induction f generalizing s with
  | zero => simp only [buExecuteScheduled]; exact Ext.refl s
  | succ f ih =>
    simp only [buExecuteScheduled]
    split
    · exact Ext.refl s
    · split
      · rename_i heq
        exact ((ext_buExecAndSchedule sem body _ _ _).of_fst heq).congr_left (b := s) rfl rfl rfl
      · rename_i heq
        exact (((ext_buExecAndSchedule sem body _ _ _).of_fst heq).congr_left (b := s) rfl rfl rfl).trans
          (ih _)

theorem ext_updateAffectedTasks (fuel : Nat) (s : Sess) :
    s.Ext (updateAffectedTasks sem body fuel s).1 := by
  unfold updateAffectedTasks
  simp only
  have e₀ : s.Ext (({ s with cur := none } : Sess).emit .buildStart) :=
    (Ext.emit s .buildStart rfl).congr_right rfl rfl rfl
  split
  · rename_i heq
    exact e₀.trans ((ext_buExecuteScheduled sem body _ _).of_fst heq)
  · rename_i heq
    exact (e₀.trans ((ext_buExecuteScheduled sem body _ _).of_fst heq)).trans (Ext.emit _ .buildEnd rfl)

theorem ext_bottomUpBuild (fuel : Nat) (s : Sess) (changed : List Nat) :
    s.Ext (bottomUpBuild sem body fuel s changed).1 := by
  unfold bottomUpBuild
  simp only
  refine Ext.trans ?_ (ext_updateAffectedTasks sem body fuel _)
  exact (Ext.foldl _ (ext_scheduleAffectedBy sem) changed _).congr_left (b := s) rfl rfl rfl

/-! ### sessions -/

/-- The operations of a session's public API. -/
inductive SessOp
  | require (fuel t : Nat)
  | bottomUp (fuel : Nat) (changed : List Nat)

/-- Run one operation; the session state is kept also when the operation aborts. -/
def SessOp.run (s : Sess) : SessOp → Sess
  | .require fuel t => (sessionRequire sem body fuel s t).1
  | .bottomUp fuel changed => (bottomUpBuild sem body fuel s changed).1

theorem ext_op (s : Sess) (op : SessOp) : s.Ext (op.run sem body s) := by
  cases op with
  | require fuel t => exact ext_sessionRequire sem body fuel s t
  | bottomUp fuel changed => exact ext_bottomUpBuild sem body fuel s changed

theorem ext_ops (s : Sess) (ops : List SessOp) : s.Ext (ops.foldl (SessOp.run sem body) s) :=
  Ext.foldl _ (ext_op sem body) ops s

end PieModel
