/-
`validate_write` and the abort behaviour of `doRead` / `doWrite` / `doWrote`, characterised
exactly (shared by the C05 and C06 property files).
-/
import PieModel.Build.Proofs.SessionLemmas
import PieModel.Graph.AddEdgeInv

namespace PieModel

variable (sem : Sem)

/-- A node never transitively reaches itself according to `contains_transitive_edge`. -/
theorem Store.containsTransitive_self (st : Store) (n : Nat) : st.containsTransitive n n = false := by
  simp [Store.containsTransitive, Dag.containsTransitiveEdge]

theorem validateWrite_overlap_iff (st : Store) (src dst : Nat) :
    validateWrite st src dst = some .overlap ↔ (st.taskWritingTo dst).isSome := by
  unfold validateWrite
  split
  · simp_all
  · split <;> simp_all

theorem validateWrite_hidden_iff (st : Store) (src dst : Nat) :
    validateWrite st src dst = some .hidden ↔
      st.taskWritingTo dst = none ∧
        ∃ y ∈ st.tasksReadingFrom dst, st.containsTransitive y src = false := by
  unfold validateWrite
  split
  · simp_all
  · rename_i hw
    simp only [hw, true_and]
    split
    · rename_i h; simp only [List.any_eq_true, Bool.not_eq_eq_eq_not, Bool.not_true] at h
      simpa using h
    · rename_i h; simp only [List.any_eq_true, Bool.not_eq_eq_eq_not, Bool.not_true] at h
      simp only [reduceCtorEq, false_iff]
      exact h

theorem validateWrite_none_iff (st : Store) (src dst : Nat) :
    validateWrite st src dst = none ↔
      st.taskWritingTo dst = none ∧
        ∀ y ∈ st.tasksReadingFrom dst, st.containsTransitive y src = true := by
  unfold validateWrite
  split
  · simp_all
  · rename_i hw
    simp only [hw, true_and]
    split
    · rename_i h; simp only [List.any_eq_true, Bool.not_eq_eq_eq_not, Bool.not_true] at h
      simp only [reduceCtorEq, false_iff]
      obtain ⟨y, hy, hc⟩ := h
      intro hall; simp [hall y hy] at hc
    · rename_i h; simp only [List.any_eq_true, Bool.not_eq_eq_eq_not, Bool.not_true] at h
      simp only [true_iff]
      intro y hy
      cases hc : st.containsTransitive y src with
      | true => rfl
      | false => exact absurd ⟨y, hy, hc⟩ h

/-- `validate_write` produces only the two abort kinds. -/
theorem validateWrite_kinds (st : Store) (src dst : Nat) (a : Abort)
    (h : validateWrite st src dst = some a) : a = .overlap ∨ a = .hidden := by
  unfold validateWrite at h
  split at h
  · cases h; exact .inl rfl
  · split at h
    · cases h; exact .inr rfl
    · cases h

/-- `add_dependency` panics with "node not found" exactly when an endpoint is not a live node. -/
theorem addDependency_bug_iff (st : Store) (src dst : Nat) (d : Dep) :
    (∃ st', st.addDependency src dst d = (st', .bug)) ↔
      (st.g.containsNode src = false ∨ st.g.containsNode dst = false) := by
  rw [← Dag.addEdge_missing_iff st.g src dst d]
  unfold Store.addDependency
  split
  · rename_i h; simp [h]
  · rename_i h; simp [h]
  · rename_i h; simp [h]

/-! ### `doRead` -/

theorem doRead_abort_iff (s : Sess) (r c cur : Nat) (st : Store) (dst : Nat) (a : Abort)
    (hcur : s.cur = some cur) (hn : s.store.getOrCreateResNode r = (st, dst)) :
    (doRead sem s r c).2 = .abort a ↔
      (a = .hidden ∧ readHidden st cur dst = true) ∨
      (a = .bug 1 ∧ readHidden st cur dst = false ∧
        ∃ stamp, sem.rstamp c (s.content r) = .ok stamp ∧
          ∃ st', st.addDependency cur dst (.read r c stamp) = (st', .bug)) := by
  rw [doRead_eq sem s r c cur st dst hcur hn]
  split
  · rename_i h; simp [h, eq_comm]
  · rename_i h
    simp only [Bool.not_eq_true] at h
    split
    · rename_i hst; simp [h, hst]
    · rename_i stamp hst
      split
      · rename_i hadd; simp [h, hst, hadd, eq_comm]
      · rename_i st' x hx hadd
        simp only [reduceCtorEq, h, Bool.false_eq_true, and_false, hst, Except.ok.injEq, true_and,
          exists_eq_left', hadd, Prod.mk.injEq, false_or, false_iff, not_and]
        intro _ hbug
        exact hx hbug

/-! ### `doWrite` / `doWrote` -/

theorem doWrite_abort_iff (s : Sess) (r c cur : Nat) (v : Option Int) (st : Store) (dst : Nat)
    (a : Abort) (hcur : s.cur = some cur) (hn : s.store.getOrCreateResNode r = (st, dst)) :
    (doWrite sem s r c v).2 = .abort a ↔
      validateWrite st cur dst = some a ∨
      (a = .bug 2 ∧ validateWrite st cur dst = none ∧
        ∃ stamp, sem.rstamp c ((s.setContent r v).content r) = .ok stamp ∧
          ∃ st', st.addDependency cur dst (.write r c stamp) = (st', .bug)) := by
  rw [doWrite_eq sem s r c cur v st dst hcur hn]
  have hc : (({ s with store := st, trace := s.trace ++ [.writeStart r c] } : Sess).setContent r v).content r
      = (s.setContent r v).content r :=
    SessL.content_congr _ _ (SessL.setContent_fs_with s st _ r v) r
  simp only [hc]
  split
  · rename_i a' h; simp [h, eq_comm]
  · rename_i h
    split
    · rename_i hst; simp [h, hst]
    · rename_i stamp hst
      split
      · rename_i hadd; simp [h, hst, hadd, eq_comm]
      · rename_i st' x hx hadd
        simp only [reduceCtorEq, h, hst, Except.ok.injEq, true_and, exists_eq_left', hadd,
          Prod.mk.injEq, false_or, false_iff, not_and]
        intro _ hbug
        exact hx hbug

theorem doWrote_abort_iff (s : Sess) (r c cur : Nat) (v : Option Int) (st : Store) (dst : Nat)
    (a : Abort) (hcur : s.cur = some cur) (hn : s.store.getOrCreateResNode r = (st, dst)) :
    (doWrote sem s r c v).2 = .abort a ↔
      validateWrite st cur dst = some a ∨
      (a = .bug 3 ∧ validateWrite st cur dst = none ∧
        ∃ stamp, sem.rstamp c ((s.setContent r v).content r) = .ok stamp ∧
          ∃ st', st.addDependency cur dst (.write r c stamp) = (st', .bug)) := by
  rw [doWrote_eq sem s r c cur v st dst hcur hn]
  simp only
  split
  · rename_i a' h; simp [h, eq_comm]
  · rename_i h
    split
    · rename_i hst; simp [h, hst]
    · rename_i stamp hst
      split
      · rename_i hadd; simp [h, hst, hadd, eq_comm]
      · rename_i st' x hx hadd
        simp only [reduceCtorEq, h, hst, Except.ok.injEq, true_and, exists_eq_left', hadd,
          Prod.mk.injEq, false_or, false_iff, not_and]
        intro _ hbug
        exact hx hbug

/-- State of `doWrite` at a `validate_write` abort: resource untouched. -/
theorem doWrite_validate_abort (s : Sess) (r c cur : Nat) (v : Option Int) (st : Store) (dst : Nat)
    (a : Abort) (hcur : s.cur = some cur) (hn : s.store.getOrCreateResNode r = (st, dst))
    (hv : validateWrite st cur dst = some a) :
    doWrite sem s r c v =
      ({ s with store := st, trace := s.trace ++ [.writeStart r c] }, .abort a) := by
  rw [doWrite_eq sem s r c cur v st dst hcur hn]
  simp only [hv]

/-- State of `doWrote` at a `validate_write` abort: the resource is already modified. -/
theorem doWrote_validate_abort (s : Sess) (r c cur : Nat) (v : Option Int) (st : Store) (dst : Nat)
    (a : Abort) (hcur : s.cur = some cur) (hn : s.store.getOrCreateResNode r = (st, dst))
    (hv : validateWrite st cur dst = some a) :
    doWrote sem s r c v =
      ({ s.setContent r v with store := st, trace := s.trace ++ [.writeStart r c] }, .abort a) := by
  rw [doWrote_eq sem s r c cur v st dst hcur hn]
  simp only [hv]

end PieModel
