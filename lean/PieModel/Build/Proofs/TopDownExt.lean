/-
Every top-down function extends the session (`Sess.Ext`): its trace grows, and `errors` grows by
exactly the failed checks of the new events — whether the run returns or aborts.
-/
import PieModel.Build.Proofs.TopDownSteps

namespace PieModel
open Sess SessL

variable (sem : Sem) (body : Nat → Prog)

theorem ext_resCheckEvents_ok (s : Sess) (r c : Nat) (stamp : Stamp) (b : Bool) :
    s.Ext (resCheckEvents s r c stamp (.ok b)) :=
  Ext.of_delta [.checkResStart r c stamp, .checkResEnd r c stamp (.ok b)] (by simp [resCheckEvents])
    (by simp [resCheckEvents, errOfEv]) rfl

theorem ext_resCheckEvents_error (s : Sess) (r c : Nat) (stamp : Stamp) (e : Int) :
    s.Ext { resCheckEvents s r c stamp (.error e) with errors := s.errors ++ [e] } :=
  Ext.of_delta [.checkResStart r c stamp, .checkResEnd r c stamp (.error e)]
    (by simp [resCheckEvents]) (by simp [errOfEv]) rfl

theorem td_ext (f : Nat) :
    (∀ (s : Sess) t c, s.Ext (tdRequire sem body f s t c).1) ∧
    (∀ (s : Sess) t, s.Ext (tdMake sem body f s t).1) ∧
    (∀ (s : Sess) n, s.Ext (tdCheck sem body f s n).1) ∧
    (∀ (s : Sess) ds, s.Ext (tdCheckDeps sem body f s ds).1) ∧
    (∀ (s : Sess) p, s.Ext (tdRun sem body f s p).1) := by
  induction f with
  | zero =>
    refine ⟨?_, ?_, ?_, ?_, ?_⟩ <;> intros <;>
      simp only [tdRequire, tdMake, tdCheck, tdCheckDeps, tdRun] <;> exact Ext.refl _
  | succ f ih =>
    obtain ⟨ihR, ihM, ihC, ihD, ihP⟩ := ih
    refine ⟨?_, ?_, ?_, ?_, ?_⟩
    · intro s t c
      simp only [tdRequire]
      split
      · rename_i heq
        exact (Ext.emit s _ rfl).trans
          (((ext_reserveRequire _ _).of_fst heq).congr_left (b := s.emit _) rfl rfl rfl)
      · rename_i s₁ heq
        have e₁ : s.Ext s₁ := (Ext.emit s _ rfl).trans
          (((ext_reserveRequire _ _).of_fst heq).congr_left (b := s.emit _) rfl rfl rfl)
        split
        · rename_i heq₂
          exact e₁.trans ((ihM _ _).of_fst heq₂)
        · rename_i s₂ out heq₂
          have e₂ : s.Ext (s₂.emit (.requireEnd t c (sem.ostamp c out) out)) :=
            (e₁.trans ((ihM _ _).of_fst heq₂)).trans (Ext.emit _ _ rfl)
          split
          · rename_i heq₃
            exact e₂.trans ((ext_updateRequire _ _ _ _ _).of_fst heq₃)
          · rename_i heq₃
            exact e₂.trans ((ext_updateRequire _ _ _ _ _).of_fst heq₃)
    · intro s t
      simp only [tdMake]
      split
      · split <;> exact Ext.of_eq rfl rfl rfl
      · split
        · rename_i heq
          exact ((ihC _ _).of_fst heq).congr_left (b := s) rfl rfl rfl
        · rename_i s₁ o heq
          exact (((ihC _ _).of_fst heq).congr_left (b := s) rfl rfl rfl).trans (ext_markConsistent _ _)
        · rename_i s₁ heq
          have e₁ : s.Ext s₁ := ((ihC _ _).of_fst heq).congr_left (b := s) rfl rfl rfl
          split
          · rename_i heq₂
            exact e₁.trans (((ihP _ _).of_fst heq₂).congr_left (b := s₁.emit (.executeStart t)) rfl rfl rfl
              |> (Ext.emit s₁ _ rfl).trans)
          · rename_i s₂ o heq₂
            have e₂ : s.Ext s₂ := e₁.trans (((ihP _ _).of_fst heq₂).congr_left
              (b := s₁.emit (.executeStart t)) rfl rfl rfl |> (Ext.emit s₁ _ rfl).trans)
            refine Ext.trans ?_ (ext_markConsistent _ _)
            exact (e₂.trans (Ext.emit _ (.executeEnd t o) rfl)).congr_right rfl rfl rfl
    · intro s n
      simp only [tdCheck]
      split
      · exact Ext.refl s
      · split
        · rename_i heq; exact (ihD _ _).of_fst heq
        · rename_i heq; exact (ihD _ _).of_fst heq
        · rename_i heq; exact (ihD _ _).of_fst heq
    · intro s ds
      cases ds with
      | nil => simp only [tdCheckDeps]; exact Ext.refl s
      | cons d ds =>
        cases d with
        | reserved => simp only [tdCheckDeps]; exact Ext.refl s
        | require t c stamp =>
          simp only [tdCheckDeps]
          split
          · rename_i heq
            exact (Ext.emit s _ rfl).trans ((ihM _ _).of_fst heq)
          · rename_i s₁ out heq
            have e₁ : s.Ext (s₁.emit (.checkTaskEnd t c stamp (sem.ocheck c out stamp))) :=
              ((Ext.emit s _ rfl).trans ((ihM _ _).of_fst heq)).trans (Ext.emit _ _ rfl)
            split
            · exact e₁.trans (ihD _ _)
            · exact e₁
        | read r c stamp =>
          rw [tdCheckDeps_read]
          split
          · exact (ext_resCheckEvents_ok s r c stamp true).trans (ihD _ _)
          · exact ext_resCheckEvents_ok s r c stamp false
          · exact ext_resCheckEvents_error s r c stamp _
        | write r c stamp =>
          rw [tdCheckDeps_write]
          split
          · exact (ext_resCheckEvents_ok s r c stamp true).trans (ihD _ _)
          · exact ext_resCheckEvents_ok s r c stamp false
          · exact ext_resCheckEvents_error s r c stamp _
    · intro s p
      cases p with
      | ret v => simp only [tdRun]; exact Ext.refl s
      | panic => simp only [tdRun]; exact Ext.refl s
      | req t c k =>
        simp only [tdRun]
        split
        · rename_i heq; exact (ihR _ _ _).of_fst heq
        · rename_i heq; exact ((ihR _ _ _).of_fst heq).trans (ihP _ _)
      | read r c k =>
        simp only [tdRun]
        split
        · rename_i heq; exact (ext_doRead sem _ _ _).of_fst heq
        · rename_i heq; exact ((ext_doRead sem _ _ _).of_fst heq).trans (ihP _ _)
      | write r c v k =>
        simp only [tdRun]
        split
        · rename_i heq; exact (ext_doWrite sem _ _ _ _).of_fst heq
        · rename_i heq; exact ((ext_doWrite sem _ _ _ _).of_fst heq).trans (ihP _ _)
      | wrote r c v k =>
        simp only [tdRun]
        split
        · rename_i heq; exact (ext_doWrote sem _ _ _ _).of_fst heq
        · rename_i heq; exact ((ext_doWrote sem _ _ _ _).of_fst heq).trans (ihP _ _)

theorem ext_tdRequire (f : Nat) (s : Sess) (t c : Nat) : s.Ext (tdRequire sem body f s t c).1 :=
  (td_ext sem body f).1 s t c
theorem ext_tdMake (f : Nat) (s : Sess) (t : Nat) : s.Ext (tdMake sem body f s t).1 :=
  (td_ext sem body f).2.1 s t
theorem ext_tdCheck (f : Nat) (s : Sess) (n : Nat) : s.Ext (tdCheck sem body f s n).1 :=
  (td_ext sem body f).2.2.1 s n
theorem ext_tdCheckDeps (f : Nat) (s : Sess) (ds : List Dep) : s.Ext (tdCheckDeps sem body f s ds).1 :=
  (td_ext sem body f).2.2.2.1 s ds
theorem ext_tdRun (f : Nat) (s : Sess) (p : Prog) : s.Ext (tdRun sem body f s p).1 :=
  (td_ext sem body f).2.2.2.2 s p

theorem ext_sessionRequire (fuel : Nat) (s : Sess) (t : Nat) :
    s.Ext (sessionRequire sem body fuel s t).1 := by
  unfold sessionRequire
  simp only
  split
  · rename_i heq
    exact ((Ext.emit s .buildStart rfl).congr_right (b := ({ s with cur := none } : Sess).emit .buildStart)
      rfl rfl rfl).trans ((ext_tdRequire sem body _ _ _ _).of_fst heq)
  · rename_i heq
    exact (((Ext.emit s .buildStart rfl).congr_right (b := ({ s with cur := none } : Sess).emit .buildStart)
      rfl rfl rfl).trans ((ext_tdRequire sem body _ _ _ _).of_fst heq)).trans (Ext.emit _ .buildEnd rfl)

end PieModel
