/-
One-step equations of the top-down functions (pure unfolding; the model is not changed).
-/
import PieModel.Build.Proofs.ErrTrace

namespace PieModel
open Sess SessL

variable (sem : Sem) (body : Nat → Prog)

/-- The two events of a resource-dependency check. -/
def resCheckEvents (s : Sess) (r c : Nat) (stamp : Stamp) (res : Except Int Bool) : Sess :=
  (s.emit (.checkResStart r c stamp)).emit (.checkResEnd r c stamp res)

theorem checkResDep_emit (s : Sess) (e : Ev) (r c : Nat) (stamp : Stamp) :
    checkResDep sem (s.emit e) r c stamp = checkResDep sem s r c stamp := rfl

/-- A resource dependency (read or write) in a top-down check: the verdict is the dependency's
own checker applied to the current content and the stored stamp. -/
theorem tdCheckDeps_read (f : Nat) (s : Sess) (r c : Nat) (stamp : Stamp) (ds : List Dep) :
    tdCheckDeps sem body (f + 1) s (.read r c stamp :: ds) =
      match sem.rcheck c (s.content r) stamp with
      | .ok true => tdCheckDeps sem body f (resCheckEvents s r c stamp (.ok true)) ds
      | .ok false => (resCheckEvents s r c stamp (.ok false), .ok false)
      | .error e =>
        ({ resCheckEvents s r c stamp (.error e) with errors := s.errors ++ [e] }, .ok false) := by
  simp only [tdCheckDeps, checkResDep, emit_content, resCheckEvents]
  split <;> simp_all

theorem tdCheckDeps_write (f : Nat) (s : Sess) (r c : Nat) (stamp : Stamp) (ds : List Dep) :
    tdCheckDeps sem body (f + 1) s (.write r c stamp :: ds) =
      match sem.rcheck c (s.content r) stamp with
      | .ok true => tdCheckDeps sem body f (resCheckEvents s r c stamp (.ok true)) ds
      | .ok false => (resCheckEvents s r c stamp (.ok false), .ok false)
      | .error e =>
        ({ resCheckEvents s r c stamp (.error e) with errors := s.errors ++ [e] }, .ok false) := by
  simp only [tdCheckDeps, checkResDep, emit_content, resCheckEvents]
  split <;> simp_all

end PieModel
