/-
Closed-form equations for `doRead`, `doWrite`, `doWrote` in a running task (`s.cur = some cur`):
one `if`/`match` tree over *named* intermediate states, from which the property files read off
each branch.  Nothing here changes the model; these are unfolding lemmas.
-/
import PieModel.Build.Pie
import PieModel.Graph.AList

namespace PieModel

/-! Projection lemmas for `Sess.emit`, `Sess.setContent`, `Sess.markConsistent` (in their own
namespace `SessL` to keep the names out of `Sess`). -/
namespace SessL
open Sess

@[simp] theorem emit_store (s : Sess) (e : Ev) : (s.emit e).store = s.store := rfl
@[simp] theorem emit_fs (s : Sess) (e : Ev) : (s.emit e).fs = s.fs := rfl
@[simp] theorem emit_cur (s : Sess) (e : Ev) : (s.emit e).cur = s.cur := rfl
@[simp] theorem emit_consistent (s : Sess) (e : Ev) : (s.emit e).consistent = s.consistent := rfl
@[simp] theorem emit_errors (s : Sess) (e : Ev) : (s.emit e).errors = s.errors := rfl
@[simp] theorem emit_trace (s : Sess) (e : Ev) : (s.emit e).trace = s.trace ++ [e] := rfl
@[simp] theorem emit_queue (s : Sess) (e : Ev) : (s.emit e).queue = s.queue := rfl
@[simp] theorem emit_content (s : Sess) (e : Ev) (r : Nat) : (s.emit e).content r = s.content r := rfl

@[simp] theorem setContent_store (s : Sess) (r : Nat) (v : Option Int) :
    (s.setContent r v).store = s.store := by cases v <;> rfl
@[simp] theorem setContent_cur (s : Sess) (r : Nat) (v : Option Int) :
    (s.setContent r v).cur = s.cur := by cases v <;> rfl
@[simp] theorem setContent_consistent (s : Sess) (r : Nat) (v : Option Int) :
    (s.setContent r v).consistent = s.consistent := by cases v <;> rfl
@[simp] theorem setContent_errors (s : Sess) (r : Nat) (v : Option Int) :
    (s.setContent r v).errors = s.errors := by cases v <;> rfl
@[simp] theorem setContent_trace (s : Sess) (r : Nat) (v : Option Int) :
    (s.setContent r v).trace = s.trace := by cases v <;> rfl
@[simp] theorem setContent_queue (s : Sess) (r : Nat) (v : Option Int) :
    (s.setContent r v).queue = s.queue := by cases v <;> rfl

/-- `setContent` looks only at `fs`. -/
theorem setContent_fs_congr (s s₂ : Sess) (h : s₂.fs = s.fs) (r : Nat) (v : Option Int) :
    (s₂.setContent r v).fs = (s.setContent r v).fs := by
  cases v <;> simp [setContent, h]

theorem setContent_fs_with (s : Sess) (st : Store) (tr : List Ev) (r : Nat) (v : Option Int) :
    (({ s with store := st, trace := tr } : Sess).setContent r v).fs = (s.setContent r v).fs := by
  cases v <;> rfl

theorem content_congr (s s₂ : Sess) (h : s₂.fs = s.fs) (r : Nat) : s₂.content r = s.content r := by
  simp [content, h]

@[simp] theorem markConsistent_store (s : Sess) (n : Nat) : (s.markConsistent n).store = s.store := by
  unfold markConsistent; split <;> rfl
@[simp] theorem markConsistent_fs (s : Sess) (n : Nat) : (s.markConsistent n).fs = s.fs := by
  unfold markConsistent; split <;> rfl
@[simp] theorem markConsistent_cur (s : Sess) (n : Nat) : (s.markConsistent n).cur = s.cur := by
  unfold markConsistent; split <;> rfl
@[simp] theorem markConsistent_errors (s : Sess) (n : Nat) : (s.markConsistent n).errors = s.errors := by
  unfold markConsistent; split <;> rfl
@[simp] theorem markConsistent_trace (s : Sess) (n : Nat) : (s.markConsistent n).trace = s.trace := by
  unfold markConsistent; split <;> rfl
@[simp] theorem markConsistent_queue (s : Sess) (n : Nat) : (s.markConsistent n).queue = s.queue := by
  unfold markConsistent; split <;> rfl

/-- Writing `some x` is always seen by the next read of the same resource. -/
theorem content_setContent_some (s : Sess) (r : Nat) (x : Int) :
    (s.setContent r (some x)).content r = some x := by
  simp [setContent, content, aget_aset]

/-- Removing is seen by the next read if the map has no duplicate keys (a `HashMap` has none;
`aerase` removes the first binding only). -/
theorem content_setContent (s : Sess) (hn : (akeys s.fs).Nodup) (r : Nat) (v : Option Int) :
    (s.setContent r v).content r = v := by
  cases v with
  | some x => exact content_setContent_some s r x
  | none => simp [setContent, content, aget_aerase_self s.fs hn]

/-- Other resources are not touched. -/
theorem content_setContent_ne (s : Sess) (r r' : Nat) (h : r ≠ r') (v : Option Int) :
    (s.setContent r v).content r' = s.content r' := by
  cases v with
  | some x => simp [setContent, content, aget_aset, h]
  | none => simp [setContent, content, aget_aerase_ne s.fs h]

/-- Uniqueness of keys is preserved by writes. -/
theorem setContent_nodup (s : Sess) (hn : (akeys s.fs).Nodup) (r : Nat) (v : Option Int) :
    (akeys (s.setContent r v).fs).Nodup := by
  cases v with
  | some x => exact akeys_aset_nodup s.fs r x hn
  | none => exact akeys_aerase_nodup s.fs r hn

end SessL

/-- The hidden-dependency test of `SessionExt::read`: the resource has a recorded writer which
the reading task does not (transitively) require. -/
def readHidden (st : Store) (cur dst : Nat) : Bool :=
  match st.taskWritingTo dst with
  | some w => !(st.containsTransitive cur w)
  | none => false

theorem readHidden_eq_true_iff (st : Store) (cur dst : Nat) :
    readHidden st cur dst = true ↔
      ∃ w, st.taskWritingTo dst = some w ∧ st.containsTransitive cur w = false := by
  unfold readHidden; split <;> simp_all

variable (sem : Sem)

/-- `doRead` outside a task: no dependency, no event. -/
theorem doRead_no_cur (s : Sess) (r c : Nat) (hcur : s.cur = none) :
    doRead sem s r c = (s, .ok (.ok (s.content r))) := by
  simp [doRead, hcur]

/-- `doRead` inside task node `cur`, with `(st, dst)` the store and node after node creation. -/
theorem doRead_eq (s : Sess) (r c cur : Nat) (st : Store) (dst : Nat) (hcur : s.cur = some cur)
    (hn : s.store.getOrCreateResNode r = (st, dst)) :
    doRead sem s r c =
      if readHidden st cur dst then
        ({ s with store := st, trace := s.trace ++ [.readStart r c] }, .abort .hidden)
      else match sem.rstamp c (s.content r) with
        | .error e => ({ s with store := st, trace := s.trace ++ [.readStart r c] }, .ok (.error e))
        | .ok stamp =>
          match st.addDependency cur dst (.read r c stamp) with
          | (_, .bug) =>
            ({ s with store := st, trace := s.trace ++ [.readStart r c, .readEnd r c stamp] },
              .abort (.bug 1))
          | (st', _) =>
            ({ s with store := st', trace := s.trace ++ [.readStart r c, .readEnd r c stamp] },
              .ok (.ok (s.content r))) := by
  simp only [doRead, hcur, Sess.emit, hn, readHidden, List.append_assoc, List.cons_append,
    List.nil_append]
  rfl

/-- `doWrite` outside a task just writes. -/
theorem doWrite_no_cur (s : Sess) (r c : Nat) (v : Option Int) (hcur : s.cur = none) :
    doWrite sem s r c v = (s.setContent r v, .ok (.ok ())) := by
  simp [doWrite, hcur]

/-- `doWrite` inside task node `cur`. `s₁` = after `write_start` and node creation (resource
untouched); `s₂` = after the write function. -/
theorem doWrite_eq (s : Sess) (r c cur : Nat) (v : Option Int) (st : Store) (dst : Nat)
    (hcur : s.cur = some cur) (hn : s.store.getOrCreateResNode r = (st, dst)) :
    doWrite sem s r c v =
      let s₁ : Sess := { s with store := st, trace := s.trace ++ [.writeStart r c] }
      match validateWrite st cur dst with
      | some a => (s₁, .abort a)
      | none =>
        let s₂ := s₁.setContent r v
        match sem.rstamp c (s₂.content r) with
        | .error e => (s₂, .ok (.error e))
        | .ok stamp =>
          match st.addDependency cur dst (.write r c stamp) with
          | (_, .bug) => (s₂.emit (.writeEnd r c stamp), .abort (.bug 2))
          | (st', _) => ({ s₂.emit (.writeEnd r c stamp) with store := st' }, .ok (.ok ())) := by
  simp only [doWrite, hcur, Sess.emit, hn, SessL.setContent_store]
  rfl

theorem doWrote_no_cur (s : Sess) (r c : Nat) (v : Option Int) (hcur : s.cur = none) :
    doWrote sem s r c v = (s.setContent r v, .ok (.ok ())) := by
  simp [doWrote, hcur]

/-- `doWrote` inside task node `cur`: the resource is modified first. -/
theorem doWrote_eq (s : Sess) (r c cur : Nat) (v : Option Int) (st : Store) (dst : Nat)
    (hcur : s.cur = some cur) (hn : s.store.getOrCreateResNode r = (st, dst)) :
    doWrote sem s r c v =
      let s₀ := s.setContent r v
      let s₁ : Sess := { s₀ with store := st, trace := s.trace ++ [.writeStart r c] }
      match validateWrite st cur dst with
      | some a => (s₁, .abort a)
      | none =>
        match sem.rstamp c (s₀.content r) with
        | .error e => (s₁, .ok (.error e))
        | .ok stamp =>
          match st.addDependency cur dst (.write r c stamp) with
          | (_, .bug) => (s₁.emit (.writeEnd r c stamp), .abort (.bug 3))
          | (st', _) => ({ s₁.emit (.writeEnd r c stamp) with store := st' }, .ok (.ok ())) := by
  have hcur' : (s.setContent r v).cur = some cur := by simp [hcur]
  simp only [doWrote, hcur', Sess.emit, SessL.setContent_store, hn, SessL.setContent_trace]
  rfl

end PieModel
