/-
One-step equations of the bottom-up scheduling functions (pure unfolding).
-/
import PieModel.Build.Proofs.ErrTrace

namespace PieModel
open Sess SessL

variable (sem : Sem) (body : Nat → Prog)

/-- The two events of a bottom-up resource-dependency check of task `t`. -/
def readCheckEvents (s : Sess) (t c : Nat) (stamp : Stamp) (res : Except Int Bool) : Sess :=
  (s.emit (.checkReadStart t c stamp)).emit (.checkReadEnd t c stamp res)

/-- Scheduling task `t` (node `tnode`): the `schedule_task` event and `Queue::add`. -/
def scheduleEv (s : Sess) (t tnode : Nat) : Sess :=
  { (s.emit (.scheduleTask t)) with queue := queueAdd s.queue tnode }

theorem trySchedule_read (s : Sess) (tnode t r c : Nat) (stamp : Stamp)
    (ht : s.store.taskOf tnode = some t) :
    trySchedule sem s tnode (.read r c stamp) =
      match sem.rcheck c (s.content r) stamp with
      | .ok true => readCheckEvents s t c stamp (.ok true)
      | .ok false => scheduleEv (readCheckEvents s t c stamp (.ok false)) t tnode
      | .error e =>
        scheduleEv { readCheckEvents s t c stamp (.error e) with errors := s.errors ++ [e] } t tnode := by
  simp only [trySchedule, ht, checkResDep, emit_content, readCheckEvents, scheduleEv]
  split <;> simp_all

theorem trySchedule_write (s : Sess) (tnode t r c : Nat) (stamp : Stamp)
    (ht : s.store.taskOf tnode = some t) :
    trySchedule sem s tnode (.write r c stamp) =
      match sem.rcheck c (s.content r) stamp with
      | .ok true => readCheckEvents s t c stamp (.ok true)
      | .ok false => scheduleEv (readCheckEvents s t c stamp (.ok false)) t tnode
      | .error e =>
        scheduleEv { readCheckEvents s t c stamp (.error e) with errors := s.errors ++ [e] } t tnode := by
  simp only [trySchedule, ht, checkResDep, emit_content, readCheckEvents, scheduleEv]
  split <;> simp_all

/-- Not a resource dependency, or not a task node: nothing happens. -/
theorem trySchedule_other (s : Sess) (tnode : Nat) (d : Dep)
    (h : s.store.taskOf tnode = none ∨ d = .reserved ∨ ∃ t c stamp, d = .require t c stamp) :
    trySchedule sem s tnode d = s := by
  unfold trySchedule
  split <;> first | rfl | (rcases h with h | h | ⟨_, _, _, h⟩ <;> simp_all)

/-- The fold step of `scheduleAfterExec` over the require dependencies *to* the executed task:
`p = (requirer node, dependency)`, `out` = the new output. -/
def reqSchedStep (out : Int) (s : Sess) (p : Nat × Dep) : Sess :=
  match p.2, s.store.taskOf p.1 with
  | .require _ c stamp, some requiring =>
    let s := s.emit (.checkReqStart requiring c stamp)
    let ok := sem.ocheck c out stamp
    let s := s.emit (.checkReqEnd requiring c stamp ok)
    if ok then s else { (s.emit (.scheduleTask requiring)) with queue := queueAdd s.queue p.1 }
  | _, _ => s

/-- The fold step of `scheduleAfterExec` over the resources written by the executed task. -/
def writtenSchedStep (s : Sess) (w : Nat) : Sess :=
  match s.store.resOf w with
  | none => s
  | some r =>
    let s := s.emit (.schedResStart r)
    let s := (s.store.readDepsTo w).foldl (fun s (p : Nat × Dep) => trySchedule sem s p.1 p.2) s
    s.emit (.schedResEnd r)

/-- `scheduleAfterExec` is literally these two folds. -/
theorem scheduleAfterExec_eq (s : Sess) (node t : Nat) (out : Int) :
    scheduleAfterExec sem s node t out =
      let s₁ := (s.store.resourcesWrittenBy node).foldl (writtenSchedStep sem) s
      let s₂ := s₁.emit (.schedTaskStart t)
      let s₃ := (s₂.store.requireDepsTo node).foldl (reqSchedStep sem out) s₂
      (s₃.emit (.schedTaskEnd t)).markConsistent node := rfl

/-- A requirer is checked with its own output checker and stored stamp against the new output,
and scheduled exactly when that checker reports inconsistency. -/
theorem reqSchedStep_require (out : Int) (s : Sess) (n t' c requiring : Nat) (stamp : Stamp)
    (ht : s.store.taskOf n = some requiring) :
    reqSchedStep sem out s (n, .require t' c stamp) =
      let s' := (s.emit (.checkReqStart requiring c stamp)).emit
        (.checkReqEnd requiring c stamp (sem.ocheck c out stamp))
      if sem.ocheck c out stamp then s' else scheduleEv s' requiring n := by
  simp only [reqSchedStep, ht, scheduleEv]

theorem reqSchedStep_queue (out : Int) (s : Sess) (n t' c requiring : Nat) (stamp : Stamp)
    (ht : s.store.taskOf n = some requiring) :
    (reqSchedStep sem out s (n, .require t' c stamp)).queue =
      if sem.ocheck c out stamp then s.queue else queueAdd s.queue n := by
  rw [reqSchedStep_require sem out s n t' c requiring stamp ht]
  simp only
  split <;> simp [scheduleEv]

end PieModel
