/-
`cur` (the executing task) is restored by every function that *returns*: primitives never change
it, and `tdMake`/`buExec` put the previous value back after the body has run.
-/
import PieModel.Build.Proofs.BottomUpSteps
import PieModel.Build.Proofs.TopDownSteps

namespace PieModel
open Sess SessL

variable (sem : Sem) (body : Nat → Prog)

theorem cur_doRead (s : Sess) (r c : Nat) : (doRead sem s r c).1.cur = s.cur := by
  cases hcur : s.cur with
  | none => rw [doRead_no_cur sem s r c hcur]; exact hcur
  | some cur =>
    rcases hp : s.store.getOrCreateResNode r with ⟨st, dst⟩
    rw [doRead_eq sem s r c cur st dst hcur hp]
    split
    · exact hcur
    · split
      · exact hcur
      · split <;> exact hcur

theorem cur_doWrite (s : Sess) (r c : Nat) (v : Option Int) : (doWrite sem s r c v).1.cur = s.cur := by
  cases hcur : s.cur with
  | none => rw [doWrite_no_cur sem s r c v hcur]; simp [hcur]
  | some cur =>
    rcases hp : s.store.getOrCreateResNode r with ⟨st, dst⟩
    rw [doWrite_eq sem s r c cur v st dst hcur hp]
    simp only
    split
    · exact hcur
    · split
      · simp [hcur]
      · split <;> simp [hcur]

theorem cur_doWrote (s : Sess) (r c : Nat) (v : Option Int) : (doWrote sem s r c v).1.cur = s.cur := by
  cases hcur : s.cur with
  | none => rw [doWrote_no_cur sem s r c v hcur]; simp [hcur]
  | some cur =>
    rcases hp : s.store.getOrCreateResNode r with ⟨st, dst⟩
    rw [doWrote_eq sem s r c cur v st dst hcur hp]
    simp only
    split
    · simp [hcur]
    · split
      · simp [hcur]
      · split <;> simp [hcur]

theorem cur_reserveRequire (s : Sess) (dst : Nat) : (reserveRequire s dst).1.cur = s.cur := by
  unfold reserveRequire
  split
  · rfl
  · split <;> rfl

theorem cur_updateRequire (s : Sess) (dst t c : Nat) (stamp : Stamp) :
    (updateRequire s dst t c stamp).1.cur = s.cur := by
  unfold updateRequire
  split
  · rfl
  · split <;> rfl

theorem cur_of_fst {α : Type} {s s₁ : Sess} {p : Sess × α} {r : α} (h : p.1.cur = s.cur)
    (heq : p = (s₁, r)) : s₁.cur = s.cur := by subst heq; exact h

/-- "If it returns, `cur` is what it was." -/
def CurOk {α : Type} (s : Sess) (p : Sess × Res α) : Prop :=
  ∀ s' a, p = (s', .ok a) → s'.cur = s.cur

theorem td_cur (f : Nat) :
    (∀ (s : Sess) t c, CurOk s (tdRequire sem body f s t c)) ∧
    (∀ (s : Sess) t, CurOk s (tdMake sem body f s t)) ∧
    (∀ (s : Sess) n, CurOk s (tdCheck sem body f s n)) ∧
    (∀ (s : Sess) ds, CurOk s (tdCheckDeps sem body f s ds)) ∧
    (∀ (s : Sess) p, CurOk s (tdRun sem body f s p)) := by
  induction f with
  | zero =>
    refine ⟨?_, ?_, ?_, ?_, ?_⟩ <;> intros <;> intro s' a h <;>
      simp only [tdRequire, tdMake, tdCheck, tdCheckDeps, tdRun] at h <;> cases h
  | succ f ih =>
    obtain ⟨ihR, ihM, ihC, ihD, ihP⟩ := ih
    refine ⟨?_, ?_, ?_, ?_, ?_⟩
    · intro s t c s' out h
      simp only [tdRequire] at h
      split at h
      · cases h
      · rename_i s₁ heq
        split at h
        · cases h
        · rename_i s₂ o heq₂
          split at h
          · cases h
          · rename_i s₃ heq₃
            cases h
            have c₁ := cur_of_fst (cur_reserveRequire _ _) heq
            have c₂ := ihM _ _ _ _ heq₂
            have c₃ := cur_of_fst (cur_updateRequire _ _ _ _ _) heq₃
            simp only [emit_cur] at c₁ c₃
            rw [c₃, c₂, c₁]
    · intro s t s' out h
      simp only [tdMake] at h
      split at h
      · split at h <;> cases h <;> rfl
      · split at h
        · cases h
        · rename_i s₁ o heq
          cases h
          have c₁ := ihC _ _ _ _ heq
          simpa using c₁
        · rename_i s₁ heq
          have c₁ := ihC _ _ _ _ heq
          split at h
          · cases h
          · rename_i s₂ o heq₂
            cases h
            simpa using c₁
    · intro s n s' a h
      simp only [tdCheck] at h
      split at h
      · cases h; rfl
      · split at h
        · cases h
        · rename_i heq; cases h; exact ihD _ _ _ _ heq
        · rename_i heq; cases h; exact ihD _ _ _ _ heq
    · intro s ds s' a h
      cases ds with
      | nil => simp only [tdCheckDeps] at h; cases h; rfl
      | cons d ds =>
        cases d with
        | reserved => simp only [tdCheckDeps] at h; cases h
        | require t c stamp =>
          simp only [tdCheckDeps] at h
          split at h
          · cases h
          · rename_i s₁ out heq
            have c₁ := ihM _ _ _ _ heq
            simp only [emit_cur] at c₁
            split at h
            · have c₂ := ihD _ _ _ _ h
              simp only [emit_cur] at c₂
              rw [c₂, c₁]
            · cases h; simpa using c₁
        | read r c stamp =>
          rw [tdCheckDeps_read] at h
          split at h
          · have := ihD _ _ _ _ h; exact this
          · cases h; rfl
          · cases h; rfl
        | write r c stamp =>
          rw [tdCheckDeps_write] at h
          split at h
          · have := ihD _ _ _ _ h; exact this
          · cases h; rfl
          · cases h; rfl
    · intro s p s' a h
      cases p with
      | ret v => simp only [tdRun] at h; cases h; rfl
      | panic => simp only [tdRun] at h; cases h
      | req t c k =>
        simp only [tdRun] at h
        split at h
        · cases h
        · rename_i heq; rw [ihP _ _ _ _ h, ihR _ _ _ _ _ heq]
      | read r c k =>
        simp only [tdRun] at h
        split at h
        · cases h
        · rename_i heq; rw [ihP _ _ _ _ h, cur_of_fst (cur_doRead sem _ _ _) heq]
      | write r c v k =>
        simp only [tdRun] at h
        split at h
        · cases h
        · rename_i heq; rw [ihP _ _ _ _ h, cur_of_fst (cur_doWrite sem _ _ _ _) heq]
      | wrote r c v k =>
        simp only [tdRun] at h
        split at h
        · cases h
        · rename_i heq; rw [ihP _ _ _ _ h, cur_of_fst (cur_doWrote sem _ _ _ _) heq]

theorem cur_tdRequire {f : Nat} {s s' : Sess} {t c : Nat} {out : Int}
    (h : tdRequire sem body f s t c = (s', .ok out)) : s'.cur = s.cur :=
  (td_cur sem body f).1 s t c s' out h
theorem cur_tdMake {f : Nat} {s s' : Sess} {t : Nat} {out : Int}
    (h : tdMake sem body f s t = (s', .ok out)) : s'.cur = s.cur :=
  (td_cur sem body f).2.1 s t s' out h
theorem cur_tdCheck {f : Nat} {s s' : Sess} {n : Nat} {o : Option Int}
    (h : tdCheck sem body f s n = (s', .ok o)) : s'.cur = s.cur :=
  (td_cur sem body f).2.2.1 s n s' o h
theorem cur_tdCheckDeps {f : Nat} {s s' : Sess} {ds : List Dep} {b : Bool}
    (h : tdCheckDeps sem body f s ds = (s', .ok b)) : s'.cur = s.cur :=
  (td_cur sem body f).2.2.2.1 s ds s' b h
theorem cur_tdRun {f : Nat} {s s' : Sess} {p : Prog} {out : Int}
    (h : tdRun sem body f s p = (s', .ok out)) : s'.cur = s.cur :=
  (td_cur sem body f).2.2.2.2 s p s' out h

/-! ### bottom-up -/

theorem cur_trySchedule (s : Sess) (tnode : Nat) (d : Dep) : (trySchedule sem s tnode d).cur = s.cur := by
  cases ht : s.store.taskOf tnode with
  | none => rw [trySchedule_other sem s tnode d (.inl ht)]
  | some t =>
    cases d with
    | reserved => rw [trySchedule_other sem s tnode _ (.inr (.inl rfl))]
    | require t' c stamp => rw [trySchedule_other sem s tnode _ (.inr (.inr ⟨_, _, _, rfl⟩))]
    | read r c stamp => rw [trySchedule_read sem s tnode t r c stamp ht]; split <;> rfl
    | write r c stamp => rw [trySchedule_write sem s tnode t r c stamp ht]; split <;> rfl

theorem cur_foldl {α : Type} (g : Sess → α → Sess) (hg : ∀ (s : Sess) x, (g s x).cur = s.cur)
    (l : List α) (s : Sess) : (l.foldl g s).cur = s.cur := by
  induction l generalizing s with
  | nil => rfl
  | cons x l ih => exact (ih _).trans (hg s x)

theorem cur_writtenSchedStep (s : Sess) (w : Nat) : (writtenSchedStep sem s w).cur = s.cur := by
  unfold writtenSchedStep
  split
  · rfl
  · simp only [emit_cur]
    exact cur_foldl _ (fun s (p : Nat × Dep) => cur_trySchedule sem s p.1 p.2) _ _

theorem cur_reqSchedStep (out : Int) (s : Sess) (p : Nat × Dep) :
    (reqSchedStep sem out s p).cur = s.cur := by
  unfold reqSchedStep
  split
  · simp only; split <;> rfl
  · rfl

theorem cur_scheduleAfterExec (s : Sess) (node t : Nat) (out : Int) :
    (scheduleAfterExec sem s node t out).cur = s.cur := by
  rw [scheduleAfterExec_eq]
  simp only [markConsistent_cur, emit_cur]
  rw [cur_foldl _ (cur_reqSchedStep sem out)]
  simp only [emit_cur]
  rw [cur_foldl _ (cur_writtenSchedStep sem)]

theorem bu_cur (f : Nat) :
    (∀ (s : Sess) t c, CurOk s (buRequire sem body f s t c)) ∧
    (∀ (s : Sess) t n, CurOk s (buMake sem body f s t n)) ∧
    (∀ (s : Sess) t n, CurOk s (buExec sem body f s t n)) ∧
    (∀ (s : Sess) n, CurOk s (buExecAndSchedule sem body f s n)) ∧
    (∀ (s : Sess) n, CurOk s (buRequireNow sem body f s n)) ∧
    (∀ (s : Sess) p, CurOk s (buRun sem body f s p)) := by
  induction f with
  | zero =>
    refine ⟨?_, ?_, ?_, ?_, ?_, ?_⟩ <;> intros <;> intro s' a h <;>
      simp only [buRequire, buMake, buExec, buExecAndSchedule, buRequireNow, buRun] at h <;> cases h
  | succ f ih =>
    obtain ⟨ihR, ihM, ihE, ihS, ihN, ihP⟩ := ih
    refine ⟨?_, ?_, ?_, ?_, ?_, ?_⟩
    · intro s t c s' out h
      simp only [buRequire] at h
      split at h
      · cases h
      · rename_i s₁ heq
        split at h
        · cases h
        · rename_i s₂ o heq₂
          split at h
          · cases h
          · rename_i s₃ heq₃
            cases h
            have c₁ := cur_of_fst (cur_reserveRequire _ _) heq
            have c₂ := ihM _ _ _ _ _ heq₂
            have c₃ := cur_of_fst (cur_updateRequire _ _ _ _ _) heq₃
            simp only [emit_cur] at c₁ c₃
            simp only [markConsistent_cur]
            rw [c₃, c₂, c₁]
    · intro s t n s' out h
      simp only [buMake] at h
      split at h
      · split at h <;> cases h <;> rfl
      · split at h
        · exact ihE _ _ _ _ _ h
        · split at h
          · cases h
          · rename_i heq; cases h; exact ihN _ _ _ _ heq
          · rename_i heq
            split at h
            · cases h; exact ihN _ _ _ _ heq
            · cases h
    · intro s t n s' out h
      simp only [buExec] at h
      split at h
      · cases h
      · cases h; rfl
    · intro s n s' out h
      simp only [buExecAndSchedule] at h
      split at h
      · cases h
      · split at h
        · cases h
        · rename_i heq
          cases h
          rw [cur_scheduleAfterExec]
          exact ihE _ _ _ _ _ heq
    · intro s n s' o h
      simp only [buRequireNow] at h
      split at h
      · cases h; rfl
      · split at h
        · cases h; rfl
        · split at h
          · cases h
          · rename_i heq
            have c₁ := ihS _ _ _ _ heq
            split at h
            · cases h; exact c₁
            · have c₂ := ihN _ _ _ _ h
              rw [c₂]; exact c₁
    · intro s p s' a h
      cases p with
      | ret v => simp only [buRun] at h; cases h; rfl
      | panic => simp only [buRun] at h; cases h
      | req t c k =>
        simp only [buRun] at h
        split at h
        · cases h
        · rename_i heq; rw [ihP _ _ _ _ h, ihR _ _ _ _ _ heq]
      | read r c k =>
        simp only [buRun] at h
        split at h
        · cases h
        · rename_i heq; rw [ihP _ _ _ _ h, cur_of_fst (cur_doRead sem _ _ _) heq]
      | write r c v k =>
        simp only [buRun] at h
        split at h
        · cases h
        · rename_i heq; rw [ihP _ _ _ _ h, cur_of_fst (cur_doWrite sem _ _ _ _) heq]
      | wrote r c v k =>
        simp only [buRun] at h
        split at h
        · cases h
        · rename_i heq; rw [ihP _ _ _ _ h, cur_of_fst (cur_doWrote sem _ _ _ _) heq]

theorem cur_buMake {f : Nat} {s s' : Sess} {t n : Nat} {out : Int}
    (h : buMake sem body f s t n = (s', .ok out)) : s'.cur = s.cur :=
  (bu_cur sem body f).2.1 s t n s' out h
theorem cur_buRequire {f : Nat} {s s' : Sess} {t c : Nat} {out : Int}
    (h : buRequire sem body f s t c = (s', .ok out)) : s'.cur = s.cur :=
  (bu_cur sem body f).1 s t c s' out h

end PieModel
