/-
Decidable equality for tracker events and results, for evaluating concrete scenarios with
`decide +kernel` in the property files.  Kept in its own namespace so that the instance names
cannot clash with instances derived elsewhere.
-/
import PieModel.Build.Syntax

namespace PieModel.DecEqAux

instance decEqExcept {ε α : Type} [DecidableEq ε] [DecidableEq α] : DecidableEq (Except ε α) :=
  fun a b =>
  match a, b with
  | .ok x, .ok y => if h : x = y then isTrue (by rw [h]) else isFalse (fun h' => h (Except.ok.inj h'))
  | .error x, .error y =>
    if h : x = y then isTrue (by rw [h]) else isFalse (fun h' => h (Except.error.inj h'))
  | .ok _, .error _ => isFalse (fun h => by cases h)
  | .error _, .ok _ => isFalse (fun h => by cases h)

deriving instance DecidableEq for Ev
deriving instance DecidableEq for Res

end PieModel.DecEqAux
