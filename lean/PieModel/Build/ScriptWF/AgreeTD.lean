/-
Agreement of two checker semantics (part 3): the five mutually recursive functions of the
top-down context, `sessionRequire`, `requireAll`, `cleanBuild`.

Each function is first rewritten with the sequencing combinator `bindS` (pure unfolding), then the
agreement is a term-mode composition (`SameRes.bind`).
-/
import PieModel.Build.ScriptWF.AgreePrims
import PieModel.Build.Proofs.TopDownSteps

namespace PieModel.ScriptWF
open PieModel

variable {P Q : Nat → Prop} {sem sem' : Sem} {body : Nat → Prog}

/-- Sequencing of interpreter steps: stop at an abort. -/
def bindS {α β : Type} (x : Sess × Res α) (k : Sess → α → Sess × Res β) : Sess × Res β :=
  match x with
  | (s, .abort a) => (s, .abort a)
  | (s, .ok v) => k s v

theorem bindS_abort_of {α β : Type} {x : Sess × Res α} {s : Sess} {a : Abort} (h : x = (s, .abort a))
    (k : Sess → α → Sess × Res β) : bindS x k = (s, .abort a) := by subst h; rfl

theorem bindS_ok_of {α β : Type} {x : Sess × Res α} {s : Sess} {v : α} (h : x = (s, .ok v))
    (k : Sess → α → Sess × Res β) : bindS x k = k s v := by subst h; rfl

/-- One step of the proof of a `bindS` equation: split the next `match` of the unfolded
definition and move the case into the combinator. -/
macro "bind_step" : tactic =>
  `(tactic| (split <;> rename_i h <;>
      first
      | exact (bindS_abort_of h _).symm
      | (refine Eq.trans ?_ (bindS_ok_of h _).symm; first | rfl | (try dsimp only))))

theorem SameRes.pure {α : Type} {s : Sess} (hs : EdgesCk Q s.store) (r : α) : SameRes Q (s, r) (s, r) :=
  ⟨rfl, hs⟩

theorem SameRes.bind {α β : Type} {x y : Sess × Res α} (h : SameRes Q x y)
    {k k' : Sess → α → Sess × Res β}
    (hk : ∀ s v, EdgesCk Q s.store → SameRes Q (k s v) (k' s v)) :
    SameRes Q (bindS x k) (bindS y k') := by
  obtain ⟨rfl, hy⟩ := h
  obtain ⟨s, r⟩ := x
  cases r with
  | ok v => exact hk s v hy
  | abort a => exact ⟨rfl, hy⟩

/-! ### the one-step equations -/

theorem tdRequire_bind (sem : Sem) (body : Nat → Prog) (f : Nat) (s : Sess) (t c : Nat) :
    tdRequire sem body (f + 1) s t c =
      bindS (reserveRequire { s.emit (.requireStart t c) with
          store := (s.store.getOrCreateTaskNode t).1 } (s.store.getOrCreateTaskNode t).2) fun s1 _ =>
      bindS (tdMake sem body f s1 t) fun s2 out =>
      bindS (updateRequire (s2.emit (.requireEnd t c (sem.ostamp c out) out))
          (s.store.getOrCreateTaskNode t).2 t c (sem.ostamp c out)) fun s3 _ => (s3, .ok out) := by
  rw [tdRequire]
  dsimp only
  bind_step
  bind_step
  bind_step

/-- The execution branch of `tdMake`. -/
def tdExecK (sem : Sem) (body : Nat → Prog) (f : Nat) (node t : Nat) (s1 : Sess) : Sess × Res Int :=
  bindS (tdRun sem body f
      (Sess.emit { s1 with store := s1.store.resetTask node, cur := some node } (.executeStart t))
      (body t)) fun s2 o =>
    (Sess.markConsistent { s2.emit (.executeEnd t o) with
        cur := s1.cur, store := s2.store.setTaskOutput node o } node, .ok o)

theorem tdMake_bind (sem : Sem) (body : Nat → Prog) (f : Nat) (s : Sess) (t : Nat) :
    tdMake sem body (f + 1) s t =
      if (s.store.getOrCreateTaskNode t).2 ∈ s.consistent then
        match (s.store.getOrCreateTaskNode t).1.taskOutput (s.store.getOrCreateTaskNode t).2 with
        | some o => ({ s with store := (s.store.getOrCreateTaskNode t).1 }, .ok o)
        | none => ({ s with store := (s.store.getOrCreateTaskNode t).1 }, .abort (.bug 10))
      else
        bindS (tdCheck sem body f { s with store := (s.store.getOrCreateTaskNode t).1 }
          (s.store.getOrCreateTaskNode t).2) fun s1 r =>
          match r with
          | some o => (s1.markConsistent (s.store.getOrCreateTaskNode t).2, .ok o)
          | none => tdExecK sem body f (s.store.getOrCreateTaskNode t).2 t s1 := by
  rw [tdMake]
  dsimp only
  split
  · rfl
  · bind_step
    dsimp only [tdExecK]
    bind_step

theorem tdCheck_bind (sem : Sem) (body : Nat → Prog) (f : Nat) (s : Sess) (node : Nat) :
    tdCheck sem body (f + 1) s node =
      match s.store.taskOutput node with
      | none => (s, .ok none)
      | some _ =>
        bindS (tdCheckDeps sem body f s (s.store.depsFrom node)) fun s1 b =>
          if b then (s1, .ok (s1.store.taskOutput node)) else (s1, .ok none) := by
  rw [tdCheck]
  cases h0 : s.store.taskOutput node with
  | none => rfl
  | some o =>
    dsimp only
    bind_step

theorem tdCheckDeps_require_bind (sem : Sem) (body : Nat → Prog) (f : Nat) (s : Sess) (t c : Nat)
    (stamp : Stamp) (ds : List Dep) :
    tdCheckDeps sem body (f + 1) s (.require t c stamp :: ds) =
      bindS (tdMake sem body f (s.emit (.checkTaskStart t c stamp)) t) fun s1 out =>
        if sem.ocheck c out stamp then
          tdCheckDeps sem body f (s1.emit (.checkTaskEnd t c stamp (sem.ocheck c out stamp))) ds
        else (s1.emit (.checkTaskEnd t c stamp (sem.ocheck c out stamp)), .ok false) := by
  rw [tdCheckDeps]
  dsimp only
  bind_step

theorem tdRun_req_bind (sem : Sem) (body : Nat → Prog) (f : Nat) (s : Sess) (t c : Nat)
    (k : Int → Prog) :
    tdRun sem body (f + 1) s (.req t c k) =
      bindS (tdRequire sem body f s t c) fun s1 out => tdRun sem body f s1 (k out) := by
  rw [tdRun]; bind_step

theorem tdRun_read_bind (sem : Sem) (body : Nat → Prog) (f : Nat) (s : Sess) (r c : Nat)
    (k : Except Int (Option Int) → Prog) :
    tdRun sem body (f + 1) s (.read r c k) =
      bindS (doRead sem s r c) fun s1 x => tdRun sem body f s1 (k x) := by
  rw [tdRun]; bind_step

theorem tdRun_write_bind (sem : Sem) (body : Nat → Prog) (f : Nat) (s : Sess) (r c : Nat)
    (v : Option Int) (k : Except Int Unit → Prog) :
    tdRun sem body (f + 1) s (.write r c v k) =
      bindS (doWrite sem s r c v) fun s1 x => tdRun sem body f s1 (k x) := by
  rw [tdRun]; bind_step

theorem tdRun_wrote_bind (sem : Sem) (body : Nat → Prog) (f : Nat) (s : Sess) (r c : Nat)
    (v : Option Int) (k : Except Int Unit → Prog) :
    tdRun sem body (f + 1) s (.wrote r c v k) =
      bindS (doWrote sem s r c v) fun s1 x => tdRun sem body f s1 (k x) := by
  rw [tdRun]; bind_step

/-! ### the joint induction -/

/-- The statement of the joint induction: from a store satisfying the edge invariant, each of the
five functions returns the same pair under both semantics, and the edge invariant holds again. -/
structure TdAgree (P Q : Nat → Prop) (sem sem' : Sem) (body : Nat → Prog) (f : Nat) : Prop where
  require : ∀ (s : Sess) t c, EdgesCk Q s.store →
    SameRes Q (tdRequire sem body f s t c) (tdRequire sem' body f s t c)
  make : ∀ (s : Sess) t, EdgesCk Q s.store → SameRes Q (tdMake sem body f s t) (tdMake sem' body f s t)
  check : ∀ (s : Sess) n, EdgesCk Q s.store → SameRes Q (tdCheck sem body f s n) (tdCheck sem' body f s n)
  checkDeps : ∀ (s : Sess) ds, EdgesCk Q s.store → (∀ d ∈ ds, DepCk Q d) →
    SameRes Q (tdCheckDeps sem body f s ds) (tdCheckDeps sem' body f s ds)
  run : ∀ (s : Sess) p, EdgesCk Q s.store → ProgCk P p →
    SameRes Q (tdRun sem body f s p) (tdRun sem' body f s p)

theorem tdAgree_zero : TdAgree P Q sem sem' body 0 := by
  refine ⟨?_, ?_, ?_, ?_, ?_⟩ <;> intros <;>
    simp only [tdRequire, tdMake, tdCheck, tdCheckDeps, tdRun] <;> exact SameRes.pure (by assumption) _

section Step
variable (ha : SemAgree P Q sem sem') (hb : ∀ t, ProgCk P (body t)) {f : Nat}
  (ih : TdAgree P Q sem sem' body f)
include ha ih

theorem tdAgree_require (s : Sess) (t c : Nat) (hs : EdgesCk Q s.store) :
    SameRes Q (tdRequire sem body (f + 1) s t c) (tdRequire sem' body (f + 1) s t c) := by
  rw [tdRequire_bind, tdRequire_bind]
  refine SameRes.bind ⟨rfl, reserveRequire_edges _ (hs.getOrCreateTaskNode t)⟩ fun s1 _ hs1 => ?_
  refine SameRes.bind (ih.make s1 t hs1) fun s2 out hs2 => ?_
  rw [ha.ostamp c out]
  exact SameRes.bind ⟨rfl, updateRequire_edges _ _ _ _ (by exact hs2)⟩ fun s3 _ hs3 => ⟨rfl, hs3⟩

omit ha in
include hb in
theorem tdAgree_make (s : Sess) (t : Nat) (hs : EdgesCk Q s.store) :
    SameRes Q (tdMake sem body (f + 1) s t) (tdMake sem' body (f + 1) s t) := by
  rw [tdMake_bind, tdMake_bind]
  split
  · split <;> exact .pure (hs.getOrCreateTaskNode t) _
  · refine SameRes.bind (ih.check _ _ (hs.getOrCreateTaskNode t)) fun s1 r hs1 => ?_
    cases r with
    | some o => exact ⟨rfl, by rw [markConsistent_store']; exact hs1⟩
    | none =>
      dsimp only [tdExecK]
      refine SameRes.bind (ih.run _ _ (hs1.resetTask _) (hb t)) fun s2 o hs2 => ?_
      exact ⟨rfl, by rw [markConsistent_store']; exact hs2.setTaskOutput _ _⟩

omit ha in
theorem tdAgree_check (s : Sess) (n : Nat) (hs : EdgesCk Q s.store) :
    SameRes Q (tdCheck sem body (f + 1) s n) (tdCheck sem' body (f + 1) s n) := by
  rw [tdCheck_bind, tdCheck_bind]
  split
  · exact ⟨rfl, hs⟩
  · refine SameRes.bind (ih.checkDeps _ _ hs (fun d hd => hs.depsFrom hd)) fun s1 b hs1 => ?_
    split <;> exact ⟨rfl, hs1⟩

theorem tdAgree_checkDeps (s : Sess) (ds : List Dep) (hs : EdgesCk Q s.store)
    (hds : ∀ d ∈ ds, DepCk Q d) :
    SameRes Q (tdCheckDeps sem body (f + 1) s ds) (tdCheckDeps sem' body (f + 1) s ds) := by
  cases ds with
  | nil => simp only [tdCheckDeps]; exact ⟨rfl, hs⟩
  | cons d ds =>
    have hd : DepCk Q d := hds d List.mem_cons_self
    have hds' : ∀ d ∈ ds, DepCk Q d := fun d h => hds d (List.mem_cons_of_mem _ h)
    cases d with
    | reserved => simp only [tdCheckDeps]; exact ⟨rfl, hs⟩
    | require t c stamp =>
      rw [tdCheckDeps_require_bind, tdCheckDeps_require_bind]
      refine SameRes.bind (ih.make _ _ (by exact hs)) fun s1 out hs1 => ?_
      rw [ha.ocheck c out stamp]
      split
      · exact ih.checkDeps _ ds hs1 hds'
      · exact ⟨rfl, hs1⟩
    | read r c stamp =>
      rw [tdCheckDeps_read, tdCheckDeps_read, ha.rcheck c hd]
      split
      · exact ih.checkDeps _ ds hs hds'
      · exact ⟨rfl, hs⟩
      · exact ⟨rfl, hs⟩
    | write r c stamp =>
      rw [tdCheckDeps_write, tdCheckDeps_write, ha.rcheck c hd]
      split
      · exact ih.checkDeps _ ds hs hds'
      · exact ⟨rfl, hs⟩
      · exact ⟨rfl, hs⟩

theorem tdAgree_run (s : Sess) (p : Prog) (hs : EdgesCk Q s.store) (hp : ProgCk P p) :
    SameRes Q (tdRun sem body (f + 1) s p) (tdRun sem' body (f + 1) s p) := by
  cases p with
  | ret v => simp only [tdRun]; exact ⟨rfl, hs⟩
  | panic => simp only [tdRun]; exact ⟨rfl, hs⟩
  | req t c k =>
    rw [tdRun_req_bind, tdRun_req_bind]
    exact SameRes.bind (ih.require s t c hs) fun s1 out hs1 => ih.run s1 (k out) hs1 (hp out)
  | read r c k =>
    rw [tdRun_read_bind, tdRun_read_bind]
    exact SameRes.bind (doRead_same ha hp.1 hs) fun s1 x hs1 => ih.run s1 (k x) hs1 (hp.2 x)
  | write r c v k =>
    rw [tdRun_write_bind, tdRun_write_bind]
    exact SameRes.bind (doWrite_same ha hp.1 hs) fun s1 x hs1 => ih.run s1 (k x) hs1 (hp.2 x)
  | wrote r c v k =>
    rw [tdRun_wrote_bind, tdRun_wrote_bind]
    exact SameRes.bind (doWrote_same ha hp.1 hs) fun s1 x hs1 => ih.run s1 (k x) hs1 (hp.2 x)

end Step

/-- **Top-down agreement**, every fuel. -/
theorem tdAgree (ha : SemAgree P Q sem sem') (hb : ∀ t, ProgCk P (body t)) (f : Nat) :
    TdAgree P Q sem sem' body f := by
  induction f with
  | zero => exact tdAgree_zero
  | succ f ih =>
    exact ⟨tdAgree_require ha ih, tdAgree_make hb ih, tdAgree_check ih,
      tdAgree_checkDeps ha ih, tdAgree_run ha ih⟩

/-! ### sessions -/

theorem sessionRequire_bind (sem : Sem) (body : Nat → Prog) (fuel : Nat) (s : Sess) (t : Nat) :
    sessionRequire sem body fuel s t =
      bindS (tdRequire sem body fuel (Sess.emit { s with cur := none } .buildStart) t alwaysChecker)
        fun s1 o => (s1.emit .buildEnd, .ok o) := by
  unfold sessionRequire
  dsimp only
  bind_step

theorem requireAll_cons_bind (sem : Sem) (body : Nat → Prog) (fuel : Nat) (s : Sess) (t : Nat)
    (ts : List Nat) :
    requireAll sem body fuel s (t :: ts) =
      bindS (sessionRequire sem body fuel s t) fun s1 o =>
      bindS (requireAll sem body fuel s1 ts) fun s2 os => (s2, .ok (o :: os)) := by
  rw [requireAll]
  bind_step
  bind_step

section Session
variable (ha : SemAgree P Q sem sem') (hb : ∀ t, ProgCk P (body t))
include ha hb

theorem sessionRequire_same (fuel : Nat) (s : Sess) (t : Nat) (hs : EdgesCk Q s.store) :
    SameRes Q (sessionRequire sem body fuel s t) (sessionRequire sem' body fuel s t) := by
  rw [sessionRequire_bind, sessionRequire_bind]
  exact SameRes.bind ((tdAgree ha hb fuel).require _ t _ (by exact hs)) fun s1 o hs1 =>
    ⟨rfl, hs1⟩

theorem requireAll_same (fuel : Nat) (ts : List Nat) (s : Sess) (hs : EdgesCk Q s.store) :
    SameRes Q (requireAll sem body fuel s ts) (requireAll sem' body fuel s ts) := by
  induction ts generalizing s with
  | nil => simp only [requireAll]; exact ⟨rfl, hs⟩
  | cons t ts ih =>
    rw [requireAll_cons_bind, requireAll_cons_bind]
    exact SameRes.bind (sessionRequire_same ha hb fuel s t hs) fun s1 o hs1 =>
      SameRes.bind (ih s1 hs1) fun s2 os hs2 => ⟨rfl, hs2⟩

theorem cleanBuild_same (fuel : Nat) (fs : List (Nat × Int)) (roots : List Nat) :
    SameRes Q (cleanBuild sem body fuel fs roots) (cleanBuild sem' body fuel fs roots) :=
  requireAll_same ha hb fuel roots _ EdgesCk.empty

end Session

end PieModel.ScriptWF
