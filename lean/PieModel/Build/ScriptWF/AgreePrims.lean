/-
Agreement of two checker semantics (part 2): the session primitives and the scheduling functions.
-/
import PieModel.Build.ScriptWF.Edges
import PieModel.Build.Proofs.BottomUpSteps

namespace PieModel.ScriptWF
open PieModel

variable {P Q : Nat → Prop} {sem sem' : Sem}

/-- The two results coincide and the resulting store satisfies the edge invariant. -/
def SameRes (Q : Nat → Prop) {α : Type} (x y : Sess × α) : Prop := x = y ∧ EdgesCk Q y.1.store

theorem SameRes.of_eq {α : Type} {x y : Sess × α} (h : x = y) (hy : EdgesCk Q y.1.store) :
    SameRes Q x y := ⟨h, hy⟩

theorem edges_of_eq {α : Type} {y : Sess × α} (h : EdgesCk Q y.1.store) {s' : Sess} {r : α}
    (heq : y = (s', r)) : EdgesCk Q s'.store := by
  rw [heq] at h; exact h

/-! ### the primitives keep the edge invariant (any semantics) -/

theorem EdgesCk.addDependency_of_eq {st st' : Store} {b : Store.AddDep} (h : EdgesCk Q st)
    {src dst : Nat} {d : Dep} (hd : DepCk Q d) (heq : st.addDependency src dst d = (st', b)) :
    EdgesCk Q st' := by
  have := h.addDependency src dst hd
  rw [heq] at this
  exact this

theorem doRead_edges (sem : Sem) {s : Sess} {r c : Nat} (hc : Q c) (hs : EdgesCk Q s.store) :
    EdgesCk Q (doRead sem s r c).1.store := by
  unfold doRead
  dsimp only
  repeat' split
  all_goals first
    | exact hs
    | exact hs.getOrCreateResNode r
    | (rename_i heq; exact (hs.getOrCreateResNode r).addDependency_of_eq (d := .read r c _) hc heq)

theorem doWrite_edges (sem : Sem) {s : Sess} {r c : Nat} {v : Option Int} (hc : Q c)
    (hs : EdgesCk Q s.store) : EdgesCk Q (doWrite sem s r c v).1.store := by
  cases v <;>
  · unfold doWrite
    dsimp only [Sess.setContent]
    repeat' split
    all_goals first
      | exact hs
      | exact hs.getOrCreateResNode r
      | (rename_i heq; exact (hs.getOrCreateResNode r).addDependency_of_eq (d := .write r c _) hc heq)

theorem doWrote_edges (sem : Sem) {s : Sess} {r c : Nat} {v : Option Int} (hc : Q c)
    (hs : EdgesCk Q s.store) : EdgesCk Q (doWrote sem s r c v).1.store := by
  cases v <;>
  · unfold doWrote
    dsimp only [Sess.setContent]
    repeat' split
    all_goals first
      | exact hs
      | exact hs.getOrCreateResNode r
      | (rename_i heq; exact (hs.getOrCreateResNode r).addDependency_of_eq (d := .write r c _) hc heq)

theorem reserveRequire_edges {s : Sess} (dst : Nat) (hs : EdgesCk Q s.store) :
    EdgesCk Q (reserveRequire s dst).1.store := by
  unfold reserveRequire
  repeat' split
  all_goals first
    | exact hs
    | (rename_i heq; exact hs.addDependency_of_eq (d := .reserved) trivial heq)

theorem updateRequire_edges {s : Sess} (dst t c : Nat) (stamp : Stamp) (hs : EdgesCk Q s.store) :
    EdgesCk Q (updateRequire s dst t c stamp).1.store := by
  unfold updateRequire
  repeat' split
  all_goals first
    | exact hs
    | (rename_i heq; exact hs.setDependency (d := .require t c stamp) trivial heq)

/-! ### the primitives agree -/

theorem doRead_same (ha : SemAgree P Q sem sem') {s : Sess} {r c : Nat} (hc : P c)
    (hs : EdgesCk Q s.store) : SameRes Q (doRead sem s r c) (doRead sem' s r c) := by
  refine ⟨?_, doRead_edges sem' (ha.sub c hc) hs⟩
  unfold doRead
  simp only [ha.rstamp c hc]

theorem doWrite_same (ha : SemAgree P Q sem sem') {s : Sess} {r c : Nat} {v : Option Int} (hc : P c)
    (hs : EdgesCk Q s.store) : SameRes Q (doWrite sem s r c v) (doWrite sem' s r c v) := by
  refine ⟨?_, doWrite_edges sem' (ha.sub c hc) hs⟩
  unfold doWrite
  simp only [ha.rstamp c hc]

theorem doWrote_same (ha : SemAgree P Q sem sem') {s : Sess} {r c : Nat} {v : Option Int} (hc : P c)
    (hs : EdgesCk Q s.store) : SameRes Q (doWrote sem s r c v) (doWrote sem' s r c v) := by
  refine ⟨?_, doWrote_edges sem' (ha.sub c hc) hs⟩
  unfold doWrote
  simp only [ha.rstamp c hc]

theorem checkResDep_agree (ha : SemAgree P Q sem sem') (s : Sess) (r : Nat) {c : Nat} (stamp : Stamp)
    (hc : Q c) : checkResDep sem s r c stamp = checkResDep sem' s r c stamp :=
  ha.rcheck c hc _ _

/-! ### scheduling -/

theorem trySchedule_agree (ha : SemAgree P Q sem sem') (s : Sess) (n : Nat) {d : Dep}
    (hd : DepCk Q d) : trySchedule sem s n d = trySchedule sem' s n d := by
  cases ht : s.store.taskOf n with
  | none => rw [trySchedule_other sem s n d (.inl ht), trySchedule_other sem' s n d (.inl ht)]
  | some t =>
    cases d with
    | reserved =>
      rw [trySchedule_other sem s n _ (.inr (.inl rfl)), trySchedule_other sem' s n _ (.inr (.inl rfl))]
    | require t' c st =>
      rw [trySchedule_other sem s n _ (.inr (.inr ⟨_, _, _, rfl⟩)),
        trySchedule_other sem' s n _ (.inr (.inr ⟨_, _, _, rfl⟩))]
    | read r c st =>
      rw [trySchedule_read sem s n t r c st ht, trySchedule_read sem' s n t r c st ht, ha.rcheck c hd]
    | write r c st =>
      rw [trySchedule_write sem s n t r c st ht, trySchedule_write sem' s n t r c st ht, ha.rcheck c hd]

theorem foldl_trySchedule_agree (ha : SemAgree P Q sem sem') (l : List (Nat × Dep))
    (hl : ∀ p ∈ l, DepCk Q p.2) (s : Sess) :
    l.foldl (fun s (p : Nat × Dep) => trySchedule sem s p.1 p.2) s =
      l.foldl (fun s (p : Nat × Dep) => trySchedule sem' s p.1 p.2) s := by
  induction l generalizing s with
  | nil => rfl
  | cons p l ih =>
    simp only [List.foldl_cons]
    rw [trySchedule_agree ha s p.1 (hl p List.mem_cons_self)]
    exact ih (fun q hq => hl q (List.mem_cons_of_mem _ hq)) _

theorem trySchedule_store (sem : Sem) (s : Sess) (n : Nat) (d : Dep) :
    (trySchedule sem s n d).store = s.store := by
  cases ht : s.store.taskOf n with
  | none => rw [trySchedule_other sem s n d (.inl ht)]
  | some t =>
    cases d with
    | reserved => rw [trySchedule_other sem s n _ (.inr (.inl rfl))]
    | require t' c stamp => rw [trySchedule_other sem s n _ (.inr (.inr ⟨_, _, _, rfl⟩))]
    | read r c stamp => rw [trySchedule_read sem s n t r c stamp ht]; split <;> rfl
    | write r c stamp => rw [trySchedule_write sem s n t r c stamp ht]; split <;> rfl

theorem foldl_store {α : Type} (g : Sess → α → Sess) (hg : ∀ (s : Sess) x, (g s x).store = s.store)
    (l : List α) (s : Sess) : (l.foldl g s).store = s.store := by
  induction l generalizing s with
  | nil => rfl
  | cons x l ih => exact (ih _).trans (hg s x)

theorem scheduleAffectedBy_store (sem : Sem) (s : Sess) (r : Nat) :
    (scheduleAffectedBy sem s r).store = (s.store.getOrCreateResNode r).1 := by
  unfold scheduleAffectedBy
  exact foldl_store _ (fun s (p : Nat × Dep) => trySchedule_store sem s p.1 p.2) _ _

theorem scheduleAffectedBy_agree (ha : SemAgree P Q sem sem') {s : Sess} (r : Nat)
    (hs : EdgesCk Q s.store) : scheduleAffectedBy sem s r = scheduleAffectedBy sem' s r := by
  unfold scheduleAffectedBy
  exact congrArg (fun x : Sess => x.emit (.schedResEnd r))
    (foldl_trySchedule_agree ha _ (fun p hp => (hs.getOrCreateResNode r).readWriteDepsTo hp) _)

theorem foldl_scheduleAffectedBy_same (ha : SemAgree P Q sem sem') (l : List Nat) {s : Sess}
    (hs : EdgesCk Q s.store) :
    l.foldl (fun s r => scheduleAffectedBy sem s r) s =
      l.foldl (fun s r => scheduleAffectedBy sem' s r) s ∧
    EdgesCk Q (l.foldl (fun s r => scheduleAffectedBy sem' s r) s).store := by
  induction l generalizing s with
  | nil => exact ⟨rfl, hs⟩
  | cons r l ih =>
    simp only [List.foldl_cons]
    rw [scheduleAffectedBy_agree ha r hs]
    exact ih (by rw [scheduleAffectedBy_store]; exact hs.getOrCreateResNode r)

theorem writtenSchedStep_store (sem : Sem) (s : Sess) (w : Nat) :
    (writtenSchedStep sem s w).store = s.store := by
  unfold writtenSchedStep
  split
  · rfl
  · exact foldl_store _ (fun s (p : Nat × Dep) => trySchedule_store sem s p.1 p.2) _ _

theorem writtenSchedStep_agree (ha : SemAgree P Q sem sem') {s : Sess} (w : Nat)
    (hs : EdgesCk Q s.store) : writtenSchedStep sem s w = writtenSchedStep sem' s w := by
  unfold writtenSchedStep
  split
  · rfl
  · rename_i r _
    exact congrArg (fun x : Sess => x.emit (.schedResEnd r))
      (foldl_trySchedule_agree ha _ (fun p hp => hs.readDepsTo hp) _)

theorem foldl_writtenSchedStep_agree (ha : SemAgree P Q sem sem') (l : List Nat) {s : Sess}
    (hs : EdgesCk Q s.store) :
    l.foldl (writtenSchedStep sem) s = l.foldl (writtenSchedStep sem') s := by
  induction l generalizing s with
  | nil => rfl
  | cons r l ih =>
    simp only [List.foldl_cons]
    rw [writtenSchedStep_agree ha r hs]
    exact ih (by rw [writtenSchedStep_store]; exact hs)

theorem reqSchedStep_agree (ha : SemAgree P Q sem sem') (out : Int) :
    reqSchedStep sem out = reqSchedStep sem' out := by
  funext s p
  unfold reqSchedStep
  simp only [ha.ocheck]

theorem scheduleAfterExec_agree (ha : SemAgree P Q sem sem') {s : Sess} (node t : Nat) (out : Int)
    (hs : EdgesCk Q s.store) :
    scheduleAfterExec sem s node t out = scheduleAfterExec sem' s node t out := by
  rw [scheduleAfterExec_eq, scheduleAfterExec_eq]
  dsimp only
  rw [foldl_writtenSchedStep_agree ha _ hs, reqSchedStep_agree ha]

theorem reqSchedStep_store (sem : Sem) (out : Int) (s : Sess) (p : Nat × Dep) :
    (reqSchedStep sem out s p).store = s.store := by
  unfold reqSchedStep
  split
  · dsimp only; split <;> rfl
  · rfl

theorem markConsistent_store' (x : Sess) (n : Nat) : (x.markConsistent n).store = x.store := by
  unfold Sess.markConsistent; split <;> rfl

theorem scheduleAfterExec_store (sem : Sem) (s : Sess) (node t : Nat) (out : Int) :
    (scheduleAfterExec sem s node t out).store = s.store := by
  rw [scheduleAfterExec_eq]
  dsimp only
  rw [markConsistent_store']
  exact (foldl_store _ (reqSchedStep_store sem out) _ _).trans
    (foldl_store _ (writtenSchedStep_store sem) _ _)

end PieModel.ScriptWF
