/-
Agreement of two checker semantics on the runs of a program table (part 1: definitions, the store
invariant `EdgesCk`, the session primitives).

Two checker tables `sem`, `sem'` *agree on `(P, Q)`* (`SemAgree P Q sem sem'`) if their output
checkers coincide, their resource stampers coincide on the checker ids satisfying `P` and their
resource checks coincide on the ids satisfying `Q`.  The interpreters call `rstamp c` only with
ids `c` written in the program (`ProgCk`), `rcheck c` only with ids stored in a read/write edge of
the store (`EdgesCk`), and the edges are made from the ids of the program.  No well-formedness of
the store is needed: `EdgesCk` speaks about the raw edge-data list of the graph.
-/
import PieModel.Build.Pie
import PieModel.Graph.Reorder
import PieModel.Graph.AList

namespace PieModel.ScriptWF
open PieModel

/-- Every resource-checker id at a `read`/`write`/`wrote` node of the program satisfies `P`. -/
def ProgCk (P : Nat → Prop) : Prog → Prop
  | .ret _ => True
  | .panic => True
  | .req _ _ k => ∀ o, ProgCk P (k o)
  | .read _ c k => P c ∧ ∀ x, ProgCk P (k x)
  | .write _ c _ k => P c ∧ ∀ x, ProgCk P (k x)
  | .wrote _ c _ k => P c ∧ ∀ x, ProgCk P (k x)

/-- The resource-checker id of a read/write dependency satisfies `Q`. -/
def DepCk (Q : Nat → Prop) : Dep → Prop
  | .read _ c _ => Q c
  | .write _ c _ => Q c
  | _ => True

/-- Every read/write edge of the store carries a checker id satisfying `Q`. -/
def EdgesCk (Q : Nat → Prop) (st : Store) : Prop := ∀ e ∈ st.g.edata, DepCk Q e.2

/-- `sem` and `sem'` agree: on all output checkers, on the resource stampers with ids in `P`, on
the resource checks with ids in `Q`; and `P ⊆ Q`. -/
structure SemAgree (P Q : Nat → Prop) (sem sem' : Sem) : Prop where
  ostamp : ∀ c o, sem.ostamp c o = sem'.ostamp c o
  ocheck : ∀ c o s, sem.ocheck c o s = sem'.ocheck c o s
  rstamp : ∀ c, P c → ∀ v, sem.rstamp c v = sem'.rstamp c v
  rcheck : ∀ c, Q c → ∀ v s, sem.rcheck c v s = sem'.rcheck c v s
  sub : ∀ c, P c → Q c

theorem ProgCk.mono {P P' : Nat → Prop} (h : ∀ c, P c → P' c) : ∀ {p : Prog}, ProgCk P p → ProgCk P' p
  | .ret _, _ => trivial
  | .panic, _ => trivial
  | .req _ _ _, hp => fun o => ProgCk.mono h (hp o)
  | .read _ _ _, hp => ⟨h _ hp.1, fun x => ProgCk.mono h (hp.2 x)⟩
  | .write _ _ _ _, hp => ⟨h _ hp.1, fun x => ProgCk.mono h (hp.2 x)⟩
  | .wrote _ _ _ _, hp => ⟨h _ hp.1, fun x => ProgCk.mono h (hp.2 x)⟩

/-! ### association lists: where the values come from -/

theorem mem_aset {κ α : Type} [DecidableEq κ] {l : List (κ × α)} {k : κ} {v : α} {x : κ × α}
    (h : x ∈ aset l k v) : x ∈ l ∨ x = (k, v) := by
  induction l with
  | nil => simp [aset] at h; exact .inr h
  | cons p l ih =>
    obtain ⟨k', v'⟩ := p
    simp only [aset] at h
    split at h
    · rcases List.mem_cons.mp h with h | h
      · exact .inr h
      · exact .inl (List.mem_cons_of_mem _ h)
    · rcases List.mem_cons.mp h with h | h
      · exact .inl (h ▸ List.mem_cons_self)
      · rcases ih h with h | h
        · exact .inl (List.mem_cons_of_mem _ h)
        · exact .inr h

theorem mem_amodify {κ α : Type} [DecidableEq κ] {l : List (κ × α)} {k : κ} {f : α → α} {x : κ × α}
    (h : x ∈ amodify l k f) : x ∈ l ∨ ∃ v, x = (k, f v) := by
  induction l with
  | nil => simp [amodify] at h
  | cons p l ih =>
    obtain ⟨k', v'⟩ := p
    simp only [amodify] at h
    split at h
    · rename_i hk
      rcases List.mem_cons.mp h with h | h
      · exact .inr ⟨v', by rw [h, hk]⟩
      · exact .inl (List.mem_cons_of_mem _ h)
    · rcases List.mem_cons.mp h with h | h
      · exact .inl (h ▸ List.mem_cons_self)
      · rcases ih h with h | h
        · exact .inl (List.mem_cons_of_mem _ h)
        · exact .inr h

theorem mem_aerase {κ α : Type} [DecidableEq κ] {l : List (κ × α)} {k : κ} {x : κ × α}
    (h : x ∈ aerase l k) : x ∈ l := by
  induction l with
  | nil => simp [aerase] at h
  | cons p l ih =>
    obtain ⟨k', v'⟩ := p
    simp only [aerase] at h
    split at h
    · exact List.mem_cons_of_mem _ h
    · rcases List.mem_cons.mp h with h | h
      · exact h ▸ List.mem_cons_self
      · exact List.mem_cons_of_mem _ (ih h)

theorem mem_foldl_aerase {κ α β : Type} [DecidableEq κ] (ks : List β) (mk : β → κ)
    {l : List (κ × α)} {x : κ × α} (h : x ∈ ks.foldl (fun ed c => aerase ed (mk c)) l) : x ∈ l := by
  induction ks generalizing l with
  | nil => exact h
  | cons c ks ih => exact mem_aerase (ih h)

/-! ### the graph operations -/

section Graph
variable {N E : Type}

theorem mem_edata_aset_cases {g : Dag N E} {s t : Nat} {d : E} {x : (Nat × Nat) × E}
    (h : x ∈ aset g.edata (s, t) d) : x ∈ g.edata ∨ x.2 = d := by
  rcases mem_aset h with h | h
  · exact .inl h
  · exact .inr (by rw [h])

theorem edata_addEdge_sub (g : Dag N E) (s t : Nat) (d : E) {x : (Nat × Nat) × E}
    (h : x ∈ (g.addEdge s t d).1.edata) : x ∈ g.edata ∨ x.2 = d := by
  unfold Dag.addEdge Dag.insertKeep at h
  dsimp only at h
  repeat' split at h
  all_goals first
    | exact .inl h
    | exact mem_edata_aset_cases h
    | (rw [Dag.reorderNodes_eq, (Dag.foldl_setTopo_fields _ _).2.2.2] at h
       exact mem_edata_aset_cases h)

theorem edata_removeOutgoing_sub (g : Dag N E) (n : Nat) {x : (Nat × Nat) × E}
    (h : x ∈ (g.removeOutgoingEdgesOfNode n).1.edata) : x ∈ g.edata := by
  unfold Dag.removeOutgoingEdgesOfNode at h
  split at h
  · exact h
  · split at h
    · exact h
    · exact mem_foldl_aerase _ (fun c => (n, c)) h

theorem edata_of_outgoingEdges (g : Dag N E) (n : Nat) {p : Nat × E} (h : p ∈ g.outgoingEdges n) :
    ((n, p.1), p.2) ∈ g.edata := by
  unfold Dag.outgoingEdges at h
  obtain ⟨c, _, hc⟩ := List.mem_filterMap.mp h
  cases ha : aget g.edata (n, c) with
  | none => rw [ha] at hc; cases hc
  | some d => rw [ha] at hc; cases hc; exact aget_mem ha

theorem edata_of_incomingEdges (g : Dag N E) (n : Nat) {p : Nat × E} (h : p ∈ g.incomingEdges n) :
    ((p.1, n), p.2) ∈ g.edata := by
  unfold Dag.incomingEdges at h
  obtain ⟨c, _, hc⟩ := List.mem_filterMap.mp h
  cases ha : aget g.edata (c, n) with
  | none => rw [ha] at hc; cases hc
  | some d => rw [ha] at hc; cases hc; exact aget_mem ha

end Graph

/-! ### the store operations preserve `EdgesCk` -/

variable {Q : Nat → Prop}

theorem EdgesCk.empty : EdgesCk Q ({} : Store) := fun _ h => nomatch h

theorem EdgesCk.of_edata {st st' : Store} (h : EdgesCk Q st) (he : st'.g.edata = st.g.edata) :
    EdgesCk Q st' := fun e hm => h e (he ▸ hm)

theorem edata_getOrCreateTaskNode (st : Store) (t : Nat) :
    (st.getOrCreateTaskNode t).1.g.edata = st.g.edata := by
  unfold Store.getOrCreateTaskNode
  split <;> rfl

theorem edata_getOrCreateResNode (st : Store) (r : Nat) :
    (st.getOrCreateResNode r).1.g.edata = st.g.edata := by
  unfold Store.getOrCreateResNode
  split <;> rfl

theorem edata_setTaskOutput (st : Store) (n : Nat) (o : Int) :
    (st.setTaskOutput n o).g.edata = st.g.edata := by
  unfold Store.setTaskOutput
  split <;> rfl

theorem EdgesCk.getOrCreateTaskNode {st : Store} (h : EdgesCk Q st) (t : Nat) :
    EdgesCk Q (st.getOrCreateTaskNode t).1 := h.of_edata (edata_getOrCreateTaskNode st t)

theorem EdgesCk.getOrCreateResNode {st : Store} (h : EdgesCk Q st) (r : Nat) :
    EdgesCk Q (st.getOrCreateResNode r).1 := h.of_edata (edata_getOrCreateResNode st r)

theorem EdgesCk.setTaskOutput {st : Store} (h : EdgesCk Q st) (n : Nat) (o : Int) :
    EdgesCk Q (st.setTaskOutput n o) := h.of_edata (edata_setTaskOutput st n o)

theorem EdgesCk.resetTask {st : Store} (h : EdgesCk Q st) (n : Nat) : EdgesCk Q (st.resetTask n) := by
  unfold Store.resetTask
  split
  · intro e he
    have := edata_removeOutgoing_sub _ _ he
    exact h e this
  · exact h

theorem EdgesCk.addDependency {st : Store} (h : EdgesCk Q st) (src dst : Nat) {d : Dep}
    (hd : DepCk Q d) : EdgesCk Q (st.addDependency src dst d).1 := by
  unfold Store.addDependency
  split
  · rename_i g b heq
    intro e he
    have : e ∈ (st.g.addEdge src dst d).1.edata := by rw [heq]; exact he
    rcases edata_addEdge_sub _ _ _ _ this with h' | h'
    · exact h e h'
    · rw [h']; exact hd
  · exact h
  · exact h

theorem EdgesCk.setDependency {st st' : Store} (h : EdgesCk Q st) {src dst : Nat} {d : Dep}
    (hd : DepCk Q d) (hs : st.setDependency src dst d = some st') : EdgesCk Q st' := by
  unfold Store.setDependency at hs
  split at hs
  · cases hs
    intro e he
    rcases mem_amodify (show e ∈ amodify st.g.edata (src, dst) (fun _ => d) from he) with h' | ⟨_, h'⟩
    · exact h e h'
    · rw [h']; exact hd
  · cases hs

theorem EdgesCk.depsFrom {st : Store} (h : EdgesCk Q st) {n : Nat} {d : Dep}
    (hd : d ∈ st.depsFrom n) : DepCk Q d := by
  unfold Store.depsFrom Dag.outgoingEdgeData at hd
  obtain ⟨p, hp, rfl⟩ := List.mem_map.mp hd
  exact h _ (edata_of_outgoingEdges _ _ hp)

theorem EdgesCk.readWriteDepsTo {st : Store} (h : EdgesCk Q st) {n : Nat} {p : Nat × Dep}
    (hp : p ∈ st.readWriteDepsTo n) : DepCk Q p.2 := by
  unfold Store.readWriteDepsTo at hp
  exact h _ (edata_of_incomingEdges _ _ (List.mem_filter.mp hp).1)

theorem EdgesCk.readDepsTo {st : Store} (h : EdgesCk Q st) {n : Nat} {p : Nat × Dep}
    (hp : p ∈ st.readDepsTo n) : DepCk Q p.2 := by
  unfold Store.readDepsTo at hp
  exact h _ (edata_of_incomingEdges _ _ (List.mem_filter.mp hp).1)

end PieModel.ScriptWF
