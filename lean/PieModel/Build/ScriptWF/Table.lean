/-
Program tables of scripts (`bodyOf`): the derived static roles `rolesOf`, the Boolean tests
`Table.wfB`, `Table.wfFreeB`, `Table.stampTotalB`, `Table.noFailB`, their soundness; the facts about
the checker tables `stdSem`, `totalSem` (`Props/C01.lean`), `reflSem` (`Props/C02.lean`).
-/
import PieModel.Build.ScriptWF.Check
import PieModel.Props.C02

namespace PieModel

namespace ScriptWF

/-! ### `bodyOf` -/

/-- The body of a task is the compiled script of an entry of the table with that id, or `ret 0`. -/
theorem bodyOf_cases (tbl : Table) (t : Nat) :
    (∃ sc, (t, sc) ∈ tbl ∧ bodyOf tbl t = compile [] sc) ∨ bodyOf tbl t = .ret 0 := by
  unfold bodyOf
  cases h : tbl.find? (fun e => e.1 == t) with
  | none => exact .inr rfl
  | some e =>
    obtain ⟨t', sc⟩ := e
    have h1 := List.find?_some h
    have h2 := List.mem_of_find?_eq_some h
    simp only [beq_iff_eq] at h1
    subst h1
    exact .inl ⟨sc, h2, rfl⟩

/-- A property that holds of `ret 0` and of the compiled script of every entry holds of every
body. -/
theorem bodyOf_all {tbl : Table} {p : Nat → Script → Bool} (Φ : Nat → Prog → Prop)
    (h : tbl.allB p = true) (h0 : ∀ t, Φ t (.ret 0))
    (hs : ∀ t sc, p t sc = true → Φ t (compile [] sc)) : ∀ t, Φ t (bodyOf tbl t) := by
  intro t
  rcases bodyOf_cases tbl t with ⟨sc, hm, he⟩ | he
  · rw [he]
    exact hs t sc (List.all_eq_true.mp h _ hm)
  · rw [he]; exact h0 t

theorem allB_and {tbl : Table} {p q : Nat → Script → Bool}
    (h : tbl.allB (fun t s => p t s && q t s) = true) : tbl.allB p = true ∧ tbl.allB q = true := by
  unfold Table.allB at *
  have h' := List.all_eq_true.mp h
  constructor
  · exact List.all_eq_true.mpr fun e he => ((Bool.and_eq_true _ _).mp (h' e he)).1
  · exact List.all_eq_true.mpr fun e he => ((Bool.and_eq_true _ _).mp (h' e he)).2

/-! ### the generator of a resource is its only writer -/

theorem staticRolesFromB_writes (ro : Roles) (t r : Nat) (s : Script) : ∀ rq wr,
    s.staticRolesFromB ro t rq wr = true → s.writesB r = true → ro.gen r = some t := by
  induction s with
  | ret e => intro _ _ _ hw; cases hw
  | panic => intro _ _ _ hw; cases hw
  | req u c k ih =>
    intro rq wr hb hw
    simp only [Script.staticRolesFromB, Bool.and_eq_true] at hb
    exact ih _ _ hb.2 hw
  | read r' c k ih =>
    intro rq wr hb hw
    simp only [Script.staticRolesFromB, Bool.and_eq_true] at hb
    exact ih _ _ hb.2 hw
  | write r' c e k ih =>
    intro rq wr hb hw
    simp only [Script.staticRolesFromB, Bool.and_eq_true, beq_iff_eq] at hb
    simp only [Script.writesB, Bool.or_eq_true, beq_iff_eq] at hw
    rcases hw with rfl | hw
    · exact hb.1.1
    · exact ih _ _ hb.2 hw
  | wrote r' c e k ih =>
    intro rq wr hb hw
    simp only [Script.staticRolesFromB, Bool.and_eq_true, beq_iff_eq] at hb
    simp only [Script.writesB, Bool.or_eq_true, beq_iff_eq] at hw
    rcases hw with rfl | hw
    · exact hb.1.1
    · exact ih _ _ hb.2 hw
  | ite e a b iha ihb =>
    intro rq wr hb hw
    simp only [Script.staticRolesFromB, Bool.and_eq_true] at hb
    simp only [Script.writesB, Bool.or_eq_true] at hw
    rcases hw with hw | hw
    · exact iha _ _ hb.1 hw
    · exact ihb _ _ hb.2 hw

/-- In a table passing `staticRolesB`, every entry whose script writes `r` belongs to the task
`(rolesOf tbl).gen r`: the generator is the unique writer. -/
theorem table_writer_unique {tbl : Table} (h : tbl.staticRolesB = true) {t r : Nat} {sc : Script}
    (hm : (t, sc) ∈ tbl) (hw : sc.writesB r = true) : (rolesOf tbl).gen r = some t :=
  staticRolesFromB_writes (rolesOf tbl) t r sc [] [] (List.all_eq_true.mp h _ hm) hw

/-! ### the checker tables -/

theorem obsLike_totalSem : ObsLike totalSem :=
  obsLike_of_core rfl rfl (fun _ _ _ h => by cases h; rfl) (fun _ _ _ h => stdRCheck_true h)

theorem obsLike_reflSem : ObsLike reflSem :=
  obsLike_of_core rfl rfl (fun _ _ _ h => by cases h; rfl)
    (fun c v s h => by simpa [reflSem] using h)

/-- `stdSem` and `totalSem` differ only in the stampers with ids `≥ 30`. -/
theorem semAgree_std_total : SemAgree (fun c => c < 30) (fun _ => True) stdSem totalSem where
  ostamp _ _ := rfl
  ocheck _ _ _ := rfl
  rstamp c hc v := by
    show stdRStamp c v = .ok (stdRStampCore c v)
    unfold stdRStamp
    rw [if_neg (fun h => absurd h.1 (by omega))]
  rcheck _ _ _ _ := rfl
  sub _ _ := True.intro

/-- `stdSem` and `reflSem` differ only in the stampers with ids `≥ 30` and the checks with ids in
`10..29`. -/
theorem semAgree_std_refl : SemAgree (fun c => c < 10) (fun c => c < 10) stdSem reflSem where
  ostamp _ _ := rfl
  ocheck _ _ _ := rfl
  rstamp c hc v := by
    show stdRStamp c v = .ok (stdRStampCore c v)
    unfold stdRStamp
    rw [if_neg (fun h => absurd h.1 (by omega))]
  rcheck c hc v s := by
    show stdRCheck c v s = .ok (stdRStampCore c v == s)
    unfold stdRCheck
    rw [if_neg (fun h => absurd h.1 (by omega))]
  sub _ h := h

/-! ### soundness of the table tests -/

theorem table_respects {sem : Sem} (h : ObsLike sem) (tbl : Table) (t : Nat) :
    Respects sem (bodyOf tbl t) := by
  rcases bodyOf_cases tbl t with ⟨sc, _, he⟩ | he
  · rw [he]; exact compile_respects_of h sc []
  · rw [he]; exact True.intro

theorem table_staticRoles {tbl : Table} (h : tbl.staticRolesB = true) :
    WellFormedBody (rolesOf tbl) (bodyOf tbl) :=
  bodyOf_all (fun t p => StaticRoles (rolesOf tbl) t p) h (fun _ => True.intro)
    (fun _ _ hp => staticRolesB_sound hp [])

theorem table_oneChecker {tbl : Table} (h : (tbl.allB fun _ s => s.oneCheckerB) = true) (t : Nat) :
    OneChecker (bodyOf tbl t) :=
  bodyOf_all (fun _ p => OneChecker p) h (fun _ => True.intro)
    (fun _ sc hp => oneCkB_sound sc [] [] hp []) t

theorem table_writeExact {sem : Sem} (hsem : ObsLike sem) {tbl : Table}
    (h : (tbl.allB fun _ s => s.writeExactB) = true) (t : Nat) : WriteExact sem (bodyOf tbl t) :=
  bodyOf_all (fun _ p => WriteExact sem p) h (fun _ => True.intro)
    (fun _ sc hp => writeExactB_sound hsem sc hp []) t

theorem table_writeFree {tbl : Table} (h : (tbl.allB fun _ s => s.writeFreeB) = true) :
    WriteFreeBody (bodyOf tbl) :=
  bodyOf_all (fun _ p => p.WriteFree) h (fun _ => .ret 0) (fun _ sc hp => writeFreeB_sound sc hp [])

theorem table_stampTotal {tbl : Table} (h : tbl.stampTotalB = true) (t : Nat) :
    ProgCk (fun c => c < 30) (bodyOf tbl t) :=
  bodyOf_all (fun _ p => ProgCk (fun c => c < 30) p) h (fun _ => True.intro)
    (fun _ _ hp => stampTotalB_sound hp []) t

theorem table_noFail {tbl : Table} (h : tbl.noFailB = true) (t : Nat) :
    ProgCk (fun c => c < 10 ∨ 30 ≤ c) (bodyOf tbl t) :=
  bodyOf_all (fun _ p => ProgCk (fun c => c < 10 ∨ 30 ≤ c) p) h (fun _ => True.intro)
    (fun _ _ hp => noFailB_sound hp []) t

theorem progCk_and {A B : Nat → Prop} : ∀ {p : Prog}, ProgCk A p → ProgCk B p →
    ProgCk (fun c => A c ∧ B c) p
  | .ret _, _, _ => True.intro
  | .panic, _, _ => True.intro
  | .req _ _ _, ha, hb => fun o => progCk_and (ha o) (hb o)
  | .read _ _ _, ha, hb => ⟨⟨ha.1, hb.1⟩, fun x => progCk_and (ha.2 x) (hb.2 x)⟩
  | .write _ _ _ _, ha, hb => ⟨⟨ha.1, hb.1⟩, fun x => progCk_and (ha.2 x) (hb.2 x)⟩
  | .wrote _ _ _ _, ha, hb => ⟨⟨ha.1, hb.1⟩, fun x => progCk_and (ha.2 x) (hb.2 x)⟩

/-- No failing stamper and no failing checker: all resource-checker ids are below 10. -/
theorem table_below10 {tbl : Table} (h1 : tbl.stampTotalB = true) (h2 : tbl.noFailB = true) (t : Nat) :
    ProgCk (fun c => c < 10) (bodyOf tbl t) :=
  ProgCk.mono (fun c hc => by omega) (progCk_and (table_stampTotal h1 t) (table_noFail h2 t))

end ScriptWF
end PieModel
