/-
Agreement of two checker semantics (part 4): the six mutually recursive functions of the
bottom-up context, `buExecuteScheduled`, `updateAffectedTasks`, `bottomUpBuild`.
-/
import PieModel.Build.ScriptWF.AgreeTD

namespace PieModel.ScriptWF
open PieModel

variable {P Q : Nat → Prop} {sem sem' : Sem} {body : Nat → Prog}

/-! ### the one-step equations -/

theorem buRequire_bind (sem : Sem) (body : Nat → Prog) (f : Nat) (s : Sess) (t c : Nat) :
    buRequire sem body (f + 1) s t c =
      bindS (reserveRequire { s.emit (.requireStart t c) with
          store := (s.store.getOrCreateTaskNode t).1 } (s.store.getOrCreateTaskNode t).2) fun s1 _ =>
      bindS (buMake sem body f s1 t (s.store.getOrCreateTaskNode t).2) fun s2 out =>
      bindS (updateRequire (s2.emit (.requireEnd t c (sem.ostamp c out) out))
          (s.store.getOrCreateTaskNode t).2 t c (sem.ostamp c out)) fun s3 _ =>
        (s3.markConsistent (s.store.getOrCreateTaskNode t).2, .ok out) := by
  rw [buRequire]
  dsimp only
  bind_step
  bind_step
  bind_step

theorem buMake_bind (sem : Sem) (body : Nat → Prog) (f : Nat) (s : Sess) (t node : Nat) :
    buMake sem body (f + 1) s t node =
      if node ∈ s.consistent then
        match s.store.taskOutput node with
        | some o => (s, .ok o)
        | none => (s, .abort (.bug 20))
      else match s.store.taskOutput node with
        | none => buExec sem body f s t node
        | some _ =>
          bindS (buRequireNow sem body f s node) fun s1 r =>
            match r with
            | some o => (s1, .ok o)
            | none =>
              match s1.store.taskOutput node with
              | some o => (s1, .ok o)
              | none => (s1, .abort (.bug 21)) := by
  rw [buMake]
  split
  · rfl
  · cases h0 : s.store.taskOutput node with
    | none => rfl
    | some o =>
      dsimp only
      split <;> rename_i h
      · exact (bindS_abort_of h _).symm
      · refine Eq.trans ?_ (bindS_ok_of h _).symm; rfl
      · refine Eq.trans ?_ (bindS_ok_of h _).symm
        dsimp only
        split <;> rename_i h2 <;> simp only [h2]

theorem buExec_bind (sem : Sem) (body : Nat → Prog) (f : Nat) (s : Sess) (t node : Nat) :
    buExec sem body (f + 1) s t node =
      bindS (buRun sem body f
        (Sess.emit { s with store := s.store.resetTask node, cur := some node } (.executeStart t))
        (body t)) fun s2 o =>
        ({ s2.emit (.executeEnd t o) with cur := s.cur, store := s2.store.setTaskOutput node o },
          .ok o) := by
  rw [buExec]
  dsimp only
  bind_step

theorem buExecAndSchedule_bind (sem : Sem) (body : Nat → Prog) (f : Nat) (s : Sess) (node : Nat) :
    buExecAndSchedule sem body (f + 1) s node =
      match s.store.taskOf node with
      | none => (s, .abort (.bug 22))
      | some t =>
        bindS (buExec sem body f s t node) fun s1 o => (scheduleAfterExec sem s1 node t o, .ok o) := by
  rw [buExecAndSchedule]
  cases h0 : s.store.taskOf node with
  | none => rfl
  | some t =>
    dsimp only
    bind_step

theorem buRequireNow_bind (sem : Sem) (body : Nat → Prog) (f : Nat) (s : Sess) (src : Nat) :
    buRequireNow sem body (f + 1) s src =
      if s.queue.isEmpty then (s, .ok none)
      else match queuePopLeastFrom s.store s.queue src with
        | none => (s, .ok none)
        | some mq =>
          bindS (buExecAndSchedule sem body f { s with queue := mq.2 } mq.1) fun s1 o =>
            if mq.1 = src then (s1, .ok (some o)) else buRequireNow sem body f s1 src := by
  rw [buRequireNow]
  split
  · rfl
  · cases h0 : queuePopLeastFrom s.store s.queue src with
    | none => rfl
    | some mq =>
      obtain ⟨m, q⟩ := mq
      dsimp only
      bind_step

theorem buRun_req_bind (sem : Sem) (body : Nat → Prog) (f : Nat) (s : Sess) (t c : Nat)
    (k : Int → Prog) :
    buRun sem body (f + 1) s (.req t c k) =
      bindS (buRequire sem body f s t c) fun s1 out => buRun sem body f s1 (k out) := by
  rw [buRun]; bind_step

theorem buRun_read_bind (sem : Sem) (body : Nat → Prog) (f : Nat) (s : Sess) (r c : Nat)
    (k : Except Int (Option Int) → Prog) :
    buRun sem body (f + 1) s (.read r c k) =
      bindS (doRead sem s r c) fun s1 x => buRun sem body f s1 (k x) := by
  rw [buRun]; bind_step

theorem buRun_write_bind (sem : Sem) (body : Nat → Prog) (f : Nat) (s : Sess) (r c : Nat)
    (v : Option Int) (k : Except Int Unit → Prog) :
    buRun sem body (f + 1) s (.write r c v k) =
      bindS (doWrite sem s r c v) fun s1 x => buRun sem body f s1 (k x) := by
  rw [buRun]; bind_step

theorem buRun_wrote_bind (sem : Sem) (body : Nat → Prog) (f : Nat) (s : Sess) (r c : Nat)
    (v : Option Int) (k : Except Int Unit → Prog) :
    buRun sem body (f + 1) s (.wrote r c v k) =
      bindS (doWrote sem s r c v) fun s1 x => buRun sem body f s1 (k x) := by
  rw [buRun]; bind_step

/-! ### the joint induction -/

/-- The statement of the joint induction for the bottom-up context. -/
structure BuAgree (P Q : Nat → Prop) (sem sem' : Sem) (body : Nat → Prog) (f : Nat) : Prop where
  require : ∀ (s : Sess) t c, EdgesCk Q s.store →
    SameRes Q (buRequire sem body f s t c) (buRequire sem' body f s t c)
  make : ∀ (s : Sess) t n, EdgesCk Q s.store →
    SameRes Q (buMake sem body f s t n) (buMake sem' body f s t n)
  exec : ∀ (s : Sess) t n, EdgesCk Q s.store →
    SameRes Q (buExec sem body f s t n) (buExec sem' body f s t n)
  execAndSchedule : ∀ (s : Sess) n, EdgesCk Q s.store →
    SameRes Q (buExecAndSchedule sem body f s n) (buExecAndSchedule sem' body f s n)
  requireNow : ∀ (s : Sess) src, EdgesCk Q s.store →
    SameRes Q (buRequireNow sem body f s src) (buRequireNow sem' body f s src)
  run : ∀ (s : Sess) p, EdgesCk Q s.store → ProgCk P p →
    SameRes Q (buRun sem body f s p) (buRun sem' body f s p)

theorem buAgree_zero : BuAgree P Q sem sem' body 0 := by
  refine ⟨?_, ?_, ?_, ?_, ?_, ?_⟩ <;> intros <;>
    simp only [buRequire, buMake, buExec, buExecAndSchedule, buRequireNow, buRun] <;>
    exact SameRes.pure (by assumption) _

section Step
variable (ha : SemAgree P Q sem sem') (hb : ∀ t, ProgCk P (body t)) {f : Nat}
  (ih : BuAgree P Q sem sem' body f)
include ha ih

theorem buAgree_require (s : Sess) (t c : Nat) (hs : EdgesCk Q s.store) :
    SameRes Q (buRequire sem body (f + 1) s t c) (buRequire sem' body (f + 1) s t c) := by
  rw [buRequire_bind, buRequire_bind]
  refine SameRes.bind ⟨rfl, reserveRequire_edges _ (hs.getOrCreateTaskNode t)⟩ fun s1 _ hs1 => ?_
  refine SameRes.bind (ih.make s1 t _ hs1) fun s2 out hs2 => ?_
  rw [ha.ostamp c out]
  exact SameRes.bind ⟨rfl, updateRequire_edges _ _ _ _ (by exact hs2)⟩ fun s3 _ hs3 =>
    ⟨rfl, by rw [markConsistent_store']; exact hs3⟩

omit ha in
theorem buAgree_make (s : Sess) (t n : Nat) (hs : EdgesCk Q s.store) :
    SameRes Q (buMake sem body (f + 1) s t n) (buMake sem' body (f + 1) s t n) := by
  rw [buMake_bind, buMake_bind]
  split
  · split <;> exact ⟨rfl, hs⟩
  · split
    · exact ih.exec s t n hs
    · refine SameRes.bind (ih.requireNow s n hs) fun s1 r hs1 => ?_
      cases r with
      | some o => exact ⟨rfl, hs1⟩
      | none => dsimp only; split <;> exact ⟨rfl, hs1⟩

omit ha in
include hb in
theorem buAgree_exec (s : Sess) (t n : Nat) (hs : EdgesCk Q s.store) :
    SameRes Q (buExec sem body (f + 1) s t n) (buExec sem' body (f + 1) s t n) := by
  rw [buExec_bind, buExec_bind]
  exact SameRes.bind (ih.run _ _ (by exact hs.resetTask _) (hb t)) fun s2 o hs2 =>
    ⟨rfl, hs2.setTaskOutput _ _⟩

theorem buAgree_execAndSchedule (s : Sess) (n : Nat) (hs : EdgesCk Q s.store) :
    SameRes Q (buExecAndSchedule sem body (f + 1) s n) (buExecAndSchedule sem' body (f + 1) s n) := by
  rw [buExecAndSchedule_bind, buExecAndSchedule_bind]
  split
  · exact ⟨rfl, hs⟩
  · rename_i t _
    refine SameRes.bind (ih.exec s t n hs) fun s1 o hs1 => ?_
    rw [scheduleAfterExec_agree ha n t o hs1]
    exact ⟨rfl, by rw [scheduleAfterExec_store]; exact hs1⟩

omit ha in
theorem buAgree_requireNow (s : Sess) (src : Nat) (hs : EdgesCk Q s.store) :
    SameRes Q (buRequireNow sem body (f + 1) s src) (buRequireNow sem' body (f + 1) s src) := by
  rw [buRequireNow_bind, buRequireNow_bind]
  split
  · exact ⟨rfl, hs⟩
  · split
    · exact ⟨rfl, hs⟩
    · refine SameRes.bind (ih.execAndSchedule _ _ (by exact hs)) fun s1 o hs1 => ?_
      split
      · exact ⟨rfl, hs1⟩
      · exact ih.requireNow s1 src hs1

theorem buAgree_run (s : Sess) (p : Prog) (hs : EdgesCk Q s.store) (hp : ProgCk P p) :
    SameRes Q (buRun sem body (f + 1) s p) (buRun sem' body (f + 1) s p) := by
  cases p with
  | ret v => simp only [buRun]; exact ⟨rfl, hs⟩
  | panic => simp only [buRun]; exact ⟨rfl, hs⟩
  | req t c k =>
    rw [buRun_req_bind, buRun_req_bind]
    exact SameRes.bind (ih.require s t c hs) fun s1 out hs1 => ih.run s1 (k out) hs1 (hp out)
  | read r c k =>
    rw [buRun_read_bind, buRun_read_bind]
    exact SameRes.bind (doRead_same ha hp.1 hs) fun s1 x hs1 => ih.run s1 (k x) hs1 (hp.2 x)
  | write r c v k =>
    rw [buRun_write_bind, buRun_write_bind]
    exact SameRes.bind (doWrite_same ha hp.1 hs) fun s1 x hs1 => ih.run s1 (k x) hs1 (hp.2 x)
  | wrote r c v k =>
    rw [buRun_wrote_bind, buRun_wrote_bind]
    exact SameRes.bind (doWrote_same ha hp.1 hs) fun s1 x hs1 => ih.run s1 (k x) hs1 (hp.2 x)

end Step

/-- **Bottom-up agreement**, every fuel. -/
theorem buAgree (ha : SemAgree P Q sem sem') (hb : ∀ t, ProgCk P (body t)) (f : Nat) :
    BuAgree P Q sem sem' body f := by
  induction f with
  | zero => exact buAgree_zero
  | succ f ih =>
    exact ⟨buAgree_require ha ih, buAgree_make ih, buAgree_exec hb ih,
      buAgree_execAndSchedule ha ih, buAgree_requireNow ih, buAgree_run ha ih⟩

/-! ### the build -/

theorem buExecuteScheduled_bind (sem : Sem) (body : Nat → Prog) (f : Nat) (s : Sess) :
    buExecuteScheduled sem body (f + 1) s =
      match queuePop s.store s.queue with
      | none => (s, .ok ())
      | some nq =>
        bindS (buExecAndSchedule sem body f { s with queue := nq.2 } nq.1) fun s1 _ =>
          buExecuteScheduled sem body f s1 := by
  rw [buExecuteScheduled]
  cases h0 : queuePop s.store s.queue with
  | none => rfl
  | some nq =>
    obtain ⟨n, q⟩ := nq
    dsimp only
    bind_step

theorem updateAffectedTasks_bind (sem : Sem) (body : Nat → Prog) (fuel : Nat) (s : Sess) :
    updateAffectedTasks sem body fuel s =
      bindS (buExecuteScheduled sem body fuel (Sess.emit { s with cur := none } .buildStart))
        fun s1 _ => (s1.emit .buildEnd, .ok ()) := by
  unfold updateAffectedTasks
  dsimp only
  bind_step

section Build
variable (ha : SemAgree P Q sem sem') (hb : ∀ t, ProgCk P (body t))
include ha hb

theorem buExecuteScheduled_same (f : Nat) (s : Sess) (hs : EdgesCk Q s.store) :
    SameRes Q (buExecuteScheduled sem body f s) (buExecuteScheduled sem' body f s) := by
  induction f generalizing s with
  | zero => simp only [buExecuteScheduled]; exact ⟨rfl, hs⟩
  | succ f ih =>
    rw [buExecuteScheduled_bind, buExecuteScheduled_bind]
    split
    · exact ⟨rfl, hs⟩
    · exact SameRes.bind ((buAgree ha hb f).execAndSchedule _ _ (by exact hs)) fun s1 _ hs1 => ih s1 hs1

theorem updateAffectedTasks_same (fuel : Nat) (s : Sess) (hs : EdgesCk Q s.store) :
    SameRes Q (updateAffectedTasks sem body fuel s) (updateAffectedTasks sem' body fuel s) := by
  rw [updateAffectedTasks_bind, updateAffectedTasks_bind]
  exact SameRes.bind (buExecuteScheduled_same ha hb fuel _ (by exact hs)) fun s1 _ hs1 => ⟨rfl, hs1⟩

theorem bottomUpBuild_same (fuel : Nat) (s : Sess) (changed : List Nat) (hs : EdgesCk Q s.store) :
    SameRes Q (bottomUpBuild sem body fuel s changed) (bottomUpBuild sem' body fuel s changed) := by
  unfold bottomUpBuild
  dsimp only
  obtain ⟨e, he⟩ := foldl_scheduleAffectedBy_same ha changed (s := { s with queue := [] }) hs
  rw [e]
  exact updateAffectedTasks_same ha hb fuel _ he

end Build

end PieModel.ScriptWF
