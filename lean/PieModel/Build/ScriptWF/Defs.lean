/-
The Boolean checkers of the theorem hypotheses on scripts and script tables: DEFINITIONS only
(plain structural recursion over scripts and lists; imports only the script language and the
`Roles` record), so that the compiled driver can run them on every generated case.  Soundness:
`Build/ScriptWF/Check.lean`, `Build/ScriptWF/Table.lean`, `Props/ScriptWF.lean`.
-/
import PieModel.Build.Script
import PieModel.Build.RolesDef

namespace PieModel

/-! ### the Boolean checkers -/

/-- No pair `(x, c')` with `c' ≠ c` in `q`. -/
def ScriptWF.ckFree (q : List (Nat × Nat)) (x c : Nat) : Bool :=
  q.all (fun p => p.1 != x || p.2 == c)

/-- Boolean version of `OneCk` (both branches of a conditional are checked). -/
def Script.oneCkB : List (Nat × Nat) → List (Nat × Nat) → Script → Bool
  | _, _, .ret _ => true
  | _, _, .panic => true
  | qt, qr, .req t c k => ScriptWF.ckFree qt t c && oneCkB ((t, c) :: qt) qr k
  | qt, qr, .read r c k => ScriptWF.ckFree qr r c && oneCkB qt ((r, c) :: qr) k
  | qt, qr, .write r c _ k => ScriptWF.ckFree qr r c && oneCkB qt ((r, c) :: qr) k
  | qt, qr, .wrote r c _ k => ScriptWF.ckFree qr r c && oneCkB qt ((r, c) :: qr) k
  | qt, qr, .ite _ a b => oneCkB qt qr a && oneCkB qt qr b

/-- One checker per dependency target on every path of the script. -/
def Script.oneCheckerB (s : Script) : Bool := s.oneCkB [] []

/-- The script contains no `write`/`wrote`. -/
def Script.writeFreeB : Script → Bool
  | .ret _ => true
  | .panic => true
  | .req _ _ k => writeFreeB k
  | .read _ _ k => writeFreeB k
  | .write .. => false
  | .wrote .. => false
  | .ite _ a b => writeFreeB a && writeFreeB b

/-- Boolean version of `StaticRolesFrom ro t ⟨rq, wr⟩`. -/
def Script.staticRolesFromB (ro : Roles) (t : Nat) : List Nat → List Nat → Script → Bool
  | _, _, .ret _ => true
  | _, _, .panic => true
  | rq, wr, .req u _ k => decide (ro.rank t < ro.rank u) && staticRolesFromB ro t (u :: rq) wr k
  | rq, wr, .read r _ k =>
    (match ro.gen r with
      | none => true
      | some w => w != t && rq.contains w) && staticRolesFromB ro t rq wr k
  | rq, wr, .write r _ _ k =>
    (ro.gen r == some t) && !(wr.contains r) && staticRolesFromB ro t rq (r :: wr) k
  | rq, wr, .wrote r _ _ k =>
    (ro.gen r == some t) && !(wr.contains r) && staticRolesFromB ro t rq (r :: wr) k
  | rq, wr, .ite _ a b => staticRolesFromB ro t rq wr a && staticRolesFromB ro t rq wr b

/-- The script of task `t` respects the static roles `ro`. -/
def Script.staticRolesB (ro : Roles) (t : Nat) (s : Script) : Bool := s.staticRolesFromB ro t [] []

/-- Every resource-checker id at a `read`/`write`/`wrote` node passes `p`. -/
def Script.rckAllB (p : Nat → Bool) : Script → Bool
  | .ret _ => true
  | .panic => true
  | .req _ _ k => rckAllB p k
  | .read _ c k => p c && rckAllB p k
  | .write _ c _ k => p c && rckAllB p k
  | .wrote _ c _ k => p c && rckAllB p k
  | .ite _ a b => rckAllB p a && rckAllB p b

/-- The exact resource checkers of `stdSem`: all but `ParityRes` (1), `ExistsRes` (2),
`AlwaysRes` (3). -/
def ScriptWF.exactIdB (c : Nat) : Bool := c != 1 && c != 2 && c != 3

/-- Every `write`/`wrote` node uses an exact checker id. -/
def Script.writeExactB : Script → Bool
  | .ret _ => true
  | .panic => true
  | .req _ _ k => writeExactB k
  | .read _ _ k => writeExactB k
  | .write _ c _ k => ScriptWF.exactIdB c && writeExactB k
  | .wrote _ c _ k => ScriptWF.exactIdB c && writeExactB k
  | .ite _ a b => writeExactB a && writeExactB b

/-- No resource-checker id `≥ 30` (the failing stampers `FailStampWhen`). -/
def Script.stampTotalB (s : Script) : Bool := s.rckAllB (fun c => decide (c < 30))

/-- No resource-checker id in `10..29` (the failing checkers `FailWhen`). -/
def Script.noFailB (s : Script) : Bool := s.rckAllB (fun c => decide (c < 10) || decide (30 ≤ c))

/-! ### tables -/

/-- A program table of scripts, as interpreted by `bodyOf` (the first entry of a task id counts). -/
abbrev Table := List (Nat × Script)

/-- The script contains a `write`/`wrote` of resource `r`. -/
def Script.writesB (r : Nat) : Script → Bool
  | .ret _ => false
  | .panic => false
  | .req _ _ k => writesB r k
  | .read _ _ k => writesB r k
  | .write r' _ _ k => r' == r || writesB r k
  | .wrote r' _ _ k => r' == r || writesB r k
  | .ite _ a b => writesB r a || writesB r b

/-- The static roles read off a table: `rank t := t` (the generator only emits requires of
higher-numbered tasks), `gen r :=` the first task of the table whose script writes `r`
(`Table.wfB` then checks that it is the only one). -/
def rolesOf (tbl : Table) : Roles where
  rank := fun t => t
  gen := fun r => (tbl.find? (fun e => e.2.writesB r)).map (·.1)

/-- Every entry of the table passes `p`. -/
def Table.allB (tbl : Table) (p : Nat → Script → Bool) : Bool := tbl.all (fun e => p e.1 e.2)

/-- The hypotheses of C01 in full: static roles w.r.t. `rolesOf tbl`, one checker per target,
exact checkers at write nodes (`Respects` holds of every script). -/
def Table.wfB (tbl : Table) : Bool :=
  tbl.allB fun t s => s.staticRolesB (rolesOf tbl) t && s.oneCheckerB && s.writeExactB

/-- The hypotheses of the write-free C01: no writes, one checker per target. -/
def Table.wfFreeB (tbl : Table) : Bool := tbl.allB fun _ s => s.writeFreeB && s.oneCheckerB

/-- Only `staticRolesB` (for C20). -/
def Table.staticRolesB (tbl : Table) : Bool := tbl.allB fun t s => s.staticRolesB (rolesOf tbl) t

/-- No failing stamper (resource-checker id `≥ 30`) anywhere. -/
def Table.stampTotalB (tbl : Table) : Bool := tbl.allB fun _ s => s.stampTotalB

/-- No failing checker (resource-checker id in `10..29`) anywhere. -/
def Table.noFailB (tbl : Table) : Bool := tbl.allB fun _ s => s.noFailB

end PieModel
