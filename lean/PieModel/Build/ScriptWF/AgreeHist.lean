/-
Agreement of two checker semantics (part 5): histories.  `runStep`/`runHistory` (`Props/C19.lean`),
`requireLog`/`runSteps` (`Build/Sound/Session.lean`), `runStepsW` (`Build/SoundW/History.lean`),
`runStepsM` (`Build/BuW/History.lean`), `runHistoryLog` (`Build/Mixed/Session.lean`).
The invariant on a `Pie`: `EdgesCk Q p.store` (it holds for the empty `Pie`).
-/
import PieModel.Build.ScriptWF.AgreeBU
import PieModel.Build.BuW.History
import PieModel.Build.Mixed.Session

namespace PieModel.ScriptWF
open PieModel

variable {P Q : Nat → Prop} {sem sem' : Sem} {body : Nat → Prog}

/-- With no constraint on the checker ids the edge invariant holds of every store. -/
theorem EdgesCk.trivial (st : Store) : EdgesCk (fun _ => True) st := by
  intro e _
  cases e.2 <;> exact True.intro

theorem EdgesCk.setContent {p : PieSt} (h : EdgesCk Q p.store) (r : Nat) (v : Option Int) :
    EdgesCk Q (p.setContent r v).store := by
  rw [C19_setContent_store]; exact h

section
variable (ha : SemAgree P Q sem sem') (hb : ∀ t, ProgCk P (body t))
include ha hb

theorem runStep_same (fuel : Nat) (p : PieSt) (st : HStep) (hp : EdgesCk Q p.store) :
    runStep sem body fuel p st = runStep sem' body fuel p st ∧
      EdgesCk Q (runStep sem' body fuel p st).store := by
  cases st with
  | change r v => exact ⟨rfl, hp.setContent r v⟩
  | session roots =>
    obtain ⟨e, he⟩ := requireAll_same ha hb fuel roots p.newSession hp
    exact ⟨by simp only [runStep, e], he⟩
  | bottomUp changed roots =>
    obtain ⟨e, he⟩ := bottomUpBuild_same ha hb fuel p.newSession changed hp
    simp only [runStep, e]
    split
    · rename_i heq; exact ⟨rfl, edges_of_eq he heq⟩
    · rename_i s heq
      obtain ⟨e2, he2⟩ := requireAll_same ha hb fuel roots s (edges_of_eq he heq)
      exact ⟨by rw [e2], he2⟩

theorem foldl_runStep_same (fuel : Nat) (steps : List HStep) (p : PieSt) (hp : EdgesCk Q p.store) :
    steps.foldl (runStep sem body fuel) p = steps.foldl (runStep sem' body fuel) p ∧
      EdgesCk Q (steps.foldl (runStep sem' body fuel) p).store := by
  induction steps generalizing p with
  | nil => exact ⟨rfl, hp⟩
  | cons st rest ih =>
    obtain ⟨e, he⟩ := runStep_same ha hb fuel p st hp
    simp only [List.foldl_cons, e]
    exact ih _ he

theorem runHistory_same (fuel : Nat) (steps : List HStep) :
    runHistory sem body fuel steps = runHistory sem' body fuel steps ∧
      EdgesCk Q (runHistory sem' body fuel steps).store :=
  foldl_runStep_same ha hb fuel steps {} EdgesCk.empty

theorem requireLog_same (fuel : Nat) (ts : List Nat) (s : Sess) (hs : EdgesCk Q s.store) :
    requireLog sem body fuel s ts = requireLog sem' body fuel s ts ∧
      EdgesCk Q (requireLog sem' body fuel s ts).1.store := by
  induction ts generalizing s with
  | nil => exact ⟨rfl, hs⟩
  | cons t ts ih =>
    obtain ⟨e, he⟩ := sessionRequire_same ha hb fuel s t hs
    simp only [requireLog, e]
    split
    · rename_i heq; exact ⟨rfl, edges_of_eq he heq⟩
    · rename_i s' o heq
      obtain ⟨e2, he2⟩ := ih s' (edges_of_eq he heq)
      exact ⟨by rw [e2], he2⟩

theorem runSteps_same (fuel : Nat) (steps : List TStep) (p : PieSt) (hp : EdgesCk Q p.store) :
    runSteps sem body fuel p steps = runSteps sem' body fuel p steps ∧
      EdgesCk Q (runSteps sem' body fuel p steps).1.store := by
  induction steps generalizing p with
  | nil => exact ⟨rfl, hp⟩
  | cons st rest ih =>
    cases st with
    | change r v => simp only [runSteps]; exact ih _ (hp.setContent r v)
    | session roots =>
      obtain ⟨e, he⟩ := requireLog_same ha hb fuel roots p.newSession hp
      obtain ⟨e2, he2⟩ := ih (requireLog sem' body fuel p.newSession roots).1.toPie he
      exact ⟨by simp only [runSteps, e, e2], he2⟩

theorem runStepsW_same (fuel : Nat) (steps : List TStep) (p : PieSt) (hp : EdgesCk Q p.store) :
    runStepsW sem body fuel p steps = runStepsW sem' body fuel p steps ∧
      EdgesCk Q (runStepsW sem' body fuel p steps).1.store := by
  induction steps generalizing p with
  | nil => exact ⟨rfl, hp⟩
  | cons st rest ih =>
    cases st with
    | change r v => simp only [runStepsW]; exact ih _ (hp.setContent r v)
    | session roots =>
      obtain ⟨e, he⟩ := requireAll_same ha hb fuel roots p.newSession hp
      obtain ⟨e2, he2⟩ := ih (requireAll sem' body fuel p.newSession roots).1.toPie he
      exact ⟨by simp only [runStepsW, e, e2], he2⟩

theorem runStepsM_same (fuel : Nat) (steps : List HStep) (p : PieSt) (hp : EdgesCk Q p.store) :
    runStepsM sem body fuel p steps = runStepsM sem' body fuel p steps ∧
      EdgesCk Q (runStepsM sem' body fuel p steps).1.store := by
  induction steps generalizing p with
  | nil => exact ⟨rfl, hp⟩
  | cons st rest ih =>
    cases st with
    | change r v => simp only [runStepsM]; exact ih _ (hp.setContent r v)
    | session roots =>
      obtain ⟨e, he⟩ := requireAll_same ha hb fuel roots p.newSession hp
      obtain ⟨e2, he2⟩ := ih (requireAll sem' body fuel p.newSession roots).1.toPie he
      exact ⟨by simp only [runStepsM, e, e2], he2⟩
    | bottomUp changed roots =>
      obtain ⟨e, he⟩ := runStep_same ha hb fuel p (.bottomUp changed roots) hp
      simp only [runStepsM, e]
      exact ih _ he

theorem runStepLog_same (fuel : Nat) (p : PieSt) (st : HStep) (hp : EdgesCk Q p.store) :
    Mixed.runStepLog sem body fuel p st = Mixed.runStepLog sem' body fuel p st ∧
      EdgesCk Q (Mixed.runStepLog sem' body fuel p st).1.store := by
  cases st with
  | session roots =>
    obtain ⟨e, he⟩ := requireLog_same ha hb fuel roots p.newSession hp
    exact ⟨by simp only [Mixed.runStepLog, e], he⟩
  | change r v =>
    obtain ⟨e, he⟩ := runStep_same ha hb fuel p (.change r v) hp
    exact ⟨by simp only [Mixed.runStepLog, e], he⟩
  | bottomUp changed roots =>
    obtain ⟨e, he⟩ := runStep_same ha hb fuel p (.bottomUp changed roots) hp
    exact ⟨by simp only [Mixed.runStepLog, e], he⟩

theorem runHistoryLogFrom_same (fuel : Nat) (steps : List HStep) (p : PieSt)
    (hp : EdgesCk Q p.store) :
    Mixed.runHistoryLogFrom sem body fuel p steps = Mixed.runHistoryLogFrom sem' body fuel p steps := by
  induction steps generalizing p with
  | nil => rfl
  | cons st rest ih =>
    obtain ⟨e, he⟩ := runStepLog_same ha hb fuel p st hp
    simp only [Mixed.runHistoryLogFrom, e, ih _ he]

theorem runHistoryLog_same (fuel : Nat) (steps : List HStep) :
    Mixed.runHistoryLog sem body fuel steps = Mixed.runHistoryLog sem' body fuel steps :=
  runHistoryLogFrom_same ha hb fuel steps {} EdgesCk.empty

end

/-! ### summary: every interpreter function -/

/-- "Every interpreter function gives the same result under `sem` and under `sem'`" — from every
state whose store satisfies `I`, and for the history runners from the empty `Pie`. -/
structure RunsAgree (I : Store → Prop) (sem sem' : Sem) (body : Nat → Prog) : Prop where
  td_require : ∀ f (s : Sess) t c, I s.store →
    tdRequire sem body f s t c = tdRequire sem' body f s t c
  td_make : ∀ f (s : Sess) t, I s.store → tdMake sem body f s t = tdMake sem' body f s t
  td_check : ∀ f (s : Sess) n, I s.store → tdCheck sem body f s n = tdCheck sem' body f s n
  td_checkDeps : ∀ f (s : Sess) n, I s.store →
    tdCheckDeps sem body f s (s.store.depsFrom n) = tdCheckDeps sem' body f s (s.store.depsFrom n)
  td_run : ∀ f (s : Sess) t, I s.store → tdRun sem body f s (body t) = tdRun sem' body f s (body t)
  session_require : ∀ f (s : Sess) t, I s.store →
    sessionRequire sem body f s t = sessionRequire sem' body f s t
  require_all : ∀ f (s : Sess) ts, I s.store → requireAll sem body f s ts = requireAll sem' body f s ts
  clean_build : ∀ f fs roots, cleanBuild sem body f fs roots = cleanBuild sem' body f fs roots
  bu_require : ∀ f (s : Sess) t c, I s.store →
    buRequire sem body f s t c = buRequire sem' body f s t c
  bu_make : ∀ f (s : Sess) t n, I s.store → buMake sem body f s t n = buMake sem' body f s t n
  bu_exec : ∀ f (s : Sess) t n, I s.store → buExec sem body f s t n = buExec sem' body f s t n
  bu_execAndSchedule : ∀ f (s : Sess) n, I s.store →
    buExecAndSchedule sem body f s n = buExecAndSchedule sem' body f s n
  bu_requireNow : ∀ f (s : Sess) src, I s.store →
    buRequireNow sem body f s src = buRequireNow sem' body f s src
  bu_run : ∀ f (s : Sess) t, I s.store → buRun sem body f s (body t) = buRun sem' body f s (body t)
  schedule_affectedBy : ∀ (s : Sess) r, I s.store →
    scheduleAffectedBy sem s r = scheduleAffectedBy sem' s r
  schedule_afterExec : ∀ (s : Sess) n t o, I s.store →
    scheduleAfterExec sem s n t o = scheduleAfterExec sem' s n t o
  bu_executeScheduled : ∀ f (s : Sess), I s.store →
    buExecuteScheduled sem body f s = buExecuteScheduled sem' body f s
  update_affectedTasks : ∀ f (s : Sess), I s.store →
    updateAffectedTasks sem body f s = updateAffectedTasks sem' body f s
  bottomUp_build : ∀ f (s : Sess) changed, I s.store →
    bottomUpBuild sem body f s changed = bottomUpBuild sem' body f s changed
  run_step : ∀ f (p : PieSt) st, I p.store → runStep sem body f p st = runStep sem' body f p st
  run_history : ∀ f steps, runHistory sem body f steps = runHistory sem' body f steps
  run_history_inv : ∀ f steps, I (runHistory sem' body f steps).store
  run_steps : ∀ f steps, runSteps sem body f {} steps = runSteps sem' body f {} steps
  run_stepsW : ∀ f steps, runStepsW sem body f {} steps = runStepsW sem' body f {} steps
  run_stepsM : ∀ f steps, runStepsM sem body f {} steps = runStepsM sem' body f {} steps
  run_historyLog : ∀ f steps,
    Mixed.runHistoryLog sem body f steps = Mixed.runHistoryLog sem' body f steps

theorem runsAgree (ha : SemAgree P Q sem sem') (hb : ∀ t, ProgCk P (body t)) :
    RunsAgree (EdgesCk Q) sem sem' body where
  td_require f s t c hs := ((tdAgree ha hb f).require s t c hs).1
  td_make f s t hs := ((tdAgree ha hb f).make s t hs).1
  td_check f s n hs := ((tdAgree ha hb f).check s n hs).1
  td_checkDeps f s _ hs := ((tdAgree ha hb f).checkDeps s _ hs (fun _ hd => hs.depsFrom hd)).1
  td_run f s t hs := ((tdAgree ha hb f).run s _ hs (hb t)).1
  session_require f s t hs := (sessionRequire_same ha hb f s t hs).1
  require_all f s ts hs := (requireAll_same ha hb f ts s hs).1
  clean_build f fs roots := (cleanBuild_same ha hb f fs roots).1
  bu_require f s t c hs := ((buAgree ha hb f).require s t c hs).1
  bu_make f s t n hs := ((buAgree ha hb f).make s t n hs).1
  bu_exec f s t n hs := ((buAgree ha hb f).exec s t n hs).1
  bu_execAndSchedule f s n hs := ((buAgree ha hb f).execAndSchedule s n hs).1
  bu_requireNow f s src hs := ((buAgree ha hb f).requireNow s src hs).1
  bu_run f s t hs := ((buAgree ha hb f).run s _ hs (hb t)).1
  schedule_affectedBy _ r hs := scheduleAffectedBy_agree ha r hs
  schedule_afterExec _ n t o hs := scheduleAfterExec_agree ha n t o hs
  bu_executeScheduled f s hs := (buExecuteScheduled_same ha hb f s hs).1
  update_affectedTasks f s hs := (updateAffectedTasks_same ha hb f s hs).1
  bottomUp_build f s changed hs := (bottomUpBuild_same ha hb f s changed hs).1
  run_step f p st hp := (runStep_same ha hb f p st hp).1
  run_history f steps := (runHistory_same ha hb f steps).1
  run_history_inv f steps := (runHistory_same ha hb f steps).2
  run_steps f steps := (runSteps_same ha hb f steps {} EdgesCk.empty).1
  run_stepsW f steps := (runStepsW_same ha hb f steps {} EdgesCk.empty).1
  run_stepsM f steps := (runStepsM_same ha hb f steps {} EdgesCk.empty).1
  run_historyLog f steps := runHistoryLog_same ha hb f steps

theorem RunsAgree.mono {I J : Store → Prop} (hIJ : ∀ st, J st → I st) (hJ : ∀ st, I st → J st)
    (h : RunsAgree I sem sem' body) : RunsAgree J sem sem' body where
  td_require f s t c hs := h.td_require f s t c (hIJ _ hs)
  td_make f s t hs := h.td_make f s t (hIJ _ hs)
  td_check f s n hs := h.td_check f s n (hIJ _ hs)
  td_checkDeps f s n hs := h.td_checkDeps f s n (hIJ _ hs)
  td_run f s t hs := h.td_run f s t (hIJ _ hs)
  session_require f s t hs := h.session_require f s t (hIJ _ hs)
  require_all f s ts hs := h.require_all f s ts (hIJ _ hs)
  clean_build := h.clean_build
  bu_require f s t c hs := h.bu_require f s t c (hIJ _ hs)
  bu_make f s t n hs := h.bu_make f s t n (hIJ _ hs)
  bu_exec f s t n hs := h.bu_exec f s t n (hIJ _ hs)
  bu_execAndSchedule f s n hs := h.bu_execAndSchedule f s n (hIJ _ hs)
  bu_requireNow f s src hs := h.bu_requireNow f s src (hIJ _ hs)
  bu_run f s t hs := h.bu_run f s t (hIJ _ hs)
  schedule_affectedBy s r hs := h.schedule_affectedBy s r (hIJ _ hs)
  schedule_afterExec s n t o hs := h.schedule_afterExec s n t o (hIJ _ hs)
  bu_executeScheduled f s hs := h.bu_executeScheduled f s (hIJ _ hs)
  update_affectedTasks f s hs := h.update_affectedTasks f s (hIJ _ hs)
  bottomUp_build f s changed hs := h.bottomUp_build f s changed (hIJ _ hs)
  run_step f p st hp := h.run_step f p st (hIJ _ hp)
  run_history := h.run_history
  run_history_inv f steps := hJ _ (h.run_history_inv f steps)
  run_steps := h.run_steps
  run_stepsW := h.run_stepsW
  run_stepsM := h.run_stepsM
  run_historyLog := h.run_historyLog

end PieModel.ScriptWF
