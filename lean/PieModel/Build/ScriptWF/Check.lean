/-
Verified Boolean checkers of the theorem hypotheses on scripts (`Build/Script.lean`).

* `ObsLike sem`: the checker table observes no more than the projections `oproj`/`rproj` the
  compiled scripts bind, and its checker ids other than 1, 2, 3 are exact.  It holds of `stdSem`,
  `totalSem`, `reflSem`.  Under it every compiled script `Respects` its checkers, for every
  environment (`compile_respects_of`).
* `Script.oneCheckerB`, `Script.writeFreeB`, `Script.staticRolesB`, `Script.writeExactB`,
  `Script.stampTotalB`, `Script.noFailB`: structurally recursive Boolean tests; the soundness
  theorems hold for `compile env s` for EVERY `env` (both branches of an `ite` are checked).
-/
import PieModel.Build.ScriptWF.Defs
import PieModel.Build.StdSem
import PieModel.Build.SoundW.Defs
import PieModel.Build.ScriptWF.Edges

namespace PieModel

namespace ScriptWF

/-! ### what the checker tables observe -/

/-- The checker table observes no more than what the compiled scripts bind, and its ids passing
`exactIdB` are exact. -/
structure ObsLike (sem : Sem) : Prop where
  oobs : ∀ c o o', sem.ocheck c o' (sem.ostamp c o) = true → oproj c o' = oproj c o
  robs : ∀ c v v' s, sem.rstamp c v = .ok s → sem.rcheck c v' s = .ok true → rproj c v' = rproj c v
  exact : ∀ c, exactIdB c = true →
    ∀ x x' s, sem.rstamp c x = .ok s → sem.rcheck c x' s = .ok true → x' = x

theorem stdO_obs (c : Nat) (o o' : Int) (h : stdOCheck c o' (stdOStamp c o) = true) :
    oproj c o' = oproj c o := by
  have h' : stdOStamp c o' = stdOStamp c o := by simpa [stdOCheck] using h
  rcases c with _ | _ | _ | _ | _ | _ | c
  · simp only [stdOStamp, Stamp.int.injEq] at h'; simp [oproj, h']
  · simp only [stdOStamp, Stamp.optInt.injEq] at h'; simpa [oproj] using h'
  · simp only [stdOStamp, Stamp.optInt.injEq] at h'; simpa [oproj] using h'
  · simp only [stdOStamp, Stamp.bool.injEq, decide_eq_decide] at h'; simp [oproj, h']
  · rfl
  · simp only [stdOStamp, Stamp.optInt.injEq] at h'; simpa [oproj] using h'
  · rfl

theorem stdRCore_obs (c : Nat) (v v' : Option Int) (h : stdRStampCore c v' = stdRStampCore c v) :
    rproj c v' = rproj c v := by
  rcases c with _ | _ | _ | _ | c
  · simp only [stdRStampCore, Stamp.optInt.injEq] at h; simp [rproj, h]
  · simp only [stdRStampCore, Stamp.optInt.injEq] at h; simpa [rproj] using h
  · simp only [stdRStampCore, Stamp.bool.injEq] at h
    cases v <;> cases v' <;> simp_all [rproj]
  · rfl
  · simp only [stdRStampCore, Stamp.optInt.injEq] at h; simp [rproj, h]

theorem stdRCore_exact (c : Nat) (hc : exactIdB c = true) (v v' : Option Int)
    (h : stdRStampCore c v' = stdRStampCore c v) : v' = v := by
  rcases c with _ | _ | _ | _ | c
  · simpa [stdRStampCore] using h
  · simp [exactIdB] at hc
  · simp [exactIdB] at hc
  · simp [exactIdB] at hc
  · simpa [stdRStampCore] using h

theorem stdRStamp_ok {c : Nat} {v : Option Int} {s : Stamp} (h : stdRStamp c v = .ok s) :
    s = stdRStampCore c v := by
  unfold stdRStamp at h
  split at h
  · cases h
  · cases h; rfl

theorem stdRCheck_true {c : Nat} {v : Option Int} {s : Stamp} (h : stdRCheck c v s = .ok true) :
    stdRStampCore c v = s := by
  unfold stdRCheck at h
  split at h
  · cases h
  · simpa using h

/-- A table with the output checkers of `stdSem` whose resource stamps are `stdRStampCore` and whose
resource checks compare with `stdRStampCore` is `ObsLike`. -/
theorem obsLike_of_core {sem : Sem} (ho : sem.ostamp = stdOStamp) (hc : sem.ocheck = stdOCheck)
    (hs : ∀ c v s, sem.rstamp c v = .ok s → s = stdRStampCore c v)
    (hk : ∀ c v s, sem.rcheck c v s = .ok true → stdRStampCore c v = s) : ObsLike sem where
  oobs c o o' h := by rw [ho, hc] at h; exact stdO_obs c o o' h
  robs c v v' s h1 h2 := stdRCore_obs c v v' (by rw [hk c v' s h2, hs c v s h1])
  exact c hc' x x' s h1 h2 := stdRCore_exact c hc' x x' (by rw [hk c x' s h2, hs c x s h1])

theorem obsLike_stdSem : ObsLike stdSem :=
  obsLike_of_core rfl rfl (fun _ _ _ h => stdRStamp_ok h) (fun _ _ _ h => stdRCheck_true h)

/-! ### `Respects` -/

theorem compile_respects_of {sem : Sem} (h : ObsLike sem) (s : Script) :
    ∀ env, Respects sem (compile env s) := by
  induction s with
  | ret e => intro env; exact True.intro
  | panic => intro env; exact True.intro
  | req t c k ih =>
    intro env
    refine ⟨fun o o' hh => ?_, fun o => ih _⟩
    show compile (env ++ [oproj c o']) k = compile (env ++ [oproj c o]) k
    rw [h.oobs c o o' hh]
  | read r c k ih =>
    intro env
    refine ⟨fun v v' s h1 h2 => ?_, fun x => ?_⟩
    · show compile (env ++ [rproj c v']) k = compile (env ++ [rproj c v]) k
      rw [h.robs c v v' s h1 h2]
    · cases x with
      | ok v => exact ih _
      | error e => exact True.intro
  | write r c e k ih =>
    intro env x
    cases x with
    | ok u => exact ih env
    | error e => exact True.intro
  | wrote r c e k ih =>
    intro env x
    cases x with
    | ok u => exact ih env
    | error e => exact True.intro
  | ite e a b iha ihb =>
    intro env
    simp only [compile]
    split
    · exact iha env
    · exact ihb env

/-! ### `OneChecker` -/

theorem ckFree_spec {q : List (Nat × Nat)} {x c : Nat} (h : ckFree q x c = true) :
    ∀ c', (x, c') ∈ q → c' = c := by
  intro c' hm
  have := List.all_eq_true.mp h _ hm
  simpa using this

theorem oneCkB_sound (s : Script) : ∀ qt qr, s.oneCkB qt qr = true →
    ∀ env, OneCk qt qr (compile env s) := by
  induction s with
  | ret e => intro _ _ _ env; exact True.intro
  | panic => intro _ _ _ env; exact True.intro
  | req t c k ih =>
    intro qt qr hb env
    simp only [Script.oneCkB, Bool.and_eq_true] at hb
    exact ⟨ckFree_spec hb.1, fun o => ih _ _ hb.2 _⟩
  | read r c k ih =>
    intro qt qr hb env
    simp only [Script.oneCkB, Bool.and_eq_true] at hb
    refine ⟨ckFree_spec hb.1, fun x => ?_⟩
    cases x with
    | ok v => exact ih _ _ hb.2 _
    | error e => exact True.intro
  | write r c e k ih =>
    intro qt qr hb env
    simp only [Script.oneCkB, Bool.and_eq_true] at hb
    refine ⟨ckFree_spec hb.1, fun x => ?_⟩
    cases x with
    | ok v => exact ih _ _ hb.2 _
    | error e => exact True.intro
  | wrote r c e k ih =>
    intro qt qr hb env
    simp only [Script.oneCkB, Bool.and_eq_true] at hb
    refine ⟨ckFree_spec hb.1, fun x => ?_⟩
    cases x with
    | ok v => exact ih _ _ hb.2 _
    | error e => exact True.intro
  | ite e a b iha ihb =>
    intro qt qr hb env
    simp only [Script.oneCkB, Bool.and_eq_true] at hb
    simp only [compile]
    split
    · exact iha _ _ hb.1 env
    · exact ihb _ _ hb.2 env

/-! ### write-freedom -/

theorem writeFreeB_sound (s : Script) : s.writeFreeB = true → ∀ env, (compile env s).WriteFree := by
  induction s with
  | ret e => intro _ env; exact .ret _
  | panic => intro _ env; exact .panic
  | req t c k ih => intro hb env; exact .req _ _ _ (fun o => ih hb _)
  | read r c k ih =>
    intro hb env
    refine .read _ _ _ (fun x => ?_)
    cases x with
    | ok v => exact ih hb _
    | error e => exact .ret _
  | write r c e k ih => intro hb; cases hb
  | wrote r c e k ih => intro hb; cases hb
  | ite e a b iha ihb =>
    intro hb env
    simp only [Script.writeFreeB, Bool.and_eq_true] at hb
    simp only [compile]
    split
    · exact iha hb.1 env
    · exact ihb hb.2 env

/-! ### static roles -/

theorem staticRolesFromB_sound (ro : Roles) (t : Nat) (s : Script) : ∀ rq wr,
    s.staticRolesFromB ro t rq wr = true →
    ∀ env, StaticRolesFrom ro t ⟨rq, wr⟩ (compile env s) := by
  induction s with
  | ret e => intro _ _ _ env; exact True.intro
  | panic => intro _ _ _ env; exact True.intro
  | req u c k ih =>
    intro rq wr hb env
    simp only [Script.staticRolesFromB, Bool.and_eq_true, decide_eq_true_eq] at hb
    exact ⟨hb.1, fun o => ih _ _ hb.2 _⟩
  | read r c k ih =>
    intro rq wr hb env
    simp only [Script.staticRolesFromB, Bool.and_eq_true] at hb
    obtain ⟨hg, hk⟩ := hb
    refine ⟨?_, ?_, fun x => ?_⟩
    · intro hgen
      rw [hgen] at hg
      simp at hg
    · intro w hgen
      rw [hgen] at hg
      simp only [Bool.and_eq_true, List.contains_eq_mem, decide_eq_true_eq] at hg
      exact hg.2
    · cases x with
      | ok v => exact ih _ _ hk _
      | error e => exact True.intro
  | write r c e k ih =>
    intro rq wr hb env
    simp only [Script.staticRolesFromB, Bool.and_eq_true, beq_iff_eq, Bool.not_eq_true',
      List.contains_eq_mem, decide_eq_false_iff_not] at hb
    refine ⟨hb.1.1, hb.1.2, fun x => ?_⟩
    cases x with
    | ok v => exact ih _ _ hb.2 _
    | error e => exact True.intro
  | wrote r c e k ih =>
    intro rq wr hb env
    simp only [Script.staticRolesFromB, Bool.and_eq_true, beq_iff_eq, Bool.not_eq_true',
      List.contains_eq_mem, decide_eq_false_iff_not] at hb
    refine ⟨hb.1.1, hb.1.2, fun x => ?_⟩
    cases x with
    | ok v => exact ih _ _ hb.2 _
    | error e => exact True.intro
  | ite e a b iha ihb =>
    intro rq wr hb env
    simp only [Script.staticRolesFromB, Bool.and_eq_true] at hb
    simp only [compile]
    split
    · exact iha _ _ hb.1 env
    · exact ihb _ _ hb.2 env

theorem staticRolesB_sound {ro : Roles} {t : Nat} {s : Script} (h : s.staticRolesB ro t = true)
    (env : Env) : StaticRoles ro t (compile env s) :=
  staticRolesFromB_sound ro t s [] [] h env

/-! ### resource-checker ids -/

theorem rckAllB_sound (p : Nat → Bool) (s : Script) : s.rckAllB p = true →
    ∀ env, ProgCk (fun c => p c = true) (compile env s) := by
  induction s with
  | ret e => intro _ env; exact True.intro
  | panic => intro _ env; exact True.intro
  | req t c k ih => intro hb env; exact fun o => ih hb _
  | read r c k ih =>
    intro hb env
    simp only [Script.rckAllB, Bool.and_eq_true] at hb
    refine ⟨hb.1, fun x => ?_⟩
    cases x with
    | ok v => exact ih hb.2 _
    | error e => exact True.intro
  | write r c e k ih =>
    intro hb env
    simp only [Script.rckAllB, Bool.and_eq_true] at hb
    refine ⟨hb.1, fun x => ?_⟩
    cases x with
    | ok v => exact ih hb.2 _
    | error e => exact True.intro
  | wrote r c e k ih =>
    intro hb env
    simp only [Script.rckAllB, Bool.and_eq_true] at hb
    refine ⟨hb.1, fun x => ?_⟩
    cases x with
    | ok v => exact ih hb.2 _
    | error e => exact True.intro
  | ite e a b iha ihb =>
    intro hb env
    simp only [Script.rckAllB, Bool.and_eq_true] at hb
    simp only [compile]
    split
    · exact iha hb.1 env
    · exact ihb hb.2 env

theorem stampTotalB_sound {s : Script} (h : s.stampTotalB = true) (env : Env) :
    ProgCk (fun c => c < 30) (compile env s) :=
  ProgCk.mono (fun c hc => by simpa using hc) (rckAllB_sound _ s h env)

theorem noFailB_sound {s : Script} (h : s.noFailB = true) (env : Env) :
    ProgCk (fun c => c < 10 ∨ 30 ≤ c) (compile env s) :=
  ProgCk.mono (fun c hc => by simpa using hc) (rckAllB_sound _ s h env)

/-! ### exact checkers at write nodes -/

theorem writeExactB_sound {sem : Sem} (h : ObsLike sem) (s : Script) : s.writeExactB = true →
    ∀ env, WriteExact sem (compile env s) := by
  induction s with
  | ret e => intro _ env; exact True.intro
  | panic => intro _ env; exact True.intro
  | req t c k ih => intro hb env; exact fun o => ih hb _
  | read r c k ih =>
    intro hb env x
    cases x with
    | ok v => exact ih hb _
    | error e => exact True.intro
  | write r c e k ih =>
    intro hb env
    simp only [Script.writeExactB, Bool.and_eq_true] at hb
    refine ⟨h.exact c hb.1, fun x => ?_⟩
    cases x with
    | ok v => exact ih hb.2 _
    | error e => exact True.intro
  | wrote r c e k ih =>
    intro hb env
    simp only [Script.writeExactB, Bool.and_eq_true] at hb
    refine ⟨h.exact c hb.1, fun x => ?_⟩
    cases x with
    | ok v => exact ih hb.2 _
    | error e => exact True.intro
  | ite e a b iha ihb =>
    intro hb env
    simp only [Script.writeExactB, Bool.and_eq_true] at hb
    simp only [compile]
    split
    · exact iha hb.1 env
    · exact ihb hb.2 env

end ScriptWF
end PieModel
