/-
`SessWF` is preserved by the top-down build (`tdRequire`, `tdMake`, `tdCheck`, `tdCheckDeps`,
`tdRun`, `sessionRequire`, `requireAll`), whatever the result.  Joint induction on fuel.
-/
import PieModel.Build.SessWF
import PieModel.Build.TopDown

namespace PieModel

variable (sem : Sem) (body : Nat → Prog)

/-- The joint statement for fuel `f`. -/
structure TdPres (f : Nat) : Prop where
  require : ∀ s t c, SessWF s → Ext s (tdRequire sem body f s t c).1
  make : ∀ s t, SessWF s → Ext s (tdMake sem body f s t).1
  check : ∀ s node, SessWF s → Ext s (tdCheck sem body f s node).1
  checkDeps : ∀ s ds, SessWF s → Ext s (tdCheckDeps sem body f s ds).1
  run : ∀ s p, SessWF s → Ext s (tdRun sem body f s p).1

theorem tdPres_zero : TdPres sem body 0 := by
  refine ⟨?_, ?_, ?_, ?_, ?_⟩
  · intro s t c h; unfold tdRequire; exact Ext.refl h
  · intro s t h; unfold tdMake; exact Ext.refl h
  · intro s n h; unfold tdCheck; exact Ext.refl h
  · intro s ds h; unfold tdCheckDeps; exact Ext.refl h
  · intro s p h; unfold tdRun; exact Ext.refl h

theorem tdRequire_succ {f : Nat} (ih : TdPres sem body f) (s : Sess) (t c : Nat) (h : SessWF s) :
    Ext s (tdRequire sem body (f + 1) s t c).1 := by
  unfold tdRequire; simp only []
  have e0 := (Ext.refl h).emit (.requireStart t c)
  have e1 := e0.wf.getTask t
  have hd := Store.taskOf_getOrCreateTaskNode_self e0.wf.store t
  split
  next s2 a heq =>
    exact e0.trans (e1.trans ((reserveRequire_ext e1.wf ⟨t, hd⟩).out heq))
  next s2 heq =>
    have e2 := (reserveRequire_ext e1.wf ⟨t, hd⟩).out heq
    split
    next s3 a heq3 => exact e0.trans (e1.trans (e2.trans ((ih.make s2 t e2.wf).out heq3)))
    next s3 out heq3 =>
      have e3 := (ih.make s2 t e2.wf).out heq3
      have hd3 := (e2.le.trans e3.le).task _ _ hd
      have e4 := updateRequire_ext (e3.wf.emit (.requireEnd t c (sem.ostamp c out) out)) c
        (sem.ostamp c out) hd3
      have e04 := e0.trans (e1.trans (e2.trans ((e3.emit _).trans e4)))
      split
      next s4 a heq4 => exact e04.out heq4
      next s4 heq4 => exact e04.out heq4

theorem tdMake_succ {f : Nat} (ih : TdPres sem body f) (s : Sess) (t : Nat) (h : SessWF s) :
    Ext s (tdMake sem body (f + 1) s t).1 := by
  unfold tdMake; simp only []
  have e1 := h.getTask t
  have hd := Store.taskOf_getOrCreateTaskNode_self h.store t
  split
  · split <;> exact e1
  · split
    next s2 a heq => exact e1.trans ((ih.check _ _ e1.wf).out heq)
    next s2 o heq => exact (e1.trans ((ih.check _ _ e1.wf).out heq)).markConsistent _
    next s2 heq =>
      have e2 := (ih.check _ _ e1.wf).out heq
      have hd2 := e2.le.task _ _ hd
      have e3 := (e2.wf.startExec hd2).emit (.executeStart t)
      split
      next s4 a heq4 => exact e1.trans (e2.trans (e3.trans ((ih.run _ _ e3.wf).out heq4)))
      next s4 o heq4 =>
        have e4 := e3.trans ((ih.run _ _ e3.wf).out heq4)
        exact (e1.trans (e2.trans ((e4.emit (.executeEnd t o)).endExec e2.wf _ o))).markConsistent _

theorem tdCheck_succ {f : Nat} (ih : TdPres sem body f) (s : Sess) (node : Nat) (h : SessWF s) :
    Ext s (tdCheck sem body (f + 1) s node).1 := by
  unfold tdCheck
  split
  · exact Ext.refl h
  · split
    next s2 a heq => exact (ih.checkDeps _ _ h).out heq
    next s2 heq => exact (ih.checkDeps _ _ h).out heq
    next s2 heq => exact (ih.checkDeps _ _ h).out heq

theorem tdCheckDeps_succ {f : Nat} (ih : TdPres sem body f) (s : Sess) (ds : List Dep)
    (h : SessWF s) : Ext s (tdCheckDeps sem body (f + 1) s ds).1 := by
  cases ds with
  | nil => unfold tdCheckDeps; exact Ext.refl h
  | cons d ds =>
    cases d with
    | reserved => unfold tdCheckDeps; exact Ext.refl h
    | require t c stamp =>
      unfold tdCheckDeps; simp only []
      have e0 := (Ext.refl h).emit (.checkTaskStart t c stamp)
      split
      next s2 a heq => exact e0.trans ((ih.make _ _ e0.wf).out heq)
      next s2 out heq =>
        have e2 := (e0.trans ((ih.make _ _ e0.wf).out heq)).emit
          (.checkTaskEnd t c stamp (sem.ocheck c out stamp))
        split
        · exact e2.trans (ih.checkDeps _ _ e2.wf)
        · exact e2
    | read r c stamp =>
      unfold tdCheckDeps; simp only []
      have e0 := ((Ext.refl h).emit (.checkResStart r c stamp)).emit
        (.checkResEnd r c stamp (checkResDep sem (s.emit (.checkResStart r c stamp)) r c stamp))
      split
      · exact e0.trans (ih.checkDeps _ _ e0.wf)
      · exact e0
      · exact e0.same rfl rfl rfl
    | write r c stamp =>
      unfold tdCheckDeps; simp only []
      have e0 := ((Ext.refl h).emit (.checkResStart r c stamp)).emit
        (.checkResEnd r c stamp (checkResDep sem (s.emit (.checkResStart r c stamp)) r c stamp))
      split
      · exact e0.trans (ih.checkDeps _ _ e0.wf)
      · exact e0
      · exact e0.same rfl rfl rfl

theorem tdRun_succ {f : Nat} (ih : TdPres sem body f) (s : Sess) (p : Prog) (h : SessWF s) :
    Ext s (tdRun sem body (f + 1) s p).1 := by
  cases p with
  | ret v => unfold tdRun; exact Ext.refl h
  | panic => unfold tdRun; exact Ext.refl h
  | req t c k =>
    unfold tdRun
    split
    next s2 a heq => exact (ih.require _ _ _ h).out heq
    next s2 out heq =>
      have e2 := (ih.require _ _ _ h).out heq
      exact e2.trans (ih.run _ _ e2.wf)
  | read r c k =>
    unfold tdRun
    split
    next s2 a heq => exact (doRead_ext sem h r c).out heq
    next s2 x heq =>
      have e2 := (doRead_ext sem h r c).out heq
      exact e2.trans (ih.run _ _ e2.wf)
  | write r c v k =>
    unfold tdRun
    split
    next s2 a heq => exact (doWrite_ext sem h r c v).out heq
    next s2 x heq =>
      have e2 := (doWrite_ext sem h r c v).out heq
      exact e2.trans (ih.run _ _ e2.wf)
  | wrote r c v k =>
    unfold tdRun
    split
    next s2 a heq => exact (doWrote_ext sem h r c v).out heq
    next s2 x heq =>
      have e2 := (doWrote_ext sem h r c v).out heq
      exact e2.trans (ih.run _ _ e2.wf)

theorem tdPres (f : Nat) : TdPres sem body f := by
  induction f with
  | zero => exact tdPres_zero sem body
  | succ f ih =>
    exact ⟨tdRequire_succ sem body ih, tdMake_succ sem body ih, tdCheck_succ sem body ih,
      tdCheckDeps_succ sem body ih, tdRun_succ sem body ih⟩

/-! ### headline statements: every top-down function maps `SessWF` to `SessWF` -/

theorem tdRequire_ext (f : Nat) {s : Sess} (h : SessWF s) (t c : Nat) :
    Ext s (tdRequire sem body f s t c).1 := (tdPres sem body f).require s t c h

theorem tdMake_ext (f : Nat) {s : Sess} (h : SessWF s) (t : Nat) :
    Ext s (tdMake sem body f s t).1 := (tdPres sem body f).make s t h

theorem tdCheck_ext (f : Nat) {s : Sess} (h : SessWF s) (node : Nat) :
    Ext s (tdCheck sem body f s node).1 := (tdPres sem body f).check s node h

theorem tdCheckDeps_ext (f : Nat) {s : Sess} (h : SessWF s) (ds : List Dep) :
    Ext s (tdCheckDeps sem body f s ds).1 := (tdPres sem body f).checkDeps s ds h

theorem tdRun_ext (f : Nat) {s : Sess} (h : SessWF s) (p : Prog) :
    Ext s (tdRun sem body f s p).1 := (tdPres sem body f).run s p h

/-- Clearing `cur` (start of a build). -/
theorem SessWF.clearCur {s : Sess} (h : SessWF s) : Ext s { s with cur := none } :=
  h.step h.store (Store.Le.refl _) (fun _ hn => by cases hn) (fun _ hn => .inl hn)

theorem sessionRequire_ext (f : Nat) {s : Sess} (h : SessWF s) (t : Nat) :
    Ext s (sessionRequire sem body f s t).1 := by
  unfold sessionRequire; simp only []
  have e0 := h.clearCur.emit .buildStart
  have e1 := e0.trans (tdRequire_ext sem body f e0.wf t alwaysChecker)
  split
  next s2 a heq => exact e1.out heq
  next s2 o heq => exact (e1.out heq).emit .buildEnd

end PieModel
