/-
Well-nestedness of the tracker stream produced by the bottom-up interpreter
(`trySchedule`, `scheduleAffectedBy`, `scheduleAfterExec`, `buRequire … buRun`,
`buExecuteScheduled`, `updateAffectedTasks`, `bottomUpBuild`).
-/
import PieModel.Build.TraceNestingTD
import PieModel.Build.BottomUp
import PieModel.Build.Pie

namespace PieModel

namespace Tr
variable {rx : Bool} {s s' : Sess}

/-- a start immediately followed by its stop -/
theorem pair {st en : Ev} {k : Kind} {n : Nat} (h : s'.trace = s.trace ++ [st] ++ [en])
    (hst : st.role = .start k n) (hen : en.role = .stop k n) : Tr rx s s' [] :=
  ⟨[st, en], by simpa using h, (Seg.start hst).close hen⟩

/-- a start, its stop, and an atom -/
theorem pair_atom {st en a : Ev} {k : Kind} {n : Nat}
    (h : s'.trace = s.trace ++ [st] ++ [en] ++ [a])
    (hst : st.role = .start k n) (hen : en.role = .stop k n) (ha : a.role = .atom) :
    Tr rx s s' [] :=
  ⟨[st, en, a], by simpa using h, ((Seg.start hst).close hen).append (Seg.atom ha)⟩

end Tr

/-- A fold of balanced steps is balanced. -/
theorem foldl_tr {rx : Bool} {β : Type} {g : Sess → β → Sess} (hg : ∀ s x, Tr rx s (g s x) [])
    (l : List β) (s : Sess) : Tr rx s (l.foldl g s) [] := by
  induction l generalizing s with
  | nil => exact Tr.refl
  | cons x xs ih => exact (hg s x).bal_trans (ih (g s x))

variable (sem : Sem) (body : Nat → Prog)

theorem trySchedule_tr {rx : Bool} (s : Sess) (tnode : Nat) (d : Dep) :
    Tr rx s (trySchedule sem s tnode d) [] := by
  unfold trySchedule
  dsimp only
  repeat' split
  all_goals first
    | exact Tr.refl
    | exact Tr.pair (k := .checkRead) rfl rfl rfl
    | exact Tr.pair_atom (k := .checkRead) rfl rfl rfl rfl

theorem scheduleAffectedBy_tr {rx : Bool} (s : Sess) (r : Nat) :
    Tr rx s (scheduleAffectedBy sem s r) [] := by
  unfold scheduleAffectedBy; dsimp only
  exact ((foldl_tr (fun s (p : Nat × Dep) => trySchedule_tr sem s p.1 p.2) _ _).open_then
    (k := .schedRes) (n := r) rfl rfl).close rfl rfl

theorem scheduleAfterExec_tr {rx : Bool} (s : Sess) (node t : Nat) (out : Int) :
    Tr rx s (scheduleAfterExec sem s node t out) [] := by
  unfold scheduleAfterExec; dsimp only
  refine Tr.congr_right ?_ (Sess.markConsistent_trace _ _)
  refine Tr.close (k := .schedTask) (n := t) ?_ rfl rfl
  refine Tr.bal_trans (foldl_tr ?_ _ _) (Tr.open_then (foldl_tr ?_ _ _) rfl rfl)
  · intro s w
    split
    · exact Tr.refl
    · rename_i r _
      exact ((foldl_tr (fun s (p : Nat × Dep) => trySchedule_tr sem s p.1 p.2) _ _).open_then
        (k := .schedRes) (n := r) rfl rfl).close rfl rfl
  · intro s p
    split
    · split
      · exact Tr.pair (k := .checkReq) rfl rfl rfl
      · exact Tr.pair_atom (k := .checkReq) rfl rfl rfl rfl
    · exact Tr.refl

/-! ### the mutual block -/

structure BuSpec (rx : Bool) (f : Nat) : Prop where
  require : ∀ s t c, OutB rx s (buRequire sem body f s t c)
  make : ∀ s t n, OutB rx s (buMake sem body f s t n)
  exec : ∀ s t n, OutB rx s (buExec sem body f s t n)
  execSched : ∀ s n, OutB rx s (buExecAndSchedule sem body f s n)
  requireNow : ∀ s n, OutB rx s (buRequireNow sem body f s n)
  run : ∀ s p, OutR rx s (buRun sem body f s p)

namespace BuSpec
variable {sem body} {rx : Bool} {f : Nat} (ih : BuSpec sem body rx f)
include ih

theorem require' {s t c x} (h : buRequire sem body f s t c = x) : OutB rx s x :=
  h ▸ ih.require s t c
theorem make' {s t n x} (h : buMake sem body f s t n = x) : OutB rx s x := h ▸ ih.make s t n
theorem exec' {s t n x} (h : buExec sem body f s t n = x) : OutB rx s x := h ▸ ih.exec s t n
theorem execSched' {s n x} (h : buExecAndSchedule sem body f s n = x) : OutB rx s x :=
  h ▸ ih.execSched s n
theorem requireNow' {s n x} (h : buRequireNow sem body f s n = x) : OutB rx s x :=
  h ▸ ih.requireNow s n
theorem run' {s p x} (h : buRun sem body f s p = x) : OutR rx s x := h ▸ ih.run s p

end BuSpec

theorem buRequire_step {rx : Bool} {f : Nat} (ih : BuSpec sem body rx f) (s : Sess) (t c : Nat) :
    OutB rx s (buRequire sem body (f + 1) s t c) := by
  rw [buRequire]; dsimp only
  split
  · rename_i s1 a h1
    exact OutB.abort (Tr.start rfl (by rw [reserveRequire_eq h1]; rfl))
  · rename_i s1 h1
    have hs1 : Tr rx s s1 [(Kind.require, t)] := Tr.start rfl (by rw [reserveRequire_eq h1]; rfl)
    split
    · rename_i s2 a h2
      exact OutB.tr_abort hs1 (ih.make' h2)
    · rename_i s2 out h2
      have hm : Tr rx s1 s2 [] := ih.make' h2
      have h3 : Tr rx s (s2.emit (.requireEnd t c (sem.ostamp c out) out)) [] :=
        (hs1.trans_bal hm).close rfl rfl
      split
      · rename_i s3 a h4
        exact OutB.of_tr (h3.congr_right (updateRequire_eq h4))
      · rename_i s3 h4
        exact OutB.of_tr (h3.congr_right (by rw [Sess.markConsistent_trace, updateRequire_eq h4]))

theorem buMake_step {rx : Bool} {f : Nat} (ih : BuSpec sem body rx f) (s : Sess) (t n : Nat) :
    OutB rx s (buMake sem body (f + 1) s t n) := by
  rw [buMake]
  split
  · split <;> exact OutB.of_tr Tr.refl
  · split
    · exact ih.exec s t n
    · split
      · rename_i s1 a h1
        exact OutB.abort_of (ih.requireNow' h1) rfl
      · rename_i s1 o h1
        exact (ih.requireNow' h1 : Tr rx s s1 [])
      · rename_i s1 h1
        have h2 : Tr rx s s1 [] := ih.requireNow' h1
        split <;> exact OutB.of_tr h2

theorem buExec_step {rx : Bool} {f : Nat} (ih : BuSpec sem body rx f) (s : Sess) (t n : Nat) :
    OutB rx s (buExec sem body (f + 1) s t n) := by
  rw [buExec]; dsimp only
  split
  · rename_i s2 a h2
    obtain ⟨op, hop⟩ := ih.run' h2
    exact OutB.abort (hop.open_then (k := .execute) (n := t) rfl rfl)
  · rename_i s2 o h2
    obtain ⟨op, hal, hop⟩ := ih.run' h2
    have h3 : Tr rx s s2 (op ++ [(Kind.execute, t)]) :=
      hop.open_then (k := .execute) (n := t) rfl rfl
    exact OutB.of_tr (h3.closeExec (e := .executeEnd t o) hal rfl rfl)

theorem buExecAndSchedule_step {rx : Bool} {f : Nat} (ih : BuSpec sem body rx f) (s : Sess)
    (n : Nat) : OutB rx s (buExecAndSchedule sem body (f + 1) s n) := by
  rw [buExecAndSchedule]
  split
  · exact OutB.of_tr Tr.refl
  · split
    · rename_i s1 a h1
      exact (ih.exec' h1 : OutB rx s (s1, Res.abort a))
    · rename_i s1 o h1
      exact Tr.bal_trans (ih.exec' h1 : Tr rx s s1 []) (scheduleAfterExec_tr sem _ _ _ _)

theorem buRequireNow_step {rx : Bool} {f : Nat} (ih : BuSpec sem body rx f) (s : Sess)
    (n : Nat) : OutB rx s (buRequireNow sem body (f + 1) s n) := by
  rw [buRequireNow]
  split
  · exact OutB.of_tr Tr.refl
  · split
    · exact OutB.of_tr Tr.refl
    · split
      · rename_i s1 a h1
        exact OutB.abort_of (ih.execSched' h1) rfl
      · rename_i s1 o h1
        have h2 : Tr rx s s1 [] := Tr.bal_trans (Tr.of_eq rfl) (ih.execSched' h1 : Tr rx _ s1 [])
        split
        · exact h2
        · exact OutB.bal_then h2 (ih.requireNow _ _)

theorem buRun_step {rx : Bool} (hS : rx = false → StampTotal sem) {f : Nat}
    (ih : BuSpec sem body rx f) (s : Sess) (p : Prog) :
    OutR rx s (buRun sem body (f + 1) s p) := by
  cases p with
  | ret v => rw [buRun]; exact OutR.of_tr Tr.refl
  | panic => rw [buRun]; exact OutR.of_tr Tr.refl
  | req t c k =>
    rw [buRun]
    split
    · rename_i s1 a h1
      exact (ih.require' h1 : OutB rx s (s1, Res.abort a))
    · rename_i s1 out h1
      exact OutR.trans (ih.require' h1 : Tr rx s s1 []) Allowed.nil (ih.run _ _)
  | read r c k =>
    rw [buRun]
    have hd := (doRead_events sem s r c).outR sem (rx := rx) hS (k := .read) (n := r) rfl rfl
      (fun _ => rfl)
    split
    · rename_i s1 a h1
      rw [h1] at hd; exact hd
    · rename_i s1 x h1
      rw [h1] at hd
      obtain ⟨op, hal, htr⟩ := hd
      exact OutR.trans htr hal (ih.run _ _)
  | write r c v k =>
    rw [buRun]
    have hd := (doWrite_events sem s r c v).outR sem (rx := rx) hS (k := .write) (n := r) rfl rfl
      (fun _ => rfl)
    split
    · rename_i s1 a h1
      rw [h1] at hd; exact hd
    · rename_i s1 x h1
      rw [h1] at hd
      obtain ⟨op, hal, htr⟩ := hd
      exact OutR.trans htr hal (ih.run _ _)
  | wrote r c v k =>
    rw [buRun]
    have hd := (doWrote_events sem s r c v).outR sem (rx := rx) hS (k := .write) (n := r) rfl rfl
      (fun _ => rfl)
    split
    · rename_i s1 a h1
      rw [h1] at hd; exact hd
    · rename_i s1 x h1
      rw [h1] at hd
      obtain ⟨op, hal, htr⟩ := hd
      exact OutR.trans htr hal (ih.run _ _)

/-- Joint induction on the fuel. -/
theorem buSpec {rx : Bool} (hS : rx = false → StampTotal sem) (f : Nat) : BuSpec sem body rx f := by
  induction f with
  | zero =>
    refine ⟨?_, ?_, ?_, ?_, ?_, ?_⟩
    · intro s t c; rw [buRequire]; exact OutB.of_tr Tr.refl
    · intro s t n; rw [buMake]; exact OutB.of_tr Tr.refl
    · intro s t n; rw [buExec]; exact OutB.of_tr Tr.refl
    · intro s n; rw [buExecAndSchedule]; exact OutB.of_tr Tr.refl
    · intro s n; rw [buRequireNow]; exact OutB.of_tr Tr.refl
    · intro s p; rw [buRun]; exact OutR.of_tr Tr.refl
  | succ f ih =>
    exact ⟨buRequire_step sem body ih, buMake_step sem body ih, buExec_step sem body ih,
      buExecAndSchedule_step sem body ih, buRequireNow_step sem body ih,
      buRun_step sem body hS ih⟩

/-! ### the bottom-up build -/

theorem buExecuteScheduled_outB {rx : Bool} (hS : rx = false → StampTotal sem) (f : Nat)
    (s : Sess) : OutB rx s (buExecuteScheduled sem body f s) := by
  induction f generalizing s with
  | zero => rw [buExecuteScheduled]; exact OutB.of_tr Tr.refl
  | succ f ih =>
    rw [buExecuteScheduled]
    split
    · exact OutB.of_tr Tr.refl
    · split
      · rename_i s1 a h1
        exact OutB.abort_of ((buSpec sem body hS f).execSched' h1) rfl
      · rename_i s1 o h1
        have h2 : Tr rx s s1 [] :=
          Tr.bal_trans (Tr.of_eq rfl) ((buSpec sem body hS f).execSched' h1 : Tr rx _ s1 [])
        exact OutB.bal_then h2 (ih s1)

theorem updateAffectedTasks_outB {rx : Bool} (hS : rx = false → StampTotal sem) (f : Nat)
    (s : Sess) : OutB rx s (updateAffectedTasks sem body f s) := by
  unfold updateAffectedTasks; dsimp only
  have h0 := buExecuteScheduled_outB sem body hS f (({ s with cur := none } : Sess).emit .buildStart)
  split
  · rename_i s1 a h1
    rw [h1] at h0
    exact OutB.tr_abort (Tr.start (k := .build) (n := 0) rfl rfl) h0
  · rename_i s1 h1
    rw [h1] at h0
    have h2 : Tr rx _ s1 [] := h0
    exact (h2.open_then (k := .build) (n := 0) rfl rfl).close (e := .buildEnd) rfl rfl

theorem bottomUpBuild_outB {rx : Bool} (hS : rx = false → StampTotal sem) (f : Nat)
    (s : Sess) (changed : List Nat) : OutB rx s (bottomUpBuild sem body f s changed) := by
  unfold bottomUpBuild; dsimp only
  refine OutB.bal_then ?_ (updateAffectedTasks_outB sem body hS f _)
  exact Tr.bal_trans (Tr.of_eq rfl) (foldl_tr (fun s r => scheduleAffectedBy_tr sem s r) changed _)

end PieModel
