/-
Well-formedness of the `Store` (`Store.WF`) and its basic consequences.

`Store.WF st` says
1. the graph satisfies the DAG invariant (`Dag.Inv`);
2. the two lookup tables are *exact*: `aget st.taskNode t = some n` iff node `n` carries
   `.task t _` (`taskOf n = some t`), same for resources; keys are duplicate-free;
3. edges are typed: every edge starts at a task node; `reserved`/`require t` edges end at a task
   node (of `t`), `read r`/`write r` edges end at the node of resource `r` (`Store.DepOK`).

This file also contains
* the vocabulary used by the frame lemmas of `StoreLemmas.lean` (`Dep.isRead` …, `writersTo`,
  restatements of the derived observations as filters of `g.incomingEdges`/`g.outgoingEdges`),
* consequences: resource nodes have no outgoing edges, nothing is reachable from a resource
  node, the tables are injective, every live node is registered.
-/
import PieModel.Graph.FrameIter
import PieModel.Build.Store

namespace PieModel

/-! ### kinds of dependencies -/

namespace Dep

def isRead : Dep → Bool | .read .. => true | _ => false
def isWrite : Dep → Bool | .write .. => true | _ => false
def isRequire : Dep → Bool | .require .. => true | _ => false
def isReadWrite : Dep → Bool | .read .. | .write .. => true | _ => false

@[simp] theorem isRead_reserved : isRead .reserved = false := rfl
@[simp] theorem isRead_require (t c s) : isRead (.require t c s) = false := rfl
@[simp] theorem isRead_read (r c s) : isRead (.read r c s) = true := rfl
@[simp] theorem isRead_write (r c s) : isRead (.write r c s) = false := rfl
@[simp] theorem isWrite_reserved : isWrite .reserved = false := rfl
@[simp] theorem isWrite_require (t c s) : isWrite (.require t c s) = false := rfl
@[simp] theorem isWrite_read (r c s) : isWrite (.read r c s) = false := rfl
@[simp] theorem isWrite_write (r c s) : isWrite (.write r c s) = true := rfl
@[simp] theorem isRequire_reserved : isRequire .reserved = false := rfl
@[simp] theorem isRequire_require (t c s) : isRequire (.require t c s) = true := rfl
@[simp] theorem isRequire_read (r c s) : isRequire (.read r c s) = false := rfl
@[simp] theorem isRequire_write (r c s) : isRequire (.write r c s) = false := rfl
@[simp] theorem isReadWrite_reserved : isReadWrite .reserved = false := rfl
@[simp] theorem isReadWrite_require (t c s) : isReadWrite (.require t c s) = false := rfl
@[simp] theorem isReadWrite_read (r c s) : isReadWrite (.read r c s) = true := rfl
@[simp] theorem isReadWrite_write (r c s) : isReadWrite (.write r c s) = true := rfl

theorem isReadWrite_eq (d : Dep) : d.isReadWrite = (d.isRead || d.isWrite) := by
  cases d <;> rfl

end Dep

namespace Store

/-! ### reading node observations -/

theorem taskOf_eq_some_iff (st : Store) (n t : Nat) :
    st.taskOf n = some t ↔ ∃ o, st.g.getNodeData n = some (.task t o) := by
  unfold taskOf; split <;> simp_all

theorem resOf_eq_some_iff (st : Store) (n r : Nat) :
    st.resOf n = some r ↔ st.g.getNodeData n = some (.res r) := by
  unfold resOf; split <;> simp_all

theorem taskOutput_eq_some_iff (st : Store) (n : Nat) (o : Int) :
    st.taskOutput n = some o ↔ ∃ t, st.g.getNodeData n = some (.task t (some o)) := by
  unfold taskOutput; split <;> simp_all

/-- The three node observations depend on the node datum only. -/
theorem taskOf_congr {st st' : Store} {n n' : Nat}
    (h : st'.g.getNodeData n' = st.g.getNodeData n) : st'.taskOf n' = st.taskOf n := by
  simp only [taskOf, h]

theorem resOf_congr {st st' : Store} {n n' : Nat}
    (h : st'.g.getNodeData n' = st.g.getNodeData n) : st'.resOf n' = st.resOf n := by
  simp only [resOf, h]

theorem taskOutput_congr {st st' : Store} {n n' : Nat}
    (h : st'.g.getNodeData n' = st.g.getNodeData n) : st'.taskOutput n' = st.taskOutput n := by
  simp only [taskOutput, h]

theorem taskOf_of_data_task {st : Store} {n t : Nat} {o : Option Int}
    (h : st.g.getNodeData n = some (.task t o)) : st.taskOf n = some t := by simp [taskOf, h]

theorem resOf_of_data_task {st : Store} {n t : Nat} {o : Option Int}
    (h : st.g.getNodeData n = some (.task t o)) : st.resOf n = none := by simp [resOf, h]

theorem taskOutput_of_data_task {st : Store} {n t : Nat} {o : Option Int}
    (h : st.g.getNodeData n = some (.task t o)) : st.taskOutput n = o := by simp [taskOutput, h]

theorem taskOf_of_data_res {st : Store} {n r : Nat}
    (h : st.g.getNodeData n = some (.res r)) : st.taskOf n = none := by simp [taskOf, h]

theorem resOf_of_data_res {st : Store} {n r : Nat}
    (h : st.g.getNodeData n = some (.res r)) : st.resOf n = some r := by simp [resOf, h]

theorem taskOutput_of_data_res {st : Store} {n r : Nat}
    (h : st.g.getNodeData n = some (.res r)) : st.taskOutput n = none := by simp [taskOutput, h]

theorem taskOf_of_data_none {st : Store} {n : Nat}
    (h : st.g.getNodeData n = none) : st.taskOf n = none := by simp [taskOf, h]

theorem resOf_of_data_none {st : Store} {n : Nat}
    (h : st.g.getNodeData n = none) : st.resOf n = none := by simp [resOf, h]

theorem taskOutput_of_data_none {st : Store} {n : Nat}
    (h : st.g.getNodeData n = none) : st.taskOutput n = none := by simp [taskOutput, h]

theorem taskOf_of_not_live {st : Store} {n : Nat} (h : st.g.containsNode n = false) :
    st.taskOf n = none := taskOf_of_data_none (Dag.getNodeData_of_not_live _ h)

theorem resOf_of_not_live {st : Store} {n : Nat} (h : st.g.containsNode n = false) :
    st.resOf n = none := resOf_of_data_none (Dag.getNodeData_of_not_live _ h)

theorem taskOutput_of_not_live {st : Store} {n : Nat} (h : st.g.containsNode n = false) :
    st.taskOutput n = none := taskOutput_of_data_none (Dag.getNodeData_of_not_live _ h)

theorem live_of_taskOf {st : Store} {n t : Nat} (h : st.taskOf n = some t) :
    st.g.containsNode n = true := by
  cases hl : st.g.containsNode n
  · rw [taskOf_of_not_live hl] at h; cases h
  · rfl

theorem live_of_resOf {st : Store} {n r : Nat} (h : st.resOf n = some r) :
    st.g.containsNode n = true := by
  cases hl : st.g.containsNode n
  · rw [resOf_of_not_live hl] at h; cases h
  · rfl

/-- A node is not both a task node and a resource node. -/
theorem resOf_eq_none_of_taskOf {st : Store} {n t : Nat} (h : st.taskOf n = some t) :
    st.resOf n = none := by
  obtain ⟨o, ho⟩ := (taskOf_eq_some_iff st n t).mp h
  exact resOf_of_data_task ho

theorem taskOf_eq_none_of_resOf {st : Store} {n r : Nat} (h : st.resOf n = some r) :
    st.taskOf n = none :=
  taskOf_of_data_res ((resOf_eq_some_iff st n r).mp h)

theorem taskOutput_eq_none_of_taskOf_none {st : Store} {n : Nat} (h : st.taskOf n = none) :
    st.taskOutput n = none := by
  unfold taskOf at h; unfold taskOutput; split <;> simp_all

/-- A live node is a task node or a resource node. -/
theorem taskOf_or_resOf_of_live {st : Store} {n : Nat} (h : st.g.containsNode n = true) :
    (∃ t, st.taskOf n = some t) ∨ (∃ r, st.resOf n = some r) := by
  rw [← Dag.getNodeData_isSome, Option.isSome_iff_exists] at h
  obtain ⟨d, hd⟩ := h
  cases d with
  | task t o => exact .inl ⟨t, taskOf_of_data_task hd⟩
  | res r => exact .inr ⟨r, resOf_of_data_res hd⟩

/-! ### the derived observations as filters of the two edge iterators -/

/-- All tasks with a `write` dependency to `dst`, in insertion order
(`taskWritingTo` is its head). -/
def writersTo (st : Store) (dst : Nat) : List Nat :=
  ((st.g.incomingEdges dst).filter (fun p => p.2.isWrite)).map (·.1)

theorem tasksReadingFrom_eq (st : Store) (dst : Nat) :
    st.tasksReadingFrom dst = ((st.g.incomingEdges dst).filter (fun p => p.2.isRead)).map (·.1) := by
  unfold tasksReadingFrom
  induction st.g.incomingEdges dst with
  | nil => rfl
  | cons p l ih => obtain ⟨n, d⟩ := p; cases d <;> simp [ih, List.filter_cons]

theorem taskWritingTo_eq (st : Store) (dst : Nat) :
    st.taskWritingTo dst = (st.writersTo dst).head? := by
  unfold taskWritingTo writersTo
  congr 1
  induction st.g.incomingEdges dst with
  | nil => rfl
  | cons p l ih => obtain ⟨n, d⟩ := p; cases d <;> simp [ih, List.filter_cons]

theorem readDepsTo_eq (st : Store) (dst : Nat) :
    st.readDepsTo dst = (st.g.incomingEdges dst).filter (fun p => p.2.isRead) := by
  unfold readDepsTo
  congr 1

theorem readWriteDepsTo_eq (st : Store) (dst : Nat) :
    st.readWriteDepsTo dst = (st.g.incomingEdges dst).filter (fun p => p.2.isReadWrite) := by
  unfold readWriteDepsTo
  congr 1

theorem requireDepsTo_eq (st : Store) (dst : Nat) :
    st.requireDepsTo dst = (st.g.incomingEdges dst).filter (fun p => p.2.isRequire) := by
  unfold requireDepsTo
  congr 1

theorem resourcesWrittenBy_eq (st : Store) (src : Nat) :
    st.resourcesWrittenBy src =
      ((st.g.outgoingEdges src).filter (fun p => p.2.isWrite)).map (·.1) := by
  unfold resourcesWrittenBy
  induction st.g.outgoingEdges src with
  | nil => rfl
  | cons p l ih => obtain ⟨n, d⟩ := p; cases d <;> simp [ih, List.filter_cons]

theorem depsFrom_eq (st : Store) (src : Nat) :
    st.depsFrom src = (st.g.outgoingEdges src).map (·.2) := rfl

/-- All incoming-edge observations depend on `g.incomingEdges` only. -/
theorem incoming_obs_congr {st st' : Store} {x : Nat}
    (h : st'.g.incomingEdges x = st.g.incomingEdges x) :
    st'.tasksReadingFrom x = st.tasksReadingFrom x ∧ st'.writersTo x = st.writersTo x ∧
    st'.taskWritingTo x = st.taskWritingTo x ∧ st'.readDepsTo x = st.readDepsTo x ∧
    st'.readWriteDepsTo x = st.readWriteDepsTo x ∧ st'.requireDepsTo x = st.requireDepsTo x := by
  simp only [tasksReadingFrom, writersTo, taskWritingTo, readDepsTo, readWriteDepsTo,
    requireDepsTo, h, and_self]

/-- All outgoing-edge observations depend on `g.outgoingEdges` only. -/
theorem outgoing_obs_congr {st st' : Store} {x : Nat}
    (h : st'.g.outgoingEdges x = st.g.outgoingEdges x) :
    st'.depsFrom x = st.depsFrom x ∧ st'.resourcesWrittenBy x = st.resourcesWrittenBy x := by
  simp only [depsFrom, Dag.outgoingEdgeData, resourcesWrittenBy, h, and_self]

/-! ### well-formedness -/

/-- The dependency `d` has the right kind and target for an edge ending in `dst`. -/
def DepOK (st : Store) (d : Dep) (dst : Nat) : Prop :=
  match d with
  | .reserved => ∃ t, st.taskOf dst = some t
  | .require t _ _ => st.taskOf dst = some t
  | .read r _ _ => st.resOf dst = some r
  | .write r _ _ => st.resOf dst = some r

@[simp] theorem depOK_reserved (st : Store) (dst : Nat) :
    st.DepOK .reserved dst ↔ ∃ t, st.taskOf dst = some t := Iff.rfl
@[simp] theorem depOK_require (st : Store) (t c : Nat) (s : Stamp) (dst : Nat) :
    st.DepOK (.require t c s) dst ↔ st.taskOf dst = some t := Iff.rfl
@[simp] theorem depOK_read (st : Store) (r c : Nat) (s : Stamp) (dst : Nat) :
    st.DepOK (.read r c s) dst ↔ st.resOf dst = some r := Iff.rfl
@[simp] theorem depOK_write (st : Store) (r c : Nat) (s : Stamp) (dst : Nat) :
    st.DepOK (.write r c s) dst ↔ st.resOf dst = some r := Iff.rfl

/-- `DepOK` depends on the datum of the target node only. -/
theorem DepOK.congr {st st' : Store} {d : Dep} {dst : Nat}
    (h : st'.g.getNodeData dst = st.g.getNodeData dst) : st'.DepOK d dst ↔ st.DepOK d dst := by
  cases d <;> simp only [DepOK, taskOf_congr h, resOf_congr h]

/-- `DepOK` is monotone in the node kinds. -/
theorem DepOK.mono {st st' : Store} {d : Dep} {dst : Nat}
    (ht : ∀ t, st.taskOf dst = some t → st'.taskOf dst = some t)
    (hr : ∀ r, st.resOf dst = some r → st'.resOf dst = some r)
    (h : st.DepOK d dst) : st'.DepOK d dst := by
  cases d with
  | reserved => obtain ⟨t, h⟩ := h; exact ⟨t, ht t h⟩
  | require t c s => exact ht t h
  | read r c s => exact hr r h
  | write r c s => exact hr r h

/-- Well-formedness of the store. -/
structure WF (st : Store) : Prop where
  /-- the graph invariant -/
  inv : st.g.Inv
  task_keys : (akeys st.taskNode).Nodup
  res_keys : (akeys st.resNode).Nodup
  /-- the task table is exact -/
  task_iff : ∀ t n, aget st.taskNode t = some n ↔ st.taskOf n = some t
  /-- the resource table is exact -/
  res_iff : ∀ r n, aget st.resNode r = some n ↔ st.resOf n = some r
  /-- every edge starts at a task node -/
  edge_src : ∀ s d dep, st.g.getEdgeData s d = some dep → ∃ t, st.taskOf s = some t
  /-- every edge ends at a node of the kind (and name) its data says -/
  edge_dst : ∀ s d dep, st.g.getEdgeData s d = some dep → st.DepOK dep d

/-- The empty store is well-formed. -/
theorem WF.empty : ({} : Store).WF := by
  have hi : (({} : Store).g).Inv := Dag.inv_empty
  refine ⟨hi, by simp [akeys], by simp [akeys], ?_, ?_, ?_, ?_⟩ <;>
    simp [taskOf, resOf, Dag.getNodeData, Dag.getEdgeData, Dag.info]

namespace WF
variable {st : Store}

theorem gwf (h : st.WF) : st.g.WF := h.inv.toWF

/-- The task table in the form "`n` carries `.task t _`". -/
theorem task_iff_data (h : st.WF) (t n : Nat) :
    aget st.taskNode t = some n ↔ ∃ o, st.g.getNodeData n = some (.task t o) := by
  rw [h.task_iff, taskOf_eq_some_iff]

theorem res_iff_data (h : st.WF) (r n : Nat) :
    aget st.resNode r = some n ↔ st.g.getNodeData n = some (.res r) := by
  rw [h.res_iff, resOf_eq_some_iff]

/-- The task table as a set of pairs. -/
theorem mem_taskNode_iff (h : st.WF) (t n : Nat) :
    (t, n) ∈ st.taskNode ↔ ∃ o, st.g.getNodeData n = some (.task t o) := by
  rw [← h.task_iff_data]
  exact ⟨aget_of_mem h.task_keys, aget_mem⟩

theorem mem_resNode_iff (h : st.WF) (r n : Nat) :
    (r, n) ∈ st.resNode ↔ st.g.getNodeData n = some (.res r) := by
  rw [← h.res_iff_data]
  exact ⟨aget_of_mem h.res_keys, aget_mem⟩

/-- Different task names have different nodes. -/
theorem taskNode_inj (h : st.WF) {t t' n : Nat} (h1 : aget st.taskNode t = some n)
    (h2 : aget st.taskNode t' = some n) : t = t' := by
  rw [h.task_iff] at h1 h2; rw [h1] at h2; exact Option.some.inj h2

theorem resNode_inj (h : st.WF) {r r' n : Nat} (h1 : aget st.resNode r = some n)
    (h2 : aget st.resNode r' = some n) : r = r' := by
  rw [h.res_iff] at h1 h2; rw [h1] at h2; exact Option.some.inj h2

/-- A task node and a resource node are different nodes. -/
theorem taskNode_ne_resNode (h : st.WF) {t r n m : Nat} (h1 : aget st.taskNode t = some n)
    (h2 : aget st.resNode r = some m) : n ≠ m := by
  rintro rfl
  rw [h.task_iff] at h1; rw [h.res_iff] at h2
  rw [resOf_eq_none_of_taskOf h1] at h2; cases h2

/-- Every live node is registered in one of the tables. -/
theorem registered (h : st.WF) {n : Nat} (hl : st.g.containsNode n = true) :
    (∃ t, aget st.taskNode t = some n) ∨ (∃ r, aget st.resNode r = some n) := by
  rcases taskOf_or_resOf_of_live hl with ⟨t, ht⟩ | ⟨r, hr⟩
  · exact .inl ⟨t, (h.task_iff t n).mpr ht⟩
  · exact .inr ⟨r, (h.res_iff r n).mpr hr⟩

/-- Registered nodes are live. -/
theorem taskNode_live (h : st.WF) {t n : Nat} (h1 : aget st.taskNode t = some n) :
    st.g.containsNode n = true := live_of_taskOf ((h.task_iff t n).mp h1)

theorem resNode_live (h : st.WF) {r n : Nat} (h1 : aget st.resNode r = some n) :
    st.g.containsNode n = true := live_of_resOf ((h.res_iff r n).mp h1)

theorem aget_taskNode_eq_none_iff (h : st.WF) (t : Nat) :
    aget st.taskNode t = none ↔ ∀ n, st.taskOf n ≠ some t := by
  constructor
  · intro h1 n hn; rw [← h.task_iff, h1] at hn; cases hn
  · intro h1
    cases h2 : aget st.taskNode t with
    | none => rfl
    | some n => exact absurd ((h.task_iff t n).mp h2) (h1 n)

theorem aget_resNode_eq_none_iff (h : st.WF) (r : Nat) :
    aget st.resNode r = none ↔ ∀ n, st.resOf n ≠ some r := by
  constructor
  · intro h1 n hn; rw [← h.res_iff, h1] at hn; cases hn
  · intro h1
    cases h2 : aget st.resNode r with
    | none => rfl
    | some n => exact absurd ((h.res_iff r n).mp h2) (h1 n)

/-! #### edge typing -/

theorem hasEdge_src (h : st.WF) {s d : Nat} (he : st.g.HasEdge s d) : ∃ t, st.taskOf s = some t := by
  obtain ⟨dep, hd⟩ := (h.gwf.hasEdge_iff_getEdgeData s d).mp he
  exact h.edge_src s d dep hd

theorem mem_outgoingEdges_ok (h : st.WF) {s d : Nat} {dep : Dep}
    (hm : (d, dep) ∈ st.g.outgoingEdges s) : (∃ t, st.taskOf s = some t) ∧ st.DepOK dep d := by
  have := (Dag.mem_outgoingEdges h.gwf s d dep).mp hm
  exact ⟨h.edge_src _ _ _ this, h.edge_dst _ _ _ this⟩

theorem mem_incomingEdges_ok (h : st.WF) {s d : Nat} {dep : Dep}
    (hm : (s, dep) ∈ st.g.incomingEdges d) : (∃ t, st.taskOf s = some t) ∧ st.DepOK dep d := by
  have := (Dag.mem_incomingEdges h.gwf d s dep).mp hm
  exact ⟨h.edge_src _ _ _ this, h.edge_dst _ _ _ this⟩

/-- A node that is not a task node (a resource node, or not live) has no outgoing edges. -/
theorem childrenOf_of_not_task (h : st.WF) {n : Nat} (hn : st.taskOf n = none) :
    st.g.childrenOf n = [] := by
  cases hc : st.g.childrenOf n with
  | nil => rfl
  | cons c cs =>
    have : st.g.HasEdge n c := by simp [Dag.HasEdge, hc]
    obtain ⟨t, ht⟩ := h.hasEdge_src this
    rw [hn] at ht; cases ht

theorem outgoingEdges_of_not_task (h : st.WF) {n : Nat} (hn : st.taskOf n = none) :
    st.g.outgoingEdges n = [] := by
  simp [Dag.outgoingEdges, h.childrenOf_of_not_task hn]

theorem depsFrom_of_not_task (h : st.WF) {n : Nat} (hn : st.taskOf n = none) :
    st.depsFrom n = [] := by
  simp [depsFrom, Dag.outgoingEdgeData, h.outgoingEdges_of_not_task hn]

/-- Resource nodes have no outgoing edges. -/
theorem childrenOf_res (h : st.WF) {n r : Nat} (hn : st.resOf n = some r) :
    st.g.childrenOf n = [] := h.childrenOf_of_not_task (taskOf_eq_none_of_resOf hn)

theorem outgoingEdges_res (h : st.WF) {n r : Nat} (hn : st.resOf n = some r) :
    st.g.outgoingEdges n = [] := h.outgoingEdges_of_not_task (taskOf_eq_none_of_resOf hn)

/-- Nothing is reachable from a resource node (so a task→resource edge never closes a cycle). -/
theorem not_reach_from_res (h : st.WF) {n r : Nat} (hn : st.resOf n = some r) (m : Nat) :
    ¬ st.g.Reach n m := by
  intro hr
  obtain ⟨c, hc⟩ := hr.exists_first
  simp [Dag.HasEdge, h.childrenOf_res hn] at hc

/-- Every node on a path except possibly the last is a task node. -/
theorem reach_src_task (h : st.WF) {a b : Nat} (hr : st.g.Reach a b) :
    ∃ t, st.taskOf a = some t := by
  obtain ⟨c, hc⟩ := hr.exists_first
  exact h.hasEdge_src hc

/-- `containsTransitive` decides reachability. -/
theorem containsTransitive_iff (h : st.WF) (a b : Nat) :
    st.containsTransitive a b = true ↔ st.g.Reach a b :=
  Dag.containsTransitiveEdge_iff h.inv a b

/-- Incoming `read`/`write` edges end in resource nodes, `require`/`reserved` in task nodes. -/
theorem incoming_task_node (h : st.WF) {dst t : Nat} (hd : st.taskOf dst = some t) {p : Nat × Dep}
    (hp : p ∈ st.g.incomingEdges dst) : p.2 = .reserved ∨ ∃ c s, p.2 = .require t c s := by
  obtain ⟨s, dep⟩ := p
  have := (h.mem_incomingEdges_ok hp).2
  cases dep with
  | reserved => exact .inl rfl
  | require t' c s =>
    simp only [depOK_require] at this
    rw [hd] at this; cases this; exact .inr ⟨c, s, rfl⟩
  | read r c s => simp only [depOK_read, resOf_eq_none_of_taskOf hd] at this; cases this
  | write r c s => simp only [depOK_write, resOf_eq_none_of_taskOf hd] at this; cases this

theorem incoming_res_node (h : st.WF) {dst r : Nat} (hd : st.resOf dst = some r) {p : Nat × Dep}
    (hp : p ∈ st.g.incomingEdges dst) : ∃ c s, p.2 = .read r c s ∨ p.2 = .write r c s := by
  obtain ⟨s, dep⟩ := p
  have := (h.mem_incomingEdges_ok hp).2
  cases dep with
  | reserved =>
    obtain ⟨t, ht⟩ := this; rw [taskOf_eq_none_of_resOf hd] at ht; cases ht
  | require t' c s =>
    simp only [depOK_require, taskOf_eq_none_of_resOf hd] at this; cases this
  | read r' c s =>
    simp only [depOK_read] at this
    rw [hd] at this; cases this; exact ⟨c, s, .inl rfl⟩
  | write r' c s =>
    simp only [depOK_write] at this
    rw [hd] at this; cases this; exact ⟨c, s, .inr rfl⟩

end WF

/-- Transfer of `WF` to a store with the same tables, the same node data and a subset of the
typed edges. -/
theorem WF.transfer {st st' : Store} (h : st.WF) (hinv : st'.g.Inv)
    (ht : st'.taskNode = st.taskNode) (hr : st'.resNode = st.resNode)
    (hnd : ∀ n, st'.taskOf n = st.taskOf n ∧ st'.resOf n = st.resOf n)
    (hsrc : ∀ s d dep, st'.g.getEdgeData s d = some dep → ∃ t, st.taskOf s = some t)
    (hdst : ∀ s d dep, st'.g.getEdgeData s d = some dep → st.DepOK dep d) : st'.WF := by
  refine ⟨hinv, ht ▸ h.task_keys, hr ▸ h.res_keys, ?_, ?_, ?_, ?_⟩
  · intro t n; rw [ht, (hnd n).1]; exact h.task_iff t n
  · intro r n; rw [hr, (hnd n).2]; exact h.res_iff r n
  · intro s d dep he
    obtain ⟨t, ht'⟩ := hsrc s d dep he
    exact ⟨t, by rw [(hnd s).1]; exact ht'⟩
  · intro s d dep he
    exact DepOK.mono (fun t h' => by rw [(hnd d).1]; exact h') (fun r h' => by rw [(hnd d).2]; exact h')
      (hdst s d dep he)

end Store
end PieModel
