/-
Justification of executions in a bottom-up build (property C04, "only if" clause): definitions.

* `Store.outOf st t`      — the stored output of the task named `t` (`none`: no node or no output);
* `outFold t o evs`       — what the tracker stream `evs` does to the stored output of `t`:
                            `execute_start t` forgets it (`reset_task`), `execute_end t v` sets it;
* `ExecJust st0 q0 new`   — every `execute_start t` in `new` is justified: `t` was scheduled
                            earlier in `new`, or its node was in the start queue `q0`, or `t` had no
                            output at that moment;
* `SchedOK new`           — every `schedule_task t` in `new` directly follows a failed
                            dependency check of `t`;
* `JStep s s' new`, `J s s'` — the step relation that carries these facts through the interpreters.
-/
import PieModel.Build.SessWFBottomUp
import PieModel.Build.Proofs.BottomUpSteps

namespace PieModel

/-- The stored output of the task named `t`: `none` if `t` has no node or its node has no output. -/
def Store.outOf (st : Store) (t : Nat) : Option Int := (aget st.taskNode t).bind st.taskOutput

/-- The effect of one tracker event on the stored output of task `t`. -/
def outStep (t : Nat) (o : Option Int) : Ev → Option Int
  | .executeStart t' => if t' = t then none else o
  | .executeEnd t' v => if t' = t then some v else o
  | _ => o

/-- The stored output of `t` after the events `evs`, when it was `o` before. -/
def outFold (t : Nat) (o : Option Int) (evs : List Ev) : Option Int := evs.foldl (outStep t) o

/-- Events that neither touch outputs nor schedule: everything except `execute_start`,
`execute_end`, `schedule_task`. -/
def Ev.isPlain : Ev → Bool
  | .executeStart _ => false
  | .executeEnd _ _ => false
  | .scheduleTask _ => false
  | _ => true

/-- `e` is the end of a failed dependency check of task `t`, as emitted right before
`schedule_task t`: a resource dependency of `t` that is inconsistent or whose checker failed, or
a require dependency of `t` whose output checker rejects the new output. -/
def SchedCause (t : Nat) (e : Ev) : Prop :=
  (∃ c stamp res, e = .checkReadEnd t c stamp res ∧ res ≠ .ok true) ∨
  (∃ c stamp, e = .checkReqEnd t c stamp false)

/-- Every `schedule_task t` in `new` is immediately preceded by a failed dependency check of `t`. -/
def SchedOK (new : List Ev) : Prop :=
  ∀ pre t post, new = pre ++ .scheduleTask t :: post → ∃ pre' e, pre = pre' ++ [e] ∧ SchedCause t e

/-- Task `t` has a node in the queue `q0` (w.r.t. store `st0`). -/
def QJust (st0 : Store) (q0 : List Nat) (t : Nat) : Prop := ∃ n ∈ q0, st0.taskOf n = some t

/-- Every `execute_start t` in `new` is justified: `schedule_task t` earlier in `new`, or the node
of `t` in the start queue, or no stored output of `t` at that moment. -/
def ExecJust (st0 : Store) (q0 : List Nat) (new : List Ev) : Prop :=
  ∀ pre t post, new = pre ++ .executeStart t :: post →
    .scheduleTask t ∈ pre ∨ QJust st0 q0 t ∨ outFold t (st0.outOf t) pre = none

/-- The facts about the events `new` between `s` and `s'`. -/
structure JStep (s s' : Sess) (new : List Ev) : Prop where
  trace : s'.trace = s.trace ++ new
  just : ExecJust s.store s.queue new
  sched : SchedOK new
  queue : ∀ n ∈ s'.queue, n ∈ s.queue ∨ ∃ t, s'.store.taskOf n = some t ∧ .scheduleTask t ∈ new
  out : ∀ t, s'.store.outOf t = outFold t (s.store.outOf t) new

/-- `s'` is reached from the well-formed `s` by a justified run. -/
structure J (s s' : Sess) : Prop where
  wf0 : SessWF s
  ext : Ext s s'
  step : ∃ new, JStep s s' new

/-! ### `outFold` -/

@[simp] theorem outFold_nil (t : Nat) (o : Option Int) : outFold t o [] = o := rfl

@[simp] theorem outFold_cons (t : Nat) (o : Option Int) (e : Ev) (evs : List Ev) :
    outFold t o (e :: evs) = outFold t (outStep t o e) evs := rfl

theorem outFold_append (t : Nat) (o : Option Int) (a b : List Ev) :
    outFold t o (a ++ b) = outFold t (outFold t o a) b := by
  unfold outFold; rw [List.foldl_append]

theorem outStep_plain (t : Nat) (o : Option Int) {e : Ev} (he : e.isPlain = true) :
    outStep t o e = o := by
  cases e <;> first | rfl | cases he

theorem outStep_scheduleTask (t t' : Nat) (o : Option Int) : outStep t o (.scheduleTask t') = o := rfl

/-- Events other than `execute_start`/`execute_end` leave the outputs alone. -/
theorem outFold_of_noExec (t : Nat) (o : Option Int) {evs : List Ev}
    (h : ∀ e ∈ evs, (∀ t', e ≠ .executeStart t') ∧ ∀ t' v, e ≠ .executeEnd t' v) :
    outFold t o evs = o := by
  induction evs generalizing o with
  | nil => rfl
  | cons e evs ih =>
    rw [outFold_cons, ih _ (fun e' he' => h e' (List.mem_cons_of_mem _ he'))]
    have := h e List.mem_cons_self
    cases e <;> first | rfl | (exfalso; first | exact this.1 _ rfl | exact this.2 _ _ rfl)

theorem outFold_plain (t : Nat) (o : Option Int) {evs : List Ev}
    (h : ∀ e ∈ evs, e.isPlain = true) : outFold t o evs = o := by
  apply outFold_of_noExec
  intro e he
  have := h e he
  constructor
  · intro t' h'; subst h'; cases this
  · intro t' v h'; subst h'; cases this

/-- If nothing in `evs` concerns `t`, its output stays. -/
theorem outFold_of_not_mem (t : Nat) (o : Option Int) {evs : List Ev}
    (h1 : .executeStart t ∉ evs) (h2 : ∀ v, .executeEnd t v ∉ evs) : outFold t o evs = o := by
  induction evs generalizing o with
  | nil => rfl
  | cons e evs ih =>
    rw [outFold_cons, ih _ (fun h => h1 (List.mem_cons_of_mem _ h))
      (fun v h => h2 v (List.mem_cons_of_mem _ h))]
    cases e with
    | executeStart t' =>
      simp only [outStep]; split
      · next h => subst h; exact absurd List.mem_cons_self h1
      · rfl
    | executeEnd t' v =>
      simp only [outStep]; split
      · next h => subst h; exact absurd List.mem_cons_self (h2 v)
      · rfl
    | _ => rfl

/-- Without `execute_start t` an existing output stays an output. -/
theorem outFold_isSome (t : Nat) {o : Option Int} {evs : List Ev} (ho : o.isSome = true)
    (h1 : .executeStart t ∉ evs) : (outFold t o evs).isSome = true := by
  induction evs generalizing o with
  | nil => exact ho
  | cons e evs ih =>
    rw [outFold_cons]
    apply ih _ (fun h => h1 (List.mem_cons_of_mem _ h))
    cases e with
    | executeStart t' =>
      simp only [outStep]; split
      · next h => subst h; exact absurd List.mem_cons_self h1
      · exact ho
    | executeEnd t' v => simp only [outStep]; split <;> simp [ho]
    | _ => exact ho

/-! ### `SchedOK` -/

theorem SchedOK.nil : SchedOK [] := by
  intro pre t post h
  cases pre <;> cases h

/-- Appending an event that is not `schedule_task`. -/
theorem SchedOK.snoc {l : List Ev} (h : SchedOK l) {e : Ev} (he : ∀ t, e ≠ .scheduleTask t) :
    SchedOK (l ++ [e]) := by
  intro pre t post heq
  rcases List.eq_nil_or_concat post with rfl | ⟨post', x, rfl⟩
  · have : l ++ [e] = pre ++ [.scheduleTask t] := heq
    have := (List.append_inj' this rfl).2
    exact absurd (List.cons.inj this).1 (he t)
  · have h2 : l ++ [e] = (pre ++ .scheduleTask t :: post') ++ [x] := by
      rw [heq]; simp
    exact h pre t post' (List.append_inj' h2 rfl).1

/-- Appending `schedule_task t` after its cause. -/
theorem SchedOK.snoc_sched {l : List Ev} {e : Ev} (h : SchedOK (l ++ [e])) {t : Nat}
    (hc : SchedCause t e) : SchedOK (l ++ [e, .scheduleTask t]) := by
  intro pre t' post heq
  rcases List.eq_nil_or_concat post with rfl | ⟨post', x, rfl⟩
  · have h2 : (l ++ [e]) ++ [.scheduleTask t] = pre ++ [.scheduleTask t'] := by
      rw [← heq]; simp
    obtain ⟨h3, h4⟩ := List.append_inj' h2 rfl
    have : t = t' := by injection (List.cons.inj h4).1
    subst this
    exact ⟨l, e, h3.symm, hc⟩
  · have h2 : (l ++ [e]) ++ [.scheduleTask t] = (pre ++ .scheduleTask t' :: post') ++ [x] := by
      rw [show (l ++ [e]) ++ [Ev.scheduleTask t] = l ++ [e, .scheduleTask t] by simp, heq]; simp
    exact h pre t' post' (List.append_inj' h2 rfl).1

theorem SchedOK.of_plain {l : List Ev} (h : ∀ e ∈ l, e.isPlain = true) : SchedOK l := by
  intro pre t post heq
  have := h (.scheduleTask t) (by rw [heq]; simp)
  cases this

theorem SchedOK.append {a b : List Ev} (ha : SchedOK a) (hb : SchedOK b) : SchedOK (a ++ b) := by
  intro pre t post heq
  rcases List.append_eq_append_iff.mp heq with ⟨a', h1, h2⟩ | ⟨c', h1, h2⟩
  · -- the event lies in `b`
    obtain ⟨pre', e, h3, h4⟩ := hb a' t post h2
    exact ⟨a ++ pre', e, by rw [h1, h3, List.append_assoc], h4⟩
  · cases c' with
    | nil =>
      simp only [List.nil_append] at h2
      obtain ⟨pre', e, h3, h4⟩ := hb [] t post h2.symm
      cases pre' <;> cases h3
    | cons x c'' =>
      obtain ⟨hx, _⟩ := List.cons.inj h2
      subst hx
      exact ha pre t c'' h1

/-! ### `NoOutputAt` -/

/-- Task `t` has no stored output after the events `pre`, starting from store `st0`:
`execute_start t` forgets the output (`reset_task`), `execute_end t v` stores `v`, nothing else
touches it (`C04_output_trace`). -/
def NoOutputAt (st0 : Store) (pre : List Ev) (t : Nat) : Prop :=
  outFold t (st0.outOf t) pre = none

instance (st0 : Store) (pre : List Ev) (t : Nat) : Decidable (NoOutputAt st0 pre t) := by
  unfold NoOutputAt; infer_instance

theorem lastStart_cons (t : Nat) (e : Ev) (l : List Ev) :
    (∃ a b, e :: l = a ++ .executeStart t :: b ∧ .executeStart t ∉ b ∧ ∀ v, .executeEnd t v ∉ b) ↔
      (∃ a b, l = a ++ .executeStart t :: b ∧ .executeStart t ∉ b ∧ ∀ v, .executeEnd t v ∉ b) ∨
      (e = .executeStart t ∧ .executeStart t ∉ l ∧ ∀ v, .executeEnd t v ∉ l) := by
  constructor
  · rintro ⟨a, b, h1, h2, h3⟩
    cases a with
    | nil =>
      obtain ⟨h4, h5⟩ := List.cons.inj h1
      subst h5
      exact .inr ⟨h4, h2, h3⟩
    | cons x a =>
      obtain ⟨_, h5⟩ := List.cons.inj h1
      exact .inl ⟨a, b, h5, h2, h3⟩
  · rintro (⟨a, b, h1, h2, h3⟩ | ⟨h1, h2, h3⟩)
    · exact ⟨e :: a, b, by rw [h1]; rfl, h2, h3⟩
    · exact ⟨[], l, by rw [h1]; rfl, h2, h3⟩

theorem outStep_eq_none_iff (t : Nat) (o : Option Int) (e : Ev) :
    outStep t o e = none ↔
      e = .executeStart t ∨ (o = none ∧ e ≠ .executeStart t ∧ ∀ v, e ≠ .executeEnd t v) := by
  cases e with
  | executeStart t' =>
    simp only [outStep]
    by_cases h : t' = t
    · subst h; simp
    · simp [h]
  | executeEnd t' v =>
    simp only [outStep]
    by_cases h : t' = t
    · subst h; simp
    · simp [h]
  | _ => simp [outStep]

/-- `NoOutputAt` spelled out: the last event of `pre` that concerns the output of `t` is
`execute_start t` (an execution of `t` was started and has not ended), or no event of `pre`
concerns it and `t` has no stored output in `st0` (`t` is new or was left without output by an
aborted build). -/
theorem noOutputAt_iff (st0 : Store) (pre : List Ev) (t : Nat) :
    NoOutputAt st0 pre t ↔
      (∃ a b, pre = a ++ .executeStart t :: b ∧ .executeStart t ∉ b ∧ ∀ v, .executeEnd t v ∉ b) ∨
      (st0.outOf t = none ∧ .executeStart t ∉ pre ∧ ∀ v, .executeEnd t v ∉ pre) := by
  unfold NoOutputAt
  generalize st0.outOf t = o
  induction pre generalizing o with
  | nil => simp
  | cons e l ih =>
    rw [outFold_cons, ih, lastStart_cons, outStep_eq_none_iff]
    simp only [List.mem_cons, not_or]
    constructor
    · rintro (h | ⟨h1 | ⟨h1, h2, h3⟩, h4, h5⟩)
      · exact .inl (.inl h)
      · exact .inl (.inr ⟨h1, h4, h5⟩)
      · exact .inr ⟨h1, ⟨fun h => h2 h.symm, h4⟩, fun v => ⟨fun h => h3 v h.symm, h5 v⟩⟩
    · rintro ((h | ⟨h1, h4, h5⟩) | ⟨h1, ⟨h2, h4⟩, h5⟩)
      · exact .inl h
      · exact .inr ⟨.inl h1, h4, h5⟩
      · exact .inr ⟨.inr ⟨h1, fun h => h2 h.symm, fun v h => (h5 v).1 h.symm⟩, h4,
          fun v => (h5 v).2⟩

end PieModel
