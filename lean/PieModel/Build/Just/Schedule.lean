/-
The scheduling functions of the bottom-up context are justified steps: `trySchedule`,
`scheduleAffectedBy`, `scheduleAfterExec`; and the two ends of an execution.
-/
import PieModel.Build.Just.Basic

namespace PieModel
open Sess SessL

variable (sem : Sem)

theorem Ev.noExec_of_plain {e : Ev} (h : e.isPlain = true) :
    (∀ t', e ≠ .executeStart t') ∧ ∀ t' v, e ≠ .executeEnd t' v := by
  constructor
  · intro t' h'; subst h'; cases h
  · intro t' v h'; subst h'; cases h

/-- The scheduling step: two events of a failed check of `t`, then `schedule_task t` and
`Queue::add` of the node of `t`. -/
theorem J.schedule {s s' : Sess} (h : SessWF s) {tnode t : Nat}
    (ht : s.store.taskOf tnode = some t) {e0 e : Ev} (hp0 : e0.isPlain = true)
    (hp : e.isPlain = true) (hc : SchedCause t e) (h1 : s'.store = s.store) (h2 : s'.cur = s.cur)
    (htr : s'.trace = s.trace ++ [e0, e, .scheduleTask t])
    (hq : s'.queue = queueAdd s.queue tnode) : J s s' := by
  have hne : ∀ {x : Ev}, x.isPlain = true → ∀ t', x ≠ .scheduleTask t' := by
    intro x hx t' h'; subst h'; cases hx
  refine ⟨h, h.enqueue h1 h2 ht hq, _, htr, ?_, ?_, ?_, ?_⟩
  · apply ExecJust.of_no_exec
    intro t' hm
    simp only [List.mem_cons, List.not_mem_nil, or_false] at hm
    rcases hm with rfl | rfl | hm
    · cases hp0
    · cases hp
    · cases hm
  · exact ((SchedOK.nil.snoc (hne hp0)).snoc (hne hp)).snoc_sched (l := [e0]) hc
  · intro n hn
    rw [hq, mem_queueAdd] at hn
    rcases hn with hn | rfl
    · exact .inl hn
    · exact .inr ⟨t, by rw [h1]; exact ht, by simp⟩
  · intro t'
    rw [h1]
    symm
    apply outFold_of_noExec
    intro x hx
    simp only [List.mem_cons, List.not_mem_nil, or_false] at hx
    rcases hx with rfl | rfl | rfl
    · exact Ev.noExec_of_plain hp0
    · exact Ev.noExec_of_plain hp
    · exact ⟨fun _ h' => (nomatch h'), fun _ _ h' => (nomatch h')⟩

theorem J.readCheck {s : Sess} (h : SessWF s) (t c : Nat) (stamp : Stamp) (res : Except Int Bool) :
    J s (readCheckEvents s t c stamp res) :=
  J.of_plain h (h.same rfl rfl rfl) [.checkReadStart t c stamp, .checkReadEnd t c stamp res]
    (by simp [readCheckEvents]) (by simp [Ev.isPlain]) (fun _ h => h) (fun _ => rfl)

theorem trySchedule_J {s : Sess} (h : SessWF s) (tnode : Nat) (d : Dep) :
    J s (trySchedule sem s tnode d) := by
  cases ht : s.store.taskOf tnode with
  | none => rw [trySchedule_other sem s tnode d (.inl ht)]; exact J.refl h
  | some t =>
    have key : ∀ (r c : Nat) (stamp : Stamp),
        J s (match sem.rcheck c (s.content r) stamp with
          | .ok true => readCheckEvents s t c stamp (.ok true)
          | .ok false => scheduleEv (readCheckEvents s t c stamp (.ok false)) t tnode
          | .error e =>
            scheduleEv { readCheckEvents s t c stamp (.error e) with errors := s.errors ++ [e] }
              t tnode) := by
      intro r c stamp
      split
      · exact J.readCheck h t c stamp _
      · exact J.schedule h ht (e0 := .checkReadStart t c stamp)
          (e := .checkReadEnd t c stamp (.ok false)) rfl rfl
          (.inl ⟨c, stamp, _, rfl, by simp⟩) rfl rfl
          (by simp [scheduleEv, readCheckEvents]) rfl
      next e _ =>
        exact J.schedule h ht (e0 := .checkReadStart t c stamp)
          (e := .checkReadEnd t c stamp (.error e)) rfl rfl
          (.inl ⟨c, stamp, _, rfl, by simp⟩) rfl rfl
          (by simp [scheduleEv, readCheckEvents]) rfl
    cases d with
    | reserved => rw [trySchedule_other sem s tnode _ (.inr (.inl rfl))]; exact J.refl h
    | require t' c stamp =>
      rw [trySchedule_other sem s tnode _ (.inr (.inr ⟨_, _, _, rfl⟩))]; exact J.refl h
    | read r c stamp => rw [trySchedule_read sem s tnode t r c stamp ht]; exact key r c stamp
    | write r c stamp => rw [trySchedule_write sem s tnode t r c stamp ht]; exact key r c stamp

theorem trySchedule_foldl_J (l : List (Nat × Dep)) {s : Sess} (h : SessWF s) :
    J s (l.foldl (fun s (p : Nat × Dep) => trySchedule sem s p.1 p.2) s) :=
  J.foldl _ (fun _ p hs => trySchedule_J sem hs p.1 p.2) l s h

theorem scheduleAffectedBy_J {s : Sess} (h : SessWF s) (r : Nat) :
    J s (scheduleAffectedBy sem s r) := by
  unfold scheduleAffectedBy; simp only []
  have e0 := (J.refl h).emit (.schedResStart r) rfl
  have e1 : J s { s.emit (.schedResStart r) with
      store := ((s.emit (.schedResStart r)).store.getOrCreateResNode r).1 } :=
    e0.trans (J.of_plain e0.wf (e0.wf.setStore (e0.wf.store.getOrCreateResNode r)
      (Store.le_getOrCreateResNode e0.wf.store r)) [] (by simp) (by simp) (fun _ h => h)
      (Store.taskOutput_getOrCreateResNode e0.wf.store r))
  exact (e1.trans (trySchedule_foldl_J sem _ e1.wf)).emit _ rfl

theorem writtenSchedStep_J {s : Sess} (h : SessWF s) (w : Nat) : J s (writtenSchedStep sem s w) := by
  unfold writtenSchedStep
  split
  · exact J.refl h
  next r _ =>
    have e0 := (J.refl h).emit (.schedResStart r) rfl
    exact (e0.trans (trySchedule_foldl_J sem _ e0.wf)).emit _ rfl

theorem reqSchedStep_J (out : Int) {s : Sess} (h : SessWF s) (p : Nat × Dep) :
    J s (reqSchedStep sem out s p) := by
  unfold reqSchedStep
  split
  next t' c stamp requiring heq1 heq =>
    simp only
    split
    · exact ((J.refl h).emit _ rfl).emit _ rfl
    next hok =>
      have hok' : sem.ocheck c out stamp = false := by simpa using hok
      exact J.schedule h heq (e0 := .checkReqStart requiring c stamp)
        (e := .checkReqEnd requiring c stamp (sem.ocheck c out stamp)) rfl rfl
        (.inr ⟨c, stamp, by rw [hok']⟩) rfl rfl (by simp) rfl
  · exact J.refl h

theorem scheduleAfterExec_J {s : Sess} (h : SessWF s) (node t : Nat) (out : Int) :
    J s (scheduleAfterExec sem s node t out) := by
  rw [scheduleAfterExec_eq]
  simp only
  refine J.markConsistent (J.emit ?_ _ rfl) _
  have e1 : J s ((s.store.resourcesWrittenBy node).foldl (writtenSchedStep sem) s) :=
    J.foldl _ (fun s w hs => writtenSchedStep_J sem hs w) _ s h
  have e2 := e1.emit (.schedTaskStart t) rfl
  exact e2.trans (J.foldl _ (fun s p hs => reqSchedStep_J sem out hs p) _ _ e2.wf)

/-! ### the two ends of an execution -/

/-- The state in which `buExec`/`tdMake` start the body of `t` (graph node `node`). -/
def justExecStart (s : Sess) (t node : Nat) : Sess :=
  ({ ({ s with store := s.store.resetTask node } : Sess) with cur := some node } : Sess).emit
    (.executeStart t)

/-- The state in which they return `o`. -/
def justExecEnd (s : Sess) (t node : Nat) (prev : Option Nat) (o : Int) : Sess :=
  let s := s.emit (.executeEnd t o)
  let s : Sess := { s with cur := prev }
  { s with store := s.store.setTaskOutput node o }

theorem justExecStart_ext {s : Sess} (h : SessWF s) {t node : Nat}
    (hn : s.store.taskOf node = some t) : Ext s (justExecStart s t node) :=
  (h.startExec hn).emit (.executeStart t)

/-- `reset_task` + `execute_start t`: the stored outputs follow the event. -/
theorem justExecStart_out {s : Sess} (h : SessWF s) {t node : Nat}
    (hn : s.store.taskOf node = some t) (t' : Nat) :
    (justExecStart s t node).store.outOf t' = outFold t' (s.store.outOf t') [.executeStart t] := by
  have hw := h.store
  have hw' : (s.store.resetTask node).WF := hw.resetTask node
  have hle := Store.le_resetTask hw node
  show (s.store.resetTask node).outOf t' = _
  rw [outFold_cons, outFold_nil]
  simp only [outStep]
  split
  next heq =>
    subst heq
    rw [Store.outOf_of_taskOf hw' (hle.task _ _ hn), Store.taskOutput_resetTask hw]; simp
  next hne =>
    exact Store.outOf_of_taskOutput_ne hw hw' hle hn
      (fun x hx => by rw [Store.taskOutput_resetTask hw, if_neg hx]) (Ne.symm hne)

/-- The facts about the start of an execution, relative to a start state `s0` that differs from
`s` in the queue only; the justification is supplied by the caller. -/
theorem JStep.justExecStart {s0 s : Sess} (h : SessWF s) {t node : Nat}
    (hn : s.store.taskOf node = some t) (h1 : s0.store = s.store) (h2 : s0.trace = s.trace)
    (hq : ∀ n ∈ s.queue, n ∈ s0.queue)
    (hj : QJust s0.store s0.queue t ∨ s0.store.outOf t = none) :
    JStep s0 (justExecStart s t node) [.executeStart t] := by
  refine ⟨by rw [h2]; rfl, ?_, SchedOK.nil.snoc (fun _ h' => (nomatch h')),
    fun n hn => .inl (hq n hn), ?_⟩
  · intro pre t' post heq
    cases pre with
    | nil =>
      obtain ⟨h3, _⟩ := List.cons.inj heq
      cases h3
      rcases hj with hj | hj
      · exact .inr (.inl hj)
      · exact .inr (.inr hj)
    | cons x pre =>
      obtain ⟨_, h4⟩ := List.cons.inj heq
      cases pre <;> cases h4
  · intro t'
    rw [h1]; exact justExecStart_out h hn t'

/-- Starting the execution of a task without stored output. -/
theorem J.execStart_noOutput {s : Sess} (h : SessWF s) {t node : Nat}
    (hn : s.store.taskOf node = some t) (ho : s.store.taskOutput node = none) :
    J s (justExecStart s t node) :=
  ⟨h, justExecStart_ext h hn, _, JStep.justExecStart h hn rfl rfl (fun _ h => h)
    (.inr (by rw [Store.outOf_of_taskOf h.store hn]; exact ho))⟩

/-- Starting the execution of a task whose node was just popped from the queue. -/
theorem J.execStart_popped {s : Sess} {t node : Nat} (h0 : SessWF { s with queue := node :: s.queue })
    (hn : s.store.taskOf node = some t) :
    J { s with queue := node :: s.queue } (justExecStart s t node) := by
  have h : SessWF s := (h0.subQueue (q := s.queue) (fun _ hm => List.mem_cons_of_mem _ hm)).wf
  refine ⟨h0, ?_, _, JStep.justExecStart h hn rfl rfl (fun _ hm => List.mem_cons_of_mem _ hm)
    (.inl ⟨node, List.mem_cons_self, hn⟩)⟩
  exact ⟨(justExecStart_ext h hn).wf, (justExecStart_ext h hn).le⟩

/-- `execute_end t o` + `set_task_output`: well-formed extension. -/
theorem justExecEnd_ext {s4 : Sess} (h : SessWF s4) (t node : Nat) (prev : Option Nat)
    (hprev : ∀ n, prev = some n → ∃ t, s4.store.taskOf n = some t) (o : Int) :
    Ext s4 (justExecEnd s4 t node prev o) := by
  have hle := Store.le_setTaskOutput s4.store node o
  exact h.step (h.store.setTaskOutput node o) hle (fun n hc => .inr (hle.isTask (hprev n hc)))
    (fun _ hm => .inl hm)

/-- ... and the stored outputs follow the event. -/
theorem justExecEnd_out {s4 : Sess} (h : SessWF s4) {t node : Nat}
    (hn : s4.store.taskOf node = some t) (prev : Option Nat) (o : Int) (t' : Nat) :
    (justExecEnd s4 t node prev o).store.outOf t' =
      outFold t' (s4.store.outOf t') [.executeEnd t o] := by
  have hw := h.store
  have hw' : (s4.store.setTaskOutput node o).WF := hw.setTaskOutput node o
  have hle := Store.le_setTaskOutput s4.store node o
  show (s4.store.setTaskOutput node o).outOf t' = _
  rw [outFold_cons, outFold_nil]
  simp only [outStep]
  split
  next heq =>
    subst heq
    rw [Store.outOf_of_taskOf hw' (hle.task _ _ hn), Store.taskOutput_setTaskOutput_self hn]
  next hne =>
    exact Store.outOf_of_taskOutput_ne hw hw' hle hn
      (fun x hx => Store.taskOutput_setTaskOutput_of_ne hx o) (Ne.symm hne)

/-- The end of an execution: `execute_end`, restore `cur`, store the output. -/
theorem J.justExecEnd {s1 s4 : Sess} (j : J s1 s4) {t node : Nat} (hn : s4.store.taskOf node = some t)
    (prev : Option Nat) (hprev : ∀ n, prev = some n → ∃ t, s4.store.taskOf n = some t) (o : Int) :
    J s1 (PieModel.justExecEnd s4 t node prev o) := by
  refine j.trans ?_
  have h := j.wf
  refine ⟨h, justExecEnd_ext h t node prev hprev o, [.executeEnd t o], rfl, ?_,
    SchedOK.nil.snoc (fun _ h' => (nomatch h')), fun n hm => .inl hm,
    justExecEnd_out h hn prev o⟩
  apply ExecJust.of_no_exec
  intro t' hm
  simp at hm

end PieModel
