/-
The step relation `J`: preorder laws, plain steps, and the session primitives.
-/
import PieModel.Build.Just.Defs
import PieModel.Build.PrimSteps

namespace PieModel

/-! ### `Store.outOf` -/

namespace Store
variable {st st' : Store}

theorem outOf_of_taskOf (h : st.WF) {n t : Nat} (hn : st.taskOf n = some t) :
    st.outOf t = st.taskOutput n := by
  unfold outOf; rw [(h.task_iff t n).mpr hn]; rfl

theorem outOf_of_no_node {t : Nat} (h : aget st.taskNode t = none) : st.outOf t = none := by
  unfold outOf; rw [h]; rfl

/-- An extension that changes no node's output changes no task's output. -/
theorem outOf_eq_of_le (hw : st.WF) (hw' : st'.WF) (hle : st.Le st')
    (ho : ∀ x, st'.taskOutput x = st.taskOutput x) (t : Nat) : st'.outOf t = st.outOf t := by
  cases h' : aget st'.taskNode t with
  | none =>
    rw [outOf_of_no_node h']
    cases h0 : aget st.taskNode t with
    | none => rw [outOf_of_no_node h0]
    | some m => rw [hle.taskNode hw hw' h0] at h'; cases h'
  | some n =>
    have hn' := (hw'.task_iff t n).mp h'
    rw [outOf_of_taskOf hw' hn', ho]
    cases h0 : st.taskOf n with
    | some t0 =>
      have := hle.task n t0 h0
      rw [hn'] at this; cases this
      rw [outOf_of_taskOf hw h0]
    | none =>
      rw [taskOutput_eq_none_of_taskOf_none h0]
      cases h1 : aget st.taskNode t with
      | none => rw [outOf_of_no_node h1]
      | some m =>
        have h2 := hle.taskNode hw hw' h1
        rw [h'] at h2; cases h2
        rw [(hw.task_iff t n).mp h1] at h0; cases h0

/-- Changing the output of the node of `t`: only the output of `t` changes. -/
theorem outOf_of_taskOutput_ne (hw : st.WF) (hw' : st'.WF) (hle : st.Le st') {node t : Nat}
    (hn : st.taskOf node = some t) (ho : ∀ x, x ≠ node → st'.taskOutput x = st.taskOutput x)
    {t' : Nat} (ht : t' ≠ t) : st'.outOf t' = st.outOf t' := by
  -- the node of `t'`, if any, is not `node`
  cases h' : aget st'.taskNode t' with
  | none =>
    rw [outOf_of_no_node h']
    cases h0 : aget st.taskNode t' with
    | none => rw [outOf_of_no_node h0]
    | some m => rw [hle.taskNode hw hw' h0] at h'; cases h'
  | some n =>
    have hn' := (hw'.task_iff t' n).mp h'
    have hne : n ≠ node := by
      rintro rfl
      have := hle.task _ _ hn
      rw [hn'] at this; exact ht (Option.some.inj this)
    rw [outOf_of_taskOf hw' hn', ho n hne]
    cases h0 : st.taskOf n with
    | some t0 =>
      have := hle.task n t0 h0
      rw [hn'] at this; cases this
      rw [outOf_of_taskOf hw h0]
    | none =>
      rw [taskOutput_eq_none_of_taskOf_none h0]
      cases h1 : aget st.taskNode t' with
      | none => rw [outOf_of_no_node h1]
      | some m =>
        have h2 := hle.taskNode hw hw' h1
        rw [h'] at h2; cases h2
        rw [(hw.task_iff t' n).mp h1] at h0; cases h0

end Store

/-! ### `JStep`, `J`: preorder -/

theorem ExecJust.nil (st0 : Store) (q0 : List Nat) : ExecJust st0 q0 [] := by
  intro pre t post h; cases pre <;> cases h

theorem ExecJust.of_no_exec {st0 : Store} {q0 : List Nat} {new : List Ev}
    (h : ∀ t, .executeStart t ∉ new) : ExecJust st0 q0 new := by
  intro pre t post heq
  exact absurd (by rw [heq]; simp) (h t)

theorem JStep.refl (s : Sess) : JStep s s [] :=
  ⟨by simp, ExecJust.nil _ _, SchedOK.nil, fun _ h => .inl h, fun _ => rfl⟩

theorem J.refl {s : Sess} (h : SessWF s) : J s s := ⟨h, Ext.refl h, [], JStep.refl s⟩

theorem JStep.trans {s s1 s2 : Sess} {n1 n2 : List Ev} (hw : SessWF s) (hle1 : s.store.Le s1.store)
    (hle2 : s1.store.Le s2.store) (h1 : JStep s s1 n1) (h2 : JStep s1 s2 n2) :
    JStep s s2 (n1 ++ n2) := by
  refine ⟨by rw [h2.trace, h1.trace, List.append_assoc], ?_, h1.sched.append h2.sched, ?_, ?_⟩
  · intro pre t post heq
    rcases List.append_eq_append_iff.mp heq with ⟨a', hp, hn⟩ | ⟨c', hp, hn⟩
    · -- in `n2`
      rcases h2.just a' t post hn with hs | ⟨n, hq, ht⟩ | ho
      · exact .inl (by rw [hp]; exact List.mem_append_right _ hs)
      · rcases h1.queue n hq with hq0 | ⟨t', ht', hs⟩
        · obtain ⟨t0, ht0⟩ := hw.queue n hq0
          have := hle1.task n t0 ht0
          rw [ht] at this; cases this
          exact .inr (.inl ⟨n, hq0, ht0⟩)
        · rw [ht] at ht'; cases ht'
          exact .inl (by rw [hp]; exact List.mem_append_left _ hs)
      · right; right
        rw [hp, outFold_append, ← h1.out]; exact ho
    · cases c' with
      | nil =>
        simp only [List.nil_append, List.append_nil] at hn hp
        rcases h2.just [] t post hn.symm with hs | ⟨n, hq, ht⟩ | ho
        · cases hs
        · rcases h1.queue n hq with hq0 | ⟨t', ht', hs⟩
          · obtain ⟨t0, ht0⟩ := hw.queue n hq0
            have := hle1.task n t0 ht0
            rw [ht] at this; cases this
            exact .inr (.inl ⟨n, hq0, ht0⟩)
          · rw [ht] at ht'; cases ht'
            exact .inl (by rw [← hp]; exact hs)
        · right; right
          rw [← hp, ← h1.out]; exact ho
      | cons x c'' =>
        obtain ⟨hx, _⟩ := List.cons.inj hn
        subst hx
        exact h1.just pre t c'' hp
  · intro n hn
    rcases h2.queue n hn with hq1 | ⟨t, ht, hs⟩
    · rcases h1.queue n hq1 with hq0 | ⟨t, ht, hs⟩
      · exact .inl hq0
      · exact .inr ⟨t, hle2.task n t ht, List.mem_append_left _ hs⟩
    · exact .inr ⟨t, ht, List.mem_append_right _ hs⟩
  · intro t
    rw [h2.out, h1.out, outFold_append]

theorem J.trans {s s1 s2 : Sess} (h1 : J s s1) (h2 : J s1 s2) : J s s2 := by
  obtain ⟨n1, j1⟩ := h1.step
  obtain ⟨n2, j2⟩ := h2.step
  exact ⟨h1.wf0, h1.ext.trans h2.ext, n1 ++ n2, j1.trans h1.wf0 h1.ext.le h2.ext.le j2⟩

theorem J.wf {s s' : Sess} (h : J s s') : SessWF s' := h.ext.wf

/-- The result state of a call, given the call's value. -/
theorem J.out {α : Type} {s s' : Sess} {F : Sess × α} {r : α} (e : J s F.1) (heq : F = (s', r)) :
    J s s' := by rw [heq] at e; exact e

/-- A step that emits only plain events, enqueues nothing and changes no output. -/
theorem J.of_plain {s s' : Sess} (h : SessWF s) (e : Ext s s') (new : List Ev)
    (htr : s'.trace = s.trace ++ new) (hp : ∀ e ∈ new, e.isPlain = true)
    (hq : ∀ n ∈ s'.queue, n ∈ s.queue)
    (ho : ∀ x, s'.store.taskOutput x = s.store.taskOutput x) : J s s' := by
  refine ⟨h, e, new, htr, ?_, SchedOK.of_plain hp, fun n hn => .inl (hq n hn), ?_⟩
  · apply ExecJust.of_no_exec
    intro t ht; have := hp _ ht; cases this
  · intro t
    rw [outFold_plain t _ hp]
    exact Store.outOf_eq_of_le h.store e.wf.store e.le ho t

/-- Changing only fields other than store, trace, queue (and `cur` within the task nodes). -/
theorem J.same {s s' : Sess} (h : SessWF s) (e : Ext s s') (h1 : s'.store = s.store)
    (h2 : s'.trace = s.trace) (h3 : s'.queue = s.queue) : J s s' :=
  J.of_plain h e [] (by simp [h2]) (by simp) (by rw [h3]; exact fun _ h => h) (by simp [h1])

theorem J.emit {s s' : Sess} (h : J s s') (ev : Ev) (hp : ev.isPlain = true) :
    J s (s'.emit ev) :=
  h.trans (J.of_plain h.wf ((Ext.refl h.wf).emit ev) [ev] rfl (by simpa using hp)
    (fun _ h => h) (fun _ => rfl))

theorem J.markConsistent {s s' : Sess} (h : J s s') (n : Nat) : J s (s'.markConsistent n) :=
  h.trans (J.same h.wf ((Ext.refl h.wf).markConsistent n) (by simp) (by simp) (by simp))

/-- Replacing the queue by a sub-queue. -/
theorem J.subQueue {s : Sess} (h : SessWF s) {q : List Nat} (hq : ∀ m ∈ q, m ∈ s.queue) :
    J s { s with queue := q } :=
  J.of_plain h (h.subQueue hq) [] (by simp) (by simp) hq (fun _ => rfl)

theorem J.foldl {β : Type} (F : Sess → β → Sess) (hF : ∀ s b, SessWF s → J s (F s b))
    (l : List β) : ∀ s, SessWF s → J s (l.foldl F s) := by
  induction l with
  | nil => intro s h; exact J.refl h
  | cons b l ih =>
    intro s h
    have e1 := hF s b h
    exact e1.trans (ih _ e1.wf)

/-! ### session primitives -/

open Sess SessL

variable (sem : Sem)

theorem J.getTask {s : Sess} (h : SessWF s) (t : Nat) :
    J s { s with store := (s.store.getOrCreateTaskNode t).1 } :=
  J.of_plain h (h.getTask t) [] (by simp) (by simp) (fun _ h => h)
    (Store.taskOutput_getOrCreateTaskNode h.store t)

theorem doRead_trace (s : Sess) (r c : Nat) :
    ∃ new, (doRead sem s r c).1.trace = s.trace ++ new ∧ ∀ e ∈ new, e.isPlain = true := by
  cases hc : s.cur with
  | none => rw [doRead_no_cur sem s r c hc]; exact ⟨[], by simp, by simp⟩
  | some cur =>
    rcases hp : s.store.getOrCreateResNode r with ⟨st, dst⟩
    rw [doRead_eq sem s r c cur st dst hc hp]
    repeat' split
    all_goals first
      | exact ⟨[.readStart r c], rfl, by simp [Ev.isPlain]⟩
      | exact ⟨[.readStart r c, .readEnd r c ‹Stamp›], rfl, by simp [Ev.isPlain]⟩

theorem doRead_taskOutput {s : Sess} (h : SessWF s) (r c : Nat) (x : Nat) :
    (doRead sem s r c).1.store.taskOutput x = s.store.taskOutput x := by
  cases hc : s.cur with
  | none => rw [doRead_store_none sem hc]
  | some cur =>
    have h1 := h.store.getOrCreateResNode r
    rcases doRead_store sem hc r c with hs | ⟨stamp, hs⟩ <;> rw [hs]
    · exact Store.taskOutput_getOrCreateResNode h.store r x
    · rw [Store.taskOutput_addDependency h1]
      exact Store.taskOutput_getOrCreateResNode h.store r x

theorem doRead_J {s : Sess} (h : SessWF s) (r c : Nat) : J s (doRead sem s r c).1 := by
  obtain ⟨new, htr, hp⟩ := doRead_trace sem s r c
  exact J.of_plain h (doRead_ext sem h r c) new htr hp
    (by rw [doRead_queue]; exact fun _ h => h) (doRead_taskOutput sem h r c)

theorem doWrite_trace (s : Sess) (r c : Nat) (v : Option Int) :
    ∃ new, (doWrite sem s r c v).1.trace = s.trace ++ new ∧ ∀ e ∈ new, e.isPlain = true := by
  cases hc : s.cur with
  | none => rw [doWrite_no_cur sem s r c v hc]; exact ⟨[], by simp, by simp⟩
  | some cur =>
    rcases hp : s.store.getOrCreateResNode r with ⟨st, dst⟩
    rw [doWrite_eq sem s r c cur v st dst hc hp]
    simp only []
    repeat' split
    all_goals first
      | (refine ⟨[.writeStart r c], ?_, ?_⟩ <;> simp [Ev.isPlain]; done)
      | (refine ⟨[.writeStart r c, .writeEnd r c ‹Stamp›], ?_, ?_⟩ <;> simp [Ev.isPlain]; done)

theorem doWrite_taskOutput {s : Sess} (h : SessWF s) (r c : Nat) (v : Option Int) (x : Nat) :
    (doWrite sem s r c v).1.store.taskOutput x = s.store.taskOutput x := by
  cases hc : s.cur with
  | none => rw [doWrite_store_none sem hc]; simp
  | some cur =>
    have h1 := h.store.getOrCreateResNode r
    rcases doWrite_store sem hc r c v with hs | ⟨stamp, hs⟩ <;> rw [hs]
    · exact Store.taskOutput_getOrCreateResNode h.store r x
    · rw [Store.taskOutput_addDependency h1]
      exact Store.taskOutput_getOrCreateResNode h.store r x

theorem doWrite_J {s : Sess} (h : SessWF s) (r c : Nat) (v : Option Int) :
    J s (doWrite sem s r c v).1 := by
  obtain ⟨new, htr, hp⟩ := doWrite_trace sem s r c v
  exact J.of_plain h (doWrite_ext sem h r c v) new htr hp
    (by rw [doWrite_queue]; exact fun _ h => h) (doWrite_taskOutput sem h r c v)

theorem doWrote_trace (s : Sess) (r c : Nat) (v : Option Int) :
    ∃ new, (doWrote sem s r c v).1.trace = s.trace ++ new ∧ ∀ e ∈ new, e.isPlain = true := by
  cases hc : s.cur with
  | none => rw [doWrote_no_cur sem s r c v hc]; exact ⟨[], by simp, by simp⟩
  | some cur =>
    rcases hp : s.store.getOrCreateResNode r with ⟨st, dst⟩
    rw [doWrote_eq sem s r c cur v st dst hc hp]
    simp only []
    repeat' split
    all_goals first
      | (refine ⟨[.writeStart r c], ?_, ?_⟩ <;> simp [Ev.isPlain]; done)
      | (refine ⟨[.writeStart r c, .writeEnd r c ‹Stamp›], ?_, ?_⟩ <;> simp [Ev.isPlain]; done)

theorem doWrote_taskOutput {s : Sess} (h : SessWF s) (r c : Nat) (v : Option Int) (x : Nat) :
    (doWrote sem s r c v).1.store.taskOutput x = s.store.taskOutput x := by
  cases hc : s.cur with
  | none => rw [doWrote_store_none sem hc]; simp
  | some cur =>
    have h1 := h.store.getOrCreateResNode r
    rcases doWrote_store sem hc r c v with hs | ⟨stamp, hs⟩ <;> rw [hs]
    · exact Store.taskOutput_getOrCreateResNode h.store r x
    · rw [Store.taskOutput_addDependency h1]
      exact Store.taskOutput_getOrCreateResNode h.store r x

theorem doWrote_J {s : Sess} (h : SessWF s) (r c : Nat) (v : Option Int) :
    J s (doWrote sem s r c v).1 := by
  obtain ⟨new, htr, hp⟩ := doWrote_trace sem s r c v
  exact J.of_plain h (doWrote_ext sem h r c v) new htr hp
    (by rw [doWrote_queue]; exact fun _ h => h) (doWrote_taskOutput sem h r c v)

theorem reserveRequire_J {s : Sess} (h : SessWF s) {dst : Nat}
    (hd : ∃ t, s.store.taskOf dst = some t) : J s (reserveRequire s dst).1 := by
  have e := reserveRequire_ext h hd
  cases hc : s.cur with
  | none =>
    have : (reserveRequire s dst).1 = s := by unfold reserveRequire; rw [hc]
    rw [this]; exact J.refl h
  | some src =>
    rcases reserveRequire_cases hc dst with ⟨h1, _⟩ | ⟨_, h1, _⟩
    · rw [h1]; exact J.refl h
    · rw [h1] at e ⊢
      exact J.of_plain h e [] (by simp) (by simp) (fun _ h => h)
        (Store.taskOutput_addDependency h.store src dst .reserved)

theorem updateRequire_J {s : Sess} (h : SessWF s) {dst t : Nat} (c : Nat) (stamp : Stamp)
    (hd : s.store.taskOf dst = some t) : J s (updateRequire s dst t c stamp).1 := by
  have e := updateRequire_ext h c stamp hd
  cases hc : s.cur with
  | none =>
    have : (updateRequire s dst t c stamp).1 = s := by unfold updateRequire; rw [hc]
    rw [this]; exact J.refl h
  | some src =>
    rcases updateRequire_cases hc dst t c stamp with ⟨h1, _⟩ | ⟨st', hs, h1, _⟩
    · rw [h1]; exact J.refl h
    · rw [h1] at e ⊢
      exact J.of_plain h e [] (by simp) (by simp) (fun _ h => h)
        (Store.taskOutput_setDependency hs)

end PieModel
