/-
Justification of executions in a top-down session (property C02/C09, trace form): every
`execute_start t` directly follows the end event of a failed dependency check
(`check_task_end … false`, `check_resource_end … res` with `res ≠ ok true`), or `t` had no stored
output at that moment.  Joint induction on fuel over `tdRequire/tdMake/tdCheck/tdCheckDeps/tdRun`,
then `sessionRequire`, `requireAll`; whatever the result.
-/
import PieModel.Build.Just.Schedule
import PieModel.Build.Pie

namespace PieModel
open Sess SessL

/-- `e` is the end of a failed dependency check of the top-down context: the output checker of a
require dependency rejects the (new) output, or a resource dependency is inconsistent or its
checker failed. -/
def TdCause (e : Ev) : Prop :=
  (∃ t c stamp, e = .checkTaskEnd t c stamp false) ∨
  (∃ r c stamp res, e = .checkResEnd r c stamp res ∧ res ≠ .ok true)

/-- Every `execute_start t` in `new` directly follows a failed dependency check, or `t` has no
stored output at that moment. -/
def TdExecJust (st0 : Store) (new : List Ev) : Prop :=
  ∀ pre t post, new = pre ++ .executeStart t :: post →
    (∃ pre' e, pre = pre' ++ [e] ∧ TdCause e) ∨ outFold t (st0.outOf t) pre = none

structure TJStep (s s' : Sess) (new : List Ev) : Prop where
  trace : s'.trace = s.trace ++ new
  just : TdExecJust s.store new
  out : ∀ t, s'.store.outOf t = outFold t (s.store.outOf t) new

/-- `s'` is reached from the well-formed `s` by a justified top-down run. -/
structure TJ (s s' : Sess) : Prop where
  wf0 : SessWF s
  ext : Ext s s'
  step : ∃ new, TJStep s s' new

/-- The events between `s` and `s1` end with a failed dependency check. -/
def LastCause (s s1 : Sess) : Prop := ∃ pre' e, s1.trace = s.trace ++ (pre' ++ [e]) ∧ TdCause e

theorem TdExecJust.of_no_exec {st0 : Store} {new : List Ev}
    (h : ∀ t, .executeStart t ∉ new) : TdExecJust st0 new := by
  intro pre t post heq
  exact absurd (by rw [heq]; simp) (h t)

theorem TJStep.refl (s : Sess) : TJStep s s [] :=
  ⟨by simp, TdExecJust.of_no_exec (by simp), fun _ => rfl⟩

theorem TJ.refl {s : Sess} (h : SessWF s) : TJ s s := ⟨h, Ext.refl h, [], TJStep.refl s⟩

theorem TJStep.trans {s s1 s2 : Sess} {n1 n2 : List Ev} (h1 : TJStep s s1 n1) (h2 : TJStep s1 s2 n2) :
    TJStep s s2 (n1 ++ n2) := by
  refine ⟨by rw [h2.trace, h1.trace, List.append_assoc], ?_, ?_⟩
  · intro pre t post heq
    rcases List.append_eq_append_iff.mp heq with ⟨a', hp, hn⟩ | ⟨c', hp, hn⟩
    · rcases h2.just a' t post hn with ⟨pre', e, h3, h4⟩ | ho
      · exact .inl ⟨n1 ++ pre', e, by rw [hp, h3, List.append_assoc], h4⟩
      · right
        rw [hp, outFold_append, ← h1.out]; exact ho
    · cases c' with
      | nil =>
        simp only [List.nil_append, List.append_nil] at hn hp
        rcases h2.just [] t post hn.symm with ⟨pre', e, h3, h4⟩ | ho
        · cases pre' <;> cases h3
        · right
          rw [← hp, ← h1.out]; exact ho
      | cons x c'' =>
        obtain ⟨hx, _⟩ := List.cons.inj hn
        subst hx
        exact h1.just pre t c'' hp
  · intro t
    rw [h2.out, h1.out, outFold_append]

theorem TJ.trans {s s1 s2 : Sess} (h1 : TJ s s1) (h2 : TJ s1 s2) : TJ s s2 := by
  obtain ⟨n1, j1⟩ := h1.step
  obtain ⟨n2, j2⟩ := h2.step
  exact ⟨h1.wf0, h1.ext.trans h2.ext, n1 ++ n2, j1.trans j2⟩

theorem TJ.wf {s s' : Sess} (h : TJ s s') : SessWF s' := h.ext.wf

theorem TJ.out {α : Type} {s s' : Sess} {F : Sess × α} {r : α} (e : TJ s F.1)
    (heq : F = (s', r)) : TJ s s' := by rw [heq] at e; exact e

theorem TJ.facts {s s' : Sess} (j : TJ s s') {new : List Ev} (hnew : s'.trace = s.trace ++ new) :
    TJStep s s' new := by
  obtain ⟨new', h⟩ := j.step
  have : new' = new := List.append_cancel_left (h.trace.symm.trans hnew)
  rw [← this]; exact h

/-- A step that emits only plain events and changes no output. -/
theorem TJ.of_plain {s s' : Sess} (h : SessWF s) (e : Ext s s') (new : List Ev)
    (htr : s'.trace = s.trace ++ new) (hp : ∀ e ∈ new, e.isPlain = true)
    (ho : ∀ x, s'.store.taskOutput x = s.store.taskOutput x) : TJ s s' := by
  refine ⟨h, e, new, htr, ?_, ?_⟩
  · apply TdExecJust.of_no_exec
    intro t ht; have := hp _ ht; cases this
  · intro t
    rw [outFold_plain t _ hp]
    exact Store.outOf_eq_of_le h.store e.wf.store e.le ho t

theorem TJ.same {s s' : Sess} (h : SessWF s) (e : Ext s s') (h1 : s'.store = s.store)
    (h2 : s'.trace = s.trace) : TJ s s' :=
  TJ.of_plain h e [] (by simp [h2]) (by simp) (by simp [h1])

theorem TJ.emit {s s' : Sess} (h : TJ s s') (ev : Ev) (hp : ev.isPlain = true) :
    TJ s (s'.emit ev) :=
  h.trans (TJ.of_plain h.wf ((Ext.refl h.wf).emit ev) [ev] rfl (by simpa using hp) (fun _ => rfl))

theorem TJ.markConsistent {s s' : Sess} (h : TJ s s') (n : Nat) : TJ s (s'.markConsistent n) :=
  h.trans (TJ.same h.wf ((Ext.refl h.wf).markConsistent n) (by simp) (by simp))

variable (sem : Sem)

theorem TJ.getTask {s : Sess} (h : SessWF s) (t : Nat) :
    TJ s { s with store := (s.store.getOrCreateTaskNode t).1 } :=
  TJ.of_plain h (h.getTask t) [] (by simp) (by simp)
    (Store.taskOutput_getOrCreateTaskNode h.store t)

theorem doRead_TJ {s : Sess} (h : SessWF s) (r c : Nat) : TJ s (doRead sem s r c).1 := by
  obtain ⟨new, htr, hp⟩ := doRead_trace sem s r c
  exact TJ.of_plain h (doRead_ext sem h r c) new htr hp (doRead_taskOutput sem h r c)

theorem doWrite_TJ {s : Sess} (h : SessWF s) (r c : Nat) (v : Option Int) :
    TJ s (doWrite sem s r c v).1 := by
  obtain ⟨new, htr, hp⟩ := doWrite_trace sem s r c v
  exact TJ.of_plain h (doWrite_ext sem h r c v) new htr hp (doWrite_taskOutput sem h r c v)

theorem doWrote_TJ {s : Sess} (h : SessWF s) (r c : Nat) (v : Option Int) :
    TJ s (doWrote sem s r c v).1 := by
  obtain ⟨new, htr, hp⟩ := doWrote_trace sem s r c v
  exact TJ.of_plain h (doWrote_ext sem h r c v) new htr hp (doWrote_taskOutput sem h r c v)

theorem reserveRequire_TJ {s : Sess} (h : SessWF s) {dst : Nat}
    (hd : ∃ t, s.store.taskOf dst = some t) : TJ s (reserveRequire s dst).1 := by
  have e := reserveRequire_ext h hd
  cases hc : s.cur with
  | none =>
    have : (reserveRequire s dst).1 = s := by unfold reserveRequire; rw [hc]
    rw [this]; exact TJ.refl h
  | some src =>
    rcases reserveRequire_cases hc dst with ⟨h1, _⟩ | ⟨_, h1, _⟩
    · rw [h1]; exact TJ.refl h
    · rw [h1] at e ⊢
      exact TJ.of_plain h e [] (by simp) (by simp)
        (Store.taskOutput_addDependency h.store src dst .reserved)

theorem updateRequire_TJ {s : Sess} (h : SessWF s) {dst t : Nat} (c : Nat) (stamp : Stamp)
    (hd : s.store.taskOf dst = some t) : TJ s (updateRequire s dst t c stamp).1 := by
  have e := updateRequire_ext h c stamp hd
  cases hc : s.cur with
  | none =>
    have : (updateRequire s dst t c stamp).1 = s := by unfold updateRequire; rw [hc]
    rw [this]; exact TJ.refl h
  | some src =>
    rcases updateRequire_cases hc dst t c stamp with ⟨h1, _⟩ | ⟨st', hs, h1, _⟩
    · rw [h1]; exact TJ.refl h
    · rw [h1] at e ⊢
      exact TJ.of_plain h e [] (by simp) (by simp) (Store.taskOutput_setDependency hs)

/-! ### `LastCause` -/

theorem LastCause.of_emit {s s1 : Sess} (j : TJ s s1) {e : Ev} (hc : TdCause e) :
    LastCause s (s1.emit e) := by
  obtain ⟨n1, j1⟩ := j.step
  exact ⟨n1, e, by rw [emit_trace, j1.trace, List.append_assoc], hc⟩

theorem LastCause.of_prefix {s s1 s2 : Sess} (j : TJ s s1) (h : LastCause s1 s2) :
    LastCause s s2 := by
  obtain ⟨n1, j1⟩ := j.step
  obtain ⟨pre', e, h1, h2⟩ := h
  exact ⟨n1 ++ pre', e, by rw [h1, j1.trace]; simp, h2⟩

theorem LastCause.congr {s s1 s2 : Sess} (h : LastCause s s1) (ht : s2.trace = s1.trace) :
    LastCause s s2 := by
  obtain ⟨pre', e, h1, h2⟩ := h
  exact ⟨pre', e, by rw [ht, h1], h2⟩

/-! ### the two ends of an execution -/

/-- Start of an execution after a check that said "inconsistent". -/
theorem TJ.execStart {s s1 : Sess} (j : TJ s s1) {t node : Nat}
    (hn : s1.store.taskOf node = some t)
    (hc : LastCause s s1 ∨ s1.store.taskOutput node = none) :
    TJ s (justExecStart s1 t node) := by
  obtain ⟨n1, j1⟩ := j.step
  have h1 := j.wf
  refine ⟨j.wf0, j.ext.trans (justExecStart_ext h1 hn), n1 ++ [.executeStart t], ?_, ?_, ?_⟩
  · show s1.trace ++ [Ev.executeStart t] = _
    rw [j1.trace, List.append_assoc]
  · intro pre t' post heq
    rcases List.eq_nil_or_concat post with rfl | ⟨post', x, rfl⟩
    · obtain ⟨h3, h4⟩ := List.append_inj' heq rfl
      have ht : t = t' := by injection (List.cons.inj h4).1
      subst ht
      rcases hc with ⟨pre', e, h5, h6⟩ | ho
      · left
        refine ⟨pre', e, ?_, h6⟩
        rw [← h3]
        exact List.append_cancel_left (j1.trace.symm.trans h5)
      · right
        rw [← h3, ← j1.out, Store.outOf_of_taskOf h1.store hn]; exact ho
    · have h2 : n1 ++ [Ev.executeStart t] = (pre ++ .executeStart t' :: post') ++ [x] := by
        rw [heq]; simp
      exact j1.just pre t' post' (List.append_inj' h2 rfl).1
  · intro t'
    rw [outFold_append, ← j1.out]
    exact justExecStart_out h1 hn t'

theorem TJ.execEnd {s1 s4 : Sess} (j : TJ s1 s4) {t node : Nat}
    (hn : s4.store.taskOf node = some t) (prev : Option Nat)
    (hprev : ∀ n, prev = some n → ∃ t, s4.store.taskOf n = some t) (o : Int) :
    TJ s1 (justExecEnd s4 t node prev o) := by
  refine j.trans ?_
  have h := j.wf
  refine ⟨h, justExecEnd_ext h t node prev hprev o, [.executeEnd t o], rfl, ?_,
    justExecEnd_out h hn prev o⟩
  apply TdExecJust.of_no_exec
  intro t' hm
  simp at hm

/-! ### the mutual block -/

variable (body : Nat → Prog)

/-- The joint statement for fuel `f`.  The checks also report *why* they say "inconsistent". -/
structure TdJust (f : Nat) : Prop where
  require : ∀ s t c, SessWF s → TJ s (tdRequire sem body f s t c).1
  make : ∀ s t, SessWF s → TJ s (tdMake sem body f s t).1
  check : ∀ s node, SessWF s → TJ s (tdCheck sem body f s node).1 ∧
    ((tdCheck sem body f s node).2 = .ok none →
      LastCause s (tdCheck sem body f s node).1 ∨
      (tdCheck sem body f s node).1.store.taskOutput node = none)
  checkDeps : ∀ s ds, SessWF s → TJ s (tdCheckDeps sem body f s ds).1 ∧
    ((tdCheckDeps sem body f s ds).2 = .ok false → LastCause s (tdCheckDeps sem body f s ds).1)
  run : ∀ s p, SessWF s → TJ s (tdRun sem body f s p).1

theorem tdJust_zero : TdJust sem body 0 := by
  refine ⟨?_, ?_, ?_, ?_, ?_⟩
  · intro s t c h; unfold tdRequire; exact TJ.refl h
  · intro s t h; unfold tdMake; exact TJ.refl h
  · intro s n h; unfold tdCheck; exact ⟨TJ.refl h, fun h' => nomatch h'⟩
  · intro s ds h; unfold tdCheckDeps; exact ⟨TJ.refl h, fun h' => nomatch h'⟩
  · intro s p h; unfold tdRun; exact TJ.refl h

theorem tdRequire_just {f : Nat} (ih : TdJust sem body f) (s : Sess) (t c : Nat) (h : SessWF s) :
    TJ s (tdRequire sem body (f + 1) s t c).1 := by
  unfold tdRequire; simp only []
  have e0 := (TJ.refl h).emit (.requireStart t c) rfl
  have e1 := TJ.getTask e0.wf t
  have hd := Store.taskOf_getOrCreateTaskNode_self e0.wf.store t
  split
  next s2 a heq =>
    exact e0.trans (e1.trans ((reserveRequire_TJ e1.wf ⟨t, hd⟩).out heq))
  next s2 heq =>
    have e2 := (reserveRequire_TJ e1.wf ⟨t, hd⟩).out heq
    split
    next s3 a heq3 => exact e0.trans (e1.trans (e2.trans ((ih.make s2 t e2.wf).out heq3)))
    next s3 out heq3 =>
      have e3 := (ih.make s2 t e2.wf).out heq3
      have hd3 := (e2.ext.le.trans e3.ext.le).task _ _ hd
      have e3' := e3.emit (.requireEnd t c (sem.ostamp c out) out) rfl
      have e4 := updateRequire_TJ e3'.wf c (sem.ostamp c out) hd3
      have e04 := e0.trans (e1.trans (e2.trans (e3'.trans e4)))
      split
      next s4 a heq4 => exact e04.out heq4
      next s4 heq4 => exact e04.out heq4

theorem tdMake_just {f : Nat} (ih : TdJust sem body f) (s : Sess) (t : Nat) (h : SessWF s) :
    TJ s (tdMake sem body (f + 1) s t).1 := by
  unfold tdMake; simp only []
  have e1 := TJ.getTask h t
  have hd := Store.taskOf_getOrCreateTaskNode_self h.store t
  split
  · split <;> exact e1
  · have hck := ih.check { s with store := (s.store.getOrCreateTaskNode t).1 }
      (s.store.getOrCreateTaskNode t).2 e1.wf
    split
    next s2 a heq => exact e1.trans (hck.1.out heq)
    next s2 o heq => exact (e1.trans (hck.1.out heq)).markConsistent _
    next s2 heq =>
      have e2 := hck.1.out heq
      have hd2 := e2.ext.le.task _ _ hd
      have hc : LastCause { s with store := (s.store.getOrCreateTaskNode t).1 } s2 ∨
          s2.store.taskOutput (s.store.getOrCreateTaskNode t).2 = none := by
        have := hck.2
        rw [heq] at this
        exact this rfl
      have e3 : TJ s (justExecStart s2 t (s.store.getOrCreateTaskNode t).2) :=
        e1.trans (e2.execStart hd2 hc)
      split
      next s4 a heq4 => exact e3.trans ((ih.run _ _ e3.wf).out heq4)
      next s4 o heq4 =>
        have e4 := (ih.run _ _ e3.wf).out heq4
        have hle := (justExecStart_ext e2.wf hd2).le.trans e4.ext.le
        exact ((e3.trans e4).execEnd (hle.task _ _ hd2) s2.cur
          (fun n hc => hle.isTask (e2.wf.cur n hc)) o).markConsistent _

theorem tdCheck_just {f : Nat} (ih : TdJust sem body f) (s : Sess) (node : Nat) (h : SessWF s) :
    TJ s (tdCheck sem body (f + 1) s node).1 ∧
    ((tdCheck sem body (f + 1) s node).2 = .ok none →
      LastCause s (tdCheck sem body (f + 1) s node).1 ∨
      (tdCheck sem body (f + 1) s node).1.store.taskOutput node = none) := by
  unfold tdCheck
  split
  next ho => exact ⟨TJ.refl h, fun _ => .inr ho⟩
  · have hcd := ih.checkDeps s (s.store.depsFrom node) h
    split
    next s2 a heq => exact ⟨hcd.1.out heq, fun h' => nomatch h'⟩
    next s2 heq =>
      refine ⟨hcd.1.out heq, fun _ => .inl ?_⟩
      have := hcd.2
      rw [heq] at this
      exact this rfl
    next s2 heq =>
      refine ⟨hcd.1.out heq, fun h' => .inr ?_⟩
      have h2 : s2.store.taskOutput node = none := by
        have := Res.ok.inj h'
        exact this
      exact h2

theorem tdCheckDeps_just {f : Nat} (ih : TdJust sem body f) (s : Sess) (ds : List Dep)
    (h : SessWF s) :
    TJ s (tdCheckDeps sem body (f + 1) s ds).1 ∧
    ((tdCheckDeps sem body (f + 1) s ds).2 = .ok false →
      LastCause s (tdCheckDeps sem body (f + 1) s ds).1) := by
  cases ds with
  | nil => unfold tdCheckDeps; exact ⟨TJ.refl h, fun h' => nomatch h'⟩
  | cons d ds =>
    have hres : ∀ (r c : Nat) (stamp : Stamp),
        let s1 := s.emit (.checkResStart r c stamp)
        let res := checkResDep sem s1 r c stamp
        let s2 := s1.emit (.checkResEnd r c stamp res)
        let x : Sess × Res Bool := match res with
          | .ok true => tdCheckDeps sem body f s2 ds
          | .ok false => (s2, .ok false)
          | .error e => ({ s2 with errors := s2.errors ++ [e] }, .ok false)
        TJ s x.1 ∧ (x.2 = .ok false → LastCause s x.1) := by
      intro r c stamp
      simp only []
      have e0 := ((TJ.refl h).emit (.checkResStart r c stamp) rfl).emit
        (.checkResEnd r c stamp (checkResDep sem (s.emit (.checkResStart r c stamp)) r c stamp)) rfl
      split
      · have hcd := ih.checkDeps _ ds e0.wf
        exact ⟨e0.trans hcd.1, fun h' => LastCause.of_prefix e0 (hcd.2 h')⟩
      next heq =>
        refine ⟨e0, fun _ => ?_⟩
        exact LastCause.of_emit ((TJ.refl h).emit (.checkResStart r c stamp) rfl)
          (.inr ⟨r, c, stamp, _, rfl, by rw [heq]; simp⟩)
      next e heq =>
        refine ⟨e0.trans (TJ.same e0.wf (e0.wf.same rfl rfl rfl) rfl rfl), fun _ => ?_⟩
        refine LastCause.congr (LastCause.of_emit ((TJ.refl h).emit (.checkResStart r c stamp) rfl)
          (.inr ⟨r, c, stamp, _, rfl, by rw [heq]; simp⟩)) rfl
    cases d with
    | reserved => unfold tdCheckDeps; exact ⟨TJ.refl h, fun h' => nomatch h'⟩
    | require t c stamp =>
      unfold tdCheckDeps; simp only []
      have e0 := (TJ.refl h).emit (.checkTaskStart t c stamp) rfl
      split
      next s2 a heq => exact ⟨e0.trans ((ih.make _ _ e0.wf).out heq), fun h' => nomatch h'⟩
      next s2 out heq =>
        have e1 := e0.trans ((ih.make _ _ e0.wf).out heq)
        have e2 := e1.emit (.checkTaskEnd t c stamp (sem.ocheck c out stamp)) rfl
        split
        · have hcd := ih.checkDeps _ ds e2.wf
          exact ⟨e2.trans hcd.1, fun h' => LastCause.of_prefix e2 (hcd.2 h')⟩
        next hok =>
          have hok' : sem.ocheck c out stamp = false := by simpa using hok
          exact ⟨e2, fun _ => LastCause.of_emit e1 (.inl ⟨t, c, stamp, by rw [hok']⟩)⟩
    | read r c stamp => unfold tdCheckDeps; exact hres r c stamp
    | write r c stamp => unfold tdCheckDeps; exact hres r c stamp

theorem tdRun_just {f : Nat} (ih : TdJust sem body f) (s : Sess) (p : Prog) (h : SessWF s) :
    TJ s (tdRun sem body (f + 1) s p).1 := by
  cases p with
  | ret v => unfold tdRun; exact TJ.refl h
  | panic => unfold tdRun; exact TJ.refl h
  | req t c k =>
    unfold tdRun
    split
    next s2 a heq => exact (ih.require _ _ _ h).out heq
    next s2 out heq =>
      have e2 := (ih.require _ _ _ h).out heq
      exact e2.trans (ih.run _ _ e2.wf)
  | read r c k =>
    unfold tdRun
    split
    next s2 a heq => exact (doRead_TJ sem h r c).out heq
    next s2 x heq =>
      have e2 := (doRead_TJ sem h r c).out heq
      exact e2.trans (ih.run _ _ e2.wf)
  | write r c v k =>
    unfold tdRun
    split
    next s2 a heq => exact (doWrite_TJ sem h r c v).out heq
    next s2 x heq =>
      have e2 := (doWrite_TJ sem h r c v).out heq
      exact e2.trans (ih.run _ _ e2.wf)
  | wrote r c v k =>
    unfold tdRun
    split
    next s2 a heq => exact (doWrote_TJ sem h r c v).out heq
    next s2 x heq =>
      have e2 := (doWrote_TJ sem h r c v).out heq
      exact e2.trans (ih.run _ _ e2.wf)

theorem tdJust (f : Nat) : TdJust sem body f := by
  induction f with
  | zero => exact tdJust_zero sem body
  | succ f ih =>
    exact ⟨tdRequire_just sem body ih, tdMake_just sem body ih, tdCheck_just sem body ih,
      tdCheckDeps_just sem body ih, tdRun_just sem body ih⟩

/-! ### the drivers -/

theorem sessionRequire_TJ (f : Nat) {s : Sess} (h : SessWF s) (t : Nat) :
    TJ s (sessionRequire sem body f s t).1 := by
  unfold sessionRequire; simp only []
  have e0 : TJ s ({ s with cur := none } : Sess) := TJ.same h h.clearCur rfl rfl
  have e1 := e0.emit .buildStart rfl
  have e2 := e1.trans ((tdJust sem body f).require _ t alwaysChecker e1.wf)
  split
  next s2 a heq => exact e2.out heq
  next s2 o heq => exact (e2.out heq).emit .buildEnd rfl

theorem requireAll_TJ (f : Nat) (ts : List Nat) : ∀ {s : Sess}, SessWF s →
    TJ s (requireAll sem body f s ts).1 := by
  induction ts with
  | nil => intro s h; unfold requireAll; exact TJ.refl h
  | cons t ts ih =>
    intro s h
    unfold requireAll
    split
    next s2 a heq => exact (sessionRequire_TJ sem body f h t).out heq
    next s2 o heq =>
      have e2 := (sessionRequire_TJ sem body f h t).out heq
      split
      next s3 a heq3 => exact e2.trans ((ih e2.wf).out heq3)
      next s3 os heq3 => exact e2.trans ((ih e2.wf).out heq3)

end PieModel
