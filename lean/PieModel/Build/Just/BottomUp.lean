/-
Every run of the bottom-up interpreters is a justified step (`J`): joint induction on fuel over
`buRequire/buMake/buExec/buExecAndSchedule/buRequireNow/buRun`, then `buExecuteScheduled`,
`updateAffectedTasks`, `bottomUpBuild`; whatever the result (`.ok` or `.abort`).
-/
import PieModel.Build.Just.Schedule

namespace PieModel

variable (sem : Sem) (body : Nat → Prog)

/-- The joint statement for fuel `f`.  `buExec` is entered with the justification of its
`execute_start` supplied by the caller (`buMake`: no output; `buExecAndSchedule`: popped from the
queue); `buExecAndSchedule` is stated relative to the queue *before* the pop. -/
structure BuJust (f : Nat) : Prop where
  require : ∀ s t c, SessWF s → J s (buRequire sem body f s t c).1
  make : ∀ s t node, SessWF s → s.store.taskOf node = some t → J s (buMake sem body f s t node).1
  exec : ∀ s0 s t node, J s0 s → J s0 (justExecStart s t node) → s.store.taskOf node = some t →
    J s0 (buExec sem body f s t node).1
  execAndSchedule : ∀ s node, SessWF { s with queue := node :: s.queue } →
    J { s with queue := node :: s.queue } (buExecAndSchedule sem body f s node).1
  requireNow : ∀ s src, SessWF s → J s (buRequireNow sem body f s src).1
  run : ∀ s p, SessWF s → J s (buRun sem body f s p).1

theorem J.popped {s : Sess} {node : Nat} (h0 : SessWF { s with queue := node :: s.queue }) :
    J { s with queue := node :: s.queue } s :=
  J.subQueue h0 (q := s.queue) (fun _ hm => List.mem_cons_of_mem _ hm)

theorem buJust_zero : BuJust sem body 0 := by
  refine ⟨?_, ?_, ?_, ?_, ?_, ?_⟩
  · intro s t c h; unfold buRequire; exact J.refl h
  · intro s t n h _; unfold buMake; exact J.refl h
  · intro s0 s t n j _ _; unfold buExec; exact j
  · intro s n h; unfold buExecAndSchedule; exact J.popped h
  · intro s n h; unfold buRequireNow; exact J.refl h
  · intro s p h; unfold buRun; exact J.refl h

theorem buRequire_just {f : Nat} (ih : BuJust sem body f) (s : Sess) (t c : Nat) (h : SessWF s) :
    J s (buRequire sem body (f + 1) s t c).1 := by
  unfold buRequire; simp only []
  have e0 := (J.refl h).emit (.requireStart t c) rfl
  have e1 := J.getTask e0.wf t
  have hd := Store.taskOf_getOrCreateTaskNode_self e0.wf.store t
  split
  next s2 a heq =>
    exact e0.trans (e1.trans ((reserveRequire_J e1.wf ⟨t, hd⟩).out heq))
  next s2 heq =>
    have e2 := (reserveRequire_J e1.wf ⟨t, hd⟩).out heq
    have hd2 := e2.ext.le.task _ _ hd
    split
    next s3 a heq3 =>
      exact e0.trans (e1.trans (e2.trans ((ih.make s2 t _ e2.wf hd2).out heq3)))
    next s3 out heq3 =>
      have e3 := (ih.make s2 t _ e2.wf hd2).out heq3
      have hd3 := e3.ext.le.task _ _ hd2
      have e3' := e3.emit (.requireEnd t c (sem.ostamp c out) out) rfl
      have e4 := updateRequire_J e3'.wf c (sem.ostamp c out) hd3
      have e04 := e0.trans (e1.trans (e2.trans (e3'.trans e4)))
      split
      next s4 a heq4 => exact e04.out heq4
      next s4 heq4 => exact (e04.out heq4).markConsistent _

theorem buMake_just {f : Nat} (ih : BuJust sem body f) (s : Sess) (t node : Nat) (h : SessWF s)
    (hn : s.store.taskOf node = some t) : J s (buMake sem body (f + 1) s t node).1 := by
  unfold buMake
  split
  · split <;> exact J.refl h
  · split
    next ho => exact ih.exec s s t node (J.refl h) (J.execStart_noOutput h hn ho) hn
    · split
      next s2 a heq => exact (ih.requireNow _ _ h).out heq
      next s2 o heq => exact (ih.requireNow _ _ h).out heq
      next s2 heq =>
        have e2 := (ih.requireNow _ _ h).out heq
        split <;> exact e2

theorem buExec_just {f : Nat} (ih : BuJust sem body f) (s0 s : Sess) (t node : Nat)
    (j : J s0 s) (js : J s0 (justExecStart s t node)) (hn : s.store.taskOf node = some t) :
    J s0 (buExec sem body (f + 1) s t node).1 := by
  unfold buExec; simp only []
  have h := j.wf
  have e3 := justExecStart_ext h hn
  split
  next s4 a heq4 => exact js.trans ((ih.run _ _ js.wf).out heq4)
  next s4 o heq4 =>
    have e4 := (ih.run _ _ js.wf).out heq4
    have hle := e3.le.trans e4.ext.le
    exact (js.trans e4).justExecEnd (hle.task _ _ hn) s.cur
      (fun n hc => hle.isTask (h.cur n hc)) o

theorem buExecAndSchedule_just {f : Nat} (ih : BuJust sem body f) (s : Sess) (node : Nat)
    (h0 : SessWF { s with queue := node :: s.queue }) :
    J { s with queue := node :: s.queue } (buExecAndSchedule sem body (f + 1) s node).1 := by
  unfold buExecAndSchedule
  split
  · exact J.popped h0
  next t ht =>
    have e1 := ih.exec _ s t node (J.popped h0) (J.execStart_popped h0 ht) ht
    split
    next s2 a heq => exact e1.out heq
    next s2 o heq =>
      have e2 := e1.out heq
      exact e2.trans (scheduleAfterExec_J sem e2.wf node t o)

theorem buRequireNow_just {f : Nat} (ih : BuJust sem body f) (s : Sess) (src : Nat)
    (h : SessWF s) : J s (buRequireNow sem body (f + 1) s src).1 := by
  unfold buRequireNow
  split
  · exact J.refl h
  · split
    · exact J.refl h
    next m q hq =>
      have e1 : J s { s with queue := m :: q } := J.subQueue h (by
        intro x hx
        rcases List.mem_cons.mp hx with rfl | hx
        · exact queuePopLeastFrom_mem hq
        · exact queuePopLeastFrom_rest_subset hq hx)
      have e2' := ih.execAndSchedule { s with queue := q } m e1.wf
      split
      next s2 a heq => exact e1.trans (e2'.out heq)
      next s2 o heq =>
        have e2 := e1.trans (e2'.out heq)
        split
        · exact e2
        · exact e2.trans (ih.requireNow _ _ e2.wf)

theorem buRun_just {f : Nat} (ih : BuJust sem body f) (s : Sess) (p : Prog) (h : SessWF s) :
    J s (buRun sem body (f + 1) s p).1 := by
  cases p with
  | ret v => unfold buRun; exact J.refl h
  | panic => unfold buRun; exact J.refl h
  | req t c k =>
    unfold buRun
    split
    next s2 a heq => exact (ih.require _ _ _ h).out heq
    next s2 out heq =>
      have e2 := (ih.require _ _ _ h).out heq
      exact e2.trans (ih.run _ _ e2.wf)
  | read r c k =>
    unfold buRun
    split
    next s2 a heq => exact (doRead_J sem h r c).out heq
    next s2 x heq =>
      have e2 := (doRead_J sem h r c).out heq
      exact e2.trans (ih.run _ _ e2.wf)
  | write r c v k =>
    unfold buRun
    split
    next s2 a heq => exact (doWrite_J sem h r c v).out heq
    next s2 x heq =>
      have e2 := (doWrite_J sem h r c v).out heq
      exact e2.trans (ih.run _ _ e2.wf)
  | wrote r c v k =>
    unfold buRun
    split
    next s2 a heq => exact (doWrote_J sem h r c v).out heq
    next s2 x heq =>
      have e2 := (doWrote_J sem h r c v).out heq
      exact e2.trans (ih.run _ _ e2.wf)

theorem buJust (f : Nat) : BuJust sem body f := by
  induction f with
  | zero => exact buJust_zero sem body
  | succ f ih =>
    exact ⟨buRequire_just sem body ih, buMake_just sem body ih, buExec_just sem body ih,
      buExecAndSchedule_just sem body ih, buRequireNow_just sem body ih, buRun_just sem body ih⟩

/-! ### the drivers -/

/-- The facts of a justified run, about the events the caller names. -/
theorem J.facts {s s' : Sess} (j : J s s') {new : List Ev} (hnew : s'.trace = s.trace ++ new) :
    JStep s s' new := by
  obtain ⟨new', h⟩ := j.step
  have : new' = new := List.append_cancel_left (h.trace.symm.trans hnew)
  rw [← this]; exact h

/-- The first occurrence of an element of a list. -/
theorem List.first_occurrence {α : Type} {a : α} : ∀ {l : List α}, a ∈ l →
    ∃ pre post, l = pre ++ a :: post ∧ a ∉ pre := by
  classical
  intro l
  induction l with
  | nil => intro h; cases h
  | cons x l ih =>
    intro h
    by_cases hx : x = a
    · exact ⟨[], l, by rw [hx]; rfl, by simp⟩
    · rcases List.mem_cons.mp h with h | h
      · exact absurd h.symm hx
      · obtain ⟨pre, post, h1, h2⟩ := ih h
        exact ⟨x :: pre, post, by rw [h1]; rfl, by
          intro hm
          rcases List.mem_cons.mp hm with hm | hm
          · exact hx hm.symm
          · exact h2 hm⟩


theorem buExecuteScheduled_J (f : Nat) : ∀ {s : Sess}, SessWF s →
    J s (buExecuteScheduled sem body f s).1 := by
  induction f with
  | zero => intro s h; unfold buExecuteScheduled; exact J.refl h
  | succ f ih =>
    intro s h
    unfold buExecuteScheduled
    split
    · exact J.refl h
    next n q hq =>
      have e1 : J s { s with queue := n :: q } := J.subQueue h (by
        intro x hx
        rcases List.mem_cons.mp hx with rfl | hx
        · exact queuePop_mem hq
        · exact queuePop_rest_subset hq hx)
      have e2' := (buJust sem body f).execAndSchedule { s with queue := q } n e1.wf
      split
      next s2 a heq => exact e1.trans (e2'.out heq)
      next s2 o heq =>
        have e2 := e1.trans (e2'.out heq)
        exact e2.trans (ih e2.wf)

theorem updateAffectedTasks_J (f : Nat) {s : Sess} (h : SessWF s) :
    J s (updateAffectedTasks sem body f s).1 := by
  unfold updateAffectedTasks; simp only []
  have e0 : J s ({ s with cur := none } : Sess) := J.same h h.clearCur rfl rfl rfl
  have e1 := (e0.emit .buildStart rfl)
  have e2 := e1.trans (buExecuteScheduled_J sem body f e1.wf)
  split
  next s2 a heq => exact e2.out heq
  next s2 heq => exact (e2.out heq).emit .buildEnd rfl

theorem bottomUpBuild_J (f : Nat) {s : Sess} (h : SessWF s) (changed : List Nat) :
    J { s with queue := [] } (bottomUpBuild sem body f s changed).1 := by
  unfold bottomUpBuild; simp only []
  have h0 : SessWF { s with queue := [] } := (h.subQueue (q := []) (fun _ hm => by cases hm)).wf
  have e1 := J.foldl _ (fun s r hs => scheduleAffectedBy_J sem hs r) changed _ h0
  exact e1.trans (updateAffectedTasks_J sem body f e1.wf)

end PieModel
