/-
Store lemmas, umbrella file.  Import this file to get

* `StoreWF.lean`          — `Store.WF`, `Store.DepOK`, consequences, `WF.empty`,
                             the derived observations as filters (`*_eq`), `writersTo`;
* `StoreFrameNode.lean`   — `getOrCreateTaskNode`, `getOrCreateResNode`;
* `StoreFrameOutput.lean` — `setTaskOutput`, `resetTask`;
* `StoreFrameDep.lean`    — `addDependency`, `setDependency`;
* (`Graph/FrameIter.lean` — the graph-level lemmas on `outgoingEdges`/`incomingEdges`/`Reach`);

and, in this file, the monotonicity relation `Store.Le` (node kinds are never lost, the tables
only grow) with one lemma per operation.
-/
import PieModel.Build.StoreFrameDep

namespace PieModel
namespace Store

/-- `st'` knows every task/resource node of `st` under the same name. -/
structure Le (st st' : Store) : Prop where
  task : ∀ n t, st.taskOf n = some t → st'.taskOf n = some t
  res : ∀ n r, st.resOf n = some r → st'.resOf n = some r

namespace Le
variable {st st' st'' : Store}

theorem refl (st : Store) : st.Le st := ⟨fun _ _ h => h, fun _ _ h => h⟩

theorem trans (h₁ : st.Le st') (h₂ : st'.Le st'') : st.Le st'' :=
  ⟨fun n t h => h₂.task n t (h₁.task n t h), fun n r h => h₂.res n r (h₁.res n r h)⟩

theorem of_eq (ht : ∀ n, st'.taskOf n = st.taskOf n) (hr : ∀ n, st'.resOf n = st.resOf n) :
    st.Le st' := ⟨fun n t h => by rw [ht]; exact h, fun n r h => by rw [hr]; exact h⟩

theorem isTask (h : st.Le st') {n : Nat} (hn : ∃ t, st.taskOf n = some t) :
    ∃ t, st'.taskOf n = some t := by obtain ⟨t, ht⟩ := hn; exact ⟨t, h.task n t ht⟩

theorem depOK (h : st.Le st') {d : Dep} {dst : Nat} (hd : st.DepOK d dst) : st'.DepOK d dst :=
  DepOK.mono (h.task dst) (h.res dst) hd

/-- The task table only grows. -/
theorem taskNode (h : st.Le st') (hw : st.WF) (hw' : st'.WF) {t n : Nat}
    (ht : aget st.taskNode t = some n) : aget st'.taskNode t = some n :=
  (hw'.task_iff t n).mpr (h.task n t ((hw.task_iff t n).mp ht))

theorem resNode (h : st.Le st') (hw : st.WF) (hw' : st'.WF) {r n : Nat}
    (hr : aget st.resNode r = some n) : aget st'.resNode r = some n :=
  (hw'.res_iff r n).mpr (h.res n r ((hw.res_iff r n).mp hr))

end Le

variable {st : Store}

theorem le_getOrCreateTaskNode (h : st.WF) (t : Nat) : st.Le (st.getOrCreateTaskNode t).1 := by
  refine ⟨fun n t' hn => ?_, fun n r hn => by rw [resOf_getOrCreateTaskNode h]; exact hn⟩
  rw [taskOf_getOrCreateTaskNode h]
  split
  · rename_i hx
    rcases getOrCreateTaskNode_cases h t with ⟨m, _, h2, h3⟩ | ⟨_, h2, h3⟩
    · rw [h3] at hx; subst hx; rw [h2] at hn; exact hn
    · rw [h3] at hx; subst hx; rw [taskOf_of_not_live h2] at hn; cases hn
  · exact hn

theorem le_getOrCreateResNode (h : st.WF) (r : Nat) : st.Le (st.getOrCreateResNode r).1 := by
  refine ⟨fun n t hn => by rw [taskOf_getOrCreateResNode h]; exact hn, fun n r' hn => ?_⟩
  rw [resOf_getOrCreateResNode h]
  split
  · rename_i hx
    rcases getOrCreateResNode_cases h r with ⟨m, _, h2, h3⟩ | ⟨_, h2, h3⟩
    · rw [h3] at hx; subst hx; rw [h2] at hn; exact hn
    · rw [h3] at hx; subst hx; rw [resOf_of_not_live h2] at hn; cases hn
  · exact hn

theorem le_setTaskOutput (st : Store) (n : Nat) (o : Int) : st.Le (st.setTaskOutput n o) :=
  Le.of_eq (by simp) (by simp)

theorem le_resetTask (h : st.WF) (n : Nat) : st.Le (st.resetTask n) :=
  Le.of_eq (taskOf_resetTask h n) (resOf_resetTask h n)

theorem le_addDependency (h : st.WF) (src dst : Nat) (d : Dep) :
    st.Le (st.addDependency src dst d).1 :=
  Le.of_eq (taskOf_addDependency h src dst d) (resOf_addDependency h src dst d)

theorem le_setDependency {src dst : Nat} {d : Dep} {st' : Store}
    (hs : st.setDependency src dst d = some st') : st.Le st' :=
  Le.of_eq (taskOf_setDependency hs) (resOf_setDependency hs)

end Store
end PieModel
