/-
Transitive roles, session level: the step relations `TExt` (well-formed extension + `CovInv` +
frame) and `OExt` (`TExt` + no newly unsaturated task node), the post-condition `CovPost`, and the
session primitives `doRead`, `doWrite`, `doWrote`, `reserveRequire`, `updateRequire` under `CovInv`
and `OpenOK`.

Two propositional flags parametrise the whole development:
* `G` ("guarded"): the call started in a state where every unsaturated task node is on the
  executing stack (`OpenOK`).  All `OpenOK` hypotheses and the conclusions "no diagnosed
  violation" / "no newly unsaturated node" are under `G`; with `G := False` what remains is the
  unconditional preservation of `SessWF` and `CovInv` (also after earlier aborts).
* `B`: the program table has the relay-prefix shape (`PrefixCov`); then the bookkeeping of
  unsaturated nodes is also claimed after a task panic (`Fine`).
-/
import PieModel.Build.TransRoles.Open
import PieModel.Build.RolesTopDown

namespace PieModel.TransRoles

variable {cr : CRoles}

/-! ### the step relations -/

/-- `s'` is a well-formed extension of `s` whose store satisfies `CovInv`, and the outgoing edges of
task nodes of rank `< k` (except `ex`) are untouched. -/
structure TExt (cr : CRoles) (k : Nat) (ex : Option Nat) (s s' : Sess) : Prop where
  ext : Ext s s'
  inv : CovInv cr s'.store
  frame : FrameBelow cr.toRoles k ex s.store s'.store

namespace TExt
variable {k k' : Nat} {ex : Option Nat} {s s₁ s' : Sess}

theorem wf (e : TExt cr k ex s s') : SessWF s' := e.ext.wf

theorem refl (h : SessWF s) (hi : CovInv cr s.store) : TExt cr k ex s s :=
  ⟨Ext.refl h, hi, FrameBelow.refl _ _ _ _⟩

theorem trans (e₁ : TExt cr k ex s s₁) (e₂ : TExt cr k ex s₁ s') : TExt cr k ex s s' :=
  ⟨e₁.ext.trans e₂.ext, e₂.inv, e₁.frame.trans e₁.ext.le e₂.frame⟩

theorem mono (e : TExt cr k ex s s') (hk : k' ≤ k) : TExt cr k' ex s s' :=
  ⟨e.ext, e.inv, e.frame.mono hk⟩

theorem add (e : TExt cr k none s s') : TExt cr k ex s s' := ⟨e.ext, e.inv, e.frame.add⟩

theorem drop {x t : Nat} (e : TExt cr k (some x) s s') (hx : s.store.taskOf x = some t)
    (hk : k ≤ cr.rank t) : TExt cr k none s s' := ⟨e.ext, e.inv, e.frame.drop hx hk⟩

theorem same (e : TExt cr k ex s s₁) (h1 : s'.store = s₁.store) (h2 : s'.cur = s₁.cur)
    (h3 : s'.queue = s₁.queue) : TExt cr k ex s s' :=
  ⟨e.ext.same h1 h2 h3, h1 ▸ e.inv, h1 ▸ e.frame⟩

end TExt

/-- Results after which the bookkeeping of unsaturated nodes is claimed: a return, or — under
`B` (the programs have the relay-prefix shape) — a task panic. -/
def Fine (B : Prop) {α : Type} : Res α → Prop
  | .ok _ => True
  | .abort a => B ∧ a = .taskPanic

theorem Fine.cast {B : Prop} {α β : Type} {a : Abort} (h : Fine B (Res.abort a : Res α)) :
    Fine B (Res.abort a : Res β) := h

/-- `TExt`, and (under `G`) every unsaturated task node of `s'` was one of `s` (except `x`). -/
structure OExt (cr : CRoles) (G : Prop) (k : Nat) (ex : Option Nat) (x : Option Nat) (s s' : Sess) :
    Prop extends TExt cr k ex s s' where
  nno : G → NoNewUnsatX cr x s.store s'.store

namespace OExt
variable {G : Prop} {k k' : Nat} {ex x : Option Nat} {s s₁ s' : Sess}

theorem wf (e : OExt cr G k ex x s s') : SessWF s' := e.ext.wf

theorem refl (h : SessWF s) (hi : CovInv cr s.store) : OExt cr G k ex x s s :=
  ⟨TExt.refl h hi, fun _ => NoNewUnsatX.refl _ _⟩

theorem trans (e₁ : OExt cr G k ex x s s₁) (e₂ : OExt cr G k ex x s₁ s') : OExt cr G k ex x s s' :=
  ⟨e₁.toTExt.trans e₂.toTExt, fun g => (e₁.nno g).trans (e₂.nno g)⟩

theorem mono (e : OExt cr G k ex x s s') (hk : k' ≤ k) : OExt cr G k' ex x s s' :=
  ⟨e.toTExt.mono hk, e.nno⟩

theorem add (e : OExt cr G k none x s s') : OExt cr G k ex x s s' := ⟨e.toTExt.add, e.nno⟩

theorem drop {y t : Nat} (e : OExt cr G k (some y) x s s') (hx : s.store.taskOf y = some t)
    (hk : k ≤ cr.rank t) : OExt cr G k none x s s' := ⟨e.toTExt.drop hx hk, e.nno⟩

theorem weaken (e : OExt cr G k ex none s s') : OExt cr G k ex x s s' :=
  ⟨e.toTExt, fun g => (e.nno g).weaken⟩

theorem close {d : Nat} (e : OExt cr G k ex (some d) s s') (hd : G → Sat cr s'.store d) :
    OExt cr G k ex none s s' := ⟨e.toTExt, fun g => (e.nno g).close (hd g)⟩

theorem same (e : OExt cr G k ex x s s₁) (h1 : s'.store = s₁.store) (h2 : s'.cur = s₁.cur)
    (h3 : s'.queue = s₁.queue) : OExt cr G k ex x s s' :=
  ⟨e.toTExt.same h1 h2 h3, h1 ▸ e.nno⟩

theorem emit (e : OExt cr G k ex x s s') (ev : Ev) : OExt cr G k ex x s (s'.emit ev) :=
  e.same rfl rfl rfl

theorem markConsistent (e : OExt cr G k ex x s s') (n : Nat) :
    OExt cr G k ex x s (s'.markConsistent n) :=
  e.same (by simp) (by simp) (by simp)

/-- A further step given by its components. -/
theorem step (e : OExt cr G k ex x s s₁) (y : Ext s₁ s') (hi : CovInv cr s'.store)
    (hf : FrameBelow cr.toRoles k ex s₁.store s'.store) (hn : NoNewUnsatX cr x s₁.store s'.store) :
    OExt cr G k ex x s s' := e.trans ⟨⟨y, hi, hf⟩, fun _ => hn⟩

end OExt

/-- Post-condition of a call: `TExt` whatever happened; under `G` (the call started with every
unsaturated node on the stack): no diagnosed violation, and after a `Fine` result no task node
was left unsaturated and `Pf` holds; `P` holds of the final state and the value if the call
returned. -/
structure CovPost (cr : CRoles) (G B : Prop) (k : Nat) (ex : Option Nat) (s : Sess) {α : Type}
    (Pf : Sess → Prop) (P : Sess → α → Prop) (p : Sess × Res α) : Prop where
  rext : TExt cr k ex s p.1
  noViol : G → NoViol p.2
  fine : G → Fine B p.2 → NoNewUnsatX cr none s.store p.1.store ∧ Pf p.1
  ok : ∀ v, p.2 = .ok v → P p.1 v

namespace CovPost
variable {G B : Prop} {k k' : Nat} {ex : Option Nat} {s s₁ s' : Sess} {α β : Type}
  {Pf Pf' : Sess → Prop} {P Q : Sess → α → Prop}

theorem outA {F : Sess × Res α} {a : Abort} (p : CovPost cr G B k ex s Pf P F)
    (heq : F = (s', .abort a)) : TExt cr k ex s s' := by rw [heq] at p; exact p.rext

theorem outOk {F : Sess × Res α} {v : α} (p : CovPost cr G B k ex s Pf P F)
    (heq : F = (s', .ok v)) : OExt cr G k ex none s s' ∧ P s' v ∧ (G → Pf s') := by
  rw [heq] at p
  exact ⟨⟨p.rext, fun g => (p.fine g trivial).1⟩, p.ok v rfl, fun g => (p.fine g trivial).2⟩

/-- The call aborted and the caller passes the abort on. -/
theorem abort {F : Sess × Res α} {a : Abort} {Q : Sess → β → Prop}
    (p : CovPost cr G B k ex s Pf P F) (heq : F = (s', .abort a)) :
    CovPost cr G B k ex s Pf Q (s', (Res.abort a : Res β)) := by
  rw [heq] at p
  exact ⟨p.rext, fun g => (p.noViol g).cast rfl, fun g hf => p.fine g hf, fun v hv => nomatch hv⟩

/-- The caller did some steps `e` (exempting `x`) before the call `p`. -/
theorem leftX {F : Sess × Res α} {x : Option Nat} (e : OExt cr G k ex x s s₁)
    (p : CovPost cr G B k ex s₁ Pf P F)
    (hx : ∀ d, x = some d → G → Fine B F.2 → Pf F.1 → Sat cr F.1.store d)
    (hpf : G → Fine B F.2 → Pf F.1 → Pf' F.1) (hpq : ∀ v, F.2 = .ok v → P F.1 v → Q F.1 v) :
    CovPost cr G B k ex s Pf' Q F := by
  refine ⟨e.toTExt.trans p.rext, p.noViol, ?_, fun v hv => hpq v hv (p.ok v hv)⟩
  intro g hf
  obtain ⟨hn, hp⟩ := p.fine g hf
  refine ⟨?_, hpf g hf hp⟩
  cases x with
  | none => exact (e.nno g).trans hn
  | some d => exact ((e.nno g).trans hn.weaken).close (hx d rfl g hf hp)

theorem left {F : Sess × Res α} (e : OExt cr G k ex none s s₁)
    (p : CovPost cr G B k ex s₁ Pf P F) (hpf : G → Fine B F.2 → Pf F.1 → Pf' F.1)
    (hpq : ∀ v, F.2 = .ok v → P F.1 v → Q F.1 v) : CovPost cr G B k ex s Pf' Q F :=
  leftX e p (fun _ hd => nomatch hd) hpf hpq

/-- The call aborted after some steps `e` of the caller (exempting `x`); the abort is passed
on. -/
theorem abortLX {F : Sess × Res α} {a : Abort} {x : Option Nat} {Q : Sess → β → Prop}
    (e : OExt cr G k ex x s s₁) (p : CovPost cr G B k ex s₁ Pf P F) (heq : F = (s', .abort a))
    (hx : ∀ d, x = some d → G → B → Pf s' → Sat cr s'.store d)
    (hpf : G → B → a = .taskPanic → Pf s' → Pf' s') :
    CovPost cr G B k ex s Pf' Q (s', (Res.abort a : Res β)) :=
  leftX e (p.abort (Q := Q) heq) (fun d hd g hf hp => hx d hd g hf.1 hp)
    (fun g hf hp => hpf g hf.1 hf.2 hp) (fun _ hv => nomatch hv)

theorem abortL {F : Sess × Res α} {a : Abort} {Q : Sess → β → Prop}
    (e : OExt cr G k ex none s s₁) (p : CovPost cr G B k ex s₁ Pf P F) (heq : F = (s', .abort a))
    (hpf : G → B → a = .taskPanic → Pf s' → Pf' s') :
    CovPost cr G B k ex s Pf' Q (s', (Res.abort a : Res β)) :=
  abortLX e p heq (fun _ hd => nomatch hd) hpf

theorem mono {F : Sess × Res α} (p : CovPost cr G B k ex s Pf P F) (hk : k' ≤ k) :
    CovPost cr G B k' ex s Pf P F := ⟨p.rext.mono hk, p.noViol, p.fine, p.ok⟩

theorem add {F : Sess × Res α} (p : CovPost cr G B k none s Pf P F) : CovPost cr G B k ex s Pf P F :=
  ⟨p.rext.add, p.noViol, p.fine, p.ok⟩

theorem drop {F : Sess × Res α} {x t : Nat} (p : CovPost cr G B k (some x) s Pf P F)
    (hx : s.store.taskOf x = some t) (hk : k ≤ cr.rank t) : CovPost cr G B k none s Pf P F :=
  ⟨p.rext.drop hx hk, p.noViol, p.fine, p.ok⟩

/-- The call returns `v` in `s'`. -/
theorem mkOk (e : OExt cr G k ex none s s') {v : α} (hp : P s' v) (hpf : G → Pf s') :
    CovPost cr G B k ex s Pf P (s', .ok v) :=
  ⟨e.toTExt, fun _ => NoViol.ok _, fun g _ => ⟨e.nno g, hpf g⟩, fun v' hv => by cases hv; exact hp⟩

/-- The call aborts in `s'` with a non-violation. -/
theorem mkAbort (e : OExt cr G k ex none s s') {a : Abort} (hr : a.isViol = false)
    (hpf : G → B → a = .taskPanic → Pf s') : CovPost cr G B k ex s Pf P (s', (Res.abort a : Res α)) :=
  ⟨e.toTExt, fun _ => NoViol.abort_of hr, fun g hf => ⟨e.nno g, hpf g hf.1 hf.2⟩,
    fun _ hv => nomatch hv⟩

/-- Nothing happened, the result is an abort that is not a task panic (out of fuel, `bug`). -/
theorem reflA (h : SessWF s) (hi : CovInv cr s.store) {a : Abort} (hr : a.isViol = false)
    (hp : a ≠ .taskPanic) : CovPost cr G B k ex s Pf P (s, (Res.abort a : Res α)) :=
  mkAbort (OExt.refl h hi) hr (fun _ _ h' => absurd h' hp)

end CovPost

/-- `OpenOK` along a step given by an `OExt`. -/
theorem OExt.sat_keep {G : Prop} {k : Nat} {ex : Option Nat} {s s' : Sess}
    (e : OExt cr G k ex none s s') (hk : EdgesKeep s.store s'.store) {n t : Nat}
    (hn : s.store.taskOf n = some t) (hs : Sat cr s.store n) : Sat cr s'.store n :=
  hs.mono e.ext.le (by rw [hn]; exact e.ext.le.task _ _ hn) (fun b dep hb => hk n b dep hb)

/-! ### store-level facts used by `read` / `write` -/

/-- The reader's requires cover the generator and every unsaturated node is on the stack: not
hidden. -/
theorem readHidden_false_trans {st : Store} (hi : CovInv cr st) (hr : CovRank cr) {cur dst r t0 : Nat}
    (ht : st.taskOf cur = some t0) (hd : st.resOf dst = some r) {a : Acc} (ha : AccOK st cur a)
    (ho : OpenOK cr st (some cur) NoPend) (hcov : ∀ w, cr.gen r = some w → Covers cr a.req w) :
    readHidden st cur dst = false := by
  cases hh : readHidden st cur dst with
  | false => rfl
  | true =>
    obtain ⟨wn, hw, hct⟩ := (readHidden_eq_true_iff st cur dst).mp hh
    obtain ⟨r', c', s', he⟩ := hi.wf.taskWritingTo_some hw
    have hd' := hi.wf.edge_dst _ _ _ he
    simp only [Store.depOK_write] at hd'
    rw [hd] at hd'; cases hd'
    obtain ⟨w, hwt⟩ := hi.wf.edge_src _ _ _ he
    have hgen := hi.write _ _ _ _ _ w he hwt
    rcases hi.covEdge_reach hr ho (covEdge_of_acc ha (hcov w hgen)) with
      ⟨nw, hnw, hreach⟩ | ⟨c, hc, hreach⟩
    · have hnu : nw = wn := hi.wf.node_inj hnw hwt
      subst hnu
      have := (hi.wf.containsTransitive_iff cur nw).mpr hreach
      rw [this] at hct; cases hct
    · cases hc
      exact absurd hreach (hi.not_reach_self ht)

/-- The generator writes its resource for the first time in this execution: no recorded writer,
and every recorded reader reaches the generator's node. -/
theorem validateWrite_none_trans {st : Store} (hi : CovInv cr st) (hr : CovRank cr)
    {cur dst t0 r : Nat} (ht : st.taskOf cur = some t0) (hd : st.resOf dst = some r) {a : Acc}
    (ha : AccOK st cur a) (ho : OpenOK cr st (some cur) NoPend)
    (hg : cr.gen r = some t0) (hnw : r ∉ a.wr) : validateWrite st cur dst = none := by
  rw [validateWrite_none_iff]
  constructor
  · apply hi.wf.taskWritingTo_none
    intro n r' c s he
    have hd' := hi.wf.edge_dst _ _ _ he
    simp only [Store.depOK_write] at hd'
    rw [hd] at hd'; cases hd'
    obtain ⟨tn, htn⟩ := hi.wf.edge_src _ _ _ he
    have hgen := hi.write _ _ _ _ _ tn he htn
    rw [hg] at hgen; cases hgen
    have hn : n = cur := hi.wf.node_inj htn ht
    subst hn
    exact hnw (ha.wr _ _ _ _ he)
  · intro y hy
    obtain ⟨r', c, s, he⟩ := hi.wf.mem_tasksReadingFrom hy
    have hd' := hi.wf.edge_dst _ _ _ he
    simp only [Store.depOK_read] at hd'
    rw [hd] at hd'; cases hd'
    rcases hi.covEdge_reach hr ho (hi.read _ _ _ _ _ t0 he hg) with
      ⟨nw, hnw, hreach⟩ | ⟨c', hc, hreach⟩
    · have hn : nw = cur := hi.wf.node_inj hnw ht
      subst hn
      exact (hi.wf.containsTransitive_iff y nw).mpr hreach
    · cases hc
      exact (hi.wf.containsTransitive_iff y cur).mpr hreach

/-- Recording the read. -/
theorem read_addDependency_trans {st : Store} (hi : CovInv cr st) {cur dst t0 r : Nat}
    (ht : st.taskOf cur = some t0) (hd : st.resOf dst = some r) {a : Acc} (ha : AccOK st cur a)
    (hcov : ∀ w, cr.gen r = some w → Covers cr a.req w) (c : Nat) (stamp : Stamp) (k : Nat) :
    CovInv cr (st.addDependency cur dst (.read r c stamp)).1 ∧
    AccOK (st.addDependency cur dst (.read r c stamp)).1 cur a ∧
    FrameBelow cr.toRoles k (some cur) st (st.addDependency cur dst (.read r c stamp)).1 := by
  refine ⟨?_, ?_, ?_⟩
  · refine hi.addDependency ht (d := .read r c stamp) hd ?_ (fun _ _ _ hh => nomatch hh) ?_
    · intro u hu; rw [Store.taskOf_eq_none_of_resOf hd] at hu; cases hu
    · intro r' c' s' w hh hg
      cases hh
      exact covEdge_of_acc ha (hcov w hg)
  · exact ha.addDependency hi.wf dst _ (fun _ h => h) (fun _ h => h) (fun _ _ _ hh => nomatch hh)
  · exact FrameBelow.of_ne (fun n hn b => Store.ged_addDependency_of_src_ne hi.wf _ _ _ hn b)

/-- Recording the write. -/
theorem write_addDependency_trans {st : Store} (hi : CovInv cr st) {cur dst t0 r : Nat}
    (ht : st.taskOf cur = some t0) (hd : st.resOf dst = some r) {a : Acc} (ha : AccOK st cur a)
    (hg : cr.gen r = some t0) (c : Nat) (stamp : Stamp) (k : Nat) :
    CovInv cr (st.addDependency cur dst (.write r c stamp)).1 ∧
    AccOK (st.addDependency cur dst (.write r c stamp)).1 cur { a with wr := r :: a.wr } ∧
    FrameBelow cr.toRoles k (some cur) st (st.addDependency cur dst (.write r c stamp)).1 := by
  refine ⟨?_, ?_, ?_⟩
  · refine hi.addDependency ht (d := .write r c stamp) hd ?_ ?_ (fun _ _ _ _ hh => nomatch hh)
    · intro u hu; rw [Store.taskOf_eq_none_of_resOf hd] at hu; cases hu
    · intro r' c' s' hh; cases hh; exact hg
  · refine ha.addDependency hi.wf dst _ (fun _ h => h) (fun _ h => List.mem_cons_of_mem _ h) ?_
    intro r' c' s' hh; cases hh; exact List.mem_cons_self
  · exact FrameBelow.of_ne (fun n hn b => Store.ged_addDependency_of_src_ne hi.wf _ _ _ hn b)

variable (sem : Sem)

/-- What a primitive guarantees, whatever its result: `OExt` (no node becomes unsaturated), all
edges are kept; under `G` no diagnosed violation. -/
structure PrimOK (cr : CRoles) (G : Prop) (k : Nat) (ex : Option Nat) (s : Sess) {α : Type}
    (p : Sess × Res α) : Prop where
  oext : OExt cr G k ex none s p.1
  keep : EdgesKeep s.store p.1.store
  noViol : G → NoViol p.2
  noPanic : p.2 ≠ .abort .taskPanic

namespace PrimOK
variable {G B : Prop} {k : Nat} {ex : Option Nat} {s s₁ s' : Sess} {α : Type}

/-- The primitive aborted after some steps `e` of the caller; the caller passes the abort on (it
is not a task panic, so no bookkeeping is claimed). -/
theorem abortL {γ : Type} {F : Sess × Res α} {a : Abort} {Pf : Sess → Prop}
    {Q : Sess → γ → Prop} (e : TExt cr k ex s s₁) (p : PrimOK cr G k ex s₁ F)
    (heq : F = (s', .abort a)) :
    CovPost cr G B k ex s Pf Q (s', (Res.abort a : Res γ)) := by
  rw [heq] at p
  refine ⟨e.trans p.oext.toTExt, fun g => (p.noViol g).cast rfl, ?_, fun v hv => nomatch hv⟩
  intro _ hf
  exact absurd (by rw [hf.2]) p.noPanic

theorem out {F : Sess × Res α} {r : Res α} (p : PrimOK cr G k ex s F) (heq : F = (s', r)) :
    OExt cr G k ex none s s' ∧ EdgesKeep s.store s'.store := by
  rw [heq] at p; exact ⟨p.oext, p.keep⟩

/-- `OpenOK` after the primitive. -/
theorem openOK {F : Sess × Res α} (p : PrimOK cr G k ex s F) (h : SessWF s) (g : G)
    {cur : Option Nat} {P : Nat → Prop} (ho : OpenOK cr s.store cur P) :
    OpenOK cr F.1.store cur P :=
  ho.keep h.store p.oext.wf.store (p.oext.nno g) p.keep

/-- A saturated task node stays saturated. -/
theorem sat {F : Sess × Res α} (p : PrimOK cr G k ex s F) {n t : Nat}
    (hn : s.store.taskOf n = some t) (hs : Sat cr s.store n) : Sat cr F.1.store n :=
  p.oext.sat_keep p.keep hn hs

theorem drop {F : Sess × Res α} {x t : Nat} (p : PrimOK cr G k (some x) s F)
    (hx : s.store.taskOf x = some t) (hk : k ≤ cr.rank t) : PrimOK cr G k none s F :=
  ⟨p.oext.drop hx hk, p.keep, p.noViol, p.noPanic⟩

end PrimOK

variable {G : Prop}

/-! ### `doRead` -/

theorem doRead_trans {s : Sess} (h : SessWF s) (hi : CovInv cr s.store) (hr : CovRank cr)
    {cur t0 : Nat} (hc : s.cur = some cur) (ht : s.store.taskOf cur = some t0) {a : Acc}
    (ha : AccOK s.store cur a) (ho : G → OpenOK cr s.store (some cur) NoPend) (r c : Nat)
    (hcov : ∀ w, cr.gen r = some w → Covers cr a.req w) (k : Nat) :
    PrimOK cr G k (some cur) s (doRead sem s r c) ∧ AccOK (doRead sem s r c).1.store cur a := by
  have i1 := hi.getOrCreateResNode r
  have le1 := Store.le_getOrCreateResNode h.store r
  have e1 := Store.getEdgeData_getOrCreateResNode h.store r
  have ht1 := le1.task _ _ ht
  have hd1 := Store.resOf_getOrCreateResNode_self h.store r
  have a1 : AccOK (s.store.getOrCreateResNode r).1 cur a := ha.of_eq le1 (e1 cur)
  have f1 : FrameBelow cr.toRoles k (some cur) s.store (s.store.getOrCreateResNode r).1 :=
    FrameBelow.of_eq e1
  have n1 : NoNewUnsatX cr none s.store (s.store.getOrCreateResNode r).1 :=
    NoNewUnsatX.getOrCreateResNode h.store r
  have k1 : EdgesKeep s.store (s.store.getOrCreateResNode r).1 := EdgesKeep.of_eq e1
  have hnv : G → NoViol (doRead sem s r c).2 := by
    intro g ab hab
    have o1 : OpenOK cr (s.store.getOrCreateResNode r).1 (some cur) NoPend :=
      (ho g).keep h.store i1.wf n1 k1
    have hh := readHidden_false_trans i1 hr ht1 hd1 a1 o1 hcov
    rcases (doRead_abort_iff sem s r c cur (s.store.getOrCreateResNode r).1
      (s.store.getOrCreateResNode r).2 ab hc rfl).mp hab with ⟨_, h2⟩ | ⟨rfl, _⟩
    · rw [hh] at h2; cases h2
    · rfl
  have hnp : (doRead sem s r c).2 ≠ .abort .taskPanic := by
    intro hab
    rcases (doRead_abort_iff sem s r c cur (s.store.getOrCreateResNode r).1
      (s.store.getOrCreateResNode r).2 _ hc rfl).mp hab with ⟨h1, _⟩ | ⟨h1, _⟩ <;> cases h1
  rcases doRead_store sem hc r c with hs | ⟨stamp, hs⟩
  · exact ⟨⟨⟨⟨doRead_ext sem h r c, hs ▸ i1, hs ▸ f1⟩, fun _ => hs ▸ n1⟩, hs ▸ k1, hnv, hnp⟩,
      hs ▸ a1⟩
  · obtain ⟨i2, a2, f2⟩ := read_addDependency_trans i1 ht1 hd1 a1 hcov c stamp k
    exact ⟨⟨⟨⟨doRead_ext sem h r c, hs ▸ i2, hs ▸ f1.trans le1 f2⟩,
      fun _ => hs ▸ n1.trans (NoNewUnsatX.addDependency i1.wf _ _ _)⟩,
      hs ▸ k1.trans (EdgesKeep.addDependency i1.wf _ _ _), hnv, hnp⟩, hs ▸ a2⟩

/-! ### `doWrite`, `doWrote` -/

theorem doWrite_trans {s : Sess} (h : SessWF s) (hi : CovInv cr s.store) (hr : CovRank cr)
    {cur t0 : Nat} (hc : s.cur = some cur) (ht : s.store.taskOf cur = some t0) {a : Acc}
    (ha : AccOK s.store cur a) (ho : G → OpenOK cr s.store (some cur) NoPend) (r c : Nat)
    (v : Option Int) (hg : cr.gen r = some t0) (hnw : r ∉ a.wr) (k : Nat) :
    PrimOK cr G k (some cur) s (doWrite sem s r c v) ∧
      AccOK (doWrite sem s r c v).1.store cur { a with wr := r :: a.wr } := by
  have i1 := hi.getOrCreateResNode r
  have le1 := Store.le_getOrCreateResNode h.store r
  have e1 := Store.getEdgeData_getOrCreateResNode h.store r
  have ht1 := le1.task _ _ ht
  have hd1 := Store.resOf_getOrCreateResNode_self h.store r
  have a1 : AccOK (s.store.getOrCreateResNode r).1 cur a := ha.of_eq le1 (e1 cur)
  have f1 : FrameBelow cr.toRoles k (some cur) s.store (s.store.getOrCreateResNode r).1 :=
    FrameBelow.of_eq e1
  have n1 : NoNewUnsatX cr none s.store (s.store.getOrCreateResNode r).1 :=
    NoNewUnsatX.getOrCreateResNode h.store r
  have k1 : EdgesKeep s.store (s.store.getOrCreateResNode r).1 := EdgesKeep.of_eq e1
  have hnv : G → NoViol (doWrite sem s r c v).2 := by
    intro g ab hab
    have o1 : OpenOK cr (s.store.getOrCreateResNode r).1 (some cur) NoPend :=
      (ho g).keep h.store i1.wf n1 k1
    have hv := validateWrite_none_trans i1 hr ht1 hd1 a1 o1 hg hnw
    rcases (doWrite_abort_iff sem s r c cur v (s.store.getOrCreateResNode r).1
      (s.store.getOrCreateResNode r).2 ab hc rfl).mp hab with h2 | ⟨rfl, _⟩
    · rw [hv] at h2; cases h2
    · rfl
  have hnp : (doWrite sem s r c v).2 ≠ .abort .taskPanic := by
    intro hab
    rcases (doWrite_abort_iff sem s r c cur v (s.store.getOrCreateResNode r).1
      (s.store.getOrCreateResNode r).2 _ hc rfl).mp hab with h1 | ⟨h1, _⟩
    · rcases validateWrite_kinds _ _ _ _ h1 with h2 | h2 <;> cases h2
    · cases h1
  rcases doWrite_store sem hc r c v with hs | ⟨stamp, hs⟩
  · exact ⟨⟨⟨⟨doWrite_ext sem h r c v, hs ▸ i1, hs ▸ f1⟩, fun _ => hs ▸ n1⟩, hs ▸ k1, hnv, hnp⟩,
      hs ▸ a1.consWr r⟩
  · obtain ⟨i2, a2, f2⟩ := write_addDependency_trans i1 ht1 hd1 a1 hg c stamp k
    exact ⟨⟨⟨⟨doWrite_ext sem h r c v, hs ▸ i2, hs ▸ f1.trans le1 f2⟩,
      fun _ => hs ▸ n1.trans (NoNewUnsatX.addDependency i1.wf _ _ _)⟩,
      hs ▸ k1.trans (EdgesKeep.addDependency i1.wf _ _ _), hnv, hnp⟩, hs ▸ a2⟩

theorem doWrote_trans {s : Sess} (h : SessWF s) (hi : CovInv cr s.store) (hr : CovRank cr)
    {cur t0 : Nat} (hc : s.cur = some cur) (ht : s.store.taskOf cur = some t0) {a : Acc}
    (ha : AccOK s.store cur a) (ho : G → OpenOK cr s.store (some cur) NoPend) (r c : Nat)
    (v : Option Int) (hg : cr.gen r = some t0) (hnw : r ∉ a.wr) (k : Nat) :
    PrimOK cr G k (some cur) s (doWrote sem s r c v) ∧
      AccOK (doWrote sem s r c v).1.store cur { a with wr := r :: a.wr } := by
  have i1 := hi.getOrCreateResNode r
  have le1 := Store.le_getOrCreateResNode h.store r
  have e1 := Store.getEdgeData_getOrCreateResNode h.store r
  have ht1 := le1.task _ _ ht
  have hd1 := Store.resOf_getOrCreateResNode_self h.store r
  have a1 : AccOK (s.store.getOrCreateResNode r).1 cur a := ha.of_eq le1 (e1 cur)
  have f1 : FrameBelow cr.toRoles k (some cur) s.store (s.store.getOrCreateResNode r).1 :=
    FrameBelow.of_eq e1
  have n1 : NoNewUnsatX cr none s.store (s.store.getOrCreateResNode r).1 :=
    NoNewUnsatX.getOrCreateResNode h.store r
  have k1 : EdgesKeep s.store (s.store.getOrCreateResNode r).1 := EdgesKeep.of_eq e1
  have hnv : G → NoViol (doWrote sem s r c v).2 := by
    intro g ab hab
    have o1 : OpenOK cr (s.store.getOrCreateResNode r).1 (some cur) NoPend :=
      (ho g).keep h.store i1.wf n1 k1
    have hv := validateWrite_none_trans i1 hr ht1 hd1 a1 o1 hg hnw
    rcases (doWrote_abort_iff sem s r c cur v (s.store.getOrCreateResNode r).1
      (s.store.getOrCreateResNode r).2 ab hc rfl).mp hab with h2 | ⟨rfl, _⟩
    · rw [hv] at h2; cases h2
    · rfl
  have hnp : (doWrote sem s r c v).2 ≠ .abort .taskPanic := by
    intro hab
    rcases (doWrote_abort_iff sem s r c cur v (s.store.getOrCreateResNode r).1
      (s.store.getOrCreateResNode r).2 _ hc rfl).mp hab with h1 | ⟨h1, _⟩
    · rcases validateWrite_kinds _ _ _ _ h1 with h2 | h2 <;> cases h2
    · cases h1
  rcases doWrote_store sem hc r c v with hs | ⟨stamp, hs⟩
  · exact ⟨⟨⟨⟨doWrote_ext sem h r c v, hs ▸ i1, hs ▸ f1⟩, fun _ => hs ▸ n1⟩, hs ▸ k1, hnv, hnp⟩,
      hs ▸ a1.consWr r⟩
  · obtain ⟨i2, a2, f2⟩ := write_addDependency_trans i1 ht1 hd1 a1 hg c stamp k
    exact ⟨⟨⟨⟨doWrote_ext sem h r c v, hs ▸ i2, hs ▸ f1.trans le1 f2⟩,
      fun _ => hs ▸ n1.trans (NoNewUnsatX.addDependency i1.wf _ _ _)⟩,
      hs ▸ k1.trans (EdgesKeep.addDependency i1.wf _ _ _), hnv, hnp⟩, hs ▸ a2⟩

/-! ### `reserveRequire`, `updateRequire` -/

/-- The new edge goes strictly upward in rank, so it cannot close a cycle. -/
theorem reserveRequire_trans {s : Sess} (h : SessWF s) (hi : CovInv cr s.store) {dst t : Nat}
    (hd : s.store.taskOf dst = some t) (hpre : ReqPre cr.toRoles s t) (k : Nat) :
    PrimOK cr G k s.cur s (reserveRequire s dst) ∧ ReqKeep s dst (reserveRequire s dst) := by
  cases hc : s.cur with
  | none =>
    have : reserveRequire s dst = (s, .ok ()) := by unfold reserveRequire; rw [hc]
    rw [this]
    exact ⟨⟨OExt.refl h hi, EdgesKeep.refl _, fun _ => NoViol.ok _, fun hh => nomatch hh⟩,
      fun cur a h' => by rw [hc] at h'; cases h'⟩
  | some src =>
    obtain ⟨t0, ht0, hlt⟩ := hpre src hc
    have hnc : (s.store.addDependency src dst .reserved).2 ≠ .cycle := by
      intro hcy
      obtain ⟨_, _, h3⟩ := (Store.addDependency_snd_cycle_iff h.store src dst .reserved).mp hcy
      rcases h3 with rfl | h3
      · rw [ht0] at hd; cases hd; exact Nat.lt_irrefl _ hlt
      · exact absurd (hi.reach_rank h3 hd ht0) (Nat.lt_asymm hlt)
    rw [reserveRequire_of_some hc]
    cases hv : (s.store.addDependency src dst .reserved).2 with
    | cycle => exact absurd hv hnc
    | bug =>
      exact ⟨⟨OExt.refl h hi, EdgesKeep.refl _, fun _ => NoViol.abort_of rfl, fun hh => nomatch hh⟩,
        fun cur a _ h' => nomatch h'⟩
    | ok =>
      simp only
      have i2 : CovInv cr (s.store.addDependency src dst .reserved).1 :=
        hi.addDependency ht0 (d := .reserved) ⟨t, hd⟩
          (fun u hu => by rw [hd] at hu; cases hu; exact hlt)
          (fun _ _ _ hh => nomatch hh) (fun _ _ _ _ hh => nomatch hh)
      refine ⟨⟨⟨⟨h.setStore i2.wf (Store.le_addDependency h.store _ _ _), i2, ?_⟩,
        fun _ => NoNewUnsatX.addDependency h.store _ _ _⟩, EdgesKeep.addDependency h.store _ _ _,
        fun _ => NoViol.ok _, fun hh => nomatch hh⟩, ?_⟩
      · exact FrameBelow.of_ne (fun n hn b => Store.ged_addDependency_of_src_ne h.store _ _ _ hn b)
      · intro cur a h1 _ ha
        rw [hc] at h1; cases h1
        exact ⟨ha.addDependency h.store dst _ (fun _ h => h) (fun _ h => h)
          (fun _ _ _ hh => nomatch hh), Store.ged_addDependency_ok h.store hv⟩

/-- After a successful reserve the edge `cur → dst` is there. -/
theorem reserveRequire_edge {s s' : Sess} (h : SessWF s) {dst cur : Nat} (hc : s.cur = some cur)
    (heq : reserveRequire s dst = (s', .ok ())) :
    ∃ dep, s'.store.g.getEdgeData cur dst = some dep := by
  rw [reserveRequire_of_some hc] at heq
  cases hv : (s.store.addDependency cur dst .reserved).2 with
  | cycle => rw [hv] at heq; cases heq
  | bug => rw [hv] at heq; cases heq
  | ok =>
    rw [hv] at heq
    simp only [Prod.mk.injEq] at heq
    obtain ⟨rfl, _⟩ := heq
    exact Store.ged_addDependency_ok h.store hv

theorem updateRequire_trans {s : Sess} (h : SessWF s) (hi : CovInv cr s.store) {dst t : Nat}
    (c : Nat) (stamp : Stamp) (hd : s.store.taskOf dst = some t) (k : Nat) :
    PrimOK cr G k s.cur s (updateRequire s dst t c stamp) ∧
      ReqKeep s dst (updateRequire s dst t c stamp) := by
  cases hc : s.cur with
  | none =>
    have : updateRequire s dst t c stamp = (s, .ok ()) := by unfold updateRequire; rw [hc]
    rw [this]
    exact ⟨⟨OExt.refl h hi, EdgesKeep.refl _, fun _ => NoViol.ok _, fun hh => nomatch hh⟩,
      fun cur a h' => by rw [hc] at h'; cases h'⟩
  | some src =>
    rw [updateRequire_of_some hc]
    cases hs : s.store.setDependency src dst (.require t c stamp) with
    | none =>
      exact ⟨⟨OExt.refl h hi, EdgesKeep.refl _, fun _ => NoViol.abort_of rfl, fun hh => nomatch hh⟩,
        fun cur a _ h' => nomatch h'⟩
    | some st' =>
      simp only
      have i2 := hi.setDependency hs hd
      have hg := Store.getEdgeData_setDependency hs
      refine ⟨⟨⟨⟨h.setStore i2.wf (Store.le_setDependency hs), i2, ?_⟩,
        fun _ => NoNewUnsatX.setDependency hs⟩, EdgesKeep.setDependency hs, fun _ => NoViol.ok _,
        fun hh => nomatch hh⟩, ?_⟩
      · refine FrameBelow.of_ne (fun n hn b => ?_)
        rw [hg, if_neg (fun hh => hn hh.1)]
      · intro cur a h1 _ ha
        rw [hc] at h1; cases h1
        exact ⟨ha.setDependency hs, ⟨_, by rw [hg, if_pos ⟨rfl, rfl⟩]⟩⟩

end PieModel.TransRoles
