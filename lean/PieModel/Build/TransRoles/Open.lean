/-
Saturated / unsaturated task nodes and the path argument.

A task node is SATURATED (`Sat`) if, for each `u` in the `cov` of its task, it has an edge to a
task covering `u`.  A task with output is saturated (`CovInv.out`); a task that is re-executing
(its edges were removed by `resetTask`) is unsaturated until it has required enough again.

`OpenOK cr st cur P`: every task node is saturated, or pending (`P`: the node a `make` is about to
execute), or on the executing stack — it is `cur` or reaches `cur`.
Under `CovInv` + `OpenOK` a covering edge extends to a PATH to the covered task's node, or to `cur`
(`CovInv.chain`): follow the covering edges of saturated nodes; the walk ends at the covered task or
at a node of the stack.

* `NoNewUnsatX x st st'`: every unsaturated task node of `st'` was one of `st` (or is `x`).
* `reach_frame`: a path into a node of rank `≤ k` persists when the edges of the task nodes of
  rank `< k` persist (`FrameBelow`).
* `OpenOK.after`: `OpenOK` is re-established after a call from `NoNewUnsatX` + `FrameBelow`.
-/
import PieModel.Build.TransRoles.Defs
import PieModel.Build.Stack.Ops

namespace PieModel.TransRoles

variable {cr : CRoles} {st st' st'' : Store}

/-- Every edge of `st` is an edge of `st'` (possibly with other data). -/
def EdgesKeep (st st' : Store) : Prop :=
  ∀ a b dep, st.g.getEdgeData a b = some dep → ∃ dep', st'.g.getEdgeData a b = some dep'

theorem EdgesKeep.refl (st : Store) : EdgesKeep st st := fun _ _ dep h => ⟨dep, h⟩

theorem EdgesKeep.trans (h1 : EdgesKeep st st') (h2 : EdgesKeep st' st'') :
    EdgesKeep st st'' := fun a b dep h => by
  obtain ⟨d', h'⟩ := h1 a b dep h
  exact h2 a b d' h'

theorem EdgesKeep.of_eq (h : ∀ a b, st'.g.getEdgeData a b = st.g.getEdgeData a b) :
    EdgesKeep st st' :=
  fun a b dep hd => ⟨dep, by rw [h]; exact hd⟩

theorem EdgesKeep.addDependency (h : st.WF) (src dst : Nat) (d : Dep) :
    EdgesKeep st (st.addDependency src dst d).1 :=
  fun _ _ dep hd => ⟨dep, Store.ged_addDependency_mono h _ _ _ hd⟩

theorem EdgesKeep.setDependency {src dst : Nat} {d : Dep}
    (hs : st.setDependency src dst d = some st') : EdgesKeep st st' := by
  intro a b dep hd
  rw [Store.getEdgeData_setDependency hs]
  split
  · exact ⟨_, rfl⟩
  · exact ⟨dep, hd⟩

/-! ### saturated nodes -/

/-- The edges of `n` cover the `cov` of its task. -/
def Sat (cr : CRoles) (st : Store) (n : Nat) : Prop :=
  ∀ t, st.taskOf n = some t → ∀ u ∈ cr.cov t, CovEdge cr st n u

/-- A task with output is saturated. -/
theorem CovInv.sat_of_output (hi : CovInv cr st) {n : Nat} (ho : st.taskOutput n ≠ none) :
    Sat cr st n := by
  intro t ht u hu
  cases h : st.taskOutput n with
  | none => exact absurd h ho
  | some o => exact hi.out n t o u ht h hu

/-- Saturation persists when the task and the edges of the node persist. -/
theorem Sat.mono {n : Nat} (h : Sat cr st n) (hle : st.Le st')
    (ht : st'.taskOf n = st.taskOf n)
    (he : ∀ b dep, st.g.getEdgeData n b = some dep → ∃ dep', st'.g.getEdgeData n b = some dep') :
    Sat cr st' n := by
  intro t ht' u hu
  rw [ht] at ht'
  exact (h t ht' u hu).mono hle he

/-- One covering edge for everything. -/
theorem Sat.of_edge {n nm t m : Nat} {dep : Dep} (hn : st.taskOf n = some t)
    (hm : st.taskOf nm = some m) (he : st.g.getEdgeData n nm = some dep)
    (hc : ∀ u ∈ cr.cov t, cr.covBy m u) : Sat cr st n := by
  intro t' ht' u hu
  rw [hn] at ht'; cases ht'
  exact ⟨nm, m, dep, hm, he, hc u hu⟩

/-- Every task node is saturated, or pending (`P`), or on the executing stack: it is `cur` or
reaches `cur`. -/
def OpenOK (cr : CRoles) (st : Store) (cur : Option Nat) (P : Nat → Prop) : Prop :=
  ∀ e t, st.taskOf e = some t →
    Sat cr st e ∨ P e ∨ ∃ c, cur = some c ∧ (e = c ∨ st.g.Reach e c)

/-- No pending node. -/
abbrev NoPend : Nat → Prop := fun _ => False

/-- Every task node is saturated. -/
def AllSat (cr : CRoles) (st : Store) : Prop := ∀ e t, st.taskOf e = some t → Sat cr st e

/-- Every task node has an output. -/
def AllDone (st : Store) : Prop := ∀ e t, st.taskOf e = some t → st.taskOutput e ≠ none

theorem AllDone.allSat (h : AllDone st) (hi : CovInv cr st) : AllSat cr st :=
  fun e t ht => hi.sat_of_output (h e t ht)

theorem allSat_iff : AllSat cr st ↔ OpenOK cr st none NoPend := by
  constructor
  · intro h e t ht; exact .inl (h e t ht)
  · intro h e t ht
    rcases h e t ht with hs | hf | ⟨c, hc, _⟩
    · exact hs
    · exact hf.elim
    · cases hc

/-- Every unsaturated task node of `st'` was an unsaturated task node of `st`, except possibly
`x`: a task node of `st'` that was saturated in `st`, or is new, is saturated in `st'`. -/
def NoNewUnsatX (cr : CRoles) (x : Option Nat) (st st' : Store) : Prop :=
  ∀ e t, st'.taskOf e = some t → (st.taskOf e = some t → Sat cr st e) →
    Sat cr st' e ∨ x = some e

namespace NoNewUnsatX
variable {x : Option Nat}

theorem refl (x : Option Nat) (st : Store) : NoNewUnsatX cr x st st :=
  fun _ _ h1 h2 => .inl (h2 h1)

theorem trans (h1 : NoNewUnsatX cr x st st') (h2 : NoNewUnsatX cr x st' st'') :
    NoNewUnsatX cr x st st'' := by
  intro e t ht hs
  by_cases ht' : st'.taskOf e = some t
  · rcases h1 e t ht' hs with hs' | hx
    · exact h2 e t ht (fun _ => hs')
    · exact .inr hx
  · exact h2 e t ht (fun h => absurd h ht')

theorem weaken (h : NoNewUnsatX cr none st st') : NoNewUnsatX cr x st st' := by
  intro e t ht hs
  rcases h e t ht hs with h' | hx
  · exact .inl h'
  · cases hx

/-- The exempted node is saturated in the end. -/
theorem close {d : Nat} (h : NoNewUnsatX cr (some d) st st') (hd : Sat cr st' d) :
    NoNewUnsatX cr none st st' := by
  intro e t ht hs
  rcases h e t ht hs with h' | hx
  · exact .inl h'
  · cases hx; exact .inl hd

/-- Same task nodes, all edges kept. -/
theorem of_keep (hle : st.Le st') (ht : ∀ n, st'.taskOf n = st.taskOf n)
    (hk : EdgesKeep st st') : NoNewUnsatX cr x st st' := by
  intro e t h1 hs
  rw [ht] at h1
  exact .inl ((hs h1).mono hle (ht e) (fun b dep hb => hk e b dep hb))

theorem getOrCreateTaskNode (h : st.WF) (t : Nat) :
    NoNewUnsatX cr (some (st.getOrCreateTaskNode t).2) st (st.getOrCreateTaskNode t).1 := by
  intro e t' ht hs
  by_cases he : e = (st.getOrCreateTaskNode t).2
  · exact .inr (by rw [he])
  · left
    have hte : (st.getOrCreateTaskNode t).1.taskOf e = st.taskOf e := by
      rw [Store.taskOf_getOrCreateTaskNode h, if_neg he]
    rw [hte] at ht
    exact (hs ht).mono (Store.le_getOrCreateTaskNode h t) hte
      (fun b dep hb => ⟨dep, by rw [Store.getEdgeData_getOrCreateTaskNode h]; exact hb⟩)

theorem getOrCreateResNode (h : st.WF) (r : Nat) :
    NoNewUnsatX cr x st (st.getOrCreateResNode r).1 :=
  of_keep (Store.le_getOrCreateResNode h r) (Store.taskOf_getOrCreateResNode h r)
    (EdgesKeep.of_eq (Store.getEdgeData_getOrCreateResNode h r))

theorem addDependency (h : st.WF) (src dst : Nat) (d : Dep) :
    NoNewUnsatX cr x st (st.addDependency src dst d).1 :=
  of_keep (Store.le_addDependency h _ _ _) (Store.taskOf_addDependency h src dst d)
    (EdgesKeep.addDependency h _ _ _)

theorem setDependency {src dst : Nat} {d : Dep} (hs : st.setDependency src dst d = some st') :
    NoNewUnsatX cr x st st' :=
  of_keep (Store.le_setDependency hs) (Store.taskOf_setDependency hs) (EdgesKeep.setDependency hs)

/-- Resetting `n` makes `n` unsaturated only. -/
theorem resetTask (h : st.WF) (n : Nat) : NoNewUnsatX cr (some n) st (st.resetTask n) := by
  intro e t ht hs
  by_cases he : e = n
  · exact .inr (by rw [he])
  · left
    have hte : (st.resetTask n).taskOf e = st.taskOf e := Store.taskOf_resetTask h n e
    rw [hte] at ht
    exact (hs ht).mono (Store.le_resetTask h n) hte
      (fun b dep hb => ⟨dep, by rw [Store.getEdgeData_resetTask h, if_neg he]; exact hb⟩)

theorem setTaskOutput (n : Nat) (o : Int) : NoNewUnsatX cr x st (st.setTaskOutput n o) :=
  of_keep (Store.le_setTaskOutput st n o) (by simp) (EdgesKeep.of_eq (by simp))

end NoNewUnsatX

theorem AllSat.after (h : AllSat cr st) (hn : NoNewUnsatX cr none st st') : AllSat cr st' := by
  intro e t ht
  rcases hn e t ht (fun ht' => h e t ht') with hs | hx
  · exact hs
  · cases hx

/-! ### paths under a frame -/

/-- A path into a task node of rank `≤ k` persists if the outgoing edges of the task nodes of rank
`< k` persist (the excepted node is not an ancestor of the target). -/
theorem reach_frame (hi : CovInv cr st) (hw : st'.WF) {k : Nat} {ex : Option Nat}
    (hf : FrameBelow cr.toRoles k ex st st') {a b tb : Nat} (hr : st.g.Reach a b)
    (hb : st.taskOf b = some tb) (hk : cr.rank tb ≤ k)
    (hex : ∀ x, ex = some x → ¬ st.g.Reach x b) : st'.g.Reach a b := by
  have edge : ∀ a m, st.g.HasEdge a m → st.g.Reach a b → st'.g.HasEdge a m := by
    intro a m he hab
    obtain ⟨dep, hd⟩ := (hi.wf.gwf.hasEdge_iff_getEdgeData _ _).mp he
    obtain ⟨ta, hta⟩ := hi.wf.edge_src _ _ _ hd
    have hlt : cr.rank ta < k := Nat.lt_of_lt_of_le (hi.reach_rank hab hta hb) hk
    have hne : ex ≠ some a := fun hh => hex a hh hab
    have := hf a ta hta hlt hne m
    exact (hw.gwf.hasEdge_iff_getEdgeData _ _).mpr ⟨dep, by rw [this]; exact hd⟩
  induction hr with
  | edge he => exact .edge (edge _ _ he (.edge he))
  | step he hr ih => exact .step (edge _ _ he (.step he hr)) (ih hb hex edge)

/-- Paths persist when edges persist. -/
theorem reach_of_ged (hw : st.WF) (hw' : st'.WF) (he : EdgesKeep st st')
    {a b : Nat} (hr : st.g.Reach a b) : st'.g.Reach a b := by
  refine Dag.Reach.mono (fun x y h => ?_) hr
  obtain ⟨dep, hd⟩ := (hw.gwf.hasEdge_iff_getEdgeData _ _).mp h
  exact (hw'.gwf.hasEdge_iff_getEdgeData _ _).mpr (he x y dep hd)

/-! ### `OpenOK` -/

namespace OpenOK
variable {cur : Option Nat} {P Q : Nat → Prop}

theorem mono (h : OpenOK cr st cur P) (hpq : ∀ e, P e → Q e) : OpenOK cr st cur Q := by
  intro e t ht
  rcases h e t ht with hs | hp | hc
  · exact .inl hs
  · exact .inr (.inl (hpq e hp))
  · exact .inr (.inr hc)

/-- Pending nodes that are saturated do not matter. -/
theorem drop (h : OpenOK cr st cur P) (hp : ∀ e, P e → Sat cr st e) :
    OpenOK cr st cur NoPend := by
  intro e t ht
  rcases h e t ht with hs | hp' | hc
  · exact .inl hs
  · exact .inl (hp e hp')
  · exact .inr (.inr hc)

/-- Transfer along a step that makes no node unsaturated (except `x`) and keeps the paths into
`cur`. -/
theorem step {x : Option Nat} (h : OpenOK cr st cur P)
    (hn : NoNewUnsatX cr x st st')
    (hreach : ∀ e c, cur = some c → st.g.Reach e c → st'.g.Reach e c) :
    OpenOK cr st' cur (fun e => x = some e ∨ P e) := by
  intro e t ht
  by_cases ht0 : st.taskOf e = some t
  · rcases h e t ht0 with hs | hp | ⟨c, hc, hec⟩
    · rcases hn e t ht (fun _ => hs) with hs' | hx
      · exact .inl hs'
      · exact .inr (.inl (.inl hx))
    · exact .inr (.inl (.inr hp))
    · refine .inr (.inr ⟨c, hc, ?_⟩)
      rcases hec with rfl | hr
      · exact .inl rfl
      · exact .inr (hreach e c hc hr)
  · rcases hn e t ht (fun h' => absurd h' ht0) with hs' | hx
    · exact .inl hs'
    · exact .inr (.inl (.inl hx))

/-- Along a step that makes no node unsaturated and keeps all edges. -/
theorem keep (h : OpenOK cr st cur P) (hw : st.WF) (hw' : st'.WF)
    (hn : NoNewUnsatX cr none st st') (hk : EdgesKeep st st') : OpenOK cr st' cur P :=
  (h.step hn (fun _ _ _ hr => reach_of_ged hw hw' hk hr)).mono (fun e he => by
    rcases he with hx | hp
    · cases hx
    · exact hp)

/-- After a call: no new unsaturated node (except `x`) and the edges below `k` are framed. -/
theorem after {x : Option Nat} {k : Nat} (h : OpenOK cr st cur P) (hi : CovInv cr st) (hw : st'.WF)
    (hn : NoNewUnsatX cr x st st')
    (hf : FrameBelow cr.toRoles k none st st')
    (hk : ∀ c tc, cur = some c → st.taskOf c = some tc → cr.rank tc ≤ k)
    (hcur : ∀ c, cur = some c → ∃ tc, st.taskOf c = some tc) :
    OpenOK cr st' cur (fun e => x = some e ∨ P e) := by
  refine h.step hn ?_
  intro e c hc hr
  obtain ⟨tc, htc⟩ := hcur c hc
  exact reach_frame hi hw hf hr htc (hk c tc hc htc) (fun _ hx => nomatch hx)

end OpenOK

/-! ### from covering edges to paths -/

/-- From a node `m` of a task covering `w`: a path to the node of `w`, or to `cur`. -/
theorem CovInv.chain (hi : CovInv cr st) (hr : CovRank cr) {cur : Option Nat}
    (ho : OpenOK cr st cur NoPend) (w : Nat) :
    ∀ (k m tm : Nat), cr.rank w - cr.rank tm ≤ k → st.taskOf m = some tm → cr.covBy tm w →
      (∃ nw, st.taskOf nw = some w ∧ (m = nw ∨ st.g.Reach m nw)) ∨
      (∃ c, cur = some c ∧ (m = c ∨ st.g.Reach m c)) := by
  intro k
  induction k with
  | zero =>
    intro m tm hk hm hc
    rcases hc with rfl | hc
    · exact .inl ⟨m, hm, .inl rfl⟩
    · have := hr tm w hc
      omega
  | succ k ih =>
    intro m tm hk hm hc
    rcases hc with rfl | hc
    · exact .inl ⟨m, hm, .inl rfl⟩
    · have hlt := hr tm w hc
      rcases ho m tm hm with hs | hf | h
      · obtain ⟨nm, m', dep, h1, h2, h3⟩ := hs tm hm w hc
        have hlt' : cr.rank tm < cr.rank m' := hi.req m nm dep tm m' h2 hm h1
        have hedge := hi.wf.reach_of_edge h2
        have hk' : cr.rank w - cr.rank m' ≤ k := by omega
        rcases ih nm m' hk' h1 h3 with ⟨nw, hnw, hmn⟩ | ⟨c, hc', hmc⟩
        · refine .inl ⟨nw, hnw, .inr ?_⟩
          rcases hmn with rfl | hmn
          · exact hedge
          · exact hedge.trans hmn
        · refine .inr ⟨c, hc', .inr ?_⟩
          rcases hmc with rfl | hmc
          · exact hedge
          · exact hedge.trans hmc
      · exact hf.elim
      · exact .inr h

/-- From a covering edge of `n`: a path to the node of `w`, or to `cur`. -/
theorem CovInv.covEdge_reach (hi : CovInv cr st) (hr : CovRank cr) {cur : Option Nat}
    (ho : OpenOK cr st cur NoPend) {n w : Nat} (hc : CovEdge cr st n w) :
    (∃ nw, st.taskOf nw = some w ∧ st.g.Reach n nw) ∨
    (∃ c, cur = some c ∧ st.g.Reach n c) := by
  obtain ⟨nm, m, dep, h1, h2, h3⟩ := hc
  have hedge := hi.wf.reach_of_edge h2
  rcases hi.chain hr ho w _ nm m (Nat.le_refl _) h1 h3 with ⟨nw, hnw, hmn⟩ | ⟨c, hc', hmc⟩
  · refine .inl ⟨nw, hnw, ?_⟩
    rcases hmn with rfl | hmn
    · exact hedge
    · exact hedge.trans hmn
  · refine .inr ⟨c, hc', ?_⟩
    rcases hmc with rfl | hmc
    · exact hedge
    · exact hedge.trans hmc

/-- If every task node is saturated, covering edges are paths. -/
theorem CovInv.covEdge_reach_allSat (hi : CovInv cr st) (hr : CovRank cr) (hd : AllSat cr st)
    {n w : Nat} (hc : CovEdge cr st n w) : ∃ nw, st.taskOf nw = some w ∧ st.g.Reach n nw := by
  rcases hi.covEdge_reach hr (allSat_iff.mp hd) hc with h | ⟨c, hc', _⟩
  · exact h
  · cases hc'

end PieModel.TransRoles
