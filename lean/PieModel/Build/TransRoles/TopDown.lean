/-
Transitive roles, top-down build: for a program table that respects the roles-with-covers
(`WellFormedCov cr body`), `tdRequire`, `tdMake`, `tdCheck`, `tdCheckDeps`, `tdRun`,
`sessionRequire`, `requireAll`
* preserve `SessWF` and `CovInv`, whatever the result and whatever happened before (`G := False`);
* started in a state where every unsaturated task node is on the executing stack (`G`, `OpenOK`;
  at top level: every task node is saturated, `AllSat`), never abort with `cyclic` / `hidden` /
  `overlap`, and if they return, no task node is left unsaturated;
* if moreover the bodies have the relay-prefix shape (`B`, `PrefixCov`), no task node is left
  unsaturated after a task panic either.
Joint induction on fuel.
-/
import PieModel.Build.TransRoles.Session
import PieModel.Build.SessWFTopDown
import PieModel.Build.Proofs.CurLemmas
import PieModel.Build.Pie

namespace PieModel.TransRoles

/-- The executing task (if any) reaches `d`. -/
def CurPath (s : Sess) (d : Nat) : Prop := ∀ c, s.cur = some c → s.store.g.Reach c d

/-- On success the requires of the executing task, extended by `t`, are reflected. -/
def ReqAccT (s : Sess) (t : Nat) (s' : Sess) : Prop :=
  ∀ cur a, s.cur = some cur → AccOK s.store cur a → AccOK s'.store cur { a with req := t :: a.req }

/-- The executing task (if any) is saturated. -/
def CurSat (cr : CRoles) (s s' : Sess) : Prop := ∀ cur, s.cur = some cur → Sat cr s'.store cur

variable {cr : CRoles} {G B : Prop}

/-- The path from `cur` to `d` persists along a framed step. -/
theorem CurPath.after {s s' : Sess} {d t k : Nat} {x : Option Nat} (hcr : CurPath s d)
    (hi : CovInv cr s.store) (e : OExt cr G k none x s s') (hd : s.store.taskOf d = some t)
    (hk : cr.rank t ≤ k) (hc : s'.cur = s.cur) : CurPath s' d := by
  intro c hc'
  rw [hc] at hc'
  exact reach_frame hi e.wf.store e.frame (hcr c hc') hd hk (fun _ hx => nomatch hx)

/-- The rank of the executing task is below the rank of what it reaches. -/
theorem CurPath.rank_lt {s : Sess} {d t : Nat} (hcr : CurPath s d) (hi : CovInv cr s.store)
    (hd : s.store.taskOf d = some t) {c tc : Nat} (hc : s.cur = some c)
    (htc : s.store.taskOf c = some tc) : cr.rank tc < cr.rank t :=
  hi.reach_rank (hcr c hc) htc hd

/-- `OpenOK` after a framed call that left no node unsaturated. -/
theorem OpenOK.afterCall {s s' : Sess} {P : Nat → Prop} {k : Nat}
    (ho : OpenOK cr s.store s.cur P) (h : SessWF s) (hi : CovInv cr s.store)
    (e : OExt cr G k none none s s') (g : G)
    (hk : ∀ c tc, s.cur = some c → s.store.taskOf c = some tc → cr.rank tc ≤ k)
    (hc : s'.cur = s.cur) : OpenOK cr s'.store s'.cur P := by
  rw [hc]
  refine (ho.after hi e.wf.store (e.nno g) e.frame hk (fun c hc => h.cur c hc)).mono ?_
  intro e he
  rcases he with hx | hp
  · cases hx
  · exact hp

/-- Saturation of a node of rank `< k` persists along a framed step. -/
theorem Sat.frame {s s' : Sess} {k : Nat} {n t : Nat} (hs : Sat cr s.store n)
    (e : TExt cr k none s s') (hn : s.store.taskOf n = some t) (hk : cr.rank t < k) :
    Sat cr s'.store n :=
  hs.mono e.ext.le (by rw [hn]; exact e.ext.le.task _ _ hn)
    (fun b dep hb => ⟨dep, by rw [e.frame n t hn hk (fun hh => nomatch hh) b]; exact hb⟩)

/-- A remaining program that is not a require has the relay-prefix shape only if there is nothing
to cover. -/
theorem sat_of_firstReq {st : Store} {cur t0 : Nat} {p : Prog} (hfr : FirstReq cr t0 p)
    (hnr : ∀ u c k, p ≠ .req u c k) (ht : st.taskOf cur = some t0) : Sat cr st cur := by
  intro t ht' u hu
  rw [ht] at ht'; cases ht'
  obtain ⟨u', c', k', hp, _⟩ := hfr u hu
  exact absurd hp (hnr u' c' k')

variable (cr G B) (sem : Sem) (body : Nat → Prog)

/-- The joint statement for fuel `f`. -/
structure TdTrans (f : Nat) : Prop where
  require : ∀ s t c, SessWF s → CovInv cr s.store → ReqPre cr.toRoles s t →
    (G → OpenOK cr s.store s.cur NoPend) →
    (G → B → ∀ cur t0, s.cur = some cur → s.store.taskOf cur = some t0 →
      Sat cr s.store cur ∨ ∀ w ∈ cr.cov t0, cr.covBy t w) →
    CovPost cr G B (cr.rank t) s.cur s (fun s' => B → CurSat cr s s') (fun s' _ => ReqAccT s t s')
      (tdRequire sem body f s t c)
  make : ∀ s t d, SessWF s → CovInv cr s.store → s.store.taskOf d = some t → (G → CurPath s d) →
    (G → OpenOK cr s.store s.cur (· = d)) →
    CovPost cr G B (cr.rank t) none s (fun s' => Sat cr s'.store d)
      (fun s' _ => s'.store.taskOutput d ≠ none) (tdMake sem body f s t)
  check : ∀ s d t, SessWF s → CovInv cr s.store → s.store.taskOf d = some t → (G → CurPath s d) →
    (G → OpenOK cr s.store s.cur (· = d)) →
    CovPost cr G B (cr.rank t + 1) none s
      (fun s' => s.store.taskOutput d ≠ none → Sat cr s'.store d)
      (fun s' o => ∀ v, o = some v → s'.store.taskOutput d = some v)
      (tdCheck sem body f s d)
  checkDeps : ∀ s ds d t, SessWF s → CovInv cr s.store → s.store.taskOf d = some t →
    (G → CurPath s d) →
    (∀ u c st, Dep.require u c st ∈ ds →
      ∃ nu dep, s.store.taskOf nu = some u ∧ s.store.g.getEdgeData d nu = some dep) →
    (G → OpenOK cr s.store s.cur NoPend) →
    CovPost cr G B (cr.rank t + 1) none s (fun _ => True) (fun _ _ => True)
      (tdCheckDeps sem body f s ds)
  run : ∀ s p cur t0 a, SessWF s → CovInv cr s.store → s.cur = some cur →
    s.store.taskOf cur = some t0 → StaticCovFrom cr t0 a p → AccOK s.store cur a →
    (G → OpenOK cr s.store (some cur) NoPend) →
    (G → B → Sat cr s.store cur ∨ FirstReq cr t0 p) →
    CovPost cr G B (cr.rank t0) none s (fun s' => B → Sat cr s'.store cur)
      (fun s' _ => ∀ u ∈ cr.cov t0, CovEdge cr s'.store cur u) (tdRun sem body f s p)

theorem tdTrans_zero : TdTrans cr G B sem body 0 := by
  refine ⟨?_, ?_, ?_, ?_, ?_⟩
  · intro s t c h hi _ _ _; unfold tdRequire; exact CovPost.reflA h hi rfl (by simp)
  · intro s t d h hi _ _ _; unfold tdMake; exact CovPost.reflA h hi rfl (by simp)
  · intro s d t h hi _ _ _; unfold tdCheck; exact CovPost.reflA h hi rfl (by simp)
  · intro s ds d t h hi _ _ _ _; unfold tdCheckDeps; exact CovPost.reflA h hi rfl (by simp)
  · intro s p cur t0 a h hi _ _ _ _ _ _; unfold tdRun; exact CovPost.reflA h hi rfl (by simp)

variable {cr G B sem body}

theorem tdRequire_succ_trans {f : Nat} (ih : TdTrans cr G B sem body f) (s : Sess) (t c : Nat)
    (h : SessWF s) (hi : CovInv cr s.store) (hpre : ReqPre cr.toRoles s t)
    (ho : G → OpenOK cr s.store s.cur NoPend)
    (hb : G → B → ∀ cur t0, s.cur = some cur → s.store.taskOf cur = some t0 →
      Sat cr s.store cur ∨ ∀ w ∈ cr.cov t0, cr.covBy t w) :
    CovPost cr G B (cr.rank t) s.cur s (fun s' => B → CurSat cr s s') (fun s' _ => ReqAccT s t s')
      (tdRequire sem body (f + 1) s t c) := by
  unfold tdRequire; simp only []
  have e0 : OExt cr G (cr.rank t) s.cur
      (some ((s.emit (.requireStart t c)).store.getOrCreateTaskNode t).2) s
      (s.emit (.requireStart t c)) := (OExt.refl h hi).emit _
  have x1 := e0.wf.getTask t
  have i1 := e0.inv.getOrCreateTaskNode t
  have ed1 := Store.getEdgeData_getOrCreateTaskNode e0.wf.store t
  have n1 : NoNewUnsatX cr _ _ _ := NoNewUnsatX.getOrCreateTaskNode e0.wf.store t
  have e1 := e0.step x1 i1 (FrameBelow.of_eq ed1) n1
  have hd := Store.taskOf_getOrCreateTaskNode_self e0.wf.store t
  have hpre1 : ReqPre cr.toRoles
      { s.emit (.requireStart t c) with
        store := ((s.emit (.requireStart t c)).store.getOrCreateTaskNode t).1 } t := by
    intro cur hcur
    obtain ⟨t0, h1, h2⟩ := hpre cur hcur
    exact ⟨t0, x1.le.task _ _ h1, h2⟩
  obtain ⟨p2, k2⟩ := reserveRequire_trans (G := G) e1.wf i1 hd hpre1 (cr.rank t)
  -- `OpenOK` after the node creation: only the new node may be unsaturated in addition
  have o1 : G → OpenOK cr ((s.emit (.requireStart t c)).store.getOrCreateTaskNode t).1 s.cur
      (· = ((s.emit (.requireStart t c)).store.getOrCreateTaskNode t).2) := by
    intro g
    refine ((ho g).step n1 (fun e c _ hr =>
      (Store.reach_getOrCreateTaskNode e0.wf.store t e c).mpr hr)).mono ?_
    intro e he
    rcases he with hx | hf
    · exact (Option.some.inj hx).symm
    · exact hf.elim
  split
  next s2 a heq => exact PrimOK.abortL e1.toTExt p2 heq
  next s2 heq =>
    obtain ⟨e2', ek2⟩ := p2.out heq
    have e2 := e1.trans e2'.weaken
    have c2 : s2.cur = s.cur := by
      have := cur_of_fst (cur_reserveRequire _ _) heq
      exact this
    have hd2 := e2'.ext.le.task _ _ hd
    have hedge : ∀ cur, s.cur = some cur → ∃ dep, s2.store.g.getEdgeData cur
        ((s.emit (.requireStart t c)).store.getOrCreateTaskNode t).2 = some dep :=
      fun cur hcur => reserveRequire_edge e1.wf (cur := cur) hcur heq
    have hcr2 : CurPath s2 ((s.emit (.requireStart t c)).store.getOrCreateTaskNode t).2 := by
      intro cur hcur
      rw [c2] at hcur
      obtain ⟨dep, hdep⟩ := hedge cur hcur
      exact e2.wf.store.reach_of_edge hdep
    have o2 : G → OpenOK cr s2.store s2.cur
        (· = ((s.emit (.requireStart t c)).store.getOrCreateTaskNode t).2) := by
      intro g
      rw [c2]; exact (o1 g).keep i1.wf e2'.wf.store (e2'.nno g) ek2
    -- after the reserve the requiring task is saturated (under `B`)
    have hsat2 : G → B → CurSat cr s s2 := by
      intro g b cur hcur
      obtain ⟨t0, ht0, _⟩ := hpre cur hcur
      have ht2 : s2.store.taskOf cur = some t0 := e2.ext.le.task _ _ ht0
      rcases hb g b cur t0 hcur ht0 with hs | hcov
      · have hs1 : Sat cr ((s.emit (.requireStart t c)).store.getOrCreateTaskNode t).1 cur :=
          hs.mono x1.le (by rw [ht0]; exact x1.le.task _ _ ht0)
            (fun b' dep hb' => ⟨dep, by rw [ed1]; exact hb'⟩)
        exact e2'.sat_keep ek2 (x1.le.task _ _ ht0) hs1
      · obtain ⟨dep, hdep⟩ := hedge cur hcur
        exact Sat.of_edge ht2 hd2 hdep hcov
    have pm := ih.make s2 t _ e2.wf e2.inv hd2 (fun _ => hcr2) o2
    -- the edges of the requiring task are below the frame of `make`
    have keepCur : ∀ {s3 : Sess}, TExt cr (cr.rank t) none s2 s3 → B → G → CurSat cr s s3 := by
      intro s3 e3 b g cur hcur
      obtain ⟨t0, ht0, hlt⟩ := hpre cur hcur
      exact (hsat2 g b cur hcur).frame e3 (e2.ext.le.task _ _ ht0) hlt
    split
    next s3 a heq3 =>
      refine CovPost.abortLX e2 pm.add heq3 ?_ ?_
      · intro d' hd' _ _ hp; cases hd'; exact hp
      · intro g b _ _ _; exact keepCur (pm.outA heq3) b g
    next s3 out heq3 =>
      obtain ⟨e3', hout3, hsat3⟩ := pm.outOk heq3
      have e3 := (e2.trans e3'.add.weaken).emit (.requireEnd t c (sem.ostamp c out) out)
      have c3 : s3.cur = s2.cur := cur_tdMake sem body heq3
      have hd3 := e3'.ext.le.task _ _ hd2
      obtain ⟨p4, k4⟩ := updateRequire_trans (cr := cr) (G := G) e3.wf e3.inv c (sem.ostamp c out)
        (dst := ((s.emit (.requireStart t c)).store.getOrCreateTaskNode t).2) (t := t) hd3
        (cr.rank t)
      have hcur3 : (s3.emit (.requireEnd t c (sem.ostamp c out) out)).cur = s.cur := by
        show s3.cur = s.cur
        rw [c3, c2]
      rw [hcur3] at p4
      split
      next s4 a heq4 => exact PrimOK.abortL e3.toTExt p4 heq4
      next s4 heq4 =>
        obtain ⟨e4', ek4⟩ := p4.out heq4
        have hsat4 : G → Sat cr s4.store
            ((s.emit (.requireStart t c)).store.getOrCreateTaskNode t).2 :=
          fun g => e4'.sat_keep ek4 hd3 (hsat3 g)
        refine CovPost.mkOk ((e3.trans e4'.weaken).close hsat4) ?_ ?_
        · intro cur a hcur ha
          obtain ⟨t0, ht0, hlt⟩ := hpre cur hcur
          have a1 : AccOK ((s.emit (.requireStart t c)).store.getOrCreateTaskNode t).1 cur a :=
            ha.of_eq x1.le (ed1 cur)
          obtain ⟨a2, _⟩ := k2.out heq (cur := cur) hcur a1
          have ht2 : s2.store.taskOf cur = some t0 := e2'.ext.le.task _ _ (x1.le.task _ _ ht0)
          have a3 : AccOK s3.store cur a :=
            a2.of_eq e3'.ext.le (e3'.frame cur t0 ht2 hlt (fun hh => nomatch hh))
          obtain ⟨a4, dep, hdep⟩ := k4.out heq4 (cur := cur) (hcur3.trans hcur) a3
          have hd4 := e4'.ext.le.task _ _ hd3
          exact a4.consReq hd4 hdep
        · intro g b cur hcur
          obtain ⟨t0, ht0, _⟩ := hpre cur hcur
          exact e4'.sat_keep ek4 (e3.ext.le.task _ _ ht0) (keepCur e3'.toTExt b g cur hcur)

/-- `tdCheck` on a task without output does nothing. -/
theorem tdCheck_of_no_output (f : Nat) (s : Sess) (d : Nat) (h : s.store.taskOutput d = none) :
    tdCheck sem body f s d = (s, .ok none) ∨ tdCheck sem body f s d = (s, .abort .outOfFuel) := by
  cases f with
  | zero => right; unfold tdCheck; rfl
  | succ f => left; unfold tdCheck; rw [h]

theorem tdMake_succ_trans (hwf : WellFormedCov cr body) (hB : B → PrefixCov cr body) {f : Nat}
    (ih : TdTrans cr G B sem body f)
    (s : Sess) (t d : Nat) (h : SessWF s) (hi : CovInv cr s.store)
    (hd : s.store.taskOf d = some t) (hcr : G → CurPath s d)
    (ho : G → OpenOK cr s.store s.cur (· = d)) :
    CovPost cr G B (cr.rank t) none s (fun s' => Sat cr s'.store d)
      (fun s' _ => s'.store.taskOutput d ≠ none) (tdMake sem body (f + 1) s t) := by
  have hg : s.store.getOrCreateTaskNode t = (s.store, d) :=
    Store.getOrCreateTaskNode_of_some ((h.store.task_iff t d).mpr hd)
  have hk : G → ∀ c tc, s.cur = some c → s.store.taskOf c = some tc → cr.rank tc ≤ cr.rank t :=
    fun g c tc hc htc => Nat.le_of_lt ((hcr g).rank_lt hi hd hc htc)
  unfold tdMake; simp only []
  rw [hg]; simp only []
  split
  · split
    next o hout =>
      exact CovPost.mkOk (OExt.refl h hi) (by rw [hout]; simp)
        (fun _ => hi.sat_of_output (by rw [hout]; simp))
    · exact CovPost.reflA h hi rfl (by simp)
  · have pc := (ih.check s d t h hi hd hcr ho).mono (Nat.le_succ _)
    split
    next s2 a heq =>
      refine CovPost.abortL (OExt.refl h hi) pc heq ?_
      intro _ _ hf hp
      cases hout : s.store.taskOutput d with
      | some o => exact hp (by rw [hout]; simp)
      | none =>
        rcases tdCheck_of_no_output (sem := sem) (body := body) f s d hout with h1 | h1
        · rw [h1] at heq; cases heq
        · rw [h1] at heq
          simp only [Prod.mk.injEq, Res.abort.injEq] at heq
          obtain ⟨_, rfl⟩ := heq
          exact absurd hf (by simp)
    next s2 o heq =>
      obtain ⟨e2, hout2, _⟩ := pc.outOk heq
      have ho2 : s2.store.taskOutput d ≠ none := by rw [hout2 o rfl]; simp
      exact CovPost.mkOk (e2.markConsistent _)
        (by simp only [Sess.store_markConsistent]; exact ho2)
        (fun _ => by
          simp only [Sess.store_markConsistent]; exact e2.inv.sat_of_output ho2)
    next s2 heq =>
      obtain ⟨e2, _, _⟩ := pc.outOk heq
      have hd2 := e2.ext.le.task _ _ hd
      have c2 : s2.cur = s.cur := cur_tdCheck sem body heq
      have o2 : G → OpenOK cr s2.store s2.cur (· = d) :=
        fun g => (ho g).afterCall h hi e2 g (hk g) c2
      have hcr2 : G → CurPath s2 d := fun g => (hcr g).after hi e2 hd (Nat.le_refl _) c2
      have x3 := (e2.wf.startExec hd2).emit (.executeStart t)
      have i3 := e2.inv.resetTask d
      have f3 : FrameBelow cr.toRoles (cr.rank t) none s2.store (s2.store.resetTask d) :=
        (FrameBelow.of_ne (fun a ha b => by
          rw [Store.getEdgeData_resetTask e2.wf.store, if_neg ha])).drop hd2 (Nat.le_refl _)
      have n3 : NoNewUnsatX cr _ _ _ := NoNewUnsatX.resetTask e2.wf.store d
      have e3 : OExt cr G (cr.rank t) none (some d) s _ := e2.weaken.step x3 i3 f3 n3
      have a3 := AccOK.start e2.wf.store d
      have hd3 := x3.le.task _ _ hd2
      -- after the reset every unsaturated node is `d` or reaches `d`
      have o3 : G → OpenOK cr (s2.store.resetTask d) (some d) NoPend := by
        intro g e t' ht'
        by_cases hed : e = d
        · exact .inr (.inr ⟨d, rfl, .inl hed⟩)
        · have ht2 : s2.store.taskOf e = some t' := by
            rw [Store.taskOf_resetTask e2.wf.store] at ht'; exact ht'
          rcases o2 g e t' ht2 with hs | hp | ⟨c, hc, hec⟩
          · left
            exact hs.mono (Store.le_resetTask e2.wf.store d)
              (Store.taskOf_resetTask e2.wf.store d e)
              (fun b dep hb => ⟨dep, by
                rw [Store.getEdgeData_resetTask e2.wf.store, if_neg hed]; exact hb⟩)
          · exact absurd hp hed
          · have hr : s2.store.g.Reach e d := by
              rcases hec with rfl | hec
              · exact hcr2 g _ hc
              · exact hec.trans (hcr2 g c hc)
            exact .inr (.inr ⟨d, rfl, .inr (Store.reach_resetTask_of e2.wf.store d hr hed
              (e2.inv.not_reach_self hd2))⟩)
      have pr := ih.run _ (body t) d t {} e3.wf i3 rfl hd3 (hwf.body t) a3 o3
        (fun _ b => .inr (hB b t))
      split
      next s4 a heq4 =>
        refine CovPost.abortLX e3 pr heq4 ?_ ?_
        · intro d' hd' _ b hp; cases hd'; exact hp b
        · intro _ b _ hp; exact hp b
      next s4 o heq4 =>
        obtain ⟨e4', hcov, _⟩ := pr.outOk heq4
        have e4 := e3.trans e4'.weaken
        have hd4 := e4'.ext.le.task _ _ hd3
        have x5 := ((x3.trans e4'.ext).emit (.executeEnd t o)).endExec e2.wf d o
        have hout5 : (s4.store.setTaskOutput d o).taskOutput d ≠ none := by
          rw [Store.taskOutput_setTaskOutput_self hd4]; simp
        have i5 := e4.inv.setTaskOutput o hd4 hcov
        have hsat5 : Sat cr (s4.store.setTaskOutput d o) d := i5.sat_of_output hout5
        refine CovPost.mkOk (OExt.markConsistent ⟨⟨e2.ext.trans x5, i5, ?_⟩, ?_⟩ _)
          (by simp only [Sess.store_markConsistent]; exact hout5)
          (fun _ => by simp only [Sess.store_markConsistent]; exact hsat5)
        · exact e4.frame.trans e4.ext.le (FrameBelow.of_eq (by simp))
        · exact fun g => ((e4.nno g).trans (NoNewUnsatX.setTaskOutput d o)).close hsat5

theorem tdCheck_succ_trans {f : Nat} (ih : TdTrans cr G B sem body f) (s : Sess) (d t : Nat)
    (h : SessWF s) (hi : CovInv cr s.store) (hd : s.store.taskOf d = some t)
    (hcr : G → CurPath s d) (ho : G → OpenOK cr s.store s.cur (· = d)) :
    CovPost cr G B (cr.rank t + 1) none s
      (fun s' => s.store.taskOutput d ≠ none → Sat cr s'.store d)
      (fun s' o => ∀ v, o = some v → s'.store.taskOutput d = some v)
      (tdCheck sem body (f + 1) s d) := by
  unfold tdCheck
  split
  next hout =>
    exact CovPost.mkOk (OExt.refl h hi) (fun v hv => nomatch hv) (fun _ hne => absurd hout hne)
  next o0 hout =>
    have hsat : Sat cr s.store d := hi.sat_of_output (by rw [hout]; simp)
    have o0 : G → OpenOK cr s.store s.cur NoPend :=
      fun g => (ho g).drop (fun e he => by rw [he]; exact hsat)
    have hds : ∀ u c st, Dep.require u c st ∈ s.store.depsFrom d →
        ∃ nu dep, s.store.taskOf nu = some u ∧ s.store.g.getEdgeData d nu = some dep := by
      intro u c st hm
      rw [Store.depsFrom_eq] at hm
      obtain ⟨p, hp, hp2⟩ := List.mem_map.mp hm
      obtain ⟨m, dd⟩ := p
      simp only at hp2; subst hp2
      have he := (Dag.mem_outgoingEdges hi.wf.gwf d m _).mp hp
      exact ⟨m, _, hi.wf.edge_dst _ _ _ he, he⟩
    have pd := ih.checkDeps s _ d t h hi hd hcr hds o0
    have satAfter : ∀ {s2 : Sess}, TExt cr (cr.rank t + 1) none s s2 → Sat cr s2.store d :=
      fun e => hsat.frame e hd (Nat.lt_succ_self _)
    split
    next s2 a heq =>
      exact CovPost.abortL (OExt.refl h hi) pd heq (fun _ _ _ _ _ => satAfter (pd.outA heq))
    next s2 heq =>
      exact CovPost.mkOk (pd.outOk heq).1 (fun v hv => nomatch hv)
        (fun _ _ => satAfter (pd.outOk heq).1.toTExt)
    next s2 heq =>
      exact CovPost.mkOk (pd.outOk heq).1 (fun v hv => hv)
        (fun _ _ => satAfter (pd.outOk heq).1.toTExt)

theorem tdCheckDeps_succ_trans {f : Nat} (ih : TdTrans cr G B sem body f) (s : Sess)
    (ds : List Dep) (d t : Nat) (h : SessWF s) (hi : CovInv cr s.store)
    (hd : s.store.taskOf d = some t) (hcr : G → CurPath s d)
    (hds : ∀ u c st, Dep.require u c st ∈ ds →
      ∃ nu dep, s.store.taskOf nu = some u ∧ s.store.g.getEdgeData d nu = some dep)
    (ho : G → OpenOK cr s.store s.cur NoPend) :
    CovPost cr G B (cr.rank t + 1) none s (fun _ => True) (fun _ _ => True)
      (tdCheckDeps sem body (f + 1) s ds) := by
  cases ds with
  | nil => unfold tdCheckDeps; exact CovPost.mkOk (OExt.refl h hi) trivial (fun _ => trivial)
  | cons d' ds =>
    have hds' : ∀ u c st, Dep.require u c st ∈ ds →
        ∃ nu dep, s.store.taskOf nu = some u ∧ s.store.g.getEdgeData d nu = some dep :=
      fun u c st hm => hds u c st (List.mem_cons_of_mem _ hm)
    cases d' with
    | reserved => unfold tdCheckDeps; exact CovPost.reflA h hi rfl (by simp)
    | require u c stamp =>
      unfold tdCheckDeps; simp only []
      have e0 : OExt cr G (cr.rank t + 1) none none s (s.emit (.checkTaskStart u c stamp)) :=
        (OExt.refl h hi).emit _
      obtain ⟨nu, dep, hnu, hed⟩ := hds u c stamp List.mem_cons_self
      have hlt : cr.rank t < cr.rank u := hi.req _ _ dep t u hed hd hnu
      have hcr0 : G → CurPath (s.emit (.checkTaskStart u c stamp)) nu := by
        intro g cur hcur
        exact (hcr g cur hcur).trans (hi.wf.reach_of_edge hed)
      have o0 : G → OpenOK cr (s.emit (.checkTaskStart u c stamp)).store
          (s.emit (.checkTaskStart u c stamp)).cur (· = nu) :=
        fun g => (ho g).mono (fun _ hf => hf.elim)
      have pm := (ih.make _ u nu e0.wf e0.inv hnu hcr0 o0).mono hlt
      have hk : G → ∀ c' tc, s.cur = some c' → s.store.taskOf c' = some tc →
          cr.rank tc ≤ cr.rank t + 1 :=
        fun g c' tc hc htc => Nat.le_succ_of_le (Nat.le_of_lt ((hcr g).rank_lt hi hd hc htc))
      split
      next s2 a heq =>
        exact CovPost.abortL e0 pm heq (fun _ _ _ _ => trivial)
      next s2 out heq =>
        obtain ⟨e2', _, _⟩ := pm.outOk heq
        have e2 := (e0.trans e2').emit (.checkTaskEnd u c stamp (sem.ocheck c out stamp))
        have c2 : (s2.emit (.checkTaskEnd u c stamp (sem.ocheck c out stamp))).cur = s.cur := by
          have := cur_tdMake sem body heq
          exact this
        split
        · refine CovPost.left e2 (ih.checkDeps _ ds d t e2.wf e2.inv (e2.ext.le.task _ _ hd)
            (fun g => (hcr g).after hi e2 hd (Nat.le_succ _) c2) ?_
            (fun g => (ho g).afterCall h hi e2 g (hk g) c2))
            (fun _ _ hp => hp) (fun _ _ hp => hp)
          intro u' c' st' hm
          obtain ⟨nu', dep', h1, h2⟩ := hds' u' c' st' hm
          refine ⟨nu', dep', e2.ext.le.task _ _ h1, ?_⟩
          rw [e2.frame d t hd (Nat.lt_succ_self _) (fun hh => nomatch hh) nu']
          exact h2
        · exact CovPost.mkOk e2 trivial (fun _ => trivial)
    | read r c stamp =>
      unfold tdCheckDeps; simp only []
      have e0 : OExt cr G (cr.rank t + 1) none none s _ :=
        ((OExt.refl h hi).emit (.checkResStart r c stamp)).emit
        (.checkResEnd r c stamp (checkResDep sem (s.emit (.checkResStart r c stamp)) r c stamp))
      split
      · exact CovPost.left e0 (ih.checkDeps _ ds d t e0.wf e0.inv hd hcr hds' ho)
          (fun _ _ hp => hp) (fun _ _ hp => hp)
      · exact CovPost.mkOk e0 trivial (fun _ => trivial)
      · refine CovPost.mkOk ?_ trivial (fun _ => trivial); exact e0.same rfl rfl rfl
    | write r c stamp =>
      unfold tdCheckDeps; simp only []
      have e0 : OExt cr G (cr.rank t + 1) none none s _ :=
        ((OExt.refl h hi).emit (.checkResStart r c stamp)).emit
        (.checkResEnd r c stamp (checkResDep sem (s.emit (.checkResStart r c stamp)) r c stamp))
      split
      · exact CovPost.left e0 (ih.checkDeps _ ds d t e0.wf e0.inv hd hcr hds' ho)
          (fun _ _ hp => hp) (fun _ _ hp => hp)
      · exact CovPost.mkOk e0 trivial (fun _ => trivial)
      · refine CovPost.mkOk ?_ trivial (fun _ => trivial); exact e0.same rfl rfl rfl

theorem tdRun_succ_trans (hr : CovRank cr) {f : Nat} (ih : TdTrans cr G B sem body f) (s : Sess)
    (p : Prog) (cur t0 : Nat) (a : Acc) (h : SessWF s) (hi : CovInv cr s.store)
    (hc : s.cur = some cur) (ht : s.store.taskOf cur = some t0) (hp : StaticCovFrom cr t0 a p)
    (ha : AccOK s.store cur a) (ho : G → OpenOK cr s.store (some cur) NoPend)
    (hb : G → B → Sat cr s.store cur ∨ FirstReq cr t0 p) :
    CovPost cr G B (cr.rank t0) none s (fun s' => B → Sat cr s'.store cur)
      (fun s' _ => ∀ u ∈ cr.cov t0, CovEdge cr s'.store cur u) (tdRun sem body (f + 1) s p) := by
  have hk : ∀ c tc, s.cur = some c → s.store.taskOf c = some tc → cr.rank tc ≤ cr.rank t0 := by
    intro c tc hc' htc
    rw [hc] at hc'; cases hc'
    rw [ht] at htc; cases htc
    exact Nat.le_refl _
  have ho' : G → OpenOK cr s.store s.cur NoPend := by rw [hc]; exact ho
  -- if the remaining program is not a require, the task is saturated already
  have hsat : (∀ u c k, p ≠ .req u c k) → G → B → Sat cr s.store cur := by
    intro hnr g b
    rcases hb g b with hs | hfr
    · exact hs
    · exact sat_of_firstReq hfr hnr ht
  cases p with
  | ret v =>
    unfold tdRun
    exact CovPost.mkOk (OExt.refl h hi) (fun u hu => covEdge_of_acc ha (hp u hu))
      (fun g b => hsat (fun _ _ _ hh => nomatch hh) g b)
  | panic =>
    unfold tdRun
    exact CovPost.mkAbort (OExt.refl h hi) rfl
      (fun g b _ _ => hsat (fun _ _ _ hh => nomatch hh) g b)
  | req u c k =>
    unfold tdRun
    obtain ⟨hlt, hk'⟩ := hp
    have hpre : ReqPre cr.toRoles s u := fun cur' hc' => by
      rw [hc] at hc'; cases hc'; exact ⟨t0, ht, hlt⟩
    have pq := ih.require s u c h hi hpre ho' (by
      intro g b cur' t0' hc' ht'
      rw [hc] at hc'; cases hc'
      rw [ht] at ht'; cases ht'
      rcases hb g b with hs | hfr
      · exact .inl hs
      · exact .inr hfr.of_req)
    rw [hc] at pq
    have pq' := (pq.mono (Nat.le_of_lt hlt)).drop ht (Nat.le_refl _)
    split
    next s2 a' heq =>
      exact CovPost.abortL (OExt.refl h hi) pq' heq (fun _ _ _ hq b => hq b cur hc)
    next s2 out heq =>
      obtain ⟨e2, ka, hs2⟩ := pq'.outOk heq
      have c2 := cur_tdRequire sem body heq
      have a2 : AccOK s2.store cur { a with req := u :: a.req } := ka cur a hc ha
      have o2 : G → OpenOK cr s2.store (some cur) NoPend := by
        intro g
        have := (ho' g).afterCall h hi e2 g hk c2
        rwa [c2, hc] at this
      exact CovPost.left e2 (ih.run s2 (k out) cur t0 _ e2.wf e2.inv (c2.trans hc)
        (e2.ext.le.task _ _ ht) (hk' out) a2 o2 (fun g b => .inl (hs2 g b cur hc)))
        (fun _ _ hq => hq) (fun _ _ hq => hq)
  | read r c k =>
    unfold tdRun
    obtain ⟨_, hcov, hk'⟩ := hp
    obtain ⟨pr, ar⟩ := doRead_trans (G := G) sem h hi hr hc ht ha ho r c hcov (cr.rank t0)
    have pr' := pr.drop ht (Nat.le_refl _)
    have or := fun g => pr'.openOK h g (ho g)
    have sr := fun g b => pr'.sat ht (hsat (fun _ _ _ hh => nomatch hh) g b)
    split
    next s2 a' heq => exact PrimOK.abortL (TExt.refl h hi) pr' heq
    next s2 x heq =>
      obtain ⟨e2, _⟩ := pr'.out heq
      have c2 : s2.cur = s.cur := cur_of_fst (cur_doRead sem s r c) heq
      rw [heq] at ar
      simp only [heq] at or sr
      exact CovPost.left e2 (ih.run s2 (k x) cur t0 a e2.wf e2.inv (c2.trans hc)
        (e2.ext.le.task _ _ ht) (hk' x) ar or (fun g b => .inl (sr g b)))
        (fun _ _ hq => hq) (fun _ _ hq => hq)
  | write r c v k =>
    unfold tdRun
    obtain ⟨hg, hnw, hk'⟩ := hp
    obtain ⟨pr, ar⟩ := doWrite_trans (G := G) sem h hi hr hc ht ha ho r c v hg hnw (cr.rank t0)
    have pr' := pr.drop ht (Nat.le_refl _)
    have or := fun g => pr'.openOK h g (ho g)
    have sr := fun g b => pr'.sat ht (hsat (fun _ _ _ hh => nomatch hh) g b)
    split
    next s2 a' heq => exact PrimOK.abortL (TExt.refl h hi) pr' heq
    next s2 x heq =>
      obtain ⟨e2, _⟩ := pr'.out heq
      have c2 : s2.cur = s.cur := cur_of_fst (cur_doWrite sem s r c v) heq
      rw [heq] at ar
      simp only [heq] at or sr
      exact CovPost.left e2 (ih.run s2 (k x) cur t0 _ e2.wf e2.inv (c2.trans hc)
        (e2.ext.le.task _ _ ht) (hk' x) ar or (fun g b => .inl (sr g b)))
        (fun _ _ hq => hq) (fun _ _ hq => hq)
  | wrote r c v k =>
    unfold tdRun
    obtain ⟨hg, hnw, hk'⟩ := hp
    obtain ⟨pr, ar⟩ := doWrote_trans (G := G) sem h hi hr hc ht ha ho r c v hg hnw (cr.rank t0)
    have pr' := pr.drop ht (Nat.le_refl _)
    have or := fun g => pr'.openOK h g (ho g)
    have sr := fun g b => pr'.sat ht (hsat (fun _ _ _ hh => nomatch hh) g b)
    split
    next s2 a' heq => exact PrimOK.abortL (TExt.refl h hi) pr' heq
    next s2 x heq =>
      obtain ⟨e2, _⟩ := pr'.out heq
      have c2 : s2.cur = s.cur := cur_of_fst (cur_doWrote sem s r c v) heq
      rw [heq] at ar
      simp only [heq] at or sr
      exact CovPost.left e2 (ih.run s2 (k x) cur t0 _ e2.wf e2.inv (c2.trans hc)
        (e2.ext.le.task _ _ ht) (hk' x) ar or (fun g b => .inl (sr g b)))
        (fun _ _ hq => hq) (fun _ _ hq => hq)

theorem tdTrans (hwf : WellFormedCov cr body) (hB : B → PrefixCov cr body) (f : Nat) :
    TdTrans cr G B sem body f := by
  induction f with
  | zero => exact tdTrans_zero cr G B sem body
  | succ f ih =>
    exact ⟨tdRequire_succ_trans ih, tdMake_succ_trans hwf hB ih, tdCheck_succ_trans ih,
      tdCheckDeps_succ_trans ih, tdRun_succ_trans hwf.rank ih⟩

/-! ### sessions -/

/-- Top-level post-condition: well-formed session, invariant; under `G`: no diagnosed violation,
and after a `Fine` result no unsaturated task node. -/
abbrev TTop (cr : CRoles) (G B : Prop) (s : Sess) {α : Type} (p : Sess × Res α) : Prop :=
  CovPost cr G B 0 none s (fun _ => True) (fun _ _ => True) p

theorem sessionRequire_trans (hwf : WellFormedCov cr body) (hB : B → PrefixCov cr body) (f : Nat)
    {s : Sess} (h : SessWF s) (hi : CovInv cr s.store) (hd : G → AllSat cr s.store) (t : Nat) :
    TTop cr G B s (sessionRequire sem body f s t) := by
  unfold sessionRequire; simp only []
  have e0 : OExt cr G 0 none none s ({ s with cur := none }.emit .buildStart) :=
    ⟨⟨h.clearCur.emit .buildStart, hi, FrameBelow.refl _ _ _ _⟩, fun _ => NoNewUnsatX.refl _ _⟩
  have pq := ((tdTrans (G := G) (sem := sem) hwf hB f).require _ t alwaysChecker e0.wf e0.inv
    (fun cur hc => nomatch hc) (fun g => allSat_iff.mp (hd g))
    (fun _ _ cur _ hc => nomatch hc)).mono (Nat.zero_le _)
  split
  next s2 a heq =>
    exact CovPost.abortL e0 pq heq (fun _ _ _ _ => trivial)
  next s2 o heq =>
    exact CovPost.mkOk ((e0.trans (pq.outOk heq).1).emit .buildEnd) trivial (fun _ => trivial)

theorem requireAll_trans (hwf : WellFormedCov cr body) (hB : B → PrefixCov cr body) (f : Nat)
    (ts : List Nat) :
    ∀ {s : Sess}, SessWF s → CovInv cr s.store → (G → AllSat cr s.store) →
      TTop cr G B s (requireAll sem body f s ts) := by
  induction ts with
  | nil =>
    intro s h hi _; unfold requireAll
    exact CovPost.mkOk (OExt.refl h hi) trivial (fun _ => trivial)
  | cons t ts ih =>
    intro s h hi hd
    unfold requireAll
    have p1 := sessionRequire_trans (G := G) (sem := sem) hwf hB f h hi hd t
    split
    next s2 a heq => exact p1.abort heq
    next s2 o heq =>
      obtain ⟨e2, _, _⟩ := p1.outOk heq
      have p2 := ih e2.wf e2.inv (fun g => (hd g).after (e2.nno g))
      split
      next s3 a heq3 =>
        exact CovPost.abortL e2 p2 heq3 (fun _ _ _ hp => hp)
      next s3 os heq3 =>
        exact CovPost.mkOk (e2.trans (p2.outOk heq3).1) trivial (fun _ => trivial)

end PieModel.TransRoles
