/-
Transitive roles along histories: one step of a history (`runStep`) and the joint induction
along a history, generic in the two flags of the development (`G`: every task node is saturated
before the step; `B`: the bodies have the relay-prefix shape).  `stepAborts` / `historyAborts` are
those of `Props/C20.lean`.
-/
import PieModel.Build.TransRoles.BottomUp
import PieModel.Props.C20

namespace PieModel.TransRoles

variable (sem : Sem) (body : Nat → Prog)

/-- A step produces at most one abort. -/
theorem stepAborts_cases (fuel : Nat) (p : PieSt) (st : HStep) :
    stepAborts sem body fuel p st = [] ∨ ∃ a, stepAborts sem body fuel p st = [a] := by
  cases st with
  | change r v => exact .inl rfl
  | session roots =>
    simp only [stepAborts]
    split
    · exact .inr ⟨_, rfl⟩
    · exact .inl rfl
  | bottomUp changed roots =>
    simp only [stepAborts]
    split
    · exact .inr ⟨_, rfl⟩
    · split
      · exact .inr ⟨_, rfl⟩
      · exact .inl rfl

variable {cr : CRoles} {body}
variable (hwf : WellFormedCov cr body)
include hwf

/-- One step, generic in the two flags of the development (`G`: every task node is saturated
before the step; `B`: the bodies have the relay-prefix shape): the invariant is kept; under `G` the
step does not end with a diagnosed violation; under `G`, if the step did not abort — or, under
`B`, aborted with a task panic — every task node is saturated again. -/
theorem runStep_trans_gen (G B : Prop) (hB : B → PrefixCov cr body) (fuel : Nat) (p : PieSt)
    (hi : CovInv cr p.store) (hd : G → AllSat cr p.store) (st : HStep) :
    CovInv cr (runStep sem body fuel p st).store ∧
    (G → ∀ a ∈ stepAborts sem body fuel p st, a.isViol = false) ∧
    (G → (∀ a ∈ stepAborts sem body fuel p st, B ∧ a = .taskPanic) →
      AllSat cr (runStep sem body fuel p st).store) := by
  have h0 : SessWF p.newSession := C19_newSession_wf p hi.wf
  have hi0 : CovInv cr p.newSession.store := hi
  have hd0 : G → AllSat cr p.newSession.store := hd
  cases st with
  | change r v =>
    refine ⟨?_, (fun _ a ha => nomatch ha), fun g _ => ?_⟩
    · unfold runStep; rw [C19_setContent_store]; exact hi
    · unfold runStep; rw [C19_setContent_store]; exact hd g
  | session roots =>
    have H := requireAll_trans (G := G) (B := B) (sem := sem) hwf hB fuel roots h0 hi0 hd0
    refine ⟨H.rext.inv, ?_, ?_⟩
    · intro g a ha
      simp only [stepAborts] at ha
      split at ha
      next a' heq => cases List.mem_singleton.mp ha; exact H.noViol g _ heq
      · cases ha
    · intro g hall
      refine (hd g).after (H.fine g ?_).1
      simp only [stepAborts] at hall
      split at hall
      next a' heq => rw [heq]; exact hall a' List.mem_cons_self
      next os heq => rw [heq]; trivial
  | bottomUp changed roots =>
    have H1 := bottomUpBuild_trans (G := G) (B := B) (sem := sem) hwf hB fuel h0 hi0 hd0 changed
    refine ⟨?_, ?_, ?_⟩
    · show CovInv cr (match bottomUpBuild sem body fuel p.newSession changed with
        | (s, .abort _) => s.toPie
        | (s, .ok ()) => (requireAll sem body fuel s roots).1.toPie).store
      split
      next s a heq => exact (H1.outA heq).inv
      next s heq =>
        obtain ⟨e1, _, _⟩ := H1.outOk heq
        exact (requireAll_trans (G := False) (B := False) (sem := sem) hwf (fun hh => hh.elim)
          fuel roots e1.wf e1.inv (fun hh => hh.elim)).rext.inv
    · intro g a ha
      simp only [stepAborts] at ha
      split at ha
      next s a' heq =>
        cases List.mem_singleton.mp ha
        have := H1.noViol g; rw [heq] at this; exact this _ rfl
      next s heq =>
        obtain ⟨e1, _, _⟩ := H1.outOk heq
        have H2 := requireAll_trans (G := G) (B := B) (sem := sem) hwf hB fuel roots e1.wf e1.inv
          (fun g => (hd g).after (e1.nno g))
        split at ha
        next a' heq2 => cases List.mem_singleton.mp ha; exact H2.noViol g _ heq2
        · cases ha
    · intro g hall
      show AllSat cr (match bottomUpBuild sem body fuel p.newSession changed with
        | (s, .abort _) => s.toPie
        | (s, .ok ()) => (requireAll sem body fuel s roots).1.toPie).store
      simp only [stepAborts] at hall
      split
      next s a heq =>
        rw [heq] at hall
        have := H1.fine g (by rw [heq]; exact hall a List.mem_cons_self)
        rw [heq] at this
        exact (hd g).after this.1
      next s heq =>
        rw [heq] at hall
        obtain ⟨e1, _, _⟩ := H1.outOk heq
        have hd1 : G → AllSat cr s.store := fun g => (hd g).after (e1.nno g)
        have H2 := requireAll_trans (G := G) (B := B) (sem := sem) hwf hB fuel roots e1.wf e1.inv
          hd1
        refine (hd1 g).after (H2.fine g ?_).1
        simp only at hall
        split at hall
        next a' heq2 => rw [heq2]; exact hall a' List.mem_cons_self
        next os heq2 => rw [heq2]; trivial

/-- The joint induction along a history: if all aborts of the first steps are task panics of a
relay-prefix program table (`B`; with `B := False`: if there is no abort at all), every task node
is saturated afterwards and the next abort is not a diagnosed violation. -/
theorem history_trans_gen (B : Prop) (hB : B → PrefixCov cr body) (fuel : Nat) :
    ∀ (l : List HStep) (p : PieSt), CovInv cr p.store → AllSat cr p.store →
      ((∀ a ∈ historyAborts sem body fuel p l, B ∧ a = .taskPanic) →
        AllSat cr (l.foldl (runStep sem body fuel) p).store) ∧
      (∀ pre a post, historyAborts sem body fuel p l = pre ++ a :: post →
        (∀ b ∈ pre, B ∧ b = .taskPanic) → a.isViol = false) := by
  intro l
  induction l with
  | nil =>
    intro p _ hd
    refine ⟨fun _ => hd, ?_⟩
    intro pre a post h
    simp [historyAborts] at h
  | cons st l ih =>
    intro p hi hd
    have H := runStep_trans_gen sem hwf True B hB fuel p hi (fun _ => hd) st
    have ih' := ih (runStep sem body fuel p st) H.1
    constructor
    · intro hall
      simp only [historyAborts, List.mem_append] at hall
      have hd' := H.2.2 trivial (fun a ha => hall a (.inl ha))
      exact (ih' hd').1 (fun a ha => hall a (.inr ha))
    · intro pre a post heq hpre
      simp only [historyAborts] at heq
      rcases stepAborts_cases sem body fuel p st with hnil | ⟨x, hx⟩
      · rw [hnil, List.nil_append] at heq
        have hd' := H.2.2 trivial (by rw [hnil]; exact fun _ ha => nomatch ha)
        exact (ih' hd').2 pre a post heq hpre
      · rw [hx] at heq
        cases pre with
        | nil =>
          simp only [List.singleton_append, List.nil_append, List.cons.injEq] at heq
          obtain ⟨rfl, _⟩ := heq
          exact H.2.1 trivial x (by rw [hx]; exact List.mem_cons_self)
        | cons y pre' =>
          simp only [List.cons_append, List.cons.injEq] at heq
          obtain ⟨rfl, heq'⟩ := heq
          have hy := hpre x List.mem_cons_self
          have hd' := H.2.2 trivial (by
            rw [hx]; intro a ha; cases List.mem_singleton.mp ha; exact hy)
          exact (ih' hd').2 pre' a post heq' (fun b hb => hpre b (List.mem_cons_of_mem _ hb))


end PieModel.TransRoles
