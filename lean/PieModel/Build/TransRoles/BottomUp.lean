/-
Transitive roles, bottom-up build: for a program table that respects the roles-with-covers, the
scheduling functions, `buRequire`, `buMake`, `buExec`, `buExecAndSchedule`, `buRequireNow`,
`buRun`, `buExecuteScheduled`, `updateAffectedTasks`, `bottomUpBuild`
* preserve `SessWF` and `CovInv`, whatever the result and whatever happened before (`G := False`);
* started in a state where every unsaturated task node is on the executing stack (`G`), never
  abort with `cyclic` / `hidden` / `overlap`, and if they return, no task node is left
  unsaturated;
* under `B` (relay-prefix shape) no task node is left unsaturated after a task panic either.

A scheduled task executed inside a require of `u` lies in the cone of `u`'s node: the executing
task reaches it through the reserved edge, so the path argument applies.
-/
import PieModel.Build.TransRoles.TopDown
import PieModel.Build.RolesBottomUp

namespace PieModel.TransRoles

variable (sem : Sem) (body : Nat → Prog)
variable {cr : CRoles} {G B : Prop}

theorem scheduleAfterExec_oext {s : Sess} (h : SessWF s) (hi : CovInv cr s.store)
    (node t : Nat) (out : Int) (k : Nat) (ex : Option Nat) :
    OExt cr G k ex none s (scheduleAfterExec sem s node t out) :=
  ⟨⟨scheduleAfterExec_ext sem h node t out, (store_scheduleAfterExec sem s node t out) ▸ hi,
    (store_scheduleAfterExec sem s node t out) ▸ FrameBelow.refl _ _ _ _⟩,
    fun _ => (store_scheduleAfterExec sem s node t out) ▸ NoNewUnsatX.refl _ _⟩

theorem scheduleAffectedBy_oext {s : Sess} (h : SessWF s) (hi : CovInv cr s.store) (r : Nat)
    (k : Nat) (ex : Option Nat) : OExt cr G k ex none s (scheduleAffectedBy sem s r) :=
  ⟨⟨scheduleAffectedBy_ext sem h r, (store_scheduleAffectedBy sem s r) ▸ hi.getOrCreateResNode r,
    (store_scheduleAffectedBy sem s r) ▸
      FrameBelow.of_eq (Store.getEdgeData_getOrCreateResNode h.store r)⟩,
    fun _ => (store_scheduleAffectedBy sem s r) ▸ NoNewUnsatX.getOrCreateResNode h.store r⟩

variable (cr G B)

/-- The joint statement for fuel `f`. -/
structure BuTrans (f : Nat) : Prop where
  require : ∀ s t c, SessWF s → CovInv cr s.store → ReqPre cr.toRoles s t →
    (G → OpenOK cr s.store s.cur NoPend) →
    (G → B → ∀ cur t0, s.cur = some cur → s.store.taskOf cur = some t0 →
      Sat cr s.store cur ∨ ∀ w ∈ cr.cov t0, cr.covBy t w) →
    CovPost cr G B (cr.rank t) s.cur s (fun s' => B → CurSat cr s s') (fun s' _ => ReqAccT s t s')
      (buRequire sem body f s t c)
  make : ∀ s t d, SessWF s → CovInv cr s.store → s.store.taskOf d = some t → (G → CurPath s d) →
    (G → OpenOK cr s.store s.cur (· = d)) →
    CovPost cr G B (cr.rank t) none s (fun s' => Sat cr s'.store d)
      (fun s' _ => s'.store.taskOutput d ≠ none) (buMake sem body f s t d)
  exec : ∀ s t d, SessWF s → CovInv cr s.store → s.store.taskOf d = some t → (G → CurPath s d) →
    (G → OpenOK cr s.store s.cur (· = d)) →
    CovPost cr G B (cr.rank t) none s (fun s' => Sat cr s'.store d)
      (fun s' _ => s'.store.taskOutput d ≠ none) (buExec sem body f s t d)
  execAndSchedule : ∀ s d k, SessWF s → CovInv cr s.store →
    (∀ t, s.store.taskOf d = some t → k ≤ cr.rank t) → (G → CurPath s d) →
    (G → OpenOK cr s.store s.cur (· = d)) →
    CovPost cr G B k none s (fun s' => Sat cr s'.store d)
      (fun s' _ => s'.store.taskOutput d ≠ none) (buExecAndSchedule sem body f s d)
  requireNow : ∀ s src t, SessWF s → CovInv cr s.store → s.store.taskOf src = some t →
    (G → CurPath s src) → (G → OpenOK cr s.store s.cur NoPend) → Sat cr s.store src →
    CovPost cr G B (cr.rank t) none s (fun s' => Sat cr s'.store src)
      (fun s' o => ∀ v, o = some v → s'.store.taskOutput src ≠ none)
      (buRequireNow sem body f s src)
  run : ∀ s p cur t0 a, SessWF s → CovInv cr s.store → s.cur = some cur →
    s.store.taskOf cur = some t0 → StaticCovFrom cr t0 a p → AccOK s.store cur a →
    (G → OpenOK cr s.store (some cur) NoPend) →
    (G → B → Sat cr s.store cur ∨ FirstReq cr t0 p) →
    CovPost cr G B (cr.rank t0) none s (fun s' => B → Sat cr s'.store cur)
      (fun s' _ => ∀ u ∈ cr.cov t0, CovEdge cr s'.store cur u) (buRun sem body f s p)

theorem buTrans_zero : BuTrans sem body cr G B 0 := by
  refine ⟨?_, ?_, ?_, ?_, ?_, ?_⟩
  · intro s t c h hi _ _ _; unfold buRequire; exact CovPost.reflA h hi rfl (by simp)
  · intro s t d h hi _ _ _; unfold buMake; exact CovPost.reflA h hi rfl (by simp)
  · intro s t d h hi _ _ _; unfold buExec; exact CovPost.reflA h hi rfl (by simp)
  · intro s d k h hi _ _ _; unfold buExecAndSchedule; exact CovPost.reflA h hi rfl (by simp)
  · intro s d t h hi _ _ _ _; unfold buRequireNow; exact CovPost.reflA h hi rfl (by simp)
  · intro s p cur t0 a h hi _ _ _ _ _ _; unfold buRun; exact CovPost.reflA h hi rfl (by simp)

variable {sem body cr G B}

theorem buRequire_succ_trans {f : Nat} (ih : BuTrans sem body cr G B f) (s : Sess) (t c : Nat)
    (h : SessWF s) (hi : CovInv cr s.store) (hpre : ReqPre cr.toRoles s t)
    (ho : G → OpenOK cr s.store s.cur NoPend)
    (hb : G → B → ∀ cur t0, s.cur = some cur → s.store.taskOf cur = some t0 →
      Sat cr s.store cur ∨ ∀ w ∈ cr.cov t0, cr.covBy t w) :
    CovPost cr G B (cr.rank t) s.cur s (fun s' => B → CurSat cr s s') (fun s' _ => ReqAccT s t s')
      (buRequire sem body (f + 1) s t c) := by
  unfold buRequire; simp only []
  have e0 : OExt cr G (cr.rank t) s.cur
      (some ((s.emit (.requireStart t c)).store.getOrCreateTaskNode t).2) s
      (s.emit (.requireStart t c)) := (OExt.refl h hi).emit _
  have x1 := e0.wf.getTask t
  have i1 := e0.inv.getOrCreateTaskNode t
  have ed1 := Store.getEdgeData_getOrCreateTaskNode e0.wf.store t
  have n1 : NoNewUnsatX cr _ _ _ := NoNewUnsatX.getOrCreateTaskNode e0.wf.store t
  have e1 := e0.step x1 i1 (FrameBelow.of_eq ed1) n1
  have hd := Store.taskOf_getOrCreateTaskNode_self e0.wf.store t
  have hpre1 : ReqPre cr.toRoles
      { s.emit (.requireStart t c) with
        store := ((s.emit (.requireStart t c)).store.getOrCreateTaskNode t).1 } t := by
    intro cur hcur
    obtain ⟨t0, h1, h2⟩ := hpre cur hcur
    exact ⟨t0, x1.le.task _ _ h1, h2⟩
  obtain ⟨p2, k2⟩ := reserveRequire_trans (G := G) e1.wf i1 hd hpre1 (cr.rank t)
  have o1 : G → OpenOK cr ((s.emit (.requireStart t c)).store.getOrCreateTaskNode t).1 s.cur
      (· = ((s.emit (.requireStart t c)).store.getOrCreateTaskNode t).2) := by
    intro g
    refine ((ho g).step n1 (fun e c _ hr =>
      (Store.reach_getOrCreateTaskNode e0.wf.store t e c).mpr hr)).mono ?_
    intro e he
    rcases he with hx | hf
    · exact (Option.some.inj hx).symm
    · exact hf.elim
  split
  next s2 a heq => exact PrimOK.abortL e1.toTExt p2 heq
  next s2 heq =>
    obtain ⟨e2', ek2⟩ := p2.out heq
    have e2 := e1.trans e2'.weaken
    have c2 : s2.cur = s.cur := by
      have := cur_of_fst (cur_reserveRequire _ _) heq
      exact this
    have hd2 := e2'.ext.le.task _ _ hd
    have hedge : ∀ cur, s.cur = some cur → ∃ dep, s2.store.g.getEdgeData cur
        ((s.emit (.requireStart t c)).store.getOrCreateTaskNode t).2 = some dep :=
      fun cur hcur => reserveRequire_edge e1.wf (cur := cur) hcur heq
    have hcr2 : CurPath s2 ((s.emit (.requireStart t c)).store.getOrCreateTaskNode t).2 := by
      intro cur hcur
      rw [c2] at hcur
      obtain ⟨dep, hdep⟩ := hedge cur hcur
      exact e2.wf.store.reach_of_edge hdep
    have o2 : G → OpenOK cr s2.store s2.cur
        (· = ((s.emit (.requireStart t c)).store.getOrCreateTaskNode t).2) := by
      intro g
      rw [c2]; exact (o1 g).keep i1.wf e2'.wf.store (e2'.nno g) ek2
    have hsat2 : G → B → CurSat cr s s2 := by
      intro g b cur hcur
      obtain ⟨t0, ht0, _⟩ := hpre cur hcur
      have ht2 : s2.store.taskOf cur = some t0 := e2.ext.le.task _ _ ht0
      rcases hb g b cur t0 hcur ht0 with hs | hcov
      · have hs1 : Sat cr ((s.emit (.requireStart t c)).store.getOrCreateTaskNode t).1 cur :=
          hs.mono x1.le (by rw [ht0]; exact x1.le.task _ _ ht0)
            (fun b' dep hb' => ⟨dep, by rw [ed1]; exact hb'⟩)
        exact e2'.sat_keep ek2 (x1.le.task _ _ ht0) hs1
      · obtain ⟨dep, hdep⟩ := hedge cur hcur
        exact Sat.of_edge ht2 hd2 hdep hcov
    have pm := ih.make s2 t _ e2.wf e2.inv hd2 (fun _ => hcr2) o2
    have keepCur : ∀ {s3 : Sess}, TExt cr (cr.rank t) none s2 s3 → B → G → CurSat cr s s3 := by
      intro s3 e3 b g cur hcur
      obtain ⟨t0, ht0, hlt⟩ := hpre cur hcur
      exact (hsat2 g b cur hcur).frame e3 (e2.ext.le.task _ _ ht0) hlt
    split
    next s3 a heq3 =>
      refine CovPost.abortLX e2 pm.add heq3 ?_ ?_
      · intro d' hd' _ _ hp; cases hd'; exact hp
      · intro g b _ _ _; exact keepCur (pm.outA heq3) b g
    next s3 out heq3 =>
      obtain ⟨e3', hout3, hsat3⟩ := pm.outOk heq3
      have e3 := (e2.trans e3'.add.weaken).emit (.requireEnd t c (sem.ostamp c out) out)
      have c3 : s3.cur = s2.cur := cur_buMake sem body heq3
      have hd3 := e3'.ext.le.task _ _ hd2
      obtain ⟨p4, k4⟩ := updateRequire_trans (cr := cr) (G := G) e3.wf e3.inv c (sem.ostamp c out)
        (dst := ((s.emit (.requireStart t c)).store.getOrCreateTaskNode t).2) (t := t) hd3
        (cr.rank t)
      have hcur3 : (s3.emit (.requireEnd t c (sem.ostamp c out) out)).cur = s.cur := by
        show s3.cur = s.cur
        rw [c3, c2]
      rw [hcur3] at p4
      split
      next s4 a heq4 => exact PrimOK.abortL e3.toTExt p4 heq4
      next s4 heq4 =>
        obtain ⟨e4', ek4⟩ := p4.out heq4
        have hsat4 : G → Sat cr s4.store
            ((s.emit (.requireStart t c)).store.getOrCreateTaskNode t).2 :=
          fun g => e4'.sat_keep ek4 hd3 (hsat3 g)
        refine CovPost.mkOk (((e3.trans e4'.weaken).close hsat4).markConsistent _) ?_ ?_
        · intro cur a hcur ha
          obtain ⟨t0, ht0, hlt⟩ := hpre cur hcur
          have a1 : AccOK ((s.emit (.requireStart t c)).store.getOrCreateTaskNode t).1 cur a :=
            ha.of_eq x1.le (ed1 cur)
          obtain ⟨a2, _⟩ := k2.out heq (cur := cur) hcur a1
          have ht2 : s2.store.taskOf cur = some t0 := e2'.ext.le.task _ _ (x1.le.task _ _ ht0)
          have a3 : AccOK s3.store cur a :=
            a2.of_eq e3'.ext.le (e3'.frame cur t0 ht2 hlt (fun hh => nomatch hh))
          obtain ⟨a4, dep, hdep⟩ := k4.out heq4 (cur := cur) (hcur3.trans hcur) a3
          have hd4 := e4'.ext.le.task _ _ hd3
          have := a4.consReq hd4 hdep
          simpa using this
        · intro g b cur hcur
          obtain ⟨t0, ht0, _⟩ := hpre cur hcur
          simp only [Sess.store_markConsistent]
          exact e4'.sat_keep ek4 (e3.ext.le.task _ _ ht0) (keepCur e3'.toTExt b g cur hcur)

theorem buMake_succ_trans {f : Nat} (ih : BuTrans sem body cr G B f) (s : Sess) (t d : Nat)
    (h : SessWF s) (hi : CovInv cr s.store) (hd : s.store.taskOf d = some t)
    (hcr : G → CurPath s d) (ho : G → OpenOK cr s.store s.cur (· = d)) :
    CovPost cr G B (cr.rank t) none s (fun s' => Sat cr s'.store d)
      (fun s' _ => s'.store.taskOutput d ≠ none) (buMake sem body (f + 1) s t d) := by
  unfold buMake
  split
  · split
    next o hout =>
      exact CovPost.mkOk (OExt.refl h hi) (by rw [hout]; simp)
        (fun _ => hi.sat_of_output (by rw [hout]; simp))
    · exact CovPost.reflA h hi rfl (by simp)
  · split
    · exact ih.exec s t d h hi hd hcr ho
    next o0 hout0 =>
      have hsat : Sat cr s.store d := hi.sat_of_output (by rw [hout0]; simp)
      have o0 : G → OpenOK cr s.store s.cur NoPend :=
        fun g => (ho g).drop (fun e he => by rw [he]; exact hsat)
      have pn := ih.requireNow s d t h hi hd hcr o0 hsat
      split
      next s2 a heq => exact pn.abort heq
      next s2 o heq =>
        obtain ⟨e2, hout, hs2⟩ := pn.outOk heq
        exact CovPost.mkOk e2 (hout o rfl) hs2
      next s2 heq =>
        obtain ⟨e2, _, hs2⟩ := pn.outOk heq
        split
        next o hout => exact CovPost.mkOk e2 (by rw [hout]; simp) hs2
        · exact CovPost.mkAbort e2 rfl (fun _ _ hh => nomatch hh)

theorem buExec_succ_trans (hwf : WellFormedCov cr body) (hB : B → PrefixCov cr body) {f : Nat}
    (ih : BuTrans sem body cr G B f)
    (s : Sess) (t d : Nat) (h : SessWF s) (hi : CovInv cr s.store)
    (hd : s.store.taskOf d = some t) (hcr : G → CurPath s d)
    (ho : G → OpenOK cr s.store s.cur (· = d)) :
    CovPost cr G B (cr.rank t) none s (fun s' => Sat cr s'.store d)
      (fun s' _ => s'.store.taskOutput d ≠ none) (buExec sem body (f + 1) s t d) := by
  unfold buExec; simp only []
  have x3 := (h.startExec hd).emit (.executeStart t)
  have i3 := hi.resetTask d
  have f3 : FrameBelow cr.toRoles (cr.rank t) none s.store (s.store.resetTask d) :=
    (FrameBelow.of_ne (fun a ha b => by
      rw [Store.getEdgeData_resetTask h.store, if_neg ha])).drop hd (Nat.le_refl _)
  have n3 : NoNewUnsatX cr _ _ _ := NoNewUnsatX.resetTask h.store d
  have e3 : OExt cr G (cr.rank t) none (some d) s _ := ⟨⟨x3, i3, f3⟩, fun _ => n3⟩
  have a3 := AccOK.start h.store d
  have hd3 := x3.le.task _ _ hd
  have o3 : G → OpenOK cr (s.store.resetTask d) (some d) NoPend := by
    intro g e t' ht'
    by_cases hed : e = d
    · exact .inr (.inr ⟨d, rfl, .inl hed⟩)
    · have ht2 : s.store.taskOf e = some t' := by
        rw [Store.taskOf_resetTask h.store] at ht'; exact ht'
      rcases ho g e t' ht2 with hs | hp | ⟨c, hc, hec⟩
      · left
        exact hs.mono (Store.le_resetTask h.store d) (Store.taskOf_resetTask h.store d e)
          (fun b dep hb => ⟨dep, by
            rw [Store.getEdgeData_resetTask h.store, if_neg hed]; exact hb⟩)
      · exact absurd hp hed
      · have hr : s.store.g.Reach e d := by
          rcases hec with rfl | hec
          · exact hcr g _ hc
          · exact hec.trans (hcr g c hc)
        exact .inr (.inr ⟨d, rfl, .inr (Store.reach_resetTask_of h.store d hr hed
          (hi.not_reach_self hd))⟩)
  have pr := ih.run _ (body t) d t {} e3.wf i3 rfl hd3 (hwf.body t) a3 o3
    (fun _ b => .inr (hB b t))
  split
  next s4 a heq4 =>
    refine CovPost.abortLX e3 pr heq4 ?_ ?_
    · intro d' hd' _ b hp; cases hd'; exact hp b
    · intro _ b _ hp; exact hp b
  next s4 o heq4 =>
    obtain ⟨e4', hcov, _⟩ := pr.outOk heq4
    have e4 := e3.trans e4'.weaken
    have hd4 := e4'.ext.le.task _ _ hd3
    have x5 := ((x3.trans e4'.ext).emit (.executeEnd t o)).endExec h d o
    have hout5 : (s4.store.setTaskOutput d o).taskOutput d ≠ none := by
      rw [Store.taskOutput_setTaskOutput_self hd4]; simp
    have i5 := e4.inv.setTaskOutput o hd4 hcov
    have hsat5 : Sat cr (s4.store.setTaskOutput d o) d := i5.sat_of_output hout5
    refine CovPost.mkOk ⟨⟨x5, i5, ?_⟩, ?_⟩ hout5 (fun _ => hsat5)
    · exact e4.frame.trans e4.ext.le (FrameBelow.of_eq (by simp))
    · exact fun g => ((e4.nno g).trans (NoNewUnsatX.setTaskOutput d o)).close hsat5

theorem buExecAndSchedule_succ_trans {f : Nat} (ih : BuTrans sem body cr G B f) (s : Sess)
    (d k : Nat) (h : SessWF s) (hi : CovInv cr s.store)
    (hk : ∀ t, s.store.taskOf d = some t → k ≤ cr.rank t) (hcr : G → CurPath s d)
    (ho : G → OpenOK cr s.store s.cur (· = d)) :
    CovPost cr G B k none s (fun s' => Sat cr s'.store d)
      (fun s' _ => s'.store.taskOutput d ≠ none) (buExecAndSchedule sem body (f + 1) s d) := by
  unfold buExecAndSchedule
  split
  · exact CovPost.reflA h hi rfl (by simp)
  next t ht =>
    have pe := (ih.exec s t d h hi ht hcr ho).mono (hk t ht)
    split
    next s2 a heq => exact pe.abort heq
    next s2 o heq =>
      obtain ⟨e2, hout, hs2⟩ := pe.outOk heq
      refine CovPost.mkOk (e2.trans (scheduleAfterExec_oext sem e2.wf e2.inv d t o k none)) ?_ ?_
      · rw [store_scheduleAfterExec]; exact hout
      · intro g; rw [store_scheduleAfterExec]; exact hs2 g

theorem buRequireNow_succ_trans {f : Nat} (ih : BuTrans sem body cr G B f) (s : Sess)
    (src t : Nat) (h : SessWF s) (hi : CovInv cr s.store) (ht : s.store.taskOf src = some t)
    (hcr : G → CurPath s src) (ho : G → OpenOK cr s.store s.cur NoPend)
    (hs : Sat cr s.store src) :
    CovPost cr G B (cr.rank t) none s (fun s' => Sat cr s'.store src)
      (fun s' o => ∀ v, o = some v → s'.store.taskOutput src ≠ none)
      (buRequireNow sem body (f + 1) s src) := by
  unfold buRequireNow
  split
  · exact CovPost.mkOk (OExt.refl h hi) (fun v hv => nomatch hv) (fun _ => hs)
  · split
    · exact CovPost.mkOk (OExt.refl h hi) (fun v hv => nomatch hv) (fun _ => hs)
    next m q hq =>
      have x1 := h.subQueue (fun _ hm => queuePopLeastFrom_rest_subset hq hm)
      have e1 : OExt cr G (cr.rank t) none none s { s with queue := q } :=
        ⟨⟨x1, hi, FrameBelow.refl _ _ _ _⟩, fun _ => NoNewUnsatX.refl _ _⟩
      obtain ⟨_, _, _, _, hcone, _⟩ := queuePopLeastFrom_eq_some hq
      have hcone' : m = src ∨ s.store.g.Reach src m := by
        rcases inCone_iff.mp hcone with rfl | hct
        · exact .inl rfl
        · exact .inr ((hi.wf.containsTransitive_iff src m).mp hct)
      have hrank : ∀ t', s.store.taskOf m = some t' → cr.rank t ≤ cr.rank t' := by
        intro t' ht'
        rcases hcone' with rfl | hreach
        · rw [ht] at ht'; cases ht'; exact Nat.le_refl _
        · exact Nat.le_of_lt (hi.reach_rank hreach ht ht')
      have hcrm : G → CurPath { s with queue := q } m := by
        intro g c hc
        have := hcr g c hc
        rcases hcone' with rfl | hreach
        · exact this
        · exact this.trans hreach
      have hk : G → ∀ c tc, s.cur = some c → s.store.taskOf c = some tc →
          cr.rank tc ≤ cr.rank t :=
        fun g c tc hc htc => Nat.le_of_lt ((hcr g).rank_lt hi ht hc htc)
      have om : G → OpenOK cr s.store s.cur (· = m) := fun g => (ho g).mono (fun _ hf => hf.elim)
      have pe := ih.execAndSchedule { s with queue := q } m (cr.rank t) e1.wf hi hrank hcrm om
      -- if `m` is not `src`, the edges of `src` are below the frame of the execution of `m`
      have keepSrc : m ≠ src → Sat cr (buExecAndSchedule sem body f { s with queue := q } m).1.store
          src := by
        intro hne
        have hrank' : ∀ t', s.store.taskOf m = some t' → cr.rank t + 1 ≤ cr.rank t' := by
          intro t' ht'
          rcases hcone' with rfl | hreach
          · exact absurd rfl hne
          · exact hi.reach_rank hreach ht ht'
        have pe' := ih.execAndSchedule { s with queue := q } m (cr.rank t + 1) e1.wf hi hrank'
          hcrm om
        exact Sat.frame (s := { s with queue := q }) hs pe'.rext ht (Nat.lt_succ_self _)
      split
      next s2 a heq =>
        refine CovPost.abortL e1 pe heq ?_
        intro _ _ _ hp
        by_cases hm : m = src
        · rw [← hm]; exact hp
        · have := keepSrc hm; rw [heq] at this; exact this
      next s2 o heq =>
        obtain ⟨e2', hout, hsm⟩ := pe.outOk heq
        have e2 := e1.trans e2'
        have c2 : s2.cur = s.cur := by
          have := (bu_cur sem body f).2.2.2.1 _ _ _ _ heq
          exact this
        split
        next hm =>
          exact CovPost.mkOk e2 (fun v _ => by rw [← hm]; exact hout)
            (fun g => by rw [← hm]; exact hsm g)
        next hm =>
          have hs2 : Sat cr s2.store src := by have := keepSrc hm; rw [heq] at this; exact this
          exact CovPost.left e2 (ih.requireNow s2 src t e2.wf e2.inv (e2.ext.le.task _ _ ht)
            (fun g => (hcr g).after hi e2 ht (Nat.le_refl _) c2)
            (fun g => (ho g).afterCall h hi e2 g (hk g) c2) hs2)
            (fun _ _ hp => hp) (fun _ _ hp => hp)

theorem buRun_succ_trans (hr : CovRank cr) {f : Nat} (ih : BuTrans sem body cr G B f) (s : Sess)
    (p : Prog) (cur t0 : Nat) (a : Acc) (h : SessWF s) (hi : CovInv cr s.store)
    (hc : s.cur = some cur) (ht : s.store.taskOf cur = some t0) (hp : StaticCovFrom cr t0 a p)
    (ha : AccOK s.store cur a) (ho : G → OpenOK cr s.store (some cur) NoPend)
    (hb : G → B → Sat cr s.store cur ∨ FirstReq cr t0 p) :
    CovPost cr G B (cr.rank t0) none s (fun s' => B → Sat cr s'.store cur)
      (fun s' _ => ∀ u ∈ cr.cov t0, CovEdge cr s'.store cur u) (buRun sem body (f + 1) s p) := by
  have hk : ∀ c tc, s.cur = some c → s.store.taskOf c = some tc → cr.rank tc ≤ cr.rank t0 := by
    intro c tc hc' htc
    rw [hc] at hc'; cases hc'
    rw [ht] at htc; cases htc
    exact Nat.le_refl _
  have ho' : G → OpenOK cr s.store s.cur NoPend := by rw [hc]; exact ho
  have hsat : (∀ u c k, p ≠ .req u c k) → G → B → Sat cr s.store cur := by
    intro hnr g b
    rcases hb g b with hs | hfr
    · exact hs
    · exact sat_of_firstReq hfr hnr ht
  cases p with
  | ret v =>
    unfold buRun
    exact CovPost.mkOk (OExt.refl h hi) (fun u hu => covEdge_of_acc ha (hp u hu))
      (fun g b => hsat (fun _ _ _ hh => nomatch hh) g b)
  | panic =>
    unfold buRun
    exact CovPost.mkAbort (OExt.refl h hi) rfl
      (fun g b _ _ => hsat (fun _ _ _ hh => nomatch hh) g b)
  | req u c k =>
    unfold buRun
    obtain ⟨hlt, hk'⟩ := hp
    have hpre : ReqPre cr.toRoles s u := fun cur' hc' => by
      rw [hc] at hc'; cases hc'; exact ⟨t0, ht, hlt⟩
    have pq := ih.require s u c h hi hpre ho' (by
      intro g b cur' t0' hc' ht'
      rw [hc] at hc'; cases hc'
      rw [ht] at ht'; cases ht'
      rcases hb g b with hs | hfr
      · exact .inl hs
      · exact .inr hfr.of_req)
    rw [hc] at pq
    have pq' := (pq.mono (Nat.le_of_lt hlt)).drop ht (Nat.le_refl _)
    split
    next s2 a' heq =>
      exact CovPost.abortL (OExt.refl h hi) pq' heq (fun _ _ _ hq b => hq b cur hc)
    next s2 out heq =>
      obtain ⟨e2, ka, hs2⟩ := pq'.outOk heq
      have c2 := cur_buRequire sem body heq
      have a2 : AccOK s2.store cur { a with req := u :: a.req } := ka cur a hc ha
      have o2 : G → OpenOK cr s2.store (some cur) NoPend := by
        intro g
        have := (ho' g).afterCall h hi e2 g hk c2
        rwa [c2, hc] at this
      exact CovPost.left e2 (ih.run s2 (k out) cur t0 _ e2.wf e2.inv (c2.trans hc)
        (e2.ext.le.task _ _ ht) (hk' out) a2 o2 (fun g b => .inl (hs2 g b cur hc)))
        (fun _ _ hq => hq) (fun _ _ hq => hq)
  | read r c k =>
    unfold buRun
    obtain ⟨_, hcov, hk'⟩ := hp
    obtain ⟨pr, ar⟩ := doRead_trans (G := G) sem h hi hr hc ht ha ho r c hcov (cr.rank t0)
    have pr' := pr.drop ht (Nat.le_refl _)
    have or := fun g => pr'.openOK h g (ho g)
    have sr := fun g b => pr'.sat ht (hsat (fun _ _ _ hh => nomatch hh) g b)
    split
    next s2 a' heq => exact PrimOK.abortL (TExt.refl h hi) pr' heq
    next s2 x heq =>
      obtain ⟨e2, _⟩ := pr'.out heq
      have c2 : s2.cur = s.cur := cur_of_fst (cur_doRead sem s r c) heq
      rw [heq] at ar
      simp only [heq] at or sr
      exact CovPost.left e2 (ih.run s2 (k x) cur t0 a e2.wf e2.inv (c2.trans hc)
        (e2.ext.le.task _ _ ht) (hk' x) ar or (fun g b => .inl (sr g b)))
        (fun _ _ hq => hq) (fun _ _ hq => hq)
  | write r c v k =>
    unfold buRun
    obtain ⟨hg, hnw, hk'⟩ := hp
    obtain ⟨pr, ar⟩ := doWrite_trans (G := G) sem h hi hr hc ht ha ho r c v hg hnw (cr.rank t0)
    have pr' := pr.drop ht (Nat.le_refl _)
    have or := fun g => pr'.openOK h g (ho g)
    have sr := fun g b => pr'.sat ht (hsat (fun _ _ _ hh => nomatch hh) g b)
    split
    next s2 a' heq => exact PrimOK.abortL (TExt.refl h hi) pr' heq
    next s2 x heq =>
      obtain ⟨e2, _⟩ := pr'.out heq
      have c2 : s2.cur = s.cur := cur_of_fst (cur_doWrite sem s r c v) heq
      rw [heq] at ar
      simp only [heq] at or sr
      exact CovPost.left e2 (ih.run s2 (k x) cur t0 _ e2.wf e2.inv (c2.trans hc)
        (e2.ext.le.task _ _ ht) (hk' x) ar or (fun g b => .inl (sr g b)))
        (fun _ _ hq => hq) (fun _ _ hq => hq)
  | wrote r c v k =>
    unfold buRun
    obtain ⟨hg, hnw, hk'⟩ := hp
    obtain ⟨pr, ar⟩ := doWrote_trans (G := G) sem h hi hr hc ht ha ho r c v hg hnw (cr.rank t0)
    have pr' := pr.drop ht (Nat.le_refl _)
    have or := fun g => pr'.openOK h g (ho g)
    have sr := fun g b => pr'.sat ht (hsat (fun _ _ _ hh => nomatch hh) g b)
    split
    next s2 a' heq => exact PrimOK.abortL (TExt.refl h hi) pr' heq
    next s2 x heq =>
      obtain ⟨e2, _⟩ := pr'.out heq
      have c2 : s2.cur = s.cur := cur_of_fst (cur_doWrote sem s r c v) heq
      rw [heq] at ar
      simp only [heq] at or sr
      exact CovPost.left e2 (ih.run s2 (k x) cur t0 _ e2.wf e2.inv (c2.trans hc)
        (e2.ext.le.task _ _ ht) (hk' x) ar or (fun g b => .inl (sr g b)))
        (fun _ _ hq => hq) (fun _ _ hq => hq)

theorem buTrans (hwf : WellFormedCov cr body) (hB : B → PrefixCov cr body) (f : Nat) :
    BuTrans sem body cr G B f := by
  induction f with
  | zero => exact buTrans_zero sem body cr G B
  | succ f ih =>
    exact ⟨buRequire_succ_trans ih, buMake_succ_trans ih, buExec_succ_trans hwf hB ih,
      buExecAndSchedule_succ_trans ih, buRequireNow_succ_trans ih, buRun_succ_trans hwf.rank ih⟩

/-! ### builds -/

theorem buExecuteScheduled_trans (hwf : WellFormedCov cr body) (hB : B → PrefixCov cr body)
    (f : Nat) :
    ∀ {s : Sess}, SessWF s → CovInv cr s.store → s.cur = none → (G → AllSat cr s.store) →
      TTop cr G B s (buExecuteScheduled sem body f s) := by
  induction f with
  | zero =>
    intro s h hi _ _; unfold buExecuteScheduled; exact CovPost.reflA h hi rfl (by simp)
  | succ f ih =>
    intro s h hi hcn hd
    unfold buExecuteScheduled
    split
    · exact CovPost.mkOk (OExt.refl h hi) trivial (fun _ => trivial)
    next n q hq =>
      have x1 := h.subQueue (fun _ hm => queuePop_rest_subset hq hm)
      have e1 : OExt cr G 0 none none s { s with queue := q } :=
        ⟨⟨x1, hi, FrameBelow.refl _ _ _ _⟩, fun _ => NoNewUnsatX.refl _ _⟩
      have hcr : G → CurPath { s with queue := q } n := by
        intro _ c hc
        have : s.cur = some c := hc
        rw [hcn] at this; cases this
      have ho : G → OpenOK cr s.store s.cur (· = n) := by
        intro g
        rw [hcn]; exact (allSat_iff.mp (hd g)).mono (fun _ hf => hf.elim)
      have pe := (buTrans (G := G) (sem := sem) hwf hB f).execAndSchedule { s with queue := q } n 0
        e1.wf hi (fun _ _ => Nat.zero_le _) hcr ho
      split
      next s2 a heq => exact CovPost.abortL e1 pe heq (fun _ _ _ _ => trivial)
      next s2 o heq =>
        obtain ⟨e2', _, _⟩ := pe.outOk heq
        have e2 := e1.trans e2'
        have c2 : s2.cur = s.cur := by
          have := (bu_cur sem body f).2.2.2.1 _ _ _ _ heq
          exact this
        exact CovPost.left e2 (ih e2.wf e2.inv (c2.trans hcn) (fun g => (hd g).after (e2.nno g)))
          (fun _ _ hp => hp) (fun _ _ hp => hp)

theorem updateAffectedTasks_trans (hwf : WellFormedCov cr body) (hB : B → PrefixCov cr body)
    (f : Nat) {s : Sess} (h : SessWF s) (hi : CovInv cr s.store) (hd : G → AllSat cr s.store) :
    TTop cr G B s (updateAffectedTasks sem body f s) := by
  unfold updateAffectedTasks; simp only []
  have e0 : OExt cr G 0 none none s ({ s with cur := none }.emit .buildStart) :=
    ⟨⟨h.clearCur.emit .buildStart, hi, FrameBelow.refl _ _ _ _⟩, fun _ => NoNewUnsatX.refl _ _⟩
  have pq := buExecuteScheduled_trans (G := G) (sem := sem) hwf hB f e0.wf e0.inv rfl hd
  split
  next s2 a heq => exact CovPost.abortL e0 pq heq (fun _ _ _ _ => trivial)
  next s2 heq =>
    exact CovPost.mkOk ((e0.trans (pq.outOk heq).1).emit .buildEnd) trivial (fun _ => trivial)

theorem foldl_oext {β : Type} {k : Nat} {ex : Option Nat} (F : Sess → β → Sess)
    (hF : ∀ s b, SessWF s → CovInv cr s.store → OExt cr G k ex none s (F s b)) (l : List β) :
    ∀ s, SessWF s → CovInv cr s.store → OExt cr G k ex none s (l.foldl F s) := by
  induction l with
  | nil => intro s h hi; exact OExt.refl h hi
  | cons b l ih =>
    intro s h hi
    have e1 := hF s b h hi
    exact e1.trans (ih _ e1.wf e1.inv)

theorem bottomUpBuild_trans (hwf : WellFormedCov cr body) (hB : B → PrefixCov cr body) (f : Nat)
    {s : Sess} (h : SessWF s) (hi : CovInv cr s.store) (hd : G → AllSat cr s.store)
    (changed : List Nat) : TTop cr G B s (bottomUpBuild sem body f s changed) := by
  unfold bottomUpBuild; simp only []
  have e0 : OExt cr G 0 none none s { s with queue := [] } :=
    ⟨⟨h.subQueue (fun _ hm => by cases hm), hi, FrameBelow.refl _ _ _ _⟩,
      fun _ => NoNewUnsatX.refl _ _⟩
  have e1 := e0.trans (foldl_oext _
    (fun s r hs his => scheduleAffectedBy_oext sem hs his r 0 none) changed _ e0.wf e0.inv)
  exact CovPost.left e1 (updateAffectedTasks_trans hwf hB f e1.wf e1.inv
    (fun g => (hd g).after (e1.nno g))) (fun _ _ hp => hp) (fun _ _ hp => hp)

end PieModel.TransRoles
