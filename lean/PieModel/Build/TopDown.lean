/-
Model of `pie/src/context/top_down.rs`: `TopDownContext::{require, make_task_consistent,
check_task}`, `TopDownCheckObj::is_consistent`, and the interpretation of a task body under
the top-down context.  One mutual block, structural recursion on `fuel`; every function
returns the session state also when the build aborts (a Rust panic unwinds and leaves `Pie`
as it is at that point).

`tdCheck` models the *repaired* `check_task` (defect F4): a task without cached output is
inconsistent and its (partial) dependency list is not looked at.
-/
import PieModel.Build.Session

namespace PieModel

variable (sem : Sem) (body : Nat → Prog)

mutual

/-- `Context::require` of `TopDownContext` -/
def tdRequire : Nat → Sess → Nat → Nat → Sess × Res Int
  | 0, s, _, _ => (s, .abort .outOfFuel)
  | f + 1, s, t, c =>
    let s := s.emit (.requireStart t c)
    let (st, dst) := s.store.getOrCreateTaskNode t
    let s := { s with store := st }
    match reserveRequire s dst with
    | (s, .abort a) => (s, .abort a)
    | (s, .ok ()) =>
      match tdMake f s t with
      | (s, .abort a) => (s, .abort a)
      | (s, .ok out) =>
        let stamp := sem.ostamp c out
        let s := s.emit (.requireEnd t c stamp out)
        match updateRequire s dst t c stamp with
        | (s, .abort a) => (s, .abort a)
        | (s, .ok ()) => (s, .ok out)

/-- `TopDownContext::make_task_consistent` -/
def tdMake : Nat → Sess → Nat → Sess × Res Int
  | 0, s, _ => (s, .abort .outOfFuel)
  | f + 1, s, t =>
    let (st, node) := s.store.getOrCreateTaskNode t
    let s := { s with store := st }
    if node ∈ s.consistent then
      match s.store.taskOutput node with
      | some o => (s, .ok o)
      | none => (s, .abort (.bug 10))
    else
      match tdCheck f s node with
      | (s, .abort a) => (s, .abort a)
      | (s, .ok (some o)) => (s.markConsistent node, .ok o)
      | (s, .ok none) =>
        let s := { s with store := s.store.resetTask node }
        let prev := s.cur
        let s := { s with cur := some node }
        let s := s.emit (.executeStart t)
        match tdRun f s (body t) with
        | (s, .abort a) => (s, .abort a)
        | (s, .ok o) =>
          let s := s.emit (.executeEnd t o)
          let s := { s with cur := prev }
          let s := { s with store := s.store.setTaskOutput node o }
          (s.markConsistent node, .ok o)

/-- `TopDownContext::check_task` (repaired, F4): `ok none` = inconsistent, must execute. -/
def tdCheck : Nat → Sess → Nat → Sess × Res (Option Int)
  | 0, s, _ => (s, .abort .outOfFuel)
  | f + 1, s, node =>
    match s.store.taskOutput node with
    | none => (s, .ok none)
    | some _ =>
      match tdCheckDeps f s (s.store.depsFrom node) with
      | (s, .abort a) => (s, .abort a)
      | (s, .ok false) => (s, .ok none)
      | (s, .ok true) => (s, .ok (s.store.taskOutput node))

/-- The loop of `check_task` over the snapshot of the dependencies: `ok true` = all consistent. -/
def tdCheckDeps : Nat → Sess → List Dep → Sess × Res Bool
  | 0, s, _ => (s, .abort .outOfFuel)
  | _ + 1, s, [] => (s, .ok true)
  | f + 1, s, d :: ds =>
    match d with
    | .reserved => (s, .abort (.bug 11))
    | .require t c stamp =>                          -- TopDownCheckObj::is_consistent
      let s := s.emit (.checkTaskStart t c stamp)
      match tdMake f s t with
      | (s, .abort a) => (s, .abort a)
      | (s, .ok out) =>
        let ok := sem.ocheck c out stamp
        let s := s.emit (.checkTaskEnd t c stamp ok)
        if ok then tdCheckDeps f s ds else (s, .ok false)
    | .read r c stamp | .write r c stamp =>          -- is_consistent_top_down
      let s := s.emit (.checkResStart r c stamp)
      let res := checkResDep sem s r c stamp
      let s := s.emit (.checkResEnd r c stamp res)
      match res with
      | .ok true => tdCheckDeps f s ds
      | .ok false => (s, .ok false)
      | .error e => ({ s with errors := s.errors ++ [e] }, .ok false)

/-- `Task::execute` with a `TopDownContext`. -/
def tdRun : Nat → Sess → Prog → Sess × Res Int
  | 0, s, _ => (s, .abort .outOfFuel)
  | _ + 1, s, .ret v => (s, .ok v)
  | _ + 1, s, .panic => (s, .abort .taskPanic)
  | f + 1, s, .req t c k =>
    match tdRequire f s t c with
    | (s, .abort a) => (s, .abort a)
    | (s, .ok out) => tdRun f s (k out)
  | f + 1, s, .read r c k =>
    match doRead sem s r c with
    | (s, .abort a) => (s, .abort a)
    | (s, .ok x) => tdRun f s (k x)
  | f + 1, s, .write r c v k =>
    match doWrite sem s r c v with
    | (s, .abort a) => (s, .abort a)
    | (s, .ok x) => tdRun f s (k x)
  | f + 1, s, .wrote r c v k =>
    match doWrote sem s r c v with
    | (s, .abort a) => (s, .abort a)
    | (s, .ok x) => tdRun f s (k x)

end

/-- The checker id used by `Session::require` for the root (`AlwaysConsistent`). -/
def alwaysChecker : Nat := 4

/-- `Session::require` -/
def sessionRequire (fuel : Nat) (s : Sess) (t : Nat) : Sess × Res Int :=
  let s := { s with cur := none }
  let s := s.emit .buildStart
  match tdRequire sem body fuel s t alwaysChecker with
  | (s, .abort a) => (s, .abort a)
  | (s, .ok o) => (s.emit .buildEnd, .ok o)

end PieModel
