/-
The bottom-up `Queue` as a pure data structure (properties C04 and C16, helper lemmas).

Edges of the dependency graph go from a task to what it depends on, and every edge goes upward
in rank (`Dag.Inv.upward`), so the dependencies of a task have *higher* rank.  `queuePop`
removes the queued node of greatest rank, `queuePopLeastFrom st q src` the queued node of
greatest rank inside the cone `{src} ∪ {m | src ↝ m}`.  Hence a popped node never has a queued
(transitive) dependency.  The sorted queue is a function of the *set* of queued nodes.
-/
import PieModel.Build.BottomUp
import PieModel.Graph.SortPerm

namespace PieModel

/-! ### `queueAdd` -/

theorem mem_queueAdd {q : List Nat} {n m : Nat} : m ∈ queueAdd q n ↔ m ∈ q ∨ m = n := by
  unfold queueAdd
  split
  · rename_i h
    constructor
    · exact Or.inl
    · rintro (h' | rfl)
      · exact h'
      · exact h
  · simp

theorem queueAdd_nodup {q : List Nat} {n : Nat} (h : q.Nodup) : (queueAdd q n).Nodup := by
  unfold queueAdd
  split
  · exact h
  · rename_i hn
    rw [List.nodup_append]
    refine ⟨h, by simp, ?_⟩
    intro a ha b hb
    simp only [List.mem_singleton] at hb
    subst hb
    intro e
    subst e
    exact hn ha

/-! ### `queueSort` -/

theorem queueSort_perm (st : Store) (q : List Nat) : (queueSort st q).Perm q := isortBy_perm _ _

theorem mem_queueSort {st : Store} {q : List Nat} {m : Nat} : m ∈ queueSort st q ↔ m ∈ q :=
  (queueSort_perm st q).mem_iff

theorem queueSort_sorted (st : Store) (q : List Nat) :
    (queueSort st q).Pairwise (fun a b => st.g.topoOf a ≤ st.g.topoOf b) := isortBy_sorted _ _

theorem queueSort_length (st : Store) (q : List Nat) : (queueSort st q).length = q.length :=
  (queueSort_perm st q).length_eq

theorem queueSort_eq_nil {st : Store} {q : List Nat} : queueSort st q = [] ↔ q = [] := by
  rw [← List.length_eq_zero_iff, queueSort_length, List.length_eq_zero_iff]

/-- The sorted queue depends only on the multiset of queued (live) nodes. -/
theorem queueSort_perm_invariant {st : Store} (h : st.g.WF) {q q' : List Nat} (hp : q.Perm q')
    (hl : ∀ n ∈ q, st.g.containsNode n = true) : queueSort st q = queueSort st q' :=
  isortBy_perm_of_injOn _ hp (h.topo_injOn hl)

/-- Sorting is idempotent: a sorted queue stays as it is. -/
theorem queueSort_idem {st : Store} (h : st.g.WF) {q : List Nat}
    (hl : ∀ n ∈ q, st.g.containsNode n = true) : queueSort st (queueSort st q) = queueSort st q :=
  (queueSort_perm_invariant h (queueSort_perm st q).symm hl).symm

/-- With live duplicate-free entries the sorted queue is strictly increasing in rank. -/
theorem queueSort_strict {st : Store} (h : st.g.WF) {q : List Nat} (hn : q.Nodup)
    (hl : ∀ n ∈ q, st.g.containsNode n = true) :
    (queueSort st q).Pairwise (fun a b => st.g.topoOf a < st.g.topoOf b) :=
  isortBy_strict_of_injOn _ hn (h.topo_injOn hl)

/-! ### `queuePop` -/

theorem queuePop_eq_some {st : Store} {q q' : List Nat} {n : Nat}
    (h : queuePop st q = some (n, q')) : queueSort st q = q' ++ [n] := by
  unfold queuePop at h
  simp only at h
  split at h
  · cases h
  · rename_i m hm
    cases h
    obtain ⟨ys, hys⟩ := List.getLast?_eq_some_iff.mp hm
    rw [hys, List.dropLast_concat]

theorem queuePop_of_sort_eq {st : Store} {q q' : List Nat} {n : Nat}
    (h : queueSort st q = q' ++ [n]) : queuePop st q = some (n, q') := by
  unfold queuePop
  simp only [h, List.getLast?_append, List.getLast?_singleton, List.dropLast_concat]
  rfl

theorem queuePop_eq_none {st : Store} {q : List Nat} : queuePop st q = none ↔ q = [] := by
  unfold queuePop
  simp only
  split
  · rename_i hm
    rw [List.getLast?_eq_none_iff, queueSort_eq_nil] at hm
    simp [hm]
  · rename_i m hm
    constructor
    · intro h; cases h
    · intro h
      subst h
      simp [queueSort, isortBy] at hm

theorem queuePop_mem {st : Store} {q q' : List Nat} {n : Nat}
    (h : queuePop st q = some (n, q')) : n ∈ q := by
  rw [← mem_queueSort (st := st), queuePop_eq_some h]; simp

theorem queuePop_perm_cons {st : Store} {q q' : List Nat} {n : Nat}
    (h : queuePop st q = some (n, q')) : (n :: q').Perm q := by
  have := queueSort_perm st q
  rw [queuePop_eq_some h] at this
  exact (List.perm_append_singleton n q').symm.trans this

theorem queuePop_perm_erase {st : Store} {q q' : List Nat} {n : Nat}
    (h : queuePop st q = some (n, q')) : q'.Perm (q.erase n) :=
  ((queuePop_perm_cons h).trans (List.perm_cons_erase (queuePop_mem h))).cons_inv

theorem queuePop_rest_subset {st : Store} {q q' : List Nat} {n : Nat}
    (h : queuePop st q = some (n, q')) {m : Nat} (hm : m ∈ q') : m ∈ q :=
  (queuePop_perm_cons h).mem_iff.mp (List.mem_cons_of_mem _ hm)

/-- The popped node has the greatest rank of the queue. -/
theorem queuePop_max {st : Store} {q q' : List Nat} {n : Nat}
    (h : queuePop st q = some (n, q')) : ∀ m ∈ q, st.g.topoOf m ≤ st.g.topoOf n := by
  intro m hm
  have hs := queueSort_sorted st q
  rw [queuePop_eq_some h, List.pairwise_append] at hs
  have hm' : m ∈ q' ++ [n] := by rw [← queuePop_eq_some h]; exact mem_queueSort.mpr hm
  rcases List.mem_append.mp hm' with hm' | hm'
  · exact hs.2.2 m hm' n (by simp)
  · simp only [List.mem_singleton] at hm'; subst hm'; exact Nat.le_refl _

/-- The remainder is sorted (ascending rank). -/
theorem queuePop_rest_sorted {st : Store} {q q' : List Nat} {n : Nat}
    (h : queuePop st q = some (n, q')) :
    q'.Pairwise (fun a b => st.g.topoOf a ≤ st.g.topoOf b) := by
  have hs := queueSort_sorted st q
  rw [queuePop_eq_some h, List.pairwise_append] at hs
  exact hs.1

theorem queuePop_nodup {st : Store} {q q' : List Nat} {n : Nat}
    (h : queuePop st q = some (n, q')) (hn : q.Nodup) : n ∉ q' ∧ q'.Nodup := by
  have := (queuePop_perm_cons h).nodup_iff.mpr hn
  exact List.nodup_cons.mp this

/-- Under the graph invariant a popped node has no queued transitive dependency. -/
theorem queuePop_no_reach {st : Store} (hi : st.g.Inv) {q q' : List Nat} {n : Nat}
    (h : queuePop st q = some (n, q')) : ∀ m ∈ q, ¬ st.g.Reach n m := by
  intro m hm hr
  have h1 := hi.reach_topo_lt hr
  have h2 := queuePop_max h m hm
  omega

/-! ### draining the queue -/

/-- Pop until the queue is empty (the pop order of `execute_scheduled` when nothing is added in
between). -/
def queueDrain (st : Store) : Nat → List Nat → List Nat
  | 0, _ => []
  | f + 1, q =>
    match queuePop st q with
    | none => []
    | some (n, q') => n :: queueDrain st f q'

theorem queueDrain_subset (st : Store) : ∀ (f : Nat) (q : List Nat) (m : Nat),
    m ∈ queueDrain st f q → m ∈ q := by
  intro f
  induction f with
  | zero => intro q m hm; simp [queueDrain] at hm
  | succ f ih =>
    intro q m hm
    simp only [queueDrain] at hm
    cases hp : queuePop st q with
    | none => simp [hp] at hm
    | some r =>
      obtain ⟨n, q'⟩ := r
      simp only [hp, List.mem_cons] at hm
      rcases hm with rfl | hm
      · exact queuePop_mem hp
      · exact queuePop_rest_subset hp (ih q' m hm)

/-- In the drain order no node comes before one of its transitive dependencies. -/
theorem queueDrain_no_reach {st : Store} (hi : st.g.Inv) : ∀ (f : Nat) (q : List Nat),
    (queueDrain st f q).Pairwise (fun a b => ¬ st.g.Reach a b) := by
  intro f
  induction f with
  | zero => intro q; simp [queueDrain]
  | succ f ih =>
    intro q
    simp only [queueDrain]
    cases hp : queuePop st q with
    | none => simp
    | some r =>
      obtain ⟨n, q'⟩ := r
      simp only
      refine List.pairwise_cons.mpr ⟨?_, ih q'⟩
      intro m hm
      exact queuePop_no_reach hi hp m (queuePop_rest_subset hp (queueDrain_subset st f q' m hm))

/-- With enough fuel the drain enumerates the whole queue. -/
theorem queueDrain_perm (st : Store) : ∀ (f : Nat) (q : List Nat), q.length ≤ f →
    (queueDrain st f q).Perm q := by
  intro f
  induction f with
  | zero =>
    intro q hq
    have : q = [] := List.length_eq_zero_iff.mp (by omega)
    subst this
    simp [queueDrain]
  | succ f ih =>
    intro q hq
    simp only [queueDrain]
    cases hp : queuePop st q with
    | none => rw [queuePop_eq_none.mp hp]
    | some r =>
      obtain ⟨n, q'⟩ := r
      simp only
      have hperm := queuePop_perm_cons hp
      have hlen : q'.length ≤ f := by
        have := hperm.length_eq
        simp only [List.length_cons] at this
        omega
      exact (List.Perm.cons n (ih q' hlen)).trans hperm

/-! ### `swapRemove` -/

theorem swapRemove_perm {v : List Nat} {i : Nat} (hi : i < v.length) :
    (swapRemove v i).Perm (v.eraseIdx i) := by
  unfold swapRemove
  cases hl : v.getLast? with
  | none =>
    rw [List.getLast?_eq_none_iff] at hl
    subst hl
    simp at hi
  | some l =>
    obtain ⟨ys, rfl⟩ := List.getLast?_eq_some_iff.mp hl
    simp only [List.length_append, List.length_singleton] at hi ⊢
    split
    · have : i = ys.length := by omega
      subst this
      rw [List.dropLast_concat, List.eraseIdx_append_of_length_le (Nat.le_refl _)]
      simp
    · have hi' : i < ys.length := by omega
      rw [List.set_append_left _ _ hi', List.dropLast_concat,
        List.eraseIdx_append_of_lt_length hi', List.set_eq_take_append_cons_drop,
        List.eraseIdx_eq_take_drop_succ]
      simp only [hi', if_true]
      exact List.perm_middle.trans (List.perm_append_singleton l _).symm

theorem perm_cons_eraseIdx {v : List Nat} {i : Nat} (hi : i < v.length) :
    v.Perm (v[i] :: v.eraseIdx i) := by
  have h1 : v.take i ++ v[i] :: v.drop (i + 1) = v := by
    rw [List.getElem_cons_drop hi, List.take_append_drop]
  rw [List.eraseIdx_eq_take_drop_succ]
  have := List.perm_middle (a := v[i]) (l₁ := v.take i) (l₂ := v.drop (i + 1))
  rwa [h1] at this

/-! ### `findLastIdx` -/

theorem zipIdx_pairwise (v : List Nat) : v.zipIdx.Pairwise (fun a b => a.2 < b.2) := by
  have : (v.zipIdx.map (·.2)).Pairwise (· < ·) := by
    rw [List.zipIdx_map_snd]; exact List.pairwise_lt_range'
  exact List.pairwise_map.mp this

theorem findLastIdx_eq_some {p : Nat → Bool} {v : List Nat} {i : Nat}
    (h : findLastIdx p v = some i) :
    ∃ hi : i < v.length, p v[i] = true ∧ ∀ j (hj : j < v.length), i < j → p v[j] = false := by
  unfold findLastIdx at h
  cases hf : v.zipIdx.reverse.find? (fun x => p x.1) with
  | none => simp [hf] at h
  | some xi =>
    obtain ⟨x, i'⟩ := xi
    simp only [hf, Option.map_some, Option.some.injEq] at h
    subst h
    obtain ⟨hpx, as, bs, hsplit, has⟩ := List.find?_eq_some_iff_append.mp hf
    have hmem : (x, i') ∈ v.zipIdx := by
      rw [← List.mem_reverse, hsplit]; simp
    obtain ⟨hi, hx⟩ := List.mem_zipIdx' hmem
    refine ⟨hi, by rw [← hx]; exact hpx, ?_⟩
    intro j hj hij
    have hjm : (v[j], j) ∈ v.zipIdx.reverse := by
      rw [List.mem_reverse, List.mem_zipIdx_iff_getElem?]
      simp [hj]
    have hpw : (as ++ (x, i') :: bs).Pairwise (fun a b => b.2 < a.2) := by
      rw [← hsplit, List.pairwise_reverse]; exact zipIdx_pairwise v
    rw [hsplit] at hjm
    rcases List.mem_append.mp hjm with hjm | hjm
    · have := has _ hjm
      simpa using this
    · rcases List.mem_cons.mp hjm with hjm | hjm
      · have : j = i' := congrArg Prod.snd hjm
        omega
      · have := (List.pairwise_cons.mp (List.pairwise_append.mp hpw).2.1).1 _ hjm
        simp only at this
        omega

theorem findLastIdx_eq_none {p : Nat → Bool} {v : List Nat} :
    findLastIdx p v = none ↔ ∀ x ∈ v, p x = false := by
  unfold findLastIdx
  rw [Option.map_eq_none_iff, List.find?_eq_none]
  constructor
  · intro h x hx
    obtain ⟨j, hj, rfl⟩ := List.mem_iff_getElem.mp hx
    have hjm : (v[j], j) ∈ v.zipIdx.reverse := by
      rw [List.mem_reverse, List.mem_zipIdx_iff_getElem?]
      simp [hj]
    simpa using h _ hjm
  · intro h xi hxi
    rw [List.mem_reverse] at hxi
    obtain ⟨_, hx⟩ := List.mem_zipIdx' hxi
    have := h xi.1 (by rw [hx]; exact List.getElem_mem _)
    simp [this]

/-! ### `queuePopLeastFrom` -/

/-- The selection predicate of `queuePopLeastFrom`: `dst` lies in the cone of `src`. -/
def inCone (st : Store) (src dst : Nat) : Bool := src == dst || st.containsTransitive src dst

theorem inCone_iff {st : Store} {src dst : Nat} :
    inCone st src dst = true ↔ (dst = src ∨ st.containsTransitive src dst = true) := by
  simp only [inCone, Bool.or_eq_true, beq_iff_eq]
  constructor
  · rintro (h | h)
    · exact .inl h.symm
    · exact .inr h
  · rintro (h | h)
    · exact .inl h.symm
    · exact .inr h

theorem queuePopLeastFrom_eq_some {st : Store} {q q' : List Nat} {src n : Nat}
    (h : queuePopLeastFrom st q src = some (n, q')) :
    ∃ i, ∃ hi : i < (queueSort st q).length,
      (queueSort st q)[i] = n ∧ q' = swapRemove (queueSort st q) i ∧ inCone st src n = true ∧
      ∀ j (hj : j < (queueSort st q).length), i < j → inCone st src (queueSort st q)[j] = false := by
  unfold queuePopLeastFrom at h
  simp only at h
  split at h
  · cases h
  · rename_i i hfi
    obtain ⟨hi, hp, hlast⟩ := findLastIdx_eq_some hfi
    split at h
    · rename_i m hm
      cases h
      obtain ⟨_, hm'⟩ := List.getElem?_eq_some_iff.mp hm
      refine ⟨i, hi, hm', rfl, ?_, hlast⟩
      rw [← hm']; exact hp
    · cases h

theorem queuePopLeastFrom_eq_none {st : Store} {q : List Nat} {src : Nat} :
    queuePopLeastFrom st q src = none ↔ ∀ m ∈ q, inCone st src m = false := by
  unfold queuePopLeastFrom
  simp only
  split
  · rename_i hfi
    rw [findLastIdx_eq_none] at hfi
    simp only [true_iff]
    intro m hm
    exact hfi m (mem_queueSort.mpr hm)
  · rename_i i hfi
    obtain ⟨hi, hp, _⟩ := findLastIdx_eq_some hfi
    rw [List.getElem?_eq_getElem hi]
    simp only [reduceCtorEq, false_iff]
    intro hall
    have := hall _ (mem_queueSort.mp (List.getElem_mem hi))
    exact absurd (hp.symm.trans this) (by decide)

theorem queuePopLeastFrom_mem {st : Store} {q q' : List Nat} {src n : Nat}
    (h : queuePopLeastFrom st q src = some (n, q')) : n ∈ q := by
  obtain ⟨i, hi, hn, _⟩ := queuePopLeastFrom_eq_some h
  rw [← mem_queueSort (st := st), ← hn]
  exact List.getElem_mem hi

theorem queuePopLeastFrom_perm_cons {st : Store} {q q' : List Nat} {src n : Nat}
    (h : queuePopLeastFrom st q src = some (n, q')) : (n :: q').Perm q := by
  obtain ⟨i, hi, hn, hq', _⟩ := queuePopLeastFrom_eq_some h
  subst hq'
  have h1 := perm_cons_eraseIdx hi
  rw [hn] at h1
  exact ((List.Perm.cons n (swapRemove_perm hi)).trans h1.symm).trans (queueSort_perm st q)

theorem queuePopLeastFrom_perm_erase {st : Store} {q q' : List Nat} {src n : Nat}
    (h : queuePopLeastFrom st q src = some (n, q')) : q'.Perm (q.erase n) :=
  ((queuePopLeastFrom_perm_cons h).trans
    (List.perm_cons_erase (queuePopLeastFrom_mem h))).cons_inv

theorem queuePopLeastFrom_rest_subset {st : Store} {q q' : List Nat} {src n : Nat}
    (h : queuePopLeastFrom st q src = some (n, q')) {m : Nat} (hm : m ∈ q') : m ∈ q :=
  (queuePopLeastFrom_perm_cons h).mem_iff.mp (List.mem_cons_of_mem _ hm)

theorem queuePopLeastFrom_nodup {st : Store} {q q' : List Nat} {src n : Nat}
    (h : queuePopLeastFrom st q src = some (n, q')) (hn : q.Nodup) : n ∉ q' ∧ q'.Nodup :=
  List.nodup_cons.mp ((queuePopLeastFrom_perm_cons h).nodup_iff.mpr hn)

/-- The popped node has the greatest rank among the queued nodes of the cone. -/
theorem queuePopLeastFrom_max {st : Store} {q q' : List Nat} {src n : Nat}
    (h : queuePopLeastFrom st q src = some (n, q')) :
    ∀ m ∈ q, inCone st src m = true → st.g.topoOf m ≤ st.g.topoOf n := by
  obtain ⟨i, hi, hn, _, _, hlast⟩ := queuePopLeastFrom_eq_some h
  intro m hm hc
  obtain ⟨j, hj, hmj⟩ := List.mem_iff_getElem.mp (mem_queueSort (st := st) |>.mpr hm)
  rcases Nat.lt_trichotomy j i with hji | hji | hji
  · have := List.pairwise_iff_getElem.mp (queueSort_sorted st q) j i hj hi hji
    rwa [hmj, hn] at this
  · subst hji
    rw [← hmj, ← hn]
    exact Nat.le_refl _
  · have := hlast j hj hji
    rw [hmj, hc] at this
    cases this

/-- Under the graph invariant the popped node has no queued transitive dependency inside the
cone of `src` (no hypothesis on `containsTransitive`). -/
theorem queuePopLeastFrom_no_reach_in_cone {st : Store} (hi : st.g.Inv) {q q' : List Nat}
    {src n : Nat} (h : queuePopLeastFrom st q src = some (n, q')) :
    ∀ m ∈ q, inCone st src m = true → ¬ st.g.Reach n m := by
  intro m hm hc hr
  have h1 := hi.reach_topo_lt hr
  have h2 := queuePopLeastFrom_max h m hm hc
  omega

/-- If `containsTransitive` decides reachability, the popped node has no queued transitive
dependency at all: everything it reaches lies in the cone of `src`. -/
theorem queuePopLeastFrom_no_reach {st : Store} (hi : st.g.Inv)
    (hct : ∀ a b, st.containsTransitive a b = true ↔ st.g.Reach a b) {q q' : List Nat}
    {src n : Nat} (h : queuePopLeastFrom st q src = some (n, q')) :
    ∀ m ∈ q, ¬ st.g.Reach n m := by
  intro m hm hr
  obtain ⟨_, _, _, _, hcn, _⟩ := queuePopLeastFrom_eq_some h
  apply queuePopLeastFrom_no_reach_in_cone hi h m hm _ hr
  rw [inCone_iff]
  right
  rw [hct]
  rcases inCone_iff.mp hcn with rfl | hsn
  · exact hr
  · exact ((hct _ _).mp hsn).trans hr

/-! ### independence from the insertion order (C16) -/

theorem queuePop_perm_invariant {st : Store} (h : st.g.WF) {q q' : List Nat} (hp : q.Perm q')
    (hl : ∀ n ∈ q, st.g.containsNode n = true) : queuePop st q = queuePop st q' := by
  unfold queuePop
  rw [queueSort_perm_invariant h hp hl]

theorem queuePopLeastFrom_perm_invariant {st : Store} (h : st.g.WF) {q q' : List Nat}
    (hp : q.Perm q') (hl : ∀ n ∈ q, st.g.containsNode n = true) (src : Nat) :
    queuePopLeastFrom st q src = queuePopLeastFrom st q' src := by
  unfold queuePopLeastFrom
  rw [queueSort_perm_invariant h hp hl]

theorem queueDrain_perm_invariant {st : Store} (h : st.g.WF) {q q' : List Nat} (hp : q.Perm q')
    (hl : ∀ n ∈ q, st.g.containsNode n = true) (f : Nat) :
    queueDrain st f q = queueDrain st f q' := by
  cases f with
  | zero => rfl
  | succ f => simp only [queueDrain, queuePop_perm_invariant h hp hl]

theorem mem_foldl_queueAdd (ns : List Nat) : ∀ (q : List Nat) (m : Nat),
    m ∈ ns.foldl queueAdd q ↔ m ∈ q ∨ m ∈ ns := by
  induction ns with
  | nil => intro q m; simp
  | cons a ns ih =>
    intro q m
    rw [List.foldl_cons, ih, mem_queueAdd, List.mem_cons, or_assoc]

theorem foldl_queueAdd_nodup (ns : List Nat) : ∀ (q : List Nat), q.Nodup →
    (ns.foldl queueAdd q).Nodup := by
  induction ns with
  | nil => intro q h; exact h
  | cons a ns ih => intro q h; exact ih _ (queueAdd_nodup h)

/-- Scheduling the same set of nodes in a different order yields a permuted queue. -/
theorem foldl_queueAdd_perm {q ns ns' : List Nat} (hq : q.Nodup) (hp : ns.Perm ns') :
    (ns.foldl queueAdd q).Perm (ns'.foldl queueAdd q) := by
  refine (List.perm_ext_iff_of_nodup (foldl_queueAdd_nodup ns q hq)
    (foldl_queueAdd_nodup ns' q hq)).mpr ?_
  intro m
  rw [mem_foldl_queueAdd, mem_foldl_queueAdd, hp.mem_iff]

end PieModel
