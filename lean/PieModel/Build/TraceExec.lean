/-
Exactness of the `execute` and `require` events (property C17, interpreter part):
* `execute_start t` / `execute_end t o` are emitted by `make_task_consistent` (top-down) and
  `execute` (bottom-up) exactly around a run of the body of `t`, and the end event carries the
  output that the body returned and that the call returns;
* a `require_end` event is the last event of a completed `require` and carries the returned value.
-/
import PieModel.Build.TraceNestingBU

namespace PieModel

variable (sem : Sem) (body : Nat → Prog)

/-! ### the trace only grows -/

theorem OutB.grows {rx : Bool} {s : Sess} {α : Type} {x : Sess × Res α} (h : OutB rx s x) :
    s.trace <+: x.1.trace := by
  obtain ⟨s', r⟩ := x
  cases r with
  | ok _ => obtain ⟨evs, h, _⟩ := h; exact ⟨evs, h.symm⟩
  | abort _ => obtain ⟨_, evs, h, _⟩ := h; exact ⟨evs, h.symm⟩

theorem OutR.grows {rx : Bool} {s : Sess} {α : Type} {x : Sess × Res α} (h : OutR rx s x) :
    s.trace <+: x.1.trace := by
  obtain ⟨s', r⟩ := x
  cases r with
  | ok _ => obtain ⟨_, _, evs, h, _⟩ := h; exact ⟨evs, h.symm⟩
  | abort _ => obtain ⟨_, evs, h, _⟩ := h; exact ⟨evs, h.symm⟩

/-- The relaxed machine needs no hypothesis on the checkers. -/
theorem relaxed_ok (sem : Sem) : (true = false) → StampTotal sem := fun h => nomatch h

/-! ### top-down: `make_task_consistent` -/

/-- The state in which `tdMake` starts the body of `t` (graph node `node`) when `tdCheck` ended
in `s1` with "inconsistent": dependencies reset, `node` current, `execute_start` emitted. -/
def tdExecSession (s1 : Sess) (node t : Nat) : Sess :=
  ({ ({ s1 with store := s1.store.resetTask node } : Sess) with cur := some node } : Sess).emit
    (.executeStart t)

/-- The state in which `tdMake` calls `tdCheck`. -/
def tdCheckSession (s : Sess) (t : Nat) : Sess :=
  { s with store := (s.store.getOrCreateTaskNode t).1 }

/-- What `tdMake (f+1) s t` does, by the outcome of the consistency check: only in the last case
the body of `t` is run, and then `execute_start t` precedes the body's events,
`execute_end t o` follows them iff the body returned `o`, and `o` is what `tdMake` returns. -/
def TdMakePost (f : Nat) (s : Sess) (t : Nat) (x : Sess × Res Int) : Prop :=
  let node := (s.store.getOrCreateTaskNode t).2
  if node ∈ s.consistent then x.1.trace = s.trace
  else
    match tdCheck sem body f (tdCheckSession s t) node with
    | (s1, .abort a) => x = (s1, .abort a)
    | (s1, .ok (some o)) => x.1.trace = s1.trace ∧ x.2 = .ok o
    | (s1, .ok none) =>
      match tdRun sem body f (tdExecSession s1 node t) (body t) with
      | (s2, .abort a) => x = (s2, .abort a)
      | (s2, .ok o) => x.1.trace = s2.trace ++ [.executeEnd t o] ∧ x.2 = .ok o

theorem tdMake_post (f : Nat) (s : Sess) (t : Nat) :
    TdMakePost sem body f s t (tdMake sem body (f + 1) s t) := by
  rw [tdMake]; unfold TdMakePost tdCheckSession tdExecSession; dsimp only
  split
  · split <;> rfl
  · generalize tdCheck sem body f _ _ = rc
    obtain ⟨s1, r1⟩ := rc
    cases r1 with
    | abort a => rfl
    | ok oo =>
      cases oo with
      | some o => exact ⟨by simp, rfl⟩
      | none =>
        dsimp only
        generalize tdRun sem body f _ _ = rb
        obtain ⟨s2, r2⟩ := rb
        cases r2 with
        | abort a => rfl
        | ok o => exact ⟨by simp, rfl⟩

/-- The execute branch of `tdMake`, with the appended events spelled out:
`checkEvents ++ [execute_start t] ++ bodyEvents ++ [execute_end t o]`, result `ok o`. -/
theorem tdMake_executed {f : Nat} {s s1 : Sess} {t : Nat}
    (hnc : (s.store.getOrCreateTaskNode t).2 ∉ s.consistent)
    (hc : tdCheck sem body f (tdCheckSession s t) (s.store.getOrCreateTaskNode t).2
      = (s1, .ok none)) :
    ∃ chk bodyEvs s2 rb,
      s1.trace = s.trace ++ chk ∧
      tdRun sem body f (tdExecSession s1 (s.store.getOrCreateTaskNode t).2 t) (body t) = (s2, rb) ∧
      s2.trace = s.trace ++ chk ++ [.executeStart t] ++ bodyEvs ∧
      match rb with
      | .ok o =>
        (tdMake sem body (f + 1) s t).2 = .ok o ∧
        (tdMake sem body (f + 1) s t).1.trace
          = s.trace ++ chk ++ [.executeStart t] ++ bodyEvs ++ [.executeEnd t o]
      | .abort a => tdMake sem body (f + 1) s t = (s2, .abort a) := by
  have hp := tdMake_post sem body f s t
  unfold TdMakePost at hp
  simp only [hnc, if_false, hc] at hp
  obtain ⟨chk, hchk0⟩ := ((tdSpec sem body (relaxed_ok sem) f).check' hc).grows
  have hchk : s1.trace = s.trace ++ chk := hchk0.symm
  generalize hrb : tdRun sem body f _ _ = rb at hp
  obtain ⟨s2, r2⟩ := rb
  obtain ⟨bodyEvs, hb0⟩ := ((tdSpec sem body (relaxed_ok sem) f).run' hrb).grows
  have hbody : s2.trace = s.trace ++ chk ++ [.executeStart t] ++ bodyEvs := by
    rw [← hb0, ← hchk]; rfl
  refine ⟨chk, bodyEvs, s2, r2, hchk, rfl, hbody, ?_⟩
  cases r2 with
  | abort a => exact hp
  | ok o => exact ⟨hp.2, by rw [hp.1, hbody]⟩

/-- If `tdMake` does not take the execute branch, it appends exactly the events of the
consistency check (none if the task was already consistent in this session). -/
theorem tdMake_not_executed {f : Nat} {s : Sess} {t : Nat} :
    ((s.store.getOrCreateTaskNode t).2 ∈ s.consistent →
      (tdMake sem body (f + 1) s t).1.trace = s.trace) ∧
    (∀ s1 rc, (s.store.getOrCreateTaskNode t).2 ∉ s.consistent →
      tdCheck sem body f (tdCheckSession s t) (s.store.getOrCreateTaskNode t).2 = (s1, rc) →
      rc ≠ .ok none → (tdMake sem body (f + 1) s t).1.trace = s1.trace) := by
  have hp := tdMake_post sem body f s t
  unfold TdMakePost at hp
  constructor
  · intro h; simpa only [h, if_true] using hp
  · intro s1 rc hnc hc hne
    simp only [hnc, if_false, hc] at hp
    cases rc with
    | abort a => simp only at hp; rw [hp]
    | ok oo =>
      cases oo with
      | none => exact absurd rfl hne
      | some o => exact hp.1

/-! ### bottom-up: `execute` -/

def buExecSession (s : Sess) (node t : Nat) : Sess :=
  ({ ({ s with store := s.store.resetTask node } : Sess) with cur := some node } : Sess).emit
    (.executeStart t)

/-- `buExec` always runs the body of `t`; the appended events are
`[execute_start t] ++ bodyEvents ++ [execute_end t o]` and the result is `ok o`. -/
theorem buExec_executed (f : Nat) (s : Sess) (t node : Nat) :
    ∃ bodyEvs s2 rb,
      buRun sem body f (buExecSession s node t) (body t) = (s2, rb) ∧
      s2.trace = s.trace ++ [.executeStart t] ++ bodyEvs ∧
      match rb with
      | .ok o =>
        (buExec sem body (f + 1) s t node).2 = .ok o ∧
        (buExec sem body (f + 1) s t node).1.trace
          = s.trace ++ [.executeStart t] ++ bodyEvs ++ [.executeEnd t o]
      | .abort a => buExec sem body (f + 1) s t node = (s2, .abort a) := by
  rw [buExec]; unfold buExecSession; dsimp only
  generalize hrb : buRun sem body f _ _ = rb
  obtain ⟨s2, r2⟩ := rb
  obtain ⟨bodyEvs, hb0⟩ := ((buSpec sem body (relaxed_ok sem) f).run' hrb).grows
  have hbody : s2.trace = s.trace ++ [.executeStart t] ++ bodyEvs := by rw [← hb0]; rfl
  refine ⟨bodyEvs, s2, r2, rfl, hbody, ?_⟩
  cases r2 with
  | abort a => rfl
  | ok o => exact ⟨rfl, by simp [hbody]⟩

/-! ### `require_end` carries the returned value -/

/-- A completed `require`: `require_start`, a balanced middle part, `require_end` with the stamp
of the returned output and the returned output. -/
def RequirePost (rx : Bool) (s : Sess) (t c : Nat) : Sess × Res Int → Prop
  | (s', .ok out) => ∃ mid, Seg rx mid [] ∧
      s'.trace = s.trace ++ [.requireStart t c] ++ mid ++ [.requireEnd t c (sem.ostamp c out) out]
  | (_, .abort _) => True

theorem tdRequire_post {rx : Bool} (hS : rx = false → StampTotal sem) (f : Nat) (s : Sess)
    (t c : Nat) : RequirePost sem rx s t c (tdRequire sem body f s t c) := by
  cases f with
  | zero => rw [tdRequire]; trivial
  | succ f =>
    rw [tdRequire]; dsimp only
    split
    · trivial
    · rename_i s1 h1
      split
      · trivial
      · rename_i s2 out h2
        obtain ⟨mid, hmid, hseg⟩ : Tr rx s1 s2 [] := (tdSpec sem body hS f).make' h2
        have h3 : (s2.emit (.requireEnd t c (sem.ostamp c out) out)).trace = s.trace ++
            [.requireStart t c] ++ mid ++ [.requireEnd t c (sem.ostamp c out) out] := by
          rw [Sess.emit_trace, hmid, reserveRequire_eq h1]; rfl
        split
        · trivial
        · rename_i s3 h4
          exact ⟨mid, hseg, by rw [updateRequire_eq h4, h3]⟩

theorem buRequire_post {rx : Bool} (hS : rx = false → StampTotal sem) (f : Nat) (s : Sess)
    (t c : Nat) : RequirePost sem rx s t c (buRequire sem body f s t c) := by
  cases f with
  | zero => rw [buRequire]; trivial
  | succ f =>
    rw [buRequire]; dsimp only
    split
    · trivial
    · rename_i s1 h1
      split
      · trivial
      · rename_i s2 out h2
        obtain ⟨mid, hmid, hseg⟩ : Tr rx s1 s2 [] := (buSpec sem body hS f).make' h2
        have h3 : (s2.emit (.requireEnd t c (sem.ostamp c out) out)).trace = s.trace ++
            [.requireStart t c] ++ mid ++ [.requireEnd t c (sem.ostamp c out) out] := by
          rw [Sess.emit_trace, hmid, reserveRequire_eq h1]; rfl
        split
        · trivial
        · rename_i s3 h4
          exact ⟨mid, hseg, by rw [Sess.markConsistent_trace, updateRequire_eq h4, h3]⟩

/-- A completed `Session::require`: `build_start`, the root's `require` bracket, `build_end`. -/
theorem sessionRequire_post {rx : Bool} (hS : rx = false → StampTotal sem) (f : Nat) (s : Sess)
    (t : Nat) {s' : Sess} {o : Int} (h : sessionRequire sem body f s t = (s', .ok o)) :
    ∃ mid, Seg rx mid [] ∧
      s'.trace = s.trace ++ [.buildStart] ++ [.requireStart t alwaysChecker] ++ mid ++
        [.requireEnd t alwaysChecker (sem.ostamp alwaysChecker o) o, .buildEnd] := by
  unfold sessionRequire at h; dsimp only at h
  split at h
  · simp at h
  · rename_i s1 o1 h1
    simp only [Prod.mk.injEq, Res.ok.injEq] at h
    obtain ⟨rfl, rfl⟩ := h
    have hp := tdRequire_post sem body hS f (({ s with cur := none } : Sess).emit .buildStart)
      t alwaysChecker
    rw [h1] at hp
    obtain ⟨mid, hseg, hmid⟩ := hp
    exact ⟨mid, hseg, by simp [hmid]⟩

end PieModel
