/-
The dependency-recording law for the top-down body interpreter: running a program `p` with
`s.cur = some node` changes `depsFrom node` by merging (`C08.merge`) the dependency operations the
run performed (`C08.tdOps`), in order.  Nested executions and validations of other tasks do not
touch `depsFrom node` (frame lemma of `FrameExec.lean`, under the stack-discipline condition
`KNoExec tn`: no execution of the task itself starts while its body runs — which is proved for
every well-formed state in `StackTD.lean`/`StackBU.lean`; `Props/C08.lean` combines the two).
-/
import PieModel.Build.FrameExec
import PieModel.Build.DepKeys

namespace PieModel
open Sess SessL

namespace C08

variable (sem : Sem) (body : Nat → Prog)

/-- What a `read r c` that returned `x` in state `s` declared: nothing if the checker failed to
stamp, else a read dependency with the stamp of the content seen. -/
def readOp (s : Sess) (r c : Nat) (x : Except Int (Option Int)) : List Dep :=
  match x, sem.rstamp c (s.content r) with
  | .ok _, .ok stamp => [.read r c stamp]
  | _, _ => []

/-- What a `write r c v` / `written_to` that returned `x` declared: the stamp is taken of the
content after the write. -/
def writeOp (s : Sess) (r c : Nat) (v : Option Int) (x : Except Int Unit) : List Dep :=
  match x, sem.rstamp c ((s.setContent r v).content r) with
  | .ok _, .ok stamp => [.write r c stamp]
  | _, _ => []

/-- The dependency operations performed by `tdRun fuel s p`, in order: one `require` per returned
`Context::require` (stamp of the output it returned), one `read`/`write` per returned
`read`/`write`/`written_to` whose checker produced a stamp. -/
def tdOps : Nat → Sess → Prog → List Dep
  | 0, _, _ => []
  | _ + 1, _, .ret _ => []
  | _ + 1, _, .panic => []
  | f + 1, s, .req t c k =>
    match tdRequire sem body f s t c with
    | (_, .abort _) => []
    | (s', .ok out) => .require t c (sem.ostamp c out) :: tdOps f s' (k out)
  | f + 1, s, .read r c k =>
    match doRead sem s r c with
    | (_, .abort _) => []
    | (s', .ok x) => readOp sem s r c x ++ tdOps f s' (k x)
  | f + 1, s, .write r c v k =>
    match doWrite sem s r c v with
    | (_, .abort _) => []
    | (s', .ok x) => writeOp sem s r c v x ++ tdOps f s' (k x)
  | f + 1, s, .wrote r c v k =>
    match doWrote sem s r c v with
    | (_, .abort _) => []
    | (s', .ok x) => writeOp sem s r c v x ++ tdOps f s' (k x)

theorem reserved_not_mem_readOp (s : Sess) (r c : Nat) (x : Except Int (Option Int)) :
    Dep.reserved ∉ readOp sem s r c x := by
  unfold readOp; split <;> simp

theorem reserved_not_mem_writeOp (s : Sess) (r c : Nat) (v : Option Int) (x : Except Int Unit) :
    Dep.reserved ∉ writeOp sem s r c v x := by
  unfold writeOp; split <;> simp

variable {sem body}

/-! ### one resource dependency -/

/-- Adding a `read`/`write` dependency from task node `node` to the node of resource `r`. -/
theorem addDependency_res_merge {st : Store} (hw : st.WF) {node tn dst r : Nat}
    (htn : st.taskOf node = some tn) (hres : st.resOf dst = some r) (d : Dep)
    (hk : d.key = some (.res r)) (hq : d.isRequire = false) :
    (st.addDependency node dst d).1.depsFrom node = merge (st.depsFrom node) d := by
  by_cases he : st.g.HasEdge node dst
  · rw [Store.addDependency_of_edge hw _ _ _ he]
    rw [merge_rw_of_hasKey (by rw [hk]; exact (hw.hasEdge_res_iff node hres).mp he) hq]
  · have hok := Store.addDependency_to_res_ok hw node dst d htn hres
    rw [Store.depsFrom_addDependency_new hw hok he, if_pos rfl]
    rw [merge_of_not_hasKey]
    rw [hk]
    cases hh : hasKey (st.depsFrom node) (some (.res r))
    · rfl
    · exact absurd ((hw.hasEdge_res_iff node hres).mpr hh) he

theorem read_step {s s' : Sess} {node : Nat} (h : SessWF s) (hc : s.cur = some node)
    {r c : Nat} {x : Except Int (Option Int)} (hr : doRead sem s r c = (s', .ok x)) :
    s'.store.depsFrom node = mergeAll (s.store.depsFrom node) (readOp sem s r c x) := by
  rcases hp : s.store.getOrCreateResNode r with ⟨st, dst⟩
  have hw1 : st.WF := by have := h.store.getOrCreateResNode r; rw [hp] at this; exact this
  have hd0 : st.depsFrom node = s.store.depsFrom node := by
    have := Store.depsFrom_getOrCreateResNode h.store r node; rw [hp] at this; exact this
  have hres : st.resOf dst = some r := by
    have := Store.resOf_getOrCreateResNode_self h.store r; rw [hp] at this; exact this
  obtain ⟨tn, htn⟩ : ∃ tn, st.taskOf node = some tn := by
    have := (Store.le_getOrCreateResNode h.store r).isTask (h.cur _ hc); rw [hp] at this; exact this
  rcases doRead_cases sem hc r c hp with ⟨hst, hno⟩ | ⟨_, stamp, hstamp, hst, hres'⟩
  · rw [hr] at hst hno
    simp only at hst hno
    cases x with
    | ok v => exact absurd rfl (hno v)
    | error e => rw [hst, hd0]; simp [readOp]
  · rw [hr] at hst hres'
    simp only at hst hres'
    cases hres'
    have : readOp sem s r c (.ok (s.content r)) = [.read r c stamp] := by simp [readOp, hstamp]
    rw [this, hst, addDependency_res_merge hw1 htn hres _ rfl rfl, hd0]
    rfl

theorem write_step {s s' : Sess} {node : Nat} (h : SessWF s) (hc : s.cur = some node)
    {r c : Nat} {v : Option Int} {x : Except Int Unit} (hr : doWrite sem s r c v = (s', .ok x)) :
    s'.store.depsFrom node = mergeAll (s.store.depsFrom node) (writeOp sem s r c v x) := by
  rcases hp : s.store.getOrCreateResNode r with ⟨st, dst⟩
  have hw1 : st.WF := by have := h.store.getOrCreateResNode r; rw [hp] at this; exact this
  have hd0 : st.depsFrom node = s.store.depsFrom node := by
    have := Store.depsFrom_getOrCreateResNode h.store r node; rw [hp] at this; exact this
  have hres : st.resOf dst = some r := by
    have := Store.resOf_getOrCreateResNode_self h.store r; rw [hp] at this; exact this
  obtain ⟨tn, htn⟩ : ∃ tn, st.taskOf node = some tn := by
    have := (Store.le_getOrCreateResNode h.store r).isTask (h.cur _ hc); rw [hp] at this; exact this
  rcases doWrite_cases sem hc r c v hp with ⟨hst, hno⟩ | ⟨_, stamp, hstamp, hst, hres'⟩
  · rw [hr] at hst hno
    simp only at hst hno
    cases x with
    | ok v => exact absurd rfl hno
    | error e => rw [hst, hd0]; simp [writeOp]
  · rw [hr] at hst hres'
    simp only at hst hres'
    cases hres'
    have : writeOp sem s r c v (.ok ()) = [.write r c stamp] := by simp [writeOp, hstamp]
    rw [this, hst, addDependency_res_merge hw1 htn hres _ rfl rfl, hd0]
    rfl

theorem wrote_step {s s' : Sess} {node : Nat} (h : SessWF s) (hc : s.cur = some node)
    {r c : Nat} {v : Option Int} {x : Except Int Unit} (hr : doWrote sem s r c v = (s', .ok x)) :
    s'.store.depsFrom node = mergeAll (s.store.depsFrom node) (writeOp sem s r c v x) := by
  rcases hp : s.store.getOrCreateResNode r with ⟨st, dst⟩
  have hw1 : st.WF := by have := h.store.getOrCreateResNode r; rw [hp] at this; exact this
  have hd0 : st.depsFrom node = s.store.depsFrom node := by
    have := Store.depsFrom_getOrCreateResNode h.store r node; rw [hp] at this; exact this
  have hres : st.resOf dst = some r := by
    have := Store.resOf_getOrCreateResNode_self h.store r; rw [hp] at this; exact this
  obtain ⟨tn, htn⟩ : ∃ tn, st.taskOf node = some tn := by
    have := (Store.le_getOrCreateResNode h.store r).isTask (h.cur _ hc); rw [hp] at this; exact this
  rcases doWrote_cases sem hc r c v hp with ⟨hst, hno⟩ | ⟨_, stamp, hstamp, hst, hres'⟩
  · rw [hr] at hst hno
    simp only at hst hno
    cases x with
    | ok v => exact absurd rfl hno
    | error e => rw [hst, hd0]; simp [writeOp]
  · rw [hr] at hst hres'
    simp only at hst hres'
    cases hres'
    have : writeOp sem s r c v (.ok ()) = [.write r c stamp] := by simp [writeOp, hstamp]
    rw [this, hst, addDependency_res_merge hw1 htn hres _ rfl rfl, hd0]
    rfl

/-! ### one `require`: reserve, (nested calls), update -/

/-- The store-level effect of `reserve`, an interlude that keeps `outgoingEdges node`, and
`update`: the `require` is merged into the dependency list. -/
theorem reserve_update_merge {st st₂ st₃ : Store} (hw : st.WF) {node dst t c : Nat}
    {stamp : Stamp} (hd : st.taskOf dst = some t)
    (hnr : Dep.reserved ∉ st.depsFrom node)
    (hok : (st.addDependency node dst .reserved).2 = .ok)
    (hfr : st₂.g.outgoingEdges node = (st.addDependency node dst .reserved).1.g.outgoingEdges node)
    (hs : st₂.setDependency node dst (.require t c stamp) = some st₃) :
    st₃.depsFrom node = merge (st.depsFrom node) (.require t c stamp) := by
  rw [Store.depsFrom_setDependency hs, if_pos rfl, hfr]
  by_cases he : st.g.HasEdge node dst
  · rw [Store.addDependency_of_edge hw _ _ _ he]
    rw [merge_require_of_hasKey ((hw.hasEdge_task_iff node hd hnr).mp he)]
    simp only [Store.depsFrom, Dag.outgoingEdgeData, List.map_map]
    apply List.map_congr_left
    intro p hp
    have hpr : p.2 ≠ .reserved := fun hh => hnr (by
      simp only [Store.depsFrom, Dag.outgoingEdgeData, List.mem_map]; exact ⟨p, hp, hh⟩)
    have := hw.outgoing_fst_eq_iff hd hp hpr
    simp only [Function.comp]
    by_cases h1 : p.1 = dst
    · rw [if_pos h1, if_pos (this.mp h1)]
    · rw [if_neg h1, if_neg (fun hh => h1 (this.mpr hh))]
  · rw [Store.outgoingEdges_addDependency_new hw hok he, if_pos rfl, List.map_append]
    have hno : hasKey (st.depsFrom node) (some (.task t)) = false := by
      cases hh : hasKey (st.depsFrom node) (some (.task t))
      · rfl
      · exact absurd ((hw.hasEdge_task_iff node hd hnr).mpr hh) he
    rw [merge_of_not_hasKey (by simpa using hno)]
    congr 1
    · simp only [Store.depsFrom, Dag.outgoingEdgeData]
      apply List.map_congr_left
      intro p hp
      have : p.1 ≠ dst := by
        intro hh
        apply he
        rw [hw.gwf.hasEdge_iff_getEdgeData]
        exact ⟨p.2, hh ▸ (Dag.mem_outgoingEdges hw.gwf node p.1 p.2).mp hp⟩
      rw [if_neg this]
    · simp

theorem require_step {node tn f : Nat} (hfr : TdFrame sem body node tn f) {s s' : Sess}
    {t c : Nat} {out : Int} (h : SessWF s) (hc : s.cur = some node)
    (htn : s.store.taskOf node = some tn) (hnr : Dep.reserved ∉ s.store.depsFrom node)
    (hr : tdRequire sem body (f + 1) s t c = (s', .ok out)) (hx : KNoExec tn s s') :
    s'.store.depsFrom node =
      merge (s.store.depsFrom node) (.require t c (sem.ostamp c out)) := by
  simp only [tdRequire] at hr
  split at hr
  · cases hr
  · rename_i s₁ heq
    split at hr
    · cases hr
    · rename_i s₂ out' heq₂
      split at hr
      · cases hr
      · rename_i s₃ heq₃
        have hs : s₃ = s' := by cases hr; rfl
        have ho : out' = out := by cases hr; rfl
        subst hs; subst ho
        have h0 := h.emit (.requireStart t c)
        have l0 := (Lk.emit h (.requireStart t c)).trans (Lk.getTask h0 t)
        have hd := Store.taskOf_getOrCreateTaskNode_self h0.store t
        have l1 : Lk _ s₁ := Lk.of_call (reserveRequire_ext l0.wf ⟨t, hd⟩) (ext_reserveRequire _ _) heq
        have l2 : Lk s₁ s₂ := Lk.of_call (tdMake_ext sem body f l1.wf t) (ext_tdMake sem body f _ _) heq₂
        have l2' := Lk.emit l2.wf (.requireEnd t c (sem.ostamp c out') out')
        have l3 : Lk _ s₃ := Lk.of_call
          (updateRequire_ext l2'.wf c (sem.ostamp c out') ((l1.trans (l2.trans l2')).task hd))
          (ext_updateRequire _ _ _ _ _) heq₃
        have o2 : OutEq node s₁ s₂ := hfr.make s₁ t s₂ out' l1.wf ((l0.trans l1).task htn) heq₂
          (hx.mid (l0.trans l1).tr l2.tr (l2'.trans l3).tr)
        -- the reserve step
        have hcA : ({ s.emit (.requireStart t c) with
            store := ((s.emit (.requireStart t c)).store.getOrCreateTaskNode t).1 } : Sess).cur
            = some node := hc
        rcases reserveRequire_cases hcA ((s.emit (.requireStart t c)).store.getOrCreateTaskNode t).2
          with ⟨_, hno⟩ | ⟨hok, hs1, _⟩
        · rw [heq] at hno; exact absurd rfl hno
        rw [heq] at hs1; simp only at hs1
        -- the update step
        have c1 : s₁.cur = some node := by rw [hs1]; exact hc
        have c2 : s₂.cur = some node := (cur_tdMake sem body heq₂).trans c1
        rcases updateRequire_cases (s := s₂.emit (.requireEnd t c (sem.ostamp c out') out'))
          c2 _ t c (sem.ostamp c out') with ⟨_, hno⟩ | ⟨st', hset, hs3, _⟩
        · rw [heq₃] at hno; exact absurd rfl hno
        rw [heq₃] at hs3; simp only at hs3
        rw [hs3]
        show st'.depsFrom node = _
        have hdeps : ((s.emit (.requireStart t c)).store.getOrCreateTaskNode t).1.depsFrom node
            = s.store.depsFrom node := Store.depsFrom_getOrCreateTaskNode h0.store t node
        rw [← hdeps]
        refine reserve_update_merge (st₂ := s₂.store) (h0.store.getOrCreateTaskNode t)
          hd (by rw [hdeps]; exact hnr) hok ?_ hset
        have := o2
        unfold OutEq at this
        rw [this, hs1]

/-! ### the law -/

/-- **The dependency-recording law** for the top-down body interpreter.  `node` (the node of task
`tn`) is the current frame, its dependency list has no `reserved` placeholder, the run returns,
and no execution of `tn` itself starts during the run (`hframe`): then the dependency list of
`node` afterwards is the list before, merged with the operations the run performed, in order. -/
theorem tdRun_law {node tn : Nat} (f : Nat) : ∀ (s : Sess) (p : Prog) (s' : Sess) (o : Int),
    SessWF s → s.cur = some node → s.store.taskOf node = some tn →
    Dep.reserved ∉ s.store.depsFrom node → tdRun sem body f s p = (s', .ok o) →
    KNoExec tn s s' →
    s'.store.depsFrom node = mergeAll (s.store.depsFrom node) (tdOps sem body f s p) := by
  induction f with
  | zero => intro s p s' o _ _ _ _ hr; simp only [tdRun] at hr; cases hr
  | succ f ih =>
    intro s p s' o h hc htn hnr hr hframe
    cases p with
    | ret v => simp only [tdRun] at hr; cases hr; simp [tdOps]
    | panic => simp only [tdRun] at hr; cases hr
    | req t c k =>
      simp only [tdRun] at hr
      split at hr
      · cases hr
      · rename_i s₁ out heq
        have l1 : Lk s s₁ := Lk.of_call (tdRequire_ext sem body f h t c) (ext_tdRequire sem body f _ _ _) heq
        have l2 : Lk s₁ s' := Lk.of_call (tdRun_ext sem body f l1.wf _) (ext_tdRun sem body f _ _) hr
        have c1 : s₁.cur = some node := (cur_tdRequire sem body heq).trans hc
        have hops : tdOps sem body (f + 1) s (.req t c k) =
            .require t c (sem.ostamp c out) :: tdOps sem body f s₁ (k out) := by
          simp only [tdOps, heq]
        cases f with
        | zero => simp only [tdRequire] at heq; cases heq
        | succ f' =>
          have hstep := require_step (tdFrame node tn f') h hc htn hnr heq
            (hframe.mid (TrPre.refl _) l1.tr l2.tr)
          rw [hops, mergeAll_cons, ← hstep]
          exact ih s₁ _ s' o l1.wf c1 (l1.task htn)
            (by rw [hstep]; exact merge_noReserved hnr (by simp)) hr
            (hframe.mid l1.tr l2.tr (TrPre.refl _))
    | read r c k =>
      simp only [tdRun] at hr
      split at hr
      · cases hr
      · rename_i s₁ x heq
        have l1 : Lk s s₁ := Lk.of_call (doRead_ext sem h r c) (ext_doRead sem _ _ _) heq
        have l2 : Lk s₁ s' := Lk.of_call (tdRun_ext sem body f l1.wf _) (ext_tdRun sem body f _ _) hr
        have c1 : s₁.cur = some node := (cur_of_fst (cur_doRead sem _ _ _) heq).trans hc
        have hops : tdOps sem body (f + 1) s (.read r c k) =
            readOp sem s r c x ++ tdOps sem body f s₁ (k x) := by simp only [tdOps, heq]
        have hstep := read_step h hc heq
        rw [hops, mergeAll_append, ← hstep]
        exact ih s₁ _ s' o l1.wf c1 (l1.task htn)
          (by rw [hstep]; exact mergeAll_noReserved hnr (reserved_not_mem_readOp sem s r c x)) hr
          (hframe.mid l1.tr l2.tr (TrPre.refl _))
    | write r c v k =>
      simp only [tdRun] at hr
      split at hr
      · cases hr
      · rename_i s₁ x heq
        have l1 : Lk s s₁ := Lk.of_call (doWrite_ext sem h r c v) (ext_doWrite sem _ _ _ _) heq
        have l2 : Lk s₁ s' := Lk.of_call (tdRun_ext sem body f l1.wf _) (ext_tdRun sem body f _ _) hr
        have c1 : s₁.cur = some node := (cur_of_fst (cur_doWrite sem _ _ _ _) heq).trans hc
        have hops : tdOps sem body (f + 1) s (.write r c v k) =
            writeOp sem s r c v x ++ tdOps sem body f s₁ (k x) := by simp only [tdOps, heq]
        have hstep := write_step h hc heq
        rw [hops, mergeAll_append, ← hstep]
        exact ih s₁ _ s' o l1.wf c1 (l1.task htn)
          (by rw [hstep]; exact mergeAll_noReserved hnr (reserved_not_mem_writeOp sem s r c v x)) hr
          (hframe.mid l1.tr l2.tr (TrPre.refl _))
    | wrote r c v k =>
      simp only [tdRun] at hr
      split at hr
      · cases hr
      · rename_i s₁ x heq
        have l1 : Lk s s₁ := Lk.of_call (doWrote_ext sem h r c v) (ext_doWrote sem _ _ _ _) heq
        have l2 : Lk s₁ s' := Lk.of_call (tdRun_ext sem body f l1.wf _) (ext_tdRun sem body f _ _) hr
        have c1 : s₁.cur = some node := (cur_of_fst (cur_doWrote sem _ _ _ _) heq).trans hc
        have hops : tdOps sem body (f + 1) s (.wrote r c v k) =
            writeOp sem s r c v x ++ tdOps sem body f s₁ (k x) := by simp only [tdOps, heq]
        have hstep := wrote_step h hc heq
        rw [hops, mergeAll_append, ← hstep]
        exact ih s₁ _ s' o l1.wf c1 (l1.task htn)
          (by rw [hstep]; exact mergeAll_noReserved hnr (reserved_not_mem_writeOp sem s r c v x)) hr
          (hframe.mid l1.tr l2.tr (TrPre.refl _))

/-- No `reserved` placeholder is among the performed operations. -/
theorem reserved_not_mem_tdOps (f : Nat) : ∀ (s : Sess) (p : Prog),
    Dep.reserved ∉ tdOps sem body f s p := by
  induction f with
  | zero => intro s p; simp [tdOps]
  | succ f ih =>
    intro s p
    cases p with
    | ret v => simp [tdOps]
    | panic => simp [tdOps]
    | req t c k =>
      simp only [tdOps]; split
      · simp
      · simp [ih]
    | read r c k =>
      simp only [tdOps]; split
      · simp
      · simp [ih, reserved_not_mem_readOp]
    | write r c v k =>
      simp only [tdOps]; split
      · simp
      · simp [ih, reserved_not_mem_writeOp]
    | wrote r c v k =>
      simp only [tdOps]; split
      · simp
      · simp [ih, reserved_not_mem_writeOp]

end C08
end PieModel
