/-
The executing-stack invariant for the bottom-up entry points: `buExecuteScheduled`,
`updateAffectedTasks`, `bottomUpBuild`.  Between builds the stack is empty: `BFrames s []` is
`SessOK s ∧ s.cur = none`, `BTrc s []` is `TraceClosed s.trace`.
-/
import PieModel.Build.StackBU2.Induct

namespace PieModel

variable (sem : Sem) (body : Nat → Prog) {T : Prop}

theorem buExecuteScheduled_stack2 (f : Nat) : ∀ (s : Sess), BFrames s [] → (T → BTrc s []) →
    PostS T [] s (fun s' _ => BFrames s' []) (buExecuteScheduled sem body f s) := by
  induction f with
  | zero =>
    intro s h hT; unfold buExecuteScheduled; exact PostS.abort_here h hT (QuietB.refl _ _)
  | succ f ih =>
    intro s h hT
    unfold buExecuteScheduled
    split
    · exact ⟨h, hT, QuietB.refl _ _⟩
    next n q hq =>
      have hwq := (h.wf.subQueue (fun _ hm => queuePop_rest_subset hq hm)).wf
      have fq : BFrames { s with queue := q } [] := h.of_same hwq rfl rfl rfl
      have qq : QStep s { s with queue := q } := QStep.of_eq rfl rfl
      have tq := h.btrc_step hT qq
      have key := (buStack2 sem body T f).execAndSchedule _ [] n fq tq (fun _ hx => nomatch hx)
      split
      next s2 a heq =>
        obtain ⟨hab, q2⟩ := key.abort heq
        exact ⟨hab, (QuietB.of_step qq).trans q2⟩
      next s2 o heq =>
        obtain ⟨⟨f2, _, _⟩, t2, q2⟩ := key.ok heq
        exact PostS.chain ((QuietB.of_step qq).trans q2) (ih s2 f2 t2) fun _ _ hp => hp

/-- The state in which `updateAffectedTasks` starts the queue loop. -/
theorem SessOK.bframes_start {s : Sess} (h : SessOK s) :
    BFrames (({ s with cur := none } : Sess).emit .buildStart) [] :=
  (BFrames.nil_iff.mpr ⟨⟨h.wf.clearCur.wf, h.done.nrd, h.done.cons⟩, rfl⟩).emit _

theorem updateAffectedTasks_stack2 (f : Nat) (s : Sess) (h : SessOK s)
    (hT : T → TraceClosed s.trace) :
    PostS T [] s (fun s' _ => BFrames s' []) (updateAffectedTasks sem body f s) := by
  unfold updateAffectedTasks; simp only []
  have f0 := h.bframes_start
  have q0 : QStep s (({ s with cur := none } : Sess).emit .buildStart) :=
    ⟨Store.Le.refl _, Silent.of_events (evs := [.buildStart]) rfl (by simp [Ev.isExecEv])⟩
  have t0 : T → BTrc (({ s with cur := none } : Sess).emit .buildStart) [] := fun hT' =>
    (bTrc_nil_iff.mpr (hT hT')).step (fun _ hn => nomatch hn) q0
  have key := buExecuteScheduled_stack2 sem body f _ f0 t0
  split
  next s2 a heq =>
    obtain ⟨hab, q2⟩ := key.abort heq
    exact ⟨hab, (QuietB.of_step q0).trans q2⟩
  next s2 heq =>
    obtain ⟨f2, t2, q2⟩ := key.ok heq
    have q3 : QStep s2 (s2.emit .buildEnd) := QStep.emit s2 rfl
    exact ⟨f2.emit .buildEnd, f2.btrc_step t2 q3,
      ((QuietB.of_step q0).trans q2).trans (QuietB.of_step q3)⟩

theorem scheduleAffectedBy_foldl (l : List Nat) : ∀ (s : Sess), SessOK s →
    SessOK (l.foldl (fun s r => scheduleAffectedBy sem s r) s) ∧
      QStep s (l.foldl (fun s r => scheduleAffectedBy sem s r) s) := by
  induction l with
  | nil => intro s hs; exact ⟨hs, QStep.refl s⟩
  | cons r l ih =>
    intro s hs
    obtain ⟨h1, h2⟩ := ih _ (scheduleAffectedBy_sessOK sem hs r)
    exact ⟨h1, (qstep_scheduleAffectedBy sem hs.wf r).trans h2⟩

theorem TraceClosed.step {s s' : Sess} (h : TraceClosed s.trace) (q : QStep s s') :
    TraceClosed s'.trace :=
  bTrc_nil_iff.mp ((bTrc_nil_iff.mpr h).step (fun _ hn => nomatch hn) q)

theorem bottomUpBuild_stack2 (f : Nat) (s : Sess) (h : SessOK s) (hT : T → TraceClosed s.trace)
    (changed : List Nat) :
    PostS T [] s (fun s' _ => BFrames s' []) (bottomUpBuild sem body f s changed) := by
  unfold bottomUpBuild; simp only []
  have h0 : SessOK { s with queue := [] } :=
    ⟨(h.wf.subQueue (fun _ hm => by cases hm)).wf, h.done.nrd, h.done.cons⟩
  have q0 : QStep s { s with queue := [] } := QStep.of_eq rfl rfl
  obtain ⟨h1, q1⟩ := scheduleAffectedBy_foldl sem changed _ h0
  exact PostS.chain (QuietB.of_step (q0.trans q1))
    (updateAffectedTasks_stack2 sem body f _ h1 (fun hT' => (hT hT').step (q0.trans q1)))
    fun _ _ hp => hp

end PieModel
