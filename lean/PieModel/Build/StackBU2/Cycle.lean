/-
Consequences of the bottom-up executing-stack invariant:
* `BStackOK`: the invariant spelled out (`BFrames s stk ↔ SessWF s ∧ BStackOK s stk`);
* `buRequire` of a task on the stack aborts at once with the cyclic-dependency error;
* the stack is bounded by the number of task nodes;
* `buExec` enters its task exactly once.
-/
import PieModel.Build.StackBU2.Session

namespace PieModel

/-- The stack `stk` (graph nodes, outermost first) of the tasks executing in state `s` of a
bottom-up build. -/
structure BStackOK (s : Sess) (stk : List Nat) : Prop where
  /-- the innermost frame is `cur`; `cur = none` iff the stack is empty -/
  cur : s.cur = stk.getLast?
  /-- the frames are pairwise distinct task nodes without output -/
  task : ∀ n ∈ stk, ∃ t, s.store.taskOf n = some t
  noOutput : ∀ n ∈ stk, s.store.taskOutput n = none
  nodup : stk.Nodup
  /-- every frame reaches every later frame in the dependency graph; in particular consecutive
  frames are joined by a path -/
  path : stk.Pairwise s.store.g.Reach
  /-- a task with an output has no `reserved` dependency -/
  nrd : s.store.NoReservedDone
  /-- a task marked consistent is executing or has an output -/
  cons : ∀ n ∈ s.consistent, n ∈ stk ∨ s.store.taskOutput n ≠ none

theorem BFrames.stackOK {s : Sess} {stk : List Nat} (h : BFrames s stk) : BStackOK s stk :=
  ⟨h.cur_eq, h.task, h.noOut, h.nodup, h.core.path, h.nrd, h.consX⟩

theorem bframes_iff {s : Sess} {stk : List Nat} : BFrames s stk ↔ SessWF s ∧ BStackOK s stk := by
  constructor
  · intro h; exact ⟨h.wf, h.stackOK⟩
  · rintro ⟨hw, hs⟩
    have hex : s.store.execStack stk = stk := by
      unfold Store.execStack
      rw [List.filter_eq_self]
      intro n hn; rw [hs.noOutput n hn]; rfl
    refine ⟨⟨sessWF_noCons.mpr hw, hs.task, fun _ _ hc => absurd hc List.not_mem_nil, hs.path,
      ?_, hs.nrd, fun _ hc => absurd hc List.not_mem_nil⟩, hs.noOutput, hs.cons⟩
    show s.cur = (s.store.execStack stk).getLast?
    rw [hex]; exact hs.cur

/-- Consecutive frames are joined by a path of the dependency graph. -/
theorem BStackOK.next {s : Sess} {stk : List Nat} (h : BStackOK s stk) {pre post : List Nat}
    {x y : Nat} (he : stk = pre ++ x :: y :: post) : s.store.g.Reach x y := by
  have hp := h.path
  rw [he] at hp
  have := (List.pairwise_append.mp hp).2.1
  exact (List.pairwise_cons.mp this).1 y (by simp)

variable (sem : Sem) (body : Nat → Prog)

/-- Requiring a task whose node is the current task or reaches it in the dependency graph:
`reserve_require_dependency` detects the cycle; nothing but the `require_start` event happens. -/
theorem buRequire_closing_cycle (f : Nat) (s : Sess) (a t c n : Nat)
    (hwf : SessWF s) (hcur : s.cur = some a) (ht : aget s.store.taskNode t = some n)
    (hcl : a = n ∨ s.store.g.Reach n a) :
    buRequire sem body (f + 1) s t c = (s.emit (.requireStart t c), .abort .cyclic) := by
  have hw := hwf.store
  have hcyc : (s.store.addDependency a n .reserved).2 = .cycle := by
    rw [Store.addDependency_snd_cycle_iff hw]
    obtain ⟨ta, hta⟩ := hwf.cur a hcur
    exact ⟨Store.live_of_taskOf hta, Store.live_of_taskOf ((hw.task_iff t n).mp ht), hcl⟩
  have hadd : s.store.addDependency a n .reserved = (s.store, .cycle) :=
    Prod.ext (Store.addDependency_fst_of_ne_ok _ _ _ (by rw [hcyc]; simp)) hcyc
  have hres : reserveRequire (s.emit (.requireStart t c)) n =
      (s.emit (.requireStart t c), .abort .cyclic) := by
    unfold reserveRequire
    simp only [Sess.cur_emit, hcur, Sess.store_emit, hadd]
  have hst : ({ s.emit (.requireStart t c) with store := s.store } : Sess) =
      s.emit (.requireStart t c) := rfl
  unfold buRequire
  simp only [Sess.store_emit, Store.getOrCreateTaskNode_of_some ht, hst, hres]

/-- Every frame of the stack is the current task or reaches it. -/
theorem BStackOK.closes {s : Sess} {stk : List Nat} (hs : BStackOK s stk) {n : Nat}
    (hn : n ∈ stk) : ∃ a, s.cur = some a ∧ (a = n ∨ s.store.g.Reach n a) := by
  obtain ⟨a, ha⟩ : ∃ a, stk.getLast? = some a := by
    cases h : stk.getLast? with
    | none => rw [List.getLast?_eq_none_iff] at h; subst h; cases hn
    | some a => exact ⟨a, rfl⟩
  obtain ⟨ys, hy⟩ := List.getLast?_eq_some_iff.mp ha
  refine ⟨a, hs.cur.trans ha, ?_⟩
  subst hy
  rcases List.mem_append.mp hn with h1 | h1
  · exact .inr ((List.pairwise_append.mp hs.path).2.2 n h1 a (by simp))
  · simp at h1; exact .inl h1.symm

/-- Requiring a task whose node is on the stack closes a cycle. -/
theorem buRequire_on_stack (f : Nat) (s : Sess) (stk : List Nat) (t c n : Nat)
    (hwf : SessWF s) (hs : BStackOK s stk) (ht : aget s.store.taskNode t = some n)
    (hn : n ∈ stk) :
    buRequire sem body (f + 1) s t c = (s.emit (.requireStart t c), .abort .cyclic) := by
  obtain ⟨a, hcur, hcl⟩ := hs.closes hn
  exact buRequire_closing_cycle sem body f s a t c n hwf hcur ht hcl

/-- The stack is bounded by the number of registered tasks. -/
theorem BStackOK.length_le {s : Sess} {stk : List Nat} (hwf : SessWF s) (hs : BStackOK s stk) :
    stk.length ≤ s.store.taskNode.length := by
  have : stk ⊆ s.store.taskNode.map (·.2) := by
    intro n hn
    obtain ⟨t, ht⟩ := hs.task n hn
    obtain ⟨o, ho⟩ := (Store.taskOf_eq_some_iff _ _ _).mp ht
    exact List.mem_map.mpr ⟨(t, n), (hwf.store.mem_taskNode_iff t n).mpr ⟨o, ho⟩, rfl⟩
  simpa using hs.nodup.length_le_of_subset this

/-- `buExec` enters its task exactly once — whether it returns or aborts. -/
theorem buExec_enters_once (f : Nat) (s : Sess) (ch : List Nat) (t node : Nat)
    (h : BFrames s ch) (ht : s.store.taskOf node = some t)
    (hr : ∀ x ∈ ch, s.store.g.Reach x node) :
    countExec t (buExec sem body (f + 1) s t node).1.trace = countExec t s.trace + 1 := by
  have hw := h.wf.store
  have f3 := h.pushExec ht hr (.executeStart t)
  have hd3 : (({ s with store := s.store.resetTask node, cur := some node } : Sess).emit
      (.executeStart t)).store.taskOf node = some t := by
    show (s.store.resetTask node).taskOf node = some t
    rw [Store.taskOf_resetTask hw node node]; exact ht
  have key := ((buStack2 sem body False f).run _ ch node (body t) f3 (fun hf => nomatch hf) (by
    show Dep.reserved ∉ (s.store.resetTask node).depsFrom node
    rw [Store.depsFrom_resetTask hw, if_pos rfl]; simp)).quiet
  have hc := key.start node (by simp) t hd3
  have h0 : countExec t (({ s with store := s.store.resetTask node, cur := some node } : Sess).emit
      (.executeStart t)).trace = countExec t s.trace + 1 := by
    show countExec t (s.trace ++ [.executeStart t]) = _
    rw [countExec_snoc_start]; simp
  unfold buExec; simp only []
  split
  next s4 a heq => rw [heq] at hc; rw [← h0, ← hc]
  next s4 o heq =>
    rw [heq] at hc
    show countExec t (s4.trace ++ [.executeEnd t o]) = _
    rw [countExec_snoc_end, ← h0, ← hc]

end PieModel
