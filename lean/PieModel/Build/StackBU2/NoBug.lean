/-
No internal-invariant (`bug`) abort inside a bottom-up build: joint induction on fuel over the six
bottom-up functions with the invariant `GFrames` (executing and waiting frames).

* `bug 1–3` (`add_dependency` of `read`/`write`/`written_to` with a missing node), `bug 4`
  (`reserve_require_dependency` with a missing node): the nodes exist (`SessWF`);
* `bug 5` (`update_require_dependency` finds no reserved edge): the current frame is not reset
  while it is on the stack, so the reserved edge is still there;
* `bug 20` (a task marked consistent has no output): a consistent task without output is
  executing, hence on the stack, and the callee of `buMake` is not on the stack (acyclicity);
* `bug 21` (no output after `buRequireNow` returned without executing the task): the task is a
  waiting frame while its scheduled dependencies are executed, so it keeps its output;
* `bug 22` (a queued node is not a task node): `SessWF`.
-/
import PieModel.Build.StackBU2.GFrames

namespace PieModel

/-- Post-condition: `P` if the call returns; an abort is not an internal-invariant abort. -/
def PostG {α : Type} (P : Sess → α → Prop) : Sess × Res α → Prop
  | (s', .ok v) => P s' v
  | (_, .abort k) => ∀ n, k ≠ .bug n

namespace PostG
variable {α : Type} {P Q : Sess → α → Prop}

theorem ok {F : Sess × Res α} {s' : Sess} {v : α} (h : PostG P F) (heq : F = (s', .ok v)) :
    P s' v := by rw [heq] at h; exact h

theorem abort {F : Sess × Res α} {s' : Sess} {k : Abort} (h : PostG P F)
    (heq : F = (s', .abort k)) : ∀ n, k ≠ .bug n := by rw [heq] at h; exact h

theorem mono {x : Sess × Res α} (h : PostG P x) (hpq : ∀ s' v, P s' v → Q s' v) : PostG Q x := by
  obtain ⟨s', r⟩ := x
  cases r with
  | ok v => exact hpq s' v h
  | abort k => exact h

theorem no_bug {x : Sess × Res α} (h : PostG P x) (n : Nat) : x.2 ≠ .abort (.bug n) := by
  obtain ⟨s', r⟩ := x
  cases r with
  | ok v => simp
  | abort k => intro hh; cases hh; exact h n rfl

end PostG

variable (sem : Sem) (body : Nat → Prog)

/-- The joint statement for fuel `f`. -/
structure GStack (f : Nat) : Prop where
  require : ∀ (s : Sess) (full₀ : List Nat) (a t c : Nat),
    GFrames s (full₀ ++ [a]) → s.cur = some a → Dep.reserved ∉ s.store.depsFrom a →
    PostG (fun s' _ => GFrames s' (full₀ ++ [a]) ∧ Keeps full₀ s s' ∧
      Dep.reserved ∉ s'.store.depsFrom a) (buRequire sem body f s t c)
  make : ∀ (s : Sess) (full₀ : List Nat) (a t node : Nat),
    GFrames s (full₀ ++ [a]) → s.cur = some a → s.store.taskOf node = some t →
    (∃ dep, (node, dep) ∈ s.store.g.outgoingEdges a) →
    PostG (fun s' v => GFrames s' (full₀ ++ [a]) ∧ Keeps (full₀ ++ [a]) s s' ∧
      s'.store.taskOutput node = some v) (buMake sem body f s t node)
  exec : ∀ (s : Sess) (full : List Nat) (t node : Nat),
    GFrames s full → s.store.taskOf node = some t → (∀ x ∈ full, s.store.g.Reach x node) →
    PostG (fun s' v => GFrames s' full ∧ Keeps full s s' ∧ s'.store.taskOutput node = some v)
      (buExec sem body f s t node)
  execAndSchedule : ∀ (s : Sess) (full : List Nat) (node : Nat),
    GFrames s full → (∃ t, s.store.taskOf node = some t) →
    (∀ x ∈ full, s.store.g.Reach x node) →
    PostG (fun s' v => GFrames s' full ∧ Keeps full s s' ∧ s'.store.taskOutput node = some v)
      (buExecAndSchedule sem body f s node)
  requireNow : ∀ (s : Sess) (full₀ : List Nat) (a src t : Nat),
    GFrames s (full₀ ++ [a]) → s.cur = some a → s.store.taskOf src = some t →
    s.store.taskOutput src ≠ none → (∃ dep, (src, dep) ∈ s.store.g.outgoingEdges a) →
    PostG (fun s' o => GFrames s' (full₀ ++ [a]) ∧ Keeps (full₀ ++ [a]) s s' ∧
      (∀ v, o = some v → s'.store.taskOutput src = some v) ∧ s'.store.taskOutput src ≠ none)
      (buRequireNow sem body f s src)
  run : ∀ (s : Sess) (full₀ : List Nat) (a : Nat) (p : Prog),
    GFrames s (full₀ ++ [a]) → s.cur = some a → Dep.reserved ∉ s.store.depsFrom a →
    PostG (fun s' _ => GFrames s' (full₀ ++ [a]) ∧ Keeps full₀ s s' ∧
      Dep.reserved ∉ s'.store.depsFrom a) (buRun sem body f s p)

theorem GStack.zero : GStack sem body 0 := by
  refine ⟨?_, ?_, ?_, ?_, ?_, ?_⟩
  · intro s full₀ a t c _ _ _; unfold buRequire; exact fun n => by simp
  · intro s full₀ a t n _ _ _ _; unfold buMake; exact fun n => by simp
  · intro s full t n _ _ _; unfold buExec; exact fun n => by simp
  · intro s full n _ _ _; unfold buExecAndSchedule; exact fun n => by simp
  · intro s full₀ a n t _ _ _ _ _; unfold buRequireNow; exact fun n => by simp
  · intro s full₀ a p _ _ _; unfold buRun; exact fun n => by simp

theorem GStack.exec_succ {f : Nat} (ih : GStack sem body f) (s : Sess) (full : List Nat)
    (t node : Nat) (h : GFrames s full) (ht : s.store.taskOf node = some t)
    (hr : ∀ x ∈ full, s.store.g.Reach x node) :
    PostG (fun s' v => GFrames s' full ∧ Keeps full s s' ∧ s'.store.taskOutput node = some v)
      (buExec sem body (f + 1) s t node) := by
  unfold buExec; simp only []
  have hw := h.wf.store
  have hnch : node ∉ full := h.core.not_mem_of_reach hr
  have f3 := h.pushExec ht hr (.executeStart t)
  have k3 := keeps_pushExec_emit hw hnch (.executeStart t)
  have key := ih.run _ full node (body t) f3 rfl (by
    show Dep.reserved ∉ (s.store.resetTask node).depsFrom node
    rw [Store.depsFrom_resetTask hw, if_pos rfl]; simp)
  split
  next s4 a heq => exact key.abort heq
  next s4 o heq =>
    obtain ⟨f4, k4, hnr4⟩ := key.ok heq
    have e4 := (buRun_ext sem body f f3.wf _).out heq
    have hd4 : s4.store.taskOf node = some t := e4.le.task _ _ (by
      show (s.store.resetTask node).taskOf node = some t
      rw [Store.taskOf_resetTask hw node node]; exact ht)
    have k34 : Keeps full s s4 := k3.trans k4
    obtain ⟨f5, ho5⟩ := f4.popExec (s' := { ({ (s4.emit (.executeEnd t o)) with cur := s.cur } :
      Sess) with store := s4.store.setTaskOutput node o }) hnr4 o hd4 rfl (by
        show s.cur = _
        rw [k34.execStack]; exact h.core.cur) rfl rfl
    exact ⟨f5, k34.trans (keeps_popExec o rfl hnch), ho5⟩

theorem GStack.execAndSchedule_succ {f : Nat} (ih : GStack sem body f) (s : Sess)
    (full : List Nat) (node : Nat) (h : GFrames s full)
    (hn : ∃ t, s.store.taskOf node = some t) (hr : ∀ x ∈ full, s.store.g.Reach x node) :
    PostG (fun s' v => GFrames s' full ∧ Keeps full s s' ∧ s'.store.taskOutput node = some v)
      (buExecAndSchedule sem body (f + 1) s node) := by
  unfold buExecAndSchedule
  split
  next hnone => obtain ⟨t, ht⟩ := hn; rw [ht] at hnone; cases hnone
  next t ht =>
    have key := ih.exec s full t node h ht hr
    split
    next s2 a heq => exact key.abort heq
    next s2 o heq =>
      obtain ⟨f2, k2, ho2⟩ := key.ok heq
      obtain ⟨f3, hs3⟩ := f2.scheduleAfterExec sem t o (node := node) (by rw [ho2]; simp)
      exact ⟨f3, k2.congr_right hs3, by rw [hs3]; exact ho2⟩

theorem GStack.requireNow_succ {f : Nat} (ih : GStack sem body f) (s : Sess) (full₀ : List Nat)
    (a src t : Nat) (h : GFrames s (full₀ ++ [a])) (hc : s.cur = some a)
    (ht : s.store.taskOf src = some t) (ho : s.store.taskOutput src ≠ none)
    (he : ∃ dep, (src, dep) ∈ s.store.g.outgoingEdges a) :
    PostG (fun s' o => GFrames s' (full₀ ++ [a]) ∧ Keeps (full₀ ++ [a]) s s' ∧
      (∀ v, o = some v → s'.store.taskOutput src = some v) ∧ s'.store.taskOutput src ≠ none)
      (buRequireNow sem body (f + 1) s src) := by
  unfold buRequireNow
  split
  · exact ⟨h, Keeps.refl _ _, fun v hv => (nomatch hv), ho⟩
  · split
    · exact ⟨h, Keeps.refl _ _, fun v hv => (nomatch hv), ho⟩
    next m q hq =>
      have eq0 := h.wf.subQueue (fun _ hm => queuePopLeastFrom_rest_subset hq hm)
      have hwq := eq0.wf
      have fq : GFrames { s with queue := q } (full₀ ++ [a]) := h.of_same hwq rfl rfl rfl
      obtain ⟨i, hi, hget, _, hcone, _⟩ := queuePopLeastFrom_eq_some hq
      have hmq : m ∈ s.queue := by
        rw [← mem_queueSort (st := s.store), ← hget]; exact List.getElem_mem hi
      have hmt : ∃ tm, s.store.taskOf m = some tm := h.wf.queue m hmq
      have hsrc : ∀ x ∈ full₀ ++ [a], s.store.g.Reach x src := h.link he
      by_cases hm : m = src
      · have hlink : ∀ x ∈ full₀ ++ [a], s.store.g.Reach x m := by rw [hm]; exact hsrc
        have key := ih.execAndSchedule _ (full₀ ++ [a]) m fq hmt hlink
        split
        next s2 k heq => exact key.abort heq
        next s2 o heq =>
          obtain ⟨f2, k2, ho2⟩ := key.ok heq
          have k2' : Keeps (full₀ ++ [a]) s s2 := (Keeps.of_store (s := s) rfl).trans k2
          rw [if_pos hm]
          exact ⟨f2, k2', fun v hv => by cases hv; rw [← hm]; exact ho2,
            by rw [← hm, ho2]; simp⟩
      · have hsm : s.store.g.Reach src m := by
          rcases inCone_iff.mp hcone with hm' | hm'
          · exact absurd hm' hm
          · exact (h.wf.store.containsTransitive_iff src m).mp hm'
        have fw : GFrames { s with queue := q } (full₀ ++ [a] ++ [src]) :=
          fq.push_waiting ht ho hsrc
        have hlink : ∀ x ∈ full₀ ++ [a] ++ [src], s.store.g.Reach x m := by
          intro x hx
          rcases List.mem_append.mp hx with hx | hx
          · exact (hsrc x hx).trans hsm
          · simp at hx; subst hx; exact hsm
        have key := ih.execAndSchedule _ (full₀ ++ [a] ++ [src]) m fw hmt hlink
        split
        next s2 k heq => exact key.abort heq
        next s2 o heq =>
          obtain ⟨f2, k2, _⟩ := key.ok heq
          have hos2 : s2.store.taskOutput src ≠ none := by
            rw [(k2 src (by simp)).2]; exact ho
          have f2' := f2.pop_waiting hos2
          have k2' : Keeps (full₀ ++ [a]) s s2 :=
            (Keeps.of_store (s := s) rfl).trans (k2.mono fun n hn => List.mem_append_left _ hn)
          have hc2 : s2.cur = some a := by
            rw [(bu_cur sem body f).2.2.2.1 _ m s2 o heq]; exact hc
          have e2 := eq0.trans ((buExecAndSchedule_ext sem body f hwq m).out heq)
          have ht2 := e2.le.task _ _ ht
          rw [if_neg hm]
          obtain ⟨dep, hdep⟩ := he
          refine (ih.requireNow s2 full₀ a src t f2' hc2 ht2 hos2 ⟨dep, by
            rw [(k2' a (by simp)).1]; exact hdep⟩).mono ?_
          rintro s' o' ⟨h1, h2, h3, h4⟩
          exact ⟨h1, k2'.trans h2, h3, h4⟩

theorem GStack.make_succ {f : Nat} (ih : GStack sem body f) (s : Sess) (full₀ : List Nat)
    (a t node : Nat) (h : GFrames s (full₀ ++ [a])) (hc : s.cur = some a)
    (ht : s.store.taskOf node = some t)
    (he : ∃ dep, (node, dep) ∈ s.store.g.outgoingEdges a) :
    PostG (fun s' v => GFrames s' (full₀ ++ [a]) ∧ Keeps (full₀ ++ [a]) s s' ∧
      s'.store.taskOutput node = some v) (buMake sem body (f + 1) s t node) := by
  unfold buMake
  split
  next hcons =>
    split
    next o ho => exact ⟨h, Keeps.refl _ _, ho⟩
    next hnone =>
      exfalso
      rcases h.consX node hcons with h' | h'
      · exact h.core.not_mem_of_reach (h.link he) h'
      · exact h' hnone
  · split
    · exact ih.exec s (full₀ ++ [a]) t node h ht (h.link he)
    next o0 ho0 =>
      have key := ih.requireNow s full₀ a node t h hc ht (by rw [ho0]; simp) he
      split
      next s2 k heq => exact key.abort heq
      next s2 o heq =>
        obtain ⟨f2, k2, ho2, _⟩ := key.ok heq
        exact ⟨f2, k2, ho2 o rfl⟩
      next s2 heq =>
        obtain ⟨f2, k2, _, hne⟩ := key.ok heq
        split
        next o ho => exact ⟨f2, k2, ho⟩
        next hnone => exact absurd hnone hne

theorem GStack.require_succ {f : Nat} (ih : GStack sem body f) (s : Sess) (full₀ : List Nat)
    (a t c : Nat) (h : GFrames s (full₀ ++ [a])) (hc : s.cur = some a)
    (hnr : Dep.reserved ∉ s.store.depsFrom a) :
    PostG (fun s' _ => GFrames s' (full₀ ++ [a]) ∧ Keeps full₀ s s' ∧
      Dep.reserved ∉ s'.store.depsFrom a) (buRequire sem body (f + 1) s t c) := by
  unfold buRequire; simp only []
  have hw := h.wf.store
  have f1 := (h.emit (.requireStart t c)).getTask t
  have k1 : Keeps full₀ s _ :=
    (Keeps.of_store (s' := s.emit (.requireStart t c)) rfl).trans (keeps_getTask hw full₀ t)
  have hd := Store.taskOf_getOrCreateTaskNode_self hw t
  have ha : a ∈ full₀ ++ [a] := by simp
  split
  next s2 k heq =>
    have := f1.reserve_abort hd heq
    subst this
    exact fun n => by simp
  next s2 heq =>
    obtain ⟨f2, k2, le2, e21, e22, c2⟩ := f1.reserve_ok hc hd heq
    have hc2 : s2.cur = some a := c2.trans hc
    have hd2 := le2.task _ _ hd
    have key := ih.make s2 full₀ a t _ f2 hc2 hd2 e21
    split
    next s3 k heq3 => exact key.abort heq3
    next s3 out heq3 =>
      obtain ⟨f3, k3, ho3⟩ := key.ok heq3
      have e3 := (buMake_ext sem body f f2.wf t ⟨t, hd2⟩).out heq3
      have hd3 := e3.le.task _ _ hd2
      have hc3 : s3.cur = some a := (cur_buMake sem body heq3).trans hc2
      have hedge3 : ∃ dep, ((s.store.getOrCreateTaskNode t).2, dep) ∈
          (s3.emit (.requireEnd t c (sem.ostamp c out) out)).store.g.outgoingEdges a := by
        obtain ⟨dep, hdep⟩ := e21
        exact ⟨dep, by show (_, dep) ∈ s3.store.g.outgoingEdges a; rw [(k3 a ha).1]; exact hdep⟩
      have fin : ∀ s4 r4, updateRequire (s3.emit (.requireEnd t c (sem.ostamp c out) out))
          (s.store.getOrCreateTaskNode t).2 t c (sem.ostamp c out) = (s4, r4) →
          r4 = .ok () ∧ GFrames (s4.markConsistent (s.store.getOrCreateTaskNode t).2) (full₀ ++ [a]) ∧
            Keeps full₀ s (s4.markConsistent (s.store.getOrCreateTaskNode t).2) ∧
            Dep.reserved ∉ (s4.markConsistent (s.store.getOrCreateTaskNode t).2).store.depsFrom a := by
        intro s4 r4 heq4
        obtain ⟨hr4, f4, k4, o4, hdeps⟩ := (f3.emit _).update hc3 hd3 hedge3 heq4
        refine ⟨hr4, f4.markConsistent (by rw [o4]; show s3.store.taskOutput _ ≠ none; rw [ho3]; simp),
          ?_, ?_⟩
        · have k3' : Keeps full₀ s2 s3 := k3.mono fun n hn => List.mem_append_left _ hn
          exact ((((k1.trans k2).trans k3').trans
            ((Keeps.of_store (s := s3) rfl).trans k4))).congr_right (by simp)
        · rw [Sess.store_markConsistent]
          intro hres
          rcases hdeps _ hres with hq | ⟨b, hb, hbm⟩
          · cases hq
          · change (b, Dep.reserved) ∈ s3.store.g.outgoingEdges a at hbm
            rw [(k3 a ha).1] at hbm
            rcases e22 _ hbm with hbm | hbm
            · change (b, Dep.reserved) ∈ (s.store.getOrCreateTaskNode t).1.g.outgoingEdges a at hbm
              rw [Store.outgoingEdges_getOrCreateTaskNode hw] at hbm
              exact hnr (Store.mem_depsFrom_iff.mpr ⟨b, hbm⟩)
            · cases hbm; exact hb rfl
      split
      next s4 k heq4 => obtain ⟨hr4, _⟩ := fin s4 _ heq4; cases hr4
      next s4 heq4 => exact (fin s4 _ heq4).2

theorem GStack.run_succ {f : Nat} (ih : GStack sem body f) (s : Sess) (full₀ : List Nat)
    (a : Nat) (p : Prog) (h : GFrames s (full₀ ++ [a])) (hc : s.cur = some a)
    (hnr : Dep.reserved ∉ s.store.depsFrom a) :
    PostG (fun s' _ => GFrames s' (full₀ ++ [a]) ∧ Keeps full₀ s s' ∧
      Dep.reserved ∉ s'.store.depsFrom a) (buRun sem body (f + 1) s p) := by
  have cont : ∀ (s2 : Sess) (p' : Prog), GFrames s2 (full₀ ++ [a]) → s2.cur = some a →
      Keeps full₀ s s2 → Dep.reserved ∉ s2.store.depsFrom a →
      PostG (fun s' _ => GFrames s' (full₀ ++ [a]) ∧ Keeps full₀ s s' ∧
        Dep.reserved ∉ s'.store.depsFrom a) (buRun sem body f s2 p') := by
    intro s2 p' f2 hc2 k2 hnr2
    refine (ih.run s2 full₀ a p' f2 hc2 hnr2).mono ?_
    rintro s' _ ⟨h1, h2, h3⟩
    exact ⟨h1, k2.trans h2, h3⟩
  cases p with
  | ret v => unfold buRun; exact ⟨h, Keeps.refl _ _, hnr⟩
  | panic => unfold buRun; exact fun n => by simp
  | req t c k =>
    unfold buRun
    have key := ih.require s full₀ a t c h hc hnr
    split
    next s2 k' heq => exact key.abort heq
    next s2 out heq =>
      obtain ⟨f2, k2, hnr2⟩ := key.ok heq
      exact cont s2 _ f2 ((cur_buRequire sem body heq).trans hc) k2 hnr2
  | read r c k =>
    unfold buRun
    have key := h.doRead sem hc r c
    have hcur := doRead_cur sem s r c
    split
    next s2 k' heq => exact h.wf.doRead_no_bug sem heq
    next s2 x heq =>
      rw [heq] at key hcur
      exact cont s2 _ key.1 (hcur.trans hc) key.2.1 (key.2.2 hnr)
  | write r c v k =>
    unfold buRun
    have key := h.doWrite sem hc r c v
    have hcur := doWrite_cur sem s r c v
    split
    next s2 k' heq => exact h.wf.doWrite_no_bug sem heq
    next s2 x heq =>
      rw [heq] at key hcur
      exact cont s2 _ key.1 (hcur.trans hc) key.2.1 (key.2.2 hnr)
  | wrote r c v k =>
    unfold buRun
    have key := h.doWrote sem hc r c v
    have hcur := doWrote_cur sem s r c v
    split
    next s2 k' heq => exact h.wf.doWrote_no_bug sem heq
    next s2 x heq =>
      rw [heq] at key hcur
      exact cont s2 _ key.1 (hcur.trans hc) key.2.1 (key.2.2 hnr)

theorem gStack (f : Nat) : GStack sem body f := by
  induction f with
  | zero => exact GStack.zero sem body
  | succ f ih =>
    exact ⟨ih.require_succ sem body, ih.make_succ sem body, ih.exec_succ sem body,
      ih.execAndSchedule_succ sem body, ih.requireNow_succ sem body, ih.run_succ sem body⟩

/-! ### the entry points -/

theorem buExecuteScheduled_noBug (f : Nat) : ∀ (s : Sess), GFrames s [] →
    PostG (fun s' _ => GFrames s' []) (buExecuteScheduled sem body f s) := by
  induction f with
  | zero => intro s _; unfold buExecuteScheduled; exact fun n => by simp
  | succ f ih =>
    intro s h
    unfold buExecuteScheduled
    split
    · exact h
    next n q hq =>
      have hwq := (h.wf.subQueue (fun _ hm => queuePop_rest_subset hq hm)).wf
      have fq : GFrames { s with queue := q } [] := h.of_same hwq rfl rfl rfl
      have key := (gStack sem body f).execAndSchedule _ [] n fq (h.wf.queue n (queuePop_mem hq))
        (fun _ hx => nomatch hx)
      split
      next s2 a heq => exact key.abort heq
      next s2 o heq => exact ih s2 (key.ok heq).1

theorem updateAffectedTasks_noBug (f : Nat) (s : Sess) (h : SessOK s) :
    PostG (fun s' _ => SessOK s') (updateAffectedTasks sem body f s) := by
  unfold updateAffectedTasks; simp only []
  have key := buExecuteScheduled_noBug sem body f _ (GFrames.of_bframes h.bframes_start)
  split
  next s2 a heq => exact key.abort heq
  next s2 heq => exact (GFrames.nil_iff.mp ((key.ok heq).emit .buildEnd)).1

theorem bottomUpBuild_noBug (f : Nat) (s : Sess) (h : SessOK s) (changed : List Nat) :
    PostG (fun s' _ => SessOK s') (bottomUpBuild sem body f s changed) := by
  unfold bottomUpBuild; simp only []
  have h0 : SessOK { s with queue := [] } :=
    ⟨(h.wf.subQueue (fun _ hm => by cases hm)).wf, h.done.nrd, h.done.cons⟩
  exact updateAffectedTasks_noBug sem body f _ (scheduleAffectedBy_foldl sem changed _ h0).1

end PieModel
