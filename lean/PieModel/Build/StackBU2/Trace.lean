/-
Trace notions for "no re-entry" in the bottom-up build.

* `countEnd t tr`: number of `execute_end t _` events (next to `countExec t tr`, the number of
  `execute_start t` events, `Build/Stack/Defs.lean`).
* `NoReentry tr`: every `execute_start t` of the stream comes at a point at which every earlier
  execution of `t` has ended — no task is entered while it is executing.
* `Silent s s'`: the trace of `s'` is the trace of `s` plus events none of which is an
  `execute_start`/`execute_end`.  All session primitives and the scheduling functions are silent.
-/
import PieModel.Build.StackBU
import PieModel.Build.Stack.BottomUpSession

namespace PieModel
open Sess SessL

/-! ### counting `execute_end` -/

def Ev.isExecEnd (t : Nat) : Ev → Bool
  | .executeEnd t' _ => t' == t
  | _ => false

/-- An `execute_start` or `execute_end` event. -/
def Ev.isExecEv : Ev → Bool
  | .executeStart _ => true
  | .executeEnd _ _ => true
  | _ => false

/-- Number of `execute_end t _` events in a tracker stream. -/
def countEnd (t : Nat) (evs : List Ev) : Nat := evs.countP (Ev.isExecEnd t)

@[simp] theorem countEnd_nil (t : Nat) : countEnd t [] = 0 := rfl

theorem countEnd_append (t : Nat) (a b : List Ev) :
    countEnd t (a ++ b) = countEnd t a + countEnd t b := by simp [countEnd, List.countP_append]

theorem Ev.isExecStart_of_not_isExec {e : Ev} (h : e.isExecEv = false) (t : Nat) :
    e.isExecStart t = false := by
  cases e <;> first | rfl | (simp [Ev.isExecEv] at h)

theorem Ev.isExecEnd_of_not_isExec {e : Ev} (h : e.isExecEv = false) (t : Nat) :
    e.isExecEnd t = false := by
  cases e <;> first | rfl | (simp [Ev.isExecEv] at h)

theorem countExec_of_silent (t : Nat) {evs : List Ev} (h : ∀ e ∈ evs, Ev.isExecEv e = false) :
    countExec t evs = 0 := by
  unfold countExec
  rw [List.countP_eq_zero]
  intro e he
  rw [Ev.isExecStart_of_not_isExec (h e he)]; simp

theorem countEnd_of_silent (t : Nat) {evs : List Ev} (h : ∀ e ∈ evs, Ev.isExecEv e = false) :
    countEnd t evs = 0 := by
  unfold countEnd
  rw [List.countP_eq_zero]
  intro e he
  rw [Ev.isExecEnd_of_not_isExec (h e he)]; simp

theorem countExec_snoc_start (t u : Nat) (tr : List Ev) :
    countExec u (tr ++ [.executeStart t]) = countExec u tr + if t = u then 1 else 0 := by
  rw [countExec_append]
  congr 1
  by_cases h : t = u <;> simp [countExec, Ev.isExecStart, h]

theorem countEnd_snoc_start (t u : Nat) (tr : List Ev) :
    countEnd u (tr ++ [.executeStart t]) = countEnd u tr := by
  rw [countEnd_append]; simp [countEnd, Ev.isExecEnd]

theorem countExec_snoc_end (t u : Nat) (o : Int) (tr : List Ev) :
    countExec u (tr ++ [.executeEnd t o]) = countExec u tr := by
  rw [countExec_append]; simp [countExec, Ev.isExecStart]

theorem countEnd_snoc_end (t u : Nat) (o : Int) (tr : List Ev) :
    countEnd u (tr ++ [.executeEnd t o]) = countEnd u tr + if t = u then 1 else 0 := by
  rw [countEnd_append]
  congr 1
  by_cases h : t = u <;> simp [countEnd, Ev.isExecEnd, h]

/-! ### no re-entry, as a property of the tracker stream -/

/-- Every `execute_start t` comes when all earlier executions of `t` have ended. -/
def NoReentry (tr : List Ev) : Prop :=
  ∀ pre t, pre ++ [Ev.executeStart t] <+: tr → countExec t pre = countEnd t pre

theorem NoReentry.nil : NoReentry [] := by
  intro pre t h
  have := List.prefix_nil.mp h
  simp at this

theorem NoReentry.of_prefix {a b : List Ev} (h : NoReentry b) (hp : a <+: b) : NoReentry a :=
  fun pre t hpre => h pre t (hpre.trans hp)

/-- Appending one event. -/
theorem noReentry_snoc {tr : List Ev} {e : Ev} :
    NoReentry (tr ++ [e]) ↔
      NoReentry tr ∧ ∀ t, e = .executeStart t → countExec t tr = countEnd t tr := by
  constructor
  · intro h
    refine ⟨h.of_prefix (List.prefix_append _ _), ?_⟩
    rintro t rfl
    exact h tr t (List.prefix_refl _)
  · rintro ⟨h1, h2⟩ pre t hp
    obtain ⟨rest, hr⟩ := hp
    rcases List.eq_nil_or_concat rest with rfl | ⟨r', x, rfl⟩
    · rw [List.append_nil] at hr
      obtain ⟨hpre, he⟩ := List.append_inj' hr rfl
      cases he
      rw [hpre]; exact h2 t rfl
    · rw [List.concat_eq_append, ← List.append_assoc] at hr
      obtain ⟨hpre, _⟩ := List.append_inj' hr rfl
      exact h1 pre t ⟨r', hpre⟩

theorem NoReentry.snoc_of_not_start {tr : List Ev} (h : NoReentry tr) {e : Ev}
    (he : ∀ t, e ≠ .executeStart t) : NoReentry (tr ++ [e]) :=
  noReentry_snoc.mpr ⟨h, fun t ht => absurd ht (he t)⟩

theorem NoReentry.snoc_start {tr : List Ev} (h : NoReentry tr) {t : Nat}
    (hb : countExec t tr = countEnd t tr) : NoReentry (tr ++ [.executeStart t]) :=
  noReentry_snoc.mpr ⟨h, fun t' ht => by cases ht; exact hb⟩

theorem NoReentry.append_silent {tr : List Ev} (h : NoReentry tr) {evs : List Ev}
    (hs : ∀ e ∈ evs, Ev.isExecEv e = false) : NoReentry (tr ++ evs) := by
  induction evs generalizing tr with
  | nil => simpa using h
  | cons e evs ih =>
    have h1 : NoReentry (tr ++ [e]) := by
      refine h.snoc_of_not_start ?_
      rintro t rfl
      have := hs (.executeStart t) (by simp)
      simp [Ev.isExecEv] at this
    have := ih h1 fun x hx => hs x (by simp [hx])
    rwa [List.append_assoc] at this

/-- A Boolean test for `NoReentry` (for concrete streams): walk the stream with the prefix seen
so far. -/
def noReentryFrom (pre : List Ev) : List Ev → Bool
  | [] => true
  | e :: es =>
    (match e with
      | .executeStart t => countExec t pre == countEnd t pre
      | _ => true) && noReentryFrom (pre ++ [e]) es

theorem noReentryFrom_sound (pre es : List Ev) (hpre : NoReentry pre)
    (h : noReentryFrom pre es = true) : NoReentry (pre ++ es) := by
  induction es generalizing pre with
  | nil => simpa using hpre
  | cons e es ih =>
    unfold noReentryFrom at h
    rw [Bool.and_eq_true] at h
    have : NoReentry (pre ++ [e]) := by
      refine noReentry_snoc.mpr ⟨hpre, ?_⟩
      rintro t rfl
      simpa using h.1
    have := ih (pre ++ [e]) this h.2
    rwa [List.append_assoc] at this

theorem noReentry_of_check {tr : List Ev} (h : noReentryFrom [] tr = true) : NoReentry tr := by
  simpa using noReentryFrom_sound [] tr NoReentry.nil h

/-! ### silent steps -/

/-- The trace grew by events none of which is an `execute_start`/`execute_end`. -/
def Silent (s s' : Sess) : Prop :=
  ∃ evs, s'.trace = s.trace ++ evs ∧ ∀ e ∈ evs, Ev.isExecEv e = false

namespace Silent
variable {s a b s' : Sess}

theorem of_eq (h : s'.trace = s.trace) : Silent s s' := ⟨[], by simp [h], by simp⟩

theorem refl (s : Sess) : Silent s s := of_eq rfl

theorem trans (h₁ : Silent s a) (h₂ : Silent a b) : Silent s b := by
  obtain ⟨e1, t1, q1⟩ := h₁
  obtain ⟨e2, t2, q2⟩ := h₂
  refine ⟨e1 ++ e2, by rw [t2, t1, List.append_assoc], ?_⟩
  intro e he
  rcases List.mem_append.mp he with he | he
  · exact q1 e he
  · exact q2 e he

theorem emit (s : Sess) {e : Ev} (he : e.isExecEv = false) : Silent s (s.emit e) :=
  ⟨[e], rfl, by simpa using he⟩

theorem of_events {evs : List Ev} (h : s'.trace = s.trace ++ evs)
    (hq : ∀ e ∈ evs, Ev.isExecEv e = false) : Silent s s' := ⟨evs, h, hq⟩

theorem countExec (h : Silent s s') (t : Nat) : countExec t s'.trace = countExec t s.trace := by
  obtain ⟨evs, ht, hq⟩ := h
  rw [ht, countExec_append, countExec_of_silent t hq]; rfl

theorem countEnd (h : Silent s s') (t : Nat) : countEnd t s'.trace = countEnd t s.trace := by
  obtain ⟨evs, ht, hq⟩ := h
  rw [ht, countEnd_append, countEnd_of_silent t hq]; rfl

theorem noReentry (h : Silent s s') (hn : NoReentry s.trace) : NoReentry s'.trace := by
  obtain ⟨evs, ht, hq⟩ := h
  rw [ht]; exact hn.append_silent hq

theorem foldl {α : Type} (g : Sess → α → Sess) (hg : ∀ (s : Sess) x, Silent s (g s x))
    (l : List α) (s : Sess) : Silent s (l.foldl g s) := by
  induction l generalizing s with
  | nil => exact refl s
  | cons x l ih => exact (hg s x).trans (ih _)

theorem out {α : Type} {F : Sess × α} {r : α} (q : Silent s F.1) (heq : F = (s', r)) :
    Silent s s' := by rw [heq] at q; exact q

end Silent

variable (sem : Sem)

/-! ### the session primitives are silent -/

theorem silent_of_rwpost {α : Type} {c : Nat} {s : Sess} {st : Ev} {en : Stamp → Ev}
    {x : Sess × Res (Except Int α)} (h : RWPost sem c s st en x)
    (hst : st.isExecEv = false) (hen : ∀ stamp, (en stamp).isExecEv = false) : Silent s x.1 := by
  obtain ⟨s', res⟩ := x
  have h1 : s'.trace = s.trace → Silent s s' := Silent.of_eq
  have h2 : s'.trace = s.trace ++ [st] → Silent s s' := fun ht =>
    Silent.of_events ht (by simpa using hst)
  have h3 : ∀ stamp, s'.trace = s.trace ++ [st, en stamp] → Silent s s' := fun stamp ht =>
    Silent.of_events ht (by
      intro e he
      simp only [List.mem_cons, List.not_mem_nil, or_false] at he
      rcases he with rfl | rfl
      · exact hst
      · exact hen stamp)
  cases res with
  | abort a =>
    rcases h with h | ⟨stamp, h⟩
    · exact h2 h
    · exact h3 stamp h
  | ok y =>
    cases y with
    | ok _ =>
      rcases h with h | ⟨stamp, h⟩
      · exact h1 h
      · exact h3 stamp h
    | error e => exact h2 h.1

theorem silent_doRead (s : Sess) (r c : Nat) : Silent s (doRead sem s r c).1 :=
  silent_of_rwpost sem (doRead_events sem s r c) rfl (fun _ => rfl)

theorem silent_doWrite (s : Sess) (r c : Nat) (v : Option Int) :
    Silent s (doWrite sem s r c v).1 :=
  silent_of_rwpost sem (doWrite_events sem s r c v) rfl (fun _ => rfl)

theorem silent_doWrote (s : Sess) (r c : Nat) (v : Option Int) :
    Silent s (doWrote sem s r c v).1 :=
  silent_of_rwpost sem (doWrote_events sem s r c v) rfl (fun _ => rfl)

theorem trace_reserveRequire (s : Sess) (dst : Nat) :
    (reserveRequire s dst).1.trace = s.trace := by
  unfold reserveRequire
  split
  · rfl
  · split <;> rfl

theorem trace_updateRequire (s : Sess) (dst t c : Nat) (stamp : Stamp) :
    (updateRequire s dst t c stamp).1.trace = s.trace := by
  unfold updateRequire
  split
  · rfl
  · split <;> rfl

/-! ### scheduling is silent -/

theorem silent_readCheckEvents (s : Sess) (t c : Nat) (stamp : Stamp)
    (res : Except Int Bool) : Silent s (readCheckEvents s t c stamp res) :=
  (Silent.emit s rfl).trans (Silent.emit _ rfl)

theorem silent_scheduleEv (s : Sess) (t tnode : Nat) : Silent s (scheduleEv s t tnode) :=
  Silent.of_events (evs := [.scheduleTask t]) rfl (by simp [Ev.isExecEv])

theorem silent_trySchedule (s : Sess) (tnode : Nat) (d : Dep) :
    Silent s (trySchedule sem s tnode d) := by
  cases ht : s.store.taskOf tnode with
  | none => rw [trySchedule_other sem s tnode d (.inl ht)]; exact Silent.refl s
  | some t =>
    cases d with
    | reserved => rw [trySchedule_other sem s tnode _ (.inr (.inl rfl))]; exact Silent.refl s
    | require t' c stamp =>
      rw [trySchedule_other sem s tnode _ (.inr (.inr ⟨_, _, _, rfl⟩))]; exact Silent.refl s
    | read r c stamp =>
      rw [trySchedule_read sem s tnode t r c stamp ht]
      split
      · exact silent_readCheckEvents s t c stamp _
      · exact (silent_readCheckEvents s t c stamp _).trans (silent_scheduleEv _ t tnode)
      next e _ =>
        have q2 : Silent (readCheckEvents s t c stamp (.error e))
            ({ readCheckEvents s t c stamp (.error e) with errors := s.errors ++ [e] } : Sess) :=
          Silent.of_eq rfl
        exact ((silent_readCheckEvents s t c stamp _).trans q2).trans
          (silent_scheduleEv _ t tnode)
    | write r c stamp =>
      rw [trySchedule_write sem s tnode t r c stamp ht]
      split
      · exact silent_readCheckEvents s t c stamp _
      · exact (silent_readCheckEvents s t c stamp _).trans (silent_scheduleEv _ t tnode)
      next e _ =>
        have q2 : Silent (readCheckEvents s t c stamp (.error e))
            ({ readCheckEvents s t c stamp (.error e) with errors := s.errors ++ [e] } : Sess) :=
          Silent.of_eq rfl
        exact ((silent_readCheckEvents s t c stamp _).trans q2).trans
          (silent_scheduleEv _ t tnode)

theorem silent_writtenSchedStep (s : Sess) (w : Nat) : Silent s (writtenSchedStep sem s w) := by
  unfold writtenSchedStep
  split
  · exact Silent.refl s
  · exact ((Silent.emit s rfl).trans
      (Silent.foldl _ (fun s (p : Nat × Dep) => silent_trySchedule sem s p.1 p.2) _ _)).trans
      (Silent.emit _ rfl)

theorem silent_reqSchedStep (out : Int) (s : Sess) (p : Nat × Dep) :
    Silent s (reqSchedStep sem out s p) := by
  unfold reqSchedStep
  split
  · simp only
    split
    · exact (Silent.emit s rfl).trans (Silent.emit _ rfl)
    · exact ((Silent.emit s rfl).trans (Silent.emit _ rfl)).trans
        (Silent.of_events (evs := [.scheduleTask _]) rfl (by simp [Ev.isExecEv]))
  · exact Silent.refl s

theorem silent_scheduleAfterExec (s : Sess) (node t : Nat) (out : Int) :
    Silent s (scheduleAfterExec sem s node t out) := by
  rw [scheduleAfterExec_eq]
  simp only
  have q1 : Silent s ((s.store.resourcesWrittenBy node).foldl (writtenSchedStep sem) s) :=
    Silent.foldl _ (silent_writtenSchedStep sem) _ s
  generalize (s.store.resourcesWrittenBy node).foldl (writtenSchedStep sem) s = s₁ at q1 ⊢
  have q2 : Silent s₁ (s₁.emit (.schedTaskStart t)) := Silent.emit _ rfl
  have q3 : Silent (s₁.emit (.schedTaskStart t))
      (((s₁.emit (.schedTaskStart t)).store.requireDepsTo node).foldl (reqSchedStep sem out)
        (s₁.emit (.schedTaskStart t))) :=
    Silent.foldl _ (silent_reqSchedStep sem out) _ _
  generalize ((s₁.emit (.schedTaskStart t)).store.requireDepsTo node).foldl (reqSchedStep sem out)
    (s₁.emit (.schedTaskStart t)) = s₃ at q3 ⊢
  have q4 : Silent s₃ (s₃.emit (.schedTaskEnd t)) := Silent.emit _ rfl
  have q5 : Silent (s₃.emit (.schedTaskEnd t)) ((s₃.emit (.schedTaskEnd t)).markConsistent node) :=
    Silent.of_eq (by simp)
  exact (((q1.trans q2).trans q3).trans q4).trans q5

theorem silent_scheduleAffectedBy (s : Sess) (r : Nat) : Silent s (scheduleAffectedBy sem s r) := by
  unfold scheduleAffectedBy; simp only []
  have q1 : Silent s ({ s.emit (.schedResStart r) with store := (s.store.getOrCreateResNode r).1 } : Sess) :=
    Silent.of_events (evs := [.schedResStart r]) rfl (by simp [Ev.isExecEv])
  exact (q1.trans (Silent.foldl _ (fun s (p : Nat × Dep) => silent_trySchedule sem s p.1 p.2) _ _)).trans
    (Silent.emit _ rfl)

end PieModel
