/-
The executing-stack invariant of the bottom-up build, with its trace part and the frame
condition "the frames on the stack are neither entered nor left":

* `BFrames s ch` (`Build/Stack/BottomUpDefs.lean`): `ch` is the stack of executing tasks
  (outermost first) — `s.cur = ch.getLast?`, pairwise distinct task nodes without output, every
  frame reaches every later frame in the dependency graph.
* `BTrc s ch`: the tracker stream of `s` satisfies `NoReentry`, and for every task `t` the number
  of `execute_start t` exceeds the number of `execute_end t` by the number of frames of `t` on
  the stack (`0` or `1`).
* `QuietB ch s s'`: between `s` and `s'` no `execute_start`/`execute_end` of a task on the stack
  `ch` was emitted (and the store only grew).
* `PostS`: post-condition of a call made with stack `ch`: if it returns, the stack is `ch` again;
  if it aborts, the state at the abort point satisfies the invariant for a stack `ch'` that
  extends `ch` (`AbortB`).
-/
import PieModel.Build.StackBU2.Trace

namespace PieModel
open Sess SessL

namespace Store

/-- Number of frames of task `t` on the stack `ch`. -/
def onStack (st : Store) (ch : List Nat) (t : Nat) : Nat :=
  ch.countP fun n => st.taskOf n == some t

@[simp] theorem onStack_nil (st : Store) (t : Nat) : st.onStack [] t = 0 := rfl

theorem onStack_append (st : Store) (a b : List Nat) (t : Nat) :
    st.onStack (a ++ b) t = st.onStack a t + st.onStack b t := by
  simp [onStack, List.countP_append]

theorem onStack_single (st : Store) (n t : Nat) :
    st.onStack [n] t = if st.taskOf n = some t then 1 else 0 := by
  simp [onStack, List.countP_singleton]

theorem onStack_congr {st st' : Store} {ch : List Nat} (h : ∀ n ∈ ch, st'.taskOf n = st.taskOf n)
    (t : Nat) : st'.onStack ch t = st.onStack ch t := by
  unfold onStack
  exact List.countP_congr fun n hn => by rw [h n hn]

theorem onStack_eq_zero {st : Store} {ch : List Nat} {t : Nat}
    (h : ∀ n ∈ ch, st.taskOf n ≠ some t) : st.onStack ch t = 0 := by
  unfold onStack
  rw [List.countP_eq_zero]
  intro n hn
  simpa using h n hn

/-- A task node keeps its task in a larger store. -/
theorem Le.taskOf_eq_of_task {st st' : Store} (hle : st.Le st') {n : Nat}
    (h : ∃ t, st.taskOf n = some t) : st'.taskOf n = st.taskOf n := by
  obtain ⟨t, ht⟩ := h
  rw [ht]; exact hle.task n t ht

end Store

/-! ### the trace part of the invariant -/

/-- The trace invariant of the bottom-up build for the stack `ch` of executing tasks. -/
structure BTrc (s : Sess) (ch : List Nat) : Prop where
  /-- open executions = frames on the stack -/
  bal : ∀ t, countExec t s.trace = countEnd t s.trace + s.store.onStack ch t
  /-- no task was entered while it was executing -/
  nre : NoReentry s.trace

/-- Between builds: `NoReentry`, and every execution that started has ended. -/
def TraceClosed (tr : List Ev) : Prop :=
  NoReentry tr ∧ ∀ t, countExec t tr = countEnd t tr

theorem TraceClosed.nil : TraceClosed [] := ⟨NoReentry.nil, fun _ => rfl⟩

theorem bTrc_nil_iff {s : Sess} : BTrc s [] ↔ TraceClosed s.trace :=
  ⟨fun h => ⟨h.nre, fun t => by simpa using h.bal t⟩,
    fun h => ⟨fun t => by simpa using h.2 t, h.1⟩⟩

/-- A step that only grows the store and emits no `execute` event. -/
structure QStep (s s' : Sess) : Prop where
  le : s.store.Le s'.store
  silent : Silent s s'

namespace QStep
variable {s a b s' : Sess}

theorem refl (s : Sess) : QStep s s := ⟨Store.Le.refl _, Silent.refl s⟩

theorem trans (h₁ : QStep s a) (h₂ : QStep a b) : QStep s b :=
  ⟨h₁.le.trans h₂.le, h₁.silent.trans h₂.silent⟩

/-- Same store, same trace. -/
theorem of_eq (h1 : s'.store = s.store) (h2 : s'.trace = s.trace) : QStep s s' :=
  ⟨h1 ▸ Store.Le.refl _, Silent.of_eq h2⟩

theorem emit (s : Sess) {e : Ev} (he : e.isExecEv = false) : QStep s (s.emit e) :=
  ⟨Store.Le.refl _, Silent.emit s he⟩

end QStep

theorem BTrc.step {s s' : Sess} {ch : List Nat} (h : BTrc s ch)
    (htask : ∀ n ∈ ch, ∃ t, s.store.taskOf n = some t) (q : QStep s s') : BTrc s' ch := by
  refine ⟨fun t => ?_, q.silent.noReentry h.nre⟩
  rw [q.silent.countExec, q.silent.countEnd,
    Store.onStack_congr (fun n hn => q.le.taskOf_eq_of_task (htask n hn))]
  exact h.bal t

/-- Entering task `t` (node `node`, not on the stack). -/
theorem BTrc.push {s s' : Sess} {ch : List Nat} {node t : Nat} (h : BTrc s ch)
    (hw : s.store.WF) (ht : s.store.taskOf node = some t) (hnch : node ∉ ch)
    (h1 : ∀ n, s'.store.taskOf n = s.store.taskOf n)
    (h2 : s'.trace = s.trace ++ [.executeStart t]) : BTrc s' (ch ++ [node]) := by
  have hz : s.store.onStack ch t = 0 := Store.onStack_eq_zero fun n hn hnt =>
    hnch (hw.taskOf_inj hnt ht ▸ hn)
  refine ⟨fun u => ?_, ?_⟩
  · rw [h2, countExec_snoc_start, countEnd_snoc_start, Store.onStack_append,
      Store.onStack_congr (fun n _ => h1 n), Store.onStack_single, h1, ht, h.bal u]
    by_cases htu : t = u <;> simp [htu] <;> omega
  · rw [h2]
    refine h.nre.snoc_start ?_
    have := h.bal t
    omega

/-- Leaving the innermost frame. -/
theorem BTrc.pop {s s' : Sess} {ch : List Nat} {node t : Nat} {o : Int}
    (h : BTrc s (ch ++ [node])) (ht : s.store.taskOf node = some t)
    (h1 : ∀ n, s'.store.taskOf n = s.store.taskOf n)
    (h2 : s'.trace = s.trace ++ [.executeEnd t o]) : BTrc s' ch := by
  refine ⟨fun u => ?_, ?_⟩
  · have hb := h.bal u
    rw [Store.onStack_append, Store.onStack_single, ht] at hb
    rw [h2, countExec_snoc_end, countEnd_snoc_end, Store.onStack_congr (fun n _ => h1 n), hb]
    by_cases htu : t = u <;> simp [htu] <;> omega
  · rw [h2]
    exact h.nre.snoc_of_not_start (by simp)

/-! ### the frames on the stack are neither entered nor left -/

/-- Between `s` and `s'` the store only grew and no `execute_start`/`execute_end` of a task on
the stack `ch` was emitted. -/
structure QuietB (ch : List Nat) (s s' : Sess) : Prop where
  le : s.store.Le s'.store
  start : ∀ n ∈ ch, ∀ u, s.store.taskOf n = some u →
    countExec u s'.trace = countExec u s.trace
  stop : ∀ n ∈ ch, ∀ u, s.store.taskOf n = some u →
    countEnd u s'.trace = countEnd u s.trace

namespace QuietB
variable {ch : List Nat} {s a b s' : Sess}

theorem of_step (q : QStep s s') : QuietB ch s s' :=
  ⟨q.le, fun _ _ u _ => q.silent.countExec u, fun _ _ u _ => q.silent.countEnd u⟩

theorem refl (ch : List Nat) (s : Sess) : QuietB ch s s := of_step (QStep.refl s)

theorem trans (h₁ : QuietB ch s a) (h₂ : QuietB ch a b) : QuietB ch s b :=
  ⟨h₁.le.trans h₂.le,
    fun n hn u hu => (h₂.start n hn u (h₁.le.task n u hu)).trans (h₁.start n hn u hu),
    fun n hn u hu => (h₂.stop n hn u (h₁.le.task n u hu)).trans (h₁.stop n hn u hu)⟩

theorem mono {ch' : List Nat} (h : QuietB ch s s') (hk : ∀ n ∈ ch', n ∈ ch) : QuietB ch' s s' :=
  ⟨h.le, fun n hn => h.start n (hk n hn), fun n hn => h.stop n (hk n hn)⟩

theorem out {α : Type} {F : Sess × α} {r : α} (q : QuietB ch s F.1) (heq : F = (s', r)) :
    QuietB ch s s' := by rw [heq] at q; exact q

/-- Entering a task whose node is not on the stack. -/
theorem push {node t : Nat} (hw : s.store.WF) (ht : s.store.taskOf node = some t)
    (hnch : node ∉ ch) (hle : s.store.Le s'.store)
    (h2 : s'.trace = s.trace ++ [.executeStart t]) : QuietB ch s s' := by
  refine ⟨hle, fun n hn u hu => ?_, fun n hn u hu => ?_⟩
  · rw [h2, countExec_snoc_start]
    have : t ≠ u := fun htu => hnch (hw.taskOf_inj (htu ▸ hu) ht ▸ hn)
    simp [this]
  · rw [h2, countEnd_snoc_start]

/-- Leaving a task whose node is not on the stack. -/
theorem pop {node t : Nat} {o : Int} (hw : s.store.WF) (ht : s.store.taskOf node = some t)
    (hnch : node ∉ ch) (hle : s.store.Le s'.store)
    (h2 : s'.trace = s.trace ++ [.executeEnd t o]) : QuietB ch s s' := by
  refine ⟨hle, fun n hn u hu => ?_, fun n hn u hu => ?_⟩
  · rw [h2, countExec_snoc_end]
  · rw [h2, countEnd_snoc_end]
    have : t ≠ u := fun htu => hnch (hw.taskOf_inj (htu ▸ hu) ht ▸ hn)
    simp [this]

end QuietB

/-! ### post-conditions -/

variable (T : Prop)

/-- What holds at an abort point of a call made with stack `ch`: the invariant, for the stack
`ch'` of the tasks executing at that point — an extension of `ch`. -/
def AbortB (ch : List Nat) (s' : Sess) : Prop :=
  ∃ ch', ch <+: ch' ∧ BFrames s' ch' ∧ (T → BTrc s' ch')

/-- Post-condition of a call made in state `s` with stack `ch`: `P` and the invariant for `ch`
if it returns, `AbortB` if it aborts; in both cases the frames of `ch` were neither entered nor
left. -/
def PostS {α : Type} (ch : List Nat) (s : Sess) (P : Sess → α → Prop) : Sess × Res α → Prop
  | (s', .ok v) => P s' v ∧ (T → BTrc s' ch) ∧ QuietB ch s s'
  | (s', .abort _) => AbortB T ch s' ∧ QuietB ch s s'

variable {T}

theorem AbortB.here {ch : List Nat} {s' : Sess} (hf : BFrames s' ch) (ht : T → BTrc s' ch) :
    AbortB T ch s' := ⟨ch, List.prefix_refl _, hf, ht⟩

theorem AbortB.mono {ch₁ ch₂ : List Nat} {s' : Sess} (h : AbortB T ch₂ s') (hp : ch₁ <+: ch₂) :
    AbortB T ch₁ s' := by
  obtain ⟨ch', h1, h2, h3⟩ := h
  exact ⟨ch', hp.trans h1, h2, h3⟩

namespace PostS
variable {α : Type} {ch : List Nat} {s : Sess} {P Q : Sess → α → Prop}

theorem ok {F : Sess × Res α} {s' : Sess} {v : α} (h : PostS T ch s P F) (heq : F = (s', .ok v)) :
    P s' v ∧ (T → BTrc s' ch) ∧ QuietB ch s s' := by rw [heq] at h; exact h

theorem abort {F : Sess × Res α} {s' : Sess} {k : Abort} (h : PostS T ch s P F)
    (heq : F = (s', .abort k)) : AbortB T ch s' ∧ QuietB ch s s' := by rw [heq] at h; exact h

theorem quiet {x : Sess × Res α} (h : PostS T ch s P x) : QuietB ch s x.1 := by
  obtain ⟨s', r⟩ := x
  cases r with
  | ok v => exact h.2.2
  | abort k => exact h.2

/-- Continue after a quiet segment `s → s₂`. -/
theorem chain {s₂ : Sess} {x : Sess × Res α} (q : QuietB ch s s₂) (h : PostS T ch s₂ P x)
    (hpq : ∀ s' v, P s' v → Q s' v) : PostS T ch s Q x := by
  obtain ⟨s', r⟩ := x
  cases r with
  | ok v => exact ⟨hpq s' v h.1, h.2.1, q.trans h.2.2⟩
  | abort k => exact ⟨h.1, q.trans h.2⟩

theorem mono {x : Sess × Res α} (h : PostS T ch s P x) (hpq : ∀ s' v, P s' v → Q s' v) :
    PostS T ch s Q x := chain (QuietB.refl ch s) h hpq

/-- An abort right here. -/
theorem abort_here {s' : Sess} {k : Abort} (hf : BFrames s' ch) (ht : T → BTrc s' ch)
    (q : QuietB ch s s') : PostS T ch s P ((s', .abort k) : Sess × Res α) :=
  ⟨AbortB.here hf ht, q⟩

end PostS

end PieModel
