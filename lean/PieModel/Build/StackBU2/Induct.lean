/-
The executing-stack invariant is maintained by the bottom-up build, also on abort: joint
induction on fuel over `buRequire`, `buMake`, `buExec`, `buExecAndSchedule`, `buRequireNow`,
`buRun`.

For each function, called in a state with `BFrames s ch` (and `BTrc s ch` under the guard `T`):
* if the call returns: `BFrames s' ch` (and `BTrc s' ch`) again, the frame conditions `Keeps`;
* if the call aborts: `BFrames s' ch'` (and `BTrc s' ch'`) for the stack `ch'` of the tasks
  executing at the abort point, an extension of `ch`;
* in both cases `QuietB ch s s'`: no `execute_start`/`execute_end` of a task of `ch`.

The link of the callee to the stack is as in `Build/Stack/BottomUp.lean`: `buMake`/`buRequireNow`
for a node with an edge from the innermost frame (the reserved edge), `buExec`/
`buExecAndSchedule` for a node reachable from every frame (`queuePopLeastFrom src` returns `src`
or a node reachable from `src`).
-/
import PieModel.Build.StackBU2.Defs

namespace PieModel

/-! ### the primitives as quiet steps -/

theorem QStep.out {α : Type} {s s' : Sess} {F : Sess × α} {r : α} (q : QStep s F.1)
    (heq : F = (s', r)) : QStep s s' := by rw [heq] at q; exact q

theorem qstep_reserveRequire {s : Sess} (h : SessWF s) {dst : Nat}
    (hd : ∃ t, s.store.taskOf dst = some t) : QStep s (reserveRequire s dst).1 :=
  ⟨(reserveRequire_ext h hd).le, Silent.of_eq (trace_reserveRequire s dst)⟩

theorem qstep_updateRequire {s : Sess} (h : SessWF s) {dst t : Nat} (c : Nat) (stamp : Stamp)
    (hd : s.store.taskOf dst = some t) : QStep s (updateRequire s dst t c stamp).1 :=
  ⟨(updateRequire_ext h c stamp hd).le, Silent.of_eq (trace_updateRequire s dst t c stamp)⟩

variable (sem : Sem)

theorem qstep_doRead {s : Sess} (h : SessWF s) (r c : Nat) : QStep s (doRead sem s r c).1 :=
  ⟨(doRead_ext sem h r c).le, silent_doRead sem s r c⟩

theorem qstep_doWrite {s : Sess} (h : SessWF s) (r c : Nat) (v : Option Int) :
    QStep s (doWrite sem s r c v).1 :=
  ⟨(doWrite_ext sem h r c v).le, silent_doWrite sem s r c v⟩

theorem qstep_doWrote {s : Sess} (h : SessWF s) (r c : Nat) (v : Option Int) :
    QStep s (doWrote sem s r c v).1 :=
  ⟨(doWrote_ext sem h r c v).le, silent_doWrote sem s r c v⟩

theorem qstep_scheduleAfterExec {s : Sess} (h : SessWF s) (node t : Nat) (out : Int) :
    QStep s (scheduleAfterExec sem s node t out) :=
  ⟨(scheduleAfterExec_ext sem h node t out).le, silent_scheduleAfterExec sem s node t out⟩

theorem qstep_scheduleAffectedBy {s : Sess} (h : SessWF s) (r : Nat) :
    QStep s (scheduleAffectedBy sem s r) :=
  ⟨(scheduleAffectedBy_ext sem h r).le, silent_scheduleAffectedBy sem s r⟩

theorem BFrames.task {s : Sess} {ch : List Nat} (h : BFrames s ch) :
    ∀ n ∈ ch, ∃ t, s.store.taskOf n = some t := fun n hn => h.core.task n hn

theorem BFrames.nodup {s : Sess} {ch : List Nat} (h : BFrames s ch) : ch.Nodup := h.core.nodup

theorem BFrames.btrc_step {T : Prop} {s s' : Sess} {ch : List Nat} (h : BFrames s ch)
    (ht : T → BTrc s ch) (q : QStep s s') : T → BTrc s' ch := fun hT => (ht hT).step h.task q

/-! ### the joint induction -/

variable (body : Nat → Prog) (T : Prop)

/-- The joint statement for fuel `f`. -/
structure BuStack2 (f : Nat) : Prop where
  require : ∀ (s : Sess) (ch₀ : List Nat) (a t c : Nat),
    BFrames s (ch₀ ++ [a]) → (T → BTrc s (ch₀ ++ [a])) → Dep.reserved ∉ s.store.depsFrom a →
    PostS T (ch₀ ++ [a]) s (fun s' _ => BFrames s' (ch₀ ++ [a]) ∧ Keeps ch₀ s s' ∧
      Dep.reserved ∉ s'.store.depsFrom a) (buRequire sem body f s t c)
  make : ∀ (s : Sess) (ch₀ : List Nat) (a t node : Nat),
    BFrames s (ch₀ ++ [a]) → (T → BTrc s (ch₀ ++ [a])) → s.store.taskOf node = some t →
    (∃ dep, (node, dep) ∈ s.store.g.outgoingEdges a) →
    PostS T (ch₀ ++ [a]) s (fun s' v => BFrames s' (ch₀ ++ [a]) ∧ Keeps (ch₀ ++ [a]) s s' ∧
      s'.store.taskOutput node = some v) (buMake sem body f s t node)
  exec : ∀ (s : Sess) (ch : List Nat) (t node : Nat),
    BFrames s ch → (T → BTrc s ch) → s.store.taskOf node = some t →
    (∀ x ∈ ch, s.store.g.Reach x node) →
    PostS T ch s (fun s' v => BFrames s' ch ∧ Keeps ch s s' ∧ s'.store.taskOutput node = some v)
      (buExec sem body f s t node)
  execAndSchedule : ∀ (s : Sess) (ch : List Nat) (node : Nat),
    BFrames s ch → (T → BTrc s ch) → (∀ x ∈ ch, s.store.g.Reach x node) →
    PostS T ch s (fun s' v => BFrames s' ch ∧ Keeps ch s s' ∧ s'.store.taskOutput node = some v)
      (buExecAndSchedule sem body f s node)
  requireNow : ∀ (s : Sess) (ch₀ : List Nat) (a src : Nat),
    BFrames s (ch₀ ++ [a]) → (T → BTrc s (ch₀ ++ [a])) →
    (∃ dep, (src, dep) ∈ s.store.g.outgoingEdges a) →
    PostS T (ch₀ ++ [a]) s (fun s' o => BFrames s' (ch₀ ++ [a]) ∧ Keeps (ch₀ ++ [a]) s s' ∧
      ∀ v, o = some v → s'.store.taskOutput src = some v) (buRequireNow sem body f s src)
  run : ∀ (s : Sess) (ch₀ : List Nat) (a : Nat) (p : Prog),
    BFrames s (ch₀ ++ [a]) → (T → BTrc s (ch₀ ++ [a])) → Dep.reserved ∉ s.store.depsFrom a →
    PostS T (ch₀ ++ [a]) s (fun s' _ => BFrames s' (ch₀ ++ [a]) ∧ Keeps ch₀ s s' ∧
      Dep.reserved ∉ s'.store.depsFrom a) (buRun sem body f s p)

variable {T}

theorem BuStack2.zero : BuStack2 sem body T 0 := by
  refine ⟨?_, ?_, ?_, ?_, ?_, ?_⟩
  · intro s ch₀ a t c h hT _; unfold buRequire; exact PostS.abort_here h hT (QuietB.refl _ _)
  · intro s ch₀ a t n h hT _ _; unfold buMake; exact PostS.abort_here h hT (QuietB.refl _ _)
  · intro s ch t n h hT _ _; unfold buExec; exact PostS.abort_here h hT (QuietB.refl _ _)
  · intro s ch n h hT _; unfold buExecAndSchedule; exact PostS.abort_here h hT (QuietB.refl _ _)
  · intro s ch₀ a n h hT _; unfold buRequireNow; exact PostS.abort_here h hT (QuietB.refl _ _)
  · intro s ch₀ a p h hT _; unfold buRun; exact PostS.abort_here h hT (QuietB.refl _ _)

theorem BuStack2.exec_succ {f : Nat} (ih : BuStack2 sem body T f) (s : Sess) (ch : List Nat)
    (t node : Nat) (h : BFrames s ch) (hT : T → BTrc s ch) (ht : s.store.taskOf node = some t)
    (hr : ∀ x ∈ ch, s.store.g.Reach x node) :
    PostS T ch s (fun s' v => BFrames s' ch ∧ Keeps ch s s' ∧ s'.store.taskOutput node = some v)
      (buExec sem body (f + 1) s t node) := by
  unfold buExec; simp only []
  have hw := h.wf.store
  have hnch : node ∉ ch := h.core.not_mem_of_reach hr
  have f3 := h.pushExec ht hr (.executeStart t)
  have k3 := keeps_pushExec_emit hw hnch (.executeStart t)
  have t3 : T → BTrc (({ s with store := s.store.resetTask node, cur := some node } : Sess).emit
      (.executeStart t)) (ch ++ [node]) := fun hT' =>
    (hT hT').push hw ht hnch (fun n => Store.taskOf_resetTask hw node n) rfl
  have q3 : QuietB ch s (({ s with store := s.store.resetTask node, cur := some node } : Sess).emit
      (.executeStart t)) := QuietB.push hw ht hnch (Store.le_resetTask hw node) rfl
  have hsub : ∀ n ∈ ch, n ∈ ch ++ [node] := fun n hn => List.mem_append_left _ hn
  have key := ih.run _ ch node (body t) f3 t3 (by
    show Dep.reserved ∉ (s.store.resetTask node).depsFrom node
    rw [Store.depsFrom_resetTask hw, if_pos rfl]; simp)
  split
  next s4 a heq =>
    obtain ⟨hab, q4⟩ := key.abort heq
    exact ⟨hab.mono (List.prefix_append _ _), q3.trans (q4.mono hsub)⟩
  next s4 o heq =>
    obtain ⟨⟨f4, k4, hnr4⟩, t4, q4⟩ := key.ok heq
    have hd3 : (s.store.resetTask node).taskOf node = some t := by
      rw [Store.taskOf_resetTask hw node node]; exact ht
    have hd4 : s4.store.taskOf node = some t := q4.le.task _ _ hd3
    obtain ⟨f5, ho5⟩ := f4.popExec (s' := { ({ (s4.emit (.executeEnd t o)) with cur := s.cur } :
      Sess) with store := s4.store.setTaskOutput node o }) hnr4 o hd4 rfl h.cur_eq rfl rfl
    refine ⟨⟨f5, (k3.trans k4).trans (keeps_popExec o rfl hnch), ho5⟩, fun hT' => ?_, ?_⟩
    · exact (t4 hT').pop hd4 (fun n => Store.taskOf_setTaskOutput node o n) rfl
    · exact (q3.trans (q4.mono hsub)).trans
        (QuietB.pop f4.wf.store hd4 hnch (Store.le_setTaskOutput _ node o) rfl)

theorem BuStack2.execAndSchedule_succ {f : Nat} (ih : BuStack2 sem body T f) (s : Sess)
    (ch : List Nat) (node : Nat) (h : BFrames s ch) (hT : T → BTrc s ch)
    (hr : ∀ x ∈ ch, s.store.g.Reach x node) :
    PostS T ch s (fun s' v => BFrames s' ch ∧ Keeps ch s s' ∧ s'.store.taskOutput node = some v)
      (buExecAndSchedule sem body (f + 1) s node) := by
  unfold buExecAndSchedule
  split
  · exact PostS.abort_here h hT (QuietB.refl _ _)
  next t ht =>
    have key := ih.exec s ch t node h hT ht hr
    split
    next s2 a heq => exact key.abort heq
    next s2 o heq =>
      obtain ⟨⟨f2, k2, ho2⟩, t2, q2⟩ := key.ok heq
      obtain ⟨f3, hs3⟩ := f2.scheduleAfterExec sem t o (node := node) (by rw [ho2]; simp)
      have q3 := qstep_scheduleAfterExec sem f2.wf node t o
      exact ⟨⟨f3, k2.congr_right hs3, by rw [hs3]; exact ho2⟩, f2.btrc_step t2 q3,
        q2.trans (QuietB.of_step q3)⟩

theorem BuStack2.requireNow_succ {f : Nat} (ih : BuStack2 sem body T f) (s : Sess)
    (ch₀ : List Nat) (a src : Nat) (h : BFrames s (ch₀ ++ [a])) (hT : T → BTrc s (ch₀ ++ [a]))
    (he : ∃ dep, (src, dep) ∈ s.store.g.outgoingEdges a) :
    PostS T (ch₀ ++ [a]) s (fun s' o => BFrames s' (ch₀ ++ [a]) ∧ Keeps (ch₀ ++ [a]) s s' ∧
      ∀ v, o = some v → s'.store.taskOutput src = some v)
      (buRequireNow sem body (f + 1) s src) := by
  unfold buRequireNow
  split
  · exact ⟨⟨h, Keeps.refl _ _, fun v hv => nomatch hv⟩, hT, QuietB.refl _ _⟩
  · split
    · exact ⟨⟨h, Keeps.refl _ _, fun v hv => nomatch hv⟩, hT, QuietB.refl _ _⟩
    next m q hq =>
      have hwq := (h.wf.subQueue (fun _ hm => queuePopLeastFrom_rest_subset hq hm)).wf
      have fq : BFrames { s with queue := q } (ch₀ ++ [a]) := h.of_same hwq rfl rfl rfl
      have qq : QStep s { s with queue := q } := QStep.of_eq rfl rfl
      have tq := h.btrc_step hT qq
      have hlink : ∀ x ∈ ch₀ ++ [a], s.store.g.Reach x m := by
        obtain ⟨i, hi, _, _, hcone, _⟩ := queuePopLeastFrom_eq_some hq
        intro x hx
        rcases inCone_iff.mp hcone with hm | hm
        · rw [hm]; exact h.link he x hx
        · exact (h.link he x hx).trans ((h.wf.store.containsTransitive_iff src m).mp hm)
      have key := ih.execAndSchedule _ (ch₀ ++ [a]) m fq tq hlink
      split
      next s2 k heq =>
        obtain ⟨hab, q2⟩ := key.abort heq
        exact ⟨hab, (QuietB.of_step qq).trans q2⟩
      next s2 o heq =>
        obtain ⟨⟨f2, k2, ho2⟩, t2, q2⟩ := key.ok heq
        have q2' : QuietB (ch₀ ++ [a]) s s2 := (QuietB.of_step qq).trans q2
        have k2' : Keeps (ch₀ ++ [a]) s s2 := (Keeps.of_store (s := s) rfl).trans k2
        split
        next hm => exact ⟨⟨f2, k2', fun v hv => by cases hv; rw [← hm]; exact ho2⟩, t2, q2'⟩
        · obtain ⟨dep, hdep⟩ := he
          refine PostS.chain q2' (ih.requireNow s2 ch₀ a src f2 t2 ⟨dep, by
            rw [(k2' a (by simp)).1]; exact hdep⟩) ?_
          rintro s' o' ⟨h1, h2, h3⟩
          exact ⟨h1, k2'.trans h2, h3⟩

theorem BuStack2.make_succ {f : Nat} (ih : BuStack2 sem body T f) (s : Sess) (ch₀ : List Nat)
    (a t node : Nat) (h : BFrames s (ch₀ ++ [a])) (hT : T → BTrc s (ch₀ ++ [a]))
    (ht : s.store.taskOf node = some t)
    (he : ∃ dep, (node, dep) ∈ s.store.g.outgoingEdges a) :
    PostS T (ch₀ ++ [a]) s (fun s' v => BFrames s' (ch₀ ++ [a]) ∧ Keeps (ch₀ ++ [a]) s s' ∧
      s'.store.taskOutput node = some v) (buMake sem body (f + 1) s t node) := by
  unfold buMake
  split
  · split
    next o ho => exact ⟨⟨h, Keeps.refl _ _, ho⟩, hT, QuietB.refl _ _⟩
    · exact PostS.abort_here h hT (QuietB.refl _ _)
  · split
    · exact ih.exec s (ch₀ ++ [a]) t node h hT ht (h.link he)
    · have key := ih.requireNow s ch₀ a node h hT he
      split
      next s2 k heq => exact key.abort heq
      next s2 o heq =>
        obtain ⟨⟨f2, k2, ho2⟩, t2, q2⟩ := key.ok heq
        exact ⟨⟨f2, k2, ho2 o rfl⟩, t2, q2⟩
      next s2 heq =>
        obtain ⟨⟨f2, k2, _⟩, t2, q2⟩ := key.ok heq
        split
        next o ho => exact ⟨⟨f2, k2, ho⟩, t2, q2⟩
        · exact PostS.abort_here f2 t2 q2

theorem BuStack2.require_succ {f : Nat} (ih : BuStack2 sem body T f) (s : Sess) (ch₀ : List Nat)
    (a t c : Nat) (h : BFrames s (ch₀ ++ [a])) (hT : T → BTrc s (ch₀ ++ [a]))
    (hnr : Dep.reserved ∉ s.store.depsFrom a) :
    PostS T (ch₀ ++ [a]) s (fun s' _ => BFrames s' (ch₀ ++ [a]) ∧ Keeps ch₀ s s' ∧
      Dep.reserved ∉ s'.store.depsFrom a) (buRequire sem body (f + 1) s t c) := by
  unfold buRequire; simp only []
  have hw := h.wf.store
  have f1 := (h.emit (.requireStart t c)).getTask t
  have q1 : QStep s ({ s.emit (.requireStart t c) with
      store := ((s.emit (.requireStart t c)).store.getOrCreateTaskNode t).1 } : Sess) :=
    ⟨Store.le_getOrCreateTaskNode hw t,
      Silent.of_events (evs := [.requireStart t c]) rfl (by simp [Ev.isExecEv])⟩
  have t1 := h.btrc_step hT q1
  have k1 : Keeps ch₀ s _ :=
    (Keeps.of_store (s' := s.emit (.requireStart t c)) rfl).trans (keeps_getTask hw ch₀ t)
  have hd := Store.taskOf_getOrCreateTaskNode_self hw t
  have ha : a ∈ ch₀ ++ [a] := by simp
  split
  next s2 k heq =>
    rw [reserveRequire_abort_state heq]
    exact PostS.abort_here f1 t1 (QuietB.of_step q1)
  next s2 heq =>
    obtain ⟨f2, k2, le2, e21, e22, _⟩ := f1.reserve_ok hd heq
    have q2 : QStep _ s2 := (qstep_reserveRequire f1.wf ⟨t, hd⟩).out heq
    have t2 := f1.btrc_step t1 q2
    have q12 : QuietB (ch₀ ++ [a]) s s2 := QuietB.of_step (q1.trans q2)
    have hd2 := le2.task _ _ hd
    have key := ih.make s2 ch₀ a t _ f2 t2 hd2 e21
    split
    next s3 k heq3 =>
      obtain ⟨hab, q3⟩ := key.abort heq3
      exact ⟨hab, q12.trans q3⟩
    next s3 out heq3 =>
      obtain ⟨⟨f3, k3, ho3⟩, t3, q3⟩ := key.ok heq3
      have hd3 := q3.le.task _ _ hd2
      have hedge3 : ∃ dep, ((s.store.getOrCreateTaskNode t).2, dep) ∈
          (s3.emit (.requireEnd t c (sem.ostamp c out) out)).store.g.outgoingEdges a := by
        obtain ⟨dep, hdep⟩ := e21
        exact ⟨dep, by show (_, dep) ∈ s3.store.g.outgoingEdges a; rw [(k3 a ha).1]; exact hdep⟩
      have fin : ∀ s4 r4, updateRequire (s3.emit (.requireEnd t c (sem.ostamp c out) out))
          (s.store.getOrCreateTaskNode t).2 t c (sem.ostamp c out) = (s4, r4) →
          r4 = .ok () ∧
          (BFrames (s4.markConsistent (s.store.getOrCreateTaskNode t).2) (ch₀ ++ [a]) ∧
            Keeps ch₀ s (s4.markConsistent (s.store.getOrCreateTaskNode t).2) ∧
            Dep.reserved ∉
              (s4.markConsistent (s.store.getOrCreateTaskNode t).2).store.depsFrom a) ∧
          (T → BTrc (s4.markConsistent (s.store.getOrCreateTaskNode t).2) (ch₀ ++ [a])) ∧
          QuietB (ch₀ ++ [a]) s (s4.markConsistent (s.store.getOrCreateTaskNode t).2) := by
        intro s4 r4 heq4
        obtain ⟨hr4, f4, k4, o4, hdeps⟩ := (f3.emit _).update hd3 hedge3 heq4
        have q4 : QStep s3 (s4.markConsistent (s.store.getOrCreateTaskNode t).2) :=
          ((QStep.emit s3 (e := .requireEnd t c (sem.ostamp c out) out) rfl).trans
            ((qstep_updateRequire (f3.emit _).wf c (sem.ostamp c out) hd3).out heq4)).trans
            (QStep.of_eq (by simp) (by simp))
        refine ⟨hr4, ⟨f4.markConsistent (by
          rw [o4]; show s3.store.taskOutput _ ≠ none; rw [ho3]; simp), ?_, ?_⟩,
          f3.btrc_step t3 q4, (q12.trans q3).trans (QuietB.of_step q4)⟩
        · have k3' : Keeps ch₀ s2 s3 := k3.mono fun n hn => List.mem_append_left _ hn
          exact ((((k1.trans k2).trans k3').trans
            ((Keeps.of_store (s := s3) rfl).trans k4))).congr_right (by simp)
        · rw [Sess.store_markConsistent]
          intro hres
          rcases hdeps _ hres with hq | ⟨b, hb, hbm⟩
          · cases hq
          · change (b, Dep.reserved) ∈ s3.store.g.outgoingEdges a at hbm
            rw [(k3 a ha).1] at hbm
            rcases e22 _ hbm with hbm | hbm
            · change (b, Dep.reserved) ∈ (s.store.getOrCreateTaskNode t).1.g.outgoingEdges a at hbm
              rw [Store.outgoingEdges_getOrCreateTaskNode hw] at hbm
              exact hnr (Store.mem_depsFrom_iff.mpr ⟨b, hbm⟩)
            · cases hbm; exact hb rfl
      split
      next s4 k heq4 => obtain ⟨hr4, _⟩ := fin s4 _ heq4; cases hr4
      next s4 heq4 => exact (fin s4 _ heq4).2

theorem BuStack2.run_succ {f : Nat} (ih : BuStack2 sem body T f) (s : Sess) (ch₀ : List Nat)
    (a : Nat) (p : Prog) (h : BFrames s (ch₀ ++ [a])) (hT : T → BTrc s (ch₀ ++ [a]))
    (hnr : Dep.reserved ∉ s.store.depsFrom a) :
    PostS T (ch₀ ++ [a]) s (fun s' _ => BFrames s' (ch₀ ++ [a]) ∧ Keeps ch₀ s s' ∧
      Dep.reserved ∉ s'.store.depsFrom a) (buRun sem body (f + 1) s p) := by
  have cont : ∀ (s2 : Sess) (p' : Prog), BFrames s2 (ch₀ ++ [a]) → (T → BTrc s2 (ch₀ ++ [a])) →
      Keeps ch₀ s s2 → Dep.reserved ∉ s2.store.depsFrom a → QuietB (ch₀ ++ [a]) s s2 →
      PostS T (ch₀ ++ [a]) s (fun s' _ => BFrames s' (ch₀ ++ [a]) ∧ Keeps ch₀ s s' ∧
        Dep.reserved ∉ s'.store.depsFrom a) (buRun sem body f s2 p') := by
    intro s2 p' f2 t2 k2 hnr2 q2
    refine PostS.chain q2 (ih.run s2 ch₀ a p' f2 t2 hnr2) ?_
    rintro s' _ ⟨h1, h2, h3⟩
    exact ⟨h1, k2.trans h2, h3⟩
  cases p with
  | ret v => unfold buRun; exact ⟨⟨h, Keeps.refl _ _, hnr⟩, hT, QuietB.refl _ _⟩
  | panic => unfold buRun; exact PostS.abort_here h hT (QuietB.refl _ _)
  | req t c k =>
    unfold buRun
    have key := ih.require s ch₀ a t c h hT hnr
    split
    next s2 k' heq => exact key.abort heq
    next s2 out heq =>
      obtain ⟨⟨f2, k2, hnr2⟩, t2, q2⟩ := key.ok heq
      exact cont s2 _ f2 t2 k2 hnr2 q2
  | read r c k =>
    unfold buRun
    have key := h.doRead sem r c
    have qr := qstep_doRead sem h.wf r c
    split
    next s2 k' heq =>
      rw [heq] at key
      have q := qr.out heq
      exact PostS.abort_here key.1 (h.btrc_step hT q) (QuietB.of_step q)
    next s2 x heq =>
      rw [heq] at key
      have q := qr.out heq
      exact cont s2 _ key.1 (h.btrc_step hT q) key.2.1 (key.2.2 hnr) (QuietB.of_step q)
  | write r c v k =>
    unfold buRun
    have key := h.doWrite sem r c v
    have qr := qstep_doWrite sem h.wf r c v
    split
    next s2 k' heq =>
      rw [heq] at key
      have q := qr.out heq
      exact PostS.abort_here key.1 (h.btrc_step hT q) (QuietB.of_step q)
    next s2 x heq =>
      rw [heq] at key
      have q := qr.out heq
      exact cont s2 _ key.1 (h.btrc_step hT q) key.2.1 (key.2.2 hnr) (QuietB.of_step q)
  | wrote r c v k =>
    unfold buRun
    have key := h.doWrote sem r c v
    have qr := qstep_doWrote sem h.wf r c v
    split
    next s2 k' heq =>
      rw [heq] at key
      have q := qr.out heq
      exact PostS.abort_here key.1 (h.btrc_step hT q) (QuietB.of_step q)
    next s2 x heq =>
      rw [heq] at key
      have q := qr.out heq
      exact cont s2 _ key.1 (h.btrc_step hT q) key.2.1 (key.2.2 hnr) (QuietB.of_step q)

variable (T)

theorem buStack2 (f : Nat) : BuStack2 sem body T f := by
  induction f with
  | zero => exact BuStack2.zero sem body
  | succ f ih =>
    exact ⟨ih.require_succ sem body, ih.make_succ sem body, ih.exec_succ sem body,
      ih.execAndSchedule_succ sem body, ih.requireNow_succ sem body, ih.run_succ sem body⟩

end PieModel
