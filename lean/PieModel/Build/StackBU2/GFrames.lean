/-
The logical call stack of the bottom-up build with *waiting* frames.

`BFrames s ch` lists the executing tasks only.  To show that `buMake` finds the output of its
task again after `buRequireNow` returned without executing it (no `bug 21`), the task `src` on
whose behalf `buRequireNow` executes scheduled dependencies has to be protected as well: it keeps
its output and its dependencies while a scheduled task `m ≠ src` below it is executed.  `GFrames
s full` is the invariant for the logical call stack `full` of executing frames (no output) and
waiting frames (with output) — the same shape as the top-down `Frames` with its validating
frames, used on the session with `consistent` erased.
-/
import PieModel.Build.StackBU2.Session

namespace PieModel

/-- The invariant of the bottom-up build for the logical call stack `full`
(executing and waiting frames, outermost first). -/
structure GFrames (s : Sess) (full : List Nat) : Prop where
  core : Frames s.noCons full
  consX : ∀ n ∈ s.consistent, n ∈ full ∨ s.store.taskOutput n ≠ none

namespace GFrames
variable {s s' : Sess} {full : List Nat}

theorem wf (h : GFrames s full) : SessWF s := sessWF_noCons.mp h.core.wf

theorem of_bframes {ch : List Nat} (h : BFrames s ch) : GFrames s ch := ⟨h.core, h.consX⟩

theorem nil_iff : GFrames s [] ↔ SessOK s ∧ s.cur = none := by
  rw [← BFrames.nil_iff]
  exact ⟨fun h => ⟨h.core, fun _ hn => (nomatch hn), h.consX⟩, of_bframes⟩

theorem of_same (h : GFrames s full) (hw : SessWF s') (h1 : s'.store = s.store)
    (h2 : s'.cur = s.cur) (h3 : s'.consistent = s.consistent) : GFrames s' full :=
  ⟨h.core.of_wf (sessWF_noCons.mpr hw) h1 h2 rfl, by rw [h1, h3]; exact h.consX⟩

theorem emit (h : GFrames s full) (e : Ev) : GFrames (s.emit e) full :=
  h.of_same (h.wf.emit e) rfl rfl rfl

theorem markConsistent (h : GFrames s full) {n : Nat} (ho : s.store.taskOutput n ≠ none) :
    GFrames (s.markConsistent n) full := by
  refine ⟨by rw [Sess.noCons_markConsistent]; exact h.core, ?_⟩
  intro x hx
  rw [Sess.store_markConsistent]
  rcases (Sess.mem_markConsistent s n x).mp hx with hx | rfl
  · exact h.consX x hx
  · exact .inr ho

theorem of_core (h : GFrames s full) (hc : Frames s'.noCons full)
    (ho : ∀ n, s'.store.taskOutput n = s.store.taskOutput n)
    (h3 : s'.consistent = s.consistent) : GFrames s' full :=
  ⟨hc, by intro n hn; rw [h3] at hn; rw [ho]; exact h.consX n hn⟩

theorem getTask (h : GFrames s full) (t : Nat) :
    GFrames { s with store := (s.store.getOrCreateTaskNode t).1 } full :=
  h.of_core (h.core.getTask t) (Store.taskOutput_getOrCreateTaskNode h.wf.store t) rfl

/-- A node with an edge from the innermost frame is reachable from every frame. -/
theorem link {full₀ : List Nat} {a node : Nat} (h : GFrames s (full₀ ++ [a]))
    (he : ∃ dep, (node, dep) ∈ s.store.g.outgoingEdges a) :
    ∀ x ∈ full₀ ++ [a], s.store.g.Reach x node := by
  obtain ⟨dep, hdep⟩ := he
  have had := Store.reach_of_mem_outgoingEdges h.wf.store hdep
  intro x hx
  rcases List.mem_append.mp hx with hx | hx
  · exact ((List.pairwise_append.mp h.core.path).2.2 x hx a (by simp)).trans had
  · simp at hx; subst hx; exact had

/-- Pushing a waiting frame: a task node with output reachable from all frames. -/
theorem push_waiting (h : GFrames s full) {n t : Nat} (ht : s.store.taskOf n = some t)
    (ho : s.store.taskOutput n ≠ none) (hr : ∀ x ∈ full, s.store.g.Reach x n) :
    GFrames s (full ++ [n]) :=
  ⟨h.core.push_validating ht ho (fun hc => absurd hc List.not_mem_nil) hr,
    fun x hx => (h.consX x hx).imp (fun h' => List.mem_append_left _ h') id⟩

theorem pop_waiting {n : Nat} (h : GFrames s (full ++ [n])) (ho : s.store.taskOutput n ≠ none) :
    GFrames s full := by
  refine ⟨h.core.pop_validating ho, fun x hx => ?_⟩
  rcases h.consX x hx with h' | h'
  · rcases List.mem_append.mp h' with h' | h'
    · exact .inl h'
    · simp at h'; subst h'; exact .inr ho
  · exact .inr h'

theorem reserve_abort (h : GFrames s full) {dst t : Nat} {k : Abort}
    (hd : s.store.taskOf dst = some t) (heq : reserveRequire s dst = (s', .abort k)) :
    k = .cyclic := by
  have heq' : reserveRequire s.noCons dst = (s'.noCons, .abort k) := by
    rw [reserveRequire_noCons, heq]
  exact (reserveRequire_abort h.core hd heq').2

theorem reserve_ok {full₀ : List Nat} {a dst t : Nat}
    (h : GFrames s (full₀ ++ [a])) (hc : s.cur = some a) (hd : s.store.taskOf dst = some t)
    (heq : reserveRequire s dst = (s', .ok ())) :
    GFrames s' (full₀ ++ [a]) ∧ Keeps full₀ s s' ∧ s.store.Le s'.store ∧
    (∃ dep, (dst, dep) ∈ s'.store.g.outgoingEdges a) ∧
    (∀ p ∈ s'.store.g.outgoingEdges a, p ∈ s.store.g.outgoingEdges a ∨ p = (dst, .reserved)) ∧
    s'.cur = s.cur := by
  have heq' : reserveRequire s.noCons dst = (s'.noCons, .ok ()) := by
    rw [reserveRequire_noCons, heq]
  obtain ⟨f2, _, k2, o2, _, _, c2, le2, e2⟩ :=
    reserveRequire_ok (top := some a) h.core hc hd heq'
  have hcons : s'.consistent = s.consistent := by
    have := reserveRequire_consistent s dst; rw [heq] at this; exact this
  obtain ⟨e21, e22, _⟩ := e2 a rfl
  exact ⟨h.of_core f2 o2 hcons, k2, le2, e21, e22, c2⟩

theorem update {full₀ : List Nat} {a dst t c : Nat} {stamp : Stamp}
    {r : Res Unit} (h : GFrames s (full₀ ++ [a])) (hc : s.cur = some a)
    (hd : s.store.taskOf dst = some t)
    (hedge : ∃ dep, (dst, dep) ∈ s.store.g.outgoingEdges a)
    (heq : updateRequire s dst t c stamp = (s', r)) :
    r = .ok () ∧ GFrames s' (full₀ ++ [a]) ∧ Keeps full₀ s s' ∧
    (∀ n, s'.store.taskOutput n = s.store.taskOutput n) ∧
    (∀ d ∈ s'.store.depsFrom a,
      d = .require t c stamp ∨ ∃ b, b ≠ dst ∧ (b, d) ∈ s.store.g.outgoingEdges a) := by
  have heq' : updateRequire s.noCons dst t c stamp = (s'.noCons, r) := by
    rw [updateRequire_noCons, heq]
  obtain ⟨hr, f2, _, k2, o2, d2⟩ :=
    updateRequire_frames (top := some a) h.core hc hd (fun a' ha' => by cases ha'; exact hedge) heq'
  have hcons : s'.consistent = s.consistent := by
    have := updateRequire_consistent s dst t c stamp; rw [heq] at this; exact this
  exact ⟨hr, h.of_core f2 o2 hcons, k2, o2, d2 a rfl⟩

theorem resStep {full₀ : List Nat} {a r : Nat}
    (h : GFrames s (full₀ ++ [a])) (hc : s.cur = some a) (hw' : SessWF s')
    (hs : s'.store = (s.store.getOrCreateResNode r).1 ∨
      ∃ d, d ≠ .reserved ∧
        (s.store.getOrCreateResNode r).1.DepOK d (s.store.getOrCreateResNode r).2 ∧
        s'.store = ((s.store.getOrCreateResNode r).1.addDependency a
          (s.store.getOrCreateResNode r).2 d).1)
    (h2 : s'.cur = s.cur) (h3 : s'.consistent = s.consistent) :
    GFrames s' (full₀ ++ [a]) ∧ Keeps full₀ s s' ∧
    (Dep.reserved ∉ s.store.depsFrom a → Dep.reserved ∉ s'.store.depsFrom a) := by
  obtain ⟨f2, _, k2, n2⟩ := h.core.resStep (s' := { s.noCons with store := s'.store }) (r := r)
    hc hs rfl rfl rfl (fun _ => rfl)
  have ho : ∀ n, s'.store.taskOutput n = s.store.taskOutput n := by
    have hw := h.wf.store
    rcases hs with hs | ⟨d, _, _, hs⟩
    · intro n; rw [hs, Store.taskOutput_getOrCreateResNode hw]
    · intro n
      rw [hs, Store.taskOutput_addDependency (hw.getOrCreateResNode r),
        Store.taskOutput_getOrCreateResNode hw]
  exact ⟨h.of_core (f2.of_wf (sessWF_noCons.mpr hw') rfl h2 rfl) ho h3, k2, n2⟩

/-- Start of an execution: reset and push. -/
theorem pushExec (h : GFrames s full) {node t : Nat}
    (ht : s.store.taskOf node = some t) (hr : ∀ x ∈ full, s.store.g.Reach x node) (e : Ev) :
    GFrames (({ s with store := s.store.resetTask node, cur := some node } : Sess).emit e)
      (full ++ [node]) := by
  have hw := h.wf.store
  refine ⟨(h.core.pushExec ht (fun hc => absurd hc List.not_mem_nil) hr).emit e, ?_⟩
  intro x hx
  show x ∈ full ++ [node] ∨ (s.store.resetTask node).taskOutput x ≠ none
  by_cases hxn : x = node
  · exact .inl (by simp [hxn])
  · rw [Store.taskOutput_resetTask hw, if_neg hxn]
    exact (h.consX x hx).imp (fun h' => List.mem_append_left _ h') id

/-- End of an execution: pop, store the output. -/
theorem popExec {node t : Nat} (h : GFrames s (full ++ [node]))
    (hnr : Dep.reserved ∉ s.store.depsFrom node) (o : Int) (ht : s.store.taskOf node = some t)
    (h1 : s'.store = s.store.setTaskOutput node o)
    (h2 : s'.cur = (s.store.execStack full).getLast?)
    (h3 : s'.consistent = s.consistent) (h4 : s'.queue = s.queue) :
    GFrames s' full ∧ s'.store.taskOutput node = some o := by
  have hout : s'.store.taskOutput node = some o := by
    rw [h1]; exact Store.taskOutput_setTaskOutput_self ht o
  refine ⟨⟨h.core.popExec hnr o h1 h2 rfl h4, ?_⟩, hout⟩
  intro x hx
  rw [h3] at hx
  by_cases hxn : x = node
  · subst hxn; exact .inr (by rw [hout]; simp)
  · rw [h1, Store.taskOutput_setTaskOutput_of_ne hxn]
    rcases h.consX x hx with h' | h'
    · rcases List.mem_append.mp h' with h' | h'
      · exact .inl h'
      · simp at h'; exact absurd h' hxn
    · exact .inr h'

end GFrames

variable (sem : Sem)

theorem GFrames.scheduleAfterExec {s : Sess} {full : List Nat} (h : GFrames s full) {node : Nat}
    (t : Nat) (out : Int) (ho : s.store.taskOutput node ≠ none) :
    GFrames (scheduleAfterExec sem s node t out) full ∧
      (scheduleAfterExec sem s node t out).store = s.store := by
  obtain ⟨s₃, hc, he⟩ := scheduleAfterExec_core sem s node t out
  have hw := (scheduleAfterExec_ext sem h.wf node t out).wf
  rw [he] at hw ⊢
  have hw3 : SessWF s₃ := (hw.same (s' := s₃) (by simp) (by simp) (by simp)).wf
  exact ⟨(h.of_same hw3 hc.1 hc.2.1 hc.2.2).markConsistent (by rw [hc.1]; exact ho),
    by rw [Sess.store_markConsistent]; exact hc.1⟩

theorem GFrames.doRead {s : Sess} {full₀ : List Nat} {a : Nat} (h : GFrames s (full₀ ++ [a]))
    (hc : s.cur = some a) (r c : Nat) :
    GFrames (doRead sem s r c).1 (full₀ ++ [a]) ∧ Keeps full₀ s (doRead sem s r c).1 ∧
    (Dep.reserved ∉ s.store.depsFrom a →
      Dep.reserved ∉ (doRead sem s r c).1.store.depsFrom a) := by
  refine h.resStep (r := r) hc (doRead_ext sem h.wf r c).wf ?_ (doRead_cur sem s r c)
    (doRead_consistent sem s r c)
  rcases doRead_store sem hc r c with hs | ⟨stamp, hs⟩
  · exact .inl hs
  · exact .inr ⟨_, by simp, by simp [Store.resOf_getOrCreateResNode_self h.wf.store], hs⟩

theorem GFrames.doWrite {s : Sess} {full₀ : List Nat} {a : Nat} (h : GFrames s (full₀ ++ [a]))
    (hc : s.cur = some a) (r c : Nat) (v : Option Int) :
    GFrames (doWrite sem s r c v).1 (full₀ ++ [a]) ∧ Keeps full₀ s (doWrite sem s r c v).1 ∧
    (Dep.reserved ∉ s.store.depsFrom a →
      Dep.reserved ∉ (doWrite sem s r c v).1.store.depsFrom a) := by
  refine h.resStep (r := r) hc (doWrite_ext sem h.wf r c v).wf ?_ (doWrite_cur sem s r c v)
    (doWrite_consistent sem s r c v)
  rcases doWrite_store sem hc r c v with hs | ⟨stamp, hs⟩
  · exact .inl hs
  · exact .inr ⟨_, by simp, by simp [Store.resOf_getOrCreateResNode_self h.wf.store], hs⟩

theorem GFrames.doWrote {s : Sess} {full₀ : List Nat} {a : Nat} (h : GFrames s (full₀ ++ [a]))
    (hc : s.cur = some a) (r c : Nat) (v : Option Int) :
    GFrames (doWrote sem s r c v).1 (full₀ ++ [a]) ∧ Keeps full₀ s (doWrote sem s r c v).1 ∧
    (Dep.reserved ∉ s.store.depsFrom a →
      Dep.reserved ∉ (doWrote sem s r c v).1.store.depsFrom a) := by
  refine h.resStep (r := r) hc (doWrote_ext sem h.wf r c v).wf ?_ (doWrote_cur sem s r c v)
    (doWrote_consistent sem s r c v)
  rcases doWrote_store sem hc r c v with hs | ⟨stamp, hs⟩
  · exact .inl hs
  · exact .inr ⟨_, by simp, by simp [Store.resOf_getOrCreateResNode_self h.wf.store], hs⟩

/-! ### no `bug` abort of the resource primitives in a well-formed session -/

theorem SessWF.not_addDependency_bug {s : Sess} (h : SessWF s) {a r : Nat}
    (hc : s.cur = some a) {st : Store} {dst : Nat}
    (hn : s.store.getOrCreateResNode r = (st, dst)) (d : Dep) :
    ¬ ∃ st', st.addDependency a dst d = (st', .bug) := by
  rw [addDependency_bug_iff]
  have hst : st = (s.store.getOrCreateResNode r).1 := by rw [hn]
  have hdst : dst = (s.store.getOrCreateResNode r).2 := by rw [hn]
  obtain ⟨t, ht⟩ := h.cur a hc
  have h1 : st.g.containsNode a = true := by
    rw [hst, Store.containsNode_getOrCreateResNode h.store, Store.live_of_taskOf ht]; simp
  have h2 : st.g.containsNode dst = true := by
    rw [hst, hdst, Store.containsNode_getOrCreateResNode h.store]; simp
  rw [h1, h2]; simp

theorem SessWF.doRead_no_bug {s s' : Sess} (h : SessWF s) {r c : Nat} {k : Abort}
    (heq : doRead sem s r c = (s', .abort k)) (n : Nat) : k ≠ .bug n := by
  have h2 : (PieModel.doRead sem s r c).2 = .abort k := by rw [heq]
  cases hcur : s.cur with
  | none => rw [doRead_no_cur sem s r c hcur] at h2; cases h2
  | some cur =>
    rcases hp : s.store.getOrCreateResNode r with ⟨st, dst⟩
    rw [doRead_abort_iff sem s r c cur st dst k hcur hp] at h2
    rcases h2 with ⟨rfl, _⟩ | ⟨rfl, _, stamp, _, hb⟩
    · simp
    · exact absurd hb (h.not_addDependency_bug hcur hp _)

theorem SessWF.doWrite_no_bug {s s' : Sess} (h : SessWF s) {r c : Nat}
    {v : Option Int} {k : Abort} (heq : doWrite sem s r c v = (s', .abort k)) (n : Nat) :
    k ≠ .bug n := by
  have h2 : (PieModel.doWrite sem s r c v).2 = .abort k := by rw [heq]
  cases hcur : s.cur with
  | none => rw [doWrite_no_cur sem s r c v hcur] at h2; cases h2
  | some cur =>
    rcases hp : s.store.getOrCreateResNode r with ⟨st, dst⟩
    rw [doWrite_abort_iff sem s r c cur v st dst k hcur hp] at h2
    rcases h2 with hv | ⟨rfl, _, stamp, _, hb⟩
    · rcases validateWrite_kinds st cur dst k hv with rfl | rfl <;> simp
    · exact absurd hb (h.not_addDependency_bug hcur hp _)

theorem SessWF.doWrote_no_bug {s s' : Sess} (h : SessWF s) {r c : Nat}
    {v : Option Int} {k : Abort} (heq : doWrote sem s r c v = (s', .abort k)) (n : Nat) :
    k ≠ .bug n := by
  have h2 : (PieModel.doWrote sem s r c v).2 = .abort k := by rw [heq]
  cases hcur : s.cur with
  | none => rw [doWrote_no_cur sem s r c v hcur] at h2; cases h2
  | some cur =>
    rcases hp : s.store.getOrCreateResNode r with ⟨st, dst⟩
    rw [doWrote_abort_iff sem s r c cur v st dst k hcur hp] at h2
    rcases h2 with hv | ⟨rfl, _, stamp, _, hb⟩
    · rcases validateWrite_kinds st cur dst k hv with rfl | rfl <;> simp
    · exact absurd hb (h.not_addDependency_bug hcur hp _)

end PieModel
