/-
Idempotence of the top-down build for programs WITH writes (property C02, static roles):
definitions and generic steps.

`ClosedW s` ("recorded stamps are current"): every dependency recorded for a task that was made
consistent in this session is accepted by its checker in the current state (`DepOk` of
`SoundW/Walk.lean`): a `require` against the stored output of a consistent task, a `read`/`write`
against the current content of the resource (and the generator of a read resource is consistent,
so the content does not change any more in this session).

`ClosedW` is not a consequence of the session invariant `SInvWD` of C01 (the ordered replay
`FaithfulO` only says that SOME answers with the recorded stamps replay the body); it is an
additional invariant, kept by every top-down function (`IdemW/Induct.lean`), and at the end of a
session it gives `Settled` of `Sound/NoExec.lean`, from which the write-agnostic lemmas
`noExec`/`makeFuel` conclude.

`WrCur s n`: the write dependencies of the executing task `n` carry stamps that are accepted
against the current content (they were taken just after the write, and the executing task is the
only writer of the resource).
-/
import PieModel.Build.SoundW.Session
import PieModel.Build.Sound.NoExecFuel

namespace PieModel

variable {ro : Roles} {sem : Sem} {body : Nat → Prog} {fs₀ : List (Nat × Int)} {D : Nat → Prop}

variable (ro sem) in
/-- Every recorded dependency of every task made consistent in this session is accepted now. -/
def ClosedW (s : Sess) : Prop :=
  ∀ n ∈ s.consistent, ∀ d ∈ s.store.depsFrom n, DepOk ro sem s d

variable (sem) in
/-- The write dependencies of the (executing) task `n` are accepted against the current content. -/
def WrCur (s : Sess) (n : Nat) : Prop :=
  ∀ dst r c st, (dst, Dep.write r c st) ∈ s.store.g.outgoingEdges n →
    sem.rcheck c (aget s.fs r) st = .ok true

theorem ClosedW.nil {s : Sess} (h : s.consistent = []) : ClosedW ro sem s := by
  intro n hn; rw [h] at hn; cases hn

/-- The generic step: the dependencies of the tasks that were consistent before stay accepted
(their records, the outputs of their targets and the resources they read or wrote are stable);
the newly consistent tasks have to be checked. -/
theorem ClosedW.step {s s' : Sess} (hc : ClosedW ro sem s) (h : SInvWD ro sem body fs₀ D s)
    (st : SStepW ro sem body fs₀ D s s')
    (hnew : ∀ n ∈ s'.consistent, n ∉ s.consistent → ∀ d ∈ s'.store.depsFrom n, DepOk ro sem s' d) :
    ClosedW ro sem s' := by
  intro n hn d hd
  by_cases hn0 : n ∈ s.consistent
  · have hsame := st.cext n hn0
    rw [hsame.deps] at hd
    refine (hc n hn0 d hd).step h st (fun r c stp he => ?_)
    subst he
    obtain ⟨t, o, ws, ht, _⟩ := h.sound n hn0
    obtain ⟨dst, hdst⟩ := (Store.mem_depsFrom_iff _ _ _).mp hd
    have hg := h.roles.write n dst r c stp t
      ((Dag.mem_outgoingEdges h.wf.store.gwf _ _ _).mp hdst) ht
    exact st.fs_stable h (fun w hw => by rw [hg] at hw; cases hw; exact ⟨n, hn0, ht⟩)
  · exact hnew n hn hn0 d hd

/-- A step that makes no task consistent. -/
theorem ClosedW.step_same {s s' : Sess} (hc : ClosedW ro sem s) (h : SInvWD ro sem body fs₀ D s)
    (st : SStepW ro sem body fs₀ D s s') (hcons : ∀ x ∈ s'.consistent, x ∈ s.consistent) :
    ClosedW ro sem s' :=
  hc.step h st (fun n hn hn0 => absurd (hcons n hn) hn0)

/-- Marking `m` consistent keeps accepted dependencies accepted. -/
theorem DepOk.mark {s : Sess} {d : Dep} (m : Nat) (h : DepOk ro sem s d) :
    DepOk ro sem (s.markConsistent m) d := by
  have hmono : ∀ x ∈ s.consistent, x ∈ (s.markConsistent m).consistent :=
    fun x hx => (mem_markConsistent s m x).mpr (.inl hx)
  cases d with
  | reserved => exact h
  | require u c stp =>
    obtain ⟨m', o, h1, h2, h3, h4⟩ := h
    exact ⟨m', o, by simpa using h1, hmono _ h2, by simpa using h3, h4⟩
  | read r c stp =>
    obtain ⟨h1, h2⟩ := h
    refine ⟨by simpa using h1, fun w hw => ?_⟩
    obtain ⟨n, hn, ht⟩ := h2 w hw
    exact ⟨n, hmono _ hn, by simpa using ht⟩
  | write r c stp =>
    show sem.rcheck c (aget (s.markConsistent m).fs r) stp = .ok true
    rw [Sess.fs_markConsistent]; exact h

/-- Marking a task consistent all of whose dependencies are accepted. -/
theorem ClosedW.mark {s : Sess} (hc : ClosedW ro sem s) {m : Nat}
    (hm : ∀ d ∈ s.store.depsFrom m, DepOk ro sem s d) : ClosedW ro sem (s.markConsistent m) := by
  intro n hn d hd
  simp only [Sess.store_markConsistent] at hd
  rcases (mem_markConsistent s m n).mp hn with hn | rfl
  · exact (hc n hn d hd).mark m
  · exact (hm d hd).mark n

/-- With reflexive checkers, what is known about the dependencies of the executing task at the
end of its execution (`RunDepW`, `WrCur`) makes them accepted. -/
theorem depOk_of_run (hrefl : Reflexive sem) {qt qr : List (Nat × Nat)} {s : Sess} {n : Nat}
    (hw : s.store.WF) (hri : RunInvW ro sem qt qr s n) (hwc : WrCur sem s n) {d : Dep}
    (hd : d ∈ s.store.depsFrom n) : DepOk ro sem s d := by
  obtain ⟨dst, hdst⟩ := (Store.mem_depsFrom_iff _ _ _).mp hd
  have hr := hri dst d hdst
  cases d with
  | reserved => exact hr.elim
  | require u c stp =>
    obtain ⟨_, h2, o, h3, h4⟩ := hr
    have htask : s.store.taskOf dst = some u := (hw.mem_outgoingEdges_ok hdst).2
    exact ⟨dst, o, htask, h2, h3, by rw [h4]; exact hrefl.1 c o⟩
  | read r c stp =>
    obtain ⟨_, h2, h3⟩ := hr
    exact ⟨hrefl.2 _ _ _ h2, h3⟩
  | write r c stp => exact hwc dst r c stp hdst

/-- End of an execution: the output of the executed task `n` is stored, `cur` is restored, events
are appended, and `n` is marked consistent.  Accepted dependencies whose `require` targets are
not `n` stay accepted. -/
theorem DepOk.endExec {s s' : Sess} {n : Nat} {o : Int} {d : Dep}
    (hst : s'.store = s.store.setTaskOutput n o) (hfs : s'.fs = s.fs)
    (hcons : ∀ x, x ∈ s.consistent → x ∈ s'.consistent) (hn : n ∉ s.consistent)
    (h : DepOk ro sem s d) : DepOk ro sem s' d := by
  cases d with
  | reserved => exact h
  | require u c stp =>
    obtain ⟨m', o', h1, h2, h3, h4⟩ := h
    have hne : m' ≠ n := fun hh => hn (hh ▸ h2)
    exact ⟨m', o', by rw [hst]; simpa using h1, hcons _ h2,
      by rw [hst, Store.taskOutput_setTaskOutput_of_ne hne]; exact h3, h4⟩
  | read r c stp =>
    obtain ⟨h1, h2⟩ := h
    refine ⟨by rw [hfs]; exact h1, fun w hw => ?_⟩
    obtain ⟨m, hm, ht⟩ := h2 w hw
    exact ⟨m, hcons _ hm, by rw [hst]; simpa using ht⟩
  | write r c stp =>
    show sem.rcheck c (aget s'.fs r) stp = .ok true
    rw [hfs]; exact h

theorem ClosedW.endExec {s s' : Sess} {n : Nat} {o : Int} (hc : ClosedW ro sem s)
    (hst : s'.store = s.store.setTaskOutput n o) (hfs : s'.fs = s.fs)
    (hcons : ∀ x, x ∈ s'.consistent ↔ x ∈ s.consistent ∨ x = n) (hn : n ∉ s.consistent)
    (hm : ∀ d ∈ s.store.depsFrom n, DepOk ro sem s d) : ClosedW ro sem s' := by
  have hmono : ∀ x, x ∈ s.consistent → x ∈ s'.consistent := fun x hx => (hcons x).mpr (.inl hx)
  intro x hx d hd
  rw [hst, Store.depsFrom_setTaskOutput] at hd
  rcases (hcons x).mp hx with hx | rfl
  · exact (hc x hx d hd).endExec hst hfs hmono hn
  · exact (hm d hd).endExec hst hfs hmono hn

/-- At the end of a session the consistent set is settled. -/
theorem ClosedW.settled {s : Sess} (hc : ClosedW ro sem s) (h : SInvWD ro sem body fs₀ D s) :
    Settled sem s.fs s.store s.consistent := by
  intro n hn
  obtain ⟨t, o, ws, _, ho, _⟩ := h.sound n hn
  refine ⟨⟨o, ho⟩, fun d hd => ?_⟩
  have hk := hc n hn d hd
  cases d with
  | reserved => exact hk.elim
  | require u c stp => exact hk
  | read r c stp => exact hk.1
  | write r c stp => exact hk

end PieModel
