/-
Idempotence with writes, lifted to `sessionRequire`/`requireAll`:

* a returning `requireAll` from a new session on a `Pie` satisfying the invariants of C01 leaves a
  store in which the set of tasks made consistent is `Settled` (`requireAll_settled`);
* on a settled store, `requireAll` of any list of settled tasks validates only: the store and the
  resources are not touched, no `executeStart` is emitted, and the stored outputs are returned
  (or the fuel runs out) (`requireAll_quiet`); above some fuel they are returned
  (`requireAll_fuel`).  These two are list versions of `sessionRequire_quiet`/`sessionRequire_fuel`
  of `Sound/NoExec*.lean`, which do not depend on the programs being write-free.
-/
import PieModel.Build.IdemW.Make

namespace PieModel

variable {ro : Roles} {sem : Sem} {body : Nat → Prog} {fs₀ : List (Nat × Int)}

/-- Task `t` was made consistent in this session and its stored output is `o`. -/
def ConsOut (s : Sess) (t : Nat) (o : Int) : Prop :=
  ∃ m, s.store.taskOf m = some t ∧ m ∈ s.consistent ∧ s.store.taskOutput m = some o

theorem forall₂_imp_mem {α β : Type} {P Q : α → β → Prop} {l₁ : List α} {l₂ : List β}
    (h : List.Forall₂ P l₁ l₂) (himp : ∀ a b, a ∈ l₁ → P a b → Q a b) : List.Forall₂ Q l₁ l₂ := by
  induction h with
  | nil => exact .nil
  | cons hab _ ih =>
    exact .cons (himp _ _ List.mem_cons_self hab)
      (ih (fun a b ha hp => himp a b (List.mem_cons_of_mem _ ha) hp))

section
variable (hst : StampTotal sem) (hwf : WellFormedBody ro body)
  (hresp : ∀ t, Respects sem (body t)) (hone : ∀ t, OneChecker (body t))
  (hwe : ∀ t, WriteExact sem (body t)) (hrefl : Reflexive sem)
include hst hwf hresp hone hwe hrefl

theorem sessionRequire_closedW (f : Nat) (s : Sess) (t : Nat) (h : SInvW ro sem body fs₀ s)
    (hc : s.cur = none) (hcl : ClosedW ro sem s) (s' : Sess) (o : Int)
    (heq : sessionRequire sem body f s t = (s', .ok o)) : ClosedW ro sem s' := by
  unfold sessionRequire at heq; simp only [] at heq
  have st0 : SStepW ro sem body fs₀ (fun _ => True) s
      (({ s with cur := none } : Sess).emit .buildStart) :=
    h.same rfl rfl hc.symm rfl rfl (fun e he => List.mem_append_left _ he)
      (fun x hx => mem_emit_exec (s := { s with cur := none }) (e := .buildStart)
        (fun y hy => nomatch hy) hx)
  have cl0 : ClosedW ro sem (({ s with cur := none } : Sess).emit .buildStart) :=
    hcl.step_same h st0 (fun x hx => hx)
  have IH := (tdSoundW (fs₀ := fs₀) (D := fun _ => True) hst hwf hresp hone hwe
    (fun _ _ _ _ => trivial) f).require _ t alwaysChecker st0.inv (fun cur hcur => nomatch hcur)
    trivial
  split at heq
  next s2 a heq1 => cases heq
  next s2 o' heq1 =>
    obtain ⟨st2, _⟩ := IH.ok s2 o' heq1
    have cl2 : ClosedW ro sem s2 :=
      (tdClosedW (fs₀ := fs₀) hst hwf hresp hone hwe hrefl f).require _ t alwaysChecker st0.inv
        (fun cur hcur => nomatch hcur) cl0 s2 o' heq1
    cases heq
    exact cl2.step_same st2.inv (st2.inv.emit .buildEnd (fun y hy => nomatch hy)) (fun x hx => hx)

theorem requireAll_closedW (f : Nat) (ts : List Nat) : ∀ (s : Sess),
    SInvW ro sem body fs₀ s → s.cur = none → ClosedW ro sem s → ∀ s' os,
    requireAll sem body f s ts = (s', .ok os) → ClosedW ro sem s' := by
  induction ts with
  | nil =>
    intro s _ _ hcl s' os heq
    unfold requireAll at heq; cases heq; exact hcl
  | cons t ts ih =>
    intro s h hc hcl s' os heq
    unfold requireAll at heq
    have IH := sessionRequire_outcomeW (fs₀ := fs₀) (D := fun _ => True) hst hwf hresp hone hwe
      (fun _ _ _ _ => trivial) f s t h hc trivial
    split at heq
    next s2 a heq1 => cases heq
    next s2 o heq1 =>
      obtain ⟨st2, hc2, _⟩ := IH.ok s2 o heq1
      have cl2 : ClosedW ro sem s2 :=
        sessionRequire_closedW hst hwf hresp hone hwe hrefl f s t h hc hcl s2 o heq1
      split at heq
      next s3 a heq3 => cases heq
      next s3 os' heq3 =>
        cases heq
        exact ih s2 st2.inv hc2 cl2 _ _ heq3

/-- **After a returning session the consistent set is settled**, and the outputs returned for
the roots are the stored outputs of consistent tasks. -/
theorem requireAll_settled {p : PieSt} (h : PieInvW ro sem body p) (f : Nat) (roots : List Nat)
    {s' : Sess} {os : List Int} (hr : requireAll sem body f p.newSession roots = (s', .ok os)) :
    s'.store.WF ∧ Settled sem s'.fs s'.store s'.consistent ∧ s'.cur = none ∧
      List.Forall₂ (ConsOut s') roots os := by
  have hs : SInvW ro sem body p.fs p.newSession := SInvWD.newSession h
  obtain ⟨st, hc, hall, hcons⟩ := (requireAll_outcomeW (fs₀ := p.fs) (D := fun _ => True) hst hwf
    hresp hone hwe (fun _ _ _ _ => trivial) f roots p.newSession hs rfl
    (fun _ _ => trivial)).ok s' os hr
  have hcl : ClosedW ro sem s' :=
    requireAll_closedW hst hwf hresp hone hwe hrefl f roots p.newSession hs rfl
      (ClosedW.nil rfl) s' os hr
  refine ⟨st.inv.wf.store, hcl.settled st.inv, hc, forall₂_imp_mem hall ?_⟩
  rintro t o ht ⟨ws, hden⟩
  obtain ⟨n, o', ws', hn, htn, ho', hden', _⟩ := st.inv.consT_den (hcons t ht)
  have := Den.det hden hden'; cases this
  exact ⟨n, htn, hn, ho'⟩

end

/-! ### `requireAll` on a settled store -/

variable {fs : List (Nat × Int)} {st : Store} {C : List Nat}

/-- **Nothing changed ⇒ nothing executes**, for a list of settled tasks. -/
theorem requireAll_quiet (hw : st.WF) (hS : Settled sem fs st C) (fuel : Nat) {ts : List Nat}
    {os : List Int}
    (hts : List.Forall₂ (fun t o => ∃ m, st.taskOf m = some t ∧ m ∈ C ∧ st.taskOutput m = some o)
      ts os) :
    ∀ (s : Sess), s.store = st → s.fs = fs → ∀ s' r, requireAll sem body fuel s ts = (s', r) →
    s'.store = st ∧ s'.fs = fs ∧
      (∃ evs, s'.trace = s.trace ++ evs ∧ ∀ e ∈ evs, e.isExec = false) ∧
      (r = .ok os ∨ r = .abort .outOfFuel) := by
  induction hts with
  | nil =>
    intro s hs hfs s' r heq
    unfold requireAll at heq; cases heq
    exact ⟨hs, hfs, ⟨[], by simp, fun _ he => nomatch he⟩, .inl rfl⟩
  | @cons t o ts os hto _ ih =>
    intro s hs hfs s' r heq
    obtain ⟨m, htm, hm, ho⟩ := hto
    unfold requireAll at heq
    split at heq
    next s2 a heq1 =>
      obtain ⟨h1, h2, h3, h4⟩ := sessionRequire_quiet (body := body) hw hS fuel s hs hfs t m o htm hm
        ho _ _ heq1
      cases heq
      rcases h4 with h4 | h4
      · cases h4
      · cases h4; exact ⟨h1, h2, h3, .inr rfl⟩
    next s2 o' heq1 =>
      obtain ⟨h1, h2, ⟨evs1, he1, hne1⟩, h4⟩ := sessionRequire_quiet (body := body) hw hS fuel s hs
        hfs t m o htm hm ho _ _ heq1
      rcases h4 with h4 | h4
      · cases h4
        split at heq
        next s3 a heq3 =>
          obtain ⟨g1, g2, ⟨evs2, he2, hne2⟩, g4⟩ := ih s2 h1 h2 _ _ heq3
          cases heq
          refine ⟨g1, g2, ⟨evs1 ++ evs2, by rw [he2, he1, List.append_assoc], ?_⟩, ?_⟩
          · intro e he
            rcases List.mem_append.mp he with he | he
            · exact hne1 e he
            · exact hne2 e he
          · rcases g4 with g4 | g4
            · cases g4
            · cases g4; exact .inr rfl
        next s3 os' heq3 =>
          obtain ⟨g1, g2, ⟨evs2, he2, hne2⟩, g4⟩ := ih s2 h1 h2 _ _ heq3
          cases heq
          refine ⟨g1, g2, ⟨evs1 ++ evs2, by rw [he2, he1, List.append_assoc], ?_⟩, ?_⟩
          · intro e he
            rcases List.mem_append.mp he with he | he
            · exact hne1 e he
            · exact hne2 e he
          · rcases g4 with g4 | g4
            · cases g4; exact .inl rfl
            · cases g4
      · cases h4

/-- ... and above some fuel the stored outputs are returned. -/
theorem requireAll_fuel (hw : st.WF) (hS : Settled sem fs st C) {ts : List Nat} {os : List Int}
    (hts : List.Forall₂ (fun t o => ∃ m, st.taskOf m = some t ∧ m ∈ C ∧ st.taskOutput m = some o)
      ts os) :
    ∃ N, ∀ f, N ≤ f → ∀ s : Sess, s.store = st → s.fs = fs → ∀ s' r,
      requireAll sem body f s ts = (s', r) → r = .ok os := by
  induction hts with
  | nil =>
    refine ⟨0, fun f _ s _ _ s' r heq => ?_⟩
    unfold requireAll at heq; cases heq; rfl
  | @cons t o ts os hto _ ih =>
    obtain ⟨m, htm, hm, ho⟩ := hto
    obtain ⟨N1, hN1⟩ := sessionRequire_fuel (body := body) hw hS t m o htm hm ho
    obtain ⟨N2, hN2⟩ := ih
    refine ⟨max N1 N2, fun f hf s hs hfs s' r heq => ?_⟩
    unfold requireAll at heq
    split at heq
    next s2 a heq1 =>
      have := hN1 f (by omega) s hs hfs _ _ heq1
      cases this
    next s2 o' heq1 =>
      have := hN1 f (by omega) s hs hfs _ _ heq1
      cases this
      obtain ⟨h1, h2, _, _⟩ := sessionRequire_quiet (body := body) hw hS f s hs hfs t m o htm hm
        ho _ _ heq1
      split at heq
      next s3 a heq3 =>
        have := hN2 f (by omega) s2 h1 h2 _ _ heq3
        cases this
      next s3 os' heq3 =>
        have := hN2 f (by omega) s2 h1 h2 _ _ heq3
        cases this
        cases heq
        rfl

end PieModel
