/-
Idempotence with writes: the successor step of `tdMake` and the joint induction `tdClosedW`.

A task becomes consistent (a) by validation: `tdCheck` found every recorded dependency accepted
(`QCheckW` of the soundness induction), or (b) by execution: at the end of `tdRun` every
`require` dependency carries the stamp of the stored output of a consistent task, every `read`
dependency the stamp of the current content of a resource whose generator is consistent
(`RunInvW`), every `write` dependency the stamp of the content just written (`WrCur`); reflexive
checkers accept them.
-/
import PieModel.Build.IdemW.Run

namespace PieModel

variable {ro : Roles} {sem : Sem} {body : Nat → Prog} {fs₀ : List (Nat × Int)}

section
variable (hwf : WellFormedBody ro body) (hone : ∀ t, OneChecker (body t)) (hrefl : Reflexive sem)
include hwf hone hrefl

theorem closedW_make_succ {f : Nat} (T : TdSoundW ro sem body fs₀ (fun _ => True) f)
    (ih : TdClosedW ro sem body fs₀ f) (s : Sess) (t : Nat)
    (h : SInvW ro sem body fs₀ s) (hcr : CurReach s (nodeOf s t)) (hpre : ReqPre ro s t)
    (hcl : ClosedW ro sem s) (s' : Sess) (v : Int)
    (heq : tdMake sem body (f + 1) s t = (s', .ok v)) : ClosedW ro sem s' := by
  unfold tdMake at heq; simp only [] at heq
  obtain ⟨hb, _⟩ := h.getTask t
    (s' := { s with store := (s.store.getOrCreateTaskNode t).1 }) rfl rfl rfl rfl rfl
    (TrExt.of_eq rfl)
  have clb : ClosedW ro sem { s with store := (s.store.getOrCreateTaskNode t).1 } :=
    hcl.step_same h hb (fun x hx => hx)
  have hw := h.wf.store
  have htm : (s.store.getOrCreateTaskNode t).1.taskOf (nodeOf s t) = some t :=
    Store.taskOf_getOrCreateTaskNode_self hw t
  have hpreb : ReqPre ro { s with store := (s.store.getOrCreateTaskNode t).1 } t := by
    intro cur hcur
    obtain ⟨t0, h1, h2⟩ := hpre cur hcur
    exact ⟨t0, hb.le.task _ _ h1, h2⟩
  split at heq
  next hmem =>
    split at heq
    next o ho => cases heq; exact clb
    next ho => cases heq
  next hmem =>
    have hcrb : CurReach { s with store := (s.store.getOrCreateTaskNode t).1 } (nodeOf s t) :=
      fun n hn => (Store.reach_getOrCreateTaskNode hw t n _).mpr (hcr n hn)
    have IHc := T.check { s with store := (s.store.getOrCreateTaskNode t).1 } (nodeOf s t) t
      hb.inv hmem hcrb htm hpreb trivial
    split at heq
    next s1 a heq1 => cases heq
    next s1 o heq1 =>
      -- validated
      obtain ⟨_, hp1, _, hq1⟩ := IHc.ok s1 _ heq1
      obtain ⟨_, hdeps⟩ := hq1 o rfl
      have cl1 : ClosedW ro sem s1 :=
        ih.check _ (nodeOf s t) t hb.inv hmem hcrb htm hpreb clb s1 _ heq1
      have hsm := (hp1 _ (.inl rfl)).1
      cases heq
      refine cl1.mark (fun d hd => hdeps d ?_)
      have hd' : d ∈ s1.store.depsFrom (nodeOf s t) := hd
      rw [hsm.deps] at hd'; exact hd'
    next s1 heq1 =>
      -- executed
      obtain ⟨st1, hp1, _, _⟩ := IHc.ok s1 _ heq1
      have cl1 : ClosedW ro sem s1 :=
        ih.check _ (nodeOf s t) t hb.inv hmem hcrb htm hpreb clb s1 _ heq1
      have hm1 : nodeOf s t ∉ s1.consistent := fun hc => hmem ((hp1 _ (.inl rfl)).2 hc)
      have ht1 : s1.store.taskOf (nodeOf s t) = some t := st1.le.task _ _ htm
      have hcur1 : s1.cur = s.cur :=
        cur_tdCheck (s := { s with store := (s.store.getOrCreateTaskNode t).1 }) sem body heq1
      have hpre1 : ReqPre ro s1 t := by
        intro cur hcur
        obtain ⟨t0, h1, h2⟩ := hpreb cur (by rw [← hcur1]; exact hcur)
        exact ⟨t0, st1.le.task _ _ h1, h2⟩
      obtain ⟨st2, _, hoe2⟩ := st1.inv.startExec
        (s' := ({ s1 with store := s1.store.resetTask (nodeOf s t),
                          cur := some (nodeOf s t) } : Sess).emit (.executeStart t))
        ht1 hm1 hpre1 trivial rfl rfl rfl rfl rfl rfl
      have cl2 : ClosedW ro sem (({ s1 with store := s1.store.resetTask (nodeOf s t), cur := some (nodeOf s t) } : Sess).emit (.executeStart t)) :=
        cl1.step_same st1.inv st2 (fun x hx => hx)
      have ht2 := st2.le.task _ _ ht1
      have hwc2 : WrCur sem (({ s1 with store := s1.store.resetTask (nodeOf s t), cur := some (nodeOf s t) } : Sess).emit (.executeStart t)) (nodeOf s t) := by
        intro dst r c st hm
        rw [hoe2] at hm; cases hm
      have IHr := T.run _ (nodeOf s t) t (body t) {} [] [] [] st2.inv rfl ht2 (hwf t)
        (AccOK.start st1.inv.wf.store (nodeOf s t)) (hone t)
        (by intro dst d hd; rw [hoe2] at hd; cases hd) (EnvOK.nil _)
        (fun _ _ => trivial)
      split at heq
      next s3 a heq3 => cases heq
      next s3 o heq3 =>
        obtain ⟨st3, _, _, _, _, _, _, ⟨qt', qr', hri⟩, _⟩ := IHr.ok s3 o heq3
        obtain ⟨cl3, hwc3⟩ := ih.run _ (nodeOf s t) t (body t) {} st2.inv rfl ht2 (hwf t)
          (AccOK.start st1.inv.wf.store (nodeOf s t)) cl2 hwc2 s3 o heq3
        have hcur3 : s3.cur = some (nodeOf s t) := cur_tdRun sem body heq3
        cases heq
        exact cl3.endExec (n := nodeOf s t) (o := v) (by simp [nodeOf]) (by simp)
          (fun x => by rw [mem_markConsistent]; rfl) (st3.inv.cur_not_consistent hcur3)
          (fun d hd => depOk_of_run hrefl st3.inv.wf.store hri hwc3 hd)

end

section
variable (hst : StampTotal sem) (hwf : WellFormedBody ro body)
  (hresp : ∀ t, Respects sem (body t)) (hone : ∀ t, OneChecker (body t))
  (hwe : ∀ t, WriteExact sem (body t)) (hrefl : Reflexive sem)
include hst hwf hresp hone hwe hrefl

/-- **The joint induction**: every top-down function keeps `ClosedW`, for every fuel. -/
theorem tdClosedW (f : Nat) : TdClosedW ro sem body fs₀ f := by
  induction f with
  | zero => exact tdClosedW_zero
  | succ f ih =>
    have T : TdSoundW ro sem body fs₀ (fun _ => True) f :=
      tdSoundW hst hwf hresp hone hwe (fun _ _ _ _ => trivial) f
    exact ⟨closedW_require_succ T ih, closedW_make_succ hwf hone hrefl T ih,
      closedW_check_succ ih, closedW_checkDeps_succ T ih, closedW_run_succ hst hwf hrefl T ih⟩

end

end PieModel
