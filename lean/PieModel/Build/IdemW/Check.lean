/-
Idempotence with writes: the statement of the joint induction (`TdClosedW`: every top-down
function that returns keeps `ClosedW`), the fuel-zero case, and the successor steps of
`tdCheckDeps` and `tdCheck`.  The facts about the intermediate states (invariant, steps,
protection of ancestors) are taken from the soundness induction `TdSoundW` of C01.
-/
import PieModel.Build.IdemW.Defs

namespace PieModel

variable (ro : Roles) (sem : Sem) (body : Nat → Prog) (fs₀ : List (Nat × Int))

/-- The joint statement for fuel `f`: each function, called under the preconditions under which
the build calls it, from a state satisfying the session invariant and `ClosedW`, returns (if it
returns) a state satisfying `ClosedW`; `tdRun` also keeps `WrCur` of the executing task. -/
structure TdClosedW (f : Nat) : Prop where
  require : ∀ s u c, SInvW ro sem body fs₀ s → ReqPre ro s u → ClosedW ro sem s →
    ∀ s' v, tdRequire sem body f s u c = (s', .ok v) → ClosedW ro sem s'
  make : ∀ s t, SInvW ro sem body fs₀ s → CurReach s (nodeOf s t) → ReqPre ro s t →
    ClosedW ro sem s → ∀ s' v, tdMake sem body f s t = (s', .ok v) → ClosedW ro sem s'
  check : ∀ s m t, SInvW ro sem body fs₀ s → m ∉ s.consistent → CurReach s m →
    s.store.taskOf m = some t → ReqPre ro s t → ClosedW ro sem s →
    ∀ s' v, tdCheck sem body f s m = (s', .ok v) → ClosedW ro sem s'
  checkDeps : ∀ s m t ds, SInvW ro sem body fs₀ s → CurReach s m →
    s.store.taskOf m = some t → ReqPre ro s t → (∀ d ∈ ds, d ∈ s.store.depsFrom m) →
    ClosedW ro sem s → ∀ s' b, tdCheckDeps sem body f s ds = (s', .ok b) → ClosedW ro sem s'
  run : ∀ s n t0 p a, SInvW ro sem body fs₀ s → s.cur = some n → s.store.taskOf n = some t0 →
    StaticRolesFrom ro t0 a p → AccOK s.store n a → ClosedW ro sem s → WrCur sem s n →
    ∀ s' v, tdRun sem body f s p = (s', .ok v) → ClosedW ro sem s' ∧ WrCur sem s' n

variable {ro sem body fs₀}

theorem tdClosedW_zero : TdClosedW ro sem body fs₀ 0 := by
  refine ⟨?_, ?_, ?_, ?_, ?_⟩
  · intro s u c _ _ _ s' v heq; unfold tdRequire at heq; cases heq
  · intro s t _ _ _ _ s' v heq; unfold tdMake at heq; cases heq
  · intro s m t _ _ _ _ _ _ s' v heq; unfold tdCheck at heq; cases heq
  · intro s m t ds _ _ _ _ _ _ s' b heq; unfold tdCheckDeps at heq; cases heq
  · intro s n t0 p a _ _ _ _ _ _ _ s' v heq; unfold tdRun at heq; cases heq

theorem closedW_checkDeps_succ {f : Nat} (T : TdSoundW ro sem body fs₀ (fun _ => True) f)
    (ih : TdClosedW ro sem body fs₀ f) (s : Sess) (m t : Nat) (ds : List Dep)
    (h : SInvW ro sem body fs₀ s) (hcr : CurReach s m) (htm : s.store.taskOf m = some t)
    (hpre : ReqPre ro s t) (hsub : ∀ d ∈ ds, d ∈ s.store.depsFrom m) (hcl : ClosedW ro sem s)
    (s' : Sess) (b : Bool) (heq : tdCheckDeps sem body (f + 1) s ds = (s', .ok b)) :
    ClosedW ro sem s' := by
  cases ds with
  | nil => unfold tdCheckDeps at heq; cases heq; exact hcl
  | cons d ds =>
    have hmem : d ∈ s.store.depsFrom m := hsub d List.mem_cons_self
    have hsub' : ∀ d' ∈ ds, d' ∈ s.store.depsFrom m :=
      fun d' hd' => hsub d' (List.mem_cons_of_mem _ hd')
    cases d with
    | reserved => unfold tdCheckDeps at heq; cases heq
    | require u c stamp =>
      unfold tdCheckDeps at heq; simp only [] at heq
      have e0 := h.emit (.checkTaskStart u c stamp) (fun x hx => nomatch hx)
      have cl0 : ClosedW ro sem (s.emit (.checkTaskStart u c stamp)) :=
        hcl.step_same h e0 (fun x hx => hx)
      obtain ⟨dst, hdst⟩ := (Store.mem_depsFrom_iff _ _ _).mp hmem
      have htask : s.store.taskOf dst = some u := (h.wf.store.mem_outgoingEdges_ok hdst).2
      have hnode : nodeOf (s.emit (.checkTaskStart u c stamp)) u = dst := nodeOf_eq h.wf.store htask
      have hedge : s.store.g.HasEdge m dst := (Store.hasEdge_iff_mem_oe h.wf.store _ _).mpr ⟨_, hdst⟩
      have hged := (Dag.mem_outgoingEdges h.wf.store.gwf _ _ _).mp hdst
      have hrk : ro.rank t < ro.rank u := h.roles.req m dst _ t u hged htm htask
      have hpre_u : ReqPre ro (s.emit (.checkTaskStart u c stamp)) u := by
        intro cur hcur
        obtain ⟨t0, h1, h2⟩ := hpre cur hcur
        exact ⟨t0, h1, Nat.lt_trans h2 hrk⟩
      have hcru : CurReach (s.emit (.checkTaskStart u c stamp))
          (nodeOf (s.emit (.checkTaskStart u c stamp)) u) := by
        rw [hnode]; exact fun n hn => (hcr n hn).tail hedge
      have IH := T.make (s.emit (.checkTaskStart u c stamp)) u e0.inv hcru hpre_u trivial
      split at heq
      next s2 a heq2 => cases heq
      next s2 out heq2 =>
        obtain ⟨st2, _, _, _, hprot, _⟩ := IH.ok s2 out heq2
        have cl2 := ih.make (s.emit (.checkTaskStart u c stamp)) u e0.inv hcru hpre_u cl0 s2 out heq2
        rw [hnode] at hprot
        have hcur2 : s2.cur = s.cur := cur_tdMake (s := s.emit (.checkTaskStart u c stamp)) sem body heq2
        have hpr : ProtR s s2 m := Prot.toR (s := s) hprot (.edge hedge)
        have hsame : Same s s2 m := (hpr m (.inl rfl)).1
        have hne : ∀ x, Ev.checkTaskEnd u c stamp (sem.ocheck c out stamp) ≠ Ev.executeStart x :=
          fun x hx => nomatch hx
        have st02 : SStepW ro sem body fs₀ (fun _ => True) s
            (s2.emit (.checkTaskEnd u c stamp (sem.ocheck c out stamp))) := (e0.trans st2).emit _ hne
        have cl3 : ClosedW ro sem (s2.emit (.checkTaskEnd u c stamp (sem.ocheck c out stamp))) :=
          cl2.step_same st2.inv (st2.inv.emit _ hne) (fun x hx => hx)
        split at heq
        next hck =>
          have hcr2 : CurReach (s2.emit (.checkTaskEnd u c stamp (sem.ocheck c out stamp))) m :=
            fun n hn => hpr.prot.reach h.wf.store st2.inv.wf.store
              (hcr n (by rw [← hcur2]; exact hn))
          have hpre2 : ReqPre ro (s2.emit (.checkTaskEnd u c stamp (sem.ocheck c out stamp))) t := by
            intro cur hcur
            obtain ⟨t0, h1, h2⟩ := hpre cur (by rw [← hcur2]; exact hcur)
            exact ⟨t0, st02.le.task _ _ h1, h2⟩
          exact ih.checkDeps (s2.emit (.checkTaskEnd u c stamp (sem.ocheck c out stamp))) m t ds
            st02.inv hcr2 (st02.le.task _ _ htm) hpre2
            (by
              intro d' hd'
              show d' ∈ s2.store.depsFrom m
              rw [hsame.deps]; exact hsub' d' hd') cl3 s' b heq
        next hck => cases heq; exact cl3
    | read r c stamp =>
      rw [tdCheckDeps_read] at heq
      split at heq
      next hck =>
        obtain ⟨st1, _, _⟩ := h.quiet (s' := resCheckEvents s r c stamp (.ok true)) rfl rfl rfl rfl
          rfl (trExt_resCheckEvents s r c stamp _) (ro.rank t + 1) m
        exact ih.checkDeps (resCheckEvents s r c stamp (.ok true)) m t ds st1.inv hcr htm hpre hsub'
          (hcl.step_same h st1 (fun x hx => hx)) s' b heq
      next hck =>
        obtain ⟨st1, _, _⟩ := h.quiet (s' := resCheckEvents s r c stamp (.ok false)) rfl rfl rfl
          rfl rfl (trExt_resCheckEvents s r c stamp _) (ro.rank t + 1) m
        cases heq
        exact hcl.step_same h st1 (fun x hx => hx)
      next e hck =>
        obtain ⟨st1, _, _⟩ := h.quiet
          (s' := { resCheckEvents s r c stamp (.error e) with errors := s.errors ++ [e] }) rfl rfl
          rfl rfl rfl (trExt_resCheckEvents s r c stamp _) (ro.rank t + 1) m
        cases heq
        exact hcl.step_same h st1 (fun x hx => hx)
    | write r c stamp =>
      rw [tdCheckDeps_write] at heq
      split at heq
      next hck =>
        obtain ⟨st1, _, _⟩ := h.quiet (s' := resCheckEvents s r c stamp (.ok true)) rfl rfl rfl rfl
          rfl (trExt_resCheckEvents s r c stamp _) (ro.rank t + 1) m
        exact ih.checkDeps (resCheckEvents s r c stamp (.ok true)) m t ds st1.inv hcr htm hpre hsub'
          (hcl.step_same h st1 (fun x hx => hx)) s' b heq
      next hck =>
        obtain ⟨st1, _, _⟩ := h.quiet (s' := resCheckEvents s r c stamp (.ok false)) rfl rfl rfl
          rfl rfl (trExt_resCheckEvents s r c stamp _) (ro.rank t + 1) m
        cases heq
        exact hcl.step_same h st1 (fun x hx => hx)
      next e hck =>
        obtain ⟨st1, _, _⟩ := h.quiet
          (s' := { resCheckEvents s r c stamp (.error e) with errors := s.errors ++ [e] }) rfl rfl
          rfl rfl rfl (trExt_resCheckEvents s r c stamp _) (ro.rank t + 1) m
        cases heq
        exact hcl.step_same h st1 (fun x hx => hx)

theorem closedW_check_succ {f : Nat} (ih : TdClosedW ro sem body fs₀ f) (s : Sess) (m t : Nat)
    (h : SInvW ro sem body fs₀ s) (_hm : m ∉ s.consistent) (hcr : CurReach s m)
    (htm : s.store.taskOf m = some t) (hpre : ReqPre ro s t) (hcl : ClosedW ro sem s)
    (s' : Sess) (v : Option Int) (heq : tdCheck sem body (f + 1) s m = (s', .ok v)) :
    ClosedW ro sem s' := by
  unfold tdCheck at heq
  split at heq
  next hnone => cases heq; exact hcl
  next o0 ho0 =>
    split at heq
    next s1 a heq1 => cases heq
    next s1 heq1 =>
      cases heq
      exact ih.checkDeps s m t _ h hcr htm hpre (fun d hd => hd) hcl _ _ heq1
    next s1 heq1 =>
      cases heq
      exact ih.checkDeps s m t _ h hcr htm hpre (fun d hd => hd) hcl _ _ heq1

end PieModel
