/-
Model of `pie/src/store.rs`: the dependency graph with task/resource nodes and the two lookup
tables, plus `pie/src/dependency.rs`'s `Dependency` enum as edge data.
-/
import PieModel.Graph.Model
import PieModel.Build.Syntax

namespace PieModel

inductive NodeData
  | task (t : Nat) (out : Option Int)
  | res (r : Nat)
deriving DecidableEq, Repr

inductive Dep
  | reserved
  | require (t c : Nat) (s : Stamp)
  | read (r c : Nat) (s : Stamp)
  | write (r c : Nat) (s : Stamp)
deriving DecidableEq, Repr

structure Store where
  g : Dag NodeData Dep := {}
  taskNode : List (Nat × Nat) := []
  resNode : List (Nat × Nat) := []

namespace Store

/-- `Store::get_or_create_task_node` -/
def getOrCreateTaskNode (st : Store) (t : Nat) : Store × Nat :=
  match aget st.taskNode t with
  | some n => (st, n)
  | none =>
    let (g, n) := st.g.addNode (.task t none)
    ({ st with g := g, taskNode := st.taskNode ++ [(t, n)] }, n)

/-- `Store::get_or_create_resource_node` -/
def getOrCreateResNode (st : Store) (r : Nat) : Store × Nat :=
  match aget st.resNode r with
  | some n => (st, n)
  | none =>
    let (g, n) := st.g.addNode (.res r)
    ({ st with g := g, resNode := st.resNode ++ [(r, n)] }, n)

/-- `Store::get_task`; `none` = the Rust code panics ("BUG: … not found"). -/
def taskOf (st : Store) (n : Nat) : Option Nat :=
  match st.g.getNodeData n with | some (.task t _) => some t | _ => none

def resOf (st : Store) (n : Nat) : Option Nat :=
  match st.g.getNodeData n with | some (.res r) => some r | _ => none

/-- `Store::get_task_output` (outer `none` = panic; here folded: a non-task node has no output). -/
def taskOutput (st : Store) (n : Nat) : Option Int :=
  match st.g.getNodeData n with | some (.task _ o) => o | _ => none

/-- `Store::set_task_output` -/
def setTaskOutput (st : Store) (n : Nat) (o : Int) : Store :=
  match st.g.getNodeData n with
  | some (.task t _) => { st with g := st.g.setNodeData n (.task t (some o)) }
  | _ => st

/-- `Store::reset_task`: forget the output, remove all outgoing dependencies. -/
def resetTask (st : Store) (n : Nat) : Store :=
  match st.g.getNodeData n with
  | some (.task t _) =>
    let g1 := st.g.setNodeData n (.task t none)
    { st with g := (g1.removeOutgoingEdgesOfNode n).1 }
  | _ => st

def containsTransitive (st : Store) (src dst : Nat) : Bool := st.g.containsTransitiveEdge src dst

/-- `Store::get_tasks_reading_from_resource` -/
def tasksReadingFrom (st : Store) (dst : Nat) : List Nat :=
  (st.g.incomingEdges dst).filterMap fun (n, d) => match d with | .read .. => some n | _ => none

/-- `Store::get_task_writing_to_resource` -/
def taskWritingTo (st : Store) (dst : Nat) : Option Nat :=
  ((st.g.incomingEdges dst).filterMap fun (n, d) => match d with | .write .. => some n | _ => none).head?

/-- `Store::get_read_dependencies_to_resource` -/
def readDepsTo (st : Store) (dst : Nat) : List (Nat × Dep) :=
  (st.g.incomingEdges dst).filter fun (_, d) => match d with | .read .. => true | _ => false

/-- `Store::get_read_and_write_dependencies_to_resource` -/
def readWriteDepsTo (st : Store) (dst : Nat) : List (Nat × Dep) :=
  (st.g.incomingEdges dst).filter fun (_, d) => match d with | .read .. | .write .. => true | _ => false

/-- `Store::get_dependencies_from_task` -/
def depsFrom (st : Store) (src : Nat) : List Dep := st.g.outgoingEdgeData src

/-- `Store::get_require_dependencies_to_task` -/
def requireDepsTo (st : Store) (dst : Nat) : List (Nat × Dep) :=
  (st.g.incomingEdges dst).filter fun (_, d) => match d with | .require .. => true | _ => false

/-- `Store::get_resources_written_by` -/
def resourcesWrittenBy (st : Store) (src : Nat) : List Nat :=
  (st.g.outgoingEdges src).filterMap fun (n, d) => match d with | .write .. => some n | _ => none

inductive AddDep | ok | cycle | bug

/-- `Store::add_dependency` (`bug` = the "BUG: source/destination not found" panic). -/
def addDependency (st : Store) (src dst : Nat) (d : Dep) : Store × AddDep :=
  match st.g.addEdge src dst d with
  | (g, .ok _) => ({ st with g := g }, .ok)
  | (_, .error .cycle) => (st, .cycle)
  | (_, .error .nodeMissing) => (st, .bug)

/-- `*Store::get_dependency_mut(src, dst) = d`; `none` = "BUG: no task dependency was found". -/
def setDependency (st : Store) (src dst : Nat) (d : Dep) : Option Store :=
  match st.g.getEdgeData src dst with
  | some _ => some { st with g := st.g.setEdgeData src dst d }
  | none => none

end Store
end PieModel
