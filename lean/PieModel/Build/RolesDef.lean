/-
The `Roles` record alone (no imports), so that the compiled driver can link the Boolean hypothesis
checkers of `Build/ScriptWF/Defs.lean`.  Everything about roles is in `Build/Roles.lean`.
-/
namespace PieModel

/-- Static roles: `rank` orders the task names (a task only requires tasks of strictly greater
rank), `gen r = some w` designates `w` as the only potential writer of resource `r`. -/
structure Roles where
  rank : Nat → Nat
  gen : Nat → Option Nat

end PieModel
