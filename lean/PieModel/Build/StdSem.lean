/-
The checker table shared with the harness (`/verif/harness/src/checkers.rs`): the five built-in
output checkers of `pie::task` on `Result<i64,i64>` outputs (an output `n` stands for `Ok(n)`
if `n ≥ 0`, else `Err(n)`), `MapEqualsChecker`, and the harness' own checkers.
-/
import PieModel.Build.Syntax

namespace PieModel

/-- output checkers: 0 Equals, 1 OkEquals, 2 ErrEquals, 3 Result, 4 AlwaysConsistent, 5 ParityOut -/
def stdOStamp (c : Nat) (out : Int) : Stamp :=
  match c with
  | 0 => .int out
  | 1 => .optInt (if out ≥ 0 then some out else none)
  | 2 => .optInt (if out < 0 then some out else none)
  | 3 => .bool (out < 0)
  | 5 => .optInt (some (out % 2))
  | _ => .unit

def stdOCheck (c : Nat) (out : Int) (s : Stamp) : Bool := stdOStamp c out == s

/-- resource checkers: 0 MapEquals, 1 ParityRes, 2 ExistsRes, 3 AlwaysRes,
`10+k` FailWhen(k) (exact stamps; `check` fails with error `k` while the content is `k`),
`30+k` FailStampWhen(k) (exact; *stamping* fails with error `k` while the content is `k`). -/
def stdRStampCore (c : Nat) (v : Option Int) : Stamp :=
  match c with
  | 1 => .optInt (v.map (· % 2))
  | 2 => .bool v.isSome
  | 3 => .unit
  | _ => .optInt v

def stdRStamp (c : Nat) (v : Option Int) : Except Int Stamp :=
  if 30 ≤ c ∧ v = some ((c : Int) - 30) then .error ((c : Int) - 30) else .ok (stdRStampCore c v)

def stdRCheck (c : Nat) (v : Option Int) (s : Stamp) : Except Int Bool :=
  if 10 ≤ c ∧ c < 30 ∧ v = some ((c : Int) - 10) then .error ((c : Int) - 10)
  else .ok (stdRStampCore c v == s)

def stdSem : Sem := { ostamp := stdOStamp, ocheck := stdOCheck, rstamp := stdRStamp, rcheck := stdRCheck }

end PieModel
