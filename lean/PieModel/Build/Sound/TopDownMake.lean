/-
Soundness of the top-down build: the successor step of `tdMake`, and the joint induction.
-/
import PieModel.Build.Sound.TopDownRun

namespace PieModel

variable {sem : Sem} {body : Nat → Prog} {fs : List (Nat × Int)}

theorem sound_make_succ (hst : StampTotal sem) (hwfb : WriteFreeBody body)
    (hresp : ∀ t, Respects sem (body t)) (hone : ∀ t, OneChecker (body t)) {f : Nat}
    (ih : TdSound sem body fs f) (s : Sess) (t : Nat) (h : SInv sem body fs s)
    (hcr : CurReach s (nodeOf s t)) :
    Outcome sem body fs s (tdMake sem body (f + 1) s t) (QMake sem body fs s t) := by
  unfold tdMake; simp only []
  obtain ⟨hb, hbs⟩ := h.getTask t
    (s' := { s with store := (s.store.getOrCreateTaskNode t).1 }) rfl rfl rfl rfl rfl
  have hw := h.wf.store
  have htm : (s.store.getOrCreateTaskNode t).1.taskOf (nodeOf s t) = some t :=
    Store.taskOf_getOrCreateTaskNode_self hw t
  have hpb : Prot s { s with store := (s.store.getOrCreateTaskNode t).1 } (nodeOf s t) :=
    fun x _ => ⟨hbs x, id⟩
  split
  next hmem =>
    split
    next o ho =>
      refine .ret hb ⟨hmem, ho, htm, ?_, hpb⟩
      obtain ⟨t', v, ht', hv, he⟩ := hb.inv.sound _ hmem
      rw [show (s.store.getOrCreateTaskNode t).1.taskOf (s.store.getOrCreateTaskNode t).2 = some t
        from htm] at ht'
      cases ht'
      rw [ho] at hv; cases hv; exact he
    next ho => exact .abort hb.inv.faithful
  next hmem =>
    have hcrb : CurReach { s with store := (s.store.getOrCreateTaskNode t).1 } (nodeOf s t) :=
      fun n hn => (Store.reach_getOrCreateTaskNode hw t n _).mpr (hcr n hn)
    have IHc := ih.check { s with store := (s.store.getOrCreateTaskNode t).1 } (nodeOf s t)
      hb.inv hmem hcrb
    split
    next s1 a heq => exact .abort (IHc.faithful_of heq)
    next s1 o heq =>
      obtain ⟨st1, hp1, hq1⟩ := IHc.ok s1 _ heq
      obtain ⟨ho, hdeps⟩ := hq1 o rfl
      have hsm := (hp1 _ (.inl rfl)).1
      have hev : Eval sem body fs t o :=
        replay_eval hst (hresp t) (hb.inv.faithful _ t o htm ho).1 (fun d hd => (hdeps d hd).1)
      have ht1 : s1.store.taskOf (nodeOf s t) = some t := st1.le.task _ _ htm
      have ho1 : s1.store.taskOutput (nodeOf s t) = some o := by rw [hsm.1]; exact ho
      have stm := st1.inv.mark ht1 ho1 hev (fun d hd => by
        rw [hsm.deps] at hd
        exact (hdeps d hd).2.mono (by simp [Store.Le.refl])
          (fun x hx => ⟨(mem_markConsistent _ _ _).mpr (.inl hx), by simp⟩))
      refine .ret (hb.trans (st1.trans stm)) ⟨(mem_markConsistent _ _ _).mpr (.inr rfl),
        by simpa using ho1, by simpa using ht1, hev, ?_⟩
      exact (hpb.trans hp1.prot hw hb.inv.wf.store).trans
        (Prot.mod st1.inv.wf.store (fun x _ => ⟨by simp, by simp⟩)
          (fun x hx => (mem_markConsistent _ _ _).mp hx)) hw st1.inv.wf.store
    next s1 heq =>
      obtain ⟨st1, hp1, _⟩ := IHc.ok s1 _ heq
      have hm1 : nodeOf s t ∉ s1.consistent := fun hc => hmem ((hp1 _ (.inl rfl)).2 hc)
      have ht1 : s1.store.taskOf (nodeOf s t) = some t := st1.le.task _ _ htm
      have hcur1 : s1.cur = s.cur :=
        cur_tdCheck (s := { s with store := (s.store.getOrCreateTaskNode t).1 }) sem body heq
      obtain ⟨st2, hs2, hoe2⟩ := st1.inv.startExec
        (s' := ({ s1 with store := s1.store.resetTask (nodeOf s t),
                          cur := some (nodeOf s t) } : Sess).emit (.executeStart t))
        ht1 hm1 rfl rfl rfl rfl rfl
      have IHr := ih.run _ (nodeOf s t) (body t) [] [] st2.inv rfl (hwfb t) (hone t)
        (by intro dst d hd; rw [hoe2] at hd; cases hd)
      split
      next s3 a heq3 => exact .abort (IHr.faithful_of heq3)
      next s3 o heq3 =>
        obtain ⟨st3, hev, hp3, ⟨qt', qr', hri⟩, _, hrep⟩ := IHr.ok s3 o heq3
        have hcur3 : s3.cur = some (nodeOf s t) := cur_tdRun sem body heq3
        have hm3 : nodeOf s t ∉ s3.consistent := st3.inv.cur_not_consistent hcur3
        have ht3 : s3.store.taskOf (nodeOf s t) = some t := st3.le.task _ _ (st2.le.task _ _ ht1)
        have hnores : Dep.reserved ∉ s3.store.depsFrom (nodeOf s t) := by
          intro hh
          obtain ⟨dst, hd⟩ := (Store.mem_depsFrom_iff _ _ _).mp hh
          exact hri dst _ hd
        have hp12 : Prot s1 (({ s1 with
              store := s1.store.resetTask (nodeOf s t),
              cur := some (nodeOf s t) } : Sess).emit (.executeStart t)) (nodeOf s t) :=
          Prot.mod st1.inv.wf.store hs2 (fun x hx => .inl hx)
        have hp03 : Prot { s with store := (s.store.getOrCreateTaskNode t).1 } s3 (nodeOf s t) :=
          (hp1.prot.trans hp12 hb.inv.wf.store st1.inv.wf.store).trans hp3 hb.inv.wf.store
            st2.inv.wf.store
        have hwf4 : SessWF ({ s3.emit (.executeEnd t o) with
            cur := s1.cur,
            store := s3.store.setTaskOutput (nodeOf s t) o } : Sess) :=
          (Ext.endExec (s₂ := s1) (s₄ := s3.emit (.executeEnd t o))
            ⟨st3.inv.wf.emit _, st2.le.trans st3.le⟩ st1.inv.wf (nodeOf s t) o).wf
        obtain ⟨st4, hs4, ho4, hoe4⟩ := st3.inv.endExec
          (s' := { s3.emit (.executeEnd t o) with
                   cur := s1.cur,
                   store := s3.store.setTaskOutput (nodeOf s t) o })
          ht3 hm3 hrep hnores rfl rfl rfl hwf4 (by
            intro n hn
            have hn0 : s.cur = some n := hcur1 ▸ hn
            have hr := hcrb n hn0
            refine ⟨fun hnm => hb.inv.wf.store.inv.acyclic _ (hnm ▸ hr), ?_⟩
            rw [(hp03 n hr).1.1]
            exact hb.inv.curFree n hn0)
        have ht4 := st4.le.task _ _ ht3
        have stm := st4.inv.mark ht4 ho4 hev (by
          intro d hd
          obtain ⟨dst, hdst⟩ := (Store.mem_depsFrom_iff _ _ _).mp hd
          rw [hoe4] at hdst
          have hok := (st3.inv.wf.store.mem_outgoingEdges_ok hdst).2
          have hrd := hri dst d hdst
          cases d with
          | reserved => exact hrd.elim
          | write r' c' st0 => exact hrd.elim
          | read r' c' st0 => exact .inl hrd.2
          | require u' c' st0 =>
            obtain ⟨_, hcs, o', ho', hst0⟩ := hrd
            exact ⟨dst, o', by simp only [Sess.store_markConsistent]; exact st4.le.task _ _ hok,
              (mem_markConsistent _ _ _).mpr (.inl (st4.mono _ hcs)),
              by simp only [Sess.store_markConsistent]; rw [(st4.cext _ hcs).1]; exact ho',
              .inl hst0⟩)
        refine .ret (hb.trans (st1.trans (st2.trans (st3.trans (st4.trans stm)))))
          ⟨(mem_markConsistent _ _ _).mpr (.inr rfl),
            by simp only [Sess.store_markConsistent]; exact ho4,
            by simp only [Sess.store_markConsistent]; exact ht4, hev, ?_⟩
        refine ((hpb.trans hp03 hw hb.inv.wf.store).trans
          (Prot.mod (s := s3) st3.inv.wf.store (fun x hx => ?_) (fun x hx => ?_)) hw st3.inv.wf.store)
        · exact ⟨by simp only [Sess.store_markConsistent]; exact (hs4 x hx).1,
            by simp only [Sess.store_markConsistent]; exact (hs4 x hx).2⟩
        · rcases (mem_markConsistent _ _ _).mp hx with hx | hx
          · exact .inl hx
          · exact .inr hx

/-- **The joint induction**: soundness of the top-down build for every fuel. -/
theorem tdSound (hst : StampTotal sem) (hwfb : WriteFreeBody body)
    (hresp : ∀ t, Respects sem (body t)) (hone : ∀ t, OneChecker (body t)) (f : Nat) :
    TdSound sem body fs f := by
  induction f with
  | zero => exact tdSound_zero
  | succ f ih =>
    exact ⟨sound_require_succ ih, sound_make_succ hst hwfb hresp hone ih, sound_check_succ ih,
      sound_checkDeps_succ ih, sound_run_succ hst ih⟩

end PieModel
