/-
A write-free program never aborts with a hidden dependency or an overlapping write (top-down),
from any well-formed session state whose store contains no write dependency; and no write
dependency is ever created.  (Bonus of C01; independent of the soundness argument.)
-/
import PieModel.Build.Sound.Defs
import PieModel.Build.SessWFTopDown
import PieModel.Build.Proofs.TopDownSteps

namespace PieModel

/-- The store contains no `write` dependency. -/
def NoWrite (st : Store) : Prop := ∀ a b dep, st.g.getEdgeData a b = some dep → dep.isWrite = false

namespace NoWrite
variable {st : Store}

theorem empty : NoWrite ({} : Store) := by
  intro a b dep h
  simp [Dag.getEdgeData, aget] at h

theorem getTask (hw : st.WF) (h : NoWrite st) (t : Nat) : NoWrite (st.getOrCreateTaskNode t).1 := by
  intro a b dep he
  rw [Store.getEdgeData_getOrCreateTaskNode hw] at he; exact h a b dep he

theorem getRes (hw : st.WF) (h : NoWrite st) (r : Nat) : NoWrite (st.getOrCreateResNode r).1 := by
  intro a b dep he
  rw [Store.getEdgeData_getOrCreateResNode hw] at he; exact h a b dep he

theorem addDep (hw : st.WF) (h : NoWrite st) (src dst : Nat) {d : Dep} (hd : d.isWrite = false) :
    NoWrite (st.addDependency src dst d).1 := by
  by_cases hr : (st.addDependency src dst d).2 = .ok ∧ ¬ st.g.HasEdge src dst
  · intro a b dep he
    rw [Store.getEdgeData_addDependency_new hw hr.1 hr.2] at he
    split at he
    · cases he; exact hd
    · exact h a b dep he
  · have : (st.addDependency src dst d).1 = st := by
      by_cases h1 : (st.addDependency src dst d).2 = .ok
      · have he : st.g.HasEdge src dst := Classical.not_not.mp (fun hh => hr ⟨h1, hh⟩)
        rw [Store.addDependency_of_edge hw _ _ _ he]
      · exact Store.addDependency_fst_of_ne_ok _ _ _ h1
    rw [this]; exact h

theorem setDep (h : NoWrite st) {src dst : Nat} {d : Dep} {st' : Store}
    (hs : st.setDependency src dst d = some st') (hd : d.isWrite = false) : NoWrite st' := by
  intro a b dep he
  rw [Store.getEdgeData_setDependency hs] at he
  split at he
  · cases he; exact hd
  · exact h a b dep he

theorem reset (hw : st.WF) (h : NoWrite st) (n : Nat) : NoWrite (st.resetTask n) := by
  intro a b dep he
  rw [Store.getEdgeData_resetTask hw] at he
  split at he
  · cases he
  · exact h a b dep he

theorem setOut (h : NoWrite st) (n : Nat) (o : Int) : NoWrite (st.setTaskOutput n o) := by
  intro a b dep he
  rw [Store.getEdgeData_setTaskOutput] at he; exact h a b dep he

/-- No task writes to any resource. -/
theorem taskWritingTo (hw : st.WF) (h : NoWrite st) (dst : Nat) : st.taskWritingTo dst = none := by
  rw [Store.taskWritingTo_eq, Store.writersTo]
  have : (st.g.incomingEdges dst).filter (fun p => p.2.isWrite) = [] := by
    rw [List.filter_eq_nil_iff]
    intro p hp
    obtain ⟨a, dep⟩ := p
    have := h a dst dep ((Dag.mem_incomingEdges hw.gwf dst a dep).mp hp)
    simp [this]
  rw [this]; rfl

end NoWrite

/-- The result is not an abort with a hidden dependency or an overlapping write. -/
def Res.notHO {α : Type} : Res α → Prop
  | .ok _ => True
  | .abort a => a ≠ .hidden ∧ a ≠ .overlap

/-- The result is neither a hidden-dependency nor an overlapping-write abort, and the store
still has no write dependency. -/
structure NHO {α : Type} (F : Sess × Res α) : Prop where
  nw : NoWrite F.1.store
  nho : F.2.notHO

theorem NHO.of_eq {α : Type} {F : Sess × Res α} {s : Sess} {r : Res α} (h : NHO F)
    (heq : F = (s, r)) : NoWrite s.store ∧ r.notHO := by
  subst heq; exact ⟨h.nw, h.nho⟩

theorem NHO.mk' {α : Type} {s : Sess} {r : Res α} (h1 : NoWrite s.store) (h2 : r.notHO) :
    NHO (s, r) := ⟨h1, h2⟩

variable (sem : Sem) (body : Nat → Prog)

theorem doRead_nho {s : Sess} (h : SessWF s) (hn : NoWrite s.store) (r c : Nat) :
    NHO (doRead sem s r c) := by
  rcases Option.eq_none_or_eq_some s.cur with hc | ⟨n, hc⟩
  · rw [doRead_no_cur sem s r c hc]; exact ⟨hn, by simp [Res.notHO]⟩
  · have hnn : s.store.getOrCreateResNode r =
      ((s.store.getOrCreateResNode r).1, (s.store.getOrCreateResNode r).2) := rfl
    have hn' := hn.getRes h.store r
    have hw' := h.store.getOrCreateResNode r
    generalize (s.store.getOrCreateResNode r).1 = st at hnn hn' hw'
    generalize (s.store.getOrCreateResNode r).2 = dst at hnn
    rw [doRead_eq sem s r c n st dst hc hnn]
    have hh : readHidden st n dst = false := by
      unfold readHidden; rw [hn'.taskWritingTo hw']
    rw [hh]
    simp only [Bool.false_eq_true, if_false]
    split
    · exact ⟨hn', by simp [Res.notHO]⟩
    · split
      · exact ⟨hn', by simp [Res.notHO]⟩
      · rename_i st' v _ heq
        have hst' := congrArg Prod.fst heq
        simp only at hst'
        exact ⟨by show NoWrite st'; rw [← hst']; exact hn'.addDep hw' _ _ rfl, by simp [Res.notHO]⟩

theorem reserveRequire_nho {s : Sess} (h : SessWF s) (hn : NoWrite s.store) (dst : Nat) :
    NHO (reserveRequire s dst) := by
  unfold reserveRequire
  split
  · exact ⟨hn, by simp [Res.notHO]⟩
  · split
    · rename_i st heq
      have hst' := congrArg Prod.fst heq
      simp only at hst'
      exact ⟨by show NoWrite st; rw [← hst']; exact hn.addDep h.store _ _ rfl, by simp [Res.notHO]⟩
    · exact ⟨hn, by simp [Res.notHO]⟩
    · exact ⟨hn, by simp [Res.notHO]⟩

theorem updateRequire_nho {s : Sess} (hn : NoWrite s.store) (dst t c : Nat) (stamp : Stamp) :
    NHO (updateRequire s dst t c stamp) := by
  unfold updateRequire
  split
  · exact ⟨hn, by simp [Res.notHO]⟩
  · split
    · rename_i heq
      exact ⟨hn.setDep heq rfl, by simp [Res.notHO]⟩
    · exact ⟨hn, by simp [Res.notHO]⟩

/-- The joint statement for fuel `f`. -/
structure TdNHO (f : Nat) : Prop where
  require : ∀ s t c, SessWF s → NoWrite s.store → NHO (tdRequire sem body f s t c)
  make : ∀ s t, SessWF s → NoWrite s.store → NHO (tdMake sem body f s t)
  check : ∀ s node, SessWF s → NoWrite s.store → NHO (tdCheck sem body f s node)
  checkDeps : ∀ s ds, SessWF s → NoWrite s.store → NHO (tdCheckDeps sem body f s ds)
  run : ∀ s p, SessWF s → NoWrite s.store → p.WriteFree → NHO (tdRun sem body f s p)

theorem tdNHO (hwfb : WriteFreeBody body) (f : Nat) : TdNHO sem body f := by
  induction f with
  | zero =>
    refine ⟨?_, ?_, ?_, ?_, ?_⟩
    · intro s t c _ hn; unfold tdRequire; exact ⟨hn, by simp [Res.notHO]⟩
    · intro s t _ hn; unfold tdMake; exact ⟨hn, by simp [Res.notHO]⟩
    · intro s n _ hn; unfold tdCheck; exact ⟨hn, by simp [Res.notHO]⟩
    · intro s ds _ hn; unfold tdCheckDeps; exact ⟨hn, by simp [Res.notHO]⟩
    · intro s p _ hn _; unfold tdRun; exact ⟨hn, by simp [Res.notHO]⟩
  | succ f ih =>
    refine ⟨?_, ?_, ?_, ?_, ?_⟩
    · -- tdRequire
      intro s t c h hn
      unfold tdRequire; simp only []
      have e1 := (h.emit (.requireStart t c)).getTask t
      have hd := Store.taskOf_getOrCreateTaskNode_self h.store t
      have n1 : NoWrite (s.store.getOrCreateTaskNode t).1 := hn.getTask h.store t
      have r1 := reserveRequire_nho e1.wf n1 (s.store.getOrCreateTaskNode t).2
      have w1 := reserveRequire_ext e1.wf ⟨t, hd⟩
      split
      next s2 a heq =>
        obtain ⟨a1, a2⟩ := r1.of_eq heq
        exact .mk' a1 a2
      next s2 heq =>
        obtain ⟨a1, _⟩ := r1.of_eq heq
        have e2 := w1.out heq
        have r2 := ih.make s2 t e2.wf a1
        have w2 := tdMake_ext sem body f e2.wf t
        split
        next s3 a heq3 =>
          obtain ⟨b1, b2⟩ := r2.of_eq heq3
          exact .mk' b1 b2
        next s3 out heq3 =>
          obtain ⟨b1, _⟩ := r2.of_eq heq3
          have r3 := updateRequire_nho (s := s3.emit (.requireEnd t c (sem.ostamp c out) out)) b1
            (s.store.getOrCreateTaskNode t).2 t c (sem.ostamp c out)
          split
          next s4 a heq4 =>
            obtain ⟨c1, c2⟩ := r3.of_eq heq4
            exact .mk' c1 c2
          next s4 heq4 =>
            obtain ⟨c1, _⟩ := r3.of_eq heq4
            exact ⟨c1, by simp [Res.notHO]⟩
    · -- tdMake
      intro s t h hn
      unfold tdMake; simp only []
      have e1 := h.getTask t
      have hd := Store.taskOf_getOrCreateTaskNode_self h.store t
      have n1 : NoWrite (s.store.getOrCreateTaskNode t).1 := hn.getTask h.store t
      split
      · split <;> exact ⟨n1, by simp [Res.notHO]⟩
      · have r1 := ih.check { s with store := (s.store.getOrCreateTaskNode t).1 }
          (s.store.getOrCreateTaskNode t).2 e1.wf n1
        have w1 := tdCheck_ext sem body f e1.wf (s.store.getOrCreateTaskNode t).2
        split
        next s2 a heq =>
          obtain ⟨a1, a2⟩ := r1.of_eq heq
          exact .mk' a1 a2
        next s2 o heq =>
          obtain ⟨a1, _⟩ := r1.of_eq heq
          exact ⟨by simpa using a1, by simp [Res.notHO]⟩
        next s2 heq =>
          obtain ⟨a1, _⟩ := r1.of_eq heq
          have e2 := w1.out heq
          have hd2 := e2.le.task _ _ hd
          have e3 := (e2.wf.startExec hd2).emit (.executeStart t)
          have r3 := ih.run _ (body t) e3.wf (a1.reset e2.wf.store _) (hwfb t)
          split
          next s4 a heq4 =>
            obtain ⟨b1, b2⟩ := r3.of_eq heq4
            exact .mk' b1 b2
          next s4 o heq4 =>
            obtain ⟨b1, _⟩ := r3.of_eq heq4
            refine ⟨?_, by simp [Res.notHO]⟩
            simp only [Sess.store_markConsistent]
            exact b1.setOut _ _
    · -- tdCheck
      intro s node h hn
      unfold tdCheck
      split
      · exact ⟨hn, by simp [Res.notHO]⟩
      · have r1 := ih.checkDeps s (s.store.depsFrom node) h hn
        split
        next s2 a heq =>
          obtain ⟨a1, a2⟩ := r1.of_eq heq
          exact .mk' a1 a2
        next s2 heq => exact ⟨(r1.of_eq heq).1, by simp [Res.notHO]⟩
        next s2 heq => exact ⟨(r1.of_eq heq).1, by simp [Res.notHO]⟩
    · -- tdCheckDeps
      intro s ds h hn
      cases ds with
      | nil => unfold tdCheckDeps; exact ⟨hn, by simp [Res.notHO]⟩
      | cons d ds =>
        cases d with
        | reserved => unfold tdCheckDeps; exact ⟨hn, by simp [Res.notHO]⟩
        | require t c stamp =>
          unfold tdCheckDeps; simp only []
          have r1 := ih.make (s.emit (.checkTaskStart t c stamp)) t (h.emit _) hn
          have w1 := tdMake_ext sem body f (h.emit (.checkTaskStart t c stamp)) t
          split
          next s2 a heq =>
            obtain ⟨a1, a2⟩ := r1.of_eq heq
            exact .mk' a1 a2
          next s2 out heq =>
            obtain ⟨a1, _⟩ := r1.of_eq heq
            have e2 := (w1.out heq).wf
            split
            · exact ih.checkDeps _ ds (e2.emit _) a1
            · exact ⟨a1, by simp [Res.notHO]⟩
        | read r c stamp =>
          rw [tdCheckDeps_read]
          split
          · exact ih.checkDeps _ ds (h.same (s' := resCheckEvents s r c stamp (.ok true)) rfl rfl rfl).wf hn
          · exact ⟨hn, by simp [Res.notHO]⟩
          · exact ⟨hn, by simp [Res.notHO]⟩
        | write r c stamp =>
          rw [tdCheckDeps_write]
          split
          · exact ih.checkDeps _ ds (h.same (s' := resCheckEvents s r c stamp (.ok true)) rfl rfl rfl).wf hn
          · exact ⟨hn, by simp [Res.notHO]⟩
          · exact ⟨hn, by simp [Res.notHO]⟩
    · -- tdRun
      intro s p h hn hp
      cases hp with
      | ret v => unfold tdRun; exact ⟨hn, by simp [Res.notHO]⟩
      | panic => unfold tdRun; exact ⟨hn, by simp [Res.notHO]⟩
      | req t c k hk =>
        unfold tdRun
        have r1 := ih.require s t c h hn
        have w1 := tdRequire_ext sem body f h t c
        split
        next s2 a heq =>
          obtain ⟨a1, a2⟩ := r1.of_eq heq
          exact .mk' a1 a2
        next s2 out heq =>
          exact ih.run s2 (k out) (w1.out heq).wf (r1.of_eq heq).1 (hk out)
      | read r c k hk =>
        unfold tdRun
        have r1 := doRead_nho sem h hn r c
        have w1 := doRead_ext sem h r c
        split
        next s2 a heq =>
          obtain ⟨a1, a2⟩ := r1.of_eq heq
          exact .mk' a1 a2
        next s2 x heq =>
          exact ih.run s2 (k x) (w1.out heq).wf (r1.of_eq heq).1 (hk x)

theorem sessionRequire_nho (hwfb : WriteFreeBody body) (f : Nat) {s : Sess} (h : SessWF s)
    (hn : NoWrite s.store) (t : Nat) : NHO (sessionRequire sem body f s t) := by
  unfold sessionRequire; simp only []
  have r1 := (tdNHO sem body hwfb f).require (({ s with cur := none } : Sess).emit .buildStart) t
    alwaysChecker (h.clearCur.emit .buildStart).wf hn
  split
  next s2 a heq =>
    obtain ⟨a1, a2⟩ := r1.of_eq heq
    exact .mk' a1 a2
  next s2 o heq => exact ⟨(r1.of_eq heq).1, by simp [Res.notHO]⟩

end PieModel
