/-
"Nothing changed ⇒ nothing executes" (property C02): on a store in which a set `C` of task
nodes is *settled* (every member has an output and every dependency of a member is accepted by
its checker against the current resources / the stored output of a member), making a member
consistent validates only: the store is not touched, no `executeStart` event is emitted, and the
stored output is returned (or the fuel runs out).
-/
import PieModel.Build.Sound.Session

namespace PieModel

/-- The event is an `executeStart`. -/
def Ev.isExec : Ev → Bool
  | .executeStart _ => true
  | _ => false

/-- `s'` differs from `s` by new events, none of which is an `executeStart`, and bookkeeping
(`consistent`, `errors`) only. -/
structure Quiet (s s' : Sess) : Prop where
  store : s'.store = s.store
  fs : s'.fs = s.fs
  cur : s'.cur = s.cur
  trace : ∃ evs, s'.trace = s.trace ++ evs ∧ ∀ e ∈ evs, e.isExec = false

theorem Quiet.refl (s : Sess) : Quiet s s := ⟨rfl, rfl, rfl, [], by simp, fun _ h => nomatch h⟩

theorem Quiet.trans {s s' s'' : Sess} (h₁ : Quiet s s') (h₂ : Quiet s' s'') : Quiet s s'' := by
  obtain ⟨e1, h1, h1'⟩ := h₁.trace
  obtain ⟨e2, h2, h2'⟩ := h₂.trace
  refine ⟨h₂.store.trans h₁.store, h₂.fs.trans h₁.fs, h₂.cur.trans h₁.cur, e1 ++ e2, ?_, ?_⟩
  · rw [h2, h1, List.append_assoc]
  · intro e he
    rcases List.mem_append.mp he with he | he
    · exact h1' e he
    · exact h2' e he

/-- A step that only appends the events `evs` (and changes `consistent`/`errors`). -/
theorem Quiet.of_events {s s' : Sess} (evs : List Ev) (h1 : s'.store = s.store) (h2 : s'.fs = s.fs)
    (h3 : s'.cur = s.cur) (h4 : s'.trace = s.trace ++ evs) (h5 : ∀ e ∈ evs, e.isExec = false) :
    Quiet s s' := ⟨h1, h2, h3, evs, h4, h5⟩

variable (sem : Sem) (fs : List (Nat × Int)) (st : Store) (C : List Nat)

/-- A dependency that the top-down check accepts without executing anything. -/
def SettledDep : Dep → Prop
  | .reserved => False
  | .require u c stp => ∃ m o, st.taskOf m = some u ∧ m ∈ C ∧ st.taskOutput m = some o ∧
      sem.ocheck c o stp = true
  | .read r c stp => sem.rcheck c (aget fs r) stp = .ok true
  | .write r c stp => sem.rcheck c (aget fs r) stp = .ok true

/-- Every node in `C` has an output and only settled dependencies (into `C`). -/
def Settled : Prop :=
  ∀ n ∈ C, (∃ o, st.taskOutput n = some o) ∧ ∀ d ∈ st.depsFrom n, SettledDep sem fs st C d

variable (body : Nat → Prog)

/-- The joint statement for fuel `f`. -/
structure NoExec (f : Nat) : Prop where
  make : ∀ (s : Sess) (t m : Nat) (o : Int), s.store = st → s.fs = fs → st.taskOf m = some t →
    m ∈ C → st.taskOutput m = some o → ∀ s' r, tdMake sem body f s t = (s', r) →
    Quiet s s' ∧ (r = .ok o ∨ r = .abort .outOfFuel)
  check : ∀ (s : Sess) (m : Nat) (o : Int), s.store = st → s.fs = fs → m ∈ C →
    st.taskOutput m = some o → ∀ s' r, tdCheck sem body f s m = (s', r) →
    Quiet s s' ∧ (r = .ok (some o) ∨ r = .abort .outOfFuel)
  checkDeps : ∀ (s : Sess) (ds : List Dep), s.store = st → s.fs = fs →
    (∀ d ∈ ds, SettledDep sem fs st C d) → ∀ s' r, tdCheckDeps sem body f s ds = (s', r) →
    Quiet s s' ∧ (r = .ok true ∨ r = .abort .outOfFuel)

variable {sem fs st C body}

theorem noExec (hw : st.WF) (hS : Settled sem fs st C) (f : Nat) : NoExec sem fs st C body f := by
  induction f with
  | zero =>
    refine ⟨?_, ?_, ?_⟩
    · intro s t m o _ _ _ _ _ s' r heq
      unfold tdMake at heq; cases heq; exact ⟨Quiet.refl _, .inr rfl⟩
    · intro s m o _ _ _ _ s' r heq
      unfold tdCheck at heq; cases heq; exact ⟨Quiet.refl _, .inr rfl⟩
    · intro s ds _ _ _ s' r heq
      unfold tdCheckDeps at heq; cases heq; exact ⟨Quiet.refl _, .inr rfl⟩
  | succ f ih =>
    refine ⟨?_, ?_, ?_⟩
    · -- tdMake
      intro s t m o hs hfs ht hm ho s' r heq
      subst hs
      have hg : s.store.getOrCreateTaskNode t = (s.store, m) :=
        Store.getOrCreateTaskNode_of_some ((hw.task_iff t m).mpr ht)
      unfold tdMake at heq
      simp only [hg] at heq
      split at heq
      · rw [ho] at heq
        cases heq
        exact ⟨Quiet.refl _, .inl rfl⟩
      · split at heq
        · rename_i s1 a heq1
          obtain ⟨hq, hr⟩ := ih.check _ m o rfl hfs hm ho _ _ heq1
          cases heq
          rcases hr with hr | hr
          · cases hr
          · exact ⟨hq, .inr (by cases hr; rfl)⟩
        · rename_i s1 o1 heq1
          obtain ⟨hq, hr⟩ := ih.check _ m o rfl hfs hm ho _ _ heq1
          cases heq
          rcases hr with hr | hr
          · cases hr
            exact ⟨hq.trans (Quiet.of_events [] (by simp) (by simp) (by simp) (by simp)
              (fun _ h => nomatch h)), .inl rfl⟩
          · cases hr
        · rename_i s1 heq1
          obtain ⟨hq, hr⟩ := ih.check _ m o rfl hfs hm ho _ _ heq1
          rcases hr with hr | hr <;> cases hr
    · -- tdCheck
      intro s m o hs hfs hm ho s' r heq
      subst hs
      unfold tdCheck at heq
      rw [ho] at heq
      simp only at heq
      split at heq
      · rename_i s1 a heq1
        obtain ⟨hq, hr⟩ := ih.checkDeps s _ rfl hfs (hS m hm).2 _ _ heq1
        cases heq
        rcases hr with hr | hr
        · cases hr
        · exact ⟨hq, .inr (by cases hr; rfl)⟩
      · rename_i s1 heq1
        obtain ⟨hq, hr⟩ := ih.checkDeps s _ rfl hfs (hS m hm).2 _ _ heq1
        rcases hr with hr | hr <;> cases hr
      · rename_i s1 heq1
        obtain ⟨hq, hr⟩ := ih.checkDeps s _ rfl hfs (hS m hm).2 _ _ heq1
        cases heq
        exact ⟨hq, .inl (by rw [hq.store, ho])⟩
    · -- tdCheckDeps
      intro s ds hs hfs hds s' r heq
      subst hs
      cases ds with
      | nil => unfold tdCheckDeps at heq; cases heq; exact ⟨Quiet.refl _, .inl rfl⟩
      | cons d ds =>
        have hds' : ∀ d' ∈ ds, SettledDep sem fs s.store C d' :=
          fun d' hd' => hds d' (List.mem_cons_of_mem _ hd')
        have hd := hds d (List.mem_cons_self ..)
        cases d with
        | reserved => exact hd.elim
        | require u c stp =>
          obtain ⟨mu, o', htask, hC, hout, hck⟩ := hd
          unfold tdCheckDeps at heq
          simp only [] at heq
          have q0 : Quiet s (s.emit (.checkTaskStart u c stp)) :=
            Quiet.of_events [.checkTaskStart u c stp] rfl rfl rfl rfl (by simp [Ev.isExec])
          split at heq
          · rename_i s1 a heq1
            obtain ⟨hq, hr⟩ := ih.make (s.emit (.checkTaskStart u c stp)) u mu o' rfl hfs htask hC
              hout _ _ heq1
            cases heq
            rcases hr with hr | hr
            · cases hr
            · exact ⟨q0.trans hq, .inr (by cases hr; rfl)⟩
          · rename_i s1 out heq1
            obtain ⟨hq, hr⟩ := ih.make (s.emit (.checkTaskStart u c stp)) u mu o' rfl hfs htask hC
              hout _ _ heq1
            rcases hr with hr | hr
            · cases hr
              rw [hck] at heq
              simp only [if_true] at heq
              have q1 : Quiet s1 (s1.emit (.checkTaskEnd u c stp true)) :=
                Quiet.of_events [.checkTaskEnd u c stp true] rfl rfl rfl rfl (by simp [Ev.isExec])
              obtain ⟨hq2, hr2⟩ := ih.checkDeps (s1.emit (.checkTaskEnd u c stp true)) ds
                (q0.trans (hq.trans q1)).store ((q0.trans (hq.trans q1)).fs.trans hfs)
                hds' _ _ heq
              exact ⟨(q0.trans hq).trans (q1.trans hq2), hr2⟩
            · cases hr
        | read r c stp =>
          rw [tdCheckDeps_read] at heq
          have hc : sem.rcheck c (s.content r) stp = .ok true := by
            have : s.content r = aget fs r := by rw [← hfs]; rfl
            rw [this]; exact hd
          rw [hc] at heq
          simp only at heq
          have q0 : Quiet s (resCheckEvents s r c stp (.ok true)) :=
            Quiet.of_events [.checkResStart r c stp, .checkResEnd r c stp (.ok true)] rfl rfl rfl
              (by simp [resCheckEvents, Sess.emit]) (by simp [Ev.isExec])
          obtain ⟨hq2, hr2⟩ := ih.checkDeps (resCheckEvents s r c stp (.ok true)) ds rfl hfs hds'
            _ _ heq
          exact ⟨q0.trans hq2, hr2⟩
        | write r c stp =>
          rw [tdCheckDeps_write] at heq
          have hc : sem.rcheck c (s.content r) stp = .ok true := by
            have : s.content r = aget fs r := by rw [← hfs]; rfl
            rw [this]; exact hd
          rw [hc] at heq
          simp only at heq
          have q0 : Quiet s (resCheckEvents s r c stp (.ok true)) :=
            Quiet.of_events [.checkResStart r c stp, .checkResEnd r c stp (.ok true)] rfl rfl rfl
              (by simp [resCheckEvents, Sess.emit]) (by simp [Ev.isExec])
          obtain ⟨hq2, hr2⟩ := ih.checkDeps (resCheckEvents s r c stp (.ok true)) ds rfl hfs hds'
            _ _ heq
          exact ⟨q0.trans hq2, hr2⟩


theorem reserveRequire_none' {X s_c : Sess} {res : Res Unit} {mu : Nat}
    (heq : reserveRequire X mu = (s_c, res)) (hc : X.cur = none) : s_c = X ∧ res = .ok () := by
  rw [reserveRequire_none hc] at heq; cases heq; exact ⟨rfl, rfl⟩

theorem updateRequire_none' {X s_c : Sess} {res : Res Unit} {mu t c : Nat} {stamp : Stamp}
    (heq : updateRequire X mu t c stamp = (s_c, res)) (hc : X.cur = none) :
    s_c = X ∧ res = .ok () := by
  rw [updateRequire_none hc] at heq; cases heq; exact ⟨rfl, rfl⟩

/-- A `require` outside any task (the root of a session) of a settled task. -/
theorem tdRequire_quiet (hw : st.WF) (hS : Settled sem fs st C) (f : Nat) (s : Sess)
    (hs : s.store = st) (hfs : s.fs = fs) (hc : s.cur = none) (t m c : Nat) (o : Int)
    (ht : st.taskOf m = some t) (hm : m ∈ C) (ho : st.taskOutput m = some o) (s' : Sess)
    (r : Res Int) (heq : tdRequire sem body f s t c = (s', r)) :
    Quiet s s' ∧ (r = .ok o ∨ r = .abort .outOfFuel) := by
  cases f with
  | zero => unfold tdRequire at heq; cases heq; exact ⟨Quiet.refl _, .inr rfl⟩
  | succ f =>
    subst hs
    have hg : s.store.getOrCreateTaskNode t = (s.store, m) :=
      Store.getOrCreateTaskNode_of_some ((hw.task_iff t m).mpr ht)
    unfold tdRequire at heq
    simp only [Sess.store_emit, hg] at heq
    have q0 : Quiet s (s.emit (.requireStart t c)) :=
      Quiet.of_events [.requireStart t c] rfl rfl rfl rfl (by simp [Ev.isExec])
    split at heq
    · rename_i s_c a heq1
      exact absurd (reserveRequire_none' heq1 hc).2 (by simp)
    · rename_i s_c heq1
      obtain ⟨rfl, _⟩ := reserveRequire_none' heq1 hc
      split at heq
      · rename_i s_d a heq2
        obtain ⟨hq, hr⟩ := (noExec hw hS f).make (s.emit (.requireStart t c)) t m o rfl hfs ht hm ho _ _ heq2
        cases heq
        rcases hr with hr | hr
        · cases hr
        · exact ⟨q0.trans hq, .inr (by cases hr; rfl)⟩
      · rename_i s_d out heq2
        obtain ⟨hq, hr⟩ := (noExec hw hS f).make (s.emit (.requireStart t c)) t m o rfl hfs ht hm ho _ _ heq2
        rcases hr with hr | hr
        · cases hr
          have hcd : (s_d.emit (.requireEnd t c (sem.ostamp c o) o)).cur = none :=
            hq.cur.trans hc
          split at heq
          · rename_i s_f a heq3
            exact absurd (updateRequire_none' heq3 hcd).2 (by simp)
          · rename_i s_f heq3
            obtain ⟨rfl, _⟩ := updateRequire_none' heq3 hcd
            cases heq
            exact ⟨(q0.trans hq).trans (Quiet.of_events [.requireEnd t c (sem.ostamp c o) o]
              rfl rfl rfl rfl (by simp [Ev.isExec])), .inl rfl⟩
        · cases hr

/-- **Nothing changed ⇒ nothing executes**: `Session::require` of a settled task validates only. -/
theorem sessionRequire_quiet (hw : st.WF) (hS : Settled sem fs st C) (fuel : Nat) (s : Sess)
    (hs : s.store = st) (hfs : s.fs = fs) (t m : Nat) (o : Int)
    (ht : st.taskOf m = some t) (hm : m ∈ C) (ho : st.taskOutput m = some o) (s' : Sess)
    (r : Res Int) (heq : sessionRequire sem body fuel s t = (s', r)) :
    s'.store = st ∧ s'.fs = fs ∧ (∃ evs, s'.trace = s.trace ++ evs ∧ ∀ e ∈ evs, e.isExec = false) ∧
      (r = .ok o ∨ r = .abort .outOfFuel) := by
  unfold sessionRequire at heq
  simp only [] at heq
  split at heq
  · rename_i s2 a heq1
    obtain ⟨hq, hr⟩ := tdRequire_quiet hw hS fuel (({ s with cur := none } : Sess).emit .buildStart) hs hfs rfl t m
      alwaysChecker o ht hm ho _ _ heq1
    cases heq
    obtain ⟨evs, he, hne⟩ := hq.trace
    refine ⟨hq.store.trans hs, hq.fs.trans hfs, ⟨.buildStart :: evs, ?_, ?_⟩, hr⟩
    · rw [he]; simp [Sess.emit]
    · intro e he'
      rcases List.mem_cons.mp he' with rfl | he'
      · rfl
      · exact hne e he'
  · rename_i s2 out heq1
    obtain ⟨hq, hr⟩ := tdRequire_quiet hw hS fuel (({ s with cur := none } : Sess).emit .buildStart) hs hfs rfl t m
      alwaysChecker o ht hm ho _ _ heq1
    cases heq
    obtain ⟨evs, he, hne⟩ := hq.trace
    refine ⟨hq.store.trans hs, hq.fs.trans hfs, ⟨.buildStart :: (evs ++ [.buildEnd]), ?_, ?_⟩, hr⟩
    · show s2.trace ++ [.buildEnd] = _
      rw [he]; simp [Sess.emit]
    · intro e he'
      rcases List.mem_cons.mp he' with rfl | he'
      · rfl
      · rcases List.mem_append.mp he' with he' | he'
        · exact hne e he'
        · simp at he'; subst he'; rfl

/-- Checkers accept their own stamps. -/
def Reflexive (sem : Sem) : Prop :=
  (∀ c o, sem.ocheck c o (sem.ostamp c o) = true) ∧
  (∀ c v s, sem.rstamp c v = .ok s → sem.rcheck c v s = .ok true)

/-- With reflexive checkers, the consistent set of a session satisfying the invariant is
settled ("recorded stamps are current"). -/
theorem SInv.settled {s : Sess} (hr : Reflexive sem) (h : SInv sem body fs s) :
    Settled sem fs s.store s.consistent := by
  intro n hn
  obtain ⟨t, v, _, hv, _⟩ := h.sound n hn
  refine ⟨⟨v, hv⟩, fun d hd => ?_⟩
  have hc := h.closed n hn d hd
  cases d with
  | reserved => exact hc.elim
  | require u c stp =>
    obtain ⟨m, o, h1, h2, h3, h4⟩ := hc
    refine ⟨m, o, h1, h2, h3, ?_⟩
    rcases h4 with h4 | h4
    · rw [h4]; exact hr.1 c o
    · exact h4
  | read r c stp =>
    rcases hc with hc | hc
    · exact hr.2 _ _ _ hc
    · exact hc
  | write r c stp =>
    rcases hc with hc | hc
    · exact hr.2 _ _ _ hc
    · exact hc

end PieModel
