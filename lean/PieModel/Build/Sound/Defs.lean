/-
Soundness of the top-down build for write-free programs (properties C01/C02): definitions.

* the class of programs: `Prog.WriteFree`, `Respects` (outputs depend only on what the checkers
  observe), `OneChecker` (one checker per dependency target per execution), `StampTotal`;
* the from-scratch semantics `EvalP`/`Eval` on a resource state, and its determinism;
* the store invariant `Faithful` (`Replay`: the recorded dependencies and the recorded output
  replay the task body), independent of the resource state;
* `DepNow` (a recorded dependency is accepted by its checker in the current state) and the key
  lemma `replay_eval`.
-/
import PieModel.Build.Pie
import PieModel.Build.StoreLemmas
import PieModel.Build.TraceNestingTD

namespace PieModel

/-- No `write`/`wrote` node is reachable through any continuation. -/
inductive Prog.WriteFree : Prog → Prop
  | ret (v : Int) : WriteFree (.ret v)
  | panic : WriteFree .panic
  | req (t c : Nat) (k : Int → Prog) : (∀ o, WriteFree (k o)) → WriteFree (.req t c k)
  | read (r c : Nat) (k : Except Int (Option Int) → Prog) :
      (∀ x, WriteFree (k x)) → WriteFree (.read r c k)

/-- Every task body is write-free. -/
def WriteFreeBody (body : Nat → Prog) : Prop := ∀ t, (body t).WriteFree

/- `StampTotal sem := ∀ c v, ∃ s, sem.rstamp c v = .ok s` (stamping a resource never fails; a
failing stamp records no dependency: finding K5) is defined in `Build/TraceNestingTD.lean`. -/

/-- "Outputs depend only on what the checkers observe": a continuation cannot distinguish two
answers which the dependency's checker considers consistent with each other. -/
def Respects (sem : Sem) : Prog → Prop
  | .ret _ => True
  | .panic => True
  | .req _ c k =>
    (∀ o o', sem.ocheck c o' (sem.ostamp c o) = true → k o' = k o) ∧ ∀ o, Respects sem (k o)
  | .read _ c k =>
    (∀ v v' s, sem.rstamp c v = .ok s → sem.rcheck c v' s = .ok true → k (.ok v') = k (.ok v)) ∧
      ∀ x, Respects sem (k x)
  | .write _ _ _ k => ∀ x, Respects sem (k x)
  | .wrote _ _ _ k => ∀ x, Respects sem (k x)

/-- `OneCk qt qr p`: along every execution path of `p`, a task (resource) is always accessed
with the same checker, also w.r.t. the (task, checker) pairs `qt` and (resource, checker) pairs
`qr` seen so far.  The store keeps ONE edge per target, so without this the recorded
dependencies do not determine the run (finding K2). -/
def OneCk : List (Nat × Nat) → List (Nat × Nat) → Prog → Prop
  | _, _, .ret _ => True
  | _, _, .panic => True
  | qt, qr, .req t c k => (∀ c', (t, c') ∈ qt → c' = c) ∧ ∀ o, OneCk ((t, c) :: qt) qr (k o)
  | qt, qr, .read r c k => (∀ c', (r, c') ∈ qr → c' = c) ∧ ∀ x, OneCk qt ((r, c) :: qr) (k x)
  | qt, qr, .write r c _ k => (∀ c', (r, c') ∈ qr → c' = c) ∧ ∀ x, OneCk qt ((r, c) :: qr) (k x)
  | qt, qr, .wrote r c _ k => (∀ c', (r, c') ∈ qr → c' = c) ∧ ∀ x, OneCk qt ((r, c) :: qr) (k x)

/-- One checker per dependency target per execution. -/
def OneChecker (p : Prog) : Prop := OneCk [] [] p

/-! ### the from-scratch semantics -/

/-- Big-step evaluation of a (write-free) program against the resource state `fs`, with no
store: a `req` evaluates the body of the required task. -/
inductive EvalP (sem : Sem) (body : Nat → Prog) (fs : List (Nat × Int)) : Prog → Int → Prop
  | ret {v : Int} : EvalP sem body fs (.ret v) v
  | req {t c : Nat} {k : Int → Prog} {o v : Int} :
      EvalP sem body fs (body t) o → EvalP sem body fs (k o) v → EvalP sem body fs (.req t c k) v
  | read {r c : Nat} {k : Except Int (Option Int) → Prog} {s : Stamp} {v : Int} :
      sem.rstamp c (aget fs r) = .ok s → EvalP sem body fs (k (.ok (aget fs r))) v →
      EvalP sem body fs (.read r c k) v
  | readErr {r c : Nat} {k : Except Int (Option Int) → Prog} {e v : Int} :
      sem.rstamp c (aget fs r) = .error e → EvalP sem body fs (k (.error e)) v →
      EvalP sem body fs (.read r c k) v

/-- Executing task `t` from scratch against `fs` produces `v`. -/
def Eval (sem : Sem) (body : Nat → Prog) (fs : List (Nat × Int)) (t : Nat) (v : Int) : Prop :=
  EvalP sem body fs (body t) v

variable {sem : Sem} {body : Nat → Prog} {fs : List (Nat × Int)}

theorem EvalP.det {p : Prog} {v w : Int} (h1 : EvalP sem body fs p v) (h2 : EvalP sem body fs p w) :
    v = w := by
  induction h1 generalizing w with
  | ret => cases h2; rfl
  | req _ _ ih1 ih2 =>
    cases h2 with
    | req a b => have := ih1 a; subst this; exact ih2 b
  | read hs _ ih =>
    cases h2 with
    | read _ a => exact ih a
    | readErr he _ => rw [hs] at he; cases he
  | readErr hs _ ih =>
    cases h2 with
    | read he _ => rw [hs] at he; cases he
    | readErr he a => rw [hs] at he; cases he; exact ih a

theorem Eval.det {t : Nat} {v w : Int} (h1 : Eval sem body fs t v) (h2 : Eval sem body fs t w) :
    v = w := EvalP.det h1 h2

/-! ### the store invariant -/

/-- Re-running `p` against answers that carry the recorded stamps follows only recorded
dependencies (`ds`) and returns `v`. -/
def Replay (sem : Sem) : Prog → List Dep → Int → Prop
  | .ret v', _, v => v' = v
  | .panic, _, _ => False
  | .req u c k, ds, v =>
    ∃ s, Dep.require u c s ∈ ds ∧ ∃ o, sem.ostamp c o = s ∧ Replay sem (k o) ds v
  | .read r c k, ds, v =>
    ∃ s, Dep.read r c s ∈ ds ∧ ∃ x, sem.rstamp c x = .ok s ∧ Replay sem (k (.ok x)) ds v
  | .write .., _, _ => False
  | .wrote .., _, _ => False

theorem Replay.mono {p : Prog} {ds ds' : List Dep} {v : Int} (h : Replay sem p ds v)
    (hsub : ∀ d ∈ ds, d ∈ ds') : Replay sem p ds' v := by
  induction p with
  | ret v' => exact h
  | panic => exact h
  | req u c k ih =>
    obtain ⟨s, hm, o, ho, hr⟩ := h
    exact ⟨s, hsub _ hm, o, ho, ih o hr⟩
  | read r c k ih =>
    obtain ⟨s, hm, x, hx, hr⟩ := h
    exact ⟨s, hsub _ hm, x, hx, ih _ hr⟩
  | write r c v' k _ => exact h
  | wrote r c v' k _ => exact h

/-- Every task node with an output carries a dependency list which replays its body to that
output, and no reserved dependency.  Tasks without output (never executed, or aborted) carry no
claim.  Independent of the resource state. -/
def Faithful (sem : Sem) (body : Nat → Prog) (st : Store) : Prop :=
  ∀ n t v, st.taskOf n = some t → st.taskOutput n = some v →
    Replay sem (body t) (st.depsFrom n) v ∧ Dep.reserved ∉ st.depsFrom n

theorem Faithful.empty : Faithful sem body ({} : Store) := by
  intro n t v h
  simp [Store.taskOf, Dag.getNodeData, Dag.info, aget] at h

/-- The recorded dependency is accepted by its checker in the current state (for a require
dependency: against the from-scratch output of the required task). -/
def DepNow (sem : Sem) (body : Nat → Prog) (fs : List (Nat × Int)) : Dep → Prop
  | .reserved => False
  | .require u c s => ∃ o, Eval sem body fs u o ∧ sem.ocheck c o s = true
  | .read r c s => sem.rcheck c (aget fs r) s = .ok true
  | .write r c s => sem.rcheck c (aget fs r) s = .ok true

/-- **Key lemma.** If the recorded dependencies replay `p` to `v` and every one of them is
accepted in the current state, then `p` evaluates to `v` from scratch. -/
theorem replay_eval (hst : StampTotal sem) {p : Prog} {ds : List Dep} {v : Int}
    (hres : Respects sem p) (hrep : Replay sem p ds v)
    (hd : ∀ d ∈ ds, DepNow sem body fs d) : EvalP sem body fs p v := by
  induction p with
  | ret v' => cases hrep; exact .ret
  | panic => exact hrep.elim
  | req u c k ih =>
    obtain ⟨s, hm, o, ho, hr⟩ := hrep
    obtain ⟨o', he, hc⟩ := hd _ hm
    have hk : k o' = k o := hres.1 o o' (by rw [ho]; exact hc)
    exact .req he (ih o' (hres.2 o') (by rw [hk]; exact hr))
  | read r c k ih =>
    obtain ⟨s, hm, x, hx, hr⟩ := hrep
    have hc : sem.rcheck c (aget fs r) s = .ok true := hd _ hm
    have hk : k (.ok (aget fs r)) = k (.ok x) := hres.1 x (aget fs r) s hx hc
    obtain ⟨s', hs'⟩ := hst c (aget fs r)
    exact .read hs' (ih _ (hres.2 _) (by rw [hk]; exact hr))
  | write r c v' k _ => exact hrep.elim
  | wrote r c v' k _ => exact hrep.elim

end PieModel
