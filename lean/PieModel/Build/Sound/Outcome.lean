/-
Soundness of the top-down build: the statement of the joint induction (`TdSound`), i.e. the
post-conditions of the five mutually recursive functions, and the specifications of
`reserveRequire`/`updateRequire` in the form used by the induction.
-/
import PieModel.Build.Sound.Prims

namespace PieModel

variable (sem : Sem) (body : Nat → Prog) (fs : List (Nat × Int))

/-- The node of task `t` (existing, or the one that `getOrCreateTaskNode` is going to create). -/
def nodeOf (s : Sess) (t : Nat) : Nat := (s.store.getOrCreateTaskNode t).2

/-- The executing task (if any) is a strict ancestor of `m`. -/
def CurReach (s : Sess) (m : Nat) : Prop := ∀ n, s.cur = some n → s.store.g.Reach n m

/-- What is known about a dependency of the *executing* task: it was made with a checker from
the accumulators, its target is consistent in this session and the stamp is the current one. -/
def RunDep (qt qr : List (Nat × Nat)) (s : Sess) (dst : Nat) : Dep → Prop
  | .require u c st => (u, c) ∈ qt ∧ dst ∈ s.consistent ∧
      ∃ o, s.store.taskOutput dst = some o ∧ st = sem.ostamp c o
  | .read r c st => (r, c) ∈ qr ∧ sem.rstamp c (aget fs r) = .ok st
  | .reserved => False
  | .write .. => False

/-- All outgoing edges of the executing task `n` are as described by `RunDep`. -/
def RunInv (qt qr : List (Nat × Nat)) (s : Sess) (n : Nat) : Prop :=
  ∀ dst d, (dst, d) ∈ s.store.g.outgoingEdges n → RunDep sem fs qt qr s dst d

/-- The net effect of a `require` on the edge list of the requiring task: the edge to `mu` now
carries `D`, all other edges are kept. -/
def EdgeUpd (L Lf : List (Nat × Dep)) (mu : Nat) (D : Dep) : Prop :=
  (∀ p ∈ Lf, (p ∈ L ∧ p.1 ≠ mu) ∨ p = (mu, D)) ∧ (∀ p ∈ L, p.1 ≠ mu → p ∈ Lf) ∧ (mu, D) ∈ Lf

/-- Result of a call from state `s`: the store is faithful whatever the result; if the call
returns, the session advanced by an `SStep` and `Q` holds. -/
structure Outcome {α : Type} (s : Sess) (F : Sess × Res α) (Q : Sess → α → Prop) : Prop where
  faithful : Faithful sem body F.1.store
  ok : ∀ s' v, F = (s', .ok v) → SStep sem body fs s s' ∧ Q s' v

/-- `tdMake`: the node of `t` is consistent, carries the returned output, which is the
from-scratch output; the ancestors of the node are untouched. -/
def QMake (s : Sess) (t : Nat) (s' : Sess) (v : Int) : Prop :=
  nodeOf s t ∈ s'.consistent ∧ s'.store.taskOutput (nodeOf s t) = some v ∧
    s'.store.taskOf (nodeOf s t) = some t ∧ Eval sem body fs t v ∧ Prot s s' (nodeOf s t)

/-- `tdCheck` of node `m`: `m` and its ancestors are untouched; if the verdict is "consistent
with output `o`" then `o` is the stored output and every dependency is accepted now. -/
def QCheck (s : Sess) (m : Nat) (s' : Sess) (r : Option Int) : Prop :=
  ProtR s s' m ∧ ∀ o, r = some o → s.store.taskOutput m = some o ∧
    ∀ d ∈ s.store.depsFrom m, DepNow sem body fs d ∧ DepCur sem fs s' d

def QDeps (s : Sess) (m : Nat) (ds : List Dep) (s' : Sess) (b : Bool) : Prop :=
  ProtR s s' m ∧ (b = true → ∀ d ∈ ds, DepNow sem body fs d ∧ DepCur sem fs s' d)

def QReq (s : Sess) (u c : Nat) (s' : Sess) (out : Int) : Prop :=
  nodeOf s u ∈ s'.consistent ∧ s'.store.taskOutput (nodeOf s u) = some out ∧
    s'.store.taskOf (nodeOf s u) = some u ∧ Eval sem body fs u out ∧
    ∀ n, s.cur = some n → Prot s s' n ∧
      EdgeUpd (s.store.g.outgoingEdges n) (s'.store.g.outgoingEdges n) (nodeOf s u)
        (.require u c (sem.ostamp c out))

def QRun (s : Sess) (n : Nat) (p : Prog) (s' : Sess) (v : Int) : Prop :=
  EvalP sem body fs p v ∧ Prot s s' n ∧ (∃ qt qr, RunInv sem fs qt qr s' n) ∧
    (∀ d ∈ s.store.depsFrom n, d ∈ s'.store.depsFrom n) ∧ Replay sem p (s'.store.depsFrom n) v

/-- The joint statement for fuel `f`. -/
structure TdSound (f : Nat) : Prop where
  require : ∀ s u c, SInv sem body fs s →
    Outcome sem body fs s (tdRequire sem body f s u c) (QReq sem body fs s u c)
  make : ∀ s t, SInv sem body fs s → CurReach s (nodeOf s t) →
    Outcome sem body fs s (tdMake sem body f s t) (QMake sem body fs s t)
  check : ∀ s m, SInv sem body fs s → m ∉ s.consistent → CurReach s m →
    Outcome sem body fs s (tdCheck sem body f s m) (QCheck sem body fs s m)
  checkDeps : ∀ s m ds, SInv sem body fs s → m ∉ s.consistent → CurReach s m →
    (∀ d ∈ ds, d ∈ s.store.depsFrom m) →
    Outcome sem body fs s (tdCheckDeps sem body f s ds) (QDeps sem body fs s m ds)
  run : ∀ s n p qt qr, SInv sem body fs s → s.cur = some n → p.WriteFree → OneCk qt qr p →
    RunInv sem fs qt qr s n → Outcome sem body fs s (tdRun sem body f s p) (QRun sem body fs s n p)

variable {sem body fs}

namespace Outcome
variable {α : Type} {s s₁ : Sess} {F : Sess × Res α} {Q Q₁ : Sess → α → Prop}

theorem abort {a : Abort} (h : Faithful sem body s₁.store) :
    Outcome sem body fs s (s₁, (.abort a : Res α)) Q :=
  ⟨h, fun _ _ heq => by cases heq⟩

theorem ret {v : α} (st : SStep sem body fs s s₁) (hq : Q s₁ v) :
    Outcome sem body fs s (s₁, .ok v) Q :=
  ⟨st.inv.faithful, fun _ _ heq => by cases heq; exact ⟨st, hq⟩⟩

theorem faithful_of {r : Res α} (o : Outcome sem body fs s F Q) (heq : F = (s₁, r)) :
    Faithful sem body s₁.store := by
  have := o.faithful; rw [heq] at this; exact this

theorem trans (o : Outcome sem body fs s₁ F Q₁) (st : SStep sem body fs s s₁)
    (hq : ∀ s' v, SStep sem body fs s₁ s' → Q₁ s' v → Q s' v) : Outcome sem body fs s F Q :=
  ⟨o.faithful, fun s' v heq => ⟨st.trans (o.ok s' v heq).1, hq s' v (o.ok s' v heq).1 (o.ok s' v heq).2⟩⟩

end Outcome

theorem nodeOf_eq {s : Sess} (hw : s.store.WF) {m t : Nat} (ht : s.store.taskOf m = some t) :
    nodeOf s t = m := by
  unfold nodeOf
  rw [Store.getOrCreateTaskNode_of_some ((hw.task_iff t m).mpr ht)]

theorem RunDep.mono {qt qr qt' qr' : List (Nat × Nat)} {s s' : Sess} {dst : Nat} {d : Dep}
    (h : RunDep sem fs qt qr s dst d) (st : SStep sem body fs s s')
    (ht : ∀ p ∈ qt, p ∈ qt') (hr : ∀ p ∈ qr, p ∈ qr') : RunDep sem fs qt' qr' s' dst d := by
  cases d with
  | reserved => exact h
  | require u c stp =>
    obtain ⟨h1, h2, o, h3, h4⟩ := h
    exact ⟨ht _ h1, st.mono _ h2, o, by rw [(st.cext _ h2).1]; exact h3, h4⟩
  | read r c stp => exact ⟨hr _ h.1, h.2⟩
  | write r c stp => exact h

/-! ### `reserveRequire` / `updateRequire` as steps -/

theorem reserveRequire_spec {s : Sess} (h : SInv sem body fs s) {mu : Nat}
    (hd : ∃ t, s.store.taskOf mu = some t) {s' : Sess} {res : Res Unit}
    (heq : reserveRequire s mu = (s', res)) :
    SStep sem body fs s s' ∧ s'.cur = s.cur ∧ s'.consistent = s.consistent ∧
    (∀ x, s.cur ≠ some x → Same s s' x) ∧
    (res = .ok () → ∀ n, s.cur = some n → s'.store.g.HasEdge n mu ∧
      (((∃ d0, (mu, d0) ∈ s.store.g.outgoingEdges n) ∧
          s'.store.g.outgoingEdges n = s.store.g.outgoingEdges n) ∨
       ((∀ d0, (mu, d0) ∉ s.store.g.outgoingEdges n) ∧
          s'.store.g.outgoingEdges n = s.store.g.outgoingEdges n ++ [(mu, .reserved)]))) := by
  rcases Option.eq_none_or_eq_some s.cur with hc | ⟨n, hc⟩
  · rw [reserveRequire_none hc] at heq
    obtain ⟨rfl, rfl⟩ := Prod.mk.inj heq
    exact ⟨SStep.refl h, rfl, rfl, fun _ _ => Same.refl _ _,
      fun _ n hn => by rw [hc] at hn; cases hn⟩
  · obtain ⟨h1, h2⟩ := reserveRequire_some hc mu
    rw [heq] at h1 h2
    simp only at h1 h2
    subst h1
    obtain ⟨st, hs, _⟩ := h.addDep (s' := { s with store := (s.store.addDependency n mu .reserved).1 })
      (d := .reserved) hc hd rfl rfl rfl rfl rfl
    refine ⟨st, rfl, rfl, fun x hx => hs x (fun hxn => hx (by rw [hxn]; exact hc)), ?_⟩
    intro hres n' hn'
    rw [hc] at hn'; cases hn'
    have hv := h2.mp hres
    rcases Store.addDependency_ok_cases h.wf.store n mu .reserved hv with ⟨h3, h4⟩ | ⟨h3, h4⟩
    · refine ⟨?_, .inl ⟨h3, ?_⟩⟩
      · show (s.store.addDependency n mu .reserved).1.g.HasEdge n mu
        rw [h4]; exact (Store.hasEdge_iff_mem_oe h.wf.store _ _).mpr h3
      · show (s.store.addDependency n mu .reserved).1.g.outgoingEdges n = _
        rw [h4]
    · refine ⟨?_, .inr ⟨h3, h4⟩⟩
      show (s.store.addDependency n mu .reserved).1.g.HasEdge n mu
      rw [Store.hasEdge_iff_mem_oe st.inv.wf.store]
      exact ⟨.reserved, by show _ ∈ (s.store.addDependency n mu .reserved).1.g.outgoingEdges n; rw [h4]; simp⟩

theorem updateRequire_spec {s : Sess} (h : SInv sem body fs s) {mu u : Nat}
    (hd : s.store.taskOf mu = some u) (c : Nat) (stamp : Stamp) {s' : Sess} {res : Res Unit}
    (heq : updateRequire s mu u c stamp = (s', res)) :
    SStep sem body fs s s' ∧ s'.cur = s.cur ∧ s'.consistent = s.consistent ∧
    (∀ x, s.cur ≠ some x → Same s s' x) ∧
    (∀ x, s'.store.taskOutput x = s.store.taskOutput x) ∧
    (res = .ok () → ∀ n, s.cur = some n → s'.store.g.outgoingEdges n =
      (s.store.g.outgoingEdges n).map (fun p => if p.1 = mu then (p.1, .require u c stamp) else p)) := by
  rcases Option.eq_none_or_eq_some s.cur with hc | ⟨n, hc⟩
  · rw [updateRequire_none hc] at heq
    obtain ⟨rfl, rfl⟩ := Prod.mk.inj heq
    exact ⟨SStep.refl h, rfl, rfl, fun _ _ => Same.refl _ _, fun _ => rfl,
      fun _ n hn => by rw [hc] at hn; cases hn⟩
  · rw [updateRequire_some hc] at heq
    cases hsd : s.store.setDependency n mu (.require u c stamp) with
    | none =>
      rw [hsd] at heq
      obtain ⟨rfl, rfl⟩ := Prod.mk.inj heq
      exact ⟨SStep.refl h, rfl, rfl, fun _ _ => Same.refl _ _, fun _ => rfl, fun hh => by cases hh⟩
    | some st' =>
      rw [hsd] at heq
      obtain ⟨rfl, rfl⟩ := Prod.mk.inj heq
      obtain ⟨st, hs, ho⟩ := h.setDep (s' := { s with store := st' }) (d := .require u c stamp) hc
        (by simpa using hd) hsd rfl rfl rfl rfl
      refine ⟨st, rfl, rfl, fun x hx => hs x (fun hxn => hx (by rw [hxn]; exact hc)), ho, ?_⟩
      intro _ n' hn'
      rw [hc] at hn'; cases hn'
      show st'.g.outgoingEdges n = _
      rw [Store.outgoingEdges_setDependency hsd, if_pos rfl]

end PieModel
