/-
Companion of `NoExec.lean`: enough fuel exists.  On a settled set `C`, for every member there
is a fuel bound above which making it consistent returns its stored output (rather than running
out of fuel).  Induction along the ranks of the dependency graph.
-/
import PieModel.Build.Sound.NoExec

namespace PieModel

theorem Dag.WF.topoOf_le {N E : Type} {g : Dag N E} (hw : g.WF) (n : Nat) :
    g.topoOf n ≤ g.nodes.length := by
  cases hl : g.containsNode n with
  | false => rw [Dag.topoOf_of_not_live g hl]; exact Nat.zero_le _
  | true =>
    have := (hw.ranks_perm.mem_iff).mp (Dag.topoOf_mem_ranks g hl)
    rw [List.mem_range'_1] at this
    omega

variable (sem : Sem) (fs : List (Nat × Int)) (st : Store) (body : Nat → Prog)

/-- Above some fuel, `tdMake` of task `t` returns `o` on every session over the store `st`. -/
def MakeFuel (t : Nat) (o : Int) : Prop :=
  ∃ N, ∀ f, N ≤ f → ∀ s : Sess, s.store = st → s.fs = fs → ∀ s' r,
    tdMake sem body f s t = (s', r) → r = .ok o

def DepsFuel (ds : List Dep) : Prop :=
  ∃ N, ∀ f, N ≤ f → ∀ s : Sess, s.store = st → s.fs = fs → ∀ s' r,
    tdCheckDeps sem body f s ds = (s', r) → r = .ok true

variable {sem fs st body} {C : List Nat}

theorem depsFuel (hw : st.WF) (hS : Settled sem fs st C) (ds : List Dep)
    (hds : ∀ d ∈ ds, SettledDep sem fs st C d)
    (hreq : ∀ u c stp, Dep.require u c stp ∈ ds → ∀ mu o, st.taskOf mu = some u → mu ∈ C →
      st.taskOutput mu = some o → MakeFuel sem fs st body u o) :
    DepsFuel sem fs st body ds := by
  induction ds with
  | nil =>
    refine ⟨1, fun f hf s _ _ s' r heq => ?_⟩
    obtain ⟨f, rfl⟩ : ∃ f', f = f' + 1 := ⟨f - 1, by omega⟩
    unfold tdCheckDeps at heq; cases heq; rfl
  | cons d ds ih =>
    obtain ⟨N2, h2⟩ := ih (fun d' hd' => hds d' (List.mem_cons_of_mem _ hd'))
      (fun u c stp hm => hreq u c stp (List.mem_cons_of_mem _ hm))
    have hd := hds d (List.mem_cons_self ..)
    cases d with
    | reserved => exact hd.elim
    | require u c stp =>
      obtain ⟨mu, o', htask, hC, hout, hck⟩ := hd
      obtain ⟨N1, h1⟩ := hreq u c stp (List.mem_cons_self ..) mu o' htask hC hout
      refine ⟨max N1 N2 + 1, fun f hf s hs hfs s' r heq => ?_⟩
      obtain ⟨f, rfl⟩ : ∃ f', f = f' + 1 := ⟨f - 1, by omega⟩
      unfold tdCheckDeps at heq
      simp only [] at heq
      split at heq
      · rename_i s1 a heq1
        have := h1 f (by omega) (s.emit (.checkTaskStart u c stp)) hs hfs _ _ heq1
        cases this
      · rename_i s1 out heq1
        have := h1 f (by omega) (s.emit (.checkTaskStart u c stp)) hs hfs _ _ heq1
        cases this
        obtain ⟨hq, _⟩ := (noExec (body := body) hw hS f).make (s.emit (.checkTaskStart u c stp))
          u mu o' hs hfs htask hC hout _ _ heq1
        rw [hck] at heq
        simp only [if_true] at heq
        exact h2 f (by omega) (s1.emit (.checkTaskEnd u c stp true)) (hq.store.trans hs)
          (hq.fs.trans hfs) _ _ heq
    | read r c stp =>
      refine ⟨N2 + 1, fun f hf s hs hfs s' r' heq => ?_⟩
      obtain ⟨f, rfl⟩ : ∃ f', f = f' + 1 := ⟨f - 1, by omega⟩
      rw [tdCheckDeps_read] at heq
      have hc : sem.rcheck c (s.content r) stp = .ok true := by
        have : s.content r = aget fs r := by rw [← hfs]; rfl
        rw [this]; exact hd
      rw [hc] at heq
      simp only at heq
      exact h2 f (by omega) (resCheckEvents s r c stp (.ok true)) hs hfs _ _ heq
    | write r c stp =>
      refine ⟨N2 + 1, fun f hf s hs hfs s' r' heq => ?_⟩
      obtain ⟨f, rfl⟩ : ∃ f', f = f' + 1 := ⟨f - 1, by omega⟩
      rw [tdCheckDeps_write] at heq
      have hc : sem.rcheck c (s.content r) stp = .ok true := by
        have : s.content r = aget fs r := by rw [← hfs]; rfl
        rw [this]; exact hd
      rw [hc] at heq
      simp only at heq
      exact h2 f (by omega) (resCheckEvents s r c stp (.ok true)) hs hfs _ _ heq

theorem makeFuel_of_deps (hw : st.WF) (hS : Settled sem fs st C) {t m : Nat} {o : Int}
    (ht : st.taskOf m = some t) (hm : m ∈ C) (ho : st.taskOutput m = some o)
    (hd : DepsFuel sem fs st body (st.depsFrom m)) :
    MakeFuel sem fs st body t o := by
  obtain ⟨N, hN⟩ := hd
  refine ⟨N + 2, fun f hf s hs hfs s' r heq => ?_⟩
  obtain ⟨f, rfl⟩ : ∃ f', f = f' + 2 := ⟨f - 2, by omega⟩
  subst hs
  have hg : s.store.getOrCreateTaskNode t = (s.store, m) :=
    Store.getOrCreateTaskNode_of_some ((hw.task_iff t m).mpr ht)
  unfold tdMake at heq
  simp only [hg] at heq
  split at heq
  · rw [ho] at heq; cases heq; rfl
  · unfold tdCheck at heq
    rw [ho] at heq
    simp only at heq
    cases hcd : tdCheckDeps sem body f s (s.store.depsFrom m) with
    | mk s1 r1 =>
      have h1 := hN f (by omega) s rfl hfs _ _ hcd
      subst h1
      obtain ⟨hq, _⟩ := (noExec (body := body) hw hS f).checkDeps s _ rfl hfs (hS m hm).2 _ _ hcd
      rw [hcd] at heq
      simp only at heq
      rw [hq.store, ho] at heq
      simp only at heq
      cases heq
      rfl

/-- On a settled set every member can be validated with enough fuel. -/
theorem makeFuel (hw : st.WF) (hS : Settled sem fs st C) :
    ∀ k m, m ∈ C → st.g.nodes.length - st.g.topoOf m < k → ∀ t o, st.taskOf m = some t →
      st.taskOutput m = some o → MakeFuel sem fs st body t o := by
  intro k
  induction k with
  | zero => intro m _ hk; omega
  | succ k ih =>
    intro m hm hk t o ht ho
    refine makeFuel_of_deps hw hS ht hm ho (depsFuel hw hS _ (hS m hm).2 ?_)
    intro u c stp hmem mu o' htask hC hout
    obtain ⟨dst, hdst⟩ := (Store.mem_depsFrom_iff _ _ _).mp hmem
    have hdt : st.taskOf dst = some u := (hw.mem_outgoingEdges_ok hdst).2
    have hedge : st.g.HasEdge m dst := (Store.hasEdge_iff_mem_oe hw _ _).mpr ⟨_, hdst⟩
    have hmu : dst = mu := by
      have h1 := (hw.task_iff u dst).mpr hdt
      have h2 := (hw.task_iff u mu).mpr htask
      rw [h1] at h2; exact Option.some.inj h2
    subst hmu
    have hlt := hw.inv.upward _ _ hedge
    have hle := hw.gwf.topoOf_le dst
    exact ih dst hC (by omega) u o' htask hout

/-- ... hence a `Session::require` of a settled task returns its output for all large fuels. -/
theorem sessionRequire_fuel (hw : st.WF) (hS : Settled sem fs st C) (t m : Nat) (o : Int)
    (ht : st.taskOf m = some t) (hm : m ∈ C) (ho : st.taskOutput m = some o) :
    ∃ N, ∀ f, N ≤ f → ∀ s : Sess, s.store = st → s.fs = fs → ∀ s' r,
      sessionRequire sem body f s t = (s', r) → r = .ok o := by
  obtain ⟨N, hN⟩ := makeFuel (body := body) hw hS _ m hm (Nat.lt_succ_self _) t o ht ho
  refine ⟨N + 1, fun f hf s hs hfs s' r heq => ?_⟩
  obtain ⟨f, rfl⟩ : ∃ f', f = f' + 1 := ⟨f - 1, by omega⟩
  subst hs
  have hg : s.store.getOrCreateTaskNode t = (s.store, m) :=
    Store.getOrCreateTaskNode_of_some ((hw.task_iff t m).mpr ht)
  unfold sessionRequire at heq
  simp only [] at heq
  unfold tdRequire at heq
  simp only [Sess.store_emit, hg] at heq
  have hc0 : ((({ s with cur := none } : Sess).emit .buildStart).emit
      (.requireStart t alwaysChecker)).cur = none := rfl
  cases hrr : reserveRequire { (({ s with cur := none } : Sess).emit .buildStart).emit
      (.requireStart t alwaysChecker) with store := s.store } m with
  | mk s_c rc =>
    obtain ⟨rfl, rfl⟩ := reserveRequire_none' hrr hc0
    rw [hrr] at heq
    simp only [] at heq
    cases hmk : tdMake sem body f { (({ s with cur := none } : Sess).emit .buildStart).emit
        (.requireStart t alwaysChecker) with store := s.store } t with
    | mk s_d rd =>
      have hrd := hN f (by omega) { (({ s with cur := none } : Sess).emit .buildStart).emit
        (.requireStart t alwaysChecker) with store := s.store } rfl hfs _ _ hmk
      subst hrd
      have hcd : s_d.cur = none := (cur_tdMake sem body hmk).trans hc0
      rw [hmk] at heq
      simp only [] at heq
      cases hur : updateRequire (s_d.emit (.requireEnd t alwaysChecker
          (sem.ostamp alwaysChecker o) o)) m t alwaysChecker (sem.ostamp alwaysChecker o) with
      | mk s_f rf =>
        obtain ⟨rfl, rfl⟩ := updateRequire_none' hur hcd
        rw [hur] at heq
        simp only [] at heq
        cases heq
        rfl

end PieModel
