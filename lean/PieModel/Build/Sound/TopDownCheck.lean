/-
Soundness of the top-down build: the fuel-zero case and the successor steps of
`tdCheckDeps` and `tdCheck`.
-/
import PieModel.Build.Sound.Outcome

namespace PieModel

variable {sem : Sem} {body : Nat → Prog} {fs : List (Nat × Int)}

theorem tdSound_zero : TdSound sem body fs 0 := by
  refine ⟨?_, ?_, ?_, ?_, ?_⟩
  · intro s u c h; unfold tdRequire; exact .abort h.faithful
  · intro s t h _; unfold tdMake; exact .abort h.faithful
  · intro s m h _ _; unfold tdCheck; exact .abort h.faithful
  · intro s m ds h _ _ _; unfold tdCheckDeps; exact .abort h.faithful
  · intro s n p qt qr h _ _ _ _; unfold tdRun; exact .abort h.faithful

theorem sound_checkDeps_succ {f : Nat} (ih : TdSound sem body fs f) (s : Sess) (m : Nat)
    (ds : List Dep) (h : SInv sem body fs s) (hm : m ∉ s.consistent) (hcr : CurReach s m)
    (hds : ∀ d ∈ ds, d ∈ s.store.depsFrom m) :
    Outcome sem body fs s (tdCheckDeps sem body (f + 1) s ds) (QDeps sem body fs s m ds) := by
  cases ds with
  | nil =>
    unfold tdCheckDeps
    exact .ret (SStep.refl h) ⟨ProtR.refl _ _, fun _ d hd => by cases hd⟩
  | cons d ds =>
    have hds' : ∀ d' ∈ ds, d' ∈ s.store.depsFrom m := fun d' hd' => hds d' (List.mem_cons_of_mem _ hd')
    cases d with
    | reserved => unfold tdCheckDeps; exact .abort h.faithful
    | require u c stamp =>
      unfold tdCheckDeps; simp only []
      have e0 := h.emit (.checkTaskStart u c stamp)
      obtain ⟨dst, hdst⟩ := (Store.mem_depsFrom_iff _ _ _).mp (hds _ (List.mem_cons_self ..))
      have htask : s.store.taskOf dst = some u := (h.wf.store.mem_outgoingEdges_ok hdst).2
      have hnode : nodeOf (s.emit (.checkTaskStart u c stamp)) u = dst := nodeOf_eq h.wf.store htask
      have hedge : s.store.g.HasEdge m dst := (Store.hasEdge_iff_mem_oe h.wf.store _ _).mpr ⟨_, hdst⟩
      have IH := ih.make (s.emit (.checkTaskStart u c stamp)) u e0.inv
        (by rw [hnode]; exact fun n hn => (hcr n hn).tail hedge)
      split
      next s2 a heq => exact .abort (IH.faithful_of heq)
      next s2 out heq =>
        obtain ⟨st2, hcons2, hout2, htask2, heval, hprot⟩ := IH.ok s2 out heq
        rw [hnode] at hcons2 hout2 htask2 hprot
        have hcur2 : s2.cur = s.cur := cur_tdMake (s := s.emit (.checkTaskStart u c stamp)) sem body heq
        have hpr : ProtR s s2 m := Prot.toR (s := s) hprot (.edge hedge)
        have hm2 : m ∉ s2.consistent := fun hc => hm ((hpr m (.inl rfl)).2 hc)
        have hsame : Same s s2 m := (hpr m (.inl rfl)).1
        have st02 : SStep sem body fs s
            (s2.emit (.checkTaskEnd u c stamp (sem.ocheck c out stamp))) := (e0.trans st2).emit _
        split
        next hck =>
          have hcr2 : CurReach (s2.emit (.checkTaskEnd u c stamp (sem.ocheck c out stamp))) m :=
            fun n hn => hpr.prot.reach h.wf.store st2.inv.wf.store
              (hcr n (by rw [← hcur2]; exact hn))
          have IH2 := ih.checkDeps (s2.emit (.checkTaskEnd u c stamp (sem.ocheck c out stamp))) m ds
            st02.inv hm2 hcr2 (fun d' hd' => by
              show d' ∈ s2.store.depsFrom m
              rw [hsame.deps]; exact hds' d' hd')
          refine IH2.trans st02 ?_
          rintro s' b st' ⟨hp', hall⟩
          refine ⟨ProtR.trans (s' := s2) hpr hp' h.wf.store st2.inv.wf.store, fun hb d' hd' => ?_⟩
          rcases List.mem_cons.mp hd' with rfl | hd'
          · exact ⟨⟨out, heval, hck⟩, ⟨dst, out, st'.le.task _ _ htask2, st'.mono _ hcons2,
              by rw [(st'.cext _ hcons2).1]; exact hout2, .inr hck⟩⟩
          · exact hall hb d' hd'
        next hck =>
          exact .ret st02 ⟨hpr, fun hb => by cases hb⟩
    | read r c stamp =>
      rw [tdCheckDeps_read]
      have hcont : s.content r = aget fs r := by rw [← h.fsEq]; rfl
      split
      next hck =>
        have st1 : SStep sem body fs s (resCheckEvents s r c stamp (.ok true)) :=
          h.same rfl rfl rfl rfl rfl
        have IH2 := ih.checkDeps (resCheckEvents s r c stamp (.ok true)) m ds st1.inv hm hcr hds'
        refine IH2.trans st1 ?_
        rintro s' b st' ⟨hp', hall⟩
        refine ⟨hp', fun hb d' hd' => ?_⟩
        rcases List.mem_cons.mp hd' with rfl | hd'
        · rw [hcont] at hck
          exact ⟨hck, .inr hck⟩
        · exact hall hb d' hd'
      next hck =>
        exact .ret (h.same rfl rfl rfl rfl rfl) ⟨Prot.same rfl rfl m, fun hb => by cases hb⟩
      next e hck =>
        exact .ret (h.same rfl rfl rfl rfl rfl) ⟨Prot.same rfl rfl m, fun hb => by cases hb⟩
    | write r c stamp =>
      rw [tdCheckDeps_write]
      have hcont : s.content r = aget fs r := by rw [← h.fsEq]; rfl
      split
      next hck =>
        have st1 : SStep sem body fs s (resCheckEvents s r c stamp (.ok true)) :=
          h.same rfl rfl rfl rfl rfl
        have IH2 := ih.checkDeps (resCheckEvents s r c stamp (.ok true)) m ds st1.inv hm hcr hds'
        refine IH2.trans st1 ?_
        rintro s' b st' ⟨hp', hall⟩
        refine ⟨hp', fun hb d' hd' => ?_⟩
        rcases List.mem_cons.mp hd' with rfl | hd'
        · rw [hcont] at hck
          exact ⟨hck, .inr hck⟩
        · exact hall hb d' hd'
      next hck =>
        exact .ret (h.same rfl rfl rfl rfl rfl) ⟨Prot.same rfl rfl m, fun hb => by cases hb⟩
      next e hck =>
        exact .ret (h.same rfl rfl rfl rfl rfl) ⟨Prot.same rfl rfl m, fun hb => by cases hb⟩

theorem sound_check_succ {f : Nat} (ih : TdSound sem body fs f) (s : Sess) (m : Nat)
    (h : SInv sem body fs s) (hm : m ∉ s.consistent) (hcr : CurReach s m) :
    Outcome sem body fs s (tdCheck sem body (f + 1) s m) (QCheck sem body fs s m) := by
  unfold tdCheck
  split
  next hnone => exact .ret (SStep.refl h) ⟨ProtR.refl _ _, fun o ho => by cases ho⟩
  next o0 ho0 =>
    have IH := ih.checkDeps s m (s.store.depsFrom m) h hm hcr (fun d hd => hd)
    split
    next s1 a heq => exact .abort (IH.faithful_of heq)
    next s1 heq =>
      obtain ⟨st1, hp, _⟩ := IH.ok _ _ heq
      exact .ret st1 ⟨hp, fun o ho => by cases ho⟩
    next s1 heq =>
      obtain ⟨st1, hp, hall⟩ := IH.ok _ _ heq
      refine .ret st1 ⟨hp, fun o ho => ?_⟩
      rw [(hp m (.inl rfl)).1.1] at ho
      exact ⟨ho, hall rfl⟩

end PieModel
