/-
Soundness of the top-down build: the session primitives (`getOrCreate…`, `reserveRequire`,
`updateRequire`, `doRead`, start/end of an execution) as `SStep`s, with their exact effect on
the outgoing edges of the executing task.
-/
import PieModel.Build.Sound.Inv

namespace PieModel

variable {sem : Sem} {body : Nat → Prog} {fs : List (Nat × Int)}

/-! ### store level -/

namespace Store
variable {st : Store}

theorem hasEdge_iff_mem_oe (hw : st.WF) (a b : Nat) :
    st.g.HasEdge a b ↔ ∃ d, (b, d) ∈ st.g.outgoingEdges a := by
  rw [hw.gwf.hasEdge_iff_getEdgeData]
  simp only [Dag.mem_outgoingEdges hw.gwf]

theorem mem_depsFrom_iff (st : Store) (a : Nat) (d : Dep) :
    d ∈ st.depsFrom a ↔ ∃ b, (b, d) ∈ st.g.outgoingEdges a := by
  simp [depsFrom, Dag.outgoingEdgeData]

/-- An accepted `addDependency`: the edge existed (nothing changes) or is appended. -/
theorem addDependency_ok_cases (hw : st.WF) (src dst : Nat) (d : Dep)
    (hr : (st.addDependency src dst d).2 = .ok) :
    ((∃ d0, (dst, d0) ∈ st.g.outgoingEdges src) ∧ (st.addDependency src dst d).1 = st) ∨
    ((∀ d0, (dst, d0) ∉ st.g.outgoingEdges src) ∧
      (st.addDependency src dst d).1.g.outgoingEdges src = st.g.outgoingEdges src ++ [(dst, d)]) := by
  by_cases he : st.g.HasEdge src dst
  · exact .inl ⟨(hasEdge_iff_mem_oe hw _ _).mp he, by rw [addDependency_of_edge hw src dst d he]⟩
  · refine .inr ⟨fun d0 hm => he ((hasEdge_iff_mem_oe hw _ _).mpr ⟨d0, hm⟩), ?_⟩
    rw [outgoingEdges_addDependency_new hw hr he]; simp

end Store

/-! ### node creation -/

theorem SInv.getTask {s s' : Sess} (h : SInv sem body fs s) (t : Nat)
    (hst : s'.store = (s.store.getOrCreateTaskNode t).1) (hfs : s'.fs = s.fs)
    (hcur : s'.cur = s.cur) (hcons : s'.consistent = s.consistent) (hq : s'.queue = s.queue) :
    SStep sem body fs s s' ∧ ∀ x, Same s s' x := by
  have hs : ∀ x, Same s s' x := fun x =>
    ⟨by rw [hst, Store.taskOutput_getOrCreateTaskNode h.wf.store],
     by rw [hst, Store.outgoingEdges_getOrCreateTaskNode h.wf.store]⟩
  refine ⟨h.storeStep hfs hcur hcons hq (hst ▸ h.wf.store.getOrCreateTaskNode t)
    (hst ▸ Store.le_getOrCreateTaskNode h.wf.store t) (fun x => .inl (hs x)) ?_, hs⟩
  intro n hn
  rw [(hs n).1]; exact h.curFree n hn

theorem SInv.getRes {s s' : Sess} (h : SInv sem body fs s) (r : Nat)
    (hst : s'.store = (s.store.getOrCreateResNode r).1) (hfs : s'.fs = s.fs)
    (hcur : s'.cur = s.cur) (hcons : s'.consistent = s.consistent) (hq : s'.queue = s.queue) :
    SStep sem body fs s s' ∧ ∀ x, Same s s' x := by
  have hs : ∀ x, Same s s' x := fun x =>
    ⟨by rw [hst, Store.taskOutput_getOrCreateResNode h.wf.store],
     by rw [hst, Store.outgoingEdges_getOrCreateResNode h.wf.store]⟩
  refine ⟨h.storeStep hfs hcur hcons hq (hst ▸ h.wf.store.getOrCreateResNode r)
    (hst ▸ Store.le_getOrCreateResNode h.wf.store r) (fun x => .inl (hs x)) ?_, hs⟩
  intro n hn
  rw [(hs n).1]; exact h.curFree n hn

/-! ### edges of the executing task -/

theorem SInv.addDep {s s' : Sess} (h : SInv sem body fs s) {n dst : Nat} {d : Dep}
    (hc : s.cur = some n) (hd : s.store.DepOK d dst)
    (hst : s'.store = (s.store.addDependency n dst d).1) (hfs : s'.fs = s.fs)
    (hcur : s'.cur = s.cur) (hcons : s'.consistent = s.consistent) (hq : s'.queue = s.queue) :
    SStep sem body fs s s' ∧ (∀ x, x ≠ n → Same s s' x) ∧
      ∀ x, s'.store.taskOutput x = s.store.taskOutput x := by
  have ho : ∀ x, s'.store.taskOutput x = s.store.taskOutput x := fun x => by
    rw [hst, Store.taskOutput_addDependency h.wf.store]
  have hs : ∀ x, x ≠ n → Same s s' x := fun x hx =>
    ⟨ho x, by rw [hst, Store.outgoingEdges_addDependency_of_ne h.wf.store _ _ _ hx]⟩
  refine ⟨h.storeStep hfs hcur hcons hq (hst ▸ h.wf.store.addDependency (h.wf.cur n hc) hd)
    (hst ▸ Store.le_addDependency h.wf.store _ _ _) ?_ ?_, hs, ho⟩
  · intro x
    by_cases hx : x = n
    · subst hx
      exact .inr ⟨h.cur_not_consistent hc, .of_none (by rw [ho]; exact h.curFree x hc)⟩
    · exact .inl (hs x hx)
  · intro n' hn'; rw [ho]; exact h.curFree n' hn'

theorem SInv.setDep {s s' : Sess} (h : SInv sem body fs s) {n dst : Nat} {d : Dep}
    (hc : s.cur = some n) (hd : s.store.DepOK d dst)
    (hst : s.store.setDependency n dst d = some s'.store) (hfs : s'.fs = s.fs)
    (hcur : s'.cur = s.cur) (hcons : s'.consistent = s.consistent) (hq : s'.queue = s.queue) :
    SStep sem body fs s s' ∧ (∀ x, x ≠ n → Same s s' x) ∧
      ∀ x, s'.store.taskOutput x = s.store.taskOutput x := by
  have ho : ∀ x, s'.store.taskOutput x = s.store.taskOutput x := fun x =>
    Store.taskOutput_setDependency hst x
  have hs : ∀ x, x ≠ n → Same s s' x := fun x hx =>
    ⟨ho x, Store.outgoingEdges_setDependency_of_ne hst hx⟩
  refine ⟨h.storeStep hfs hcur hcons hq (Store.WF.setDependency hst h.wf.store hd)
    (Store.le_setDependency hst) ?_ ?_, hs, ho⟩
  · intro x
    by_cases hx : x = n
    · subst hx
      exact .inr ⟨h.cur_not_consistent hc, .of_none (by rw [ho]; exact h.curFree x hc)⟩
    · exact .inl (hs x hx)
  · intro n' hn'; rw [ho]; exact h.curFree n' hn'

/-! ### `reserveRequire` / `updateRequire` -/

theorem reserveRequire_none {s : Sess} (hc : s.cur = none) (mu : Nat) :
    reserveRequire s mu = (s, .ok ()) := by simp [reserveRequire, hc]

theorem reserveRequire_some {s : Sess} {n : Nat} (hc : s.cur = some n) (mu : Nat) :
    (reserveRequire s mu).1 = { s with store := (s.store.addDependency n mu .reserved).1 } ∧
    ((reserveRequire s mu).2 = .ok () ↔ (s.store.addDependency n mu .reserved).2 = .ok) := by
  obtain ⟨store, fs', cur, cons, errs, tr, q⟩ := s
  simp only at hc; subst hc
  unfold reserveRequire
  simp only
  cases hv : store.addDependency n mu .reserved with
  | mk st v =>
    have h1 : (store.addDependency n mu .reserved).1 = st := by rw [hv]
    have h2 : (store.addDependency n mu .reserved).2 = v := by rw [hv]
    cases v with
    | ok => simp
    | cycle =>
      have := Store.addDependency_fst_of_ne_ok (st := store) n mu .reserved (by rw [h2]; simp)
      rw [h1] at this; subst this
      simp
    | bug =>
      have := Store.addDependency_fst_of_ne_ok (st := store) n mu .reserved (by rw [h2]; simp)
      rw [h1] at this; subst this
      simp

theorem updateRequire_none {s : Sess} (hc : s.cur = none) (mu t c : Nat) (stamp : Stamp) :
    updateRequire s mu t c stamp = (s, .ok ()) := by simp [updateRequire, hc]

theorem updateRequire_some {s : Sess} {n : Nat} (hc : s.cur = some n) (mu t c : Nat) (stamp : Stamp) :
    updateRequire s mu t c stamp =
      match s.store.setDependency n mu (.require t c stamp) with
      | some st => ({ s with store := st }, .ok ())
      | none => (s, .abort (.bug 5)) := by
  obtain ⟨store, fs', cur, cons, errs, tr, q⟩ := s
  simp only at hc; subst hc
  unfold updateRequire; rfl

/-- The net effect of reserve + update on the edge list `L` of the requiring task. -/
theorem edgeUpd_of {L Lc Lf : List (Nat × Dep)} {mu : Nat} {D : Dep}
    (hc : ((∃ d0, (mu, d0) ∈ L) ∧ Lc = L) ∨
      ((∀ d0, (mu, d0) ∉ L) ∧ Lc = L ++ [(mu, .reserved)]))
    (hf : Lf = Lc.map (fun p => if p.1 = mu then (p.1, D) else p)) :
    (∀ p ∈ Lf, (p ∈ L ∧ p.1 ≠ mu) ∨ p = (mu, D)) ∧ (∀ p ∈ L, p.1 ≠ mu → p ∈ Lf) ∧
      (mu, D) ∈ Lf := by
  subst hf
  rcases hc with ⟨⟨d0, hd0⟩, rfl⟩ | ⟨hno, rfl⟩
  · refine ⟨?_, ?_, ?_⟩
    · intro p hp
      obtain ⟨q, hq, rfl⟩ := List.mem_map.mp hp
      by_cases hq1 : q.1 = mu
      · right; simp [hq1]
      · left; simp [hq1, hq]
    · intro p hp hne
      exact List.mem_map.mpr ⟨p, hp, by simp [hne]⟩
    · exact List.mem_map.mpr ⟨(mu, d0), hd0, by simp⟩
  · refine ⟨?_, ?_, ?_⟩
    · intro p hp
      obtain ⟨q, hq, rfl⟩ := List.mem_map.mp hp
      by_cases hq1 : q.1 = mu
      · right; simp [hq1]
      · left
        simp only [hq1, if_false]
        rcases List.mem_append.mp hq with hq | hq
        · exact ⟨hq, hq1⟩
        · simp at hq; subst hq; exact absurd rfl hq1
    · intro p hp hne
      exact List.mem_map.mpr ⟨p, List.mem_append.mpr (.inl hp), by simp [hne]⟩
    · exact List.mem_map.mpr ⟨(mu, .reserved), by simp, by simp⟩

/-! ### `doRead` -/

/-- `doRead` inside a task, for a total stamper: a session step that touches only the reading
task's edges; on `.ok` it returns the content and the read dependency is recorded (first
insertion wins). -/
theorem doRead_spec (hst : StampTotal sem) {s : Sess} (h : SInv sem body fs s) {n : Nat}
    (hc : s.cur = some n) (r c : Nat) {s' : Sess} {res : Res (Except Int (Option Int))}
    (hF : doRead sem s r c = (s', res)) :
    SStep sem body fs s s' ∧ s'.cur = s.cur ∧ s'.consistent = s.consistent ∧
    (∀ x, x ≠ n → Same s s' x) ∧
    ∀ a, res = .ok a → a = .ok (aget fs r) ∧ ∃ dst stamp, sem.rstamp c (aget fs r) = .ok stamp ∧
      s'.store.resOf dst = some r ∧
      (((∃ d0, (dst, d0) ∈ s.store.g.outgoingEdges n) ∧
          s'.store.g.outgoingEdges n = s.store.g.outgoingEdges n) ∨
       ((∀ d0, (dst, d0) ∉ s.store.g.outgoingEdges n) ∧
          s'.store.g.outgoingEdges n = s.store.g.outgoingEdges n ++ [(dst, .read r c stamp)])) := by
  have hn : s.store.getOrCreateResNode r =
    ((s.store.getOrCreateResNode r).1, (s.store.getOrCreateResNode r).2) := rfl
  generalize hst' : (s.store.getOrCreateResNode r).1 = st at hn
  generalize hdst : (s.store.getOrCreateResNode r).2 = dst at hn
  rw [doRead_eq sem s r c n st dst hc hn] at hF
  have hcont : s.content r = aget fs r := by rw [← h.fsEq]; rfl
  obtain ⟨hb, hbs⟩ := h.getRes (s' := { s with store := st }) r hst'.symm rfl rfl rfl rfl
  have hres : st.resOf dst = some r := by
    rw [← hst', ← hdst]; exact Store.resOf_getOrCreateResNode_self h.wf.store r
  by_cases hh : readHidden st n dst = true
  · rw [if_pos hh] at hF
    obtain ⟨rfl, rfl⟩ := Prod.mk.inj hF
    obtain ⟨hb', hbs'⟩ := h.getRes
      (s' := { s with store := st, trace := s.trace ++ [.readStart r c] }) r hst'.symm rfl rfl rfl rfl
    exact ⟨hb', rfl, rfl, fun x _ => hbs' x, fun a ha => by cases ha⟩
  · rw [if_neg hh] at hF
    obtain ⟨stamp, hs⟩ := hst c (s.content r)
    rw [hs] at hF
    simp only at hF
    obtain ⟨t, ht⟩ := hb.inv.wf.cur n hc
    have hv := Store.addDependency_to_res_ok hb.inv.wf.store n dst (.read r c stamp) ht hres
    cases hvv : st.addDependency n dst (.read r c stamp) with
    | mk st' v =>
      rw [hvv] at hF hv
      simp only at hv; subst hv
      simp only at hF
      obtain ⟨rfl, rfl⟩ := Prod.mk.inj hF
      have hst'' : st' = (st.addDependency n dst (.read r c stamp)).1 := by rw [hvv]
      obtain ⟨ha, has, hao⟩ := hb.inv.addDep (s := { s with store := st })
        (s' := { s with store := st',
                        trace := s.trace ++ [.readStart r c, .readEnd r c stamp] })
        (n := n) (dst := dst) (d := .read r c stamp) hc (by simpa using hres) hst'' rfl rfl rfl rfl
      refine ⟨hb.trans ha, rfl, rfl, fun x hx => (hbs x).trans (has x hx), ?_⟩
      intro a ha'
      cases ha'
      refine ⟨by rw [hcont], dst, stamp, by rw [← hcont]; exact hs, ?_, ?_⟩
      · show st'.resOf dst = some r
        rw [hst'', Store.resOf_addDependency hb.inv.wf.store]; exact hres
      · have hoe : st.g.outgoingEdges n = s.store.g.outgoingEdges n := (hbs n).2
        have hvok : (st.addDependency n dst (.read r c stamp)).2 = .ok := by rw [hvv]
        rcases Store.addDependency_ok_cases hb.inv.wf.store n dst (.read r c stamp) hvok with
          ⟨h1, h2⟩ | ⟨h1, h2⟩
        · left
          rw [← hoe]
          refine ⟨h1, ?_⟩
          show st'.g.outgoingEdges n = _
          rw [hst'', h2]
        · right
          rw [← hoe]
          refine ⟨h1, ?_⟩
          show st'.g.outgoingEdges n = _
          rw [hst'', h2]

/-! ### start and end of an execution -/

theorem SInv.startExec {s s' : Sess} (h : SInv sem body fs s) {m t : Nat}
    (ht : s.store.taskOf m = some t) (hm : m ∉ s.consistent)
    (hst : s'.store = s.store.resetTask m) (hcur : s'.cur = some m) (hfs : s'.fs = s.fs)
    (hcons : s'.consistent = s.consistent) (hq : s'.queue = s.queue) :
    SStep sem body fs s s' ∧ (∀ x, x ≠ m → Same s s' x) ∧ s'.store.g.outgoingEdges m = [] := by
  have hw := h.wf.store
  have hwf : SessWF s' := by
    refine ⟨hst ▸ hw.resetTask m, ?_, ?_⟩
    · intro n hn
      rw [hcur] at hn; cases hn
      exact ⟨t, by rw [hst, Store.taskOf_resetTask hw]; exact ht⟩
    · intro n hn
      rw [hq] at hn
      obtain ⟨t', ht'⟩ := h.wf.queue n hn
      exact ⟨t', by rw [hst, Store.taskOf_resetTask hw]; exact ht'⟩
  have ho : s'.store.taskOutput m = none := by rw [hst, Store.taskOutput_resetTask hw]; simp
  have hs : ∀ x, x ≠ m → Same s s' x := fun x hx =>
    ⟨by rw [hst, Store.taskOutput_resetTask hw, if_neg hx],
     by rw [hst, Store.outgoingEdges_resetTask hw, if_neg hx]⟩
  refine ⟨h.step hwf hfs (hst ▸ Store.le_resetTask hw m) hcons ?_ ?_, hs, ?_⟩
  · intro x
    by_cases hx : x = m
    · subst hx; exact .inr ⟨hm, .of_none ho⟩
    · exact .inl (hs x hx)
  · intro n hn
    rw [hcur] at hn; cases hn; exact ho
  · rw [hst, Store.outgoingEdges_resetTask hw]; simp

theorem SInv.endExec {s s' : Sess} (h : SInv sem body fs s) {m t : Nat} {o : Int}
    (ht : s.store.taskOf m = some t) (hm : m ∉ s.consistent)
    (hrep : Replay sem (body t) (s.store.depsFrom m) o) (hres : Dep.reserved ∉ s.store.depsFrom m)
    (hst : s'.store = s.store.setTaskOutput m o) (hfs : s'.fs = s.fs)
    (hcons : s'.consistent = s.consistent) (hwf : SessWF s')
    (hcf : ∀ n, s'.cur = some n → n ≠ m ∧ s.store.taskOutput n = none) :
    SStep sem body fs s s' ∧ (∀ x, x ≠ m → Same s s' x) ∧ s'.store.taskOutput m = some o ∧
      s'.store.g.outgoingEdges m = s.store.g.outgoingEdges m := by
  have hs : ∀ x, x ≠ m → Same s s' x := fun x hx =>
    ⟨by rw [hst, Store.taskOutput_setTaskOutput_of_ne hx], by rw [hst]; simp⟩
  refine ⟨h.step hwf hfs (hst ▸ Store.le_setTaskOutput _ m o) hcons ?_ ?_, hs,
    by rw [hst]; exact Store.taskOutput_setTaskOutput_self ht o, by rw [hst]; simp⟩
  · intro x
    by_cases hx : x = m
    · subst hx
      refine .inr ⟨hm, ?_⟩
      intro t' v ht' hv
      rw [hst] at ht' hv ⊢
      simp only [Store.taskOf_setTaskOutput] at ht'
      rw [ht] at ht'; cases ht'
      rw [Store.taskOutput_setTaskOutput_self ht] at hv; cases hv
      simp only [Store.depsFrom_setTaskOutput]
      exact ⟨hrep, hres⟩
    · exact .inl (hs x hx)
  · intro n hn
    obtain ⟨h1, h2⟩ := hcf n hn
    rw [(hs n h1).1]; exact h2

end PieModel
