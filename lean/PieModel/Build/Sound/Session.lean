/-
Soundness of the top-down build, lifted to `sessionRequire`, `requireAll`, whole sessions and
histories of sessions interleaved with external changes.
-/
import PieModel.Build.Sound.TopDownMake

namespace PieModel

variable {sem : Sem} {body : Nat → Prog} {fs : List (Nat × Int)}

/-- A new session on a `Pie` with a well-formed, faithful store satisfies the invariant. -/
theorem SInv.newSession {p : PieSt} (hw : p.store.WF) (hf : Faithful sem body p.store) :
    SInv sem body p.fs p.newSession :=
  ⟨⟨hw, fun _ hn => (nomatch hn), fun _ hn => (nomatch hn)⟩, rfl, hf, fun _ hn => (nomatch hn),
    fun _ hn => (nomatch hn), fun _ hn => (nomatch hn)⟩

/-- What a returning `sessionRequire` guarantees. -/
def QSession (sem : Sem) (body : Nat → Prog) (fs : List (Nat × Int)) (s : Sess) (t : Nat)
    (s' : Sess) (o : Int) : Prop :=
  Eval sem body fs t o ∧ s'.fs = s.fs ∧ nodeOf s t ∈ s'.consistent ∧
    s'.store.taskOutput (nodeOf s t) = some o ∧ s'.store.taskOf (nodeOf s t) = some t

section
variable (hst : StampTotal sem) (hwfb : WriteFreeBody body)
  (hresp : ∀ t, Respects sem (body t)) (hone : ∀ t, OneChecker (body t))
include hst hwfb hresp hone

theorem sessionRequire_outcome (f : Nat) (s : Sess) (t : Nat) (h : SInv sem body fs s) :
    Outcome sem body fs s (sessionRequire sem body f s t) (QSession sem body fs s t) := by
  unfold sessionRequire; simp only []
  have st0 : SStep sem body fs s (({ s with cur := none } : Sess).emit .buildStart) :=
    h.step (h.wf.clearCur.emit .buildStart).wf rfl (Store.Le.refl _) rfl
      (fun x => .inl (Same.refl _ _)) (fun n hn => (nomatch hn))
  have IH := (tdSound (fs := fs) hst hwfb hresp hone f).require _ t alwaysChecker st0.inv
  split
  next s2 a heq => exact .abort (IH.faithful_of heq)
  next s2 o heq =>
    obtain ⟨st2, hc, ho, ht, hev, _⟩ := IH.ok s2 o heq
    exact .ret ((st0.trans st2).emit .buildEnd)
      ⟨hev, by show s2.fs = s.fs; rw [st2.inv.fsEq, h.fsEq], hc, ho, ht⟩

theorem requireAll_outcome (f : Nat) (ts : List Nat) : ∀ (s : Sess), SInv sem body fs s →
    Outcome sem body fs s (requireAll sem body f s ts)
      (fun _ os => List.Forall₂ (Eval sem body fs) ts os) := by
  induction ts with
  | nil => intro s h; unfold requireAll; exact .ret (SStep.refl h) .nil
  | cons t ts ih =>
    intro s h
    unfold requireAll
    have IH := sessionRequire_outcome hst hwfb hresp hone f s t h
    split
    next s2 a heq => exact .abort (IH.faithful_of heq)
    next s2 o heq =>
      obtain ⟨st2, hev, _⟩ := IH.ok s2 o heq
      have IH2 := ih s2 st2.inv
      split
      next s3 a heq3 => exact .abort (IH2.faithful_of heq3)
      next s3 os heq3 =>
        obtain ⟨st3, hall⟩ := IH2.ok s3 os heq3
        exact .ret (st2.trans st3) (.cons hev hall)

end

/-! ### histories -/

/-- One step of the life of a `Pie` instance (top-down only). -/
inductive TStep
  /-- external change of resource `r` through `Pie::resource_state_mut` -/
  | change (r : Nat) (v : Option Int)
  /-- a top-down session requiring `roots` in order (ends at the first abort) -/
  | session (roots : List Nat)

variable (sem body)

/-- Require `roots` in one session like `requireAll`, logging every `(root, output)` that was
returned (also when a later root aborts). -/
def requireLog (fuel : Nat) : Sess → List Nat → Sess × List (Nat × Int)
  | s, [] => (s, [])
  | s, t :: ts =>
    match sessionRequire sem body fuel s t with
    | (s', .abort _) => (s', [])
    | (s', .ok o) => ((requireLog fuel s' ts).1, (t, o) :: (requireLog fuel s' ts).2)

/-- Run a history; returns the final `Pie` and, for every `sessionRequire` that returned
`.ok o`, the triple (resource state at that moment, root, `o`). -/
def runSteps (fuel : Nat) : PieSt → List TStep → PieSt × List (List (Nat × Int) × Nat × Int)
  | p, [] => (p, [])
  | p, .change r v :: rest => runSteps fuel (p.setContent r v) rest
  | p, .session roots :: rest =>
    ((runSteps fuel (requireLog sem body fuel p.newSession roots).1.toPie rest).1,
      (requireLog sem body fuel p.newSession roots).2.map (fun x => (p.fs, x.1, x.2)) ++
        (runSteps fuel (requireLog sem body fuel p.newSession roots).1.toPie rest).2)

/-- `requireLog` ends in the same state as the model's `requireAll`. -/
theorem requireLog_fst (fuel : Nat) (ts : List Nat) : ∀ s : Sess,
    (requireLog sem body fuel s ts).1 = (requireAll sem body fuel s ts).1 := by
  induction ts with
  | nil => intro s; rfl
  | cons t ts ih =>
    intro s
    unfold requireLog requireAll
    rcases sessionRequire sem body fuel s t with ⟨s', (o | a)⟩
    · simp only [ih s']
      rcases requireAll sem body fuel s' ts with ⟨s'', (os | a)⟩ <;> rfl
    · rfl

variable {sem body}

theorem requireLog_sound (hst : StampTotal sem) (hwfb : WriteFreeBody body)
    (hresp : ∀ t, Respects sem (body t)) (hone : ∀ t, OneChecker (body t))
    (fuel : Nat) (ts : List Nat) : ∀ (s : Sess), SInv sem body fs s →
    Faithful sem body (requireLog sem body fuel s ts).1.store ∧
    SessWF (requireLog sem body fuel s ts).1 ∧
    ∀ x ∈ (requireLog sem body fuel s ts).2, Eval sem body fs x.1 x.2 := by
  induction ts with
  | nil => intro s h; exact ⟨h.faithful, h.wf, fun x hx => (nomatch hx)⟩
  | cons t ts ih =>
    intro s h
    unfold requireLog
    have IH := sessionRequire_outcome hst hwfb hresp hone fuel s t h
    have hwf := sessionRequire_ext sem body fuel h.wf t
    split
    next s' a heq => exact ⟨IH.faithful_of heq, (hwf.out heq).wf, fun x hx => (nomatch hx)⟩
    next s' o heq =>
      obtain ⟨st, hev, _⟩ := IH.ok s' o heq
      obtain ⟨h1, h2, h3⟩ := ih s' st.inv
      refine ⟨h1, h2, fun x hx => ?_⟩
      rcases List.mem_cons.mp hx with rfl | hx
      · exact hev
      · exact h3 x hx

theorem runSteps_sound (hst : StampTotal sem) (hwfb : WriteFreeBody body)
    (hresp : ∀ t, Respects sem (body t)) (hone : ∀ t, OneChecker (body t))
    (fuel : Nat) (steps : List TStep) : ∀ (p : PieSt), p.store.WF → Faithful sem body p.store →
    (runSteps sem body fuel p steps).1.store.WF ∧
    Faithful sem body (runSteps sem body fuel p steps).1.store ∧
    ∀ x ∈ (runSteps sem body fuel p steps).2, Eval sem body x.1 x.2.1 x.2.2 := by
  induction steps with
  | nil => intro p hw hf; exact ⟨hw, hf, fun x hx => (nomatch hx)⟩
  | cons st rest ih =>
    intro p hw hf
    cases st with
    | change r v =>
      unfold runSteps
      have hs : (p.setContent r v).store = p.store := by cases v <;> rfl
      exact ih _ (hs ▸ hw) (hs ▸ hf)
    | session roots =>
      unfold runSteps
      obtain ⟨h1, h2, h3⟩ := requireLog_sound (fs := p.fs) hst hwfb hresp hone fuel roots
        p.newSession (SInv.newSession hw hf)
      obtain ⟨h4, h5, h6⟩ := ih (requireLog sem body fuel p.newSession roots).1.toPie h2.store h1
      refine ⟨h4, h5, fun x hx => ?_⟩
      rcases List.mem_append.mp hx with hx | hx
      · obtain ⟨y, hy, rfl⟩ := List.mem_map.mp hx
        exact h3 y hy
      · exact h6 x hx

end PieModel
