/-
Soundness of the top-down build: the successor steps of `tdRequire` and `tdRun`.
-/
import PieModel.Build.Sound.TopDownCheck

namespace PieModel

variable {sem : Sem} {body : Nat → Prog} {fs : List (Nat × Int)}

theorem sound_require_succ {f : Nat} (ih : TdSound sem body fs f) (s : Sess) (u c : Nat)
    (h : SInv sem body fs s) :
    Outcome sem body fs s (tdRequire sem body (f + 1) s u c) (QReq sem body fs s u c) := by
  unfold tdRequire; simp only []
  obtain ⟨hb, hbs⟩ := h.getTask u
    (s' := { s.emit (.requireStart u c) with store := (s.store.getOrCreateTaskNode u).1 })
    rfl rfl rfl rfl rfl
  have htm : (s.store.getOrCreateTaskNode u).1.taskOf (nodeOf s u) = some u :=
    Store.taskOf_getOrCreateTaskNode_self h.wf.store u
  split
  next s_c a heq =>
    exact .abort (reserveRequire_spec hb.inv ⟨u, htm⟩ heq).1.inv.faithful
  next s_c heq =>
    obtain ⟨stc, hcurc, hconsc, hsamec, hedgec⟩ := reserveRequire_spec hb.inv ⟨u, htm⟩ heq
    have htc : s_c.store.taskOf (nodeOf s u) = some u := stc.le.task _ _ htm
    have hnodec : nodeOf s_c u = nodeOf s u := nodeOf_eq stc.inv.wf.store htc
    have IH := ih.make s_c u stc.inv (by
      rw [hnodec]
      intro n hn
      exact .edge (hedgec rfl n (by rw [← hcurc]; exact hn)).1)
    split
    next s_d a heq2 => exact .abort (IH.faithful_of heq2)
    next s_d out heq2 =>
      obtain ⟨std, hconsd, houtd, htd, heval, hprotd⟩ := IH.ok s_d out heq2
      rw [hnodec] at hconsd houtd htd hprotd
      have hcurd : s_d.cur = s_c.cur := cur_tdMake sem body heq2
      have ste := std.inv.emit (.requireEnd u c (sem.ostamp c out) out)
      split
      next s_f a heq3 =>
        exact .abort (updateRequire_spec ste.inv htd c (sem.ostamp c out) heq3).1.inv.faithful
      next s_f heq3 =>
        obtain ⟨stf, hcurf, hconsf, hsamef, houtf, hupd⟩ :=
          updateRequire_spec ste.inv htd c (sem.ostamp c out) heq3
        refine .ret (hb.trans (stc.trans (std.trans (ste.trans stf))))
          ⟨hconsf ▸ hconsd, by rw [houtf]; exact houtd, stf.le.task _ _ htd, heval, ?_⟩
        intro n hn
        have hnb : ({ s.emit (.requireStart u c) with
            store := (s.store.getOrCreateTaskNode u).1 } : Sess).cur = some n := hn
        have hnc : s_c.cur = some n := by rw [hcurc]; exact hnb
        have hnd : s_d.cur = some n := by rw [hcurd]; exact hnc
        obtain ⟨hedge, halt⟩ := hedgec rfl n hnb
        -- the ancestors of `n`
        have hw := h.wf.store
        have hp1 : Prot s { s.emit (.requireStart u c) with
            store := (s.store.getOrCreateTaskNode u).1 } n := fun x _ => ⟨hbs x, id⟩
        have hp2 : Prot { s.emit (.requireStart u c) with
            store := (s.store.getOrCreateTaskNode u).1 } s_c n :=
          Prot.mod hb.inv.wf.store
            (fun x hx => hsamec x (fun hh => hx (Option.some.inj (hnb.symm.trans hh)).symm))
            (fun x hx => .inl (hconsc ▸ hx))
        have hp3 : Prot s_c s_d n := fun x hx => hprotd x (hx.tail hedge)
        have hp4 : Prot s_d s_f n :=
          Prot.mod std.inv.wf.store
            (fun x hx => hsamef x (fun hh => hx (Option.some.inj (hnd.symm.trans hh)).symm))
            (fun x hx => .inl (hconsf ▸ hx))
        refine ⟨((hp1.trans hp2 hw hb.inv.wf.store).trans hp3 hw stc.inv.wf.store).trans hp4 hw
          std.inv.wf.store, ?_⟩
        -- the edges of `n`
        have hsn : Same s_c s_d n := (hprotd n (.edge hedge)).1
        apply edgeUpd_of (Lc := s_c.store.g.outgoingEdges n)
        · rw [← (hbs n).2]; exact halt
        · rw [hupd rfl n hnd]
          show (s_d.store.g.outgoingEdges n).map _ = _
          rw [hsn.2]

theorem sound_run_succ (hst : StampTotal sem) {f : Nat} (ih : TdSound sem body fs f) (s : Sess)
    (n : Nat) (p : Prog) (qt qr : List (Nat × Nat)) (h : SInv sem body fs s) (hc : s.cur = some n)
    (hwf : p.WriteFree) (hone : OneCk qt qr p) (hri : RunInv sem fs qt qr s n) :
    Outcome sem body fs s (tdRun sem body (f + 1) s p) (QRun sem body fs s n p) := by
  cases hwf with
  | ret v =>
    unfold tdRun
    exact .ret (SStep.refl h) ⟨.ret, Prot.refl _ _, ⟨qt, qr, hri⟩, fun d hd => hd, rfl⟩
  | panic => unfold tdRun; exact .abort h.faithful
  | req u c k hk =>
    unfold tdRun
    have IH := ih.require s u c h
    split
    next s1 a heq => exact .abort (IH.faithful_of heq)
    next s1 out heq =>
      obtain ⟨st1, hcons, hout, htask, hev, hcf⟩ := IH.ok s1 out heq
      obtain ⟨hp1, hupd1, hupd2, hupd3⟩ := hcf n hc
      have hcur1 : s1.cur = some n := (cur_tdRequire sem body heq).trans hc
      have hri1 : RunInv sem fs ((u, c) :: qt) qr s1 n := by
        intro dst d hd
        rcases hupd1 _ hd with ⟨hold, _⟩ | hnew
        · exact (hri dst d hold).mono st1 (fun p hp => List.mem_cons_of_mem _ hp) (fun p hp => hp)
        · cases hnew
          exact ⟨List.mem_cons_self .., hcons, out, hout, rfl⟩
      have IH2 := ih.run s1 n (k out) ((u, c) :: qt) qr st1.inv hcur1 (hk out) (hone.2 out) hri1
      refine IH2.trans st1 ?_
      rintro s' v st' ⟨hev', hp', hri', hsub', hrep'⟩
      have hD : Dep.require u c (sem.ostamp c out) ∈ s1.store.depsFrom n :=
        (Store.mem_depsFrom_iff _ _ _).mpr ⟨_, hupd3⟩
      refine ⟨.req hev hev', hp1.trans hp' h.wf.store st1.inv.wf.store, hri', ?_,
        ⟨sem.ostamp c out, hsub' _ hD, out, rfl, hrep'⟩⟩
      intro d hd
      obtain ⟨dst, hdst⟩ := (Store.mem_depsFrom_iff _ _ _).mp hd
      by_cases hne : dst = nodeOf s u
      · subst hne
        apply hsub'
        have hok := (h.wf.store.mem_outgoingEdges_ok hdst).2
        have hrd := hri _ d hdst
        cases d with
        | reserved => exact hrd.elim
        | write r' c' st0 => exact hrd.elim
        | read r' c' st0 =>
          have h1 : s1.store.resOf (nodeOf s u) = some r' := st1.le.res _ _ hok
          rw [Store.resOf_eq_none_of_taskOf htask] at h1; cases h1
        | require u' c' st0 =>
          obtain ⟨hq, hcs, o', ho', hst0⟩ := hrd
          have h1 : s1.store.taskOf (nodeOf s u) = some u' := st1.le.task _ _ hok
          rw [htask] at h1; cases h1
          have hcc := hone.1 c' hq
          subst hcc
          have h2 : s1.store.taskOutput (nodeOf s u) = some o' := by
            rw [(st1.cext _ hcs).1]; exact ho'
          rw [hout] at h2; cases h2
          rw [hst0]; exact hD
      · exact hsub' d ((Store.mem_depsFrom_iff _ _ _).mpr ⟨dst, hupd2 _ hdst hne⟩)
  | read r c k hk =>
    unfold tdRun
    split
    next s1 a heq => exact .abort (doRead_spec hst h hc r c heq).1.inv.faithful
    next s1 x heq =>
      obtain ⟨st1, hcur1', hcons1, hsame1, hres⟩ := doRead_spec hst h hc r c heq
      obtain ⟨rfl, dst, stamp, hstamp, hresof, halt⟩ := hres x rfl
      have hcur1 : s1.cur = some n := hcur1'.trans hc
      have hp1 : Prot s s1 n := Prot.mod h.wf.store hsame1 (fun x hx => .inl (hcons1 ▸ hx))
      -- the read dependency is recorded, and all old edges are kept
      have hkey : (dst, Dep.read r c stamp) ∈ s1.store.g.outgoingEdges n ∧
          ∀ p ∈ s.store.g.outgoingEdges n, p ∈ s1.store.g.outgoingEdges n := by
        rcases halt with ⟨⟨d0, hd0⟩, heq'⟩ | ⟨_, heq'⟩
        · rw [heq']
          refine ⟨?_, fun p hp => hp⟩
          have hok := (h.wf.store.mem_outgoingEdges_ok hd0).2
          have hrd := hri _ d0 hd0
          cases d0 with
          | reserved => exact hrd.elim
          | write r' c' st0 => exact hrd.elim
          | require u' c' st0 =>
            have h1 : s1.store.taskOf dst = some u' := st1.le.task _ _ hok
            rw [Store.taskOf_eq_none_of_resOf hresof] at h1; cases h1
          | read r' c' st0 =>
            obtain ⟨hq, hst0⟩ := hrd
            have h1 : s1.store.resOf dst = some r' := st1.le.res _ _ hok
            rw [hresof] at h1; cases h1
            have hcc := hone.1 c' hq
            subst hcc
            rw [hstamp] at hst0; cases hst0
            exact hd0
        · rw [heq']
          exact ⟨by simp, fun p hp => List.mem_append.mpr (.inl hp)⟩
      have hri1 : RunInv sem fs qt ((r, c) :: qr) s1 n := by
        intro dst' d hd
        rcases halt with ⟨_, heq'⟩ | ⟨_, heq'⟩
        · rw [heq'] at hd
          exact (hri dst' d hd).mono st1 (fun p hp => hp) (fun p hp => List.mem_cons_of_mem _ hp)
        · rw [heq'] at hd
          rcases List.mem_append.mp hd with hd | hd
          · exact (hri dst' d hd).mono st1 (fun p hp => hp) (fun p hp => List.mem_cons_of_mem _ hp)
          · simp only [List.mem_singleton, Prod.mk.injEq] at hd
            obtain ⟨rfl, rfl⟩ := hd
            exact ⟨List.mem_cons_self .., hstamp⟩
      have IH2 := ih.run s1 n (k (.ok (aget fs r))) qt ((r, c) :: qr) st1.inv hcur1 (hk _)
        (hone.2 _) hri1
      refine IH2.trans st1 ?_
      rintro s' v st' ⟨hev', hp', hri', hsub', hrep'⟩
      refine ⟨.read hstamp hev', hp1.trans hp' h.wf.store st1.inv.wf.store, hri', ?_,
        ⟨stamp, hsub' _ ((Store.mem_depsFrom_iff _ _ _).mpr ⟨_, hkey.1⟩), aget fs r, hstamp, hrep'⟩⟩
      intro d hd
      obtain ⟨dst', hdst'⟩ := (Store.mem_depsFrom_iff _ _ _).mp hd
      exact hsub' d ((Store.mem_depsFrom_iff _ _ _).mpr ⟨dst', hkey.2 _ hdst'⟩)

end PieModel
