/-
Soundness of the top-down build: the session invariant `SInv`, the step relation `SStep`
("the session advanced, keeping the invariant and everything known about consistent tasks"),
and the protection relations `Prot`/`ProtR` (the records of the tasks *above* a node in the
dependency graph are not touched by a call working *below* that node — the acyclicity argument).
-/
import PieModel.Build.Sound.Defs
import PieModel.Build.SessWFTopDown
import PieModel.Build.Proofs.CurLemmas

namespace PieModel

variable (sem : Sem) (body : Nat → Prog) (fs : List (Nat × Int))

/-- A recorded dependency whose target was validated in this session and whose stamp is the
current one or is accepted by the checker ("recorded stamps are current"). -/
def DepCur (s : Sess) : Dep → Prop
  | .reserved => False
  | .require u c st => ∃ m o, s.store.taskOf m = some u ∧ m ∈ s.consistent ∧
      s.store.taskOutput m = some o ∧ (st = sem.ostamp c o ∨ sem.ocheck c o st = true)
  | .read r c st => sem.rstamp c (aget fs r) = .ok st ∨ sem.rcheck c (aget fs r) st = .ok true
  | .write r c st => sem.rstamp c (aget fs r) = .ok st ∨ sem.rcheck c (aget fs r) st = .ok true

/-- The session invariant, for the (constant) resource state `fs` of the session. -/
structure SInv (s : Sess) : Prop where
  wf : SessWF s
  fsEq : s.fs = fs
  faithful : Faithful sem body s.store
  /-- `CSound`: every consistent node is a task node whose output is the from-scratch output -/
  sound : ∀ n ∈ s.consistent, ∃ t v, s.store.taskOf n = some t ∧ s.store.taskOutput n = some v ∧
    Eval sem body fs t v
  /-- every dependency of a consistent node points to a consistent node / is current -/
  closed : ∀ n ∈ s.consistent, ∀ d ∈ s.store.depsFrom n, DepCur sem fs s d
  /-- the executing task has no output -/
  curFree : ∀ n, s.cur = some n → s.store.taskOutput n = none

/-- The record of node `x` (output and outgoing edges) is the same in `s'` as in `s`. -/
def Same (s s' : Sess) (x : Nat) : Prop :=
  s'.store.taskOutput x = s.store.taskOutput x ∧
    s'.store.g.outgoingEdges x = s.store.g.outgoingEdges x

theorem Same.refl (s : Sess) (x : Nat) : Same s s x := ⟨rfl, rfl⟩

theorem Same.trans {s s' s'' : Sess} {x : Nat} (h₁ : Same s s' x) (h₂ : Same s' s'' x) :
    Same s s'' x := ⟨h₂.1.trans h₁.1, h₂.2.trans h₁.2⟩

theorem Same.deps {s s' : Sess} {x : Nat} (h : Same s s' x) :
    s'.store.depsFrom x = s.store.depsFrom x := (Store.outgoing_obs_congr h.2).1

/-- `s'` is a later state of the session: invariant kept, consistent tasks stay consistent and
keep their records (`Ext` of the probe), no node is lost. -/
structure SStep (s s' : Sess) : Prop where
  inv : SInv sem body fs s'
  mono : ∀ x ∈ s.consistent, x ∈ s'.consistent
  cext : ∀ x ∈ s.consistent, Same s s' x
  le : s.store.Le s'.store

variable {sem body fs}

theorem SStep.refl {s : Sess} (h : SInv sem body fs s) : SStep sem body fs s s :=
  ⟨h, fun _ hx => hx, fun _ _ => Same.refl _ _, Store.Le.refl _⟩

theorem SStep.trans {s s' s'' : Sess} (h₁ : SStep sem body fs s s') (h₂ : SStep sem body fs s' s'') :
    SStep sem body fs s s'' :=
  ⟨h₂.inv, fun x hx => h₂.mono x (h₁.mono x hx),
    fun x hx => (h₁.cext x hx).trans (h₂.cext x (h₁.mono x hx)), h₁.le.trans h₂.le⟩

theorem Store.taskOf_of_output {st : Store} {n : Nat} {v : Int} (h : st.taskOutput n = some v) :
    ∃ t, st.taskOf n = some t := by
  obtain ⟨t, ht⟩ := (Store.taskOutput_eq_some_iff st n v).mp h
  exact ⟨t, Store.taskOf_of_data_task ht⟩

/-- A consistent node is not the executing node. -/
theorem SInv.cur_not_consistent {s : Sess} (h : SInv sem body fs s) {n : Nat} (hc : s.cur = some n) :
    n ∉ s.consistent := by
  intro hn
  obtain ⟨t, v, _, hv, _⟩ := h.sound n hn
  rw [h.curFree n hc] at hv; cases hv

/-- Transport of `DepCur` to a later state. -/
theorem DepCur.mono {s s' : Sess} {d : Dep} (h : DepCur sem fs s d) (hle : s.store.Le s'.store)
    (hc : ∀ m ∈ s.consistent, m ∈ s'.consistent ∧ s'.store.taskOutput m = s.store.taskOutput m) :
    DepCur sem fs s' d := by
  cases d with
  | reserved => exact h
  | require u c st =>
    obtain ⟨m, o, h1, h2, h3, h4⟩ := h
    exact ⟨m, o, hle.task _ _ h1, (hc m h2).1, by rw [(hc m h2).2]; exact h3, h4⟩
  | read r c st => exact h
  | write r c st => exact h

theorem DepCur.step {s s' : Sess} {d : Dep} (h : DepCur sem fs s d) (hs : SStep sem body fs s s') :
    DepCur sem fs s' d :=
  h.mono hs.le (fun m hm => ⟨hs.mono m hm, (hs.cext m hm).1⟩)

/-- The faithfulness claim for one node. -/
def FaithfulAt (sem : Sem) (body : Nat → Prog) (st : Store) (n : Nat) : Prop :=
  ∀ t v, st.taskOf n = some t → st.taskOutput n = some v →
    Replay sem (body t) (st.depsFrom n) v ∧ Dep.reserved ∉ st.depsFrom n

theorem FaithfulAt.of_none {st : Store} {n : Nat} (h : st.taskOutput n = none) :
    FaithfulAt sem body st n := by
  intro t v _ hv; rw [h] at hv; cases hv

/-- The generic store step: every node keeps its record, or was not consistent and satisfies
its faithfulness claim afterwards (e.g. because it has no output). -/
theorem SInv.step {s s' : Sess} (h : SInv sem body fs s) (hwf : SessWF s') (hfs : s'.fs = s.fs)
    (hle : s.store.Le s'.store) (hcons : s'.consistent = s.consistent)
    (hmod : ∀ x, Same s s' x ∨ (x ∉ s.consistent ∧ FaithfulAt sem body s'.store x))
    (hcur : ∀ n, s'.cur = some n → s'.store.taskOutput n = none) : SStep sem body fs s s' := by
  have hsame : ∀ x ∈ s.consistent, Same s s' x := by
    intro x hx
    rcases hmod x with h1 | h1
    · exact h1
    · exact absurd hx h1.1
  refine ⟨⟨hwf, hfs.trans h.fsEq, ?_, ?_, ?_, hcur⟩, fun x hx => hcons ▸ hx, hsame, hle⟩
  · intro n t v ht hv
    rcases hmod n with h1 | h1
    · rw [h1.1] at hv
      obtain ⟨t0, ht0⟩ := Store.taskOf_of_output hv
      have := hle.task _ _ ht0
      rw [ht] at this; cases this
      rw [h1.deps]
      exact h.faithful n t v ht0 hv
    · exact h1.2 t v ht hv
  · intro n hn
    rw [hcons] at hn
    obtain ⟨t, v, ht, hv, he⟩ := h.sound n hn
    exact ⟨t, v, hle.task _ _ ht, by rw [(hsame n hn).1]; exact hv, he⟩
  · intro n hn d hd
    rw [hcons] at hn
    rw [(hsame n hn).deps] at hd
    exact (h.closed n hn d hd).mono hle (fun m hm => ⟨hcons ▸ hm, (hsame m hm).1⟩)

/-- A store step that keeps `fs`, `cur`, `consistent`, `queue`. -/
theorem SInv.storeStep {s s' : Sess} (h : SInv sem body fs s) (hfs : s'.fs = s.fs)
    (hcur : s'.cur = s.cur) (hcons : s'.consistent = s.consistent) (hq : s'.queue = s.queue)
    (hw : s'.store.WF) (hle : s.store.Le s'.store)
    (hmod : ∀ x, Same s s' x ∨ (x ∉ s.consistent ∧ FaithfulAt sem body s'.store x))
    (hcf : ∀ n, s.cur = some n → s'.store.taskOutput n = none) : SStep sem body fs s s' :=
  h.step (h.wf.ext_of_store hcur hq hw hle).wf hfs hle hcons hmod (fun n hn => hcf n (hcur ▸ hn))

/-- A step that changes neither store, nor `fs`, `cur`, `consistent`, `queue`. -/
theorem SInv.same {s s' : Sess} (h : SInv sem body fs s) (h1 : s'.store = s.store)
    (h2 : s'.fs = s.fs) (h3 : s'.cur = s.cur) (h4 : s'.consistent = s.consistent)
    (h5 : s'.queue = s.queue) : SStep sem body fs s s' := by
  refine h.step (h.wf.same h1 h3 h5).wf h2 (h1 ▸ Store.Le.refl _) h4
    (fun x => .inl ⟨by rw [h1], by rw [h1]⟩) ?_
  intro n hn
  rw [h1]; exact h.curFree n (h3 ▸ hn)

theorem SInv.emit {s : Sess} (h : SInv sem body fs s) (e : Ev) : SStep sem body fs s (s.emit e) :=
  h.same rfl rfl rfl rfl rfl

theorem SStep.emit {s s' : Sess} (h : SStep sem body fs s s') (e : Ev) :
    SStep sem body fs s (s'.emit e) := h.trans (h.inv.emit e)

theorem mem_markConsistent (s : Sess) (m x : Nat) :
    x ∈ (s.markConsistent m).consistent ↔ x ∈ s.consistent ∨ x = m := by
  unfold Sess.markConsistent
  split
  · constructor
    · exact .inl
    · rintro (h | rfl)
      · exact h
      · assumption
  · simp

/-- Marking a task consistent whose output is the from-scratch output and whose dependencies
are current. -/
theorem SInv.mark {s : Sess} (h : SInv sem body fs s) {m t : Nat} {v : Int}
    (ht : s.store.taskOf m = some t) (hv : s.store.taskOutput m = some v)
    (he : Eval sem body fs t v)
    (hc : ∀ d ∈ s.store.depsFrom m, DepCur sem fs (s.markConsistent m) d) :
    SStep sem body fs s (s.markConsistent m) := by
  have hmono : ∀ x ∈ s.consistent, x ∈ (s.markConsistent m).consistent :=
    fun x hx => (mem_markConsistent s m x).mpr (.inl hx)
  refine ⟨⟨h.wf.markConsistent m, by simp [h.fsEq], by simpa using h.faithful, ?_, ?_, ?_⟩, hmono,
    fun x _ => ⟨by simp, by simp⟩, by simp [Store.Le.refl]⟩
  · intro n hn
    rcases (mem_markConsistent s m n).mp hn with hn | rfl
    · simpa using h.sound n hn
    · exact ⟨t, v, by simpa using ht, by simpa using hv, he⟩
  · intro n hn d hd
    simp only [Sess.store_markConsistent] at hd
    rcases (mem_markConsistent s m n).mp hn with hn | rfl
    · exact (h.closed n hn d hd).mono (by simp [Store.Le.refl])
        (fun x hx => ⟨hmono x hx, by simp⟩)
    · exact hc d hd
  · intro n hn
    simp only [Sess.cur_markConsistent] at hn
    simpa using h.curFree n hn

/-! ### protection of the ancestors -/

/-- The records of all strict ancestors of `m` are untouched, and none of them became
consistent. -/
def Prot (s s' : Sess) (m : Nat) : Prop :=
  ∀ x, s.store.g.Reach x m → Same s s' x ∧ (x ∈ s'.consistent → x ∈ s.consistent)

/-- Same, including `m` itself. -/
def ProtR (s s' : Sess) (m : Nat) : Prop :=
  ∀ x, (x = m ∨ s.store.g.Reach x m) → Same s s' x ∧ (x ∈ s'.consistent → x ∈ s.consistent)

theorem ProtR.prot {s s' : Sess} {m : Nat} (h : ProtR s s' m) : Prot s s' m :=
  fun x hx => h x (.inr hx)

theorem Prot.refl (s : Sess) (m : Nat) : Prot s s m := fun _ _ => ⟨Same.refl _ _, id⟩
theorem ProtR.refl (s : Sess) (m : Nat) : ProtR s s m := fun _ _ => ⟨Same.refl _ _, id⟩

theorem Same.children {s s' : Sess} {x : Nat} (hw : s.store.WF) (hw' : s'.store.WF)
    (h : Same s s' x) : s'.store.g.childrenOf x = s.store.g.childrenOf x := by
  rw [← Dag.outgoingEdges_map_fst hw'.gwf, ← Dag.outgoingEdges_map_fst hw.gwf, h.2]

/-- Paths into `m` survive, since all nodes on them are ancestors of `m`. -/
theorem Prot.reach {s s' : Sess} {m : Nat} (h : Prot s s' m) (hw : s.store.WF) (hw' : s'.store.WF)
    {x : Nat} (hr : s.store.g.Reach x m) : s'.store.g.Reach x m := by
  induction hr with
  | @edge a b he =>
    have hc := (h a (.edge he)).1.children hw hw'
    exact .edge (by simpa [Dag.HasEdge, hc] using he)
  | @step a b c he hr ih =>
    have hc := (h a (.step he hr)).1.children hw hw'
    exact .step (by simpa [Dag.HasEdge, hc] using he) (ih h)

theorem Prot.trans {s s' s'' : Sess} {m : Nat} (h₁ : Prot s s' m) (h₂ : Prot s' s'' m)
    (hw : s.store.WF) (hw' : s'.store.WF) : Prot s s'' m := by
  intro x hx
  have h1 := h₁ x hx
  have h2 := h₂ x (h₁.reach hw hw' hx)
  exact ⟨h1.1.trans h2.1, fun hc => h1.2 (h2.2 hc)⟩

theorem ProtR.trans {s s' s'' : Sess} {m : Nat} (h₁ : ProtR s s' m) (h₂ : ProtR s' s'' m)
    (hw : s.store.WF) (hw' : s'.store.WF) : ProtR s s'' m := by
  intro x hx
  have h1 := h₁ x hx
  have hx' : x = m ∨ s'.store.g.Reach x m := by
    rcases hx with hx | hx
    · exact .inl hx
    · exact .inr (h₁.prot.reach hw hw' hx)
  have h2 := h₂ x hx'
  exact ⟨h1.1.trans h2.1, fun hc => h1.2 (h2.2 hc)⟩

/-- Protection of the ancestors of `m'` protects `m` and its ancestors when `m` reaches `m'`. -/
theorem Prot.toR {s s' : Sess} {m m' : Nat} (h : Prot s s' m') (hr : s.store.g.Reach m m') :
    ProtR s s' m := by
  rintro x (rfl | hx)
  · exact h _ hr
  · exact h _ (hx.trans hr)

/-- A step that touches the record of `n` only (and may make `n` consistent) protects the
ancestors of `n`. -/
theorem Prot.mod {s s' : Sess} {n : Nat} (hw : s.store.WF) (hs : ∀ x, x ≠ n → Same s s' x)
    (hc : ∀ x, x ∈ s'.consistent → x ∈ s.consistent ∨ x = n) : Prot s s' n := by
  intro x hx
  have hne : x ≠ n := by rintro rfl; exact hw.inv.acyclic _ hx
  refine ⟨hs x hne, fun h => ?_⟩
  rcases hc x h with h | h
  · exact h
  · exact absurd h hne

/-- A step that touches no record and no consistency. -/
theorem Prot.same {s s' : Sess} (h1 : s'.store = s.store) (h4 : s'.consistent = s.consistent)
    (m : Nat) : ProtR s s' m :=
  fun _ _ => ⟨⟨by rw [h1], by rw [h1]⟩, fun h => h4 ▸ h⟩

end PieModel
