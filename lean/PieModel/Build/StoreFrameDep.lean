/-
Frame / effect lemmas for the `Store` operations that touch edges:
`addDependency` (verdict, no-op cases, a new edge is appended at the end of both adjacency
lists) and `setDependency` (replaces the data of an existing edge in place).
-/
import PieModel.Build.StoreFrameOutput

namespace PieModel
namespace Store
variable {st : Store}

/-! ### `addDependency`: shape -/

theorem addDependency_of_ok {src dst : Nat} {d : Dep} {b : Bool}
    (h : (st.g.addEdge src dst d).2 = .ok b) :
    st.addDependency src dst d = ({ st with g := (st.g.addEdge src dst d).1 }, .ok) := by
  unfold addDependency
  cases hh : st.g.addEdge src dst d with
  | mk g r => rw [hh] at h; simp only at h; subst h; rfl

theorem addDependency_of_cycle {src dst : Nat} {d : Dep}
    (h : (st.g.addEdge src dst d).2 = .error .cycle) :
    st.addDependency src dst d = (st, .cycle) := by
  unfold addDependency
  cases hh : st.g.addEdge src dst d with
  | mk g r => rw [hh] at h; simp only at h; subst h; rfl

theorem addDependency_of_missing {src dst : Nat} {d : Dep}
    (h : (st.g.addEdge src dst d).2 = .error .nodeMissing) :
    st.addDependency src dst d = (st, .bug) := by
  unfold addDependency
  cases hh : st.g.addEdge src dst d with
  | mk g r => rw [hh] at h; simp only at h; subst h; rfl

/-- The verdict of `addDependency` read off the verdict of `addEdge`. -/
theorem addDependency_snd (st : Store) (src dst : Nat) (d : Dep) :
    (st.addDependency src dst d).2 =
      match (st.g.addEdge src dst d).2 with
      | .ok _ => .ok
      | .error .cycle => .cycle
      | .error .nodeMissing => .bug := by
  rcases Dag.except_cases (st.g.addEdge src dst d).2 with hr | hr | hr | hr
  · rw [addDependency_of_missing hr, hr]
  · rw [addDependency_of_cycle hr, hr]
  · rw [addDependency_of_ok hr, hr]
  · rw [addDependency_of_ok hr, hr]

/-- In every case the new store is the old one with the graph returned by `addEdge` (which is
the old graph when the insertion is rejected). -/
theorem addDependency_fst (st : Store) (src dst : Nat) (d : Dep) :
    (st.addDependency src dst d).1 = { st with g := (st.g.addEdge src dst d).1 } := by
  rcases Dag.except_cases (st.g.addEdge src dst d).2 with hr | hr | hr | hr
  · rw [addDependency_of_missing hr, Dag.addEdge_error_unchanged _ _ _ _ _ hr]
  · rw [addDependency_of_cycle hr, Dag.addEdge_error_unchanged _ _ _ _ _ hr]
  · rw [addDependency_of_ok hr]
  · rw [addDependency_of_ok hr]

@[simp] theorem taskNode_addDependency (src dst : Nat) (d : Dep) :
    (st.addDependency src dst d).1.taskNode = st.taskNode := by rw [addDependency_fst]

@[simp] theorem resNode_addDependency (src dst : Nat) (d : Dep) :
    (st.addDependency src dst d).1.resNode = st.resNode := by rw [addDependency_fst]

theorem g_addDependency (src dst : Nat) (d : Dep) :
    (st.addDependency src dst d).1.g = (st.g.addEdge src dst d).1 := by rw [addDependency_fst]

/-! ### `addDependency`: verdict -/

/-- `.bug` exactly when an endpoint is not live. -/
theorem addDependency_snd_bug_iff (st : Store) (src dst : Nat) (d : Dep) :
    (st.addDependency src dst d).2 = .bug ↔
      (st.g.containsNode src = false ∨ st.g.containsNode dst = false) := by
  rw [← Dag.addEdge_missing_iff st.g src dst d, addDependency_snd]
  rcases Dag.except_cases (st.g.addEdge src dst d).2 with hr | hr | hr | hr <;> rw [hr] <;> simp

section Verdict
variable (h : st.WF) (src dst : Nat) (d : Dep)
include h

/-- `.cycle` exactly when both endpoints are live and the edge would close a cycle. -/
theorem addDependency_snd_cycle_iff :
    (st.addDependency src dst d).2 = .cycle ↔
      (st.g.containsNode src = true ∧ st.g.containsNode dst = true ∧
        (src = dst ∨ st.g.Reach dst src)) := by
  by_cases hl : st.g.containsNode src = true ∧ st.g.containsNode dst = true
  · rw [← Dag.addEdge_cycle_iff h.inv src dst d hl.1 hl.2, addDependency_snd]
    simp only [hl.1, hl.2, true_and]
    rcases Dag.except_cases (st.g.addEdge src dst d).2 with hr | hr | hr | hr <;> rw [hr] <;> simp
  · have hb : (st.addDependency src dst d).2 = .bug := by
      rw [addDependency_snd_bug_iff]
      cases h1 : st.g.containsNode src <;> cases h2 : st.g.containsNode dst <;> simp_all
    rw [hb]
    constructor
    · intro hh; cases hh
    · intro hh; exact absurd ⟨hh.1, hh.2.1⟩ hl

/-- `.ok` exactly when both endpoints are live, distinct, and `dst` does not reach `src`. -/
theorem addDependency_snd_ok_iff :
    (st.addDependency src dst d).2 = .ok ↔
      (st.g.containsNode src = true ∧ st.g.containsNode dst = true ∧ src ≠ dst ∧
        ¬ st.g.Reach dst src) := by
  have hb := addDependency_snd_bug_iff st src dst d
  have hc := addDependency_snd_cycle_iff h src dst d
  cases hr : (st.addDependency src dst d).2 with
  | ok =>
    rw [hr] at hb hc
    simp only [reduceCtorEq, false_iff, not_or, Bool.not_eq_false, not_and] at hb hc
    simp only [true_iff]
    exact ⟨hb.1, hb.2, (hc hb.1 hb.2).1, (hc hb.1 hb.2).2⟩
  | cycle =>
    rw [hr] at hc
    simp only [true_iff] at hc
    simp only [reduceCtorEq, false_iff, not_and, Classical.not_not]
    intro _ _ hne
    rcases hc.2.2 with he | he
    · exact absurd he hne
    · exact he
  | bug =>
    rw [hr] at hb
    simp only [true_iff] at hb
    simp only [reduceCtorEq, false_iff, not_and]
    intro h1 h2
    rcases hb with hb | hb <;> simp_all

omit h in
/-- A rejected insertion leaves the store unchanged. -/
theorem addDependency_fst_of_ne_ok (hr : (st.addDependency src dst d).2 ≠ .ok) :
    (st.addDependency src dst d).1 = st := by
  rw [addDependency_snd] at hr
  rcases Dag.except_cases (st.g.addEdge src dst d).2 with hr' | hr' | hr' | hr'
  · rw [addDependency_of_missing hr']
  · rw [addDependency_of_cycle hr']
  · rw [hr'] at hr; exact absurd rfl hr
  · rw [hr'] at hr; exact absurd rfl hr

/-- An existing dependency: `.ok`, and the store is unchanged (the edge keeps its position in
both adjacency lists and its data). -/
theorem addDependency_of_edge (he : st.g.HasEdge src dst) :
    st.addDependency src dst d = (st, .ok) := by
  have := Dag.addEdge_existing_noop h.inv d he
  rw [addDependency_of_ok (b := false) (by rw [this]), this]

/-- `.ok` with the edge absent is `addEdge`'s `.ok true`. -/
theorem addEdge_ok_true_of_addDependency (hr : (st.addDependency src dst d).2 = .ok)
    (hne : ¬ st.g.HasEdge src dst) : (st.g.addEdge src dst d).2 = .ok true := by
  obtain ⟨h1, h2, h3, h4⟩ := (addDependency_snd_ok_iff h src dst d).mp hr
  exact (Dag.addEdge_ok_true_iff h.inv src dst d).mpr ⟨h1, h2, h3, hne, h4⟩

/-- Under `WF`, adding a task → resource dependency is never rejected. -/
theorem addDependency_to_res_ok {t r : Nat} (hs : st.taskOf src = some t)
    (hd : st.resOf dst = some r) : (st.addDependency src dst d).2 = .ok := by
  rw [addDependency_snd_ok_iff h]
  refine ⟨live_of_taskOf hs, live_of_resOf hd, ?_, h.not_reach_from_res hd src⟩
  rintro rfl
  rw [resOf_eq_none_of_taskOf hs] at hd; cases hd

theorem addDependency_to_res_ne_cycle {t r : Nat} (hs : st.taskOf src = some t)
    (hd : st.resOf dst = some r) : (st.addDependency src dst d).2 ≠ .cycle := by
  rw [addDependency_to_res_ok h src dst d hs hd]; simp

/-! ### `addDependency`: what never changes -/

theorem getNodeData_addDependency (x : Nat) :
    (st.addDependency src dst d).1.g.getNodeData x = st.g.getNodeData x := by
  rw [g_addDependency]; exact Dag.getNodeData_addEdge h.inv _ _ _ x

theorem taskOf_addDependency (x : Nat) : (st.addDependency src dst d).1.taskOf x = st.taskOf x :=
  taskOf_congr (getNodeData_addDependency h src dst d x)

theorem resOf_addDependency (x : Nat) : (st.addDependency src dst d).1.resOf x = st.resOf x :=
  resOf_congr (getNodeData_addDependency h src dst d x)

theorem taskOutput_addDependency (x : Nat) :
    (st.addDependency src dst d).1.taskOutput x = st.taskOutput x :=
  taskOutput_congr (getNodeData_addDependency h src dst d x)

theorem containsNode_addDependency (x : Nat) :
    (st.addDependency src dst d).1.g.containsNode x = st.g.containsNode x := by
  rw [g_addDependency]; exact Dag.containsNode_addEdge h.inv _ _ _ x

theorem inv_addDependency : (st.addDependency src dst d).1.g.Inv := by
  rw [g_addDependency]; exact Dag.inv_addEdge h.inv _ _ _

/-- Reachability only grows. -/
theorem reach_addDependency_mono {a b : Nat} (hr : st.g.Reach a b) :
    (st.addDependency src dst d).1.g.Reach a b := by
  rw [g_addDependency]; exact Dag.reach_addEdge_mono h.inv _ _ _ hr

/-- Edge data other than that of `src → dst` never change. -/
theorem getEdgeData_addDependency_of_ne {a b : Nat} (hab : ¬ (a = src ∧ b = dst)) :
    (st.addDependency src dst d).1.g.getEdgeData a b = st.g.getEdgeData a b := by
  rw [g_addDependency]; exact Dag.getEdgeData_addEdge_of_ne h.inv _ _ _ hab

/-- The outgoing edges of nodes other than `src` never change. -/
theorem outgoingEdges_addDependency_of_ne {x : Nat} (hx : x ≠ src) :
    (st.addDependency src dst d).1.g.outgoingEdges x = st.g.outgoingEdges x := by
  rw [g_addDependency]
  exact Dag.outgoingEdges_congr x (Dag.childrenOf_addEdge_of_ne h.inv _ _ _ hx)
    (fun c _ => Dag.getEdgeData_addEdge_of_ne h.inv _ _ _ (fun hh => hx hh.1))

/-- The incoming edges of nodes other than `dst` never change. -/
theorem incomingEdges_addDependency_of_ne {x : Nat} (hx : x ≠ dst) :
    (st.addDependency src dst d).1.g.incomingEdges x = st.g.incomingEdges x := by
  rw [g_addDependency]
  exact Dag.incomingEdges_congr x (Dag.parentsOf_addEdge_of_ne h.inv _ _ _ hx)
    (fun c _ => Dag.getEdgeData_addEdge_of_ne h.inv _ _ _ (fun hh => hx hh.2))

end Verdict

/-! ### `addDependency`: a new edge -/

section New
variable (h : st.WF) {src dst : Nat} {d : Dep}
  (hr : (st.addDependency src dst d).2 = .ok) (hne : ¬ st.g.HasEdge src dst)
include h hr hne

theorem getEdgeData_addDependency_new (a b : Nat) :
    (st.addDependency src dst d).1.g.getEdgeData a b =
      if a = src ∧ b = dst then some d else st.g.getEdgeData a b := by
  rw [g_addDependency]
  exact Dag.getEdgeData_addEdge_new h.inv (addEdge_ok_true_of_addDependency h _ _ _ hr hne) a b

theorem childrenOf_addDependency_new (x : Nat) :
    (st.addDependency src dst d).1.g.childrenOf x =
      if x = src then st.g.childrenOf x ++ [dst] else st.g.childrenOf x := by
  rw [g_addDependency]
  exact Dag.childrenOf_addEdge_new h.inv (addEdge_ok_true_of_addDependency h _ _ _ hr hne) x

theorem parentsOf_addDependency_new (x : Nat) :
    (st.addDependency src dst d).1.g.parentsOf x =
      if x = dst then st.g.parentsOf x ++ [src] else st.g.parentsOf x := by
  rw [g_addDependency]
  exact Dag.parentsOf_addEdge_new h.inv (addEdge_ok_true_of_addDependency h _ _ _ hr hne) x

/-- The new dependency is appended at the END of the outgoing edges of `src`. -/
theorem outgoingEdges_addDependency_new (x : Nat) :
    (st.addDependency src dst d).1.g.outgoingEdges x =
      if x = src then st.g.outgoingEdges x ++ [(dst, d)] else st.g.outgoingEdges x := by
  rw [g_addDependency]
  exact Dag.outgoingEdges_addEdge_new h.inv (addEdge_ok_true_of_addDependency h _ _ _ hr hne) x

/-- ... and at the END of the incoming edges of `dst`. -/
theorem incomingEdges_addDependency_new (x : Nat) :
    (st.addDependency src dst d).1.g.incomingEdges x =
      if x = dst then st.g.incomingEdges x ++ [(src, d)] else st.g.incomingEdges x := by
  rw [g_addDependency]
  exact Dag.incomingEdges_addEdge_new h.inv (addEdge_ok_true_of_addDependency h _ _ _ hr hne) x

theorem hasEdge_addDependency_new (a b : Nat) :
    (st.addDependency src dst d).1.g.HasEdge a b ↔ st.g.HasEdge a b ∨ (a = src ∧ b = dst) := by
  rw [g_addDependency]
  exact Dag.hasEdge_addEdge_new h.inv (addEdge_ok_true_of_addDependency h _ _ _ hr hne) a b

theorem reach_addDependency_new (a b : Nat) :
    (st.addDependency src dst d).1.g.Reach a b ↔
      st.g.Reach a b ∨ ((a = src ∨ st.g.Reach a src) ∧ (b = dst ∨ st.g.Reach dst b)) := by
  rw [g_addDependency]
  exact Dag.reach_addEdge_new h.inv (addEdge_ok_true_of_addDependency h _ _ _ hr hne) a b

theorem depsFrom_addDependency_new (x : Nat) :
    (st.addDependency src dst d).1.depsFrom x =
      if x = src then st.depsFrom x ++ [d] else st.depsFrom x := by
  simp only [depsFrom, Dag.outgoingEdgeData, outgoingEdges_addDependency_new h hr hne]
  by_cases hx : x = src <;> simp [hx]

theorem resourcesWrittenBy_addDependency_new (x : Nat) :
    (st.addDependency src dst d).1.resourcesWrittenBy x =
      if x = src ∧ d.isWrite = true then st.resourcesWrittenBy x ++ [dst]
      else st.resourcesWrittenBy x := by
  simp only [resourcesWrittenBy_eq, outgoingEdges_addDependency_new h hr hne]
  by_cases hx : x = src
  · cases hw : d.isWrite <;> simp [hx, hw]
  · simp [hx]

theorem readDepsTo_addDependency_new (x : Nat) :
    (st.addDependency src dst d).1.readDepsTo x =
      if x = dst ∧ d.isRead = true then st.readDepsTo x ++ [(src, d)] else st.readDepsTo x := by
  simp only [readDepsTo_eq, incomingEdges_addDependency_new h hr hne]
  by_cases hx : x = dst
  · cases hw : d.isRead <;> simp [hx, hw]
  · simp [hx]

theorem readWriteDepsTo_addDependency_new (x : Nat) :
    (st.addDependency src dst d).1.readWriteDepsTo x =
      if x = dst ∧ d.isReadWrite = true then st.readWriteDepsTo x ++ [(src, d)]
      else st.readWriteDepsTo x := by
  simp only [readWriteDepsTo_eq, incomingEdges_addDependency_new h hr hne]
  by_cases hx : x = dst
  · cases hw : d.isReadWrite <;> simp [hx, hw]
  · simp [hx]

theorem requireDepsTo_addDependency_new (x : Nat) :
    (st.addDependency src dst d).1.requireDepsTo x =
      if x = dst ∧ d.isRequire = true then st.requireDepsTo x ++ [(src, d)]
      else st.requireDepsTo x := by
  simp only [requireDepsTo_eq, incomingEdges_addDependency_new h hr hne]
  by_cases hx : x = dst
  · cases hw : d.isRequire <;> simp [hx, hw]
  · simp [hx]

theorem tasksReadingFrom_addDependency_new (x : Nat) :
    (st.addDependency src dst d).1.tasksReadingFrom x =
      if x = dst ∧ d.isRead = true then st.tasksReadingFrom x ++ [src]
      else st.tasksReadingFrom x := by
  simp only [tasksReadingFrom_eq, incomingEdges_addDependency_new h hr hne]
  by_cases hx : x = dst
  · cases hw : d.isRead <;> simp [hx, hw]
  · simp [hx]

theorem writersTo_addDependency_new (x : Nat) :
    (st.addDependency src dst d).1.writersTo x =
      if x = dst ∧ d.isWrite = true then st.writersTo x ++ [src] else st.writersTo x := by
  simp only [writersTo, incomingEdges_addDependency_new h hr hne]
  by_cases hx : x = dst
  · cases hw : d.isWrite <;> simp [hx, hw]
  · simp [hx]

/-- An earlier writer stays the first writer. -/
theorem taskWritingTo_addDependency_new (x : Nat) :
    (st.addDependency src dst d).1.taskWritingTo x =
      if x = dst ∧ d.isWrite = true then (st.taskWritingTo x).or (some src)
      else st.taskWritingTo x := by
  rw [taskWritingTo_eq, taskWritingTo_eq, writersTo_addDependency_new h hr hne]
  split
  · cases st.writersTo x <;> simp
  · rfl

end New

/-! ### `addDependency` preserves `WF` -/

/-- Side conditions: the source is a task node and `d` has the right kind/target for `dst`. -/
theorem WF.addDependency (h : st.WF) {src dst : Nat} {d : Dep}
    (hs : ∃ t, st.taskOf src = some t) (hd : st.DepOK d dst) :
    (st.addDependency src dst d).1.WF := by
  by_cases hr : (st.addDependency src dst d).2 = .ok ∧ ¬ st.g.HasEdge src dst
  · refine h.transfer (inv_addDependency h _ _ _) (by simp) (by simp)
      (fun x => ⟨taskOf_addDependency h _ _ _ x, resOf_addDependency h _ _ _ x⟩) ?_ ?_
    · intro a b dep he
      rw [getEdgeData_addDependency_new h hr.1 hr.2] at he
      split at he
      · rename_i hab; rw [hab.1]; exact hs
      · exact h.edge_src a b dep he
    · intro a b dep he
      rw [getEdgeData_addDependency_new h hr.1 hr.2] at he
      split at he
      · rename_i hab; cases he; rw [hab.2]; exact hd
      · exact h.edge_dst a b dep he
  · have : (st.addDependency src dst d).1 = st := by
      by_cases h1 : (st.addDependency src dst d).2 = .ok
      · have he : st.g.HasEdge src dst := Classical.not_not.mp (fun hh => hr ⟨h1, hh⟩)
        rw [addDependency_of_edge h _ _ _ he]
      · exact addDependency_fst_of_ne_ok _ _ _ h1
    rw [this]; exact h

theorem containsTransitive_addDependency_mono (h : st.WF) {src dst : Nat} {d : Dep}
    (hs : ∃ t, st.taskOf src = some t) (hd : st.DepOK d dst) {a b : Nat}
    (hr : st.containsTransitive a b = true) :
    (st.addDependency src dst d).1.containsTransitive a b = true := by
  rw [(h.addDependency hs hd).containsTransitive_iff]
  exact reach_addDependency_mono h _ _ _ ((h.containsTransitive_iff a b).mp hr)

/-! ### `setDependency`

`some` iff the edge exists; replaces exactly that edge's data in place. -/

theorem setDependency_of_edge {src dst : Nat} {d0 : Dep} (he : st.g.getEdgeData src dst = some d0)
    (d : Dep) : st.setDependency src dst d = some { st with g := st.g.setEdgeData src dst d } := by
  simp [setDependency, he]

theorem setDependency_of_not_edge {src dst : Nat} (he : st.g.getEdgeData src dst = none) (d : Dep) :
    st.setDependency src dst d = none := by
  simp [setDependency, he]

theorem setDependency_isSome (st : Store) (src dst : Nat) (d : Dep) :
    (st.setDependency src dst d).isSome = (st.g.getEdgeData src dst).isSome := by
  cases he : st.g.getEdgeData src dst with
  | none => rw [setDependency_of_not_edge he]; rfl
  | some d0 => rw [setDependency_of_edge he]; rfl

/-- `some` iff the edge exists. -/
theorem setDependency_isSome_iff (h : st.WF) (src dst : Nat) (d : Dep) :
    (st.setDependency src dst d).isSome = true ↔ st.g.HasEdge src dst := by
  rw [setDependency_isSome, Dag.getEdgeData_isSome_iff h.gwf]

theorem setDependency_eq_none_iff (st : Store) (src dst : Nat) (d : Dep) :
    st.setDependency src dst d = none ↔ st.g.getEdgeData src dst = none := by
  have := setDependency_isSome st src dst d
  cases h1 : st.setDependency src dst d <;> cases h2 : st.g.getEdgeData src dst <;> simp_all

section SetDep
variable {src dst : Nat} {d : Dep} {st' : Store} (hs : st.setDependency src dst d = some st')
include hs

theorem setDependency_eq_some :
    (∃ d0, st.g.getEdgeData src dst = some d0) ∧ st' = { st with g := st.g.setEdgeData src dst d } := by
  cases he : st.g.getEdgeData src dst with
  | none => rw [setDependency_of_not_edge he] at hs; cases hs
  | some d0 => rw [setDependency_of_edge he] at hs; exact ⟨⟨d0, rfl⟩, (Option.some.inj hs).symm⟩

theorem taskNode_setDependency : st'.taskNode = st.taskNode := by
  rw [(setDependency_eq_some hs).2]

theorem resNode_setDependency : st'.resNode = st.resNode := by
  rw [(setDependency_eq_some hs).2]

theorem g_setDependency : st'.g = st.g.setEdgeData src dst d := by
  rw [(setDependency_eq_some hs).2]

theorem getNodeData_setDependency (x : Nat) : st'.g.getNodeData x = st.g.getNodeData x := by
  rw [g_setDependency hs]; rfl

theorem taskOf_setDependency (x : Nat) : st'.taskOf x = st.taskOf x :=
  taskOf_congr (getNodeData_setDependency hs x)

theorem resOf_setDependency (x : Nat) : st'.resOf x = st.resOf x :=
  resOf_congr (getNodeData_setDependency hs x)

theorem taskOutput_setDependency (x : Nat) : st'.taskOutput x = st.taskOutput x :=
  taskOutput_congr (getNodeData_setDependency hs x)

theorem containsNode_setDependency (x : Nat) : st'.g.containsNode x = st.g.containsNode x := by
  rw [g_setDependency hs]; rfl

theorem childrenOf_setDependency (x : Nat) : st'.g.childrenOf x = st.g.childrenOf x := by
  rw [g_setDependency hs]; rfl

theorem parentsOf_setDependency (x : Nat) : st'.g.parentsOf x = st.g.parentsOf x := by
  rw [g_setDependency hs]; rfl

theorem topoOf_setDependency (x : Nat) : st'.g.topoOf x = st.g.topoOf x := by
  rw [g_setDependency hs]; rfl

theorem reach_setDependency (a b : Nat) : st'.g.Reach a b ↔ st.g.Reach a b :=
  Dag.reach_congr (childrenOf_setDependency hs) a b

/-- Exactly the data of the edge `src → dst` is replaced. -/
theorem getEdgeData_setDependency (a b : Nat) :
    st'.g.getEdgeData a b = if a = src ∧ b = dst then some d else st.g.getEdgeData a b := by
  obtain ⟨⟨d0, hd0⟩, _⟩ := setDependency_eq_some hs
  rw [g_setDependency hs, Dag.getEdgeData_setEdgeData]
  simp [hd0]

/-- The dependency keeps its position in the outgoing edges of `src`. -/
theorem outgoingEdges_setDependency (x : Nat) :
    st'.g.outgoingEdges x =
      if x = src then (st.g.outgoingEdges x).map (fun p => if p.1 = dst then (p.1, d) else p)
      else st.g.outgoingEdges x := by
  rw [g_setDependency hs]; exact Dag.outgoingEdges_setEdgeData _ _ _ _ x

/-- ... and in the incoming edges of `dst`. -/
theorem incomingEdges_setDependency (x : Nat) :
    st'.g.incomingEdges x =
      if x = dst then (st.g.incomingEdges x).map (fun p => if p.1 = src then (p.1, d) else p)
      else st.g.incomingEdges x := by
  rw [g_setDependency hs]; exact Dag.incomingEdges_setEdgeData _ _ _ _ x

theorem outgoingEdges_setDependency_of_ne {x : Nat} (hx : x ≠ src) :
    st'.g.outgoingEdges x = st.g.outgoingEdges x := by
  rw [outgoingEdges_setDependency hs, if_neg hx]

theorem incomingEdges_setDependency_of_ne {x : Nat} (hx : x ≠ dst) :
    st'.g.incomingEdges x = st.g.incomingEdges x := by
  rw [incomingEdges_setDependency hs, if_neg hx]

/-- The dependency list of `src` has `d` at the position of the old dependency to `dst`. -/
theorem depsFrom_setDependency (x : Nat) :
    st'.depsFrom x =
      if x = src then (st.g.outgoingEdges x).map (fun p => if p.1 = dst then d else p.2)
      else st.depsFrom x := by
  simp only [depsFrom, Dag.outgoingEdgeData, outgoingEdges_setDependency hs]
  by_cases hx : x = src
  · simp only [hx, if_true, List.map_map]
    apply List.map_congr_left
    intro p _
    by_cases hp : p.1 = dst <;> simp [hp]
  · simp [hx]

theorem depsFrom_setDependency_of_ne {x : Nat} (hx : x ≠ src) : st'.depsFrom x = st.depsFrom x := by
  rw [depsFrom_setDependency hs, if_neg hx]

theorem depsFrom_setDependency_length (x : Nat) :
    (st'.depsFrom x).length = (st.depsFrom x).length := by
  rw [depsFrom_setDependency hs]
  by_cases hx : x = src <;> simp [hx, depsFrom, Dag.outgoingEdgeData]

/-- All incoming-edge observations of nodes other than `dst` are unchanged. -/
theorem incoming_obs_setDependency_of_ne {x : Nat} (hx : x ≠ dst) :
    st'.tasksReadingFrom x = st.tasksReadingFrom x ∧ st'.writersTo x = st.writersTo x ∧
    st'.taskWritingTo x = st.taskWritingTo x ∧ st'.readDepsTo x = st.readDepsTo x ∧
    st'.readWriteDepsTo x = st.readWriteDepsTo x ∧ st'.requireDepsTo x = st.requireDepsTo x :=
  incoming_obs_congr (incomingEdges_setDependency_of_ne hs hx)

/-- All outgoing-edge observations of nodes other than `src` are unchanged. -/
theorem outgoing_obs_setDependency_of_ne {x : Nat} (hx : x ≠ src) :
    st'.depsFrom x = st.depsFrom x ∧ st'.resourcesWrittenBy x = st.resourcesWrittenBy x :=
  outgoing_obs_congr (outgoingEdges_setDependency_of_ne hs hx)

theorem inv_setDependency (h : st.g.Inv) : st'.g.Inv := by
  rw [g_setDependency hs]; exact Dag.inv_setEdgeData h _ _ _

/-- Side condition: the new `d` has the right kind/target for `dst`. -/
theorem WF.setDependency (h : st.WF) (hd : st.DepOK d dst) : st'.WF := by
  refine h.transfer (inv_setDependency hs h.inv) (taskNode_setDependency hs)
    (resNode_setDependency hs) (fun x => ⟨taskOf_setDependency hs x, resOf_setDependency hs x⟩) ?_ ?_
  · intro a b dep he
    rw [getEdgeData_setDependency hs] at he
    split at he
    · rename_i hab
      obtain ⟨⟨d0, hd0⟩, _⟩ := setDependency_eq_some hs
      rw [hab.1]; exact h.edge_src src dst d0 hd0
    · exact h.edge_src a b dep he
  · intro a b dep he
    rw [getEdgeData_setDependency hs] at he
    split at he
    · rename_i hab; cases he; rw [hab.2]; exact hd
    · exact h.edge_dst a b dep he

theorem containsTransitive_setDependency (h : st.WF) (hd : st.DepOK d dst) (a b : Nat) :
    st'.containsTransitive a b = st.containsTransitive a b := by
  rw [Bool.eq_iff_iff, (WF.setDependency hs h hd).containsTransitive_iff, h.containsTransitive_iff]
  exact reach_setDependency hs a b

end SetDep

end Store
end PieModel
