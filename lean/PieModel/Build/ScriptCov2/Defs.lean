/-
The Boolean test of ALL hypotheses of C01 in full for TRANSITIVE static roles (`Props/C01Trans.lean`)
on script tables: DEFINITIONS only (plain structural recursion; imports only the definitions-only
files of the cover test and of the direct checkers), so that the compiled driver can run the test
on every generated case.  Soundness and the corollaries: `Props/ScriptCov2.lean`.
-/
import PieModel.Build.ScriptCov.Defs

namespace PieModel

namespace ScriptCov2

/-- The per-script part of the test that does not depend on the roles: one checker per dependency
target on every path, exact checker ids at `write`/`wrote` nodes. -/
def ckScriptB (s : Script) : Bool := s.oneCheckerB && s.writeExactB

end ScriptCov2

/-- **The test of the hypotheses of C01 in full for transitive static roles**: the table respects
its roles-with-covers `covRolesRecOf tbl` (`Table.covB`: the roles are computed once, then one
structural pass over every script), and every script has one checker per dependency target and
exact checker ids at its write nodes (one more structural pass; `Respects` holds of every compiled
script). -/
def Table.wfCovB (tbl : Table) : Bool :=
  tbl.covB && tbl.allB fun _ s => ScriptCov2.ckScriptB s

end PieModel
