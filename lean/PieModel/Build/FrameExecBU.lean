/-
Frame lemma for nested calls, bottom-up context (see `FrameExec.lean`): a returning call of
`buRequire`/`buMake`/`buExec`/`buExecAndSchedule`/`buRequireNow`/`buRun` during which no execution
of task `tn` starts leaves the outgoing edges of the node of `tn` untouched, unless that node is
the current frame of `buRequire`/`buRun`.
-/
import PieModel.Build.FrameExec
import PieModel.Build.SessWFBottomUp
import PieModel.Build.Proofs.BottomUpExt

namespace PieModel
open Sess SessL

variable (sem : Sem) (body : Nat → Prog)

/-! ### scheduling does not touch the store -/

theorem store_trySchedule (s : Sess) (tnode : Nat) (d : Dep) :
    (trySchedule sem s tnode d).store = s.store := by
  cases ht : s.store.taskOf tnode with
  | none => rw [trySchedule_other sem s tnode d (.inl ht)]
  | some t =>
    cases d with
    | reserved => rw [trySchedule_other sem s tnode _ (.inr (.inl rfl))]
    | require t' c stamp => rw [trySchedule_other sem s tnode _ (.inr (.inr ⟨_, _, _, rfl⟩))]
    | read r c stamp => rw [trySchedule_read sem s tnode t r c stamp ht]; split <;> rfl
    | write r c stamp => rw [trySchedule_write sem s tnode t r c stamp ht]; split <;> rfl

theorem store_foldl {α : Type} (g : Sess → α → Sess) (hg : ∀ (s : Sess) x, (g s x).store = s.store)
    (l : List α) (s : Sess) : (l.foldl g s).store = s.store := by
  induction l generalizing s with
  | nil => rfl
  | cons x l ih => exact (ih _).trans (hg s x)

theorem store_writtenSchedStep (s : Sess) (w : Nat) : (writtenSchedStep sem s w).store = s.store := by
  unfold writtenSchedStep
  split
  · rfl
  · simp only [emit_store]
    exact store_foldl _ (fun s (p : Nat × Dep) => store_trySchedule sem s p.1 p.2) _ _

theorem store_reqSchedStep (out : Int) (s : Sess) (p : Nat × Dep) :
    (reqSchedStep sem out s p).store = s.store := by
  unfold reqSchedStep
  split
  · simp only; split <;> rfl
  · rfl

theorem store_scheduleAfterExec (s : Sess) (node t : Nat) (out : Int) :
    (scheduleAfterExec sem s node t out).store = s.store := by
  rw [scheduleAfterExec_eq]
  simp only [markConsistent_store, emit_store]
  rw [store_foldl _ (store_reqSchedStep sem out)]
  simp only [emit_store]
  rw [store_foldl _ (store_writtenSchedStep sem)]

/-! ### the joint statement -/

structure BuFrame (node tn : Nat) (f : Nat) : Prop where
  require : ∀ s t c s' o, SessWF s → s.store.taskOf node = some tn → s.cur ≠ some node →
    buRequire sem body f s t c = (s', .ok o) → KNoExec tn s s' → OutEq node s s'
  make : ∀ s t n s' o, SessWF s → s.store.taskOf node = some tn → s.store.taskOf n = some t →
    buMake sem body f s t n = (s', .ok o) → KNoExec tn s s' → OutEq node s s'
  exec : ∀ s t n s' o, SessWF s → s.store.taskOf node = some tn → s.store.taskOf n = some t →
    buExec sem body f s t n = (s', .ok o) → KNoExec tn s s' → OutEq node s s'
  execAndSchedule : ∀ s n s' o, SessWF s → s.store.taskOf node = some tn →
    buExecAndSchedule sem body f s n = (s', .ok o) → KNoExec tn s s' → OutEq node s s'
  requireNow : ∀ s src s' o, SessWF s → s.store.taskOf node = some tn →
    buRequireNow sem body f s src = (s', .ok o) → KNoExec tn s s' → OutEq node s s'
  run : ∀ s p s' o, SessWF s → s.store.taskOf node = some tn → s.cur ≠ some node →
    buRun sem body f s p = (s', .ok o) → KNoExec tn s s' → OutEq node s s'

variable {sem body}

theorem buFrame_zero (node tn : Nat) : BuFrame sem body node tn 0 := by
  refine ⟨?_, ?_, ?_, ?_, ?_, ?_⟩ <;> intros <;> rename_i h _ <;>
    simp only [buRequire, buMake, buExec, buExecAndSchedule, buRequireNow, buRun] at h <;> cases h

section Steps
variable {node tn f : Nat} (ih : BuFrame sem body node tn f)
include ih

theorem buRequire_frame (s : Sess) (t c : Nat) (s' : Sess) (o : Int) (h : SessWF s)
    (hn : s.store.taskOf node = some tn) (hne : s.cur ≠ some node)
    (hr : buRequire sem body (f + 1) s t c = (s', .ok o)) (hx : KNoExec tn s s') :
    OutEq node s s' := by
  simp only [buRequire] at hr
  split at hr
  · cases hr
  · rename_i s₁ heq
    split at hr
    · cases hr
    · rename_i s₂ out heq₂
      split at hr
      · cases hr
      · rename_i s₃ heq₃
        have hs : s₃.markConsistent ((s.emit (.requireStart t c)).store.getOrCreateTaskNode t).2 = s' := by
          cases hr; rfl
        have ho : out = o := by cases hr; rfl
        subst ho
        have l0 := (Lk.emit h (.requireStart t c)).trans (Lk.getTask (h.emit _) t)
        have hd := Store.taskOf_getOrCreateTaskNode_self (h.emit (.requireStart t c)).store t
        have l1 : Lk _ s₁ := Lk.of_call (reserveRequire_ext l0.wf ⟨t, hd⟩) (ext_reserveRequire _ _) heq
        have hd1 := l1.task hd
        have l2 : Lk s₁ s₂ := Lk.of_call (buMake_ext sem body f l1.wf t ⟨t, hd1⟩)
          (ext_buMake sem body f _ _ _) heq₂
        have l2' := Lk.emit l2.wf (.requireEnd t c (sem.ostamp c out) out)
        have hd3 := (l1.trans (l2.trans l2')).task hd
        have l3 : Lk _ s₃ := Lk.of_call (updateRequire_ext l2'.wf c (sem.ostamp c out) hd3)
          (ext_updateRequire _ _ _ _ _) heq₃
        have tail : TrPre s₃ s' := by rw [← hs]; exact TrPre.of_eq (by simp)
        have c1 : s₁.cur = _ := cur_of_fst (cur_reserveRequire _ _) heq
        have c2 : s₂.cur = s₁.cur := cur_buMake sem body heq₂
        have o0 : OutEq node s _ := outEq_getTask (h.emit (.requireStart t c)) node t
        have o1 : OutEq node _ s₁ := (outEq_reserveRequire l0.wf (node := node) hne _).out heq
        have o2 : OutEq node s₁ s₂ := ih.make s₁ t _ s₂ out l1.wf ((l0.trans l1).task hn) hd1 heq₂
          (hx.mid (l0.trans l1).tr l2.tr ((l2'.trans l3).tr.trans tail))
        have o3 : OutEq node (s₂.emit (.requireEnd t c (sem.ostamp c out) out)) s₃ :=
          (outEq_updateRequire (node := node) (by simp only [emit_cur]; rw [c2, c1]; exact hne)
            _ _ _ _).out heq₃
        have o4 : OutEq node s₃ s' := by rw [← hs]; exact OutEq.of_store (by simp)
        exact o0.trans (o1.trans (o2.trans (o3.trans o4)))

theorem buMake_frame (s : Sess) (t n : Nat) (s' : Sess) (o : Int) (h : SessWF s)
    (hn : s.store.taskOf node = some tn) (ht : s.store.taskOf n = some t)
    (hr : buMake sem body (f + 1) s t n = (s', .ok o)) (hx : KNoExec tn s s') :
    OutEq node s s' := by
  simp only [buMake] at hr
  split at hr
  · split at hr
    · cases hr; exact OutEq.refl _ _
    · cases hr
  · split at hr
    · exact ih.exec s t n s' o h hn ht hr hx
    · split at hr
      · cases hr
      · rename_i s₁ o' heq
        cases hr
        exact ih.requireNow _ _ _ _ h hn heq hx
      · rename_i s₁ heq
        split at hr
        · cases hr; exact ih.requireNow _ _ _ _ h hn heq hx
        · cases hr

theorem buExec_frame (s : Sess) (t n : Nat) (s' : Sess) (o : Int) (h : SessWF s)
    (hn : s.store.taskOf node = some tn) (ht : s.store.taskOf n = some t)
    (hr : buExec sem body (f + 1) s t n = (s', .ok o)) (hx : KNoExec tn s s') :
    OutEq node s s' := by
  simp only [buExec] at hr
  split at hr
  · cases hr
  · rename_i s₂ o' heq₂
    have l2 := Lk.startExec h ht
    have l2' := Lk.emit l2.wf (.executeStart t)
    have l3 : Lk _ s₂ := Lk.of_call (buRun_ext sem body f l2'.wf _) (ext_buRun sem body f _ _) heq₂
    have tail : TrPre s₂ s' := by cases hr; exact ⟨[.executeEnd t o], by simp⟩
    have hne : t ≠ tn := (hx.mid l2.tr l2'.tr (l3.tr.trans tail)).ne_of_emit
    have hnode : node ≠ n := by
      intro hh
      rw [hh, ht] at hn
      exact hne (Option.some.inj hn)
    have o2 : OutEq node s { s with store := s.store.resetTask n, cur := some n } := by
      show (s.store.resetTask _).g.outgoingEdges node = _
      rw [Store.outgoingEdges_resetTask h.store, if_neg hnode]
    have o3 := ih.run _ _ s₂ _ l2'.wf ((l2.trans l2').task hn)
      (by simp only [emit_cur]; intro hh; exact hnode (Option.some.inj hh).symm) heq₂
      (hx.mid (l2.trans l2').tr l3.tr tail)
    have o4 : OutEq node s₂ s' := by
      cases hr
      unfold OutEq
      simp
    exact (o2.trans (OutEq.of_store rfl)).trans (o3.trans o4)

theorem buExecAndSchedule_frame (s : Sess) (n : Nat) (s' : Sess) (o : Int) (h : SessWF s)
    (hn : s.store.taskOf node = some tn)
    (hr : buExecAndSchedule sem body (f + 1) s n = (s', .ok o)) (hx : KNoExec tn s s') :
    OutEq node s s' := by
  simp only [buExecAndSchedule] at hr
  split at hr
  · cases hr
  · rename_i t ht
    split at hr
    · cases hr
    · rename_i s₁ o' heq
      have l1 : Lk s s₁ := Lk.of_call (buExec_ext sem body f h t ⟨t, ht⟩) (ext_buExec sem body f _ _ _) heq
      have hs : scheduleAfterExec sem s₁ n t o' = s' := by cases hr; rfl
      have tail : TrPre s₁ s' := by rw [← hs]; exact TrPre.of_ext (ext_scheduleAfterExec sem _ _ _ _)
      have o1 := ih.exec s t n s₁ o' h hn ht heq (hx.mid (TrPre.refl _) l1.tr tail)
      have o2 : OutEq node s₁ s' := by rw [← hs]; exact OutEq.of_store (store_scheduleAfterExec sem _ _ _ _)
      exact o1.trans o2

theorem buRequireNow_frame (s : Sess) (src : Nat) (s' : Sess) (o : Option Int) (h : SessWF s)
    (hn : s.store.taskOf node = some tn)
    (hr : buRequireNow sem body (f + 1) s src = (s', .ok o)) (hx : KNoExec tn s s') :
    OutEq node s s' := by
  simp only [buRequireNow] at hr
  split at hr
  · cases hr; exact OutEq.refl _ _
  · split at hr
    · cases hr; exact OutEq.refl _ _
    · rename_i m q hq
      have l0 : Lk s { s with queue := q } :=
        ⟨h.subQueue (fun _ hm => queuePopLeastFrom_rest_subset hq hm), TrPre.of_eq rfl⟩
      split at hr
      · cases hr
      · rename_i s₁ o' heq
        have l1 : Lk _ s₁ := Lk.of_call (buExecAndSchedule_ext sem body f l0.wf m)
          (ext_buExecAndSchedule sem body f _ _) heq
        split at hr
        · have hs : s₁ = s' := by cases hr; rfl
          subst hs
          have o1 : OutEq node { s with queue := q } s₁ :=
            ih.execAndSchedule _ _ _ _ l0.wf (l0.task hn) heq (hx.mid l0.tr l1.tr (TrPre.refl _))
          exact (OutEq.of_store rfl).trans o1
        · have l2 : Lk s₁ s' := Lk.of_call (buRequireNow_ext sem body f l1.wf src)
            (ext_buRequireNow sem body f _ _) hr
          have o1 : OutEq node { s with queue := q } s₁ :=
            ih.execAndSchedule _ _ _ _ l0.wf (l0.task hn) heq (hx.mid l0.tr l1.tr l2.tr)
          have o2 := ih.requireNow _ _ _ _ l1.wf ((l0.trans l1).task hn) hr
            (hx.mid (l0.trans l1).tr l2.tr (TrPre.refl _))
          exact (OutEq.of_store rfl).trans (o1.trans o2)

theorem buRun_frame (s : Sess) (p : Prog) (s' : Sess) (o : Int) (h : SessWF s)
    (hn : s.store.taskOf node = some tn) (hne : s.cur ≠ some node)
    (hr : buRun sem body (f + 1) s p = (s', .ok o)) (hx : KNoExec tn s s') :
    OutEq node s s' := by
  cases p with
  | ret v => simp only [buRun] at hr; cases hr; exact OutEq.refl _ _
  | panic => simp only [buRun] at hr; cases hr
  | req t c k =>
    simp only [buRun] at hr
    split at hr
    · cases hr
    · rename_i s₁ out heq
      have l1 : Lk s s₁ := Lk.of_call (buRequire_ext sem body f h t c) (ext_buRequire sem body f _ _ _) heq
      have l2 : Lk s₁ s' := Lk.of_call (buRun_ext sem body f l1.wf _) (ext_buRun sem body f _ _) hr
      have c1 : s₁.cur = s.cur := cur_buRequire sem body heq
      exact (ih.require _ _ _ _ _ h hn hne heq (hx.mid (TrPre.refl _) l1.tr l2.tr)).trans
        (ih.run _ _ _ _ l1.wf (l1.task hn) (by rw [c1]; exact hne) hr
          (hx.mid l1.tr l2.tr (TrPre.refl _)))
  | read r c k =>
    simp only [buRun] at hr
    split at hr
    · cases hr
    · rename_i s₁ x heq
      have l1 : Lk s s₁ := Lk.of_call (doRead_ext sem h r c) (ext_doRead sem _ _ _) heq
      have l2 : Lk s₁ s' := Lk.of_call (buRun_ext sem body f l1.wf _) (ext_buRun sem body f _ _) hr
      have c1 : s₁.cur = s.cur := cur_of_fst (cur_doRead sem _ _ _) heq
      exact ((outEq_doRead sem h hne r c).out heq).trans
        (ih.run _ _ _ _ l1.wf (l1.task hn) (by rw [c1]; exact hne) hr
          (hx.mid l1.tr l2.tr (TrPre.refl _)))
  | write r c v k =>
    simp only [buRun] at hr
    split at hr
    · cases hr
    · rename_i s₁ x heq
      have l1 : Lk s s₁ := Lk.of_call (doWrite_ext sem h r c v) (ext_doWrite sem _ _ _ _) heq
      have l2 : Lk s₁ s' := Lk.of_call (buRun_ext sem body f l1.wf _) (ext_buRun sem body f _ _) hr
      have c1 : s₁.cur = s.cur := cur_of_fst (cur_doWrite sem _ _ _ _) heq
      exact ((outEq_doWrite sem h hne r c v).out heq).trans
        (ih.run _ _ _ _ l1.wf (l1.task hn) (by rw [c1]; exact hne) hr
          (hx.mid l1.tr l2.tr (TrPre.refl _)))
  | wrote r c v k =>
    simp only [buRun] at hr
    split at hr
    · cases hr
    · rename_i s₁ x heq
      have l1 : Lk s s₁ := Lk.of_call (doWrote_ext sem h r c v) (ext_doWrote sem _ _ _ _) heq
      have l2 : Lk s₁ s' := Lk.of_call (buRun_ext sem body f l1.wf _) (ext_buRun sem body f _ _) hr
      have c1 : s₁.cur = s.cur := cur_of_fst (cur_doWrote sem _ _ _ _) heq
      exact ((outEq_doWrote sem h hne r c v).out heq).trans
        (ih.run _ _ _ _ l1.wf (l1.task hn) (by rw [c1]; exact hne) hr
          (hx.mid l1.tr l2.tr (TrPre.refl _)))

end Steps

theorem buFrame (node tn : Nat) (f : Nat) : BuFrame sem body node tn f := by
  induction f with
  | zero => exact buFrame_zero node tn
  | succ f ih =>
    exact ⟨buRequire_frame ih, buMake_frame ih, buExec_frame ih, buExecAndSchedule_frame ih,
      buRequireNow_frame ih, buRun_frame ih⟩

end PieModel
