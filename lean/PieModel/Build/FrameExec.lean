/-
Frame lemma for nested calls (top-down): a call that returns and during which no execution of
task `tn` starts (no `executeStart tn` event: `KNoExec tn s s'`) leaves the outgoing edges of the
node of `tn` untouched — unless that node is the current frame (`s.cur = some node`), in which
case only the session primitives of `tdRequire`/`tdRun` themselves add to them.

This is the link between the stack discipline "no task is executed while it is the current frame
of an enclosing execution" and the store: the only operations that change `outgoingEdges node`
are `resetTask node` (followed by `executeStart tn`) and dependency declarations with
`cur = some node`.
-/
import PieModel.Build.SessWFTopDown
import PieModel.Build.PrimSteps
import PieModel.Build.Proofs.TopDownExt
import PieModel.Build.Proofs.CurLemmas

namespace PieModel
open Sess SessL

/-- The trace of `s'` extends the trace of `s`. -/
def TrPre (s s' : Sess) : Prop := ∃ evs, s'.trace = s.trace ++ evs

namespace TrPre
variable {s s' s'' : Sess}
theorem refl (s : Sess) : TrPre s s := ⟨[], by simp⟩
theorem trans (h₁ : TrPre s s') (h₂ : TrPre s' s'') : TrPre s s'' := by
  obtain ⟨e₁, h₁⟩ := h₁; obtain ⟨e₂, h₂⟩ := h₂
  exact ⟨e₁ ++ e₂, by rw [h₂, h₁, List.append_assoc]⟩
theorem of_ext (h : s.Ext s') : TrPre s s' := h.trace_prefix
theorem of_eq (h : s'.trace = s.trace) : TrPre s s' := ⟨[], by simp [h]⟩
theorem emit (s : Sess) (e : Ev) : TrPre s (s.emit e) := ⟨[e], rfl⟩
end TrPre

/-- No execution of task `tn` starts between `s` and `s'`. -/
def KNoExec (tn : Nat) (s s' : Sess) : Prop :=
  ∀ evs, s'.trace = s.trace ++ evs → Ev.executeStart tn ∉ evs

/-- Restriction to a sub-interval. -/
theorem KNoExec.mid {tn : Nat} {s a b s' : Sess} (h : KNoExec tn s s') (h1 : TrPre s a)
    (h2 : TrPre a b) (h3 : TrPre b s') : KNoExec tn a b := by
  obtain ⟨e1, h1⟩ := h1; obtain ⟨e2, h2⟩ := h2; obtain ⟨e3, h3⟩ := h3
  intro evs he hm
  rw [h2] at he
  have : evs = e2 := (List.append_cancel_left he).symm
  subst this
  refine h (e1 ++ evs ++ e3) ?_ (by simp [hm])
  rw [h3, h2, h1]; simp

theorem KNoExec.ne_of_emit {tn t : Nat} {a : Sess} (h : KNoExec tn a (a.emit (.executeStart t))) :
    t ≠ tn := by
  rintro rfl
  exact h [.executeStart t] rfl (by simp)

/-- A link of the run: well-formed extension, trace extension. -/
structure Lk (s s' : Sess) : Prop where
  ext : Ext s s'
  tr : TrPre s s'

namespace Lk
variable {s s' s'' : Sess}
theorem wf (l : Lk s s') : SessWF s' := l.ext.wf
theorem refl (h : SessWF s) : Lk s s := ⟨Ext.refl h, TrPre.refl s⟩
theorem trans (h₁ : Lk s s') (h₂ : Lk s' s'') : Lk s s'' := ⟨h₁.ext.trans h₂.ext, h₁.tr.trans h₂.tr⟩
theorem task (l : Lk s s') {n t : Nat} (h : s.store.taskOf n = some t) :
    s'.store.taskOf n = some t := l.ext.le.task n t h
theorem emit (h : SessWF s) (e : Ev) : Lk s (s.emit e) := ⟨(Ext.refl h).emit e, TrPre.emit s e⟩
theorem getTask (h : SessWF s) (t : Nat) :
    Lk s { s with store := (s.store.getOrCreateTaskNode t).1 } := ⟨h.getTask t, TrPre.of_eq rfl⟩
theorem startExec (h : SessWF s) {node t : Nat} (hn : s.store.taskOf node = some t) :
    Lk s { s with store := s.store.resetTask node, cur := some node } :=
  ⟨h.startExec hn, TrPre.of_eq rfl⟩
/-- From the two facts about the first component of a call. -/
theorem of_call {α : Type} {F : Sess × α} {r : α} (e : Ext s F.1) (x : s.Ext F.1)
    (heq : F = (s', r)) : Lk s s' := ⟨e.out heq, TrPre.of_ext (x.of_fst heq)⟩
end Lk

/-- The outgoing edges of `node` are the same in `s'` as in `s`. -/
def OutEq (node : Nat) (s s' : Sess) : Prop :=
  s'.store.g.outgoingEdges node = s.store.g.outgoingEdges node

theorem OutEq.refl (node : Nat) (s : Sess) : OutEq node s s := rfl
theorem OutEq.trans {node : Nat} {s s' s'' : Sess} (h₁ : OutEq node s s') (h₂ : OutEq node s' s'') :
    OutEq node s s'' := Eq.trans h₂ h₁
theorem OutEq.of_store {node : Nat} {s s' : Sess} (h : s'.store = s.store) : OutEq node s s' := by
  unfold OutEq; rw [h]

variable (sem : Sem) (body : Nat → Prog)

/-! ### primitives with `cur ≠ some node` -/

theorem outEq_getTask {s : Sess} (h : SessWF s) (node t : Nat) :
    OutEq node s { s with store := (s.store.getOrCreateTaskNode t).1 } :=
  Store.outgoingEdges_getOrCreateTaskNode h.store t node

theorem outEq_reserveRequire {s : Sess} (h : SessWF s) {node : Nat} (hne : s.cur ≠ some node)
    (dst : Nat) : OutEq node s (reserveRequire s dst).1 := by
  cases hc : s.cur with
  | none => unfold reserveRequire; rw [hc]; exact OutEq.refl _ _
  | some src =>
    rcases reserveRequire_cases hc dst with ⟨h1, _⟩ | ⟨_, h1, _⟩ <;> rw [h1]
    · exact OutEq.refl _ _
    · exact Store.outgoingEdges_addDependency_of_ne h.store src dst _
        (fun hx => hne (by rw [hc, hx]))

theorem outEq_updateRequire {s : Sess} {node : Nat} (hne : s.cur ≠ some node)
    (dst t c : Nat) (stamp : Stamp) : OutEq node s (updateRequire s dst t c stamp).1 := by
  cases hc : s.cur with
  | none => unfold updateRequire; rw [hc]; exact OutEq.refl _ _
  | some src =>
    rcases updateRequire_cases hc dst t c stamp with ⟨h1, _⟩ | ⟨st', hs, h1, _⟩ <;> rw [h1]
    · exact OutEq.refl _ _
    · exact Store.outgoingEdges_setDependency_of_ne hs (fun hx => hne (by rw [hc, hx]))

theorem outEq_doRead {s : Sess} (h : SessWF s) {node : Nat} (hne : s.cur ≠ some node)
    (r c : Nat) : OutEq node s (doRead sem s r c).1 := by
  cases hc : s.cur with
  | none => rw [doRead_store_none sem hc]; exact OutEq.refl _ _
  | some cur =>
    have h1 := h.store.getOrCreateResNode r
    have o1 : (s.store.getOrCreateResNode r).1.g.outgoingEdges node = s.store.g.outgoingEdges node :=
      Store.outgoingEdges_getOrCreateResNode h.store r node
    unfold OutEq
    rcases doRead_store sem hc r c with he | ⟨stamp, he⟩ <;> rw [he]
    · exact o1
    · rw [Store.outgoingEdges_addDependency_of_ne h1 _ _ _ (fun hx => hne (by rw [hc, hx]))]
      exact o1

theorem outEq_doWrite {s : Sess} (h : SessWF s) {node : Nat} (hne : s.cur ≠ some node)
    (r c : Nat) (v : Option Int) : OutEq node s (doWrite sem s r c v).1 := by
  cases hc : s.cur with
  | none => rw [doWrite_store_none sem hc]; exact OutEq.of_store (by simp)
  | some cur =>
    have h1 := h.store.getOrCreateResNode r
    have o1 : (s.store.getOrCreateResNode r).1.g.outgoingEdges node = s.store.g.outgoingEdges node :=
      Store.outgoingEdges_getOrCreateResNode h.store r node
    unfold OutEq
    rcases doWrite_store sem hc r c v with he | ⟨stamp, he⟩ <;> rw [he]
    · exact o1
    · rw [Store.outgoingEdges_addDependency_of_ne h1 _ _ _ (fun hx => hne (by rw [hc, hx]))]
      exact o1

theorem outEq_doWrote {s : Sess} (h : SessWF s) {node : Nat} (hne : s.cur ≠ some node)
    (r c : Nat) (v : Option Int) : OutEq node s (doWrote sem s r c v).1 := by
  cases hc : s.cur with
  | none => rw [doWrote_store_none sem hc]; exact OutEq.of_store (by simp)
  | some cur =>
    have h1 := h.store.getOrCreateResNode r
    have o1 : (s.store.getOrCreateResNode r).1.g.outgoingEdges node = s.store.g.outgoingEdges node :=
      Store.outgoingEdges_getOrCreateResNode h.store r node
    unfold OutEq
    rcases doWrote_store sem hc r c v with he | ⟨stamp, he⟩ <;> rw [he]
    · exact o1
    · rw [Store.outgoingEdges_addDependency_of_ne h1 _ _ _ (fun hx => hne (by rw [hc, hx]))]
      exact o1

theorem OutEq.out {α : Type} {node : Nat} {s s' : Sess} {F : Sess × α} {r : α}
    (e : OutEq node s F.1) (heq : F = (s', r)) : OutEq node s s' := by rw [heq] at e; exact e

/-! ### the joint statement -/

/-- For fuel `f`: returning calls without `executeStart tn` keep `outgoingEdges node`
(`taskOf node = some tn`).  `tdMake`, `tdCheck`, `tdCheckDeps` never declare dependencies of the
current frame themselves, so the statement holds whatever `cur` is. -/
structure TdFrame (node tn : Nat) (f : Nat) : Prop where
  require : ∀ s t c s' o, SessWF s → s.store.taskOf node = some tn → s.cur ≠ some node →
    tdRequire sem body f s t c = (s', .ok o) → KNoExec tn s s' → OutEq node s s'
  make : ∀ s t s' o, SessWF s → s.store.taskOf node = some tn →
    tdMake sem body f s t = (s', .ok o) → KNoExec tn s s' → OutEq node s s'
  check : ∀ s n s' o, SessWF s → s.store.taskOf node = some tn →
    tdCheck sem body f s n = (s', .ok o) → KNoExec tn s s' → OutEq node s s'
  checkDeps : ∀ s ds s' b, SessWF s → s.store.taskOf node = some tn →
    tdCheckDeps sem body f s ds = (s', .ok b) → KNoExec tn s s' → OutEq node s s'
  run : ∀ s p s' o, SessWF s → s.store.taskOf node = some tn → s.cur ≠ some node →
    tdRun sem body f s p = (s', .ok o) → KNoExec tn s s' → OutEq node s s'

variable {sem body}

theorem tdFrame_zero (node tn : Nat) : TdFrame sem body node tn 0 := by
  refine ⟨?_, ?_, ?_, ?_, ?_⟩ <;> intros <;> rename_i h _ <;>
    simp only [tdRequire, tdMake, tdCheck, tdCheckDeps, tdRun] at h <;> cases h

section Steps
variable {node tn f : Nat} (ih : TdFrame sem body node tn f)
include ih

theorem tdRequire_frame (s : Sess) (t c : Nat) (s' : Sess) (o : Int) (h : SessWF s)
    (hn : s.store.taskOf node = some tn) (hne : s.cur ≠ some node)
    (hr : tdRequire sem body (f + 1) s t c = (s', .ok o)) (hx : KNoExec tn s s') :
    OutEq node s s' := by
  simp only [tdRequire] at hr
  split at hr
  · cases hr
  · rename_i s₁ heq
    split at hr
    · cases hr
    · rename_i s₂ out heq₂
      split at hr
      · cases hr
      · rename_i s₃ heq₃
        have hs : s₃ = s' := by cases hr; rfl
        have ho : out = o := by cases hr; rfl
        subst hs; subst ho
        have l0 := (Lk.emit h (.requireStart t c)).trans (Lk.getTask (h.emit _) t)
        have hd := Store.taskOf_getOrCreateTaskNode_self (h.emit (.requireStart t c)).store t
        have l1 : Lk _ s₁ := Lk.of_call (reserveRequire_ext l0.wf ⟨t, hd⟩) (ext_reserveRequire _ _) heq
        have l2 : Lk s₁ s₂ := Lk.of_call (tdMake_ext sem body f l1.wf t) (ext_tdMake sem body f _ _) heq₂
        have l2' := Lk.emit l2.wf (.requireEnd t c (sem.ostamp c out) out)
        have hd3 := (l1.trans (l2.trans l2')).task hd
        have l3 : Lk _ s₃ := Lk.of_call (updateRequire_ext l2'.wf c (sem.ostamp c out) hd3)
          (ext_updateRequire _ _ _ _ _) heq₃
        have c1 : s₁.cur = _ := cur_of_fst (cur_reserveRequire _ _) heq
        have c2 : s₂.cur = s₁.cur := cur_tdMake sem body heq₂
        have o0 : OutEq node s _ := outEq_getTask (h.emit (.requireStart t c)) node t
        have o1 : OutEq node _ s₁ := (outEq_reserveRequire l0.wf (node := node) hne _).out heq
        have o2 : OutEq node s₁ s₂ := ih.make s₁ t s₂ out l1.wf ((l0.trans l1).task hn) heq₂
          (hx.mid (l0.trans l1).tr l2.tr (l2'.trans l3).tr)
        have o3 : OutEq node (s₂.emit (.requireEnd t c (sem.ostamp c out) out)) s₃ :=
          (outEq_updateRequire (node := node) (by simp only [emit_cur]; rw [c2, c1]; exact hne)
            _ _ _ _).out heq₃
        exact o0.trans (o1.trans (o2.trans o3))

theorem tdMake_frame (s : Sess) (t : Nat) (s' : Sess) (o : Int) (h : SessWF s)
    (hn : s.store.taskOf node = some tn)
    (hr : tdMake sem body (f + 1) s t = (s', .ok o)) (hx : KNoExec tn s s') :
    OutEq node s s' := by
  simp only [tdMake] at hr
  have l0 := Lk.getTask h t
  have o0 : OutEq node s _ := outEq_getTask h node t
  have hd := Store.taskOf_getOrCreateTaskNode_self h.store t
  split at hr
  · split at hr
    · cases hr; exact o0
    · cases hr
  · split at hr
    · cases hr
    · rename_i s₁ o' heq
      cases hr
      have l1 : Lk _ s₁ := Lk.of_call (tdCheck_ext sem body f l0.wf _) (ext_tdCheck sem body f _ _) heq
      have o1 := ih.check _ _ s₁ _ l0.wf (l0.task hn) heq
        (hx.mid l0.tr l1.tr (TrPre.of_eq (by simp)))
      exact o0.trans (o1.trans (OutEq.of_store (by simp)))
    · rename_i s₁ heq
      have l1 : Lk _ s₁ := Lk.of_call (tdCheck_ext sem body f l0.wf _) (ext_tdCheck sem body f _ _) heq
      split at hr
      · cases hr
      · rename_i s₂ o' heq₂
        have hd1 := l1.task hd
        have l2 := Lk.startExec l1.wf hd1
        have l2' := Lk.emit l2.wf (.executeStart t)
        have l3 : Lk _ s₂ := Lk.of_call (tdRun_ext sem body f l2'.wf _) (ext_tdRun sem body f _ _) heq₂
        have tail : TrPre s₂ s' := by cases hr; exact ⟨[.executeEnd t o], by simp⟩
        -- the check
        have o1 := ih.check _ _ s₁ _ l0.wf (l0.task hn) heq
          (hx.mid l0.tr l1.tr (((l2.trans l2').trans l3).tr.trans tail))
        -- the executed task is not `tn`, so its node is not `node`
        have hne : t ≠ tn :=
          (hx.mid ((l0.trans l1).trans l2).tr l2'.tr (l3.tr.trans tail)).ne_of_emit
        have hnode : node ≠ (s.store.getOrCreateTaskNode t).2 := by
          intro hh
          have h1 := (l0.trans l1).task hn
          rw [hh, hd1] at h1
          exact hne (Option.some.inj h1)
        have o2 : OutEq node s₁
            { s₁ with store := s₁.store.resetTask (s.store.getOrCreateTaskNode t).2,
                      cur := some (s.store.getOrCreateTaskNode t).2 } := by
          show (s₁.store.resetTask _).g.outgoingEdges node = _
          rw [Store.outgoingEdges_resetTask l1.wf.store, if_neg hnode]
        have o3 := ih.run _ _ s₂ _ l2'.wf (((l0.trans l1).trans (l2.trans l2')).task hn)
          (by simp only [emit_cur]; intro hh; exact hnode (Option.some.inj hh).symm) heq₂
          (hx.mid ((l0.trans l1).trans (l2.trans l2')).tr l3.tr tail)
        have o4 : OutEq node s₂ s' := by
          cases hr
          unfold OutEq
          simp
        exact o0.trans (o1.trans ((o2.trans (OutEq.of_store rfl)).trans (o3.trans o4)))

theorem tdCheck_frame (s : Sess) (n : Nat) (s' : Sess) (o : Option Int) (h : SessWF s)
    (hn : s.store.taskOf node = some tn)
    (hr : tdCheck sem body (f + 1) s n = (s', .ok o)) (hx : KNoExec tn s s') :
    OutEq node s s' := by
  simp only [tdCheck] at hr
  split at hr
  · cases hr; exact OutEq.refl _ _
  · split at hr
    · cases hr
    · rename_i s₁ heq; cases hr; exact ih.checkDeps _ _ _ _ h hn heq hx
    · rename_i s₁ heq; cases hr; exact ih.checkDeps _ _ _ _ h hn heq hx

theorem tdCheckDeps_frame (s : Sess) (ds : List Dep) (s' : Sess) (b : Bool) (h : SessWF s)
    (hn : s.store.taskOf node = some tn)
    (hr : tdCheckDeps sem body (f + 1) s ds = (s', .ok b)) (hx : KNoExec tn s s') :
    OutEq node s s' := by
  cases ds with
  | nil => simp only [tdCheckDeps] at hr; cases hr; exact OutEq.refl _ _
  | cons d ds =>
    cases d with
    | reserved => simp only [tdCheckDeps] at hr; cases hr
    | require t c stamp =>
      simp only [tdCheckDeps] at hr
      have l0 := Lk.emit h (.checkTaskStart t c stamp)
      split at hr
      · cases hr
      · rename_i s₁ out heq
        have l1 : Lk _ s₁ := Lk.of_call (tdMake_ext sem body f l0.wf t) (ext_tdMake sem body f _ _) heq
        have l1' := Lk.emit l1.wf (.checkTaskEnd t c stamp (sem.ocheck c out stamp))
        split at hr
        · have l2 : Lk _ s' := Lk.of_call (tdCheckDeps_ext sem body f l1'.wf ds)
            (ext_tdCheckDeps sem body f _ _) hr
          have o1 := ih.make _ _ s₁ _ l0.wf (l0.task hn) heq (hx.mid l0.tr l1.tr (l1'.trans l2).tr)
          have o2 := ih.checkDeps _ _ s' _ l1'.wf ((l0.trans (l1.trans l1')).task hn) hr
            (hx.mid (l0.trans (l1.trans l1')).tr l2.tr (TrPre.refl _))
          exact (OutEq.of_store rfl).trans (o1.trans ((OutEq.of_store rfl).trans o2))
        · cases hr
          have o1 := ih.make _ _ s₁ _ l0.wf (l0.task hn) heq (hx.mid l0.tr l1.tr l1'.tr)
          exact (OutEq.of_store rfl).trans (o1.trans (OutEq.of_store rfl))
    | read r c stamp =>
      rw [tdCheckDeps_read] at hr
      split at hr
      · have l0 : Lk s (resCheckEvents s r c stamp (.ok true)) :=
          (Lk.emit h _).trans (Lk.emit (h.emit _) _)
        have l2 : Lk _ s' := Lk.of_call (tdCheckDeps_ext sem body f l0.wf ds)
          (ext_tdCheckDeps sem body f _ _) hr
        have o1 : OutEq node s (resCheckEvents s r c stamp (.ok true)) := OutEq.of_store rfl
        exact o1.trans (ih.checkDeps (resCheckEvents s r c stamp (.ok true)) ds s' b l0.wf
          (l0.task hn) hr (hx.mid l0.tr l2.tr (TrPre.refl _)))
      · cases hr; exact OutEq.of_store rfl
      · cases hr; exact OutEq.of_store rfl
    | write r c stamp =>
      rw [tdCheckDeps_write] at hr
      split at hr
      · have l0 : Lk s (resCheckEvents s r c stamp (.ok true)) :=
          (Lk.emit h _).trans (Lk.emit (h.emit _) _)
        have l2 : Lk _ s' := Lk.of_call (tdCheckDeps_ext sem body f l0.wf ds)
          (ext_tdCheckDeps sem body f _ _) hr
        have o1 : OutEq node s (resCheckEvents s r c stamp (.ok true)) := OutEq.of_store rfl
        exact o1.trans (ih.checkDeps (resCheckEvents s r c stamp (.ok true)) ds s' b l0.wf
          (l0.task hn) hr (hx.mid l0.tr l2.tr (TrPre.refl _)))
      · cases hr; exact OutEq.of_store rfl
      · cases hr; exact OutEq.of_store rfl

theorem tdRun_frame (s : Sess) (p : Prog) (s' : Sess) (o : Int) (h : SessWF s)
    (hn : s.store.taskOf node = some tn) (hne : s.cur ≠ some node)
    (hr : tdRun sem body (f + 1) s p = (s', .ok o)) (hx : KNoExec tn s s') :
    OutEq node s s' := by
  cases p with
  | ret v => simp only [tdRun] at hr; cases hr; exact OutEq.refl _ _
  | panic => simp only [tdRun] at hr; cases hr
  | req t c k =>
    simp only [tdRun] at hr
    split at hr
    · cases hr
    · rename_i s₁ out heq
      have l1 : Lk s s₁ := Lk.of_call (tdRequire_ext sem body f h t c) (ext_tdRequire sem body f _ _ _) heq
      have l2 : Lk s₁ s' := Lk.of_call (tdRun_ext sem body f l1.wf _) (ext_tdRun sem body f _ _) hr
      have c1 : s₁.cur = s.cur := cur_tdRequire sem body heq
      exact (ih.require _ _ _ _ _ h hn hne heq (hx.mid (TrPre.refl _) l1.tr l2.tr)).trans
        (ih.run _ _ _ _ l1.wf (l1.task hn) (by rw [c1]; exact hne) hr
          (hx.mid l1.tr l2.tr (TrPre.refl _)))
  | read r c k =>
    simp only [tdRun] at hr
    split at hr
    · cases hr
    · rename_i s₁ x heq
      have l1 : Lk s s₁ := Lk.of_call (doRead_ext sem h r c) (ext_doRead sem _ _ _) heq
      have l2 : Lk s₁ s' := Lk.of_call (tdRun_ext sem body f l1.wf _) (ext_tdRun sem body f _ _) hr
      have c1 : s₁.cur = s.cur := cur_of_fst (cur_doRead sem _ _ _) heq
      exact ((outEq_doRead sem h hne r c).out heq).trans
        (ih.run _ _ _ _ l1.wf (l1.task hn) (by rw [c1]; exact hne) hr
          (hx.mid l1.tr l2.tr (TrPre.refl _)))
  | write r c v k =>
    simp only [tdRun] at hr
    split at hr
    · cases hr
    · rename_i s₁ x heq
      have l1 : Lk s s₁ := Lk.of_call (doWrite_ext sem h r c v) (ext_doWrite sem _ _ _ _) heq
      have l2 : Lk s₁ s' := Lk.of_call (tdRun_ext sem body f l1.wf _) (ext_tdRun sem body f _ _) hr
      have c1 : s₁.cur = s.cur := cur_of_fst (cur_doWrite sem _ _ _ _) heq
      exact ((outEq_doWrite sem h hne r c v).out heq).trans
        (ih.run _ _ _ _ l1.wf (l1.task hn) (by rw [c1]; exact hne) hr
          (hx.mid l1.tr l2.tr (TrPre.refl _)))
  | wrote r c v k =>
    simp only [tdRun] at hr
    split at hr
    · cases hr
    · rename_i s₁ x heq
      have l1 : Lk s s₁ := Lk.of_call (doWrote_ext sem h r c v) (ext_doWrote sem _ _ _ _) heq
      have l2 : Lk s₁ s' := Lk.of_call (tdRun_ext sem body f l1.wf _) (ext_tdRun sem body f _ _) hr
      have c1 : s₁.cur = s.cur := cur_of_fst (cur_doWrote sem _ _ _ _) heq
      exact ((outEq_doWrote sem h hne r c v).out heq).trans
        (ih.run _ _ _ _ l1.wf (l1.task hn) (by rw [c1]; exact hne) hr
          (hx.mid l1.tr l2.tr (TrPre.refl _)))

end Steps

theorem tdFrame (node tn : Nat) (f : Nat) : TdFrame sem body node tn f := by
  induction f with
  | zero => exact tdFrame_zero node tn
  | succ f ih =>
    exact ⟨tdRequire_frame ih, tdMake_frame ih, tdCheck_frame ih, tdCheckDeps_frame ih,
      tdRun_frame ih⟩

end PieModel
